// Package hlib is the shared library of the correspondence engines: one PRNG, printers for
// Coq terms, the shard writer and the meta/evidence writer.  Every engine is its own binary
// under cmd/<engine>; all of them obey the same command line:
//
//	<engine> -seed S -n N -tier quick|thorough -out DIR [-only ID]
//
// and write DIR/shard_XXX.v (Coq files evaluated by coqc), DIR/cases.jsonl (one JSON object
// per case: id, shard, readable description, nontrivial flag) and DIR/meta.json.
package hlib

import (
	"crypto/sha256"
	"encoding/hex"
	"encoding/json"
	"flag"
	"fmt"
	"math/big"
	"os"
	"path/filepath"
	"runtime"
	"sort"
	"strings"
)

// ---------------------------------------------------------------- PRNG (splitmix64)

type Rng struct{ s uint64 }

// NewRng scrambles the seed first: consecutive seeds must not give streams that are shifted copies of each other.
func NewRng(seed uint64) *Rng {
	z := seed + 0x632BE59BD9B4E019
	z = (z ^ (z >> 30)) * 0xBF58476D1CE4E5B9
	z = (z ^ (z >> 27)) * 0x94D049BB133111EB
	z ^= z >> 31
	return &Rng{s: z ^ (seed << 32)}
}

func (r *Rng) U64() uint64 {
	r.s += 0x9E3779B97F4A7C15
	z := r.s
	z = (z ^ (z >> 30)) * 0xBF58476D1CE4E5B9
	z = (z ^ (z >> 27)) * 0x94D049BB133111EB
	return z ^ (z >> 31)
}

// Intn returns a value in [0,n).
func (r *Rng) Intn(n int) int {
	if n <= 0 {
		return 0
	}
	return int(r.U64() % uint64(n))
}

func (r *Rng) Bool() bool { return r.U64()&1 == 1 }

// Chance returns true with probability num/den.
func (r *Rng) Chance(num, den int) bool { return r.Intn(den) < num }

// Fork derives an independent stream (so that one case's choices do not shift the next one's).
func (r *Rng) Fork() *Rng { return &Rng{s: r.U64()} }

func (r *Rng) Perm(n int) []int {
	p := make([]int, n)
	for i := range p {
		p[i] = i
	}
	for i := n - 1; i > 0; i-- {
		j := r.Intn(i + 1)
		p[i], p[j] = p[j], p[i]
	}
	return p
}

// ---------------------------------------------------------------- Coq term printers

func Z(v int64) string {
	if v < 0 {
		return fmt.Sprintf("(%d)%%Z", v)
	}
	return fmt.Sprintf("%d%%Z", v)
}

func BigZ(v *big.Int) string {
	if v.Sign() < 0 {
		return fmt.Sprintf("(%s)%%Z", v.String())
	}
	return fmt.Sprintf("%s%%Z", v.String())
}

func N(v uint64) string { return fmt.Sprintf("%d%%N", v) }

// NHex prints an N in hexadecimal (bit patterns are easier to read that way).
func NHex(v uint64) string { return fmt.Sprintf("0x%x%%N", v) }

func Nat(v int) string { return fmt.Sprintf("%d%%nat", v) }

func Bool(b bool) string {
	if b {
		return "true"
	}
	return "false"
}

// Bytes prints a byte string as (bs len 0xHEX).
func Bytes(b []byte) string {
	if len(b) == 0 {
		return "(@nil N)"
	}
	return fmt.Sprintf("(bs %d 0x%s)", len(b), hex.EncodeToString(b))
}

func Str(s string) string { return Bytes([]byte(s)) }

// OptStr prints a *string as an option bytes.
func OptStr(s *string) string {
	if s == nil {
		return "None"
	}
	return "(Some " + Str(*s) + ")"
}

func List(items []string) string {
	if len(items) == 0 {
		return "[]"
	}
	return "[" + strings.Join(items, "; ") + "]"
}

func Some(s string) string { return "(Some " + s + ")" }

func Pair(a, b string) string { return "(" + a + ", " + b + ")" }

func NatList(v []int) string {
	it := make([]string, len(v))
	for i, x := range v {
		it[i] = Nat(x)
	}
	return List(it)
}

func U32List(v []uint32) string {
	it := make([]string, len(v))
	for i, x := range v {
		it[i] = Nat(int(x))
	}
	return List(it)
}

func ZList(v []int) string {
	it := make([]string, len(v))
	for i, x := range v {
		it[i] = Z(int64(x))
	}
	return List(it)
}

func BoolList(v []bool) string {
	it := make([]string, len(v))
	for i, x := range v {
		it[i] = Bool(x)
	}
	return List(it)
}

// ---------------------------------------------------------------- configuration

type Config struct {
	Seed uint64
	N    int
	Tier string
	Out  string
	Only int // -1 = all
}

func ParseFlags() Config {
	var c Config
	flag.Uint64Var(&c.Seed, "seed", 1, "PRNG seed")
	flag.IntVar(&c.N, "n", 100, "number of cases (engines may scale it)")
	flag.StringVar(&c.Tier, "tier", "quick", "quick|thorough")
	flag.StringVar(&c.Out, "out", "", "output directory")
	flag.IntVar(&c.Only, "only", -1, "emit only the case with this id (replay)")
	flag.Parse()
	if c.Out == "" {
		fmt.Fprintln(os.Stderr, "missing -out")
		os.Exit(2)
	}
	if err := os.MkdirAll(c.Out, 0o755); err != nil {
		panic(err)
	}
	return c
}

// ---------------------------------------------------------------- shard writer

// Suite collects the cases of one engine run.
type Suite struct {
	cfg       Config
	Engine    string
	Header    string // Coq text placed before the cases (imports, scopes)
	CaseType  string // Coq type of one case
	CheckFn   string // Coq function : CaseType -> N  (0 = agree, see Base/CaseLib.v)
	PerShard  int
	cases     []caseRec
	seen      map[string]bool
	distinct  int
	Dist      map[string]int // input distribution counters
	ImplFails []ImplFail
	// BrokenTies: the engine itself found that the model can no longer be compared with the implementation
	// (e.g. an internal write pattern changed); not a violation of a property
	BrokenTies []string
	samples    []interface{}
	Rule       string
}

type caseRec struct {
	id         int
	coq        string
	desc       interface{}
	nontrivial bool
}

// ImplFail is a failure observed directly on the implementation by the Go side (panic, race, ...).
type ImplFail struct {
	ID   int         `json:"id"`
	What string      `json:"what"`
	Case interface{} `json:"case"`
	// Class is the classifier name matched against known_findings.json ("" = none)
	Class string `json:"class,omitempty"`
}

func NewSuite(cfg Config, engine string) *Suite {
	return &Suite{cfg: cfg, Engine: engine, PerShard: 250, seen: map[string]bool{}, Dist: map[string]int{}}
}

func (s *Suite) Count(key string) { s.Dist[key]++ }

// NextID is the id the next added case will get.
func (s *Suite) NextID() int { return len(s.cases) }

// Add registers a case: its Coq term, a readable description (JSON-able) and whether it is
// non-trivial by the engine's rule.  Distinctness is measured on the Coq term.
func (s *Suite) Add(coq string, desc interface{}, nontrivial bool) int {
	id := len(s.cases)
	s.cases = append(s.cases, caseRec{id: id, coq: coq, desc: desc, nontrivial: nontrivial})
	h := sha256.Sum256([]byte(coq))
	k := string(h[:12])
	if !s.seen[k] {
		s.seen[k] = true
		if nontrivial {
			s.distinct++
		}
	}
	if len(s.samples) < 3 && nontrivial {
		s.samples = append(s.samples, desc)
	}
	return id
}

func (s *Suite) Fail(id int, what string, c interface{}, class string) {
	s.ImplFails = append(s.ImplFails, ImplFail{ID: id, What: what, Case: c, Class: class})
}

// Broken records that a correspondence can no longer be evaluated (reported by ./check as a broken tie).
func (s *Suite) Broken(what string) { s.BrokenTies = append(s.BrokenTies, what) }

// FinishOnPanic is deferred by every engine right after NewSuite: a panic of the library that reaches the engine's
// main outside every guarded call must not lose what was generated so far, and is itself the report of a failing
// input (the engine was in the middle of a case): the panic is recorded as a failure, with the stack, and the
// suite is finished normally so that the cases already generated are evaluated.
func (s *Suite) FinishOnPanic() {
	if r := recover(); r != nil {
		buf := make([]byte, 6000)
		buf = buf[:runtime.Stack(buf, false)]
		s.Fail(-1, fmt.Sprintf("the library panicked outside every guarded call of the engine: %v", r), map[string]interface{}{"stack": string(buf)}, "engine-aborted-by-library-panic")
		s.Finish()
	}
}

func (s *Suite) Finish() {
	out := s.cfg.Out
	cj, err := os.Create(filepath.Join(out, "cases.jsonl"))
	if err != nil {
		panic(err)
	}
	enc := json.NewEncoder(cj)
	shard := 0
	var cur []caseRec
	flush := func() {
		if len(cur) == 0 {
			return
		}
		var b strings.Builder
		b.WriteString(s.Header)
		b.WriteString("\nDefinition cases : list (N * (" + s.CaseType + ")) := [\n")
		for i, c := range cur {
			if i > 0 {
				b.WriteString(";\n")
			}
			fmt.Fprintf(&b, "  (%d%%N, %s)", c.id, c.coq)
		}
		b.WriteString("\n].\n")
		b.WriteString("Definition results := Eval vm_compute in (run_cases (" + s.CheckFn + ") cases).\nPrint results.\n")
		if err := os.WriteFile(filepath.Join(out, fmt.Sprintf("shard_%03d.v", shard)), []byte(b.String()), 0o644); err != nil {
			panic(err)
		}
		shard++
		cur = cur[:0]
	}
	for _, c := range s.cases {
		if s.cfg.Only >= 0 && c.id != s.cfg.Only {
			continue
		}
		_ = enc.Encode(map[string]interface{}{"id": c.id, "shard": shard, "case": c.desc, "nontrivial": c.nontrivial})
		cur = append(cur, c)
		if len(cur) >= s.PerShard {
			flush()
		}
	}
	flush()
	cj.Close()
	keys := make([]string, 0, len(s.Dist))
	for k := range s.Dist {
		keys = append(keys, k)
	}
	sort.Strings(keys)
	meta := map[string]interface{}{
		"engine":              s.Engine,
		"seed":                s.cfg.Seed,
		"tier":                s.cfg.Tier,
		"evaluations":         len(s.cases),
		"distinct_nontrivial": s.distinct,
		"rule":                s.Rule,
		"distribution":        s.Dist,
		"samples":             s.samples,
		"impl_failures":       s.ImplFails,
		"broken_ties":         s.BrokenTies,
		"shards":              shard,
	}
	mb, _ := json.MarshalIndent(meta, "", " ")
	if err := os.WriteFile(filepath.Join(out, "meta.json"), mb, 0o644); err != nil {
		panic(err)
	}
}

// Recover runs f and reports whether it panicked (and with what).
func Recover(f func()) (panicked bool, val interface{}) {
	defer func() {
		if r := recover(); r != nil {
			panicked = true
			val = r
		}
	}()
	f()
	return
}
