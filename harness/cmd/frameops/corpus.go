package main

// Corpus: fixed, directed cases that run before the generated ones on every execution.  They are the minimised
// inputs of findings (known ones must keep reproducing so that their KNOWN-FINDING line is printed on every run;
// repaired ones must pass).

import (
	"fmt"
	"strings"

	"github.com/tobgu/qframe"
	"github.com/tobgu/qframe/config/newqf"
	"github.com/tobgu/qframe/types"
	"verifharness/hlib"
)

func corpusCases(s *hlib.Suite) {
	base := qframe.New(map[string]types.DataSlice{"A": []int{1, 2, 3}, "S": []string{"x", "y", "z"}}, newqf.ColumnOrder("A", "S"))
	in := qframe.VerifDump(base)
	gt1 := &cnode{kind: "leaf", col: "A", cmpS: ">", cmpGo: ">", argGo: 1, argC: "(AInt 1%Z)", desc: "A > 1"}

	// K1: FilteredApply with a ColumnName instruction (rows that do not match keep the source's values)
	{
		desc := map[string]interface{}{"op": "filteredapply", "corpus": "K1", "clause": gt1.String(), "instructions": []string{"B := col A"},
			"props": []string{"C06"}, "class": "filteredapply-columnname-copy"}
		od, ok := runOp(s, base, desc, func() qframe.QFrame {
			return base.FilteredApply(gt1.goClause(), qframe.Instruction{Fn: types.ColumnName("A"), DstCol: "B"})
		})
		if ok {
			instr := "(mkInstr (F0ColName " + hlib.Str("A") + ") " + hlib.Str("B") + " " + hlib.Str("") + " " + hlib.Str("") + ")"
			s.Add(fmt.Sprintf("FFilteredApply %s [] [] %s %s %s", coqFrame(in), gt1.coq(), hlib.List([]string{instr}), coqFrame(od)), desc, true)
		}
	}
	// K4: FilteredApply with the built-in ToUpper on an ENUM column (the enum ToUpper ignores the row index: rows that
	// do not match get the upper-cased source value instead of the zero/null value)
	{
		eb := qframe.New(map[string]types.DataSlice{"A": []int{1, 2, 3}, "E": []string{"x", "y", "z"}}, newqf.ColumnOrder("A", "E"), newqf.Enums(map[string][]string{"E": nil}))
		ein := qframe.VerifDump(eb)
		desc := map[string]interface{}{"op": "filteredapply", "corpus": "K4", "clause": gt1.String(), "instructions": []string{"U := ToUpper(E)"},
			"props": []string{"C06"}, "class": "filteredapply-enum-toupper"}
		od, ok := runOp(s, eb, desc, func() qframe.QFrame {
			return eb.FilteredApply(gt1.goClause(), qframe.Instruction{Fn: "ToUpper", DstCol: "U", SrcCol1: "E"})
		})
		if ok {
			instr := "(mkInstr (FBuiltin " + hlib.Str("ToUpper") + ") " + hlib.Str("U") + " " + hlib.Str("E") + " " + hlib.Str("") + ")"
			s.Add(fmt.Sprintf("FFilteredApply %s [] %s %s %s %s", coqFrame(ein), upperTable(ein, od), gt1.coq(), hlib.List([]string{instr}), coqFrame(od)), desc, true)
		}
	}
	// F22 (repaired): FilteredApply with a constant instruction gives the other rows the zero value
	{
		desc := map[string]interface{}{"op": "filteredapply", "corpus": "F22", "clause": gt1.String(), "instructions": []string{"B := const 7"}, "props": []string{"C06"}}
		od, ok := runOp(s, base, desc, func() qframe.QFrame {
			return base.FilteredApply(gt1.goClause(), qframe.Instruction{Fn: 7, DstCol: "B"})
		})
		if ok {
			instr := "(mkInstr (F0Const " + cInt(7) + ") " + hlib.Str("B") + " " + hlib.Str("") + " " + hlib.Str("") + ")"
			s.Add(fmt.Sprintf("FFilteredApply %s [] [] %s %s %s", coqFrame(in), gt1.coq(), hlib.List([]string{instr}), coqFrame(od)), desc, true)
		}
	}
	// K3: a missing column named like a live temporary is captured by Eval instead of being reported
	{
		a := "(EColName " + hlib.Str("A") + ")"
		inner := "(EBuilt (expr_call " + hlib.Str("-") + " " + hlib.List([]string{a, a}) + "))"
		top := "(EBuilt (expr_call " + hlib.Str("-") + " " + hlib.List([]string{inner, "(EColName " + hlib.Str("colcol-temp-0") + ")"}) + "))"
		ctx := "[((TInt, true, " + hlib.Str("-") + "), (F2 TInt " + hlib.List([]string{
			"(" + cInt(1) + ", " + cInt(1) + ", " + cInt(0) + ")", "(" + cInt(2) + ", " + cInt(2) + ", " + cInt(0) + ")",
			"(" + cInt(3) + ", " + cInt(3) + ", " + cInt(0) + ")", "(" + cInt(0) + ", " + cInt(0) + ", " + cInt(0) + ")"}) + "))]"
		desc := map[string]interface{}{"op": "eval", "corpus": "K3", "dst": "B", "expr": "-(-(col(A), col(A)), col(colcol-temp-0))",
			"props": []string{"C07", "C10"}, "class": "eval-missing-column-named-like-a-temporary"}
		e := qframe.Expr("-", qframe.Expr("-", types.ColumnName("A"), types.ColumnName("A")), types.ColumnName("colcol-temp-0"))
		od, ok := runOp(s, base, desc, func() qframe.QFrame { return base.Eval("B", e) })
		if ok {
			s.Add(fmt.Sprintf("FEval %s [] %s %s %s %s", coqFrame(in), ctx, hlib.Str("B"), top, coqFrame(od)), desc, true)
		}
	}
	// F23 / F24 (repaired): New must reject a column order naming a column twice and an enum declaration listing a
	// value twice
	{
		data := map[string]types.DataSlice{"A": []int{1}, "B": []int{1, 2, 3}}
		desc := map[string]interface{}{"op": "new", "corpus": "F23", "order": []string{"A", "A"}, "props": []string{"C08"}}
		var out qframe.QFrame
		if p, v := hlib.Recover(func() { out = qframe.New(data, newqf.ColumnOrder("A", "A")) }); p {
			s.Fail(s.NextID(), fmt.Sprintf("New panicked: %v", v), desc, "")
		} else {
			cd := "[(" + hlib.Str("A") + ", DInts " + hlib.ZList([]int{1}) + "); (" + hlib.Str("B") + ", DInts " + hlib.ZList([]int{1, 2, 3}) + ")]"
			s.Add(fmt.Sprintf("FNew %s %s [] %s", cd, strList([]string{"A", "A"}), coqFrame(qframe.VerifDump(out))), desc, true)
		}
		d2 := map[string]types.DataSlice{"c": []string{"a", "b", "a"}}
		desc2 := map[string]interface{}{"op": "new", "corpus": "F24", "enums": map[string][]string{"c": {"a", "b", "a"}}, "props": []string{"C08", "C17"}}
		if p, v := hlib.Recover(func() { out = qframe.New(d2, newqf.Enums(map[string][]string{"c": {"a", "b", "a"}})) }); p {
			s.Fail(s.NextID(), fmt.Sprintf("New panicked: %v", v), desc2, "")
		} else {
			cd := "[(" + hlib.Str("c") + ", DStrings " + strList([]string{"a", "b", "a"}) + ")]"
			ce := "[(" + hlib.Str("c") + ", " + strList([]string{"a", "b", "a"}) + ")]"
			s.Add(fmt.Sprintf("FNew %s [] %s %s", cd, ce, coqFrame(qframe.VerifDump(out))), desc2, true)
		}
	}
	// F25 (repaired): a frame read from a header-only CSV document has untyped zero-length columns; Equals must
	// still be reflexive on it
	{
		desc := map[string]interface{}{"op": "equals", "corpus": "F25", "frame": "ReadCSV of the header-only document A,B", "props": []string{"C09"}}
		hf := qframe.ReadCSV(strings.NewReader("A,B\n"))
		if hf.Err != nil {
			s.Fail(s.NextID(), "ReadCSV of a header-only document failed: "+hf.Err.Error(), desc, "")
		} else if eq, reason := hf.Equals(hf); !eq {
			s.Fail(s.NextID(), "Equals is not reflexive on a frame without rows read from a header-only CSV document: "+reason, desc, "")
		}
		hg := qframe.ReadCSV(strings.NewReader("A,B\n"))
		if eq, _ := hf.Equals(hg); hf.Err == nil && hg.Err == nil && !eq {
			s.Fail(s.NextID(), "two frames read from the same header-only CSV document are not Equal", desc, "")
		}
	}
	s.Count("corpus-cases")
}
