// Engine "frameops": public operations of QFrame on frames however derived, one case per operation, with the
// physical state of input and output dumped through the hook (VerifDump) and compared with Model/*.v (code 1)
// and with the row-wise specification (code 2).
package main

import (
	"fmt"

	"github.com/tobgu/qframe"
	"verifharness/hlib"
)

func main() {
	cfg := hlib.ParseFlags()
	s := hlib.NewSuite(cfg, "frameops")
	defer s.FinishOnPanic()
	s.Header = "From QF Require Import Base.Prelude Base.CaseLib Model.Frame Model.Filter Model.Ops Model.Eval Corr.FrameCorr.\nLocal Open Scope N_scope.\n"
	s.CaseType = "frame_case"
	s.CheckFn = "check_frame_case"
	s.PerShard = 120
	s.Rule = "random frames (1-5 columns of all five types, 0-40 rows, boundary value pools, small alphabets half of the time) whose row index was scrambled by 0-3 of Sort/Slice/Filter/Distinct; one public operation per case; filter family: clause trees of depth <= 3 over the full comparator x argument-kind product incl. custom predicates (recorded), Or batches, inverted leaves, plus a malformed stream (1 in 4). Non-trivial = frame has rows and the index is not the identity or the clause is not a single valid leaf; distinct by Coq term."
	r := hlib.NewRng(cfg.Seed)
	if p, v := hlib.Recover(func() { corpusCases(s) }); p {
		s.Fail(s.NextID(), fmt.Sprintf("the library panicked in a corpus case: %v", v), map[string]interface{}{"family": "corpus"}, "")
	}
	sweepN := 2600
	if cfg.Tier == "thorough" {
		sweepN = 9000
	}
	if p, v := hlib.Recover(func() { observerSweep(s, sweepN) }); p {
		s.Fail(s.NextID(), fmt.Sprintf("the library panicked in the observer sweep: %v", v), map[string]interface{}{"family": "observer sweep"}, "")
	}
	for i := 0; i < cfg.N; i++ {
		cr := r.Fork()
		// a panic anywhere while a case is built (derivation steps, observations) is a panic of the library on
		// ordinary use: it is reported with the family as its input, the engine carries on
		family := ""
		run := func() {
			if r.Chance(1, 40) {
				family = "enum boundary"
				enumBoundaryCase(cr, s)
				return
			}
			if r.Chance(1, 12) {
				family = "groupby+aggregate"
				aggCase(cr, s)
				return
			}
			if r.Chance(1, 40) {
				family = "string"
				stringCase(cr, s)
				return
			}
			if r.Chance(1, 60) {
				family = "duplicate names"
				dupNamesCase(cr, s)
				return
			}
			switch k := r.Intn(22); {
			case k < 8:
				family = "filter"
				filterCase(cr, s)
			case k < 11:
				family = "projection"
				projCase(cr, s)
			case k < 15:
				family = "apply"
				applyCase(cr, s)
			case k < 17:
				family = "eval"
				evalCase(cr, s)
			case k < 18:
				family = "eval (plain context)"
				plainEvalCase(cr, s)
			case k < 20:
				family = "equals"
				equalsCase(cr, s)
			default:
				family = "new"
				newCase(cr, s)
			}
		}
		if p, v := hlib.Recover(run); p {
			s.Fail(s.NextID(), fmt.Sprintf("the library panicked while a %s case was prepared from error-free frames: %v", family, v),
				map[string]interface{}{"family": family, "case_number": i, "seed": cfg.Seed}, "")
		}
	}
	seenMD := map[string]bool{}
	for _, d := range matcherDisagreements {
		if !seenMD[d] {
			seenMD[d] = true
			s.Fail(s.NextID(), "like/ilike matcher: "+d, map[string]interface{}{"family": "matcher reference", "what": d, "props": []string{"C02", "C18"}}, "")
		}
	}
	s.Finish()
}

func filterCase(r *hlib.Rng, s *hlib.Suite) {
	promo := r.Chance(1, 15)
	enumLike := !promo && r.Chance(1, 8)
	var need []string
	if promo {
		need = []string{"int", "float"}
	}
	if enumLike {
		need = []string{"enum", "string"}
		forceCaseCluster = true
	}
	qf, cols := genFrame(r, need)
	forceCaseCluster = false
	var hist []string
	if enumLike && r.Chance(1, 2) {
		// the row order rearranged ONCE on an otherwise fresh frame (ends fixed two times in three): the index is a
		// permutation of a contiguous block of rows
		forceCaseCluster = true
		for try := 0; try < 10 && qf.Len() < 4; try++ {
			qf, cols = genFrame(r, need)
		}
		forceCaseCluster = false
		if qf.Len() >= 2 {
			var h string
			qf, h = rearrange(r, qf)
			hist = []string{h}
		}
		s.Count("filter-like-on-rearranged-rows")
	} else {
		forceRearrange = enumLike
		qf, cols, hist = deriveCols(r, qf, cols, s)
		forceRearrange = false
	}
	malformed := r.Chance(1, 4)
	cl := genClause(r, cols, 3, malformed)
	if promo {
		if pc := genPromotionClause(r, cols); pc != nil {
			cl, malformed = pc, false
			s.Count("filter-int-float-promotion")
		}
	}
	if enumLike {
		if pc := genEnumLikeClause(r, cols); pc != nil {
			cl, malformed = pc, false
			s.Count("filter-like-case-variants")
		}
	}
	in := qframe.VerifDump(qf)
	before := digest(qf)
	var out qframe.QFrame
	id := s.NextID()
	desc := map[string]interface{}{"op": "filter", "clause": cl.String(), "derivation": hist, "rows": qf.Len(), "props": []string{"C02", "C10", "C01", "C17", "C18"}}
	if p, v := hlib.Recover(func() { out = qf.Filter(cl.goClause()) }); p {
		s.Count("filter-panic")
		s.Fail(id, fmt.Sprintf("Filter panicked: %v", v), desc, "")
		s.Add("FFilter "+coqFrame(in)+" [] CNull "+coqFrame(in), desc, false)
		return
	}
	if digest(qf) != before {
		s.Fail(id, "Filter changed its receiver", desc, "")
	}
	od := qframe.VerifDump(out)
	if msg := checkByName(od); msg != "" {
		s.Fail(id, msg, desc, "")
	}
	// all columns intact
	if len(od.Columns) != len(in.Columns) {
		s.Fail(id, "Filter changed the number of columns", desc, "")
	} else {
		for i := range od.Columns {
			if !colEq(od.Columns[i], in.Columns[i]) {
				s.Fail(id, "Filter changed column "+od.Columns[i].Name, desc, "")
			}
		}
	}
	if out.Err != nil {
		s.Count("filter-err")
	} else {
		s.Count("filter-ok")
	}
	if malformed {
		s.Count("filter-malformed-stream")
	}
	s.Count("clause-root-" + cl.kind)
	mt := matcherTable(cl, in)
	cl.complete(in)
	nontrivial := qf.Len() > 0 && (len(hist) > 0 || cl.kind != "leaf")
	s.Add("FFilter "+coqFrame(in)+" "+mt+" "+cl.coq()+" "+coqFrame(od), desc, nontrivial)
}
