package main

// GroupBy / Aggregate / QFrames family: the groups are read through the hook (VerifGroups); the partition itself is
// decided by the group engine, here the statement about Aggregate and QFrames is checked: one row per group, key
// values of the group, each aggregation = the function applied to exactly that group's values in frame order.

import (
	"fmt"
	"math"

	"github.com/tobgu/qframe"
	"github.com/tobgu/qframe/config/groupby"
	"github.com/tobgu/qframe/types"
	"verifharness/hlib"
)

func cellList(kind string, vals []interface{}) string {
	it := make([]string, len(vals))
	for i, v := range vals {
		it[i] = cellOf(kind, v)
	}
	return hlib.List(it)
}

// reference implementations of the built in aggregations (the statement's reading: fold in frame order)
func refAgg(kind, name string, vals []interface{}) (string, bool) {
	switch kind {
	case "int":
		switch name {
		case "sum":
			r := 0
			for _, v := range vals {
				r += v.(int)
			}
			return cInt(r), true
		case "max":
			r := vals[0].(int)
			for _, v := range vals[1:] {
				if v.(int) > r {
					r = v.(int)
				}
			}
			return cInt(r), true
		case "min":
			r := vals[0].(int)
			for _, v := range vals[1:] {
				if v.(int) < r {
					r = v.(int)
				}
			}
			return cInt(r), true
		}
	case "float":
		switch name {
		case "sum", "avg":
			r := 0.0
			for _, v := range vals {
				r += v.(float64)
			}
			if name == "avg" {
				r /= float64(len(vals))
			}
			return cFloat(r), true
		case "max":
			r := vals[0].(float64)
			for _, v := range vals[1:] {
				r = math.Max(r, v.(float64))
			}
			return cFloat(r), true
		case "min":
			r := vals[0].(float64)
			for _, v := range vals[1:] {
				r = math.Min(r, v.(float64))
			}
			return cFloat(r), true
		}
	case "bool":
		if name == "majority" {
			t, f := 0, 0
			for _, v := range vals {
				if v.(bool) {
					t++
				} else {
					f++
				}
			}
			return cBool(t > f), true
		}
	}
	return "", false
}

func colValues(qf qframe.QFrame, c genCol) []interface{} {
	n := qf.Len()
	out := make([]interface{}, n)
	switch c.kind {
	case "int":
		v := qf.MustIntView(c.name)
		for i := range out {
			out[i] = v.ItemAt(i)
		}
	case "float":
		v := qf.MustFloatView(c.name)
		for i := range out {
			out[i] = v.ItemAt(i)
		}
	case "bool":
		v := qf.MustBoolView(c.name)
		for i := range out {
			out[i] = v.ItemAt(i)
		}
	case "string":
		v := qf.MustStringView(c.name)
		for i := range out {
			out[i] = cp(v.ItemAt(i))
		}
	case "enum":
		v := qf.MustEnumView(c.name)
		for i := range out {
			out[i] = cp(v.ItemAt(i))
		}
	}
	return out
}

func aggCase(r *hlib.Rng, s *hlib.Suite) {
	qf, cols := genFrame(r, nil)
	qf, cols, hist := deriveCols(r, qf, cols, s)
	malformed := r.Chance(1, 5)
	in := qframe.VerifDump(qf)
	// grouping columns: a random subset in random order (possibly none)
	nk := r.Intn(min(len(cols), 2) + 1)
	perm := r.Perm(len(cols))
	keyCols := []string{}
	for i := 0; i < nk; i++ {
		keyCols = append(keyCols, cols[perm[i]].name)
	}
	if malformed && r.Chance(1, 3) {
		keyCols = append(keyCols, "nosuch")
	}
	nulleq := r.Bool()
	desc := map[string]interface{}{"op": "groupby+aggregate", "keys": keyCols, "null": nulleq, "derivation": hist, "props": []string{"C04", "C10", "C01"}}
	id := s.NextID()
	before := digest(qf)
	var g qframe.Grouper
	if p, v := hlib.Recover(func() { g = qf.GroupBy(groupby.Columns(keyCols...), groupby.Null(nulleq)) }); p {
		s.Fail(id, fmt.Sprintf("GroupBy panicked: %v", v), desc, "")
		return
	}
	groups := qframe.VerifGroups(g)
	// other operations given the SAME column list (one option payload shared by several calls) must leave it, and the
	// grouper built from it, as they were
	keysBefore := fmt.Sprintf("%q", keyCols)
	hlib.Recover(func() {
		_ = qf.Distinct(groupby.Columns(keyCols...), groupby.Null(nulleq))
		_ = qf.Distinct(groupby.Columns(keyCols...))
		_ = qf.GroupBy(groupby.Columns(keyCols...), groupby.Null(!nulleq))
		_ = qf.Select(keyCols...)
		_ = qf.Drop(keyCols...)
	})
	if after := fmt.Sprintf("%q", keyCols); after != keysBefore {
		d2 := map[string]interface{}{"props": []string{"C01", "C04"}}
		for k, x := range desc {
			if k != "props" {
				d2[k] = x
			}
		}
		s.Fail(id, fmt.Sprintf("an operation changed the column list it was given: %s became %s (a grouper built earlier from the same list is changed with it)", keysBefore, after), d2, "")
	}
	// aggregations
	type aggN struct {
		a     qframe.Aggregation
		coq   func() string
		descr string
	}
	na := r.Intn(3)
	if len(keyCols) == 0 && na == 0 {
		na = 1
	}
	aggs := []aggN{}
	used := map[string]bool{}
	for _, k := range keyCols {
		used[k] = true
	}
	for i := 0; i < na; i++ {
		c := cols[r.Intn(len(cols))]
		as := ""
		if r.Bool() {
			as = fmt.Sprintf("agg%d", i)
		}
		dstName := c.name
		if as != "" {
			dstName = as
		}
		if used[dstName] && !malformed {
			as = fmt.Sprintf("agg%d", i)
			dstName = as
		}
		if r.Chance(1, 7) {
			// Aggregate takes the new name as it is, so the result may carry a name that no other
			// operation would accept as a destination
			as = []string{"$total", "'q'", "\"q\"", "$x"}[r.Intn(4)] + fmt.Sprint(i)
			dstName = as
		}
		used[dstName] = true
		vals := colValues(qf, c)
		pos := map[uint32]int{}
		for i, p := range in.Index {
			pos[p] = i
		}
		groupVals := func(gr []uint32) []interface{} {
			out := make([]interface{}, len(gr))
			for j, p := range gr {
				out[j] = vals[pos[p]]
			}
			return out
		}
		kind := c.kind
		if kind == "enum" {
			kind = "string"
		}
		var fn interface{}
		var coq func() string
		descr := ""
		switch r.Intn(3) {
		case 0:
			fn, descr = "count", "count"
			coq = func() string { return "AggCount" }
		case 1: // built in
			name := map[string][]string{"int": {"sum", "max", "min"}, "float": {"sum", "avg", "max", "min"}, "bool": {"majority"}, "string": {"sum"}}[kind]
			bn := name[r.Intn(len(name))]
			if malformed && r.Chance(1, 3) {
				bn = "median"
			}
			fn, descr = bn, bn
			coq = func() string {
				entries := []string{}
				for _, gr := range groups {
					gv := groupVals(gr)
					if exp, ok := refAgg(kind, bn, gv); ok {
						entries = append(entries, "("+cellList(kind, gv)+", "+exp+")")
					}
				}
				return "(AggBuiltin " + hlib.Str(bn) + " " + hlib.List(dedup(entries)) + ")"
			}
		default: // user function: pure and order sensitive; the expected value is computed from the group's values in frame order
			pureI := func(x []int) int {
				sum := 0
				for _, v := range x {
					sum = sum*31 + v
				}
				return sum
			}
			pureF := func(x []float64) float64 {
				acc := 0.0
				for _, v := range x {
					acc = acc/2 + v
				}
				return acc
			}
			pureB := func(x []bool) bool { return len(x) > 0 && x[0] }
			pureS := func(x []*string) *string {
				acc := ""
				for _, v := range x {
					if v == nil {
						acc += "<nil>"
					} else {
						acc += *v + ";"
					}
				}
				if len(x)%2 == 1 {
					return &acc
				}
				return nil
			}
			// half of the callbacks overwrite their argument (a scratch copy, reading decision 9), the other half leave
			// it as they got it (a buffer that is reused between groups must be rewritten completely by the library)
			scribble := r.Bool()
			switch kind {
			case "int":
				fn = func(x []int) int {
					v := pureI(x)
					for i := range x { // the argument is a scratch copy: overwriting it must not reach any frame
						if scribble {
							x[i] = -12345
						}
					}
					return v
				}
			case "float":
				fn = func(x []float64) float64 {
					v := pureF(x)
					for i := range x {
						if scribble {
							x[i] = -1.25
						}
					}
					return v
				}
			case "bool":
				fn = func(x []bool) bool {
					v := pureB(x)
					for i := range x {
						if scribble {
							x[i] = !x[i]
						}
					}
					return v
				}
			default:
				fn = func(x []*string) *string {
					// copy: the slice and the strings must not be kept
					y := make([]*string, len(x))
					for i, v := range x {
						y[i] = cp(v)
						if scribble {
							x[i] = nil
						}
					}
					return pureS(y)
				}
			}
			descr = "userfn"
			coq = func() string {
				entries := []string{}
				for _, gr := range groups {
					gv := groupVals(gr)
					var exp string
					switch kind {
					case "int":
						x := make([]int, len(gv))
						for i, v := range gv {
							x[i] = v.(int)
						}
						exp = cInt(pureI(x))
					case "float":
						x := make([]float64, len(gv))
						for i, v := range gv {
							x[i] = v.(float64)
						}
						exp = cFloat(pureF(x))
					case "bool":
						x := make([]bool, len(gv))
						for i, v := range gv {
							x[i] = v.(bool)
						}
						exp = cBool(pureB(x))
					default:
						x := make([]*string, len(gv))
						for i, v := range gv {
							x[i] = v.(*string)
						}
						exp = cStr(pureS(x))
					}
					entries = append(entries, "("+cellList(kind, gv)+", "+exp+")")
				}
				return "(AggUser " + map[string]string{"int": "TInt", "float": "TFloat", "bool": "TBool", "string": "TString"}[kind] + " " + hlib.List(dedup(entries)) + ")"
			}
			if malformed && r.Chance(1, 3) {
				// a function of another element type, or no function at all
				switch r.Intn(3) {
				case 0:
					if kind == "int" {
						fn = pureF
						coq = func() string { return "(AggUser TFloat [])" }
					} else {
						fn = pureI
						coq = func() string { return "(AggUser TInt [])" }
					}
					descr = "userfn of another type"
				case 1:
					if kind == "bool" {
						fn = func(x []*string) *string { return nil }
						coq = func() string { return "(AggUser TString [])" }
					} else {
						fn = pureB
						coq = func() string { return "(AggUser TBool [])" }
					}
					descr = "userfn of another type"
				default:
					fn = 42
					coq = func() string { return "AggOther" }
					descr = "not a function"
				}
			}
		}
		col := c.name
		if malformed && r.Chance(1, 6) {
			col = "nosuchcol"
		}
		aggs = append(aggs, aggN{qframe.Aggregation{Fn: fn, Column: col, As: as}, coq, fmt.Sprintf("%s(%s) as %q", descr, col, as)})
	}
	goAggs := make([]qframe.Aggregation, len(aggs))
	descs := make([]string, len(aggs))
	for i, a := range aggs {
		goAggs[i], descs[i] = a.a, a.descr
	}
	desc["aggregations"] = descs
	var out qframe.QFrame
	if p, v := hlib.Recover(func() { out = g.Aggregate(goAggs...) }); p {
		s.Fail(id, fmt.Sprintf("Aggregate panicked: %v", v), desc, "")
		return
	}
	if digest(qf) != before {
		s.Fail(id, "GroupBy/Aggregate changed the frame", desc, "")
	}
	// QFrames returns exactly the groups' rows
	if g.Err == nil {
		qfs, err := g.QFrames()
		if err != nil || len(qfs) != len(groups) {
			s.Fail(id, "QFrames does not return one frame per group", desc, "")
		} else {
			for gi, gq := range qfs {
				d := qframe.VerifDump(gq)
				if fmt.Sprint(d.Index) != fmt.Sprint(groups[gi]) || len(d.Columns) != len(in.Columns) {
					s.Fail(id, "QFrames: a group frame does not consist of the group's rows with all columns", desc, "")
					break
				}
			}
		}
	} else if out.Err == nil {
		s.Fail(id, "GroupBy failed but Aggregate did not pass the error on", desc, "")
	}
	od := qframe.VerifDump(out)
	if out.Err != nil {
		s.Count("aggregate-err")
	} else {
		s.Count("aggregate-ok")
	}
	gs := make([]string, len(groups))
	for i, gr := range groups {
		gs[i] = hlib.U32List(gr)
	}
	as := make([]string, len(aggs))
	for i, a := range aggs {
		asName := a.a.As
		if asName == "" {
			asName = a.a.Column
		}
		as[i] = "(" + hlib.Str(a.a.Column) + ", " + hlib.Str(asName) + ", " + a.coq() + ")"
	}
	_ = types.Int
	defer func() {
		// the aggregate result is an ordinary frame: replacing one of its columns must hit that column
		if out.Err != nil || len(od.Columns) == 0 || out.Len() == 0 {
			return
		}
		target := od.Columns[len(od.Columns)-1]
		if hasDupNames(od) {
			return
		}
		// replacing ANY column (key columns included) by a copy of another one
		if len(od.Columns) >= 2 {
			ti := r.Intn(len(od.Columns))
			si := (ti + 1 + r.Intn(len(od.Columns)-1)) % len(od.Columns)
			dstN, srcN := od.Columns[ti].Name, od.Columns[si].Name
			desc3 := map[string]interface{}{"op": "copy", "dst": dstN, "src": srcN,
				"derivation": append(append([]string{}, hist...), fmt.Sprintf("groupby(%v)+aggregate(%v)", keyCols, descs)), "props": []string{"C06", "C08", "C10", "C04", "C07"}}
			if od3, ok := runOp(s, out, desc3, func() qframe.QFrame { return out.Copy(dstN, srcN) }); ok {
				s.Count("aggregate-then-copy")
				s.Add(fmt.Sprintf("FCopy %s %s %s %s", coqFrame(od), hlib.Str(dstN), hlib.Str(srcN), coqFrame(od3)), desc3, true)
			}
		}
		if target.Kind != "int" {
			return
		}
		rec := []string{}
		fn := func(x int) int { y := x*3 + 1; rec = append(rec, "("+cInt(x)+", "+cInt(y)+")"); return y }
		desc2 := map[string]interface{}{"op": "apply", "instructions": []string{target.Name + " := fn1(" + target.Name + ")"},
			"derivation": append(append([]string{}, hist...), fmt.Sprintf("groupby(%v)+aggregate(%v)", keyCols, descs)), "props": []string{"C06", "C10", "C04"}}
		od2, ok := runOp(s, out, desc2, func() qframe.QFrame {
			return out.Apply(qframe.Instruction{Fn: fn, DstCol: target.Name, SrcCol1: target.Name})
		})
		if !ok {
			return
		}
		s.Count("aggregate-then-apply")
		instr := "(mkInstr (F1 TInt TInt " + hlib.List(dedup(rec)) + ") " + hlib.Str(target.Name) + " " + hlib.Str(target.Name) + " " + hlib.Str("") + ")"
		s.Add(fmt.Sprintf("FApply %s [] %s %s", coqFrame(od), hlib.List([]string{instr}), coqFrame(od2)), desc2, true)
	}()
	s.Add(fmt.Sprintf("FAggregate %s %s %s %s %s", coqFrame(in), strList(keyCols), hlib.List(gs), hlib.List(as), coqFrame(od)), desc, qf.Len() > 0 && len(groups) > 1)
}
