package main

// Cross-observer check (C09): the cells written by ToCSV, the records written by ToJSON and the typed views must
// all describe the rows that the physical dump shows through the row index, column by column.

import (
	"bytes"
	stdcsv "encoding/csv"
	"encoding/json"
	"fmt"
	"math"
	"strconv"
	"strings"
	"unicode/utf8"

	"github.com/tobgu/qframe"
	"github.com/tobgu/qframe/config/newqf"
	"github.com/tobgu/qframe/types"
	"verifharness/hlib"
)

type obsCell struct {
	kind string // int float bool string enum
	i    int
	f    float64
	b    bool
	s    *string
}

func physCell(c qframe.VerifColumn, p uint32) obsCell {
	switch c.Kind {
	case "int":
		return obsCell{kind: "int", i: c.Ints[p]}
	case "float":
		return obsCell{kind: "float", f: c.Floats[p]}
	case "bool":
		return obsCell{kind: "bool", b: c.Bools[p]}
	case "string":
		return obsCell{kind: "string", s: c.Strings[p]}
	default:
		if c.Ranks[p] == 255 {
			return obsCell{kind: "enum"}
		}
		v := c.Values[c.Ranks[p]]
		return obsCell{kind: "enum", s: &v}
	}
}

func (c obsCell) csv() string {
	switch c.kind {
	case "int":
		return strconv.Itoa(c.i)
	case "float":
		if math.IsNaN(c.f) {
			return ""
		}
		return strconv.FormatFloat(c.f, 'f', -1, 64)
	case "bool":
		return strconv.FormatBool(c.b)
	default:
		if c.s == nil {
			return ""
		}
		return *c.s
	}
}

// sanitize replaces every invalid UTF-8 byte by U+FFFD (what a JSON decoder makes of a properly escaped string)
func sanitize(s string) string {
	var b strings.Builder
	for i := 0; i < len(s); {
		r, w := utf8.DecodeRuneInString(s[i:])
		if r == utf8.RuneError && w == 1 {
			b.WriteRune(utf8.RuneError)
		} else {
			b.WriteString(s[i : i+w])
		}
		i += w
	}
	return b.String()
}

// observersDisagree returns "" when all observers agree with the physical dump, else a description.
func observersDisagree(qf qframe.QFrame) string {
	if qf.Err != nil {
		return ""
	}
	d := qframe.VerifDump(qf)
	ncols, nrows := len(d.Columns), len(d.Index)
	if qf.Len() != nrows {
		return fmt.Sprintf("Len() = %d but the row index has %d entries", qf.Len(), nrows)
	}
	cells := make([][]obsCell, ncols)
	hasInf, hasCR := false, false
	for i, c := range d.Columns {
		cells[i] = make([]obsCell, nrows)
		for r, p := range d.Index {
			cells[i][r] = physCell(c, p)
			if cells[i][r].kind == "float" && math.IsInf(cells[i][r].f, 0) {
				hasInf = true
			}
			if s := cells[i][r].s; s != nil && strings.Contains(*s, "\r") {
				hasCR = true
			}
		}
	}
	// views (by name): every column carrying the name must show the view's cells
	for i, c := range d.Columns {
		var got []obsCell
		switch c.Kind {
		case "int":
			v, err := qf.IntView(c.Name)
			if err != nil {
				return "IntView(" + c.Name + "): " + err.Error()
			}
			for r := 0; r < v.Len(); r++ {
				got = append(got, obsCell{kind: "int", i: v.ItemAt(r)})
			}
		case "float":
			v, err := qf.FloatView(c.Name)
			if err != nil {
				return "FloatView(" + c.Name + "): " + err.Error()
			}
			for r := 0; r < v.Len(); r++ {
				got = append(got, obsCell{kind: "float", f: v.ItemAt(r)})
			}
		case "bool":
			v, err := qf.BoolView(c.Name)
			if err != nil {
				return "BoolView(" + c.Name + "): " + err.Error()
			}
			for r := 0; r < v.Len(); r++ {
				got = append(got, obsCell{kind: "bool", b: v.ItemAt(r)})
			}
		case "string":
			v, err := qf.StringView(c.Name)
			if err != nil {
				return "StringView(" + c.Name + "): " + err.Error()
			}
			for r := 0; r < v.Len(); r++ {
				got = append(got, obsCell{kind: "string", s: v.ItemAt(r)})
			}
		case "enum":
			v, err := qf.EnumView(c.Name)
			if err != nil {
				return "EnumView(" + c.Name + "): " + err.Error()
			}
			for r := 0; r < v.Len(); r++ {
				got = append(got, obsCell{kind: "enum", s: v.ItemAt(r)})
			}
		default:
			continue
		}
		if len(got) != nrows {
			return fmt.Sprintf("view of %q has %d items, the frame %d rows", c.Name, len(got), nrows)
		}
		for r := range got {
			a, b := got[r], cells[i][r]
			same := a.kind == b.kind && a.i == b.i && a.b == b.b && (a.f == b.f || (math.IsNaN(a.f) && math.IsNaN(b.f))) &&
				((a.s == nil) == (b.s == nil)) && (a.s == nil || *a.s == *b.s)
			if !same {
				return fmt.Sprintf("the view of %q differs from column %d (named %q) in row %d", c.Name, i, c.Name, r)
			}
		}
	}
	if ncols == 0 {
		return ""
	}
	// ToCSV
	var cb bytes.Buffer
	if err := qf.ToCSV(&cb); err != nil {
		return "ToCSV failed: " + err.Error()
	}
	skipCSV := hasCR
	if ncols == 1 {
		for r := 0; r < nrows; r++ {
			if cells[0][r].csv() == "" {
				skipCSV = true // an empty line is not a record for encoding/csv
			}
		}
		if d.Columns[0].Name == "" {
			skipCSV = true
		}
	}
	if !skipCSV {
		rd := stdcsv.NewReader(bytes.NewReader(cb.Bytes()))
		rd.FieldsPerRecord = -1
		recs, err := rd.ReadAll()
		if err != nil {
			return "ToCSV output is not readable by encoding/csv: " + err.Error()
		}
		if len(recs) != nrows+1 {
			return fmt.Sprintf("ToCSV wrote %d records, expected a header and %d rows", len(recs), nrows)
		}
		for i, c := range d.Columns {
			if i >= len(recs[0]) || recs[0][i] != c.Name {
				return fmt.Sprintf("ToCSV header differs at column %d", i)
			}
		}
		for r := 0; r < nrows; r++ {
			if len(recs[r+1]) != ncols {
				return fmt.Sprintf("ToCSV row %d has %d fields", r, len(recs[r+1]))
			}
			for i := range d.Columns {
				if recs[r+1][i] != cells[i][r].csv() {
					return fmt.Sprintf("ToCSV row %d column %d (%q) is %q, the column holds %q", r, i, d.Columns[i].Name, recs[r+1][i], cells[i][r].csv())
				}
			}
		}
	}
	// ToJSON
	if hasInf {
		return ""
	}
	var jb bytes.Buffer
	if err := qf.ToJSON(&jb); err != nil {
		return "ToJSON failed: " + err.Error()
	}
	dec := json.NewDecoder(bytes.NewReader(jb.Bytes()))
	dec.UseNumber()
	tok := func() (json.Token, string) {
		t, err := dec.Token()
		if err != nil {
			return nil, "ToJSON output is not valid JSON: " + err.Error()
		}
		return t, ""
	}
	if t, e := tok(); e != "" || t != json.Delim('[') {
		return "ToJSON output does not start an array " + e
	}
	for r := 0; r < nrows; r++ {
		if t, e := tok(); e != "" || t != json.Delim('{') {
			return fmt.Sprintf("ToJSON record %d does not start an object %s", r, e)
		}
		for i, c := range d.Columns {
			k, e := tok()
			if e != "" {
				return e
			}
			if ks, ok := k.(string); !ok || ks != sanitize(c.Name) {
				return fmt.Sprintf("ToJSON record %d: key %d is %v, expected %q", r, i, k, c.Name)
			}
			v, e := tok()
			if e != "" {
				return e
			}
			cell := cells[i][r]
			ok := false
			switch cell.kind {
			case "int":
				if n, isn := v.(json.Number); isn {
					x, err := strconv.ParseInt(string(n), 10, 64)
					ok = err == nil && int(x) == cell.i
				}
			case "float":
				if math.IsNaN(cell.f) {
					ok = v == nil
				} else if n, isn := v.(json.Number); isn {
					x, err := strconv.ParseFloat(string(n), 64)
					ok = err == nil && math.Float64bits(x) == math.Float64bits(cell.f)
				}
			case "bool":
				b, isb := v.(bool)
				ok = isb && b == cell.b
			default:
				if cell.s == nil {
					ok = v == nil
				} else {
					s, iss := v.(string)
					ok = iss && s == sanitize(*cell.s)
				}
			}
			if !ok {
				return fmt.Sprintf("ToJSON record %d: member %q is %v, the column holds %s", r, c.Name, v, cell.csv())
			}
		}
		if t, e := tok(); e != "" || t != json.Delim('}') {
			return fmt.Sprintf("ToJSON record %d has extra members %s", r, e)
		}
	}
	if t, e := tok(); e != "" || t != json.Delim(']') {
		return "ToJSON output has more records than the frame has rows " + e
	}
	return ""
}

var _ = types.Int

// observerSweep serialises every prefix (Slice(0, k), k = 0..n) of a fixed frame and of its sorted version, so that
// every boundary of any internal buffering falls on the last row of some prefix: the JSON must be valid and hold
// k records, the CSV must hold a header and k rows with the expected first cell.
func observerSweep(s *hlib.Suite, n int) {
	ids := make([]int, n)
	strs := make([]string, n)
	for i := range ids {
		ids[i] = 100000 + (i*7919)%n
		strs[i] = fmt.Sprintf("r%d", i%977)
	}
	base := qframe.New(map[string]types.DataSlice{"I": ids, "S": strs}, newqf.ColumnOrder("I", "S"))
	for _, fr := range []struct {
		name string
		qf   qframe.QFrame
	}{{"fresh", base}, {"sorted", base.Sort(qframe.Order{Column: "I"})}} {
		bad := ""
		for k := 0; k <= n && bad == ""; k++ {
			sl := fr.qf.Slice(0, k)
			var jb, cb bytes.Buffer
			if err := sl.ToJSON(&jb); err != nil {
				bad = fmt.Sprintf("ToJSON of %d rows failed: %v", k, err)
				break
			}
			out := jb.Bytes()
			if !json.Valid(out) {
				bad = fmt.Sprintf("ToJSON of the first %d rows is not valid JSON (… %q)", k, string(out[maxInt(0, len(out)-30):]))
				break
			}
			if got := bytes.Count(out, []byte(`"I":`)); got != k {
				bad = fmt.Sprintf("ToJSON of the first %d rows holds %d records", k, got)
				break
			}
			if err := sl.ToCSV(&cb); err != nil {
				bad = fmt.Sprintf("ToCSV of %d rows failed: %v", k, err)
				break
			}
			if got := bytes.Count(cb.Bytes(), []byte("\n")); got != k+1 {
				bad = fmt.Sprintf("ToCSV of the first %d rows holds %d lines", k, got)
			}
		}
		if bad != "" {
			s.Fail(s.NextID(), "observers: "+bad, map[string]interface{}{"family": "observer sweep", "frame": fr.name, "rows": n, "props": []string{"C09", "C14"}}, "")
		}
		s.Count("observer-sweep-prefixes")
	}
}

func maxInt(a, b int) int {
	if a > b {
		return a
	}
	return b
}

// stringCase: String() of a frame however derived (sometimes with more than 50 rows, long cells, nulls, NaN) is
// compared with the model Model/StringRender.v and with the rendering of the logical table (C09).
func stringCase(r *hlib.Rng, s *hlib.Suite) {
	qf, cols := genFrame(r, nil)
	if r.Chance(1, 6) {
		// more than 50 rows: the printout is truncated
		n := 45 + r.Intn(20)
		ids := make([]int, n)
		fl := make([]float64, n)
		for i := range ids {
			ids[i] = intPool[r.Intn(len(intPool))]
			fl[i] = floatPool[r.Intn(len(floatPool))]
		}
		qf = qframe.New(map[string]types.DataSlice{"I": ids, "F": fl}, newqf.ColumnOrder("I", "F"))
		cols = []genCol{{name: "I", kind: "int", ints: ids}, {name: "F", kind: "float", floats: fl}}
	}
	qf, _, hist := deriveCols(r, qf, cols, s)
	d := qframe.VerifDump(qf)
	desc := map[string]interface{}{"op": "string", "derivation": hist, "rows": qf.Len(), "props": []string{"C09"}}
	var out string
	if p, v := hlib.Recover(func() { out = qf.String() }); p {
		s.Fail(s.NextID(), fmt.Sprintf("String() panicked: %v", v), desc, "")
		return
	}
	// float formatting table for every float cell of the frame
	seen := map[uint64]bool{}
	var tbl []string
	for _, c := range d.Columns {
		for _, f := range c.Floats {
			b := math.Float64bits(f)
			if !seen[b] && !math.IsNaN(f) {
				seen[b] = true
				tbl = append(tbl, "("+hlib.NHex(b)+", "+hlib.Str(strconv.FormatFloat(f, 'f', -1, 64))+")")
			}
		}
	}
	s.Count("string-cases")
	s.Add(fmt.Sprintf("FString %s %s %s", hlib.List(tbl), coqFrame(d), hlib.Str(out)), desc, qf.Len() > 0)
}
