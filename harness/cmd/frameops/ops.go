package main

// Case families other than Filter: Slice, Select, Drop, Copy, Apply, FilteredApply, WithRowNums, Equals, New.

import (
	"bytes"
	"fmt"
	"io"
	"math"
	"sort"
	"strings"

	"github.com/tobgu/qframe"
	"github.com/tobgu/qframe/config/csv"
	"github.com/tobgu/qframe/config/newqf"
	"github.com/tobgu/qframe/types"
	"verifharness/hlib"
)

var allProps = []string{"C01", "C06", "C08", "C09", "C10"}

func hasDupNames(d qframe.VerifFrame) bool {
	seen := map[string]bool{}
	for _, c := range d.Columns {
		if seen[c.Name] {
			return true
		}
		seen[c.Name] = true
	}
	return false
}

func safeDigest(qf qframe.QFrame) (d string) {
	if p, v := hlib.Recover(func() { d = digest(qf) }); p {
		return fmt.Sprintf("PANIC while observing: %v", v)
	}
	return d
}

// runOp executes op on qf under recover, checks that the receiver is unchanged, dumps the result.
func runOp(s *hlib.Suite, qf qframe.QFrame, desc map[string]interface{}, op func() qframe.QFrame) (qframe.VerifFrame, bool) {
	before := digest(qf)
	var out qframe.QFrame
	id := s.NextID()
	if p, v := hlib.Recover(func() { out = op() }); p {
		s.Fail(id, fmt.Sprintf("%v panicked: %v", desc["op"], v), desc, "")
		return qframe.VerifFrame{}, false
	}
	if digest(qf) != before {
		s.Fail(id, fmt.Sprintf("%v changed its receiver", desc["op"]), desc, "")
	}
	od := qframe.VerifDump(out)
	if out.Err == nil {
		if msg := checkByName(od); msg != "" {
			s.Fail(id, msg, desc, "")
		}
	} else {
		if out.Len() != -1 {
			s.Fail(id, "a frame with Err set reports Len() != -1", desc, "")
		}
		// a failed frame: the serializers return the error and write nothing, further operations keep the error
		var cb, jb bytes.Buffer
		var e1, e2 error
		if p, v := hlib.Recover(func() { e1, e2 = out.ToCSV(&cb), out.ToJSON(&jb) }); p {
			s.Fail(id, fmt.Sprintf("a serializer panicked on a failed frame: %v", v), desc, "")
		} else if e1 == nil || e2 == nil || cb.Len() > 0 || jb.Len() > 0 {
			d10 := map[string]interface{}{"op": desc["op"], "props": []string{"C10"}}
			s.Fail(id, fmt.Sprintf("ToCSV / ToJSON on a failed frame: errors (%v, %v), bytes written (%d, %d)", e1 != nil, e2 != nil, cb.Len(), jb.Len()), d10, "")
		}
		if p, v := hlib.Recover(func() {
			called := false
			next := out.Apply(qframe.Instruction{Fn: func() int { called = true; return 1 }, DstCol: "afterfail"}).Slice(0, 0).Sort(qframe.Order{Column: "afterfail"})
			if next.Err == nil || called {
				d10 := map[string]interface{}{"op": desc["op"], "props": []string{"C10"}}
				s.Fail(id, fmt.Sprintf("operations chained after a failure: Err kept = %v, callback invoked = %v", next.Err != nil, called), d10, "")
			}
		}); p {
			s.Fail(id, fmt.Sprintf("an operation chained after a failure panicked: %v", v), desc, "")
		}
	}
	// all observers must describe the result alike (C09)
	if out.Err == nil {
		var msg string
		if p, v := hlib.Recover(func() { msg = observersDisagree(out) }); p {
			msg = fmt.Sprintf("an observer panicked: %v", v)
		}
		if msg != "" {
			d9 := map[string]interface{}{}
			for k, v := range desc {
				d9[k] = v
			}
			d9["props"] = []string{"C09", "C14"}
			class := ""
			if hasDupNames(od) {
				class = "duplicate-column-names"
			}
			s.Fail(id, "observers disagree on the result of "+fmt.Sprint(desc["op"])+": "+msg, d9, class)
		}
		s.Count("observers-cross-checked")
	}
	// siblings: further operations on the SAME receiver (each adding or replacing a column, or deriving a new
	// index) must leave the result obtained above exactly as it was observed
	if qf.Err == nil && out.Err == nil && len(qf.ColumnNames()) > 0 {
		first := qf.ColumnNames()[0]
		dOut := safeDigest(out)
		hlib.Recover(func() {
			_ = qf.Copy("sib1", first)
			_ = qf.Apply(qframe.Instruction{Fn: 7, DstCol: "sib2"})
			_ = qf.WithRowNums("sib3")
			_ = qf.Eval("sib4", qframe.Val(types.ColumnName(first)))
			_ = qf.Sort(qframe.Order{Column: first, Reverse: true})
			_ = qf.Slice(0, qf.Len()/2).Copy("sib5", first)
			names := qf.ColumnNames()
			rev := make([]string, len(names))
			for i, n := range names {
				rev[len(names)-1-i] = n
			}
			_ = qf.ToCSV(io.Discard, csv.Columns(rev))
			_ = qf.ToCSV(io.Discard, csv.Columns(append([]string{"nosuchcolumn"}, names...)))
			_ = qf.ToJSON(io.Discard)
			_ = qf.String()
			if eq, _ := qf.Equals(out); eq {
				_ = eq
			}
		})
		if safeDigest(out) != dOut {
			s.Fail(id, fmt.Sprintf("the result of %v changed when further operations were applied to the same receiver", desc["op"]), desc, "")
		}
		if safeDigest(qf) != before {
			s.Fail(id, fmt.Sprintf("the receiver of %v changed when further operations were applied to it", desc["op"]), desc, "")
		}
	}
	return od, true
}

func strList(l []string) string {
	it := make([]string, len(l))
	for i, x := range l {
		it[i] = hlib.Str(x)
	}
	return hlib.List(it)
}

func pickNames(r *hlib.Rng, cols []genCol, malformed bool) []string {
	k := r.Intn(len(cols) + 2)
	if malformed && r.Chance(1, 3) {
		k += 1 + r.Intn(3) // more names than there are columns
	}
	out := []string{}
	for i := 0; i < k; i++ {
		if malformed && r.Chance(1, 3) {
			out = append(out, []string{"nosuch", "legacy_id", "legacy_ts", "nosuch2"}[r.Intn(4)])
		} else {
			out = append(out, cols[r.Intn(len(cols))].name) // duplicates on purpose
		}
	}
	return out
}

func projCase(r *hlib.Rng, s *hlib.Suite) {
	qf, cols := genFrame(r, nil)
	qf, cols, hist := deriveCols(r, qf, cols, s)
	malformed := r.Chance(1, 4)
	in := qframe.VerifDump(qf)
	nontrivial := qf.Len() > 0 && len(hist) > 0
	switch r.Intn(4) {
	case 0:
		n := qf.Len()
		a, b := r.Intn(n+1), 0
		b = a + r.Intn(n-a+1)
		if malformed {
			a, b = r.Intn(n+3)-1, r.Intn(n+3)-1
		}
		desc := map[string]interface{}{"op": "slice", "a": a, "b": b, "rows": n, "derivation": hist, "props": allProps}
		if od, ok := runOp(s, qf, desc, func() qframe.QFrame { return qf.Slice(a, b) }); ok {
			s.Count("slice")
			s.Add(fmt.Sprintf("FSlice %s %s %s %s", coqFrame(in), hlib.Z(int64(a)), hlib.Z(int64(b)), coqFrame(od)), desc, nontrivial)
		}
	case 1:
		names := pickNames(r, cols, malformed)
		desc := map[string]interface{}{"op": "select", "names": names, "derivation": hist, "props": allProps}
		if od, ok := runOp(s, qf, desc, func() qframe.QFrame { return qf.Select(names...) }); ok {
			s.Count("select")
			s.Add(fmt.Sprintf("FSelect %s %s %s", coqFrame(in), strList(names), coqFrame(od)), desc, nontrivial)
		}
	case 2:
		names := pickNames(r, cols, malformed)
		desc := map[string]interface{}{"op": "drop", "names": names, "derivation": hist, "props": allProps}
		if od, ok := runOp(s, qf, desc, func() qframe.QFrame { return qf.Drop(names...) }); ok {
			s.Count("drop")
			s.Add(fmt.Sprintf("FDrop %s %s %s", coqFrame(in), strList(names), coqFrame(od)), desc, nontrivial)
		}
	case 3:
		src := cols[r.Intn(len(cols))].name
		dst := dstName(r, cols, malformed)
		if malformed && r.Chance(1, 3) {
			src = "nosuch"
		}
		desc := map[string]interface{}{"op": "copy", "dst": dst, "src": src, "derivation": hist, "props": allProps}
		if od, ok := runOp(s, qf, desc, func() qframe.QFrame { return qf.Copy(dst, src) }); ok {
			s.Count("copy")
			s.Add(fmt.Sprintf("FCopy %s %s %s %s", coqFrame(in), hlib.Str(dst), hlib.Str(src), coqFrame(od)), desc, nontrivial)
		}
	}
}

var badNames = []string{"", "'q'", "\"q\"", "$x", "''", "'a"}

func dstName(r *hlib.Rng, cols []genCol, malformed bool) string {
	if malformed && r.Chance(1, 2) {
		return badNames[r.Intn(len(badNames))]
	}
	if r.Chance(1, 2) {
		return cols[r.Intn(len(cols))].name
	}
	return []string{"NEW", "Z", "colcol-temp-0", "const-temp-0", "new col"}[r.Intn(5)]
}

// ---------------------------------------------------------------- Apply

type instrNode struct {
	goI qframe.Instruction
	// complete evaluates the (pure) function on every physical cell of its source column(s) in the given dumps,
	// so that the specification can look up the value for the RIGHT cell even if the implementation passed a wrong one
	complete func(ds ...qframe.VerifFrame)
	coqFn    func() string
	dst      string
	src1     string
	src2     string
	desc     string
	// callsFn reports how often the instruction's callback has been invoked so far (every recorded call)
	callsFn func() int
	// builtinEnum: the built-in ToUpper applied to an enum column (class of known finding K4 under FilteredApply)
	builtinEnum bool
}

func (n instrNode) calls() int {
	if n.callsFn == nil {
		return 0
	}
	return n.callsFn()
}

func (n instrNode) coq() string {
	return "(mkInstr " + n.coqFn() + " " + hlib.Str(n.dst) + " " + hlib.Str(n.src1) + " " + hlib.Str(n.src2) + ")"
}

func cellOf(t string, v interface{}) string {
	switch x := v.(type) {
	case int:
		return cInt(x)
	case float64:
		return cFloat(x)
	case bool:
		return cBool(x)
	case *string:
		if x == nil {
			return cStr(nil)
		}
		c := string([]byte(*x))
		return cStr(&c)
	}
	panic("cellOf")
}

func ctypeName(kind string) string {
	switch kind {
	case "int":
		return "TInt"
	case "float":
		return "TFloat"
	case "bool":
		return "TBool"
	}
	return "TString"
}

// typed pure functions of the catalogue (all total; int arithmetic wraps; floats native)
func outI(k int, x interface{}) int {
	switch v := x.(type) {
	case int:
		return v*3 + k
	case float64:
		if math.IsNaN(v) || math.IsInf(v, 0) || math.Abs(v) > 1e15 {
			return -k
		}
		return int(v) + k
	case bool:
		if v {
			return k
		}
		return -k
	case *string:
		if v == nil {
			return -1
		}
		return len(*v) + k
	}
	return 0
}
func outF(k int, x interface{}) float64 {
	switch v := x.(type) {
	case int:
		return float64(v%1000) / 2
	case float64:
		return v * 0.5
	case bool:
		if v {
			return math.NaN()
		}
		return math.Copysign(0, -1)
	case *string:
		if v == nil {
			return math.NaN()
		}
		return float64(len(*v)) + 0.25
	}
	return 0
}
func outB(k int, x interface{}) bool { return outI(k, x)%2 == 0 }
func outS(k int, x interface{}) *string {
	switch v := x.(type) {
	case *string:
		if v == nil {
			if k%2 == 0 {
				return nil
			}
			return sp("was-nil")
		}
		if len(*v) == 0 && k%3 == 0 {
			return nil
		}
		if k >= 3 {
			// "keep the value": the function hands back the very pointer it was given
			return v
		}
		return sp(*v + "!")
	default:
		if outI(k, x)%5 == 0 {
			return nil
		}
		return sp(fmt.Sprint(outI(k, x) % 100))
	}
}

func genInstr(r *hlib.Rng, cols []genCol, avail *[]genCol, malformed bool) instrNode {
	n := instrNode{}
	n.dst = dstName(r, cols, malformed && r.Chance(1, 3))
	k := r.Intn(5)
	rec := []string{}
	n.callsFn = func() int { return len(rec) }
	all := *avail
	kindOf := func(name string) string {
		for i := len(all) - 1; i >= 0; i-- {
			if all[i].name == name {
				return all[i].kind
			}
		}
		return ""
	}
	choice := r.Intn(10)
	for _, c := range all {
		if (c.kind == "string" || c.kind == "enum") && r.Chance(1, 8) {
			choice = 3 // the built in function, more often where it can apply
		}
	}
	switch choice {
	case 0: // constant
		var fn interface{}
		var c string
		switch r.Intn(5) {
		case 0:
			v := intPool[r.Intn(len(intPool))]
			fn, c = v, cInt(v)
		case 1:
			v := floatPool[r.Intn(len(floatPool))]
			fn, c = v, cFloat(v)
		case 2:
			v := r.Bool()
			fn, c = v, cBool(v)
		case 3:
			v := strPool[r.Intn(len(strPool))]
			fn, c = v, cStr(&v)
		default:
			if r.Bool() {
				fn, c = (*string)(nil), cStr(nil)
			} else {
				v := strPool[r.Intn(len(strPool))]
				fn, c = &v, cStr(&v)
			}
		}
		n.goI = qframe.Instruction{Fn: fn, DstCol: n.dst}
		n.coqFn = func() string { return "(F0Const " + c + ")" }
		n.desc = fmt.Sprintf("%s := const %v", n.dst, fn)
	case 1: // zero argument function
		cnt := 0
		var fn interface{}
		var t string
		switch r.Intn(4) {
		case 0:
			t = "TInt"
			fn = func() int { cnt++; v := cnt * 10; rec = append(rec, cInt(v)); return v }
		case 1:
			t = "TFloat"
			fn = func() float64 { cnt++; v := float64(cnt) + 0.5; rec = append(rec, cFloat(v)); return v }
		case 2:
			t = "TBool"
			fn = func() bool { cnt++; v := cnt%2 == 0; rec = append(rec, cBool(v)); return v }
		default:
			t = "TString"
			fn = func() *string {
				cnt++
				if cnt%3 == 0 {
					rec = append(rec, cStr(nil))
					return nil
				}
				v := fmt.Sprintf("s%d", cnt)
				rec = append(rec, cStr(&v))
				return &v
			}
		}
		n.goI = qframe.Instruction{Fn: fn, DstCol: n.dst}
		n.coqFn = func() string { return "(F0Stream " + t + " " + hlib.List(rec) + ")" }
		n.desc = n.dst + " := fn0()"
	case 2: // column name
		src := all[r.Intn(len(all))].name
		if malformed && r.Chance(1, 3) {
			src = "nosuch"
		}
		n.goI = qframe.Instruction{Fn: types.ColumnName(src), DstCol: n.dst}
		n.coqFn = func() string { return "(F0ColName " + hlib.Str(src) + ")" }
		n.desc = n.dst + " := col " + src
	case 3: // built in
		src := all[r.Intn(len(all))].name
		for _, c := range all {
			if (c.kind == "string" || c.kind == "enum") && r.Chance(2, 3) {
				src = c.name
			}
		}
		name := "ToUpper"
		if malformed && r.Chance(1, 3) {
			name = "ToLower"
		}
		n.src1 = src
		n.builtinEnum = name == "ToUpper" && kindOf(src) == "enum"
		n.goI = qframe.Instruction{Fn: name, DstCol: n.dst, SrcCol1: src}
		n.coqFn = func() string { return "(FBuiltin " + hlib.Str(name) + ")" }
		n.desc = n.dst + " := " + name + "(" + src + ")"
	case 4, 5, 6: // one argument function
		src := all[r.Intn(len(all))].name
		if malformed && r.Chance(1, 6) {
			src = "nosuch"
		}
		n.src1 = src
		tin := kindOf(src)
		if tin == "" || (malformed && r.Chance(1, 4)) {
			tin = kinds[r.Intn(4)]
		}
		tout := kinds[r.Intn(4)]
		record := func(x interface{}, y interface{}) {
			rec = append(rec, "("+cellOf(tin, x)+", "+cellOf(tout, y)+")")
		}
		var fn interface{}
		mk := func(x interface{}) interface{} {
			var y interface{}
			switch tout {
			case "int":
				y = outI(k, x)
			case "float":
				y = outF(k, x)
			case "bool":
				y = outB(k, x)
			default:
				y = outS(k, x)
			}
			record(x, y)
			return y
		}
		switch tin {
		case "int":
			switch tout {
			case "int":
				fn = func(x int) int { return mk(x).(int) }
			case "float":
				fn = func(x int) float64 { return mk(x).(float64) }
			case "bool":
				fn = func(x int) bool { return mk(x).(bool) }
			default:
				fn = func(x int) *string { return mk(x).(*string) }
			}
		case "float":
			switch tout {
			case "int":
				fn = func(x float64) int { return mk(x).(int) }
			case "float":
				fn = func(x float64) float64 { return mk(x).(float64) }
			case "bool":
				fn = func(x float64) bool { return mk(x).(bool) }
			default:
				fn = func(x float64) *string { return mk(x).(*string) }
			}
		case "bool":
			switch tout {
			case "int":
				fn = func(x bool) int { return mk(x).(int) }
			case "float":
				fn = func(x bool) float64 { return mk(x).(float64) }
			case "bool":
				fn = func(x bool) bool { return mk(x).(bool) }
			default:
				fn = func(x bool) *string { return mk(x).(*string) }
			}
		default:
			switch tout {
			case "int":
				fn = func(x *string) int { return mk(x).(int) }
			case "float":
				fn = func(x *string) float64 { return mk(x).(float64) }
			case "bool":
				fn = func(x *string) bool { return mk(x).(bool) }
			default:
				fn = func(x *string) *string { return mk(x).(*string) }
			}
		}
		n.complete = func(ds ...qframe.VerifFrame) {
			for _, d := range ds {
				for _, c := range d.Columns {
					if c.Name != src {
						continue
					}
					for _, x := range physCells(c, tin) {
						mk(x)
					}
				}
			}
		}
		if malformed && r.Chance(1, 8) {
			fn = func(x, y, z int) int { return 0 }
			n.coqFn = func() string { return "FOther" }
			n.complete = nil
		} else {
			n.coqFn = func() string {
				return "(F1 " + ctypeName(tin) + " " + ctypeName(tout) + " " + hlib.List(dedup(rec)) + ")"
			}
		}
		n.goI = qframe.Instruction{Fn: fn, DstCol: n.dst, SrcCol1: src}
		n.desc = fmt.Sprintf("%s := fn1[%s->%s](%s)", n.dst, tin, tout, src)
	default: // two argument function
		a := all[r.Intn(len(all))]
		b := all[r.Intn(len(all))]
		for _, c := range all {
			if c.kind == a.kind && r.Chance(1, 2) {
				b = c
			}
		}
		s1, s2 := a.name, b.name
		if malformed && r.Chance(1, 6) {
			s2 = "nosuch"
		}
		n.src1, n.src2 = s1, s2
		t := kindOf(s1)
		if t == "" || (malformed && r.Chance(1, 4)) {
			t = kinds[r.Intn(4)]
		}
		if t == "enum" {
			t = "string"
		}
		var fn interface{}
		switch t {
		case "int":
			fn = func(x, y int) int {
				v := x - 2*y + k
				rec = append(rec, "("+cInt(x)+", "+cInt(y)+", "+cInt(v)+")")
				return v
			}
		case "float":
			fn = func(x, y float64) float64 {
				v := x - y
				rec = append(rec, "("+cFloat(x)+", "+cFloat(y)+", "+cFloat(v)+")")
				return v
			}
		case "bool":
			fn = func(x, y bool) bool {
				v := x && !y
				rec = append(rec, "("+cBool(x)+", "+cBool(y)+", "+cBool(v)+")")
				return v
			}
		default:
			fn = func(x, y *string) *string {
				var v *string
				if x != nil && y != nil {
					v = sp(*x + "|" + *y)
				} else if x != nil {
					v = sp(*x + "|")
				}
				rec = append(rec, "("+cellOf("string", x)+", "+cellOf("string", y)+", "+cellOf("string", v)+")")
				return v
			}
		}
		n.complete = func(ds ...qframe.VerifFrame) {
			for _, d := range ds {
				var c1, c2 *qframe.VerifColumn
				for i := range d.Columns {
					if d.Columns[i].Name == s1 {
						c1 = &d.Columns[i]
					}
					if d.Columns[i].Name == s2 {
						c2 = &d.Columns[i]
					}
				}
				if c1 == nil || c2 == nil {
					continue
				}
				x, y := physCells(*c1, t), physCells(*c2, t)
				if x == nil || y == nil || len(x) != len(y) {
					continue
				}
				for i := range x {
					switch f := fn.(type) {
					case func(int, int) int:
						f(x[i].(int), y[i].(int))
					case func(float64, float64) float64:
						f(x[i].(float64), y[i].(float64))
					case func(bool, bool) bool:
						f(x[i].(bool), y[i].(bool))
					case func(*string, *string) *string:
						f(x[i].(*string), y[i].(*string))
					}
				}
			}
		}
		n.coqFn = func() string { return "(F2 " + ctypeName(t) + " " + hlib.List(dedup(rec)) + ")" }
		n.goI = qframe.Instruction{Fn: fn, DstCol: n.dst, SrcCol1: s1, SrcCol2: s2}
		n.desc = fmt.Sprintf("%s := fn2[%s](%s,%s)", n.dst, t, s1, s2)
	}
	return n
}

// upperTable ships strings.ToUpper as applied by the code under test: qfstrings.ToUpper for string cells
// (through a throw-away Apply on a copy would be circular) — we use the standard library's strings.ToUpper,
// which both implementations are documented to follow; internal/strings.ToUpper itself is tied to its model
// by the strings engine.
func upperTable(ds ...qframe.VerifFrame) string {
	set := map[string]bool{}
	for k := range caseStrings {
		set[k] = true
	}
	for _, d := range ds {
		for _, c := range d.Columns {
			for _, s := range c.Strings {
				if s != nil {
					set[*s] = true
				}
			}
			for _, v := range c.Values {
				set[v] = true
			}
		}
	}
	// closed under upper-casing: a chain of instructions may upper-case a value that an earlier instruction of the
	// same call produced and that a later one overwrites, so that it shows in neither dump
	for round := 0; round < 4; round++ {
		added := false
		for k := range set {
			if u := strings.ToUpper(k); !set[u] {
				set[u] = true
				added = true
			}
		}
		if !added {
			break
		}
	}
	keys := make([]string, 0, len(set))
	for k := range set {
		keys = append(keys, k)
	}
	sort.Strings(keys)
	it := make([]string, len(keys))
	for i, k := range keys {
		it[i] = "(" + hlib.Str(k) + ", " + hlib.Str(strings.ToUpper(k)) + ")"
	}
	return hlib.List(it)
}

// physCells returns the physical cells of a dumped column as Go values of the wanted function kind (nil if the
// column is of another kind).
func physCells(c qframe.VerifColumn, kind string) []interface{} {
	var out []interface{}
	switch {
	case c.Kind == "int" && kind == "int":
		for _, v := range c.Ints {
			out = append(out, v)
		}
	case c.Kind == "float" && kind == "float":
		for _, v := range c.Floats {
			out = append(out, v)
		}
	case c.Kind == "bool" && kind == "bool":
		for _, v := range c.Bools {
			out = append(out, v)
		}
	case c.Kind == "string" && (kind == "string" || kind == "enum"):
		for _, v := range c.Strings {
			out = append(out, cp(v))
		}
	case c.Kind == "enum" && (kind == "string" || kind == "enum"):
		for _, rk := range c.Ranks {
			if rk == 255 || int(rk) >= len(c.Values) {
				out = append(out, (*string)(nil))
			} else {
				v := c.Values[rk]
				out = append(out, &v)
			}
		}
	}
	return out
}

func applyCase(r *hlib.Rng, s *hlib.Suite) {
	qf, cols := genFrame(r, nil)
	qf, cols, hist := deriveCols(r, qf, cols, s)
	malformed := r.Chance(1, 4)
	in := qframe.VerifDump(qf)
	avail := append([]genCol{}, cols...)
	k := 1 + r.Intn(3)
	if r.Chance(1, 2) {
		k = 1
	}
	instrs := make([]instrNode, k)
	goI := make([]qframe.Instruction, k)
	descs := make([]string, k)
	for i := range instrs {
		instrs[i] = genInstr(r, cols, &avail, malformed)
		goI[i] = instrs[i].goI
		descs[i] = instrs[i].desc
	}
	var dumps []qframe.VerifFrame
	coqIs := func() string {
		it := make([]string, k)
		for i := range instrs {
			if instrs[i].complete != nil {
				instrs[i].complete(dumps...)
			}
			it[i] = instrs[i].coq()
		}
		return hlib.List(it)
	}
	nontrivial := qf.Len() > 0 && len(hist) > 0
	caseStrings = map[string]bool{}
	for _, sv := range strPool {
		caseStrings[sv] = true
	}
	switch r.Intn(6) {
	case 0: // FilteredApply
		cl := genClause(r, cols, 2, malformed && r.Chance(1, 2))
		desc := map[string]interface{}{"op": "filteredapply", "clause": cl.String(), "instructions": descs, "derivation": hist, "props": []string{"C01", "C06", "C10", "C02"}}
		for _, in := range instrs {
			if in.builtinEnum {
				// known finding K4: the enum column's ToUpper ignores the row index
				desc["class"] = "filteredapply-enum-toupper"
				desc["props"] = []string{"C06"}
			}
		}
		for _, dsc := range descs {
			if strings.Contains(dsc, " := col ") {
				desc["class"] = "filteredapply-columnname-copy"
				desc["props"] = []string{"C06"}
			}
		}
		if od, ok := runOp(s, qf, desc, func() qframe.QFrame { return qf.FilteredApply(cl.goClause(), goI...) }); ok {
			dumps = []qframe.VerifFrame{in, od}
			cl.complete(in)
			s.Count("filteredapply")
			s.Add(fmt.Sprintf("FFilteredApply %s %s %s %s %s %s", coqFrame(in), matcherTable(cl, in), upperTable(in, od), cl.coq(), coqIs(), coqFrame(od)), desc, nontrivial)
		}
	case 1: // WithRowNums
		name := dstName(r, cols, malformed)
		desc := map[string]interface{}{"op": "withrownums", "name": name, "derivation": hist, "props": allProps}
		if od, ok := runOp(s, qf, desc, func() qframe.QFrame { return qf.WithRowNums(name) }); ok {
			s.Count("withrownums")
			s.Add(fmt.Sprintf("FRowNums %s %s %s", coqFrame(in), hlib.Str(name), coqFrame(od)), desc, nontrivial)
		}
	default:
		desc := map[string]interface{}{"op": "apply", "instructions": descs, "derivation": hist, "props": allProps}
		if od, ok := runOp(s, qf, desc, func() qframe.QFrame { return qf.Apply(goI...) }); ok {
			dumps = []qframe.VerifFrame{in, od}
			s.Count(fmt.Sprintf("apply-%d-instr", k))
			if od.HasErr {
				s.Count("apply-err")
			}
			s.Add(fmt.Sprintf("FApply %s %s %s %s", coqFrame(in), upperTable(in, od), coqIs(), coqFrame(od)), desc, nontrivial)
		}
		// (after the case has been rendered: the runs below advance stateful callbacks)
		if k >= 2 {
			// once an instruction has failed, no callback of a later instruction may be invoked (C10)
			firstFail := -1
			for j := 1; j < k && firstFail < 0; j++ {
				var pf qframe.QFrame
				if p, _ := hlib.Recover(func() { pf = qf.Apply(goI[:j]...) }); !p && pf.Err != nil {
					firstFail = j
				}
			}
			if firstFail >= 0 {
				before := make([]int, k)
				for j := range instrs {
					before[j] = instrs[j].calls()
				}
				hlib.Recover(func() { _ = qf.Apply(goI...) })
				for j := firstFail; j < k; j++ {
					if instrs[j].calls() != before[j] {
						d10 := map[string]interface{}{"op": "apply", "instructions": descs, "derivation": hist, "props": []string{"C10"}}
						s.Fail(s.NextID(), fmt.Sprintf("instruction %d failed, yet the callback of instruction %d was invoked afterwards", firstFail, j+1), d10, "")
						break
					}
				}
				s.Count("apply-callbacks-after-failure-checked")
			}
		}
	}
}

// ---------------------------------------------------------------- Equals

func equalsCase(r *hlib.Rng, s *hlib.Suite) {
	variant := r.Intn(7)
	var need []string
	if variant == 6 {
		need = []string{"float"}
	}
	qf, cols := genFrame(r, need)
	qf, cols, hist := deriveCols(r, qf, cols, s)
	var other qframe.QFrame
	how := ""
	switch variant {
	case 6: // the same cells with every NaN given another payload/sign and every zero the other sign: still Equal
		other = rebuildNaNTwin(r, qf, cols)
		how = "rebuilt with other NaN payloads and zero signs"
	case 0: // rebuilt from the observed values: must be Equal although the physical layout differs
		other = rebuild(qf, cols, false)
		how = "rebuilt with New from the views"
	case 1: // same but one cell changed
		other = rebuild(qf, cols, true)
		how = "rebuilt with one cell changed"
	case 2:
		other = qf
		how = "itself"
	case 3: // a differently derived frame over the same storage
		other, _ = derive(r, qf, cols, s)
		how = "derived further"
	case 4: // enum <-> string twin
		other = rebuildTwin(qf, cols)
		how = "enum/string twin"
	default:
		other, _ = genFrame(r, nil)
		how = "unrelated"
	}
	if other.Err != nil {
		return
	}
	desc := map[string]interface{}{"op": "equals", "other": how, "derivation": hist, "props": []string{"C09"}}
	var eq bool
	id := s.NextID()
	if p, v := hlib.Recover(func() { eq, _ = qf.Equals(other) }); p {
		s.Fail(id, fmt.Sprintf("Equals panicked: %v", v), desc, "")
		return
	}
	eq2, _ := other.Equals(qf)
	if eq != eq2 {
		s.Fail(id, "Equals is not symmetric", desc, "")
	}
	if how == "rebuilt with New from the views" && !eq {
		s.Fail(id, "a frame rebuilt with New from the observed values is not Equal", desc, "")
	}
	if variant == 6 && !eq {
		s.Fail(id, "frames whose cells differ only in NaN payload / sign of zero are not Equal", desc, "")
	}
	if self, _ := qf.Equals(qf); !self {
		s.Fail(id, "Equals is not reflexive", desc, "")
	}
	s.Count("equals-" + fmt.Sprint(eq))
	s.Add(fmt.Sprintf("FEquals %s %s %s", coqFrame(qframe.VerifDump(qf)), coqFrame(qframe.VerifDump(other)), hlib.Bool(eq)), desc, qf.Len() > 0)
}

func rebuild(qf qframe.QFrame, cols []genCol, perturb bool) qframe.QFrame {
	data := map[string]types.DataSlice{}
	enums := map[string][]string{}
	names := qf.ColumnNames()
	tm := qf.ColumnTypeMap()
	for _, name := range names {
		switch tm[name] {
		case types.Int:
			d := qf.MustIntView(name).Slice()
			if perturb && len(d) > 0 {
				d[len(d)/2]++
				perturb = false
			}
			data[name] = d
		case types.Float:
			data[name] = qf.MustFloatView(name).Slice()
		case types.Bool:
			data[name] = qf.MustBoolView(name).Slice()
		case types.String:
			d := qf.MustStringView(name).Slice()
			if perturb && len(d) > 0 {
				if d[0] == nil {
					d[0] = sp("")
				} else {
					d[0] = nil
				}
				perturb = false
			}
			data[name] = d
		case types.Enum:
			data[name] = qf.MustEnumView(name).Slice()
			for _, c := range cols {
				if c.name == name {
					enums[name] = c.enumV
				}
			}
			if _, ok := enums[name]; !ok {
				enums[name] = nil
			}
		}
	}
	return qframe.New(data, newqf.ColumnOrder(names...), newqf.Enums(enums))
}

var nanPayloads = []uint64{0x7FF8000000000001, 0x7FF8000000000002, 0xFFF8000000000000, 0xFFF8000000000001, 0x7FF0000000000001}

func rebuildNaNTwin(r *hlib.Rng, qf qframe.QFrame, cols []genCol) qframe.QFrame {
	data := map[string]types.DataSlice{}
	enums := map[string][]string{}
	names := qf.ColumnNames()
	tm := qf.ColumnTypeMap()
	for _, name := range names {
		switch tm[name] {
		case types.Int:
			data[name] = qf.MustIntView(name).Slice()
		case types.Float:
			d := qf.MustFloatView(name).Slice()
			for i, f := range d {
				if math.IsNaN(f) {
					b := nanPayloads[r.Intn(len(nanPayloads))]
					for b == math.Float64bits(f) {
						b = nanPayloads[r.Intn(len(nanPayloads))]
					}
					d[i] = math.Float64frombits(b)
				} else if f == 0 {
					d[i] = math.Copysign(0, -math.Copysign(1, f))
				}
			}
			data[name] = d
		case types.Bool:
			data[name] = qf.MustBoolView(name).Slice()
		case types.String:
			data[name] = qf.MustStringView(name).Slice()
		case types.Enum:
			data[name] = qf.MustEnumView(name).Slice()
			enums[name] = nil
			for _, c := range cols {
				if c.name == name {
					enums[name] = c.enumV
				}
			}
		}
	}
	return qframe.New(data, newqf.ColumnOrder(names...), newqf.Enums(enums))
}

func rebuildTwin(qf qframe.QFrame, cols []genCol) qframe.QFrame {
	data := map[string]types.DataSlice{}
	enums := map[string][]string{}
	names := qf.ColumnNames()
	tm := qf.ColumnTypeMap()
	for _, name := range names {
		switch tm[name] {
		case types.Int:
			data[name] = qf.MustIntView(name).Slice()
		case types.Float:
			data[name] = qf.MustFloatView(name).Slice()
		case types.Bool:
			data[name] = qf.MustBoolView(name).Slice()
		case types.String:
			data[name] = qf.MustStringView(name).Slice()
			enums[name] = nil
		case types.Enum:
			data[name] = qf.MustEnumView(name).Slice()
		}
	}
	out := qframe.New(data, newqf.ColumnOrder(names...), newqf.Enums(enums))
	return out
}

// ---------------------------------------------------------------- New

func newCase(r *hlib.Rng, s *hlib.Suite) {
	malformed := r.Chance(1, 3)
	k := r.Intn(5)
	lens := []int{0, 0, 1, 3, 3, 3, 2}
	base := lens[r.Intn(len(lens))]
	// a malformed case carries exactly ONE fault class, so that no other error can mask it:
	// 0 illegal name, 1 one column of another length, 2 negative constant count, 3 unsupported data type,
	// 4 enum declaration for a missing column, 5 bad ColumnOrder, 6 several faults at once (the old mix),
	// 7 a name repeated in ColumnOrder (of the right length), 8 an enum declaration listing a value twice,
	// 9 an enum declaration for a column that exists but does not hold string data
	fault := -1
	if malformed {
		fault = r.Intn(10)
		if fault == 9 && k < 1 {
			k = 1 + r.Intn(3)
		}
		if fault == 7 && k < 2 {
			k = 2 + r.Intn(3)
		}
		if fault == 8 && k < 1 {
			k = 1 + r.Intn(3)
		}
		if fault == 1 && k < 2 {
			k = 2 + r.Intn(3)
		}
	}
	is := func(f int, num, den int) bool { return fault == f || (fault == 6 && r.Chance(num, den)) }
	sharedBacking := []string{"spare-0", "spare-1", "spare-2", "spare-3", "spare-4", "spare-5", "spare-6", "spare-7"}
	sharedEmpty := sharedBacking[:0]
	twoShared := fault == -1 && r.Chance(1, 6)
	if twoShared && k < 2 {
		k = 2 + r.Intn(3)
	}
	deviant := -1
	if fault == 1 {
		deviant = r.Intn(k)
	}
	data := map[string]types.DataSlice{}
	coqData := []string{}
	names := []string{}
	enums := map[string][]string{}
	perm := r.Perm(len(namePool))
	descCols := []string{}
	for i := 0; i < k; i++ {
		name := namePool[perm[i]]
		if (fault == 0 && i == 0) || (fault == 6 && r.Chance(1, 8)) {
			name = badNames[r.Intn(len(badNames))]
		}
		if _, dup := data[name]; dup {
			continue
		}
		n := base
		if i == deviant {
			for n == base {
				n = lens[r.Intn(len(lens))]
			}
		} else if fault == 6 && r.Chance(1, 4) {
			n = lens[r.Intn(len(lens))]
		}
		var d interface{}
		var c string
		kind := r.Intn(11)
		if fault == 8 && i == 0 {
			kind = 3
		}
		if twoShared && i < 2 {
			kind = 3 + r.Intn(3) // two string-data columns, both declared enum with the shared empty list
		}
		if fault == 2 && i == 0 {
			kind = []int{6, 9}[r.Intn(2)]
		}
		if fault == 9 && i == 0 {
			kind = []int{0, 1, 2, 6, 7, 8}[r.Intn(6)]
		}
		if fault == 3 && i == 0 {
			kind = 10
		}
		switch kind {
		case 0:
			g := genColumn(r, name, "int", n, false)
			d, c = g.ints, "DInts "+hlib.ZList(g.ints)
		case 1:
			g := genColumn(r, name, "float", n, false)
			it := make([]string, n)
			for j, f := range g.floats {
				it[j] = coqFloat(f)
			}
			d, c = g.floats, "DFloats "+hlib.List(it)
		case 2:
			g := genColumn(r, name, "bool", n, false)
			d, c = g.bools, "DBools "+hlib.BoolList(g.bools)
		case 3, 4:
			g := genColumn(r, name, "string", n, false)
			it := make([]string, n)
			for j, x := range g.strs {
				it[j] = hlib.OptStr(x)
			}
			d, c = g.strs, "DStrPtrs "+hlib.List(it)
		case 5:
			l := make([]string, n)
			it := make([]string, n)
			for j := range l {
				l[j] = strPool[r.Intn(len(strPool))]
				it[j] = hlib.Str(l[j])
			}
			d, c = l, "DStrings "+hlib.List(it)
		case 6:
			cnt := n
			if is(2, 1, 4) {
				cnt = -1 - r.Intn(3)
			}
			v := intPool[r.Intn(len(intPool))]
			d, c = qframe.ConstInt{Val: v, Count: cnt}, fmt.Sprintf("DConstInt %s %s", hlib.Z(int64(v)), hlib.Z(int64(cnt)))
		case 7:
			v := floatPool[r.Intn(len(floatPool))]
			d, c = qframe.ConstFloat{Val: v, Count: n}, fmt.Sprintf("DConstFloat %s %s", coqFloat(v), hlib.Z(int64(n)))
		case 8:
			v := r.Bool()
			d, c = qframe.ConstBool{Val: v, Count: n}, fmt.Sprintf("DConstBool %s %s", hlib.Bool(v), hlib.Z(int64(n)))
		case 9:
			var v *string
			if r.Chance(3, 4) {
				v = sp(strPool[r.Intn(len(strPool))])
			}
			cnt := n
			if is(2, 1, 6) {
				cnt = -2
			}
			d, c = qframe.ConstString{Val: v, Count: cnt}, fmt.Sprintf("DConstStr %s %s", hlib.OptStr(v), hlib.Z(int64(cnt)))
		default:
			if fault == 3 || fault == 6 {
				d, c = []int32{1, 2, 3}, "DOther"
			} else {
				g := genColumn(r, name, "int", n, false)
				d, c = g.ints, "DInts "+hlib.ZList(g.ints)
			}
		}
		data[name] = d
		names = append(names, name)
		coqData = append(coqData, "("+hlib.Str(name)+", "+c+")")
		descCols = append(descCols, fmt.Sprintf("%s:%T", name, d))
		// enum declaration
		isStr := kind == 3 || kind == 4 || kind == 5 || kind == 9
		if fault == 8 && i == 0 {
			// declared values cover the data, one of them listed twice
			vals := append([]string{}, strPool...)
			vals = append(vals, vals[r.Intn(len(vals))])
			enums[name] = vals
		} else if twoShared && i < 2 {
			enums[name] = sharedEmpty
		} else if (isStr && r.Chance(1, 2)) || (fault == 6 && r.Chance(1, 10)) || (fault == 9 && i == 0) {
			switch r.Intn(3) {
			case 0:
				enums[name] = nil
				if r.Chance(1, 2) {
					// "values derived from the data" given as an EMPTY list that has spare capacity, the same
					// list for every such column of the case
					enums[name] = sharedEmpty
				}
			case 1:
				enums[name] = append(make([]string, 0, len(strPool)+5), strPool...)
			default:
				enums[name] = []string{"a", "b", ""}
			}
		}
	}
	if is(4, 1, 6) {
		enums["ghost"] = []string{"x"}
	}
	// column order
	var order []string
	oc := r.Intn(4)
	if fault == 5 || fault == 7 {
		oc = 1
	}
	switch oc {
	case 0:
	default:
		p := r.Perm(len(names))
		for _, i := range p {
			order = append(order, names[i])
		}
		if fault == 7 && len(order) > 1 {
			order[r.Intn(len(order)-1)+1] = order[0]
		}
		if (fault == 5 || fault == 6) && len(order) > 0 {
			switch r.Intn(4) {
			case 0:
				order = order[1:]
			case 1:
				order[0] = "unknown"
			case 2:
				order = append(order, order[0])
			}
		}
	}
	ekeys := make([]string, 0, len(enums))
	for k := range enums {
		ekeys = append(ekeys, k)
	}
	sort.Strings(ekeys)
	coqEnums := make([]string, len(ekeys))
	for i, k := range ekeys {
		coqEnums[i] = "(" + hlib.Str(k) + ", " + strList(enums[k]) + ")"
	}
	desc := map[string]interface{}{"op": "new", "columns": descCols, "order": order, "enums": ekeys, "props": []string{"C08", "C10", "C17"}}
	var out qframe.QFrame
	id := s.NextID()
	if p, v := hlib.Recover(func() {
		out = qframe.New(data, newqf.ColumnOrder(order...), newqf.Enums(enums))
	}); p {
		s.Fail(id, fmt.Sprintf("New panicked: %v", v), desc, "")
		return
	}
	for i, v := range sharedBacking {
		if v != fmt.Sprintf("spare-%d", i) {
			// the list is shared by every column declared with it: what one column appends the other reads as ITS values
			d2 := map[string]interface{}{"props": []string{"C08", "C17"}}
			for k, x := range desc {
				if k != "props" {
					d2[k] = x
				}
			}
			s.Fail(id, fmt.Sprintf("New wrote into the array behind an enum value list it was given (element %d is now %q): columns declared with that list share their value tables", i, v), d2, "")
			break
		}
	}
	od := qframe.VerifDump(out)
	if out.Err != nil {
		s.Count("new-err")
	} else {
		s.Count("new-ok")
		if msg := checkByName(od); msg != "" {
			s.Fail(id, msg, desc, "")
		}
		// the views must not panic on a frame New accepted
		if p, v := hlib.Recover(func() { _ = digest(out) }); p {
			s.Fail(id, fmt.Sprintf("views panic on a frame accepted by New: %v", v), desc, "")
		}
	}
	s.Add(fmt.Sprintf("FNew %s %s %s %s", hlib.List(coqData), strList(order), hlib.List(coqEnums), coqFrame(od)), desc, len(names) > 0)
}

// ---------------------------------------------------------------- enum cardinality boundaries

func enumBoundaryCase(r *hlib.Rng, s *hlib.Suite) {
	ks := []int{1, 2, 63, 64, 65, 127, 128, 129, 191, 192, 193, 253, 254, 255, 256, 257, 300}
	k := ks[r.Intn(len(ks))]
	if r.Chance(1, 4) {
		k = 254 + r.Intn(2) // the full value list and the one below it
	}
	vals := make([]string, k)
	for i := range vals {
		vals[i] = fmt.Sprintf("v%03d", i)
	}
	perm := r.Perm(k)
	declared := r.Chance(1, 2)
	var decl []string
	if declared {
		decl = make([]string, k)
		for i, p := range perm {
			decl[i] = vals[p]
		}
	}
	data := make([]*string, 0, k+3)
	for i := 0; i < k; i++ {
		v := vals[r.Perm(k)[0]]
		if r.Chance(3, 4) {
			v = vals[i]
		}
		data = append(data, &v)
		if r.Chance(1, 40) {
			data = append(data, nil)
		}
	}
	if r.Chance(1, 4) {
		u := "undeclared"
		data = append(data, &u)
	}
	it := make([]string, len(data))
	for i, x := range data {
		it[i] = hlib.OptStr(x)
	}
	desc := map[string]interface{}{"op": "new-enum-boundary", "cardinality": k, "declared": declared, "rows": len(data), "props": []string{"C17", "C08", "C10"}}
	var out qframe.QFrame
	id := s.NextID()
	if p, v := hlib.Recover(func() {
		out = qframe.New(map[string]types.DataSlice{"E": data}, newqf.Enums(map[string][]string{"E": decl}))
	}); p {
		s.Fail(id, fmt.Sprintf("New panicked: %v", v), desc, "")
		return
	}
	od := qframe.VerifDump(out)
	if out.Err == nil {
		s.Count("enum-boundary-ok")
		// every cell must read back as inserted, null as null
		view := out.MustEnumView("E")
		for i, x := range data {
			got := view.ItemAt(i)
			if (x == nil) != (got == nil) || (x != nil && *x != *got) {
				s.Fail(id, fmt.Sprintf("enum cell %d reads back differently", i), desc, "")
				break
			}
		}
	} else {
		s.Count("enum-boundary-err")
	}
	s.Add(fmt.Sprintf("FNew [(%s, DStrPtrs %s)] [] [(%s, %s)] %s", hlib.Str("E"), hlib.List(it), hlib.Str("E"), strList(decl), coqFrame(od)), desc, true)
	if out.Err != nil || out.Len() == 0 {
		return
	}
	// Equals against a frame with another value list: one row where this frame holds null / a declared value and
	// the other one a string this frame's list does not know (value lists of up to 255 entries on either side)
	combos := [][2]int{{r.Intn(3), r.Intn(2)}}
	if k >= 254 && k <= 255 {
		combos = [][2]int{{0, 0}, {0, 1}, {1, 0}, {1, 1}, {2, 0}, {2, 1}}
	} else if r.Chance(1, 2) {
		combos = nil
	}
	for _, cb := range combos {
		row := r.Intn(len(data))
		data2 := append([]*string{}, data...)
		switch cb[0] {
		case 0:
			data2[row] = sp("zzz-unknown")
		case 1:
			data2[row] = nil
		}
		mine := append([]*string{}, data...)
		if cb[1] == 1 {
			mine[row] = nil
		}
		a := qframe.New(map[string]types.DataSlice{"E": mine}, newqf.Enums(map[string][]string{"E": decl}))
		b := qframe.New(map[string]types.DataSlice{"E": data2}, newqf.Enums(map[string][]string{"E": nil}))
		if a.Err == nil && b.Err == nil {
			for _, pr := range [][2]qframe.QFrame{{a, b}, {b, a}} {
				x, y := pr[0], pr[1]
				descE := map[string]interface{}{"op": "equals", "enum-cardinality": k, "declared": declared, "row": row, "props": []string{"C09", "C17"}}
				var eq bool
				idE := s.NextID()
				if p, v := hlib.Recover(func() { eq, _ = x.Equals(y) }); p {
					s.Fail(idE, fmt.Sprintf("Equals panicked: %v", v), descE, "")
					continue
				}
				s.Count("enum-boundary-equals-" + fmt.Sprint(eq))
				s.Add(fmt.Sprintf("FEquals %s %s %s", coqFrame(qframe.VerifDump(x)), coqFrame(qframe.VerifDump(y)), hlib.Bool(eq)), descE, true)
			}
		}
	}
	// a filter against ranks around the word boundaries of the bitset / the comparison kernels
	target := vals[r.Intn(k)]
	var cl *cnode
	switch r.Intn(4) {
	case 0:
		cl = &cnode{kind: "leaf", col: "E", cmpS: "in", cmpGo: "in", argGo: []string{target, vals[0], vals[k-1]},
			argC: "(AStrs " + strList([]string{target, vals[0], vals[k-1]}) + ")", desc: "E in [...]"}
	case 1:
		op := []string{"<", "<=", ">", ">=", "=", "!="}[r.Intn(6)]
		cl = &cnode{kind: "leaf", col: "E", cmpS: op, cmpGo: op, argGo: target, argC: "(AStr " + hlib.Str(target) + ")", desc: "E " + op + " " + target}
	case 2:
		cl = &cnode{kind: "leaf", col: "E", cmpS: "like", cmpGo: "like", argGo: "v" + target[1:3] + "%", argC: "(AStr " + hlib.Str("v"+target[1:3]+"%") + ")", desc: "E like " + target[:3] + "%"}
	default:
		cl = &cnode{kind: "leaf", col: "E", cmpS: "=", cmpGo: "=", argGo: "undeclared-const", argC: "(AStr " + hlib.Str("undeclared-const") + ")", desc: "E = undeclared-const"}
	}
	cl.inv = r.Chance(1, 4)
	desc2 := map[string]interface{}{"op": "filter", "clause": cl.String(), "enum-cardinality": k, "declared": declared, "props": []string{"C17", "C02", "C18"}}
	var fo qframe.QFrame
	id2 := s.NextID()
	if p, v := hlib.Recover(func() { fo = out.Filter(cl.goClause()) }); p {
		s.Fail(id2, fmt.Sprintf("Filter panicked: %v", v), desc2, "")
		return
	}
	s.Count("enum-boundary-filter")
	s.Add("FFilter "+coqFrame(od)+" "+matcherTable(cl, od)+" "+cl.coq()+" "+coqFrame(qframe.VerifDump(fo)), desc2, true)
}

// ---------------------------------------------------------------- frames with a repeated column name

// dupNamesCase: Select accepts a repeated name; the resulting frame has two columns called alike. Such frames are
// reachable through the public API without any error, so every property quantifying over "any frame however
// derived" speaks about them: an Apply that overwrites the name, then all observers (in runOp), or an Eval.
func dupNamesCase(r *hlib.Rng, s *hlib.Suite) {
	qf, cols := genFrame(r, []string{"int"})
	qf, _ = deriveIndex(r, qf, cols, s)
	var ic genCol
	for _, c := range cols {
		if c.kind == "int" {
			ic = c
		}
	}
	names := []string{ic.name, ic.name}
	for _, c := range cols {
		if c.name != ic.name && r.Bool() {
			names = append(names, c.name)
		}
	}
	h := qf.Select(names...)
	if h.Err != nil {
		return
	}
	rec := []string{}
	fn := func(x int) int { y := 10*x + 1; rec = append(rec, "("+cInt(x)+", "+cInt(y)+")"); return y }
	in := qframe.VerifDump(h)
	desc := map[string]interface{}{"op": "apply", "instructions": []string{ic.name + " := fn1(" + ic.name + ")"}, "derivation": []string{"select(" + strings.Join(names, ",") + ")"},
		"props": allProps, "class": "duplicate-column-names"}
	var g qframe.QFrame
	od, ok := runOp(s, h, desc, func() qframe.QFrame {
		g = h.Apply(qframe.Instruction{Fn: fn, DstCol: ic.name, SrcCol1: ic.name})
		return g
	})
	if !ok {
		return
	}
	s.Count("duplicate-names-apply")
	instr := "(mkInstr (F1 TInt TInt " + hlib.List(dedup(rec)) + ") " + hlib.Str(ic.name) + " " + hlib.Str(ic.name) + " " + hlib.Str("") + ")"
	s.Add(fmt.Sprintf("FApply %s [] %s %s", coqFrame(in), hlib.List([]string{instr}), coqFrame(od)), desc, h.Len() > 0)
	if g.Err != nil || r.Bool() {
		return
	}
	// Eval of a constant into a new column must leave both columns of that name alone
	in2 := qframe.VerifDump(g)
	desc2 := map[string]interface{}{"op": "eval", "dst": "NEWCOL", "expr": "5", "derivation": []string{"select(" + strings.Join(names, ",") + ")", "apply " + ic.name + " := fn1(" + ic.name + ")"},
		"props": []string{"C07"}, "class": "duplicate-column-names"}
	od2, ok := runOp(s, g, desc2, func() qframe.QFrame { return g.Eval("NEWCOL", qframe.Val(5)) })
	if !ok {
		return
	}
	s.Count("duplicate-names-eval")
	s.Add(fmt.Sprintf("FEval %s [] [] %s (EConst %s) %s", coqFrame(in2), hlib.Str("NEWCOL"), cInt(5), coqFrame(od2)), desc2, g.Len() > 0)
}
