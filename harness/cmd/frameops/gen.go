package main

// Frame generation, derivation of non-identity indexes, physical dumps as Coq terms.

import (
	"fmt"
	"math"
	"strings"

	"github.com/tobgu/qframe"
	"github.com/tobgu/qframe/config/groupby"
	"github.com/tobgu/qframe/config/newqf"
	"github.com/tobgu/qframe/types"
	"verifharness/hlib"
)

var intPool = []int{0, 1, -1, 2, 3, 5, 7, -7, 100, math.MaxInt64, math.MinInt64, 1 << 53, (1 << 53) + 1, -(1 << 53) - 1, 6, 4}
var floatPool = []float64{0, math.Copysign(0, -1), 1, -1, 2.5, -2.5, 1.5, 3, 5, 1e300, -1e300, math.Inf(1), math.Inf(-1),
	math.NaN(), math.Float64frombits(0x7FF8000000000002), math.Float64frombits(0xFFF8000000000001), 5e-324, 0.1, 7}
var strPool = []string{"", "a", "b", "A", "ab", "abc", "B", "a%", "%", "x\x00", "\x00", "é", "ɐb", "ısı", "ſt", "a\ufffdb", "a\u0080", "aa", "ba", "Ab", "zz", "a.c", "a,b", "q\"r", "line\nfeed"}

// forceCaseCluster makes genColumn draw enum values from caseCluster (set by the directed like/ilike family)
var forceCaseCluster bool

// values whose upper case has another encoded length than the value (2 -> 3 bytes, 2 -> 1, 3 -> 2), alone, first,
// in the middle and last in the string
var upperPool = []string{"ɐ", "ɐb", "xɐ", "aɐb", "ısı", "ſt", "aſ", "ⱥ", "ⱥz", "qⱥ", "ɫɫ", "éɐ", "ǆ", "ß", "ﬁ", "abc"}

var caseCluster = []string{"a", "A", "ab", "Ab", "aB", "AB", "b", "B"}
var namePool = []string{"A", "B", "C", "D", "E", "col", "x y", "é", "a\"b", "T"}

type genCol struct {
	name   string
	kind   string // int float bool string enum
	ints   []int
	floats []float64
	bools  []bool
	strs   []*string
	enumV  []string // declared values (nil = derived)
}

func sp(s string) *string { return &s }

func genColumn(r *hlib.Rng, name, kind string, n int, small bool) genCol {
	c := genCol{name: name, kind: kind}
	pick := func(k int) int {
		if small {
			return r.Intn(min(k, 4))
		}
		return r.Intn(k)
	}
	switch kind {
	case "int":
		c.ints = make([]int, n)
		extreme := r.Chance(1, 6)
		for i := range c.ints {
			if extreme {
				// values further than 2^63 apart: differences overflow
				c.ints[i] = []int{math.MaxInt64, math.MinInt64, -1, 0, 1, math.MaxInt64 - 1, math.MinInt64 + 1, 6e18, -6e18, -2}[pick(10)]
			} else if r.Chance(3, 4) {
				c.ints[i] = intPool[pick(len(intPool))]
			} else {
				c.ints[i] = r.Intn(20) - 10
			}
		}
	case "float":
		c.floats = make([]float64, n)
		for i := range c.floats {
			if r.Chance(3, 4) {
				c.floats[i] = floatPool[pick(len(floatPool))]
			} else {
				c.floats[i] = float64(r.Intn(20)-10) / 2
			}
		}
		if small {
			for i := range c.floats {
				c.floats[i] = []float64{0, math.Copysign(0, -1), 1, math.NaN(), math.Float64frombits(0x7FF8000000000002), -1}[r.Intn(6)]
			}
		}
	case "bool":
		c.bools = make([]bool, n)
		for i := range c.bools {
			c.bools[i] = r.Bool()
		}
	case "string":
		c.strs = make([]*string, n)
		special := r.Chance(1, 6)
		for i := range c.strs {
			if r.Chance(1, 6) {
				c.strs[i] = nil
			} else if forceCaseCluster {
				c.strs[i] = sp(caseCluster[r.Intn(len(caseCluster))])
			} else if special {
				c.strs[i] = sp(upperPool[pick(len(upperPool))])
			} else {
				c.strs[i] = sp(strPool[pick(len(strPool))])
			}
		}
	case "enum":
		// declared or derived value set
		vals := []string{}
		k := 1 + r.Intn(5)
		pool := strPool
		if r.Chance(1, 7) && !forceCaseCluster {
			pool = upperPool
		} else if r.Chance(1, 3) || forceCaseCluster {
			pool = caseCluster // values that differ only in case: several of them match one ilike pattern
			if forceCaseCluster {
				k = 3 + r.Intn(4)
			}
		}
		perm := r.Perm(len(pool))
		for i := 0; i < k; i++ {
			vals = append(vals, pool[perm[i]])
		}
		if r.Chance(2, 3) {
			c.enumV = vals
		}
		c.strs = make([]*string, n)
		for i := range c.strs {
			if r.Chance(1, 6) {
				c.strs[i] = nil
			} else {
				c.strs[i] = sp(vals[r.Intn(len(vals))])
			}
		}
	}
	return c
}

func min(a, b int) int {
	if a < b {
		return a
	}
	return b
}

var kinds = []string{"int", "float", "bool", "string", "enum"}

// genFrame builds a random frame with 1-5 columns (at least the requested kinds) and 0-12 rows.
func genFrame(r *hlib.Rng, need []string) (qframe.QFrame, []genCol) {
	n := r.Intn(10)
	if r.Chance(1, 12) {
		n = 0
	}
	if r.Chance(1, 8) {
		n = 10 + r.Intn(30)
	}
	small := r.Chance(1, 2)
	ks := append([]string{}, need...)
	extra := r.Intn(3)
	for i := 0; i < extra; i++ {
		ks = append(ks, kinds[r.Intn(len(kinds))])
	}
	if len(ks) == 0 {
		ks = append(ks, kinds[r.Intn(len(kinds))])
	}
	perm := r.Perm(len(namePool))
	cols := make([]genCol, len(ks))
	data := map[string]types.DataSlice{}
	order := []string{}
	enums := map[string][]string{}
	for i, k := range ks {
		cols[i] = genColumn(r, namePool[perm[i]], k, n, small)
		c := cols[i]
		switch k {
		case "int":
			data[c.name] = c.ints
		case "float":
			data[c.name] = c.floats
		case "bool":
			data[c.name] = c.bools
		case "string":
			data[c.name] = c.strs
		case "enum":
			data[c.name] = c.strs
			enums[c.name] = c.enumV
		}
		order = append(order, c.name)
	}
	qf := qframe.New(data, newqf.ColumnOrder(order...), newqf.Enums(enums))
	if qf.Err != nil {
		panic(fmt.Sprintf("genFrame: %v", qf.Err))
	}
	// every other family takes the physical dump of this frame as its input: make sure here that New stored
	// exactly the supplied values (otherwise a defect of the constructors would be invisible to them)
	if msg := newHolds(qf, cols); msg != "" {
		panic("New does not hold the supplied values: " + msg)
	}
	return qf, cols
}

// newHolds compares a frame just built by New with the generated data, column by column (physical order).
func newHolds(qf qframe.QFrame, cols []genCol) string {
	d := qframe.VerifDump(qf)
	if len(d.Columns) != len(cols) {
		return fmt.Sprintf("%d columns for %d supplied", len(d.Columns), len(cols))
	}
	for i, c := range cols {
		dc := d.Columns[i]
		if dc.Name != c.name {
			return "column " + c.name + " is at another position"
		}
		switch c.kind {
		case "int":
			if fmt.Sprint(dc.Ints) != fmt.Sprint(c.ints) {
				return "int column " + c.name
			}
		case "float":
			if len(dc.Floats) != len(c.floats) {
				return "float column " + c.name
			}
			for j := range c.floats {
				if math.Float64bits(dc.Floats[j]) != math.Float64bits(c.floats[j]) {
					return fmt.Sprintf("float column %s row %d", c.name, j)
				}
			}
		case "bool":
			if fmt.Sprint(dc.Bools) != fmt.Sprint(c.bools) {
				return "bool column " + c.name
			}
		case "string":
			if len(dc.Strings) != len(c.strs) {
				return "string column " + c.name
			}
			for j := range c.strs {
				a, b := dc.Strings[j], c.strs[j]
				if (a == nil) != (b == nil) || (a != nil && *a != *b) {
					return fmt.Sprintf("string column %s row %d", c.name, j)
				}
			}
		case "enum":
			if len(dc.Ranks) != len(c.strs) {
				return "enum column " + c.name
			}
			for j := range c.strs {
				b := c.strs[j]
				if (dc.Ranks[j] == 255) != (b == nil) || (b != nil && (int(dc.Ranks[j]) >= len(dc.Values) || dc.Values[dc.Ranks[j]] != *b)) {
					return fmt.Sprintf("enum column %s row %d", c.name, j)
				}
			}
		}
	}
	return ""
}

// derive scrambles the row index with 0-3 index-changing operations so that physical and logical order differ.
func derive(r *hlib.Rng, qf qframe.QFrame, cols []genCol, s *hlib.Suite) (qframe.QFrame, []string) {
	q, _, h := deriveCols(r, qf, cols, s)
	return q, h
}

// deriveCols additionally derives the COLUMN structure (0-2 steps: all columns re-selected in another order, a
// column appended by Copy — which leaves the column slice with spare capacity —, positions shifted by dropping a
// column placed in front), so that the operation under test sees frames "however derived" also with respect to
// the by-name map / position book-keeping.  It returns the columns of the derived frame.
func deriveCols(r *hlib.Rng, qf qframe.QFrame, cols []genCol, s *hlib.Suite) (qframe.QFrame, []genCol, []string) {
	cols = append([]genCol{}, cols...)
	pre := []string{}
	kc := 0
	if r.Chance(1, 2) {
		kc = 1 + r.Intn(2)
	}
	for i := 0; i < kc; i++ {
		switch r.Intn(3) {
		case 0: // re-select all columns in a random order
			p := r.Perm(len(cols))
			names := make([]string, len(cols))
			nc := make([]genCol, len(cols))
			for j, k := range p {
				names[j], nc[j] = cols[k].name, cols[k]
			}
			qf, cols = qf.Select(names...), nc
			pre = append(pre, "select("+strings.Join(names, ",")+")")
		case 1: // append a copy of a column under a fresh name
			c := cols[r.Intn(len(cols))]
			nn := fmt.Sprintf("Z%d", i)
			qf = qf.Copy(nn, c.name)
			pre = append(pre, "copy("+nn+","+c.name+")")
			c.name = nn
			cols = append(cols, c)
		case 2: // put a scratch column in front, then drop it: every remaining column changes its position
			names := []string{"zz"}
			for _, c := range cols {
				names = append(names, c.name)
			}
			qf = qf.Copy("zz", cols[0].name).Select(names...).Drop("zz")
			pre = append(pre, "copy(zz)+select(zz first)+drop(zz)")
		}
		if qf.Err != nil {
			panic(fmt.Sprintf("deriveCols: %v", qf.Err))
		}
	}
	if len(pre) > 0 {
		s.Count("derived-columns")
	}
	q, h := deriveIndex(r, qf, cols, s)
	return q, cols, append(pre, h...)
}

// rearrange: an arbitrary rearrangement of the rows through a helper column that is dropped again: two times in
// three the first and the last row stay where they are and only rows in between move (all of them, or one exchange)
func rearrange(r *hlib.Rng, qf qframe.QFrame) (qframe.QFrame, string) {
	n := qf.Len()
	ranks := r.Perm(n)
	if r.Chance(2, 3) && n >= 4 {
		mid := r.Perm(n - 2)
		for j := range mid {
			ranks[j+1] = mid[j] + 1
		}
		ranks[0], ranks[n-1] = 0, n-1
		if r.Chance(1, 2) { // a single exchange in the middle
			for j := range ranks {
				ranks[j] = j
			}
			a := 1 + r.Intn(n-2)
			b := 1 + r.Intn(n-2)
			ranks[a], ranks[b] = ranks[b], ranks[a]
		}
	}
	pos := 0
	helper := "zz-order-helper"
	qf = qf.Apply(qframe.Instruction{Fn: func() int { pos++; return ranks[pos-1] }, DstCol: helper}).Sort(qframe.Order{Column: helper}).Drop(helper)
	return qf, fmt.Sprintf("rearranged(%v)", ranks)
}

// forceRearrange: the family wants a rearranged index as the last derivation step (half of the time)
var forceRearrange bool

func deriveIndex(r *hlib.Rng, qf qframe.QFrame, cols []genCol, s *hlib.Suite) (qframe.QFrame, []string) {
	hist := []string{}
	k := r.Intn(4)
	for i := 0; i < k && qf.Len() > 0; i++ {
		switch r.Intn(6) {
		case 5:
			var h string
			qf, h = rearrange(r, qf)
			hist = append(hist, h)
		case 0, 1:
			c := cols[r.Intn(len(cols))]
			o := qframe.Order{Column: c.name, Reverse: r.Bool(), NullLast: r.Bool()}
			qf = qf.Sort(o)
			hist = append(hist, fmt.Sprintf("sort(%s,%v,%v)", c.name, o.Reverse, o.NullLast))
		case 2:
			a := r.Intn(qf.Len() + 1)
			b := a + r.Intn(qf.Len()-a+1)
			qf = qf.Slice(a, b)
			hist = append(hist, fmt.Sprintf("slice(%d,%d)", a, b))
		case 3:
			// drop a pseudo random subset with a custom predicate on the first column
			c := cols[0]
			cnt := 0
			keep := func() bool { cnt++; return (cnt*7+int(r.U64()%3))%3 != 0 }
			var cl qframe.FilterClause
			switch c.kind {
			case "int":
				cl = qframe.Filter{Column: c.name, Comparator: func(int) bool { return keep() }}
			case "float":
				cl = qframe.Filter{Column: c.name, Comparator: func(float64) bool { return keep() }}
			case "bool":
				cl = qframe.Filter{Column: c.name, Comparator: func(bool) bool { return keep() }}
			default:
				cl = qframe.Filter{Column: c.name, Comparator: func(*string) bool { return keep() }}
			}
			qf = qf.Filter(cl)
			hist = append(hist, "filter(random subset)")
		case 4:
			c := cols[r.Intn(len(cols))]
			qf = qf.Distinct(groupby.Columns(c.name), groupby.Null(r.Bool()))
			hist = append(hist, "distinct("+c.name+")")
		}
		if qf.Err != nil {
			panic(fmt.Sprintf("derive: %v", qf.Err))
		}
	}
	if forceRearrange && qf.Len() >= 4 && r.Chance(1, 2) {
		var h string
		qf, h = rearrange(r, qf)
		hist = append(hist, h)
		if qf.Err != nil {
			panic(fmt.Sprintf("derive: %v", qf.Err))
		}
	}
	if len(hist) > 0 {
		s.Count("derived-index")
	} else {
		s.Count("identity-index")
	}
	return qf, hist
}

// ---------------------------------------------------------------- dumps as Coq terms

func coqFloat(f float64) string { return hlib.NHex(math.Float64bits(f)) }

func coqColData(c qframe.VerifColumn) string {
	switch c.Kind {
	case "int":
		return "ICol " + hlib.ZList(c.Ints)
	case "float":
		it := make([]string, len(c.Floats))
		for i, f := range c.Floats {
			it[i] = coqFloat(f)
		}
		return "FCol " + hlib.List(it)
	case "bool":
		return "BCol " + hlib.BoolList(c.Bools)
	case "string":
		it := make([]string, len(c.Strings))
		for i, s := range c.Strings {
			it[i] = hlib.OptStr(s)
		}
		return "SCol " + hlib.List(it)
	case "enum":
		it := make([]string, len(c.Ranks))
		for i, v := range c.Ranks {
			it[i] = hlib.N(uint64(v))
		}
		vs := make([]string, len(c.Values))
		for i, v := range c.Values {
			vs[i] = hlib.Str(v)
		}
		return "ECol " + hlib.List(it) + " " + hlib.List(vs) + " " + hlib.Bool(c.Strict)
	}
	panic("unknown column kind " + c.Kind)
}

func coqFrame(d qframe.VerifFrame) string {
	cs := make([]string, len(d.Columns))
	for i, c := range d.Columns {
		cs[i] = "(" + hlib.Str(c.Name) + ", " + coqColData(c) + ")"
	}
	return "(mkFrame " + hlib.List(cs) + " " + hlib.U32List(d.Index) + " " + hlib.Bool(d.HasErr) + ")"
}

// colEq compares two dumped columns physically (NaNs identified).
func colEq(a, b qframe.VerifColumn) bool {
	return a.Name == b.Name && coqColData(canonNaN(a)) == coqColData(canonNaN(b))
}

func canonNaN(c qframe.VerifColumn) qframe.VerifColumn {
	if c.Kind != "float" {
		return c
	}
	out := c
	out.Floats = make([]float64, len(c.Floats))
	for i, f := range c.Floats {
		if math.IsNaN(f) {
			f = math.NaN()
		}
		out.Floats[i] = f
	}
	return out
}

// checkByName verifies the model's reading of the by-name map: every name resolves to the LAST column of
// the slice with that name, and the map has no other entries.
func checkByName(d qframe.VerifFrame) string {
	last := map[string]int{}
	for i, c := range d.Columns {
		last[c.Name] = i
	}
	if len(last) != len(d.ByName) {
		return fmt.Sprintf("by-name map has %d entries, the column slice has %d distinct names", len(d.ByName), len(last))
	}
	for name, i := range last {
		m, ok := d.ByName[name]
		if !ok {
			return "by-name map lacks " + name
		}
		if !colEq(m, d.Columns[i]) {
			return "by-name entry of " + name + " is not the last column of that name"
		}
	}
	return ""
}

// digest is the full logical observation of a frame through the public API only.
func digest(qf qframe.QFrame) string {
	var b strings.Builder
	fmt.Fprintf(&b, "err=%v len=%d names=%q types=%v\n", qf.Err != nil, qf.Len(), qf.ColumnNames(), qf.ColumnTypes())
	if qf.Err != nil {
		return b.String()
	}
	for _, name := range qf.ColumnNames() {
		switch qf.ColumnTypeMap()[name] {
		case types.Int:
			v := qf.MustIntView(name)
			fmt.Fprintf(&b, "%v\n", v.Slice())
		case types.Float:
			v := qf.MustFloatView(name)
			for _, f := range v.Slice() {
				if math.IsNaN(f) {
					b.WriteString("NaN ")
				} else {
					fmt.Fprintf(&b, "%x ", math.Float64bits(f))
				}
			}
			b.WriteString("\n")
		case types.Bool:
			v := qf.MustBoolView(name)
			fmt.Fprintf(&b, "%v\n", v.Slice())
		case types.String:
			v := qf.MustStringView(name)
			for _, s := range v.Slice() {
				if s == nil {
					b.WriteString("nil ")
				} else {
					fmt.Fprintf(&b, "%q ", *s)
				}
			}
			b.WriteString("\n")
		case types.Enum:
			v := qf.MustEnumView(name)
			for _, s := range v.Slice() {
				if s == nil {
					b.WriteString("nil ")
				} else {
					fmt.Fprintf(&b, "%q ", *s)
				}
			}
			b.WriteString("\n")
		}
	}
	return b.String()
}
