package main

// Eval family: random expression trees through qframe.Expr / qframe.Val with an evaluation context in which every
// function of the default context is wrapped by a recorder (same names, same types, same behaviour).

import (
	"fmt"
	"math"
	"strings"

	"github.com/tobgu/qframe"
	"github.com/tobgu/qframe/config/eval"
	"github.com/tobgu/qframe/function"
	"github.com/tobgu/qframe/types"
	"verifharness/hlib"
)

type ctxEntry struct {
	t    string // TInt TFloat TBool TString
	two  bool
	name string
	coq  func() string
}

type recCtx struct {
	ctx     *eval.Context
	entries []ctxEntry
	strFns  []func(*string) // the recorded one-argument string functions (called again to complete their tables)
}

// completeStrings: every one-argument string function of the context is given every string cell of the frames
// (and null) once more, so that its recorded table covers every cell the operation could have passed to it -
// whether or not the implementation did.
func (rc *recCtx) completeStrings(ds ...qframe.VerifFrame) {
	seen := map[string]bool{}
	vals := []*string{nil}
	for _, d := range ds {
		for _, c := range d.Columns {
			for _, x := range c.Strings {
				if x != nil && !seen[*x] {
					seen[*x] = true
					vals = append(vals, cp(x))
				}
			}
			for _, v := range c.Values {
				if !seen[v] {
					seen[v] = true
					vals = append(vals, cp(&v))
				}
			}
		}
	}
	for _, f := range rc.strFns {
		for _, v := range vals {
			f(cp(v))
		}
	}
}

func cp(x *string) *string {
	if x == nil {
		return nil
	}
	c := string([]byte(*x))
	return &c
}

func newRecCtx(extra bool) *recCtx {
	rc := &recCtx{ctx: eval.NewDefaultCtx()}
	add1 := func(t, name, tout string, fn interface{}, rec *[]string) {
		if err := rc.ctx.SetFunc(name, fn); err != nil {
			panic(err)
		}
		switch f := fn.(type) {
		case func(*string) *string:
			rc.strFns = append(rc.strFns, func(x *string) { f(x) })
		case func(*string) int:
			rc.strFns = append(rc.strFns, func(x *string) { f(x) })
		}
		rc.entries = append(rc.entries, ctxEntry{t, false, name, func() string {
			return "(F1 " + t + " " + tout + " " + hlib.List(dedup(*rec)) + ")"
		}})
	}
	add2 := func(t, name string, fn interface{}, rec *[]string) {
		if err := rc.ctx.SetFunc(name, fn); err != nil {
			panic(err)
		}
		rc.entries = append(rc.entries, ctxEntry{t, true, name, func() string {
			return "(F2 " + t + " " + hlib.List(dedup(*rec)) + ")"
		}})
	}
	r := func() *[]string { return &[]string{} }
	// int
	{
		a := r()
		add1("TInt", "abs", "TInt", func(x int) int { y := function.AbsI(x); *a = append(*a, "("+cInt(x)+", "+cInt(y)+")"); return y }, a)
		b := r()
		add1("TInt", "str", "TString", func(x int) *string { y := function.StrI(x); *b = append(*b, "("+cInt(x)+", "+cStr(y)+")"); return y }, b)
		c := r()
		add1("TInt", "bool", "TBool", func(x int) bool { y := function.BoolI(x); *c = append(*c, "("+cInt(x)+", "+cBool(y)+")"); return y }, c)
		d := r()
		add1("TInt", "float", "TFloat", func(x int) float64 {
			y := function.FloatI(x)
			*d = append(*d, "("+cInt(x)+", "+cFloat(y)+")")
			return y
		}, d)
		for _, op := range []struct {
			n string
			f func(int, int) int
		}{{"+", function.PlusI}, {"-", function.MinusI}, {"*", function.MulI}} {
			op := op
			e := r()
			add2("TInt", op.n, func(x, y int) int {
				z := op.f(x, y)
				// the functions are pure: the swapped application is recorded too, so that the specification can
				// evaluate the operands in the order WRITTEN even if the implementation applied them the other way round
				*e = append(*e, "("+cInt(x)+", "+cInt(y)+", "+cInt(z)+")", "("+cInt(y)+", "+cInt(x)+", "+cInt(op.f(y, x))+")")
				return z
			}, e)
		}
		// "/" stays the default DivI (documented panic on zero); the generator never uses it on ints
	}
	// float
	{
		a := r()
		add1("TFloat", "abs", "TFloat", func(x float64) float64 { y := math.Abs(x); *a = append(*a, "("+cFloat(x)+", "+cFloat(y)+")"); return y }, a)
		b := r()
		add1("TFloat", "str", "TString", func(x float64) *string {
			y := function.StrF(x)
			*b = append(*b, "("+cFloat(x)+", "+cStr(y)+")")
			return y
		}, b)
		c := r()
		add1("TFloat", "int", "TInt", func(x float64) int { y := function.IntF(x); *c = append(*c, "("+cFloat(x)+", "+cInt(y)+")"); return y }, c)
		for _, op := range []struct {
			n string
			f func(float64, float64) float64
		}{{"+", function.PlusF}, {"-", function.MinusF}, {"*", function.MulF}, {"/", function.DivF}} {
			op := op
			e := r()
			add2("TFloat", op.n, func(x, y float64) float64 {
				z := op.f(x, y)
				*e = append(*e, "("+cFloat(x)+", "+cFloat(y)+", "+cFloat(z)+")", "("+cFloat(y)+", "+cFloat(x)+", "+cFloat(op.f(y, x))+")")
				return z
			}, e)
		}
	}
	// bool
	{
		a := r()
		add1("TBool", "!", "TBool", func(x bool) bool { y := function.NotB(x); *a = append(*a, "("+cBool(x)+", "+cBool(y)+")"); return y }, a)
		b := r()
		add1("TBool", "str", "TString", func(x bool) *string { y := function.StrB(x); *b = append(*b, "("+cBool(x)+", "+cStr(y)+")"); return y }, b)
		c := r()
		add1("TBool", "int", "TInt", func(x bool) int { y := function.IntB(x); *c = append(*c, "("+cBool(x)+", "+cInt(y)+")"); return y }, c)
		for _, op := range []struct {
			n string
			f func(bool, bool) bool
		}{{"&", function.AndB}, {"|", function.OrB}, {"!=", function.XorB}, {"nand", function.NandB}} {
			op := op
			e := r()
			add2("TBool", op.n, func(x, y bool) bool {
				z := op.f(x, y)
				*e = append(*e, "("+cBool(x)+", "+cBool(y)+", "+cBool(z)+")")
				return z
			}, e)
		}
	}
	// string
	{
		for _, op := range []struct {
			n string
			f func(*string) *string
		}{{"upper", function.UpperS}, {"lower", function.LowerS}, {"str", function.StrS}} {
			op := op
			a := r()
			add1("TString", op.n, "TString", func(x *string) *string {
				xc := cp(x)
				y := op.f(x)
				*a = append(*a, "("+cStr(xc)+", "+cStr(cp(y))+")")
				return y
			}, a)
		}
		b := r()
		add1("TString", "len", "TInt", func(x *string) int {
			xc := cp(x)
			y := function.LenS(x)
			*b = append(*b, "("+cStr(xc)+", "+cInt(y)+")")
			return y
		}, b)
		e := r()
		add2("TString", "+", func(x, y *string) *string {
			xc, yc := cp(x), cp(y)
			z := function.ConcatS(x, y)
			*e = append(*e, "("+cStr(xc)+", "+cStr(yc)+", "+cStr(cp(z))+")", "("+cStr(yc)+", "+cStr(xc)+", "+cStr(cp(function.ConcatS(yc, xc)))+")")
			return z
		}, e)
	}
	if extra {
		// user registered functions
		od := r()
		add1("TString", "ordefault", "TString", func(x *string) *string {
			xc := cp(x)
			var y *string
			if x == nil {
				y = sp("n/a")
			} else {
				y = sp("<" + *x + ">")
			}
			*od = append(*od, "("+cStr(xc)+", "+cStr(cp(y))+")")
			return y
		}, od)
		a := r()
		add1("TInt", "sq", "TInt", func(x int) int { y := x * x; *a = append(*a, "("+cInt(x)+", "+cInt(y)+")"); return y }, a)
		e := r()
		add2("TInt", "sub2", func(x, y int) int { z := x - 2*y; *e = append(*e, "("+cInt(x)+", "+cInt(y)+", "+cInt(z)+")"); return z }, e)
	}
	return rc
}

func (rc *recCtx) coq() string {
	it := make([]string, 0, len(rc.entries))
	for _, e := range rc.entries {
		it = append(it, "(("+e.t+", "+hlib.Bool(e.two)+", "+hlib.Str(e.name)+"), "+e.coq()+")")
	}
	return hlib.List(it)
}

type enode struct {
	goV  interface{}
	coq  string
	desc string
}

var ops1 = map[string][]string{"int": {"abs", "str", "bool", "float"}, "float": {"abs", "str", "int"}, "bool": {"!", "str", "int"}, "string": {"upper", "lower", "str", "len"}, "enum": {"upper", "str", "len"}}

// extraCtx: the context of the case under construction has the user registered functions (sq, sub2, ordefault)
var extraCtx bool

var ops2 = map[string][]string{"int": {"+", "-", "*"}, "float": {"+", "-", "*", "/"}, "bool": {"&", "|", "!=", "nand"}, "string": {"+"}, "enum": {"+"}}

func genConst(r *hlib.Rng, kind string) enode {
	switch kind {
	case "int":
		v := intPool[r.Intn(8)]
		return enode{v, "(EConst " + cInt(v) + ")", fmt.Sprint(v)}
	case "float":
		v := floatPool[r.Intn(len(floatPool))]
		return enode{v, "(EConst " + cFloat(v) + ")", fmt.Sprint(v)}
	case "bool":
		v := r.Bool()
		return enode{v, "(EConst " + cBool(v) + ")", fmt.Sprint(v)}
	default:
		switch r.Intn(4) {
		case 0:
			return enode{nil, "ENil", "nil"}
		case 1:
			v := strPool[r.Intn(len(strPool))]
			return enode{&v, "(EConst " + cStr(&v) + ")", fmt.Sprintf("&%q", v)}
		default:
			v := strPool[r.Intn(len(strPool))]
			caseStrings[v] = true
			return enode{v, "(EStr " + hlib.Str(v) + ")", fmt.Sprintf("%q", v)}
		}
	}
}

// genArg produces an argument of Expr of (roughly) the wanted kind.
func genArg(r *hlib.Rng, cols []genCol, kind string, depth int, malformed bool) enode {
	a := genArg0(r, cols, kind, depth, malformed)
	if r.Chance(1, 5) {
		// the same argument as an Expression value: Val(x) (a column, a constant, or an already built expression)
		var e qframe.Expression
		if p, _ := hlib.Recover(func() { e = qframe.Val(a.goV) }); !p {
			return enode{e, "(EBuilt (new_expr " + a.coq + "))", "Val(" + a.desc + ")"}
		}
	}
	return a
}

func genArg0(r *hlib.Rng, cols []genCol, kind string, depth int, malformed bool) enode {
	if malformed && r.Chance(1, 12) {
		return enode{[]byte("x"), "EOther", "[]byte"}
	}
	if depth > 0 && r.Chance(2, 5) {
		return genCall(r, cols, kind, depth-1, malformed)
	}
	if r.Chance(3, 5) {
		// a column of that kind if there is one
		cands := []genCol{}
		for _, c := range cols {
			if c.kind == kind || (kind == "string" && c.kind == "enum") {
				cands = append(cands, c)
			}
		}
		if malformed && r.Chance(1, 6) {
			nm := "nosuch"
			if r.Chance(1, 3) {
				// a missing column whose name looks like one of Eval's temporaries
				nm = []string{"colcol-temp-0", "const-temp-0", "unary-temp-0", "colcol-temp-1"}[r.Intn(4)]
				tempShapedRef = true
			}
			return enode{types.ColumnName(nm), "(EColName " + hlib.Str(nm) + ")", "col(" + nm + ")"}
		}
		if len(cands) > 0 {
			c := cands[r.Intn(len(cands))]
			return enode{types.ColumnName(c.name), "(EColName " + hlib.Str(c.name) + ")", "col(" + c.name + ")"}
		}
	}
	if malformed && r.Chance(1, 4) {
		kind = kinds[r.Intn(4)]
	}
	return genConst(r, kind)
}

// genCall produces qframe.Expr(op, args...) (as an Expression value) or, sometimes, the raw list form.
func genCall(r *hlib.Rng, cols []genCol, kind string, depth int, malformed bool) enode {
	arity := 1 + r.Intn(2)
	if r.Chance(1, 6) {
		arity = 3 + r.Intn(2)
	}
	if malformed && r.Chance(1, 10) {
		arity = 0
	}
	var op string
	if arity == 1 {
		l := ops1[kind]
		op = l[r.Intn(len(l))]
	} else {
		l := ops2[kind]
		op = l[r.Intn(len(l))]
	}
	if extraCtx && (r.Chance(1, 3) || (arity == 1 && (kind == "string" || kind == "enum") && r.Chance(1, 2))) {
		// the user registered functions of this case's context
		if x := map[string]string{"1int": "sq", "2int": "sub2", "1string": "ordefault", "1enum": "ordefault"}[fmt.Sprint(arity)+kind]; x != "" && arity <= 2 {
			op = x
		}
	}
	if malformed && r.Chance(1, 6) {
		op = "bogus"
	}
	args := make([]enode, arity)
	for i := range args {
		args[i] = genArg(r, cols, kind, depth, malformed)
	}
	goArgs := make([]interface{}, arity)
	coqArgs := make([]string, arity)
	descs := make([]string, arity)
	for i, a := range args {
		goArgs[i], coqArgs[i], descs[i] = a.goV, a.coq, a.desc
	}
	desc := op + "(" + strings.Join(descs, ", ") + ")"
	if arity >= 1 && arity <= 2 && r.Chance(1, 5) {
		// the raw list form, decoded by newExpr when it is passed on
		l := append([]interface{}{op}, goArgs...)
		return enode{l, "(EList " + hlib.List(append([]string{"(EStr " + hlib.Str(op) + ")"}, coqArgs...)) + ")", "raw[" + desc + "]"}
	}
	if arity >= 3 {
		// Expr must not alter the operand slice of its caller: build an expression from the same slice first
		_ = qframe.Expr(op, goArgs...)
	}
	e := qframe.Expr(op, goArgs...)
	return enode{e, "(EBuilt (expr_call " + hlib.Str(op) + " " + hlib.List(coqArgs) + "))", desc}
}

// tempShapedRef is set by the generator when the expression refers to a missing column named like a temporary
var tempShapedRef bool

func evalCase(r *hlib.Rng, s *hlib.Suite) {
	tempShapedRef = false
	nullMap := r.Chance(1, 6) // the directed sub-family "user function that gives null a value, on an enum column"
	var need []string
	if nullMap {
		need = []string{"enum"}
	}
	qf, cols := genFrame(r, need)
	qf, cols, hist := deriveCols(r, qf, cols, s)
	malformed := r.Chance(1, 4)
	caseStrings = map[string]bool{}
	for _, sv := range strPool {
		caseStrings[sv] = true
	}
	extraCtx = r.Chance(1, 2) || nullMap
	rc := newRecCtx(extraCtx)
	defer func() { extraCtx = false }()
	kind := cols[r.Intn(len(cols))].kind
	var top enode
	switch r.Intn(8) {
	case 0:
		top = genArg(r, cols, kind, 0, malformed) // Val(column) / Val(constant)
	default:
		top = genCall(r, cols, kind, 2, malformed)
	}
	if nullMap {
		// a user function that gives null a value of its own, applied directly to a string or enum column (the row
		// value of a null cell is what the function returns for null), alone or joined to another column
		var sc []genCol
		for _, c := range cols {
			if c.kind == "enum" || c.kind == "string" {
				sc = append(sc, c)
			}
		}
		if len(sc) > 0 {
			c := sc[r.Intn(len(sc))]
			for _, c2 := range sc {
				if c2.kind == "enum" && r.Chance(2, 3) {
					c = c2
				}
			}
			colE := "(EColName " + hlib.Str(c.name) + ")"
			top = enode{qframe.Expr("ordefault", types.ColumnName(c.name)), "(EBuilt (expr_call " + hlib.Str("ordefault") + " [" + colE + "]))", "ordefault(col(" + c.name + "))"}
			if r.Chance(1, 3) {
				top = enode{qframe.Expr("+", top.goV, types.ColumnName(c.name)), "(EBuilt (expr_call " + hlib.Str("+") + " [" + top.coq + "; " + colE + "]))", "+(" + top.desc + ", col(" + c.name + "))"}
			}
			s.Count("eval-null-mapping-user-function")
		}
	}
	dst := dstName(r, cols, malformed && r.Chance(1, 3))
	if r.Chance(1, 6) {
		dst = []string{"colcol-temp-0", "const-temp-0", "unary-temp-0", "colcol-temp-1"}[r.Intn(4)]
	}
	in := qframe.VerifDump(qf)
	desc := map[string]interface{}{"op": "eval", "dst": dst, "expr": top.desc, "derivation": hist, "props": []string{"C07", "C10", "C01"}}
	if tempShapedRef {
		desc["class"] = "eval-missing-column-named-like-a-temporary"
		desc["props"] = []string{"C07", "C10"}
	}
	var expr qframe.Expression
	id := s.NextID()
	if p, v := hlib.Recover(func() { expr = qframe.Val(top.goV) }); p {
		s.Fail(id, fmt.Sprintf("Val panicked: %v", v), desc, "")
		return
	}
	od, ok := runOp(s, qf, desc, func() qframe.QFrame { return qf.Eval(dst, expr, eval.EvalContext(rc.ctx)) })
	if !ok {
		return
	}
	if od.HasErr {
		s.Count("eval-err")
	} else {
		s.Count("eval-ok")
		for _, c := range od.Columns {
			if strings.Contains(c.Name, "-temp-") && c.Name != dst {
				found := false
				for _, ic := range in.Columns {
					if ic.Name == c.Name {
						found = true
					}
				}
				if !found {
					s.Fail(id, "a temporary column survived Eval: "+c.Name, desc, "")
				}
			}
		}
	}
	rc.completeStrings(in)
	s.Add(fmt.Sprintf("FEval %s %s %s %s %s %s", coqFrame(in), upperTable(in, od), rc.coq(), hlib.Str(dst), top.coq, coqFrame(od)), desc, qf.Len() > 0)
}

// ---------------------------------------------------------------- plain contexts (no recorder)

// pollute customises a context of its own — overriding built-in names with functions of different behaviour and
// adding a private name — and uses it once.  Contexts are independent values: nothing of this may be visible
// through the default context or through any other fresh context afterwards.
func pollute(qf qframe.QFrame, intCol string) {
	c := eval.NewDefaultCtx()
	_ = c.SetFunc("abs", func(x int) int { return 424242 })
	_ = c.SetFunc("abs", func(x float64) float64 { return 42.4242 })
	for _, n := range []string{"+", "-", "*"} {
		_ = c.SetFunc(n, func(x, y int) int { return 31337 })
		_ = c.SetFunc(n, func(x, y float64) float64 { return 3.1337 })
	}
	_ = c.SetFunc("onlyhere", func(x int) int { return x + 1 })
	_ = c.SetFunc("onlyhere", func(x float64) float64 { return x + 1 })
	if intCol != "" {
		_ = qf.Eval("polluted", qframe.Expr("abs", types.ColumnName(intCol)), eval.EvalContext(c))
	}
}

// plainEvalCase: depth-1 expressions over int/float columns evaluated with the DEFAULT context (none given, or a
// fresh NewDefaultCtx()), after another context was customised.  The function tables of the model are computed
// with the library's own function package, row by row over the physical cells.
func plainEvalCase(r *hlib.Rng, s *hlib.Suite) {
	kind := []string{"int", "float"}[r.Intn(2)]
	qf, cols := genFrame(r, []string{kind, kind})
	qf, cols, hist := deriveCols(r, qf, cols, s)
	caseStrings = map[string]bool{}
	var cs []genCol
	for _, c := range cols {
		if c.kind == kind {
			cs = append(cs, c)
		}
	}
	c1, c2 := cs[r.Intn(len(cs))], cs[r.Intn(len(cs))]
	if r.Chance(2, 3) {
		ic := ""
		if kind == "int" {
			ic = c1.name
		}
		pollute(qf, ic)
		s.Count("eval-plain-after-customised-context")
	}
	T := map[string]string{"int": "TInt", "float": "TFloat"}[kind]
	in := qframe.VerifDump(qf)
	cell := func(c genCol, p int) (string, interface{}) {
		if kind == "int" {
			return cInt(c.ints[p]), c.ints[p]
		}
		return cFloat(c.floats[p]), c.floats[p]
	}
	n := len(c1.ints) + len(c1.floats)
	ap1 := func(x interface{}) string {
		if kind == "int" {
			return cInt(function.AbsI(x.(int)))
		}
		return cFloat(math.Abs(x.(float64)))
	}
	ap2 := func(op string, x, y interface{}) string {
		if kind == "int" {
			f := map[string]func(int, int) int{"+": function.PlusI, "-": function.MinusI, "*": function.MulI}[op]
			return cInt(f(x.(int), y.(int)))
		}
		f := map[string]func(float64, float64) float64{"+": function.PlusF, "-": function.MinusF, "*": function.MulF}[op]
		return cFloat(f(x.(float64), y.(float64)))
	}
	var goE qframe.Expression
	var coqE, desc, entry string
	form := r.Intn(5)
	op := []string{"+", "-", "*"}[r.Intn(3)]
	switch form {
	case 0: // unary built in
		goE = qframe.Expr("abs", types.ColumnName(c1.name))
		coqE = "(EBuilt (expr_call " + hlib.Str("abs") + " [(EColName " + hlib.Str(c1.name) + ")]))"
		desc = "abs(col(" + c1.name + "))"
		it := []string{}
		for p := 0; p < n; p++ {
			cx, x := cell(c1, p)
			it = append(it, "("+cx+", "+ap1(x)+")")
		}
		entry = "((" + T + ", false, " + hlib.Str("abs") + "), (F1 " + T + " " + T + " " + hlib.List(dedup(it)) + "))"
	case 1: // a name that only the customised context knows
		goE = qframe.Expr("onlyhere", types.ColumnName(c1.name))
		coqE = "(EBuilt (expr_call " + hlib.Str("onlyhere") + " [(EColName " + hlib.Str(c1.name) + ")]))"
		desc = "onlyhere(col(" + c1.name + "))"
		entry = ""
	default:
		var k interface{} = intPool[r.Intn(8)]
		kc := ""
		if kind == "float" {
			k = floatPool[r.Intn(len(floatPool))]
			kc = cFloat(k.(float64))
		} else {
			kc = cInt(k.(int))
		}
		it := []string{}
		var a1, a2, d1, d2 string
		var g1, g2 interface{}
		switch form {
		case 2: // col op col
			g1, g2 = types.ColumnName(c1.name), types.ColumnName(c2.name)
			a1, a2 = "(EColName "+hlib.Str(c1.name)+")", "(EColName "+hlib.Str(c2.name)+")"
			d1, d2 = "col("+c1.name+")", "col("+c2.name+")"
			for p := 0; p < n; p++ {
				cx, x := cell(c1, p)
				cy, y := cell(c2, p)
				it = append(it, "("+cx+", "+cy+", "+ap2(op, x, y)+")", "("+cy+", "+cx+", "+ap2(op, y, x)+")")
			}
		case 3: // col op const
			g1, g2 = types.ColumnName(c1.name), k
			a1, a2 = "(EColName "+hlib.Str(c1.name)+")", "(EConst "+kc+")"
			d1, d2 = "col("+c1.name+")", fmt.Sprint(k)
			for p := 0; p < n; p++ {
				cx, x := cell(c1, p)
				it = append(it, "("+cx+", "+kc+", "+ap2(op, x, k)+")", "("+kc+", "+cx+", "+ap2(op, k, x)+")")
			}
		default: // const op col
			g1, g2 = k, types.ColumnName(c1.name)
			a1, a2 = "(EConst "+kc+")", "(EColName "+hlib.Str(c1.name)+")"
			d1, d2 = fmt.Sprint(k), "col("+c1.name+")"
			for p := 0; p < n; p++ {
				cx, x := cell(c1, p)
				it = append(it, "("+cx+", "+kc+", "+ap2(op, x, k)+")", "("+kc+", "+cx+", "+ap2(op, k, x)+")")
			}
		}
		goE = qframe.Expr(op, g1, g2)
		coqE = "(EBuilt (expr_call " + hlib.Str(op) + " " + hlib.List([]string{a1, a2}) + "))"
		desc = op + "(" + d1 + ", " + d2 + ")"
		entry = "((" + T + ", true, " + hlib.Str(op) + "), (F2 " + T + " " + hlib.List(dedup(it)) + "))"
	}
	dst := dstName(r, cols, false)
	fresh := r.Bool()
	d := map[string]interface{}{"op": "eval", "context": map[bool]string{true: "fresh NewDefaultCtx()", false: "none given"}[fresh], "dst": dst, "expr": desc, "derivation": hist, "props": []string{"C07", "C10", "C01"}}
	od, ok := runOp(s, qf, d, func() qframe.QFrame {
		if fresh {
			return qf.Eval(dst, goE, eval.EvalContext(eval.NewDefaultCtx()))
		}
		return qf.Eval(dst, goE)
	})
	if !ok {
		return
	}
	s.Count("eval-plain-context")
	ctx := "[]"
	if entry != "" {
		ctx = "[" + entry + "]"
	}
	s.Add(fmt.Sprintf("FEval %s %s %s %s %s %s", coqFrame(in), upperTable(in, od), ctx, hlib.Str(dst), coqE, coqFrame(od)), d, qf.Len() > 0)
}
