package main

// Random filter clause trees over the full comparator x argument-kind product, with recording
// custom predicates (their input -> output tables are shipped to the Coq side) and matcher oracle tables.

import (
	"fmt"
	"math"
	"regexp"
	"sort"
	"strings"
	"unicode/utf8"

	"github.com/tobgu/qframe"
	"github.com/tobgu/qframe/types"
	"github.com/tobgu/qframe/verifhook/framehook"
	"verifharness/hlib"
)

type cnode struct {
	kind string // leaf and or not null
	subs []*cnode
	// leaf
	col    string
	inv    bool
	cmpS   string      // built in name ("" if fn)
	cmpGo  interface{} // Go comparator
	argGo  interface{} // Go argument
	argC   string      // Coq farg
	fnT    string      // "" | TInt TFloat TBool TString
	fnAr   int         // 1 | 2
	rec1   *[]string   // recorded "(cell, bool)" entries
	desc   string
	argCol string // argument column of a two argument predicate
}

// complete evaluates the (pure) custom predicates of the clause on every physical cell of their column(s), so that
// the specification finds the answer for the right cell even when the implementation consulted a wrong one.
func (n *cnode) complete(d qframe.VerifFrame) {
	for _, s := range n.subs {
		s.complete(d)
	}
	if n.kind != "leaf" || n.fnT == "" {
		return
	}
	kind := map[string]string{"TInt": "int", "TFloat": "float", "TBool": "bool", "TString": "string"}[n.fnT]
	var c1, c2 *qframe.VerifColumn
	for i := range d.Columns {
		if d.Columns[i].Name == n.col {
			c1 = &d.Columns[i]
		}
		if d.Columns[i].Name == n.argCol {
			c2 = &d.Columns[i]
		}
	}
	if c1 == nil {
		return
	}
	x := physCells(*c1, kind)
	if n.fnAr == 1 {
		for _, v := range x {
			switch f := n.cmpGo.(type) {
			case func(int) bool:
				f(v.(int))
			case func(float64) bool:
				f(v.(float64))
			case func(bool) bool:
				f(v.(bool))
			case func(*string) bool:
				f(v.(*string))
			}
		}
		return
	}
	if c2 == nil {
		return
	}
	y := physCells(*c2, kind)
	if x == nil || y == nil || len(x) != len(y) {
		return
	}
	for i := range x {
		switch f := n.cmpGo.(type) {
		case func(int, int) bool:
			f(x[i].(int), y[i].(int))
		case func(float64, float64) bool:
			f(x[i].(float64), y[i].(float64))
		case func(bool, bool) bool:
			f(x[i].(bool), y[i].(bool))
		case func(*string, *string) bool:
			f(x[i].(*string), y[i].(*string))
		}
	}
}

var _ = 0

func (n *cnode) goClause() qframe.FilterClause {
	switch n.kind {
	case "leaf":
		return qframe.Filter{Column: n.col, Comparator: n.cmpGo, Arg: n.argGo, Inverse: n.inv}
	case "and":
		cs := make([]qframe.FilterClause, len(n.subs))
		for i, s := range n.subs {
			cs[i] = s.goClause()
		}
		return qframe.And(cs...)
	case "or":
		cs := make([]qframe.FilterClause, len(n.subs))
		for i, s := range n.subs {
			cs[i] = s.goClause()
		}
		return qframe.Or(cs...)
	case "not":
		return qframe.Not(n.subs[0].goClause())
	}
	return qframe.Null()
}

func (n *cnode) coq() string {
	switch n.kind {
	case "leaf":
		var cmp string
		switch {
		case n.fnT != "" && n.fnAr == 1:
			cmp = "(CmpFn1 " + n.fnT + " " + hlib.List(dedup(*n.rec1)) + ")"
		case n.fnT != "" && n.fnAr == 2:
			cmp = "(CmpFn2 " + n.fnT + " " + hlib.List(dedup(*n.rec1)) + ")"
		case n.cmpGo == nil || n.cmpS == "\x00other":
			cmp = "CmpOther"
		default:
			cmp = "(CmpName " + hlib.Str(n.cmpS) + ")"
		}
		return "(CLeaf (mkLeaf " + hlib.Str(n.col) + " " + cmp + " " + n.argC + " " + hlib.Bool(n.inv) + "))"
	case "and", "or":
		it := make([]string, len(n.subs))
		for i, s := range n.subs {
			it[i] = s.coq()
		}
		c := "CAnd"
		if n.kind == "or" {
			c = "COr"
		}
		return "(" + c + " " + hlib.List(it) + ")"
	case "not":
		return "(CNot " + n.subs[0].coq() + ")"
	}
	return "CNull"
}

func (n *cnode) String() string {
	switch n.kind {
	case "leaf":
		inv := ""
		if n.inv {
			inv = "!"
		}
		return inv + n.desc
	case "and", "or":
		it := make([]string, len(n.subs))
		for i, s := range n.subs {
			it[i] = s.String()
		}
		return n.kind + "(" + strings.Join(it, ", ") + ")"
	case "not":
		return "not(" + n.subs[0].String() + ")"
	}
	return "null"
}

func (n *cnode) patterns(acc map[[2]string]bool) {
	if n.kind == "leaf" {
		if n.cmpS == "like" || n.cmpS == "ilike" {
			if s, ok := n.argGo.(string); ok {
				acc[[2]string{s, n.cmpS}] = true
			}
		}
		return
	}
	for _, s := range n.subs {
		s.patterns(acc)
	}
}

func dedup(in []string) []string {
	seen := map[string]bool{}
	out := []string{}
	for _, s := range in {
		if !seen[s] {
			seen[s] = true
			out = append(out, s)
		}
	}
	return out
}

// ---------------------------------------------------------------- cells as Coq terms

func cInt(x int) string       { return "(CInt " + hlib.Z(int64(x)) + ")" }
func cFloat(x float64) string { return "(CFloat " + coqFloat(x) + ")" }
func cBool(x bool) string     { return "(CBool " + hlib.Bool(x) + ")" }

// caseStrings collects every string that occurs in a recorded cell of the current case (oracle tables such as
// the upper-casing table must cover intermediate results too).
var caseStrings = map[string]bool{}

func cStr(x *string) string {
	if x != nil {
		caseStrings[*x] = true
	}
	return "(CStr " + hlib.OptStr(x) + ")"
}

func fargFloat(f float64) string {
	return "(AFloat " + coqFloat(f) + " " + hlib.Z(int64(int(f))) + ")"
}

var builtins = []string{"<", "<=", ">", ">=", "=", "!=", "in", "isnull", "isnotnull", "any_bits", "all_bits", "like", "ilike", "not in", "bogus"}
var patPool = []string{"a", "a%", "%a", "%a%", "%", "", "A%", "%B", "ab", "a.c", "a.*", "^a", "(", "%b%", "é", "a\u0080", "ɐ%", "%%", "AB"}

func genLeaf(r *hlib.Rng, cols []genCol, malformed bool) *cnode {
	n := &cnode{kind: "leaf"}
	c := cols[r.Intn(len(cols))]
	n.col = c.name
	if malformed && r.Chance(1, 6) {
		n.col = "nosuch"
	}
	n.inv = r.Chance(1, 4)
	kind := c.kind
	// custom predicate?
	if r.Chance(1, 5) {
		rec := []string{}
		n.rec1 = &rec
		t := kind
		if malformed && r.Chance(1, 3) {
			t = kinds[r.Intn(4)]
		}
		ar := 1
		if r.Chance(1, 3) {
			ar = 2
		}
		n.fnAr = ar
		m := 2 + r.Intn(3)
		switch t {
		case "int":
			n.fnT = "TInt"
			if ar == 1 {
				n.cmpGo = func(x int) bool { v := (x%m+m)%m == 0; rec = append(rec, "("+cInt(x)+", "+hlib.Bool(v)+")"); return v }
			} else {
				n.cmpGo = func(x, y int) bool {
					v := x < y
					rec = append(rec, "("+cInt(x)+", "+cInt(y)+", "+hlib.Bool(v)+")")
					return v
				}
			}
		case "float":
			n.fnT = "TFloat"
			if ar == 1 {
				n.cmpGo = func(x float64) bool {
					v := x > 0 || math.IsNaN(x)
					rec = append(rec, "("+cFloat(x)+", "+hlib.Bool(v)+")")
					return v
				}
			} else {
				n.cmpGo = func(x, y float64) bool {
					v := x <= y
					rec = append(rec, "("+cFloat(x)+", "+cFloat(y)+", "+hlib.Bool(v)+")")
					return v
				}
			}
		case "bool":
			n.fnT = "TBool"
			if ar == 1 {
				n.cmpGo = func(x bool) bool { v := !x; rec = append(rec, "("+cBool(x)+", "+hlib.Bool(v)+")"); return v }
			} else {
				n.cmpGo = func(x, y bool) bool {
					v := x != y
					rec = append(rec, "("+cBool(x)+", "+cBool(y)+", "+hlib.Bool(v)+")")
					return v
				}
			}
		default:
			n.fnT = "TString"
			cp := func(x *string) *string {
				if x == nil {
					return nil
				}
				c := string([]byte(*x))
				return &c
			}
			if ar == 1 {
				n.cmpGo = func(x *string) bool {
					v := x == nil || len(*x)%m == 0
					rec = append(rec, "("+cStr(cp(x))+", "+hlib.Bool(v)+")")
					return v
				}
			} else {
				n.cmpGo = func(x, y *string) bool {
					v := x != nil && y != nil && *x < *y
					rec = append(rec, "("+cStr(cp(x))+", "+cStr(cp(y))+", "+hlib.Bool(v)+")")
					return v
				}
			}
		}
		n.desc = fmt.Sprintf("%s fn%d(%s)", n.col, ar, t)
		if ar == 2 || r.Chance(1, 4) {
			// argument column
			o := cols[r.Intn(len(cols))]
			if !malformed {
				// prefer a column of the same kind
				for _, cand := range cols {
					if cand.kind == kind && r.Chance(2, 3) {
						o = cand
					}
				}
			}
			n.argGo = types.ColumnName(o.name)
			n.argC = "(AColName " + hlib.Str(o.name) + ")"
			n.argCol = o.name
			n.desc += " col " + o.name
		} else {
			n.argC = "ANil"
		}
		return n
	}
	// built in comparator
	var cmps []string
	switch kind {
	case "int":
		cmps = []string{"<", "<=", ">", ">=", "=", "!=", "in", "isnull", "isnotnull", "any_bits", "all_bits"}
	case "float":
		cmps = []string{"<", "<=", ">", ">=", "=", "!=", "isnull", "isnotnull"}
	case "bool":
		cmps = []string{"=", "!="}
	default:
		cmps = []string{"<", "<=", ">", ">=", "=", "!=", "in", "isnull", "isnotnull", "like", "ilike"}
	}
	n.cmpS = cmps[r.Intn(len(cmps))]
	if malformed && r.Chance(1, 3) {
		n.cmpS = builtins[r.Intn(len(builtins))]
	}
	n.cmpGo = n.cmpS
	if malformed && r.Chance(1, 12) {
		n.cmpGo = 42
		n.cmpS = "\x00other"
	}
	// argument kind
	argKind := "const"
	switch n.cmpS {
	case "in":
		argKind = "list"
	case "isnull", "isnotnull":
		argKind = "nil"
	default:
		if r.Chance(1, 4) {
			argKind = "col"
		}
	}
	if malformed && r.Chance(1, 4) {
		argKind = []string{"const", "list", "nil", "col", "other", "wrongconst"}[r.Intn(6)]
	}
	akind := kind
	if argKind == "wrongconst" {
		akind = kinds[r.Intn(len(kinds))]
		argKind = "const"
	}
	switch argKind {
	case "nil":
		n.argGo, n.argC = nil, "ANil"
	case "other":
		n.argGo, n.argC = []byte("x"), "AOther"
	case "col":
		o := cols[r.Intn(len(cols))]
		for _, cand := range cols {
			if (cand.kind == kind || (kind == "int" && cand.kind == "float") || (kind == "float" && cand.kind == "int")) && r.Chance(2, 3) {
				o = cand
			}
		}
		name := o.name
		if malformed && r.Chance(1, 8) {
			name = "nosucharg"
		}
		n.argGo = types.ColumnName(name)
		n.argC = "(AColName " + hlib.Str(name) + ")"
	case "const":
		switch akind {
		case "int":
			if r.Chance(1, 5) {
				f := floatPool[r.Intn(len(floatPool))]
				if math.IsNaN(f) || math.IsInf(f, 0) || math.Abs(f) > 1e18 {
					f = 2.5
				}
				n.argGo, n.argC = f, fargFloat(f)
			} else {
				v := intPool[r.Intn(len(intPool))]
				if (n.cmpS == "any_bits" || n.cmpS == "all_bits") && r.Chance(2, 3) {
					v = []int{0, 1, 2, 3, 4, 6, 7}[r.Intn(7)]
				}
				n.argGo, n.argC = v, "(AInt "+hlib.Z(int64(v))+")"
			}
		case "float":
			f := floatPool[r.Intn(len(floatPool))]
			if math.IsNaN(f) && !r.Chance(1, 4) {
				f = 1
			}
			if r.Chance(1, 10) {
				n.argGo, n.argC = 3, "(AInt 3%Z)"
			} else {
				n.argGo, n.argC = f, fargFloat(f)
			}
		case "bool":
			v := r.Bool()
			n.argGo, n.argC = v, "(ABool "+hlib.Bool(v)+")"
		default:
			var v string
			if n.cmpS == "like" || n.cmpS == "ilike" {
				v = patPool[r.Intn(len(patPool))]
				if r.Chance(1, 3) {
					v = []string{"a", "A", "ab", "AB", "aB", "b", "%b", "A%"}[r.Intn(8)]
				}
			} else {
				v = strPool[r.Intn(len(strPool))]
			}
			n.argGo, n.argC = v, "(AStr "+hlib.Str(v)+")"
		}
	case "list":
		k := r.Intn(4)
		switch akind {
		case "int":
			switch r.Intn(3) {
			case 0:
				l := make([]int, k)
				for i := range l {
					l[i] = intPool[r.Intn(len(intPool))]
				}
				n.argGo, n.argC = l, "(AInts "+hlib.ZList(l)+")"
			case 1:
				l := make([]float64, k)
				it := make([]string, k)
				for i := range l {
					l[i] = float64(r.Intn(8)) + 0.5*float64(r.Intn(2))
					it[i] = "(" + coqFloat(l[i]) + ", " + hlib.Z(int64(int(l[i]))) + ")"
				}
				n.argGo, n.argC = l, "(AFloats "+hlib.List(it)+")"
			default:
				l := make([]interface{}, k)
				it := make([]string, k)
				for i := range l {
					if r.Bool() {
						v := intPool[r.Intn(len(intPool))]
						l[i], it[i] = v, "(AInt "+hlib.Z(int64(v))+")"
					} else if malformed && r.Chance(1, 3) {
						l[i], it[i] = "s", "(AStr "+hlib.Str("s")+")"
					} else {
						f := float64(r.Intn(8)) + 0.5
						l[i], it[i] = f, fargFloat(f)
					}
				}
				n.argGo, n.argC = l, "(AIfaces "+hlib.List(it)+")"
			}
		case "float", "bool":
			l := []float64{1, 2}
			n.argGo, n.argC = l, "(AFloats [("+coqFloat(1)+", 1%Z); ("+coqFloat(2)+", 2%Z)])"
		default:
			if r.Bool() {
				l := make([]string, k)
				it := make([]string, k)
				for i := range l {
					l[i] = strPool[r.Intn(len(strPool))]
					it[i] = hlib.Str(l[i])
				}
				n.argGo, n.argC = l, "(AStrs "+hlib.List(it)+")"
			} else {
				l := make([]interface{}, k)
				it := make([]string, k)
				for i := range l {
					if malformed && r.Chance(1, 4) {
						l[i], it[i] = 1, "(AInt 1%Z)"
					} else {
						s := strPool[r.Intn(len(strPool))]
						l[i], it[i] = s, "(AStr "+hlib.Str(s)+")"
					}
				}
				n.argGo, n.argC = l, "(AIfaces "+hlib.List(it)+")"
			}
		}
	}
	n.desc = fmt.Sprintf("%s %q %v", n.col, n.cmpS, n.argGo)
	return n
}

func genClause(r *hlib.Rng, cols []genCol, depth int, malformed bool) *cnode {
	if depth <= 0 || r.Chance(2, 5) {
		return genLeaf(r, cols, malformed)
	}
	switch r.Intn(8) {
	case 0, 1:
		k := 1 + r.Intn(3)
		if malformed && r.Chance(1, 8) {
			k = 0
		}
		n := &cnode{kind: "and"}
		for i := 0; i < k; i++ {
			n.subs = append(n.subs, genClause(r, cols, depth-1, malformed))
		}
		return n
	case 2, 3, 4:
		k := 1 + r.Intn(4)
		if malformed && r.Chance(1, 8) {
			k = 0
		}
		n := &cnode{kind: "or"}
		for i := 0; i < k; i++ {
			// bias towards batches of consecutive leaves
			if r.Chance(2, 3) {
				n.subs = append(n.subs, genLeaf(r, cols, malformed))
			} else {
				n.subs = append(n.subs, genClause(r, cols, depth-1, malformed))
			}
		}
		return n
	case 5, 6:
		return &cnode{kind: "not", subs: []*cnode{genClause(r, cols, depth-1, malformed)}}
	}
	return &cnode{kind: "null"}
}

// matcherTable computes the like/ilike oracle: for every (pattern, comparator) of the clause the answers of the
// real matcher on every string that occurs in a string or enum column of the frame (and on the enum value tables).
func matcherTable(n *cnode, d qframe.VerifFrame) string {
	pats := map[[2]string]bool{}
	n.patterns(pats)
	if len(pats) == 0 {
		return "[]"
	}
	strs := map[string]bool{}
	for _, c := range d.Columns {
		for _, s := range c.Strings {
			if s != nil {
				strs[*s] = true
			}
		}
		for _, v := range c.Values {
			strs[v] = true
		}
	}
	keys := make([]string, 0, len(strs))
	for k := range strs {
		keys = append(keys, k)
	}
	sort.Strings(keys)
	pk := make([][2]string, 0, len(pats))
	for k := range pats {
		pk = append(pk, k)
	}
	sort.Slice(pk, func(i, j int) bool { return pk[i][0]+"\x00"+pk[i][1] < pk[j][0]+"\x00"+pk[j][1] })
	items := []string{}
	for _, p := range pk {
		cs := p[1] == "like"
		m, err := framehook.NewMatcher(p[0], cs)
		ref, rerr := refMatcher(p[0], cs)
		if (err != nil) != (rerr != nil) {
			noteMatcherDisagreement(fmt.Sprintf("pattern %q (case sensitive %v): the library's matcher construction fails = %v, the documented rule fails = %v", p[0], cs, err != nil, rerr != nil))
		}
		if rerr != nil {
			items = append(items, "(("+hlib.Str(p[0])+", "+hlib.Bool(cs)+"), None)")
			continue
		}
		ans := make([]string, len(keys))
		for i, k := range keys {
			a := ref(k)
			if err == nil && utf8.ValidString(k) && m(k) != a {
				noteMatcherDisagreement(fmt.Sprintf("pattern %q (case sensitive %v) on %q: the library's matcher answers %v, the documented rule %v", p[0], cs, k, m(k), a))
			}
			if !utf8.ValidString(k) && err == nil {
				a = m(k) // upper-casing of invalid UTF-8 is the strings engine's business
			}
			ans[i] = "(" + hlib.Str(k) + ", " + hlib.Bool(a) + ")"
		}
		items = append(items, "(("+hlib.Str(p[0])+", "+hlib.Bool(cs)+"), Some "+hlib.List(ans)+")")
	}
	return hlib.List(items)
}

// refMatcher is the harness's own transcription (standard library only) of the documented like / ilike rule: a
// pattern with regular expression characters is a regular expression, anchored at the ends that carry no %, and
// compiled case-insensitively for ilike; any other pattern is a literal that must occur at the start / at the end /
// anywhere / as the whole cell according to one % at its end / start / both / none, compared in upper case for ilike.
// The oracle tables of the filter cases are built from it, and the library's matcher is compared with it on every
// entry: a matcher that depends on what was matched earlier in the process shows up here.
func refMatcher(pat string, caseSensitive bool) (func(string) bool, error) {
	fuzzyStart := strings.HasPrefix(pat, "%")
	fuzzyEnd := strings.HasSuffix(pat, "%")
	if regexp.QuoteMeta(pat) != pat {
		e := pat
		if !fuzzyStart {
			e = "^" + e
		} else {
			e = e[1:]
		}
		if !fuzzyEnd {
			e = e + "$"
		} else {
			e = e[:len(e)-1]
		}
		if !caseSensitive {
			e = "(?i)" + e
		}
		r, err := regexp.Compile(e)
		if err != nil {
			return nil, err
		}
		return r.MatchString, nil
	}
	lit := strings.TrimSuffix(strings.TrimPrefix(pat, "%"), "%")
	norm := func(x string) string { return x }
	if !caseSensitive {
		norm = strings.ToUpper
		lit = strings.ToUpper(lit)
	}
	switch {
	case fuzzyStart && fuzzyEnd:
		return func(x string) bool { return strings.Contains(norm(x), lit) }, nil
	case fuzzyStart:
		return func(x string) bool { return strings.HasSuffix(norm(x), lit) }, nil
	case fuzzyEnd:
		return func(x string) bool { return strings.HasPrefix(norm(x), lit) }, nil
	}
	return func(x string) bool { return norm(x) == lit }, nil
}

var matcherDisagreements []string

func noteMatcherDisagreement(s string) {
	if len(matcherDisagreements) < 40 {
		matcherDisagreements = append(matcherDisagreements, s)
	}
}

// genPromotionClause: a leaf comparing an int column with a FLOAT column (or the other way round) by an ordering
// comparator — the implementation promotes the int column to float — inverted or not, alone or under Not / And /
// Or.  Rows where the float side is NaN satisfy neither the comparison nor its "inverse comparator".
func genPromotionClause(r *hlib.Rng, cols []genCol) *cnode {
	var ic, fc *genCol
	for i := range cols {
		if cols[i].kind == "int" && ic == nil {
			ic = &cols[i]
		}
		if cols[i].kind == "float" && fc == nil {
			fc = &cols[i]
		}
	}
	if ic == nil || fc == nil {
		return nil
	}
	a, b := ic, fc
	if r.Chance(1, 3) {
		a, b = fc, ic
	}
	op := []string{"<", "<=", ">", ">=", "=", "!="}[r.Intn(6)]
	leaf := &cnode{kind: "leaf", col: a.name, cmpS: op, cmpGo: op, argGo: types.ColumnName(b.name), argC: "(AColName " + hlib.Str(b.name) + ")",
		inv: r.Bool(), desc: fmt.Sprintf("%s %q col(%s)", a.name, op, b.name)}
	switch r.Intn(5) {
	case 0:
		return leaf
	case 1:
		return &cnode{kind: "not", subs: []*cnode{leaf}}
	case 2:
		return &cnode{kind: "and", subs: []*cnode{leaf}}
	case 3:
		return &cnode{kind: "or", subs: []*cnode{genLeaf(r, cols, false), leaf}}
	default:
		return &cnode{kind: "not", subs: []*cnode{{kind: "and", subs: []*cnode{leaf}}}}
	}
}

// genEnumLikeClause: like / ilike on an enum (or string) column whose values differ only in case, with patterns
// made from those values: exact, prefix, suffix, contains.  Several distinct enum values match one ilike pattern.
func genEnumLikeClause(r *hlib.Rng, cols []genCol) *cnode {
	var cands []*genCol
	for i := range cols {
		if cols[i].kind == "enum" || cols[i].kind == "string" {
			cands = append(cands, &cols[i])
		}
	}
	if len(cands) == 0 {
		return nil
	}
	c := cands[r.Intn(len(cands))]
	base := caseCluster[r.Intn(len(caseCluster))]
	// plain wildcard patterns, and (one time in three) patterns that go to the regexp engine: the same pattern text is met
	// with like AND ilike in the course of one run (a matcher that remembers a pattern must remember the case mode too)
	pat := []string{base, base, base + "%", "%" + base, "%" + base + "%"}[r.Intn(5)]
	if r.Chance(1, 3) {
		// few distinct texts, so that each of them meets both comparators several times in a run
		pat = []string{"a.*", "^ab", "(a)", "a.", "%b.", "A.*"}[r.Intn(6)]
	}
	op := []string{"ilike", "ilike", "like"}[r.Intn(3)]
	leaf := &cnode{kind: "leaf", col: c.name, cmpS: op, cmpGo: op, argGo: pat, argC: "(AStr " + hlib.Str(pat) + ")", inv: r.Chance(1, 4),
		desc: fmt.Sprintf("%s %q %s", c.name, op, pat)}
	switch r.Intn(4) {
	case 0:
		return &cnode{kind: "not", subs: []*cnode{leaf}}
	case 1:
		return &cnode{kind: "or", subs: []*cnode{genLeaf(r, cols, false), leaf}}
	default:
		return leaf
	}
}
