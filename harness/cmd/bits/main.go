// Engine "bits": string pointer packing (internal/strings/pointer.go) and the enum bitset
// (internal/ecolumn/bitset.go) against Model/Bits.v.
package main

import (
	"fmt"

	"github.com/tobgu/qframe/verifhook/bitshook"
	"verifharness/hlib"
)

func main() {
	cfg := hlib.ParseFlags()
	s := hlib.NewSuite(cfg, "bits")
	defer s.FinishOnPanic()
	s.Header = "From QF Require Import Base.Prelude Base.CaseLib Model.Bits Corr.BitsCorr.\nLocal Open Scope N_scope.\n"
	s.CaseType = "bits_case"
	s.CheckFn = "check_bits"
	s.Rule = "pointer cases: (offset,length,isNull) from boundary pools around 2^28 and 2^35 plus random; raw decodes of random 64-bit values; bitset cases: random multisets of uint8 values incl. 63/64/127/128/191/192/254/255. Non-trivial = offset or length non-zero / at least one value set; distinct by Coq term."
	r := hlib.NewRng(cfg.Seed)

	offPool := []uint64{0, 1, 2, 1<<28 - 1, 1 << 28, 1<<34 + 12345, 1<<35 - 1}
	lenPool := []uint64{0, 1, 2, 255, 1<<27 + 1, 1<<28 - 1}
	n := cfg.N
	for i := 0; i < n; i++ {
		switch r.Intn(3) {
		case 0:
			var o, l uint64
			if r.Chance(1, 2) {
				o = offPool[r.Intn(len(offPool))]
			} else {
				o = r.U64() >> uint(29+r.Intn(35))
			}
			if r.Chance(1, 2) {
				l = lenPool[r.Intn(len(lenPool))]
			} else {
				l = r.U64() >> uint(36+r.Intn(28))
			}
			// a fraction of cases beyond the documented limits (the oracle does not apply there,
			// the model must still agree with the code)
			if r.Chance(1, 10) {
				l = 1<<28 + uint64(r.Intn(100))
			}
			isNull := r.Bool()
			raw, off, ln, null := bitshook.PointerRoundTrip(int(o), int(l), isNull)
			s.Count("ptr")
			s.Add(fmt.Sprintf("BPtr %s %s %s %s %s %s %s", hlib.N(o), hlib.N(l), hlib.Bool(isNull), hlib.NHex(raw), hlib.N(uint64(off)), hlib.N(uint64(ln)), hlib.Bool(null)),
				map[string]interface{}{"kind": "ptr", "offset": o, "len": l, "null": isNull}, o != 0 || l != 0)
		case 1:
			raw := r.U64()
			if r.Chance(1, 3) {
				raw &= 1<<63 - 1
			}
			off, ln, null := bitshook.PointerDecode(raw)
			s.Count("dec")
			s.Add(fmt.Sprintf("BDec %s %s %s %s", hlib.NHex(raw), hlib.N(uint64(off)), hlib.N(uint64(ln)), hlib.Bool(null)),
				map[string]interface{}{"kind": "dec", "raw": raw}, true)
		default:
			pool := []uint8{0, 1, 62, 63, 64, 65, 127, 128, 191, 192, 254, 255}
			k := r.Intn(8)
			vals := make([]uint8, k)
			items := make([]string, k)
			for j := range vals {
				if r.Chance(1, 2) {
					vals[j] = pool[r.Intn(len(pool))]
				} else {
					vals[j] = uint8(r.Intn(256))
				}
				items[j] = hlib.N(uint64(vals[j]))
			}
			words, isset := bitshook.Bitset(vals)
			ws := make([]string, 4)
			for j := range ws {
				ws[j] = hlib.NHex(words[j])
			}
			s.Count("bitset")
			s.Add(fmt.Sprintf("BSet %s %s %s", hlib.List(items), hlib.List(ws), hlib.BoolList(isset[:])),
				map[string]interface{}{"kind": "bitset", "vals": vals}, k > 0)
		}
	}
	s.Finish()
}
