// Families json-frame and json-read of the engine "strings": QFrame.ToJSON and qframe.ReadJSON on whole frames
// against Model/JsonRead.v (frame_to_json, read_json).
//
//	json-frame  frames with all five column types (ints incl. the extremes, floats from a boundary pool incl.
//	            -0, NaN with several payloads, subnormals, 1e21 and neighbours, no Inf; bools; strings and column
//	            NAMES from the adversarial alphabets; enums with nulls, declared or derived value tables), row
//	            index derived by sort / slice / filter, 0-6 rows x 0-5 columns.  The case carries the physical
//	            dump of the frame and the bytes ToJSON wrote.
//	json-read   the same documents read back with ReadJSON (ColumnOrder + Enums as C14_readback assumes, without
//	            ColumnOrder, without Enums), and a separate stream of hand-assembled / damaged documents
//	            (truncations, wrong types / missing keys / nulls in later records, duplicate keys, numbers out of
//	            range).  The case carries the document, the configuration, strconv.ParseFloat on every number
//	            token of the document, and the dump of the frame that came back.
package main

import (
	"bytes"
	"encoding/json"
	"fmt"
	"math"
	"strconv"
	"strings"

	"github.com/tobgu/qframe"
	"github.com/tobgu/qframe/config/newqf"
	"verifharness/hlib"
)

// ---------------------------------------------------------------- pools

var jfInts = []int{0, 1, -1, 7, 10, -10, 42, 99, 100, 1000000, -123456789, 1 << 31, -(1 << 31), 1<<53 - 1, 1 << 53, 1<<53 + 1,
	-(1<<53 + 1), 1<<53 + 3, 1<<62 + 1, math.MaxInt64, math.MinInt64, math.MaxInt64 - 1, math.MinInt64 + 1, 999999999999999999}

// finite floats at the boundaries of the formatter: zeros, subnormals, the smallest / largest normal, powers of
// ten around the positional/exact-integer switch (1e21 and neighbours), 2^53 and neighbours, short and long decimals
var jfFloatBits = []uint64{
	0x0000000000000000, 0x8000000000000000, // 0, -0
	0x0000000000000001, 0x8000000000000001, 0x0000000000000002, 0x000FFFFFFFFFFFFF, 0x0008000000000000, // subnormals
	0x0010000000000000, 0x0010000000000001, 0x7FEFFFFFFFFFFFFF, 0xFFEFFFFFFFFFFFFF, 0x7FE0000000000000, // extremes
	0x3FF0000000000000, 0xBFF0000000000000, 0x3FB999999999999A, 0x3FD5555555555555, 0x400921FB54442D18, 0xC00921FB54442D18,
	0x3FE0000000000000, 0x3FEFFFFFFFFFFFFF, 0x3FF0000000000001, 0x4024000000000000, 0x4059000000000000,
	0x4340000000000000, 0x433FFFFFFFFFFFFF, 0x4340000000000001, 0x4330000000000000, 0x4350000000000000, // 2^53, 2^52, 2^54
	0x444B1AE4D6E2EF50, 0x444B1AE4D6E2EF4F, 0x444B1AE4D6E2EF51, // 1e21 and neighbours
	0x4415AF1D78B58C40, 0x4415AF1D78B58C3F, 0x4480F0CF064DD592, // 1e20, below, 1e22
	0x3EB0C6F7A0B5ED8D, 0x3F1A36E2EB1C432D, 0x3F50624DD2F1A9FC, // 1e-6, 1e-4, 1e-3
	0x7E37E43C8800759C, 0x0031FA182C40C60D, 0x54B249AD2594C37D, // 1e300, 1e-307, 1e100
	0x4197D78400000000, 0x41DFFFFFFFC00000, 0x43E0000000000000, 0xC3E0000000000000, // 1e8, MaxInt32, 2^63, -2^63
}

var jfNaNBits = []uint64{0x7FF8000000000001, 0x7FF8000000000000, 0xFFF8000000000000, 0x7FF0000000000001, 0xFFFFFFFFFFFFFFFF, 0x7FF4000000000000}

func jfFloat(r *hlib.Rng, allowNaN bool) float64 {
	switch k := r.Intn(12); {
	case k == 0 && allowNaN:
		return math.Float64frombits(jfNaNBits[r.Intn(len(jfNaNBits))])
	case k <= 6:
		return math.Float64frombits(jfFloatBits[r.Intn(len(jfFloatBits))])
	case k <= 8:
		// random finite bit pattern
		for {
			b := r.U64()
			if (b>>52)&0x7ff != 0x7ff {
				return math.Float64frombits(b)
			}
		}
	case k == 9:
		// a short decimal
		return float64(r.Intn(200000)-100000) / []float64{1, 10, 100, 1000, 1e6}[r.Intn(5)]
	case k == 10:
		// integers around the exact-integer path
		return float64(int64(r.U64()>>uint(r.Intn(64)))) * []float64{1, -1}[r.Intn(2)]
	default:
		// a random power of ten and its neighbours
		f, _ := strconv.ParseFloat(fmt.Sprintf("1e%d", r.Intn(632)-323), 64)
		return math.Float64frombits(math.Float64bits(f) + uint64(r.Intn(3)) - 1 + boolU(f == 0))
	}
}

func boolU(b bool) uint64 {
	if b {
		return 1
	}
	return 0
}

var jfNamePrefixes = []string{"a\"b", "a\\", "\n", "\xff", "\xfe", " ", " ", "�", "k", "\x00", "\x1f", "é", "\xc3", "\xe2\x80", "\\u0041", "\"", " ", "/", "\U0001F600", "\x7f"}

func legalName(nm string) string {
	// qframe.New rejects empty names, quoted names ('..' or ".." longer than 2) and names starting with $
	if nm == "" || strings.HasPrefix(nm, "$") || (len(nm) > 2 && (nm[0] == '"' || nm[0] == '\'') && nm[len(nm)-1] == nm[0]) {
		return "n" + nm
	}
	return nm
}

// ---------------------------------------------------------------- frames

type jfCol struct {
	name  string
	kind  string
	enumV []string // declared values (enum), nil/empty = derived
}

type jfOpts struct {
	clean bool // only what C14_readback admits: valid UTF-8, no NaN, >= 1 row and column
}

// jfGenFrame builds a frame by New and derives its row index; it returns the frame and a replayable history.
func jfGenFrame(r *hlib.Rng, su *hlib.Suite, fam string, o jfOpts) (qframe.QFrame, []string) {
	ncols := 1 + r.Intn(5)
	nrows := 1 + r.Intn(6)
	if r.Chance(1, 12) {
		ncols = 0
	}
	if r.Chance(1, 10) {
		nrows = 0
	}
	if o.clean {
		ncols, nrows = 1+r.Intn(5), 1+r.Intn(6)
	}
	if ncols == 0 {
		nrows = 0
	}
	a := alphas[r.Intn(len(alphas))]
	if o.clean {
		a = alphaByName([]string{"ascii", "ascii-esc", "latin1", "c1", "lenchange", "multi"}[r.Intn(6)])
	}
	hist := []string{fmt.Sprintf("alphabet=%s", a.name)}
	seen := map[string]bool{}
	var cols []jfCol
	for len(cols) < ncols {
		nm := genString(r, a, r.Intn(5))
		if r.Chance(1, 3) && !o.clean {
			nm = jfNamePrefixes[r.Intn(len(jfNamePrefixes))] + nm
		}
		if o.clean && r.Chance(1, 3) {
			nm = []string{"a\"b", "a\\", "\n", " ", " ", "�", "k", "\x00", "é", "\\u0041", "\U0001F600"}[r.Intn(11)] + nm
		}
		nm = legalName(nm)
		if seen[nm] {
			continue
		}
		seen[nm] = true
		cols = append(cols, jfCol{name: nm, kind: []string{"int", "float", "bool", "string", "enum"}[r.Intn(5)]})
	}
	if ncols == 5 && r.Chance(1, 2) {
		for i, k := range r.Perm(5) {
			cols[i].kind = []string{"int", "float", "bool", "string", "enum"}[k]
		}
	}
	data := map[string]interface{}{}
	enums := map[string][]string{}
	order := make([]string, len(cols))
	allowNaN := !o.clean
	for ci := range cols {
		c := &cols[ci]
		order[ci] = c.name
		su.Count(fam + "/col-" + c.kind)
		switch c.kind {
		case "int":
			col := make([]int, nrows)
			for j := range col {
				if r.Chance(1, 4) {
					col[j] = int(int64(r.U64()) >> uint(r.Intn(64)))
				} else {
					col[j] = jfInts[r.Intn(len(jfInts))]
				}
			}
			data[c.name] = col
		case "float":
			col := make([]float64, nrows)
			for j := range col {
				col[j] = jfFloat(r, allowNaN)
			}
			data[c.name] = col
		case "bool":
			col := make([]bool, nrows)
			for j := range col {
				col[j] = r.Bool()
			}
			data[c.name] = col
		case "string":
			col := make([]*string, nrows)
			for j := range col {
				if r.Chance(1, 4) {
					continue
				}
				s := genString(r, a, r.Intn(9))
				col[j] = &s
			}
			data[c.name] = col
		case "enum":
			// a small value set so that ranks repeat; sometimes declared (with values no row uses), sometimes derived
			nv := 1 + r.Intn(4)
			vs := []string{}
			vseen := map[string]bool{}
			for len(vs) < nv {
				v := genString(r, a, r.Intn(6))
				if !vseen[v] {
					vseen[v] = true
					vs = append(vs, v)
				}
			}
			col := make([]*string, nrows)
			for j := range col {
				if r.Chance(1, 4) {
					continue
				}
				s := vs[r.Intn(len(vs))]
				col[j] = &s
			}
			data[c.name] = col
			if r.Chance(1, 2) {
				c.enumV = vs
				enums[c.name] = vs
			} else {
				enums[c.name] = nil
			}
		}
	}
	qf := qframe.New(data, newqf.ColumnOrder(order...), newqf.Enums(enums))
	if qf.Err != nil {
		panic(fmt.Sprintf("jfGenFrame: %v", qf.Err))
	}
	// derived row index
	k := r.Intn(4)
	for i := 0; i < k && qf.Len() > 0 && len(cols) > 0; i++ {
		switch r.Intn(4) {
		case 0, 1:
			c := cols[r.Intn(len(cols))]
			od := qframe.Order{Column: c.name, Reverse: r.Bool(), NullLast: r.Bool()}
			qf = qf.Sort(od)
			hist = append(hist, fmt.Sprintf("sort(%q,%v,%v)", c.name, od.Reverse, od.NullLast))
		case 2:
			lo := r.Intn(qf.Len() + 1)
			hi := lo + r.Intn(qf.Len()-lo+1)
			if hi == lo && (o.clean || r.Chance(5, 6)) {
				continue
			}
			qf = qf.Slice(lo, hi)
			hist = append(hist, fmt.Sprintf("slice(%d,%d)", lo, hi))
		default:
			c := cols[0]
			mask := r.U64() | 1<<uint(r.Intn(8))
			cnt := 0
			keep := func() bool { cnt++; return mask>>(uint(cnt)%16)&1 == 1 }
			var cl qframe.FilterClause
			switch c.kind {
			case "int":
				cl = qframe.Filter{Column: c.name, Comparator: func(int) bool { return keep() }}
			case "float":
				cl = qframe.Filter{Column: c.name, Comparator: func(float64) bool { return keep() }}
			case "bool":
				cl = qframe.Filter{Column: c.name, Comparator: func(bool) bool { return keep() }}
			default:
				cl = qframe.Filter{Column: c.name, Comparator: func(*string) bool { return keep() }}
			}
			q2 := qf.Filter(cl)
			if q2.Len() == 0 && (o.clean || r.Chance(5, 6)) {
				continue
			}
			qf = q2
			hist = append(hist, fmt.Sprintf("filter(random subset, mask %#x)", mask))
		}
		if qf.Err != nil {
			panic(fmt.Sprintf("jfGenFrame derive: %v", qf.Err))
		}
	}
	// derived column slice: a subset of the columns in another order (Select of no column gives the empty frame)
	if len(cols) > 0 && r.Chance(1, 8) {
		p := r.Perm(len(cols))
		k := r.Intn(len(cols) + 1)
		if o.clean && k == 0 {
			k = 1
		}
		names := make([]string, k)
		for j := range names {
			names[j] = cols[p[j]].name
		}
		qf = qf.Select(names...)
		if qf.Err != nil {
			panic(fmt.Sprintf("jfGenFrame select: %v", qf.Err))
		}
		hist = append(hist, fmt.Sprintf("select(%q)", names))
		su.Count(fam + "/derived-columns")
	}
	if len(hist) > 1 {
		su.Count(fam + "/derived-index")
	} else {
		su.Count(fam + "/identity-index")
	}
	return qf, hist
}

// ---------------------------------------------------------------- dumps as Coq terms (as in cmd/frameops)

func jfColData(c qframe.VerifColumn) string {
	switch c.Kind {
	case "int":
		return "ICol " + hlib.ZList(c.Ints)
	case "float":
		it := make([]string, len(c.Floats))
		for i, f := range c.Floats {
			it[i] = hlib.NHex(math.Float64bits(f))
		}
		return "FCol " + hlib.List(it)
	case "bool":
		return "BCol " + hlib.BoolList(c.Bools)
	case "string":
		it := make([]string, len(c.Strings))
		for i, s := range c.Strings {
			it[i] = hlib.OptStr(s)
		}
		return "SCol " + hlib.List(it)
	case "enum":
		it := make([]string, len(c.Ranks))
		for i, v := range c.Ranks {
			it[i] = hlib.N(uint64(v))
		}
		vs := make([]string, len(c.Values))
		for i, v := range c.Values {
			vs[i] = hlib.Str(v)
		}
		return "ECol " + hlib.List(it) + " " + hlib.List(vs) + " " + hlib.Bool(c.Strict)
	}
	panic("unknown column kind " + c.Kind)
}

func jfFrame(d qframe.VerifFrame) string {
	cs := make([]string, len(d.Columns))
	for i, c := range d.Columns {
		cs[i] = "(" + hlib.Str(c.Name) + ", " + jfColData(c) + ")"
	}
	return "(mkFrame " + hlib.List(cs) + " " + hlib.U32List(d.Index) + " " + hlib.Bool(d.HasErr) + ")"
}

func jfDescribe(d qframe.VerifFrame) map[string]interface{} {
	cols := []interface{}{}
	for _, c := range d.Columns {
		m := map[string]interface{}{"name": fmt.Sprintf("%x", c.Name), "name_text": fmt.Sprintf("%q", c.Name), "kind": c.Kind}
		switch c.Kind {
		case "int":
			m["data"] = c.Ints
		case "float":
			bs := make([]string, len(c.Floats))
			for i, f := range c.Floats {
				bs[i] = fmt.Sprintf("%#016x", math.Float64bits(f))
			}
			m["bits"] = bs
		case "bool":
			m["data"] = c.Bools
		case "string":
			ss := make([]string, len(c.Strings))
			for i, s := range c.Strings {
				if s == nil {
					ss[i] = "<nil>"
				} else {
					ss[i] = fmt.Sprintf("%x", *s)
				}
			}
			m["hex"] = ss
		case "enum":
			vs := make([]string, len(c.Values))
			for i, v := range c.Values {
				vs[i] = fmt.Sprintf("%x", v)
			}
			m["ranks"], m["values_hex"], m["strict"] = fmt.Sprint(c.Ranks), vs, c.Strict
		}
		cols = append(cols, m)
	}
	return map[string]interface{}{"columns": cols, "index": d.Index, "err": d.HasErr}
}

// ---------------------------------------------------------------- family json-frame

func familyJSONFrame(su *hlib.Suite, r *hlib.Rng, n int) {
	for i := 0; i < n; i++ {
		qf, hist := jfGenFrame(r, su, "json-frame", jfOpts{clean: false})
		d := qframe.VerifDump(qf)
		var out bytes.Buffer
		var err error
		pan, pv := hlib.Recover(func() { err = qf.ToJSON(&out) })
		ok := !pan && err == nil
		desc := map[string]interface{}{"family": "json-frame", "props": []string{"C14"}, "frame": jfDescribe(d), "history": hist, "out": fmt.Sprintf("%q", clipJ(out.String()))}
		su.Count(fmt.Sprintf("json-frame/cols-%d", len(d.Columns)))
		su.Count(fmt.Sprintf("json-frame/rows-%d", len(d.Index)))
		id := su.Add(fmt.Sprintf("SJFrame %s %s", jfFrame(d), optBytes(out.Bytes(), ok)), desc, len(d.Columns) > 0 && len(d.Index) > 0)
		if !ok {
			su.Fail(id, fmt.Sprintf("ToJSON failed: panic=%v err=%v", pv, err), desc, "json-frame-fail")
			continue
		}
		// independent Go-side check: encoding/json accepts the document and finds one record per row
		var back []map[string]interface{}
		if e := json.Unmarshal(out.Bytes(), &back); e != nil {
			su.Fail(id, "encoding/json rejects the document: "+e.Error(), desc, "json-frame-invalid")
			continue
		}
		if len(back) != len(d.Index) {
			su.Fail(id, fmt.Sprintf("document has %d records, want %d", len(back), len(d.Index)), desc, "json-frame-rows")
		}
	}
	// a frame with Err set: ToJSON must return the error and write nothing
	bad := qframe.New(map[string]interface{}{"a": []int{1}}).Select("nope")
	var out bytes.Buffer
	err := bad.ToJSON(&out)
	desc := map[string]interface{}{"family": "json-frame", "props": []string{"C14"}, "frame": "New(a:[1]).Select(nope)  (Err set)"}
	su.Count("json-frame/err-frame")
	id := su.Add(fmt.Sprintf("SJFrame %s %s", jfFrame(qframe.VerifDump(bad)), optBytes(out.Bytes(), err == nil)), desc, false)
	if err == nil || out.Len() > 0 {
		su.Fail(id, "ToJSON of a frame with Err returned nil or wrote bytes", desc, "json-frame-err-ignored")
	}
}

func clipJ(s string) string {
	if len(s) > 400 {
		return s[:200] + "..." + s[len(s)-150:]
	}
	return s
}

// ---------------------------------------------------------------- family json-read

// numberTokens returns the maximal runs of number characters outside strings and outside the literals
// true / false / null, in order of appearance (what the Coq document reader hands to parse_float).
func numberTokens(doc []byte) []string {
	var toks []string
	isNum := func(c byte) bool {
		return (c >= '0' && c <= '9') || c == '-' || c == '+' || c == '.' || c == 'e' || c == 'E'
	}
	i := 0
	for i < len(doc) {
		c := doc[i]
		switch {
		case c == '"':
			i++
			for i < len(doc) && doc[i] != '"' {
				if doc[i] == '\\' {
					i++
				}
				i++
			}
			i++
		case bytes.HasPrefix(doc[i:], []byte("true")), bytes.HasPrefix(doc[i:], []byte("null")):
			i += 4
		case bytes.HasPrefix(doc[i:], []byte("false")):
			i += 5
		case isNum(c):
			j := i
			for j < len(doc) && isNum(doc[j]) {
				j++
			}
			toks = append(toks, string(doc[i:j]))
			i = j
		default:
			i++
		}
	}
	return toks
}

func pfTable(doc []byte) string {
	seen := map[string]bool{}
	var it []string
	for _, t := range numberTokens(doc) {
		if seen[t] {
			continue
		}
		seen[t] = true
		f, err := strconv.ParseFloat(t, 64)
		v := "None"
		if err == nil {
			v = hlib.Some(hlib.NHex(math.Float64bits(f)))
		}
		it = append(it, hlib.Pair(hlib.Str(t), v))
	}
	return "(" + hlib.List(it) + " : list (bytes * option N))"
}

func enumsTerm(names []string, enums map[string][]string) string {
	var it []string
	for _, n := range names {
		if vs, ok := enums[n]; ok {
			vt := make([]string, len(vs))
			for i, v := range vs {
				vt[i] = hlib.Str(v)
			}
			it = append(it, hlib.Pair(hlib.Str(n), "("+hlib.List(vt)+" : list bytes)"))
		}
	}
	return "(" + hlib.List(it) + " : list (bytes * list bytes))"
}

// addRead runs ReadJSON on doc with the given configuration and registers the case.
func addRead(su *hlib.Suite, src string, srcDesc interface{}, doc []byte, order []string, enumNames []string, enums map[string][]string, kind string, nontrivial bool) {
	var fns []newqf.ConfigFunc
	if len(order) > 0 {
		fns = append(fns, newqf.ColumnOrder(order...))
	}
	if len(enums) > 0 {
		fns = append(fns, newqf.Enums(enums))
	}
	var res qframe.QFrame
	pan, pv := hlib.Recover(func() { res = qframe.ReadJSON(bytes.NewReader(doc), fns...) })
	hexo := make([]string, len(order))
	for i, s := range order {
		hexo[i] = fmt.Sprintf("%x", s)
	}
	desc := map[string]interface{}{"family": "json-read", "props": []string{"C14"}, "kind": kind, "doc": fmt.Sprintf("%q", clipJ(string(doc))), "doc_hex": fmt.Sprintf("%x", clipJ(string(doc))),
		"order_hex": hexo, "enums": fmt.Sprintf("%q", enums), "source": srcDesc, "err": fmt.Sprint(res.Err)}
	su.Count("json-read/" + kind)
	if res.Err != nil {
		su.Count("json-read/result-err")
	} else {
		su.Count("json-read/result-ok")
	}
	var dump qframe.VerifFrame
	if !pan {
		dump = qframe.VerifDump(res)
	}
	id := su.Add(fmt.Sprintf("SJRead %s %s %s %s %s %s", src, hlib.Bytes(doc), strList(order), enumsTerm(enumNames, enums), pfTable(doc), jfFrame(dump)), desc, nontrivial)
	if pan {
		su.Fail(id, fmt.Sprintf("ReadJSON panicked: %v", pv), desc, "json-read-panic")
	}
}

func familyJSONRead(su *hlib.Suite, r *hlib.Rng, n int) {
	nMal := n * 35 / 100
	nRound := n - nMal
	for i := 0; i < nRound; {
		// two thirds of the frames satisfy the premises of C14_readback, the rest is arbitrary (NaN, ill-formed
		// UTF-8, zero rows, names that collide after escaping)
		clean := r.Chance(2, 3)
		qf, hist := jfGenFrame(r, su, "json-read", jfOpts{clean: clean})
		d := qframe.VerifDump(qf)
		var out bytes.Buffer
		if err := qf.ToJSON(&out); err != nil {
			panic(err)
		}
		doc := out.Bytes()
		names := make([]string, len(d.Columns))
		enums := map[string][]string{}
		for j, c := range d.Columns {
			names[j] = c.Name
			if c.Kind == "enum" {
				enums[c.Name] = c.Values
			}
		}
		src := hlib.Some(jfFrame(d))
		sd := map[string]interface{}{"frame": jfDescribe(d), "history": hist, "clean": clean}
		nt := len(d.Columns) > 0 && len(d.Index) > 0
		tag := "dirty"
		if clean {
			tag = "clean"
		}
		// the configuration of C14_readback
		addRead(su, src, sd, doc, names, names, enums, "roundtrip-order-enums-"+tag, nt)
		i++
		if i < nRound && r.Chance(1, 2) {
			addRead(su, src, sd, doc, nil, names, enums, "roundtrip-noorder-enums-"+tag, nt)
			i++
		}
		if i < nRound && len(enums) > 0 && r.Chance(1, 2) {
			addRead(su, src, sd, doc, names, names, nil, "roundtrip-order-noenums-"+tag, nt)
			i++
		}
		if i < nRound && r.Chance(1, 6) {
			// a column order that is a permutation / lacks a column / names an unknown column
			p := r.Perm(len(names))
			o2 := make([]string, 0, len(names)+1)
			for _, k := range p {
				o2 = append(o2, names[k])
			}
			switch r.Intn(3) {
			case 0:
			case 1:
				if len(o2) > 0 {
					o2 = o2[1:]
				}
			default:
				o2 = append(o2, "zz")
			}
			addRead(su, src, sd, doc, o2, names, enums, "roundtrip-other-order-"+tag, nt)
			i++
		}
	}
	familyJSONReadDamaged(su, r, nMal)
}

// ---------------------------------------------------------------- damaged / hand-assembled documents

var jvNumbers = []string{"0", "-0", "1", "-1", "1.5", "0.1", "-12.034", "1e3", "1E3", "1e+3", "2.5e-3", "1e21", "1e400", "-1e400", "1e-400",
	"9223372036854775807", "-9223372036854775808", "18446744073709551616", "123456789012345678901234567890", "0.000001", "1.7976931348623157e308",
	"1.7976931348623159e308", "4.9e-324", "2.4e-324", "0e0", "-0.0", "0.30000000000000004"}
var jvStrings = []string{`""`, `"a"`, `"a\"b"`, `"\\"`, `"A"`, "\"\U0001F600\"", "\"�\"", "\" \"", `"\n\t\r\b\f\/"`, "\"é\"", `"1"`, `"null"`, `"true"`, `"\u0000"`, `"😀"`, `" "`}
var jvKeys = []string{`"a"`, `"b"`, `"c"`, `"a\"b"`, "\" \"", "\"é\"", "\"�\"", `""`, `"$x"`, `"'q'"`, `"k1"`, `"a"`}

func jvValue(r *hlib.Rng, kind int) string {
	switch kind {
	case 0:
		return jvNumbers[r.Intn(len(jvNumbers))]
	case 1:
		return []string{"true", "false"}[r.Intn(2)]
	case 2:
		return jvStrings[r.Intn(len(jvStrings))]
	default:
		return "null"
	}
}

func familyJSONReadDamaged(su *hlib.Suite, r *hlib.Rng, n int) {
	fixed := []string{"", "[", "]", "[]", "[{}]", "[{},{}]", `[{"a":1}`, `[{"a":1},`, `[{"a":1},{"a":null}]`, `[{"a":null},{"a":1}]`, `[{"a":null},{"a":"x"}]`,
		`[{"a":1},{"b":1}]`, `[{"a":1},{"a":1,"b":2}]`, `[{"a":1,"a":"x"},{"a":"y"}]`, `[{"a":1,"a":"x"},{"a":2}]`, `[{"a":1e400}]`, `[{"a":true},{"a":1}]`,
		`[{"a":"x"},{"a":true}]`, `[{"a":1},{"a":"1"}]`, `[{"a":-0}]`, `[{"a":1}]`, `[{"$a":1}]`, `[{"":1}]`, `[{"a":1},{}]`, `[{},{"a":1}]`, `[{"a":tru`, `[{"a":nul`, `[{"a"`,
		`[{"a":"x`, `[{"a":1.}]`, `[{"a":01}]`, `[{"a":-}]`, `[{"a":1e}]`, `[{"a":.5}]`, `[{"a":+1}]`, `[{"a":"\x"}]`, `{"a":1}`, `[{"a":1}}`, `[{"a":1,}]`, `[,{"a":1}]`}
	for i := 0; i < n; i++ {
		var doc string
		kind := "assembled"
		var order []string
		enums := map[string][]string{}
		var enumNames []string
		switch {
		case i < len(fixed):
			doc = fixed[i]
			kind = "fixed"
		default:
			// records over 1-3 keys; the first record fixes the column types, later records deviate with small probability
			nk := 1 + r.Intn(3)
			keys := []string{}
			kinds := []int{}
			seen := map[string]bool{}
			for len(keys) < nk {
				k := jvKeys[r.Intn(len(jvKeys))]
				if r.Chance(4, 5) && (k == `"$x"` || k == `"'q'"` || k == `""`) {
					continue
				}
				if !seen[k] {
					seen[k] = true
					keys = append(keys, k)
					kinds = append(kinds, r.Intn(4))
				}
			}
			nrec := 1 + r.Intn(4)
			var b strings.Builder
			b.WriteString("[")
			for j := 0; j < nrec; j++ {
				if j > 0 {
					b.WriteString(",")
				}
				b.WriteString("{")
				first := true
				for ki, k := range keys {
					if j > 0 && r.Chance(1, 24) {
						continue // missing key in a later record
					}
					kd := kinds[ki]
					if r.Chance(1, 16) {
						kd = r.Intn(4) // another type (also in the first record: null first, value later)
					}
					if kinds[ki] >= 2 && r.Chance(1, 4) {
						kd = 5 - kinds[ki] // string <-> null is legal within a column
					}
					if !first {
						b.WriteString(",")
					}
					first = false
					b.WriteString(k + ":" + jvValue(r, kd))
					if r.Chance(1, 15) {
						b.WriteString("," + k + ":" + jvValue(r, r.Intn(4))) // duplicate key: the later member wins
					}
				}
				if j > 0 && r.Chance(1, 10) {
					if !first {
						b.WriteString(",")
					}
					first = false
					b.WriteString(`"extra":1`) // a key the first record does not have is ignored
				}
				b.WriteString("}")
			}
			b.WriteString("]")
			doc = b.String()
			// configuration: the decoded key strings in document order, or none
			if r.Chance(1, 2) {
				for _, k := range keys {
					var s string
					_ = json.Unmarshal([]byte(k), &s)
					order = append(order, s)
				}
				if r.Chance(1, 4) && len(order) > 1 {
					order[0], order[1] = order[1], order[0]
				}
			}
			if r.Chance(1, 3) {
				for ki, k := range keys {
					if kinds[ki] >= 2 {
						var s string
						_ = json.Unmarshal([]byte(k), &s)
						vs := [][]string{nil, {"a", "x", "", "1"}, {"a"}, {"a", "a\"b", "\\", "A", "\U0001F600", "�", " ", "\n\t\r\b\f/", "é", "1", "null", "true", "\x00", ""}}[r.Intn(4)]
						enums[s] = vs
						enumNames = append(enumNames, s)
						break
					}
				}
			}
			if r.Chance(1, 5) {
				// truncate: a proper prefix of an array is never a complete JSON value
				doc = doc[:r.Intn(len(doc))]
				kind = "truncated"
			}
		}
		addRead(su, "None", nil, []byte(doc), order, enumNames, enums, "damaged-"+kind, len(doc) > 2)
	}
}

// JSON escape sequences spelled out in the documents (backslash, the letter u, four hex digits)
func init() {
	const bsl = "\\"
	const u = "u"
	jvStrings = append(jvStrings, `"`+bsl+u+`0041"`, `"`+bsl+u+`d83d`+bsl+u+`de00"`, `"`+bsl+u+`2028"`, `"`+bsl+u+`00e9x"`, `"`+bsl+u+`FFFD"`)
	jvKeys = append(jvKeys, `"`+bsl+u+`0061"`, `"k`+bsl+u+`0031"`)
}
