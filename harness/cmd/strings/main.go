// Engine "strings": the hand written string codecs of internal/strings against Model/Utf8.v,
// Model/Json.v and Model/Match.v.  Case families:
//
//	utf8         DecodeRuneInString on all 1- and 2-byte and sampled 3-/4-byte sequences, EncodeRune,
//	             RuneLen, ValidString and the range loop on whole strings (ties Model/Utf8.v to Go)
//	json-escape  AppendQuotedString / QuotedBytes on arbitrary bytes with a non-empty buffer prefix;
//	             the real output is also decoded with encoding/json and compared in Go
//	toupper      ToUpper with chosen initial buffers, successive calls reusing the returned buffer
//	matcher      NewMatcher + Matches for (pattern, caseSensitive, cells)
//	json-doc     QFrame.ToJSON on small frames (record assembly)
//	json-frame   QFrame.ToJSON on whole frames of all column types (jsonframe.go)
//	json-read    qframe.ReadJSON on those documents and on damaged ones (jsonframe.go)
//
// Opaque standard library functions are shipped per case as data: unicode.ToUpper for the runes that
// occur, strings.ToUpper(pattern), regexp answers for the pattern built by the documented rule.
package main

import (
	"bytes"
	"encoding/json"
	"fmt"
	"regexp"
	"sort"
	"strings"
	"unicode"
	"unicode/utf8"

	"github.com/tobgu/qframe"
	"github.com/tobgu/qframe/config/newqf"
	"github.com/tobgu/qframe/verifhook/stringshook"
	"verifharness/hlib"
)

// ---------------------------------------------------------------- string generators

var asciiLower = []string{"a", "b", "c", "x", "z"}
var asciiUpper = []string{"A", "B", "C", "X", "Z"}
var asciiOther = []string{" ", "0", "9", "_", "-", "~", "\x7f", "/", "%", "@", "`", "{"}
var asciiCtl = []string{"\x00", "\x01", "\x08", "\t", "\n", "\x0b", "\x0c", "\r", "\x1f"}
var asciiEsc = []string{"\"", "\\", "\\\"", "\\u0041", "\\n"}
var c1 = []string{"\u0080", "\u0081", "\u0085", "\u009f", "\u00a0"}
var latin1 = []string{"\u00e9", "\u00c9", "\u00df", "\u00ff", "\u00b5", "\u00e0", "\u00d6", "\u00f6", "\u00f7", "\u00aa"}

// code points whose upper-case form has a different UTF-8 length (and their partners)
var lenChange = []string{"\u0131", "\u017f", "\u0250", "\u023f", "\u0240", "\u026b", "\u027d", "\u2c65", "\u2c66", "\u1e9e", "\u1fbe", "\u212a", "\u212b", "\u1c80", "\ua7b5", "\u029e", "\u0265", "\u0130", "\u01c5"}
var multi3 = []string{"\u2028", "\u2029", "\u20ac", "\ufffd", "\ufeff", "\u0800", "\uffff", "\ud7ff", "\ue000", "\u4e2d"}
var multi4 = []string{"\U00010000", "\U00010428", "\U00010400", "\U0001F600", "\U0010FFFF", "\U0001E922"}
var invalid = []string{"\x80", "\xbf", "\xc0\x80", "\xc1\xbf", "\xc3", "\xc3\x28", "\xe2\x82", "\xe2\x28\xa1", "\xe0\x80\x80",
	"\xe0\x9f\xbf", "\xed\xa0\x80", "\xed\xbf\xbf", "\xf0\x9f\x98", "\xf0\x80\x80\x80", "\xf0\x8f\xbf\xbf", "\xf4\x90\x80\x80",
	"\xf5\x80\x80\x80", "\xfe", "\xff", "\xf0\x9f", "\xf0", "\xe2", "\xef\xbf", "\xef\xbf\xbd\xef"}

type alpha struct {
	name  string
	pools [][]string
}

var alphas = []alpha{
	{"ascii", [][]string{asciiLower, asciiUpper, asciiOther}},
	{"ascii-esc", [][]string{asciiLower, asciiCtl, asciiEsc, asciiOther}},
	{"latin1", [][]string{asciiLower, asciiUpper, latin1, c1}},
	{"c1", [][]string{asciiLower, c1}},
	{"lenchange", [][]string{asciiLower, lenChange, latin1}},
	{"multi", [][]string{asciiLower, multi3, multi4, lenChange}},
	{"invalid", [][]string{asciiLower, invalid, multi3, latin1}},
	{"mixed", [][]string{asciiLower, asciiUpper, asciiCtl, asciiEsc, c1, latin1, lenChange, multi3, multi4, invalid}},
}

func alphaByName(n string) alpha {
	for _, a := range alphas {
		if a.name == n {
			return a
		}
	}
	panic(n)
}

// genString builds a string of roughly target bytes from the pools of a.
func genString(r *hlib.Rng, a alpha, target int) string {
	var b strings.Builder
	for b.Len() < target {
		p := a.pools[r.Intn(len(a.pools))]
		b.WriteString(p[r.Intn(len(p))])
	}
	return b.String()
}

// genExact builds a string of exactly target bytes (padding with ASCII) when possible.
func genExact(r *hlib.Rng, a alpha, target int) string {
	var b strings.Builder
	for tries := 0; b.Len() < target && tries < 200; tries++ {
		p := a.pools[r.Intn(len(a.pools))]
		x := p[r.Intn(len(p))]
		if b.Len()+len(x) <= target {
			b.WriteString(x)
		}
	}
	for b.Len() < target {
		b.WriteString("q")
	}
	return b.String()
}

func randomBytes(r *hlib.Rng, n int) string {
	b := make([]byte, n)
	for i := range b {
		switch r.Intn(4) {
		case 0:
			b[i] = byte(r.Intn(256))
		case 1:
			b[i] = byte(0x80 + r.Intn(0x40))
		case 2:
			b[i] = byte(0xC0 + r.Intn(0x40))
		default:
			b[i] = byte(0x20 + r.Intn(0x60))
		}
	}
	return string(b)
}

// ---------------------------------------------------------------- Coq printers

func upTable(ss ...string) string {
	seen := map[rune]bool{}
	var rs []rune
	for _, s := range ss {
		for _, c := range s {
			if !seen[c] {
				seen[c] = true
				rs = append(rs, c)
			}
		}
	}
	sort.Slice(rs, func(i, j int) bool { return rs[i] < rs[j] })
	it := make([]string, len(rs))
	for i, c := range rs {
		it[i] = hlib.Pair(hlib.N(uint64(c)), hlib.Z(int64(unicode.ToUpper(c))))
	}
	return "(" + hlib.List(it) + " : list (N * Z))"
}

func optBytes(b []byte, ok bool) string {
	if !ok {
		return "None"
	}
	return hlib.Some(hlib.Bytes(b))
}

func optBool(b bool, ok bool) string {
	if !ok {
		return "None"
	}
	return hlib.Some(hlib.Bool(b))
}

func strList(ss []string) string {
	it := make([]string, len(ss))
	for i, s := range ss {
		it[i] = hlib.Str(s)
	}
	return "(" + hlib.List(it) + " : list bytes)"
}

func sanitize(s string) string { return string([]rune(s)) }

// ---------------------------------------------------------------- family utf8

func decCode(s string) uint64 {
	r, w := utf8.DecodeRuneInString(s)
	return uint64(r)*8 + uint64(w)
}

func addDecRow(su *hlib.Suite, prefix []byte) {
	codes := make([]string, 256)
	for b := 0; b < 256; b++ {
		codes[b] = fmt.Sprintf("%d", decCode(string(append(append([]byte{}, prefix...), byte(b)))))
	}
	su.Count(fmt.Sprintf("utf8/decode-row-%d", len(prefix)+1))
	su.Add(fmt.Sprintf("SDecRow %s [%s]", hlib.Bytes(prefix), strings.Join(codes, ";")),
		map[string]interface{}{"family": "utf8", "kind": "decode-row", "prefix": fmt.Sprintf("%x", prefix)}, true)
}

func addDecStr(su *hlib.Suite, s string) {
	var it []string
	for i, c := range s {
		it = append(it, hlib.Pair(hlib.Nat(i), hlib.N(uint64(c))))
	}
	su.Count("utf8/string")
	su.Add(fmt.Sprintf("SDecStr %s %s (%s : list (nat * N))", hlib.Str(s), hlib.Bool(utf8.ValidString(s)), hlib.List(it)),
		map[string]interface{}{"family": "utf8", "kind": "string", "s": fmt.Sprintf("%x", s)}, len(s) > 0)
}

func addEnc(su *hlib.Suite, rs []rune) {
	it := make([]string, len(rs))
	for i, r := range rs {
		buf := make([]byte, 8)
		n := utf8.EncodeRune(buf, r)
		it[i] = fmt.Sprintf("(%s, %s, %s)", hlib.Z(int64(r)), hlib.Bytes(buf[:n]), hlib.Z(int64(utf8.RuneLen(r))))
	}
	su.Count("utf8/encode-batch")
	su.Add(fmt.Sprintf("SEnc (%s : list (Z * bytes * Z))", hlib.List(it)),
		map[string]interface{}{"family": "utf8", "kind": "encode", "runes": rs}, true)
}

var runePool = []rune{-1, 0, 1, 0x7F, 0x80, 0x7FF, 0x800, 0xFFF, 0x1000, 0xD7FF, 0xD800, 0xDBFF, 0xDC00, 0xDFFF, 0xE000, 0xFFFD,
	0xFFFE, 0xFFFF, 0x10000, 0x3FFFF, 0x40000, 0x10FFFF, 0x110000, 0x7FFFFFFF, -0x80000000, -2, 0x2028, 0x2029, 0x130, 0x131}

func familyUtf8(su *hlib.Suite, r *hlib.Rng, n int) {
	budget := n
	// all 1-byte and (budget permitting) all 2-byte sequences
	addDecRow(su, nil)
	budget--
	var firsts []int
	if budget >= 450 {
		for b := 0; b < 256; b++ {
			firsts = append(firsts, b)
		}
	} else {
		firsts = []int{0x00, 0x7F, 0x80, 0xBF, 0xC0, 0xC1, 0xC2, 0xDF, 0xE0, 0xE1, 0xEC, 0xED, 0xEE, 0xEF, 0xF0, 0xF1, 0xF3, 0xF4, 0xF5, 0xFF}
		if len(firsts) > budget/3 {
			firsts = firsts[:budget/3]
		}
	}
	for _, b := range firsts {
		addDecRow(su, []byte{byte(b)})
		budget--
	}
	second := []int{0x00, 0x7F, 0x80, 0x8F, 0x90, 0x9F, 0xA0, 0xBF, 0xC0, 0xFF}
	// 3-byte rows: first byte over E0..F4 and neighbours, second byte from the boundary pool or random
	k3 := budget / 4
	for i := 0; i < k3; i++ {
		b0 := 0xDF + r.Intn(0x18)
		var b1 int
		if r.Chance(2, 3) {
			b1 = second[r.Intn(len(second))]
		} else {
			b1 = 0x80 + r.Intn(0x40)
		}
		addDecRow(su, []byte{byte(b0), byte(b1)})
		budget--
	}
	k4 := budget / 4
	for i := 0; i < k4; i++ {
		b0 := 0xEF + r.Intn(7)
		var b1, b2 int
		if r.Chance(1, 2) {
			b1 = second[r.Intn(len(second))]
		} else {
			b1 = 0x80 + r.Intn(0x40)
		}
		if r.Chance(1, 3) {
			b2 = second[r.Intn(len(second))]
		} else {
			b2 = 0x80 + r.Intn(0x40)
		}
		addDecRow(su, []byte{byte(b0), byte(b1), byte(b2)})
		budget--
	}
	ke := budget / 5
	for i := 0; i < ke; i++ {
		rs := make([]rune, 40)
		for j := range rs {
			switch r.Intn(4) {
			case 0:
				rs[j] = runePool[r.Intn(len(runePool))]
			case 1:
				rs[j] = rune(r.Intn(0x110100))
			case 2:
				rs[j] = rune(r.Intn(0x10000))
			default:
				rs[j] = rune(int32(r.U64()))
			}
		}
		addEnc(su, rs)
		budget--
	}
	for budget > 0 {
		var s string
		switch r.Intn(3) {
		case 0:
			s = randomBytes(r, r.Intn(24))
		case 1:
			s = genString(r, alphaByName("mixed"), r.Intn(30))
		default:
			s = genString(r, alphaByName("invalid"), r.Intn(20))
		}
		addDecStr(su, s)
		budget--
	}
}

// ---------------------------------------------------------------- family json-escape

func familyEscape(su *hlib.Suite, r *hlib.Rng, n int) {
	prefixes := []string{"[", "{\"k\":", "x", "\"", "\\", "abc\x00\xff"}
	fixed := []string{"", "a", "\"", "\\", "\x00", "\x1f", "\x7f", "\u2028", "\u2029", "\u2027", "\u202a", "\xe2\x80", "\xff",
		"a\"b\\c\nd", "\u0080", "\ufffd", "\xef\xbf\xbd", "\xed\xa0\x80", "\xc0\x80", "\xf4\x90\x80\x80", "\U0001F600", "tab\there",
		"\xe2\x80\xa8\xe2\x80\xa9", "\xe2\x80\xe2\x80\xa8", "\u00e9\xc3", "\b\f/"}
	for i := 0; i < n; i++ {
		var s string
		switch {
		case i < len(fixed):
			s = fixed[i]
		case r.Chance(1, 8):
			s = randomBytes(r, r.Intn(20))
		case r.Chance(1, 8):
			// every ASCII byte gets its turn
			s = string([]byte{byte(r.Intn(128)), byte(r.Intn(128))}) + genString(r, alphaByName("ascii"), r.Intn(4))
		default:
			a := alphas[r.Intn(len(alphas))]
			s = genString(r, a, r.Intn(24))
		}
		prefix := prefixes[r.Intn(len(prefixes))]
		if r.Chance(1, 10) {
			prefix = ""
		}
		var out, qb []byte
		desc := map[string]interface{}{"family": "json-escape", "prefix": fmt.Sprintf("%x", prefix), "s": fmt.Sprintf("%x", s), "text": fmt.Sprintf("%q", s)}
		p1, v1 := hlib.Recover(func() { out = stringshook.AppendQuotedString([]byte(prefix), s) })
		p2, v2 := hlib.Recover(func() { qb = stringshook.QuotedBytes(s) })
		su.Count("json-escape/" + classify(s))
		id := su.Add(fmt.Sprintf("SEsc %s %s %s %s", hlib.Str(prefix), hlib.Str(s), optBytes(out, !p1), optBytes(qb, !p2)), desc, len(s) > 0)
		if p1 || p2 {
			su.Fail(id, fmt.Sprintf("AppendQuotedString/QuotedBytes panicked: %v %v", v1, v2), desc, "json-escape-panic")
			continue
		}
		// independent Go-side check: encoding/json must read the sanitized input back
		for _, o := range [][]byte{out[len(prefix):], qb} {
			var back string
			if !json.Valid(o) {
				su.Fail(id, "output is not valid JSON for encoding/json", desc, "json-escape-invalid")
				break
			}
			if err := json.Unmarshal(o, &back); err != nil || back != sanitize(s) {
				su.Fail(id, fmt.Sprintf("encoding/json reads %q, want %q (err %v)", back, sanitize(s), err), desc, "json-escape-wrong-value")
				break
			}
		}
		if !bytes.HasPrefix(out, []byte(prefix)) {
			su.Fail(id, "buffer prefix not preserved", desc, "json-escape-prefix")
		}
	}
}

func classify(s string) string {
	switch {
	case s == "":
		return "empty"
	case !utf8.ValidString(s):
		return "invalid-utf8"
	}
	ascii := true
	esc := false
	for _, c := range s {
		if c >= 0x80 {
			ascii = false
		}
		if c < 0x20 || c == '"' || c == '\\' || c == 0x2028 || c == 0x2029 {
			esc = true
		}
	}
	switch {
	case ascii && esc:
		return "ascii-escapes"
	case ascii:
		return "ascii-plain"
	case esc:
		return "multibyte-escapes"
	}
	return "multibyte"
}

// ---------------------------------------------------------------- family toupper

func bufContents(b []byte) string {
	if len(b) <= 96 {
		return hlib.Some(hlib.Bytes(b))
	}
	return "None"
}

func familyToUpper(su *hlib.Suite, r *hlib.Rng, n int) {
	lens := []int{0, 1, 5, 6, 7, 9, 10, 11, 13, 14, 15, 19, 20, 21, 39, 40, 41}
	for i := 0; i < n; i++ {
		a := alphas[r.Intn(len(alphas))]
		if r.Chance(1, 3) {
			a = alphaByName([]string{"lenchange", "c1", "latin1"}[r.Intn(3)])
		}
		ncalls := 1 + r.Intn(3)
		if r.Chance(1, 6) {
			ncalls = 5
		}
		ss := make([]string, ncalls)
		for j := range ss {
			l := lens[r.Intn(len(lens))]
			if r.Chance(1, 2) {
				ss[j] = genExact(r, a, l)
			} else {
				ss[j] = genString(r, a, l)
			}
			// a run of unchanged runes before the first changed one exercises the copy of s[:i]
			if r.Chance(1, 4) {
				ss[j] = genExact(r, alpha{"upper", [][]string{asciiUpper, {"\u00c9", "\u0080", "\u4e2d", "\U0001F600"}}}, r.Intn(8)) + ss[j]
			}
		}
		l0 := len(ss[0])
		var blen int
		switch r.Intn(8) {
		case 0:
			blen = 0
		case 1:
			blen = 10
		case 2:
			blen = l0 + 3
		case 3:
			blen = l0 + 4
		case 4:
			blen = l0 + 5
		case 5:
			blen = 1024
		case 6:
			blen = r.Intn(l0 + 8)
		default:
			blen = 10
		}
		buf := make([]byte, blen)
		if r.Chance(1, 2) && blen <= 64 {
			for j := range buf {
				buf[j] = byte(0xA0 + j%7)
			}
		}
		init := append([]byte{}, buf...)
		var items []string
		var fails []string
		ok := true
		pan, pv := hlib.Recover(func() {
			for _, s := range ss {
				res, nb := stringshook.ToUpper(buf, s)
				buf = nb
				items = append(items, fmt.Sprintf("(%s, %s, %s, %s)", hlib.Str(s), hlib.Str(res), hlib.Nat(len(nb)), bufContents(nb)))
				if utf8.ValidString(s) && res != strings.ToUpper(s) {
					fails = append(fails, fmt.Sprintf("ToUpper(%q) = %q, strings.ToUpper = %q", s, res, strings.ToUpper(s)))
				}
			}
		})
		if pan {
			ok = false
		}
		hex := make([]string, len(ss))
		for j, s := range ss {
			hex[j] = fmt.Sprintf("%x", s)
		}
		desc := map[string]interface{}{"family": "toupper", "alphabet": a.name, "buflen": blen, "strings": hex, "text": fmt.Sprintf("%q", ss)}
		calls := "None"
		if ok {
			calls = hlib.Some("(" + hlib.List(items) + " : list (bytes * bytes * nat * option bytes))")
		}
		su.Count("toupper/" + a.name)
		su.Count(fmt.Sprintf("toupper/calls-%d", ncalls))
		id := su.Add(fmt.Sprintf("SUp %s %s %s", upTable(ss...), hlib.Bytes(init), calls), desc, l0 > 0)
		if pan {
			su.Fail(id, fmt.Sprintf("ToUpper panicked: %v", pv), desc, "toupper-panic")
		}
		for _, f := range fails {
			su.Fail(id, f, desc, "toupper-differs-from-stdlib")
		}
	}
}

// ---------------------------------------------------------------- family matcher

var metaPatterns = []string{".", "a.c", "%a.c", "a.*%", "%.%", "^a", "a$", "[ab]c", "(a|b)", "a\\", "(", "[", "a{2}", "a{", "\\%", "%\\",
	"\\d+", "(?i)a", "a+", "%+", "*a", "a**", "(?P<n", "[a-", "\\pL+", "x{2,1}", "%a|b%", "a?b", "%(ab)+c", "\u00e9.", "%\u0131+", "\u0080.", "%\\.%",
	"a.%%", "%%.a", "$", "^", "%$", "^%", "a|", "[[:upper:]]b", "\\Qa.b\\E", "%a\\", "\\C", "(?s).%", "a\nb.", "[^a]%", "%%\\%%"}

var kindCodes = map[string]int{
	"*strings.ContainsMatcher": 0, "*strings.SuffixMatcher": 1, "*strings.PrefixMatcher": 2, "*strings.ExactMatcher": 3,
	"*strings.CIContainsMatcher": 4, "*strings.CISuffixMatcher": 5, "*strings.CIPrefixMatcher": 6, "*strings.CIExactMatcher": 7,
	"*strings.RegexpMatcher": 8,
}

func hasMeta(p string) bool { return strings.ContainsAny(p, "\\.+*?()|[]{}^$") }

// documentedRegex builds the regular expression of the documented rule: the pattern without one
// leading / one trailing %, anchored at each end that has no %, (?i) for ilike.
func documentedRegex(p string, cs bool) string {
	fs := strings.HasPrefix(p, "%")
	fe := strings.HasSuffix(p, "%")
	core := p
	if fs {
		core = core[1:]
	}
	if fe && len(core) > 0 {
		core = core[:len(core)-1]
	}
	re := core
	if !fs {
		re = "^" + re
	}
	if !fe {
		re = re + "$"
	}
	if !cs {
		re = "(?i)" + re
	}
	return re
}

func swapCase(r *hlib.Rng, s string) string {
	var b strings.Builder
	for _, c := range s {
		if c == utf8.RuneError {
			return s
		}
		switch r.Intn(3) {
		case 0:
			b.WriteRune(unicode.ToLower(c))
		case 1:
			b.WriteRune(unicode.ToUpper(c))
		default:
			b.WriteRune(c)
		}
	}
	return b.String()
}

func familyMatcher(su *hlib.Suite, r *hlib.Rng, n int) {
	fixed := []string{"", "%", "%%", "a%", "%a", "%a%", "a%b", "%%%", "a", "%a%b%", "%\u00e9", "\u0131%", "%\u0080%", "%%a", "a%%"}
	for i := 0; i < n; i++ {
		a := alphas[r.Intn(len(alphas))]
		if r.Chance(2, 3) {
			a = alphaByName([]string{"ascii", "latin1", "lenchange", "c1", "multi"}[r.Intn(5)])
		}
		var p string
		switch {
		case i < 2*len(fixed):
			p = fixed[i/2]
		case i < 2*len(fixed)+2*len(metaPatterns):
			p = metaPatterns[(i-2*len(fixed))/2]
		case r.Chance(1, 4):
			p = metaPatterns[r.Intn(len(metaPatterns))]
			if r.Chance(1, 3) {
				p = genString(r, a, r.Intn(3)) + p
			}
		default:
			core := genString(r, a, r.Intn(5))
			core = strings.ReplaceAll(core, "%", "") // % only where placed below (the pools contain it)
			if r.Chance(1, 6) {
				core = core + "%" + genString(r, a, 1) // inner %
			}
			switch r.Intn(6) {
			case 0:
				p = core
			case 1:
				p = "%" + core
			case 2:
				p = core + "%"
			case 3:
				p = "%" + core + "%"
			case 4:
				p = "%%" + core
			default:
				p = core + "%%"
			}
		}
		cs := i%2 == 0
		if i >= 2*len(fixed)+2*len(metaPatterns) {
			cs = r.Bool()
		}
		// cells: built around the literal core so that matches happen, plus unrelated ones
		core := strings.TrimSuffix(strings.TrimPrefix(p, "%"), "%")
		ncells := 3 + r.Intn(4)
		cells := make([]string, 0, ncells)
		for j := 0; j < ncells; j++ {
			var c string
			switch r.Intn(8) {
			case 0:
				c = core
			case 1:
				c = genString(r, a, 1+r.Intn(3)) + core
			case 2:
				c = core + genString(r, a, 1+r.Intn(3))
			case 3:
				c = genString(r, a, 1+r.Intn(6)) + core + genString(r, a, 1+r.Intn(6))
			case 4:
				c = genString(r, a, r.Intn(12))
			case 5:
				c = p
			case 6:
				c = ""
			default:
				c = genString(r, a, r.Intn(3)) + core + genString(r, a, r.Intn(3))
			}
			if !cs || r.Chance(1, 4) {
				c = swapCase(r, c)
			}
			// lengths around the matcher's initial buffer (10 bytes; ToUpper needs len+4)
			if r.Chance(1, 5) {
				c = c + genExact(r, a, 5+r.Intn(8))
			}
			cells = append(cells, c)
		}
		// observed
		var obs string
		var results []bool
		var kind string
		var nmErr error
		pan, pv := hlib.Recover(func() {
			m, err := stringshook.NewMatcher(p, cs)
			nmErr = err
			if err != nil {
				return
			}
			kind = m.TypeName()
			for _, c := range cells {
				results = append(results, m.Matches(c))
			}
		})
		switch {
		case pan:
			obs = "MPanic"
		case nmErr != nil:
			obs = "MErr"
		default:
			kc, ok := kindCodes[kind]
			if !ok {
				kc = 99
			}
			obs = fmt.Sprintf("(MOk %s %s)", hlib.N(uint64(kc)), hlib.BoolList(results))
		}
		// oracle data
		var retbl []string
		if hasMeta(p) {
			pat := documentedRegex(p, cs)
			re, err := regexp.Compile(pat)
			subjects := append([]string{""}, cells...)
			seen := map[string]bool{}
			for _, sub := range subjects {
				if seen[sub] {
					continue
				}
				seen[sub] = true
				ans := "None"
				if err == nil {
					ans = hlib.Some(hlib.Bool(re.MatchString(sub)))
				}
				retbl = append(retbl, fmt.Sprintf("(%s, %s, %s)", hlib.Str(pat), hlib.Str(sub), ans))
			}
		}
		hex := make([]string, len(cells))
		for j, c := range cells {
			hex[j] = fmt.Sprintf("%x", c)
		}
		desc := map[string]interface{}{"family": "matcher", "pattern": fmt.Sprintf("%x", p), "pattern_text": fmt.Sprintf("%q", p),
			"caseSensitive": cs, "cells": hex, "cells_text": fmt.Sprintf("%q", cells)}
		k := "literal"
		if hasMeta(p) {
			k = "regex"
			if nmErr != nil {
				k = "regex-invalid"
			}
		}
		if cs {
			su.Count("matcher/like-" + k)
		} else {
			su.Count("matcher/ilike-" + k)
		}
		any := false
		for _, b := range results {
			any = any || b
		}
		if any {
			su.Count("matcher/some-cell-matches")
		}
		id := su.Add(fmt.Sprintf("SMatch %s %s (%s : list (bytes * bytes * option bool)) %s %s %s %s",
			upTable(cells...), hlib.Str(strings.ToUpper(p)), hlib.List(retbl), hlib.Str(p), hlib.Bool(cs), strList(cells), obs), desc, len(p) > 0)
		if pan {
			su.Fail(id, fmt.Sprintf("NewMatcher/Matches panicked: %v", pv), desc, "matcher-panic")
		}
	}
}

// ---------------------------------------------------------------- family json-doc

func familyDoc(su *hlib.Suite, r *hlib.Rng, n int) {
	for i := 0; i < n; i++ {
		ncols := r.Intn(4)
		nrows := r.Intn(4)
		if i == 0 {
			ncols, nrows = 0, 0
		}
		if i == 1 {
			ncols, nrows = 2, 0
		}
		if ncols == 0 {
			nrows = 0 // a frame without columns has no rows
		}
		a := alphas[r.Intn(len(alphas))]
		names := make([]string, 0, ncols)
		seen := map[string]bool{}
		for len(names) < ncols {
			nm := genString(r, a, 1+r.Intn(5))
			if r.Chance(1, 3) {
				nm = []string{"a\"b", "a\\", "\n", "\xff", "\u2028", "k"}[r.Intn(6)] + nm
			}
			// qframe.New rejects quoted names ('..' or ".." longer than 2) and names starting with $
			if strings.HasPrefix(nm, "$") || (len(nm) > 2 && (nm[0] == '"' || nm[0] == '\'') && nm[len(nm)-1] == nm[0]) {
				nm = "n" + nm
			}
			if seen[nm] {
				continue
			}
			seen[nm] = true
			names = append(names, nm)
		}
		data := map[string]interface{}{}
		rows := make([][]string, nrows)
		for j := range rows {
			rows[j] = make([]string, ncols)
		}
		for c, nm := range names {
			switch r.Intn(3) {
			case 0:
				col := make([]int, nrows)
				for j := range col {
					col[j] = []int{0, 1, -1, 42, -9223372036854775808, 9223372036854775807, 1000000}[r.Intn(7)]
					rows[j][c] = fmt.Sprintf("%d", col[j])
				}
				data[nm] = col
			case 1:
				col := make([]bool, nrows)
				for j := range col {
					col[j] = r.Bool()
					rows[j][c] = fmt.Sprintf("%t", col[j])
				}
				data[nm] = col
			default:
				col := make([]*string, nrows)
				for j := range col {
					if r.Chance(1, 4) {
						rows[j][c] = "null"
						continue
					}
					s := genString(r, a, r.Intn(8))
					col[j] = &s
					rows[j][c] = string(stringshook.AppendQuotedString(nil, s))
				}
				data[nm] = col
			}
		}
		var out bytes.Buffer
		var err error
		pan, pv := hlib.Recover(func() {
			qf := qframe.New(data, newqf.ColumnOrder(names...))
			if qf.Err != nil {
				err = qf.Err
				return
			}
			err = qf.ToJSON(&out)
		})
		hexn := make([]string, len(names))
		for j, s := range names {
			hexn[j] = fmt.Sprintf("%x", s)
		}
		desc := map[string]interface{}{"family": "json-doc", "names": hexn, "names_text": fmt.Sprintf("%q", names), "rows": rows}
		rowTerms := make([]string, nrows)
		for j := range rows {
			rowTerms[j] = strList(rows[j])
		}
		ok := !pan && err == nil
		su.Count(fmt.Sprintf("json-doc/cols-%d", ncols))
		su.Count(fmt.Sprintf("json-doc/rows-%d", nrows))
		id := su.Add(fmt.Sprintf("SDoc %s (%s : list (list bytes)) %s", strList(names), hlib.List(rowTerms), optBytes(out.Bytes(), ok)), desc, ncols > 0 && nrows > 0)
		if !ok {
			su.Fail(id, fmt.Sprintf("ToJSON failed: panic=%v err=%v", pv, err), desc, "json-doc-fail")
			continue
		}
		// independent Go-side check: encoding/json must read one object per row with the sanitized keys
		var back []map[string]interface{}
		if e := json.Unmarshal(out.Bytes(), &back); e != nil {
			su.Fail(id, "encoding/json rejects the document: "+e.Error(), desc, "json-doc-invalid")
			continue
		}
		if len(back) != nrows {
			su.Fail(id, fmt.Sprintf("document has %d records, want %d", len(back), nrows), desc, "json-doc-rows")
			continue
		}
		distinct := map[string]bool{}
		for _, nm := range names {
			distinct[sanitize(nm)] = true
		}
		for _, rec := range back {
			if len(rec) != len(distinct) {
				su.Fail(id, fmt.Sprintf("record has %d keys, want %d", len(rec), len(distinct)), desc, "json-doc-keys")
				break
			}
			for k := range distinct {
				if _, ok := rec[k]; !ok {
					su.Fail(id, fmt.Sprintf("record lacks key %q", k), desc, "json-doc-keys")
					break
				}
			}
		}
	}
}

// ----------------------------------------------------------------

func main() {
	cfg := hlib.ParseFlags()
	s := hlib.NewSuite(cfg, "strings")
	defer s.FinishOnPanic()
	s.Header = "From QF Require Import Base.Prelude Base.CaseLib Model.Utf8 Model.Json Model.Match Model.Frame Corr.StringsCorr.\nLocal Open Scope N_scope.\n"
	s.CaseType = "strings_case"
	s.CheckFn = "check_strings"
	s.PerShard = 220
	s.Rule = "utf8: DecodeRuneInString rows (prefix + every last byte) for all 1-/2-byte and sampled 3-/4-byte prefixes, EncodeRune/RuneLen batches from a boundary pool + random int32, whole strings (ValidString, range loop). json-escape: strings from 8 alphabets (ASCII, controls/quotes/backslashes, Latin-1, C1, length-changing, 3-/4-byte incl. U+2028/9, malformed UTF-8, mixed) + random bytes, with a buffer prefix. toupper: the same alphabets at lengths around 6/10/14/20/40, initial buffer 0/10/len+3/len+4/len+5/1024/random, 1-5 successive calls reusing the buffer. matcher: fixed %-placements and metacharacter patterns then generated ones, 3-6 cells built around the literal core (case-swapped for ilike). json-doc: frames with 0-3 columns x 0-3 rows (int/bool/string with nulls). json-frame (n/20 cases on top of n): frames of 0-5 columns x 0-6 rows over all five column types (ints incl. extremes, floats from a boundary pool incl. -0, NaN payloads, subnormals, 1e21, random bit patterns; strings, enum values and column NAMES from the alphabets), row index derived by sort/slice/filter; physical dump + ToJSON bytes. json-read (n/12 on top): 65% ToJSON documents read back by ReadJSON with ColumnOrder+Enums / without ColumnOrder / without Enums / another order (2/3 of the frames satisfy the premises of C14_readback), 35% hand-assembled or damaged documents (truncated, wrong type / missing key / null in later records, duplicate keys, numbers out of range); strconv.ParseFloat of every number token shipped as table. Non-trivial = non-empty input string / pattern / frame; distinct by Coq term."
	r := hlib.NewRng(cfg.Seed)
	n := cfg.N
	nUtf8 := n * 20 / 100
	nEsc := n * 28 / 100
	nUp := n * 25 / 100
	nDoc := n * 5 / 100
	nMatch := n - nUtf8 - nEsc - nUp - nDoc
	familyUtf8(s, r.Fork(), nUtf8)
	familyEscape(s, r.Fork(), nEsc)
	familyToUpper(s, r.Fork(), nUp)
	familyMatcher(s, r.Fork(), nMatch)
	familyDoc(s, r.Fork(), nDoc)
	// frame-level C14 families: on top of n, so that the budgets and streams of the families above stay as they were
	nJF, nJR := n/20, n/12
	if nJF < 12 {
		nJF = 12
	}
	if nJR < 60 {
		nJR = 60
	}
	familyJSONFrame(s, r.Fork(), nJF)
	familyJSONRead(s, r.Fork(), nJR)
	s.Finish()
}
