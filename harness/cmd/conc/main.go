// Engine "conc" (property C11): random multisets of 2-8 operations started at once on one frame and
// on frames sharing storage with it (slices with spare capacity, sorted copies, projections).
//
// Every operation is first run alone and its result digested; then all operations of the multiset
// are started in goroutines behind one barrier (several repetitions, runtime.Gosched perturbation,
// GOMAXPROCS varied) and every result is compared with its sequential digest.  The binary is built
// with -race; the engine re-executes itself with GORACE="halt_on_error=0 log_path=<out>/race" and
// after every multiset looks whether the race log grew: every race report and every differing
// result is reported with Suite.Fail, with the multiset as the replayable case.
// The Coq shard is trivial (the verdict comes from Go); the theorem side of C11 is
// Properties/C11.v, tied to the code by the engine "share".
package main

import (
	"bytes"
	"fmt"
	"math"
	"os"
	"os/exec"
	"path/filepath"
	"runtime"
	"sort"
	"strings"
	"sync"

	"github.com/tobgu/qframe"
	"github.com/tobgu/qframe/aggregation"
	"github.com/tobgu/qframe/config/eval"
	"github.com/tobgu/qframe/config/groupby"
	"github.com/tobgu/qframe/config/newqf"
	"github.com/tobgu/qframe/types"
	"verifharness/hlib"
)

func digestFrame(qf qframe.QFrame) string {
	var b strings.Builder
	fmt.Fprintf(&b, "len=%d err=%v;", qf.Len(), qf.Err != nil)
	names := qf.ColumnNames()
	typs := qf.ColumnTypes()
	n := qf.Len()
	for i, name := range names {
		fmt.Fprintf(&b, "%q:%s[", name, typs[i])
		if qf.Err == nil {
			switch typs[i] {
			case types.Int:
				v := qf.MustIntView(name)
				for j := 0; j < n; j++ {
					fmt.Fprintf(&b, "%d,", v.ItemAt(j))
				}
			case types.Float:
				v := qf.MustFloatView(name)
				for j := 0; j < n; j++ {
					x := v.ItemAt(j)
					if math.IsNaN(x) {
						b.WriteString("nan,")
					} else {
						fmt.Fprintf(&b, "%x,", math.Float64bits(x))
					}
				}
			case types.Bool:
				v := qf.MustBoolView(name)
				for j := 0; j < n; j++ {
					fmt.Fprintf(&b, "%v,", v.ItemAt(j))
				}
			case types.String:
				v := qf.MustStringView(name)
				for j := 0; j < n; j++ {
					if p := v.ItemAt(j); p == nil {
						b.WriteString("null,")
					} else {
						fmt.Fprintf(&b, "%q,", *p)
					}
				}
			case types.Enum:
				v := qf.MustEnumView(name)
				for j := 0; j < n; j++ {
					if p := v.ItemAt(j); p == nil {
						b.WriteString("null,")
					} else {
						fmt.Fprintf(&b, "%q,", *p)
					}
				}
			}
		}
		b.WriteString("]")
	}
	return b.String()
}

// group and distinct output order is unspecified (and depends on random null hashes): digest as a set
func digestUnordered(qf qframe.QFrame) string {
	if qf.Err != nil {
		return "err"
	}
	rows := make([]string, qf.Len())
	for i := range rows {
		rows[i] = digestFrame(qf.Slice(i, i+1))
	}
	sort.Strings(rows)
	return strings.Join(rows, "|")
}

type op struct {
	desc string
	run  func() string
	// share, when set, builds the operation from argument VALUES (clause, aggregation, instruction, order list,
	// evaluation context) that are created once and then used by every goroutine that runs the operation: the
	// operation is started twice in the multiset, and a new set of values is made for the run alone and for each
	// concurrent repetition (so that nothing a first call may have done to them hides what a second, overlapping
	// call sees).
	share func() func() string
}

// kind: the operation name without its receiver, for the distribution counters
func (o op) kind() string {
	d := o.desc
	if i := strings.LastIndex(d, ")."); i >= 0 && strings.HasPrefix(d, "qf.") && i < 22 {
		d = d[i+2:]
	} else if strings.HasPrefix(d, "qf.") {
		d = d[3:]
	}
	for i, c := range d {
		if c == '(' || c == '.' {
			return d[:i]
		}
	}
	return d
}

func initialFrame(r *hlib.Rng) qframe.QFrame {
	rows := []int{0, 1, 3, 8, 20, 60}[r.Intn(6)]
	strs := []string{"a", "ab", "b", "Ba", "c", "éa", "A%"}
	data := map[string]interface{}{}
	ints := func(m int) []int {
		v := make([]int, rows)
		for i := range v {
			v[i] = r.Intn(m)
		}
		return v
	}
	data["A"] = ints(4)
	data["B"] = ints(7)
	f := make([]float64, rows)
	for i := range f {
		f[i] = float64(r.Intn(5))
		if r.Chance(1, 10) {
			f[i] = math.NaN()
		}
	}
	data["F"] = f
	o := make([]bool, rows)
	for i := range o {
		o[i] = r.Bool()
	}
	data["O"] = o
	sp := func() []*string {
		v := make([]*string, rows)
		for i := range v {
			if !r.Chance(1, 8) {
				s := strs[r.Intn(len(strs))]
				v[i] = &s
			}
		}
		return v
	}
	data["S"] = sp()
	data["E"] = sp()
	return qframe.New(data, newqf.ColumnOrder("A", "B", "E", "F", "O", "S"), newqf.Enums(map[string][]string{"E": nil}))
}

// sharedOp: operations whose argument values are shared between the goroutines that run them
func sharedOp(r *hlib.Rng, name string, qf qframe.QFrame) op {
	switch r.Intn(7) {
	case 0:
		// an "in" list in no particular order, long enough for concurrent users to overlap
		m := 8 + r.Intn(200)
		perm := r.Perm(m)
		return op{desc: fmt.Sprintf("%s.Filter(shared clause: A in <%d ints, unordered> or F in <floats> or S in <strings>)", name, m), share: func() func() string {
			li := make([]int, m)
			lf := make([]float64, m)
			for i, p := range perm {
				li[i] = p - 3
				lf[i] = float64(m - p)
			}
			cl := qframe.Or(qframe.Filter{Column: "A", Comparator: "in", Arg: li},
				qframe.Filter{Column: "F", Comparator: "in", Arg: lf},
				qframe.Filter{Column: "S", Comparator: "in", Arg: []string{"c", "b", "a", "Ba"}},
				qframe.Filter{Column: "E", Comparator: "in", Arg: []string{"éa", "b", "a"}})
			return func() string {
				return digestFrame(qf.Filter(cl)) + fmt.Sprint(li[:3], lf[:2])
			}
		}}
	case 1:
		sep := []string{",", "|", ""}[r.Intn(3)]
		col := []string{"S", "E"}[r.Intn(2)]
		key := []string{"A", "B", "O"}[r.Intn(3)]
		return op{desc: fmt.Sprintf("%s.GroupBy(%s).Aggregate(shared aggregations: StrJoin(%q) %s, sum A, count)", name, key, sep, col), share: func() func() string {
			aggs := []qframe.Aggregation{{Fn: aggregation.StrJoin(sep), Column: col, As: "J"}, {Fn: "sum", Column: "B", As: "T"}, {Fn: "count", Column: "F", As: "C"}}
			cfg := []groupby.ConfigFunc{groupby.Columns(key)}
			return func() string { return digestUnordered(qf.GroupBy(cfg...).Aggregate(aggs...)) }
		}}
	case 2:
		return op{desc: name + ".Apply(shared instructions: A*2->X, str->Y, ToUpper(S)->U)", share: func() func() string {
			ins := []qframe.Instruction{{Fn: func(x int) int { return 2 * x }, DstCol: "X", SrcCol1: "A"},
				{Fn: func(x *string) *string { return x }, DstCol: "Y", SrcCol1: "S"},
				{Fn: "ToUpper", DstCol: "U", SrcCol1: "S"}}
			return func() string { return digestFrame(qf.Apply(ins...)) }
		}}
	case 3:
		return op{desc: name + ".Sort(shared orders: S rev, E null last, B)", share: func() func() string {
			ord := []qframe.Order{{Column: "S", Reverse: true}, {Column: "E", NullLast: true}, {Column: "B"}}
			return func() string { return digestFrame(qf.Sort(ord...).Select("S", "E", "B")) }
		}}
	case 4:
		return op{desc: name + ".Eval(shared expression and context: X = abs(A-B) + A*B)", share: func() func() string {
			ctx := eval.NewDefaultCtx()
			ex := qframe.Expr("+", qframe.Expr("abs", qframe.Expr("-", types.ColumnName("A"), types.ColumnName("B"))), qframe.Expr("*", types.ColumnName("A"), types.ColumnName("B")))
			return func() string { return digestFrame(qf.Eval("X", ex, eval.EvalContext(ctx))) }
		}}
	case 5:
		pat := []string{"%a%", "A%", "%B", "b.*a"}[r.Intn(4)]
		return op{desc: fmt.Sprintf("%s.Filter(shared clause: Not(And(S ilike %q, E like %q)))", name, pat, pat), share: func() func() string {
			cl := qframe.Not(qframe.And(qframe.Filter{Column: "S", Comparator: "ilike", Arg: pat}, qframe.Filter{Column: "E", Comparator: "like", Arg: pat}))
			return func() string { return digestFrame(qf.Filter(cl)) }
		}}
	default:
		return op{desc: name + ".FilteredApply(shared clause and instruction: B in <list>, B+1->B).Distinct(shared config)", share: func() func() string {
			cl := qframe.Filter{Column: "B", Comparator: "in", Arg: []int{6, 1, 5, 0, 3}}
			in := qframe.Instruction{Fn: func(x int) int { return x + 1 }, DstCol: "B", SrcCol1: "B"}
			cfg := []groupby.ConfigFunc{groupby.Columns("B", "S"), groupby.Null(true)}
			return func() string { return digestUnordered(qf.FilteredApply(cl, in).Distinct(cfg...).Select("B", "S")) }
		}}
	}
}

func randomOp(r *hlib.Rng, name string, qf qframe.QFrame, other qframe.QFrame) op {
	n := qf.Len()
	if r.Chance(1, 5) {
		return sharedOp(r, name, qf)
	}
	switch r.Intn(20) {
	case 0:
		c := r.Intn(5)
		return op{desc: fmt.Sprintf("%s.Filter(A>%d)", name, c), run: func() string {
			return digestFrame(qf.Filter(qframe.Filter{Column: "A", Comparator: ">", Arg: c}))
		}}
	case 1:
		pat := []string{"%a%", "a%", "%A", "b", "%É%"}[r.Intn(5)]
		col := []string{"S", "E"}[r.Intn(2)]
		return op{desc: fmt.Sprintf("%s.Filter(%s ilike %q)", name, col, pat), run: func() string {
			return digestFrame(qf.Filter(qframe.Filter{Column: col, Comparator: "ilike", Arg: pat}))
		}}
	case 2:
		pat := []string{"%a%", "a%", "%a", "B.*"}[r.Intn(4)]
		col := []string{"S", "E"}[r.Intn(2)]
		return op{desc: fmt.Sprintf("%s.Filter(%s like %q)", name, col, pat), run: func() string {
			return digestFrame(qf.Filter(qframe.Filter{Column: col, Comparator: "like", Arg: pat}))
		}}
	case 3:
		return op{desc: name + ".Filter(Or(A<2,Not(And(B>3,F<2))))", run: func() string {
			return digestFrame(qf.Filter(qframe.Or(
				qframe.Filter{Column: "A", Comparator: "<", Arg: 2},
				qframe.Not(qframe.And(qframe.Filter{Column: "B", Comparator: ">", Arg: 3}, qframe.Filter{Column: "F", Comparator: "<", Arg: 2.0})))))
		}}
	case 4:
		rev := r.Bool()
		col := []string{"A", "B", "F", "S", "E", "O"}[r.Intn(6)]
		return op{desc: fmt.Sprintf("%s.Sort(%s rev=%v,B)", name, col, rev), run: func() string {
			return digestFrame(qf.Sort(qframe.Order{Column: col, Reverse: rev}, qframe.Order{Column: "B"}).Select(col, "B"))
		}}
	case 5:
		col := []string{"A", "S", "E", "O"}[r.Intn(4)]
		nulleq := r.Bool() // with Null(false) every null-keyed row is its own key (random hash values)
		return op{desc: fmt.Sprintf("%s.Distinct(%s, null=%v)", name, col, nulleq), run: func() string {
			return digestUnordered(qf.Distinct(groupby.Columns(col), groupby.Null(nulleq)).Select(col))
		}}
	case 6:
		col := []string{"A", "S", "E", "O"}[r.Intn(4)]
		nulleq := r.Bool()
		return op{desc: fmt.Sprintf("%s.GroupBy(%s, null=%v).Aggregate(count B,sum A as T)", name, col, nulleq), run: func() string {
			g := qf.GroupBy(groupby.Columns(col), groupby.Null(nulleq))
			return digestUnordered(g.Aggregate(qframe.Aggregation{Fn: "count", Column: "B", As: "C"},
				qframe.Aggregation{Fn: func(x []int) int {
					t := 0
					for _, v := range x {
						t += v
					}
					return t
				}, Column: "A", As: "T"}))
		}}
	case 7:
		return op{desc: name + ".GroupBy().Aggregate(max F)", run: func() string {
			return digestUnordered(qf.GroupBy().Aggregate(qframe.Aggregation{Fn: "max", Column: "F"}))
		}}
	case 8:
		return op{desc: name + ".Apply(A+1->X, ToUpper(S)->U)", run: func() string {
			return digestFrame(qf.Apply(
				qframe.Instruction{Fn: func(x int) int { return x + 1 }, DstCol: "X", SrcCol1: "A"},
				qframe.Instruction{Fn: "ToUpper", DstCol: "U", SrcCol1: "S"}))
		}}
	case 9:
		return op{desc: name + ".Apply(ToUpper(E)->E, const->K)", run: func() string {
			return digestFrame(qf.Apply(
				qframe.Instruction{Fn: "ToUpper", DstCol: "E", SrcCol1: "E"},
				qframe.Instruction{Fn: 5, DstCol: "K"}))
		}}
	case 10:
		return op{desc: name + ".Eval(X=A+B*A)", run: func() string {
			return digestFrame(qf.Eval("X", qframe.Expr("+", types.ColumnName("A"), qframe.Expr("*", types.ColumnName("B"), types.ColumnName("A")))))
		}}
	case 11:
		return op{desc: name + ".FilteredApply(A>1, B*2->B)", run: func() string {
			return digestFrame(qf.FilteredApply(qframe.Filter{Column: "A", Comparator: ">", Arg: 1},
				qframe.Instruction{Fn: func(x int) int { return 2 * x }, DstCol: "B", SrcCol1: "B"}))
		}}
	case 12:
		a := r.Intn(n + 1)
		b := a + r.Intn(n-a+1)
		return op{desc: fmt.Sprintf("%s.Slice(%d,%d).Copy(Z,A).Select(Z,S)", name, a, b), run: func() string {
			return digestFrame(qf.Slice(a, b).Copy("Z", "A").Select("Z", "S"))
		}}
	case 13:
		return op{desc: name + ".views", run: func() string {
			var b strings.Builder
			iv := qf.MustIntView("A")
			for i := 0; i < iv.Len(); i++ {
				fmt.Fprintf(&b, "%d,", iv.ItemAt(i))
			}
			fmt.Fprintf(&b, "%v", qf.MustStringView("S").Len())
			for _, p := range qf.MustEnumView("E").Slice() {
				if p == nil {
					b.WriteString("null,")
				} else {
					b.WriteString(*p + ",")
				}
			}
			fmt.Fprintf(&b, "%v", qf.MustBoolView("O").Slice())
			return b.String()
		}}
	case 14:
		return op{desc: name + ".ToCSV", run: func() string {
			var buf bytes.Buffer
			err := qf.ToCSV(&buf)
			return fmt.Sprintf("%v|%s", err != nil, buf.String())
		}}
	case 15:
		return op{desc: name + ".ToJSON", run: func() string {
			var buf bytes.Buffer
			err := qf.ToJSON(&buf)
			return fmt.Sprintf("%v|%s", err != nil, buf.String())
		}}
	case 16:
		return op{desc: name + ".String", run: func() string { return qf.String() }}
	case 17:
		return op{desc: name + ".Equals(other)", run: func() string {
			eq, _ := qf.Equals(other)
			eq2, _ := qf.Equals(qf)
			return fmt.Sprint(eq, eq2)
		}}
	case 18:
		return op{desc: name + ".WithRowNums(N).Drop(A)", run: func() string { return digestFrame(qf.WithRowNums("N").Drop("A")) }}
	default:
		c := r.Intn(3)
		return op{desc: fmt.Sprintf("%s.Filter(S in, E=, F notnull, A!=%d inv)", name, c), run: func() string {
			return digestFrame(qf.Filter(qframe.And(
				qframe.Or(qframe.Filter{Column: "S", Comparator: "in", Arg: []string{"a", "b"}}, qframe.Filter{Column: "E", Comparator: "=", Arg: "c"}),
				qframe.Filter{Column: "A", Comparator: "!=", Arg: c, Inverse: true})))
		}}
	}
}

func raceLogSize(out string) int64 {
	var total int64
	matches, _ := filepath.Glob(filepath.Join(out, "race*"))
	for _, m := range matches {
		if st, err := os.Stat(m); err == nil {
			total += st.Size()
		}
	}
	return total
}

func raceLogTail(out string, from int64) string {
	matches, _ := filepath.Glob(filepath.Join(out, "race*"))
	var b strings.Builder
	for _, m := range matches {
		data, _ := os.ReadFile(m)
		b.Write(data)
	}
	s := b.String()
	if int64(len(s)) > from {
		s = s[from:]
	}
	if len(s) > 1500 {
		s = s[:1500]
	}
	return s
}

var plantedSink int

func main() {
	cfg := hlib.ParseFlags()
	if raceEnabled && os.Getenv("VERIF_CONC_CHILD") == "" {
		// the race runtime reads GORACE at start-up: run the real engine as a child
		old, _ := filepath.Glob(filepath.Join(cfg.Out, "race*"))
		for _, f := range old {
			os.Remove(f)
		}
		cmd := exec.Command(os.Args[0], os.Args[1:]...)
		cmd.Env = append(os.Environ(), "VERIF_CONC_CHILD=1",
			"GORACE=halt_on_error=0 exitcode=0 log_path="+filepath.Join(cfg.Out, "race"))
		cmd.Stdout, cmd.Stderr = os.Stdout, os.Stderr
		if err := cmd.Run(); err != nil {
			fmt.Fprintln(os.Stderr, "conc child failed:", err)
			os.Exit(1)
		}
		return
	}
	s := hlib.NewSuite(cfg, "conc")
	defer s.FinishOnPanic()
	s.Header = "From QF Require Import Base.Prelude Base.CaseLib Corr.HeapCorr.\nLocal Open Scope N_scope.\n"
	s.CaseType = "N * bool"
	s.CheckFn = "check_conc"
	s.PerShard = 5000
	s.Rule = fmt.Sprintf("multisets of 2-8 operations (one in five built from argument values - clause with unordered in-lists, aggregations incl. aggregation.StrJoin, instructions, order list, expression and evaluation context, group-by configuration - that are made once and shared by the 2-3 goroutines running that operation; Filter incl. like/ilike/in, Sort, Distinct, GroupBy+Aggregate, Apply incl. ToUpper, Eval, FilteredApply, Slice/Copy/Select/Drop, WithRowNums, views, ToCSV/ToJSON/String, Equals) on a frame of 0-60 rows and on frames derived from it (slices with spare capacity, sorted copy, projection); sequential digests vs 3 concurrent repetitions; race detector enabled=%v; non-trivial = at least 2 operations on frames with rows", raceEnabled)
	root := hlib.NewRng(cfg.Seed).Fork()

	if raceEnabled {
		// self-test: a planted race on a private variable must show up in the log
		before := raceLogSize(cfg.Out)
		var wg sync.WaitGroup
		for i := 0; i < 2; i++ {
			wg.Add(1)
			go func() { defer wg.Done(); plantedSink++ }()
		}
		wg.Wait()
		if raceLogSize(cfg.Out) == before {
			s.Fail(-1, "race detector self-test: the planted race was not reported (GORACE log_path not effective?)", nil, "selftest")
		}
	}

	for ci := 0; ci < cfg.N; ci++ {
		r := root.Fork()
		base := initialFrame(r)
		if base.Err != nil {
			panic(base.Err)
		}
		n := base.Len()
		a := r.Intn(n + 1)
		b := a + r.Intn(n-a+1)
		frames := []struct {
			name string
			qf   qframe.QFrame
		}{
			{"qf", base},
			{fmt.Sprintf("qf.Slice(%d,%d)", a, b), base.Slice(a, b)},
			{"qf.Sort(B)", base.Sort(qframe.Order{Column: "B"})},
			{"qf.Copy(Z,A)", base.Copy("Z", "A")},
			{"qf.Filter(A>0)", base.Filter(qframe.Filter{Column: "A", Comparator: ">", Arg: 0})},
		}
		nops := 2 + r.Intn(7)
		ops := []op{}
		renew := []func(){}
		for i := 0; i < nops; i++ {
			fi := 0
			if r.Chance(1, 2) {
				fi = r.Intn(len(frames))
			}
			o := randomOp(r, frames[fi].name, frames[fi].qf, frames[r.Intn(len(frames))].qf)
			if o.share == nil {
				ops = append(ops, o)
				continue
			}
			// one set of argument values, used by 2-3 goroutines
			var cur func() string
			mk := o.share
			renew = append(renew, func() { cur = mk() })
			o.run = func() string { return cur() }
			for k := 2 + r.Intn(2); k > 0; k-- {
				ops = append(ops, o)
			}
		}
		nops = len(ops)
		descs := make([]string, nops)
		for i := range ops {
			descs[i] = ops[i].desc
		}
		for _, f := range renew {
			f()
		}
		procs := []int{1, 2, 4, 8}[r.Intn(4)]
		caseDesc := map[string]interface{}{"case": ci, "rows": n, "gomaxprocs": procs, "ops": descs}
		id := s.Add(fmt.Sprintf("(%s, true)", hlib.N(uint64(ci))), caseDesc, n > 0)
		for i := range ops {
			s.Count(ops[i].kind())
		}

		seq := make([]string, nops)
		panicked, pv := hlib.Recover(func() {
			for i := range ops {
				seq[i] = ops[i].run()
			}
		})
		if panicked {
			s.Fail(id, fmt.Sprintf("panic in the sequential run: %v", pv), caseDesc, "panic")
			continue
		}
		before := raceLogSize(cfg.Out)
		prev := runtime.GOMAXPROCS(procs)
		for rep := 0; rep < 3; rep++ {
			res := make([]string, nops)
			pan := make([]interface{}, nops)
			yields := make([]int, nops)
			for i := range yields {
				yields[i] = r.Intn(4)
			}
			for _, f := range renew {
				f()
			}
			start := make(chan struct{})
			var wg sync.WaitGroup
			for i := range ops {
				wg.Add(1)
				go func(i int) {
					defer wg.Done()
					defer func() {
						if p := recover(); p != nil {
							pan[i] = p
						}
					}()
					<-start
					for k := 0; k < yields[i]; k++ {
						runtime.Gosched()
					}
					res[i] = ops[i].run()
				}(i)
			}
			close(start)
			wg.Wait()
			for i := range ops {
				if pan[i] != nil {
					s.Fail(id, fmt.Sprintf("panic in concurrent run of %s: %v", descs[i], pan[i]), caseDesc, "panic")
				} else if res[i] != seq[i] {
					s.Fail(id, fmt.Sprintf("%s returned a different result when run concurrently (repetition %d): alone %.300s / concurrent %.300s", descs[i], rep, seq[i], res[i]), caseDesc, "result")
				}
			}
		}
		runtime.GOMAXPROCS(prev)
		if after := raceLogSize(cfg.Out); after != before {
			s.Fail(id, "data race reported by the race detector: "+raceLogTail(cfg.Out, before), caseDesc, "race")
		}
	}
	s.Finish()
}
