// Engine "sort": the index sorter (internal/sort/sorter.go), the Comparable constructors and the
// per-type Compare methods, and QFrame.Sort, against Model/Sort.v (property C03).
//
// Case families
//
//	hook   real Comparables of the five column types (sorthook.IntKey ...) + the real internal/sort
//	       on an index that may be permuted, reversed, a subset or contain repeated row ids
//	api    qframe.New(rowid + key columns).Sort(orders...) read back through MustIntView("rowid")
//	adv    McIlroy's antiquicksort adversary behind a FuncKey (drives quickSort to maxDepth 0 and
//	       into heapSort); the final rank table is sent so that the model replays the same Less
//	matrix an arbitrary (inconsistent) Less table behind a FuncKey: permutation + exact replay only
//	frame  QFrame.Sort on frames however derived (earlier Sort / Slice / Filter / Distinct, re-selected
//	       column order, a key column that was replaced, an extra column of every type, Err receivers,
//	       unknown and repeated order columns, no order at all): the PHYSICAL dump of receiver and
//	       result (qframe.VerifDump) is compared exactly with Model/SortFrame.v sort_frame and checked
//	       by the oracle (whole rows, spec order, columns identical); see frame.go
package main

import (
	"fmt"
	"math"
	"strings"

	"github.com/tobgu/qframe"
	"github.com/tobgu/qframe/config/newqf"
	"github.com/tobgu/qframe/verifhook/sorthook"
	"verifharness/hlib"
)

// ---------------------------------------------------------------- keys

const (
	kInt = iota
	kFloat
	kBool
	kStr
	kEnum
)

var kindNames = []string{"int", "float", "bool", "string", "enum"}

type key struct {
	kind       int
	ints       []int
	floats     []float64
	bools      []bool
	strs       []*string // string and enum data
	enumValues []string  // declared order
	reverse    bool
	nullLast   bool
	pattern    string
	alpha      int
}

func sp(s string) *string { return &s }

var nanA = math.NaN()
var nanB = math.Float64frombits(0xfff8000000000123) // negative quiet NaN with payload
var nanC = math.Float64frombits(0x7ff0000000000001) // signalling NaN

// pools in ascending order of the property's default order (null first)
var intPool = []int{math.MinInt64, -3, -1, 0, 1, 2, 7, math.MaxInt64}
var floatPool = []float64{nanA, math.Inf(-1), -2.5, math.Copysign(0, -1), 5e-324, 1.5, 1e300, math.Inf(1)}
var strPool = []*string{nil, sp(""), sp("a"), sp("ab"), sp("b"), sp("\x80"), sp("\xc3\xa9"), sp("\xff")}

// strings of 8 and more bytes that differ at several positions (a comparison word by word must agree with the byte order)
var longStrPool = []*string{nil, sp("aaaaaaaa"), sp("aaaaaaab"), sp("aaaaaaba"), sp("aaaaaaba\x00"), sp("abaaaaaa"), sp("baaaaaaa"), sp("baaaaaaab\xc3\xa9")}

var patterns = []string{"random", "random", "random", "sorted", "reversed", "organpipe", "allequal", "sawtooth", "lastlow", "oneoff"}

// levels produces n values in [0,alpha) following the pattern.
func levels(r *hlib.Rng, n, alpha int, pattern string) []int {
	l := make([]int, n)
	c := r.Intn(alpha)
	for i := range l {
		switch pattern {
		case "random":
			l[i] = r.Intn(alpha)
		case "sorted":
			l[i] = i * alpha / n
		case "reversed":
			l[i] = (n - 1 - i) * alpha / n
		case "organpipe":
			m := i
			if n-1-i < m {
				m = n - 1 - i
			}
			l[i] = m * 2 * alpha / (n + 1)
			if l[i] >= alpha {
				l[i] = alpha - 1
			}
		case "lastlow": // ascending, only the last element out of place
			l[i] = i * alpha / n
			if i == n-1 {
				l[i] = 0
				if alpha > 1 && n > 1 && l[n-2] == 0 {
					l[n-2] = alpha - 1
				}
			}
		case "oneoff": // ascending with one element (position c2) moved
			l[i] = i * alpha / n
		case "allequal":
			l[i] = c
		default: // sawtooth
			l[i] = i % alpha
		}
	}
	if pattern == "oneoff" && n > 1 {
		a, b := r.Intn(n), r.Intn(n)
		l[a], l[b] = l[b], l[a]
	}
	return l
}

// subset picks k ascending positions out of [0,m).
func subset(r *hlib.Rng, m, k int) []int {
	p := r.Perm(m)[:k]
	// insertion sort (tiny)
	for i := 1; i < len(p); i++ {
		for j := i; j > 0 && p[j] < p[j-1]; j-- {
			p[j], p[j-1] = p[j-1], p[j]
		}
	}
	return p
}

func genKey(r *hlib.Rng, n int, kind int) key {
	k := key{kind: kind, reverse: r.Bool(), nullLast: r.Bool()}
	k.pattern = patterns[r.Intn(len(patterns))]
	wide := r.Chance(1, 6) && kind != kBool && kind != kEnum
	alpha := 1 + r.Intn(4)
	if r.Chance(1, 8) {
		alpha = 5 + r.Intn(4)
	}
	if kind == kBool && alpha > 2 {
		alpha = 2
	}
	if wide {
		alpha = n + 1
	}
	k.alpha = alpha
	lv := levels(r, n, alpha, k.pattern)
	switch kind {
	case kInt:
		k.ints = make([]int, n)
		if wide {
			off := r.Intn(7) - 3
			for i, l := range lv {
				k.ints[i] = l + off
			}
		} else {
			sel := subset(r, len(intPool), alpha)
			for i, l := range lv {
				k.ints[i] = intPool[sel[l]]
			}
		}
	case kFloat:
		k.floats = make([]float64, n)
		if wide {
			for i, l := range lv {
				k.floats[i] = float64(l)*0.25 - 1
				if l == 0 {
					k.floats[i] = nanA
				}
			}
		} else {
			sel := subset(r, len(floatPool), alpha)
			for i, l := range lv {
				v := floatPool[sel[l]]
				if v != v { // vary the NaN payloads, they must all tie
					v = []float64{nanA, nanB, nanC}[r.Intn(3)]
				} else if v == 0 && r.Bool() { // +0 and -0 must tie
					v = 0
				}
				k.floats[i] = v
			}
		}
	case kBool:
		k.bools = make([]bool, n)
		flip := alpha == 1 && r.Bool()
		for i, l := range lv {
			k.bools[i] = (l == 1) != flip
		}
	case kStr:
		k.strs = make([]*string, n)
		if wide {
			for i, l := range lv {
				if l == 0 {
					k.strs[i] = nil
				} else {
					k.strs[i] = sp(fmt.Sprintf("s%04d", l))
				}
			}
		} else {
			pool := strPool
			if r.Chance(1, 3) {
				pool = longStrPool
			}
			sel := subset(r, len(pool), alpha)
			for i, l := range lv {
				k.strs[i] = pool[sel[l]]
			}
		}
	case kEnum:
		// declared order is a random arrangement, so it differs from the byte order
		names := []string{"x", "a", "", "m", "b", "zz", "A", "k", "\xff", "0"}
		p := r.Perm(len(names))
		nv := alpha
		withNull := r.Bool()
		if withNull && nv > 1 {
			nv--
		}
		extra := r.Intn(2) // declared but unused values
		for i := 0; i < nv+extra; i++ {
			k.enumValues = append(k.enumValues, names[p[i]])
		}
		k.strs = make([]*string, n)
		for i, l := range lv {
			if withNull {
				if l == 0 {
					k.strs[i] = nil
				} else {
					k.strs[i] = sp(k.enumValues[(l-1)%nv])
				}
			} else {
				k.strs[i] = sp(k.enumValues[l%nv])
			}
		}
	}
	return k
}

func (k key) hookKey() (sorthook.Key, error) {
	switch k.kind {
	case kInt:
		return sorthook.IntKey(k.ints, k.reverse, false, k.nullLast), nil
	case kFloat:
		return sorthook.FloatKey(k.floats, k.reverse, false, k.nullLast), nil
	case kBool:
		return sorthook.BoolKey(k.bools, k.reverse, false, k.nullLast), nil
	case kStr:
		return sorthook.StringKey(k.strs, k.reverse, false, k.nullLast), nil
	default:
		return sorthook.EnumKey(k.strs, k.enumValues, k.reverse, false, k.nullLast)
	}
}

func (k key) coq() string {
	var items []string
	var ctor string
	switch k.kind {
	case kInt:
		ctor = "KInt"
		for _, v := range k.ints {
			items = append(items, hlib.Z(int64(v)))
		}
	case kFloat:
		ctor = "KFloat"
		for _, v := range k.floats {
			items = append(items, hlib.NHex(math.Float64bits(v)))
		}
	case kBool:
		ctor = "KBool"
		for _, v := range k.bools {
			items = append(items, hlib.Bool(v))
		}
	case kStr:
		ctor = "KStr"
		for _, v := range k.strs {
			items = append(items, hlib.OptStr(v))
		}
	default:
		ctor = "KEnum"
		rank := map[string]int{}
		for i, v := range k.enumValues {
			rank[v] = i
		}
		for _, v := range k.strs {
			if v == nil {
				items = append(items, "None")
			} else {
				items = append(items, hlib.Some(hlib.N(uint64(rank[*v]))))
			}
		}
	}
	return fmt.Sprintf("(%s %s, (%s, %s))", ctor, hlib.List(items), hlib.Bool(k.reverse), hlib.Bool(k.nullLast))
}

func (k key) desc(full bool) map[string]interface{} {
	d := map[string]interface{}{"type": kindNames[k.kind], "reverse": k.reverse, "nullLast": k.nullLast,
		"pattern": k.pattern, "alphabet": k.alpha}
	if k.kind == kEnum {
		d["declared"] = k.enumValues
	}
	if full {
		var vals []string
		switch k.kind {
		case kInt:
			for _, v := range k.ints {
				vals = append(vals, fmt.Sprint(v))
			}
		case kFloat:
			for _, v := range k.floats {
				vals = append(vals, fmt.Sprintf("0x%016x", math.Float64bits(v)))
			}
		case kBool:
			for _, v := range k.bools {
				vals = append(vals, fmt.Sprint(v))
			}
		default:
			for _, v := range k.strs {
				if v == nil {
					vals = append(vals, "nil")
				} else {
					vals = append(vals, fmt.Sprintf("%q", *v))
				}
			}
		}
		d["values"] = strings.Join(vals, ",")
	}
	return d
}

// ---------------------------------------------------------------- sizes and indexes

func pickSize(r *hlib.Rng, tier string) int {
	x := r.Intn(100)
	switch {
	case x < 38:
		return r.Intn(15) // 0..14: insertion regime and its border 12/13
	case x < 58:
		return 39 + r.Intn(4) // 39..42: ninther border
	case x < 66:
		return 15 + r.Intn(24)
	case x < 82:
		if r.Bool() {
			return 100
		}
		return 43 + r.Intn(80)
	case x < 91:
		if r.Bool() {
			return 300
		}
		return 123 + r.Intn(177)
	case x < 98 && tier != "thorough":
		return 13 + r.Intn(30)
	default:
		if tier == "thorough" && r.Chance(1, 3) {
			return 3000
		}
		return 1000
	}
}

// exactLimit is the largest index length on which the model is replayed (above it only the
// verified checker runs).
func exactLimit(tier string) int {
	if tier == "thorough" {
		return 1000
	}
	return 300
}

func genIndex(r *hlib.Rng, n int) ([]uint32, string) {
	ix := make([]uint32, n)
	for i := range ix {
		ix[i] = uint32(i)
	}
	switch r.Intn(6) {
	case 0, 1:
		return ix, "identity"
	case 2:
		p := r.Perm(n)
		for i := range ix {
			ix[i] = uint32(p[i])
		}
		return ix, "permuted"
	case 3:
		for i := range ix {
			ix[i] = uint32(n - 1 - i)
		}
		return ix, "reversed"
	case 4: // a subset in random order (as after Filter + earlier Sort)
		if n == 0 {
			return ix, "identity"
		}
		m := r.Intn(n + 1)
		p := r.Perm(n)[:m]
		out := make([]uint32, m)
		for i := range out {
			out[i] = uint32(p[i])
		}
		return out, "subset"
	default: // repeated row ids
		if n == 0 {
			return ix, "identity"
		}
		for i := range ix {
			ix[i] = uint32(r.Intn(n))
		}
		return ix, "repeats"
	}
}

func natList32(v []uint32) string {
	it := make([]string, len(v))
	for i, x := range v {
		it[i] = fmt.Sprint(x)
	}
	if len(it) == 0 {
		return "[]"
	}
	return "[" + strings.Join(it, "; ") + "]%uint63"
}

func natListInt(v []int) string {
	it := make([]string, len(v))
	for i, x := range v {
		it[i] = fmt.Sprint(x)
	}
	if len(it) == 0 {
		return "[]"
	}
	return "[" + strings.Join(it, "; ") + "]%uint63"
}

func keysCoq(keys []key) string {
	it := make([]string, len(keys))
	for i, k := range keys {
		it[i] = k.coq()
	}
	return hlib.List(it)
}

func keysDesc(keys []key, full bool) []interface{} {
	var d []interface{}
	for _, k := range keys {
		d = append(d, k.desc(full))
	}
	return d
}

func genKeys(r *hlib.Rng, n int) []key {
	nk := 1
	switch x := r.Intn(10); {
	case x < 4:
		nk = 1
	case x < 8:
		nk = 2
	default:
		nk = 3
	}
	keys := make([]key, nk)
	for i := range keys {
		keys[i] = genKey(r, n, r.Intn(5))
	}
	return keys
}

// ---------------------------------------------------------------- families

func hookCase(s *hlib.Suite, r *hlib.Rng, tier string) {
	n := pickSize(r, tier)
	keys := genKeys(r, n)
	ix, ixKind := genIndex(r, n)
	in := append([]uint32(nil), ix...)
	hk := make([]sorthook.Key, len(keys))
	for i, k := range keys {
		var err error
		hk[i], err = k.hookKey()
		if err != nil {
			panic(fmt.Sprintf("harness: enum key construction failed: %v", err))
		}
	}
	id := s.NextID()
	desc := map[string]interface{}{"family": "hook", "rows": n, "index": ixKind, "index_len": len(ix), "keys": keysDesc(keys, n <= 48)}
	if n <= 48 {
		desc["input"] = fmt.Sprint(in)
	}
	if p, v := hlib.Recover(func() { sorthook.Sort(ix, hk) }); p {
		s.Fail(id, fmt.Sprintf("internal/sort panicked: %v", v), desc, "")
	}
	exact := len(ix) <= exactLimit(tier)
	s.Count("hook")
	s.Count(fmt.Sprintf("keys=%d", len(keys)))
	s.Count("index=" + ixKind)
	countSize(s, len(ix), exact)
	for _, k := range keys {
		s.Count(fmt.Sprintf("key:%s rev=%v nullLast=%v", kindNames[k.kind], k.reverse, k.nullLast))
	}
	s.Add(fmt.Sprintf("SKeys %s %s %s %s", hlib.Bool(exact), keysCoq(keys), natList32(in), natList32(ix)), desc, len(ix) >= 2)
}

func countSize(s *hlib.Suite, n int, exact bool) {
	var b string
	switch {
	case n <= 1:
		b = "n<=1"
	case n <= 12:
		b = "n<=12 (insertion)"
	case n <= 40:
		b = "n 13..40 (median of three)"
	case n <= 300:
		b = "n 41..300 (ninther)"
	default:
		b = "n>300"
	}
	s.Count("size:" + b)
	if exact {
		s.Count("replayed by the model")
	} else {
		s.Count("checker only")
	}
}

func apiCase(s *hlib.Suite, r *hlib.Rng, tier string) {
	n := pickSize(r, tier)
	keys := genKeys(r, n)
	data := map[string]interface{}{}
	rowid := make([]int, n)
	for i := range rowid {
		rowid[i] = i
	}
	data["rowid"] = rowid
	enums := map[string][]string{}
	orders := make([]qframe.Order, len(keys))
	for i, k := range keys {
		name := fmt.Sprintf("k%d", i)
		switch k.kind {
		case kInt:
			data[name] = k.ints
		case kFloat:
			data[name] = k.floats
		case kBool:
			data[name] = k.bools
		case kStr:
			data[name] = k.strs
		default:
			data[name] = k.strs
			enums[name] = k.enumValues
		}
		orders[i] = qframe.Order{Column: name, Reverse: k.reverse, NullLast: k.nullLast}
	}
	id := s.NextID()
	desc := map[string]interface{}{"family": "api", "rows": n, "keys": keysDesc(keys, n <= 48)}
	var out []int
	var input []int
	derive := r.Intn(4)
	var errText string
	p, v := hlib.Recover(func() {
		qf := qframe.New(data, newqf.Enums(enums))
		if qf.Err != nil {
			errText = "New: " + qf.Err.Error()
			return
		}
		// the frame is sorted "however derived": scramble / shrink the row index first
		switch derive {
		case 1:
			qf = qf.Sort(qframe.Order{Column: "rowid", Reverse: true})
		case 2:
			if n > 2 {
				qf = qf.Slice(n/4, n-n/4)
			}
		case 3:
			cnt := 0
			qf = qf.Filter(qframe.Filter{Column: "rowid", Comparator: func(int) bool { cnt++; return cnt%3 != 0 }})
			qf = qf.Sort(qframe.Order{Column: "rowid", Reverse: true})
		}
		if qf.Err != nil {
			errText = "derive: " + qf.Err.Error()
			return
		}
		input = qf.MustIntView("rowid").Slice()
		sorted := qf.Sort(orders...)
		if sorted.Err != nil {
			errText = "Sort: " + sorted.Err.Error()
			return
		}
		view := sorted.MustIntView("rowid")
		out = make([]int, view.Len())
		for i := range out {
			out[i] = view.ItemAt(i)
		}
		// the receiver must be left untouched
		before := qf.MustIntView("rowid")
		for i := 0; i < before.Len(); i++ {
			if before.ItemAt(i) != input[i] {
				errText = "Sort modified the index of its receiver"
				return
			}
		}
	})
	s.Count(fmt.Sprintf("api-derivation-%d", derive))
	if p {
		s.Fail(id, fmt.Sprintf("QFrame.Sort panicked: %v", v), desc, "")
	} else if errText != "" {
		s.Fail(id, errText, desc, "")
	}
	exact := n <= exactLimit(tier)
	s.Count("api")
	s.Count(fmt.Sprintf("keys=%d", len(keys)))
	countSize(s, n, exact)
	for _, k := range keys {
		s.Count(fmt.Sprintf("key:%s rev=%v nullLast=%v", kindNames[k.kind], k.reverse, k.nullLast))
	}
	s.Add(fmt.Sprintf("SKeys %s %s %s %s", hlib.Bool(exact), keysCoq(keys), natListInt(input), natListInt(out)), desc, n >= 2)
}

// McIlroy, "A Killer Adversary for Quicksort" (1999).
type adversary struct {
	val       []int
	gas       int
	nsolid    int
	candidate int
	ncmp      int
}

func newAdversary(n int) *adversary {
	a := &adversary{val: make([]int, n), gas: n}
	for i := range a.val {
		a.val[i] = a.gas
	}
	return a
}

func (a *adversary) less(x, y int) bool {
	a.ncmp++
	if a.val[x] == a.gas && a.val[y] == a.gas {
		if x == a.candidate {
			a.val[x] = a.nsolid
		} else {
			a.val[y] = a.nsolid
		}
		a.nsolid++
	}
	if a.val[x] == a.gas {
		a.candidate = x
	} else if a.val[y] == a.gas {
		a.candidate = y
	}
	return a.val[x] < a.val[y]
}

func advCase(s *hlib.Suite, r *hlib.Rng, tier string) {
	sizes := []int{13, 41, 50, 100, 100, 300, 300, 300, 1000}
	if tier == "thorough" {
		sizes = append(sizes, 1000, 3000)
	}
	n := sizes[r.Intn(len(sizes))]
	if r.Chance(1, 4) {
		n = 13 + r.Intn(288)
	}
	ix := make([]uint32, n)
	kind := "identity"
	if r.Bool() {
		kind = "permuted"
		for i, p := range r.Perm(n) {
			ix[i] = uint32(p)
		}
	} else {
		for i := range ix {
			ix[i] = uint32(i)
		}
	}
	in := append([]uint32(nil), ix...)
	adv := newAdversary(n)
	k := sorthook.FuncKey(func(i, j uint32) byte {
		if adv.less(int(i), int(j)) {
			return sorthook.LessThan
		}
		return sorthook.Equal
	})
	id := s.NextID()
	desc := map[string]interface{}{"family": "adversary", "n": n, "index": kind}
	if p, v := hlib.Recover(func() { sorthook.Sort(ix, []sorthook.Key{k}) }); p {
		s.Fail(id, fmt.Sprintf("internal/sort panicked: %v", v), desc, "")
	}
	desc["comparisons"] = adv.ncmp
	ranks := make([]uint32, n)
	for i, v := range adv.val {
		ranks[i] = uint32(v)
	}
	exact := n <= exactLimit(tier)
	s.Count("adversary")
	countSize(s, n, exact)
	s.Add(fmt.Sprintf("SRank %s %s %s %s", hlib.Bool(exact), natList32(ranks), natList32(in), natList32(ix)), desc, true)
}

func matrixCase(s *hlib.Suite, r *hlib.Rng, tier string) {
	n := r.Intn(15)
	switch r.Intn(4) {
	case 0:
		n = 13 + r.Intn(30)
	case 1:
		n = 39 + r.Intn(25)
	}
	density := 1 + r.Intn(9)
	m := make([][]bool, n)
	rows := make([]string, n)
	for i := range m {
		m[i] = make([]bool, n)
		for j := range m[i] {
			m[i][j] = r.Intn(10) < density
		}
		rows[i] = hlib.BoolList(m[i])
	}
	ix := make([]uint32, n)
	for i, p := range r.Perm(n) {
		ix[i] = uint32(p)
	}
	in := append([]uint32(nil), ix...)
	ncmp := 0
	limit := 1000 + 200*n*n
	k := sorthook.FuncKey(func(i, j uint32) byte {
		ncmp++
		if ncmp > limit {
			panic("harness: comparison budget exceeded (sorter does not terminate?)")
		}
		if m[i][j] {
			return sorthook.LessThan
		}
		if r := (i + j) % 3; r == 0 {
			return sorthook.GreaterThan // Less treats GreaterThan, Equal and NotEqual alike for one key
		} else if r == 1 {
			return sorthook.NotEqual
		}
		return sorthook.Equal
	})
	id := s.NextID()
	desc := map[string]interface{}{"family": "matrix", "n": n, "density_tenths": density}
	if n <= 16 {
		desc["matrix"] = fmt.Sprint(m)
		desc["input"] = fmt.Sprint(in)
	}
	if p, v := hlib.Recover(func() { sorthook.Sort(ix, []sorthook.Key{k}) }); p {
		s.Fail(id, fmt.Sprintf("internal/sort panicked on an inconsistent Less: %v", v), desc, "")
	}
	s.Count("matrix")
	countSize(s, n, true)
	s.Add(fmt.Sprintf("SMatrix %s %s %s", hlib.List(rows), natList32(in), natList32(ix)), desc, n >= 2)
}

func main() {
	cfg := hlib.ParseFlags()
	s := hlib.NewSuite(cfg, "sort")
	defer s.FinishOnPanic()
	s.Header = "From Coq Require Import Uint63.\nFrom QF Require Import Base.Prelude Base.CaseLib Model.Frame Model.Sort Corr.SortCorr.\n"
	s.CaseType = "sort_case"
	s.CheckFn = "check_sort"
	s.Rule = "families hook (real Comparables of int/float/bool/string/enum columns + real internal/sort on identity / permuted / reversed / subset / repeated-id indexes), api (qframe.New + Sort + MustIntView(rowid)), adversary (McIlroy antiquicksort behind a FuncKey, final ranks replayed), matrix (arbitrary inconsistent Less table), frame (QFrame.Sort on derived frames: physical dump of receiver and result vs Model/SortFrame.v sort_frame + oracle on whole rows / spec order / identical columns; Err receivers, unknown, repeated and zero orders). Sizes 0..14, 39..42, 15..38, 43..300, 1000 (thorough 3000); 1-3 keys, all Reverse x NullLast, alphabets of 1-4 (sometimes 5-8, sometimes n) values incl. NaN payloads, +-0, +-Inf, nil, empty string, bytes >= 0x80, enum declared order different from byte order; data patterns random / sorted / reversed / organ-pipe / all-equal / sawtooth / ascending with only the last element low / ascending with one swap; strings of 8+ bytes differing at several positions. Non-trivial = index length >= 2; distinct by Coq term."
	per := cfg.N/14 + 1
	if per < 20 {
		per = 20
	}
	if per > 300 {
		per = 300
	}
	s.PerShard = per
	r := hlib.NewRng(cfg.Seed)
	for i := 0; i < cfg.N; i++ {
		cr := r.Fork()
		switch x := cr.Intn(100); {
		case x < 42:
			hookCase(s, cr, cfg.Tier)
		case x < 68:
			apiCase(s, cr, cfg.Tier)
		case x < 75:
			advCase(s, cr, cfg.Tier)
		case x < 82:
			matrixCase(s, cr, cfg.Tier)
		default:
			frameCase(s, cr, cfg.Tier)
		}
	}
	s.Finish()
}
