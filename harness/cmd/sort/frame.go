// Family "frame" of engine sort: QFrame.Sort itself on frames however derived, observed through the
// physical dump hook (qframe.VerifDump) and compared with Model/SortFrame.v (sort_frame).
package main

import (
	"fmt"
	"math"
	"strings"

	"github.com/tobgu/qframe"
	"github.com/tobgu/qframe/config/groupby"
	"github.com/tobgu/qframe/config/newqf"
	"verifharness/hlib"
)

// ---------------------------------------------------------------- dumps as Coq terms
// (the printer of harness/cmd/frameops/gen.go, with the index as primitive integers)

func coqColData(c qframe.VerifColumn) string {
	switch c.Kind {
	case "int":
		return "ICol " + hlib.ZList(c.Ints)
	case "float":
		it := make([]string, len(c.Floats))
		for i, f := range c.Floats {
			it[i] = hlib.NHex(math.Float64bits(f))
		}
		return "FCol " + hlib.List(it)
	case "bool":
		return "BCol " + hlib.BoolList(c.Bools)
	case "string":
		it := make([]string, len(c.Strings))
		for i, s := range c.Strings {
			it[i] = hlib.OptStr(s)
		}
		return "SCol " + hlib.List(it)
	case "enum":
		it := make([]string, len(c.Ranks))
		for i, v := range c.Ranks {
			it[i] = hlib.N(uint64(v))
		}
		vs := make([]string, len(c.Values))
		for i, v := range c.Values {
			vs[i] = hlib.Str(v)
		}
		return "ECol " + hlib.List(it) + " " + hlib.List(vs) + " " + hlib.Bool(c.Strict)
	}
	panic("unknown column kind " + c.Kind)
}

// coqDump prints a dump as a Corr/SortCorr.v fdump: (columns, index, err).
func coqDump(d qframe.VerifFrame) string {
	cs := make([]string, len(d.Columns))
	for i, c := range d.Columns {
		cs[i] = "(" + hlib.Str(c.Name) + ", " + coqColData(c) + ")"
	}
	return "(" + hlib.List(cs) + ", " + natList32(d.Index) + ", " + hlib.Bool(d.HasErr) + ")"
}

// byNameOK checks the model's reading of the by-name map (Model/Frame.v lookup): every name resolves
// to the LAST column of the slice with that name, and the map has no other entries.
func byNameOK(d qframe.VerifFrame) string {
	last := map[string]int{}
	for i, c := range d.Columns {
		last[c.Name] = i
	}
	if len(last) != len(d.ByName) {
		return fmt.Sprintf("by-name map has %d entries, the column slice has %d distinct names", len(d.ByName), len(last))
	}
	for name, i := range last {
		m, ok := d.ByName[name]
		if !ok {
			return "by-name map lacks " + name
		}
		if m.Name != d.Columns[i].Name || coqColData(m) != coqColData(d.Columns[i]) {
			return "by-name entry of " + name + " is not the last column of that name"
		}
	}
	return ""
}

func coqOrders(orders []qframe.Order) string {
	it := make([]string, len(orders))
	for i, o := range orders {
		it[i] = "(" + hlib.Str(o.Column) + ", " + hlib.Bool(o.Reverse) + ", " + hlib.Bool(o.NullLast) + ")"
	}
	return hlib.List(it)
}

func ordersDesc(orders []qframe.Order) string {
	it := make([]string, len(orders))
	for i, o := range orders {
		it[i] = fmt.Sprintf("{%q rev=%v nullLast=%v}", o.Column, o.Reverse, o.NullLast)
	}
	return strings.Join(it, " ")
}

// ---------------------------------------------------------------- the family

func frameSize(r *hlib.Rng, tier string) int {
	x := r.Intn(100)
	switch {
	case x < 40:
		return r.Intn(15)
	case x < 60:
		return 39 + r.Intn(4)
	case x < 80:
		return 15 + r.Intn(60)
	case x < 95 || tier != "thorough":
		return 75 + r.Intn(130)
	default:
		return 300 + r.Intn(400)
	}
}

func frameCase(s *hlib.Suite, r *hlib.Rng, tier string) {
	n := frameSize(r, tier)
	keys := genKeys(r, n)
	data := map[string]interface{}{}
	rowid := make([]int, n)
	for i := range rowid {
		rowid[i] = i
	}
	data["rowid"] = rowid
	enums := map[string][]string{}
	names := []string{"rowid"}
	var orders []qframe.Order
	for i, k := range keys {
		name := fmt.Sprintf("k%d", i)
		names = append(names, name)
		switch k.kind {
		case kInt:
			data[name] = k.ints
		case kFloat:
			data[name] = k.floats
		case kBool:
			data[name] = k.bools
		case kStr:
			data[name] = k.strs
		default:
			data[name] = k.strs
			enums[name] = k.enumValues
		}
		orders = append(orders, qframe.Order{Column: name, Reverse: k.reverse, NullLast: k.nullLast})
	}
	// a column that is no key (rows must stay whole on it)
	extra := genKey(r, n, r.Intn(5))
	names = append(names, "x")
	switch extra.kind {
	case kInt:
		data["x"] = extra.ints
	case kFloat:
		data["x"] = extra.floats
	case kBool:
		data["x"] = extra.bools
	case kStr:
		data["x"] = extra.strs
	default:
		data["x"] = extra.strs
		enums["x"] = extra.enumValues
	}

	// what is asked of Sort
	shape := "plain"
	switch x := r.Intn(20); {
	case x == 0:
		shape = "no-orders"
		orders = nil
	case x == 1:
		shape = "unknown-column"
		pos := r.Intn(len(orders) + 1)
		bad := qframe.Order{Column: []string{"nope", "", "K0", "k0 "}[r.Intn(4)], Reverse: r.Bool(), NullLast: r.Bool()}
		orders = append(orders[:pos:pos], append([]qframe.Order{bad}, orders[pos:]...)...)
	case x == 2:
		shape = "repeated-column" // the same column again with other flags: the first occurrence decides
		o := orders[r.Intn(len(orders))]
		o.Reverse, o.NullLast = !o.Reverse, r.Bool()
		orders = append(orders, o)
	case x == 3:
		shape = "non-key-columns" // order by the extra column and the row id
		orders = []qframe.Order{{Column: "x", Reverse: r.Bool(), NullLast: r.Bool()}, {Column: "rowid", Reverse: r.Bool()}}
	case x == 4:
		shape = "err-receiver"
	case x == 5:
		shape = "no-columns" // Select() gives the frame without columns and rows: every order is unknown
	}

	id := s.NextID()
	desc := map[string]interface{}{"family": "frame", "rows": n, "shape": shape, "orders": ordersDesc(orders),
		"keys": keysDesc(keys, n <= 48), "extra": extra.desc(n <= 48)}
	var hist []string
	var inDump, outDump qframe.VerifFrame
	var errText string
	p, v := hlib.Recover(func() {
		qf := qframe.New(data, newqf.ColumnOrder(names...), newqf.Enums(enums))
		if qf.Err != nil {
			errText = "New: " + qf.Err.Error()
			return
		}
		// the frame is sorted "however derived": index and column structure
		steps := r.Intn(4)
		for i := 0; i < steps; i++ {
			switch r.Intn(9) {
			case 8: // a name selected twice: the slice holds the column twice, the by-name map its last position
				dup := names[1+r.Intn(len(names)-1)]
				sel := append(append([]string{}, names...), dup)
				qf = qf.Select(sel...)
				hist = append(hist, "select("+strings.Join(sel, ",")+")")
				if r.Bool() { // ... and the last one replaced: the two columns of that name now differ
					src := names[r.Intn(len(names))]
					qf = qf.Copy(dup, src)
					hist = append(hist, "copy("+dup+"<-"+src+")")
				}
			case 0:
				qf = qf.Sort(qframe.Order{Column: "rowid", Reverse: true})
				hist = append(hist, "sort(rowid desc)")
			case 1:
				o := qframe.Order{Column: names[1+r.Intn(len(names)-1)], Reverse: r.Bool(), NullLast: r.Bool()}
				qf = qf.Sort(o)
				hist = append(hist, "sort("+ordersDesc([]qframe.Order{o})+")")
			case 2:
				l := qf.Len()
				if l > 2 {
					a := r.Intn(l / 2)
					b := l - r.Intn(l/2)
					qf = qf.Slice(a, b)
					hist = append(hist, fmt.Sprintf("slice(%d,%d)", a, b))
				}
			case 3:
				cnt := 0
				m := 2 + r.Intn(3)
				qf = qf.Filter(qframe.Filter{Column: "rowid", Comparator: func(int) bool { cnt++; return cnt%m != 0 }})
				hist = append(hist, fmt.Sprintf("filter(drop every %d.)", m))
			case 4:
				c := names[1+r.Intn(len(names)-1)]
				qf = qf.Distinct(groupby.Columns(c), groupby.Null(r.Bool()))
				hist = append(hist, "distinct("+c+")")
			case 5: // another column order (the by-name map is rebuilt)
				p := r.Perm(len(names))
				sel := make([]string, len(names))
				for i, j := range p {
					sel[i] = names[j]
				}
				qf = qf.Select(sel...)
				hist = append(hist, "select("+strings.Join(sel, ",")+")")
			case 6: // a key column replaced in place by a copy of another column of the frame
				src := names[r.Intn(len(names))]
				dst := names[1+r.Intn(len(names)-1)]
				qf = qf.Copy(dst, src)
				hist = append(hist, "copy("+dst+"<-"+src+")")
			case 7: // appended copy, then the original dropped: positions shift
				qf = qf.Copy("zz", "rowid").Drop("zz")
				hist = append(hist, "copy+drop")
			}
			if qf.Err != nil {
				errText = "derive: " + qf.Err.Error()
				return
			}
		}
		if shape == "no-columns" {
			qf = qf.Select()
			if r.Bool() {
				orders = nil
			}
		}
		if shape == "err-receiver" {
			qf = qf.Select("does-not-exist")
			if qf.Err == nil {
				errText = "harness: Select of an unknown column gave no error"
				return
			}
		}
		inDump = qframe.VerifDump(qf)
		before := coqDump(inDump)
		sorted := qf.Sort(orders...)
		outDump = qframe.VerifDump(sorted)
		if after := coqDump(qframe.VerifDump(qf)); after != before {
			errText = "Sort modified its receiver"
			return
		}
		if sorted.Err == nil {
			if msg := byNameOK(outDump); msg != "" {
				errText = "result of Sort: " + msg
				return
			}
		}
		if inDump.HasErr == false {
			if msg := byNameOK(inDump); msg != "" {
				errText = "receiver: " + msg
			}
		}
	})
	desc["history"] = hist
	s.Count("frame")
	s.Count("frame-shape:" + shape)
	if len(hist) == 0 {
		s.Count("frame-index:as built")
	} else {
		s.Count("frame-index:derived")
	}
	if p {
		s.Fail(id, fmt.Sprintf("QFrame.Sort (or the derivation before it) panicked: %v", v), desc, "")
		return
	}
	if errText != "" {
		s.Fail(id, errText, desc, "")
		return
	}
	m := len(inDump.Index)
	exact := m <= exactLimit(tier)
	s.Count(fmt.Sprintf("keys=%d", len(orders)))
	countSize(s, m, exact)
	if outDump.HasErr {
		s.Count("frame-result:Err")
	} else {
		s.Count("frame-result:ok")
	}
	for _, k := range keys {
		s.Count(fmt.Sprintf("key:%s rev=%v nullLast=%v", kindNames[k.kind], k.reverse, k.nullLast))
	}
	s.Add(fmt.Sprintf("SFrame %s %s %s %s", hlib.Bool(exact), coqDump(inDump), coqOrders(orders), coqDump(outDump)), desc,
		m >= 2 || outDump.HasErr)
}
