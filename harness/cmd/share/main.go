// Engine "share" (properties C01, C11): random histories of 1-6 operations on small frames.
//
// After every operation
//   - the hook VerifShare / VerifGrouperIndices reports identity, len and cap of the index array,
//     header slice, by-name map and column storage of every new member of the family; the Coq side
//     (Corr/HeapCorr.v, check_share) replays the history with the L1 programs of Model/HeapOps.v and
//     must predict the same sharing structure (code 1 otherwise);
//   - EVERY earlier member of the family (frames, groupers) is re-digested (Len, names, types, all
//     cells through the views, Err) and compared with its digest at creation: a change is a direct
//     counterexample to C01 and is reported with Suite.Fail.
package main

import (
	"fmt"
	"math"
	"os"
	"sort"
	"strings"

	"github.com/tobgu/qframe"
	"github.com/tobgu/qframe/config/groupby"
	"github.com/tobgu/qframe/config/newqf"
	"github.com/tobgu/qframe/types"
	"verifharness/hlib"
)

type member struct {
	isG    bool
	qf     qframe.QFrame
	g      qframe.Grouper
	digest string
	desc   string
}

// ---------------------------------------------------------------- digests (the C01 observation)

// digestFrame is total: a frame whose header slice and by-name map disagree (possible after
// Select with a repeated name or an Aggregate whose As clashes) makes a Must*View panic; that is
// not C01's concern, the digest then records the panic text, which is as stable as the frame.
func digestFrame(qf qframe.QFrame) (out string) {
	defer func() {
		if p := recover(); p != nil {
			out = fmt.Sprintf("inconsistent frame: %v", p)
			inconsistent++
		}
	}()
	return digestFrame0(qf)
}

var inconsistent int

func digestFrame0(qf qframe.QFrame) string {
	var b strings.Builder
	fmt.Fprintf(&b, "len=%d err=%v;", qf.Len(), qf.Err != nil)
	names := qf.ColumnNames()
	typs := qf.ColumnTypes()
	n := qf.Len()
	for i, name := range names {
		fmt.Fprintf(&b, "%q:%s[", name, typs[i])
		if qf.Err == nil {
			switch typs[i] {
			case types.Int:
				v := qf.MustIntView(name)
				for j := 0; j < n; j++ {
					fmt.Fprintf(&b, "%d,", v.ItemAt(j))
				}
			case types.Float:
				v := qf.MustFloatView(name)
				for j := 0; j < n; j++ {
					x := v.ItemAt(j)
					if math.IsNaN(x) {
						b.WriteString("nan,")
					} else {
						fmt.Fprintf(&b, "%x,", math.Float64bits(x))
					}
				}
			case types.Bool:
				v := qf.MustBoolView(name)
				for j := 0; j < n; j++ {
					fmt.Fprintf(&b, "%v,", v.ItemAt(j))
				}
			case types.String:
				v := qf.MustStringView(name)
				for j := 0; j < n; j++ {
					if p := v.ItemAt(j); p == nil {
						b.WriteString("null,")
					} else {
						fmt.Fprintf(&b, "%q,", *p)
					}
				}
			case types.Enum:
				v := qf.MustEnumView(name)
				for j := 0; j < n; j++ {
					if p := v.ItemAt(j); p == nil {
						b.WriteString("null,")
					} else {
						fmt.Fprintf(&b, "%q,", *p)
					}
				}
			}
		}
		b.WriteString("]")
	}
	return b.String()
}

func digestGrouper(g qframe.Grouper) string {
	fs, err := g.QFrames()
	if err != nil {
		return "gerr"
	}
	parts := make([]string, len(fs))
	for i, f := range fs {
		parts[i] = digestFrame(f)
	}
	return "g{" + strings.Join(parts, "|") + "}"
}

func (m *member) redigest() string {
	if m.isG {
		return digestGrouper(m.g)
	}
	return digestFrame(m.qf)
}

// ---------------------------------------------------------------- canonical identities

type ckey struct {
	kind int
	addr uintptr
}
type canon struct{ ids map[ckey]int }

func (c *canon) id(kind int, addr uintptr) int {
	if addr == 0 {
		return 0
	}
	k := ckey{kind, addr}
	if v, ok := c.ids[k]; ok {
		return v
	}
	v := len(c.ids) + 1
	c.ids[k] = v
	return v
}

func slot(id, ln, cp int) string {
	return fmt.Sprintf("(%s, %s, %s)", hlib.N(uint64(id)), hlib.Nat(ln), hlib.Nat(cp))
}

var tyCode = map[string]int{"int": 0, "float": 1, "bool": 2, "string": 3, "enum": 4}

func (c *canon) sliceSlot(kind int, s qframe.ShareSlice) string {
	if s.Cap == 0 {
		return slot(0, s.Len, 0)
	}
	return slot(c.id(kind, s.End), s.Len, s.Cap)
}

func (c *canon) obsFrame(qf qframe.QFrame) string {
	info := qframe.VerifShare(qf)
	idx := c.sliceSlot(0, info.Index)
	hdr := c.sliceSlot(1, info.Columns)
	mp := c.id(2, info.Map)
	cols := make([]string, len(info.Cols))
	for i, col := range info.Cols {
		parts := []string{}
		for j := 0; j+1 < len(col.Data); j += 2 {
			if col.Type == "string" && j > 0 {
				break // the blob is allocated together with the pointer array; its length is data dependent
			}
			parts = append(parts, hlib.Pair(hlib.N(uint64(c.id(3, col.Data[j]))), hlib.Nat(int(col.Data[j+1]))))
		}
		cols[i] = fmt.Sprintf("(%s, %s, %s)", hlib.Str(col.Name), hlib.N(uint64(tyCode[col.Type])), hlib.List(parts))
	}
	return fmt.Sprintf("MF %s %s %s %s %s", idx, hdr, hlib.N(uint64(mp)), hlib.List(cols), hlib.Bool(info.Err))
}

func sortedGroups(g qframe.Grouper) []qframe.ShareSlice {
	gs := qframe.VerifGrouperIndices(g)
	sort.SliceStable(gs, func(i, j int) bool { return first(gs[i]) < first(gs[j]) })
	return gs
}

func first(s qframe.ShareSlice) int64 {
	if len(s.Vals) == 0 {
		return 0
	}
	return int64(s.Vals[0])
}

func (c *canon) obsGrouper(g qframe.Grouper) string {
	gs := sortedGroups(g)
	items := make([]string, len(gs))
	for i, s := range gs {
		items[i] = hlib.Pair(hlib.Z(first(s)), c.sliceSlot(0, s))
	}
	h, m, e := qframe.VerifGrouperHeader(g)
	return fmt.Sprintf("MG %s %s %s %s", hlib.List(items), c.sliceSlot(1, h), hlib.N(uint64(c.id(2, m))), hlib.Bool(e))
}

// ---------------------------------------------------------------- generators

type gen struct {
	r *hlib.Rng
	s *hlib.Suite
}

func strList(v []string) string {
	it := make([]string, len(v))
	for i, x := range v {
		it[i] = hlib.Str(x)
	}
	return hlib.List(it)
}

func optStr(s string) string {
	if s == "" {
		return "None"
	}
	return hlib.Some(hlib.Str(s))
}

func rowsOf(qf qframe.QFrame) []string {
	vals := qframe.VerifShare(qf).Index.Vals
	it := make([]string, len(vals))
	for i, v := range vals {
		it[i] = hlib.Z(int64(v))
	}
	return it
}

func (g *gen) pickCol(names []string, extra bool) string {
	if extra && g.r.Chance(1, 8) {
		return "NOPE"
	}
	if len(names) == 0 {
		return "A"
	}
	return names[g.r.Intn(len(names))]
}

// a leaf filter on qf: the Go clause, its Coq term and a description
func (g *gen) leaf(qf qframe.QFrame) (qframe.FilterClause, string, string) {
	names := qf.ColumnNames()
	tm := qf.ColumnTypeMap()
	col := g.pickCol(names, true)
	inverse := g.r.Chance(1, 3)
	f := qframe.Filter{Column: col, Inverse: inverse}
	kind := 0
	bad := false
	argCol := ""
	var invComp interface{}
	switch tm[col] {
	case types.Int, types.Float:
		switch g.r.Intn(6) {
		case 0:
			f.Comparator, f.Arg = ">", g.r.Intn(5)
		case 1:
			f.Comparator, f.Arg = "<=", g.r.Intn(5)
		case 2:
			f.Comparator, f.Arg, kind, invComp = "=", g.r.Intn(4), 1, "!="
		case 3:
			f.Comparator, f.Arg = "!=", g.r.Intn(4)
		case 4:
			// column-column comparison with a column of the same type (or a missing one)
			other := ""
			for _, n := range names {
				if n != col && tm[n] == tm[col] {
					other = n
				}
			}
			if other == "" {
				other = "MISSING"
			}
			argCol = other
			f.Comparator, f.Arg = "<", types.ColumnName(other)
		default:
			if tm[col] == types.Int {
				f.Comparator, kind = func(x int) bool { return x%2 == 0 }, 3
			} else {
				f.Comparator, kind = func(x float64) bool { return x > 1 }, 3
			}
		}
	case types.String, types.Enum:
		switch g.r.Intn(4) {
		case 0:
			f.Comparator, f.Arg, kind = "ilike", "%a%", 2
		case 1:
			f.Comparator, f.Arg = "like", "a%"
		case 2:
			f.Comparator, f.Arg, kind, invComp = "=", "ab", 1, "!="
		default:
			f.Comparator, f.Arg = "<", "b"
		}
		if tm[col] == types.Enum && kind == 2 {
			kind = 0 // the enum column matches the value table once, outside the row loop
		}
	case types.Bool:
		f.Comparator, f.Arg, kind, invComp = "=", g.r.Bool(), 1, "!="
	default:
		f.Comparator, f.Arg = ">", 1
	}
	if g.r.Chance(1, 12) {
		f.Comparator, kind, bad, invComp = "foo", 0, true, nil
	}
	// oracle: the physical rows of qf that satisfy the comparator / its built-in inverse
	plain := f
	plain.Inverse = false
	plainRes := qf.Filter(plain)
	if plainRes.Err != nil && qf.Contains(col) && (argCol == "" || qf.Contains(argCol)) {
		bad = true // the column's Filter rejects the comparator / argument type
	}
	sat := rowsOf(plainRes)
	satInv := []string{}
	if invComp != nil {
		inv := plain
		inv.Comparator = invComp
		satInv = rowsOf(qf.Filter(inv))
	}
	term := fmt.Sprintf("SCLeaf (SLeaf %s %s %s %s %s %s %s)", hlib.Str(col), optStr(argCol), hlib.Bool(inverse),
		hlib.N(uint64(kind)), hlib.Bool(bad), hlib.List(sat), hlib.List(satInv))
	return f, term, fmt.Sprintf("{%s %v %v inv=%v}", col, f.Comparator, f.Arg, inverse)
}

func (g *gen) clause(qf qframe.QFrame, depth int) (qframe.FilterClause, string, string) {
	k := g.r.Intn(10)
	if depth <= 0 || k < 4 {
		return g.leaf(qf)
	}
	switch {
	case k < 6:
		n := g.r.Intn(3) // And() with no sub-clause returns the frame itself
		cs := make([]qframe.FilterClause, n)
		ts := make([]string, n)
		ds := make([]string, n)
		cur := qf
		for i := range cs {
			cs[i], ts[i], ds[i] = g.clause(cur, depth-1)
			cur = cur.Filter(cs[i]) // the oracle of the next sub-clause is taken on the narrowed frame
			if cur.Err != nil {
				cur = qf
			}
		}
		return qframe.And(cs...), "SCAnd " + hlib.List(ts), "And(" + strings.Join(ds, ",") + ")"
	case k < 8:
		n := 1 + g.r.Intn(3)
		cs := make([]qframe.FilterClause, n)
		ts := make([]string, n)
		ds := make([]string, n)
		for i := range cs {
			cs[i], ts[i], ds[i] = g.clause(qf, depth-1)
		}
		return qframe.Or(cs...), "SCOr " + hlib.List(ts), "Or(" + strings.Join(ds, ",") + ")"
	case k < 9:
		c, t, d := g.clause(qf, depth-1)
		return qframe.Not(c), "SCNot (" + t + ")", "Not(" + d + ")"
	default:
		return qframe.Null(), "SCNull", "Null"
	}
}

// an Apply instruction on qf; an instruction the column code rejects (function type does not fit
// the column type) is marked as kind 3
func (g *gen) instr(qf qframe.QFrame) (qframe.Instruction, string, string) {
	in, term, desc := g.instr0(qf)
	if qf.Err == nil && qf.Apply(in).Err != nil {
		f := strings.Fields(term) // SI kind rty dst src1 src2
		f[1] = "3"
		term = strings.Join(f, " ")
	}
	return in, term, desc
}

func (g *gen) instr0(qf qframe.QFrame) (qframe.Instruction, string, string) {
	names := qf.ColumnNames()
	tm := qf.ColumnTypeMap()
	dst := []string{"A", "B", "X", "Y"}[g.r.Intn(4)]
	switch g.r.Intn(4) {
	case 0: // constant
		return qframe.Instruction{Fn: 7, DstCol: dst},
			fmt.Sprintf("SI 1 0 %s None None", hlib.Str(dst)), "const->" + dst
	case 1: // column name
		src := g.pickCol(names, true)
		return qframe.Instruction{Fn: types.ColumnName(src), DstCol: dst},
			fmt.Sprintf("SI 2 0 %s %s None", hlib.Str(dst), optStr(src)), "col " + src + "->" + dst
	case 2: // two int columns
		var ints []string
		for _, n := range names {
			if tm[n] == types.Int {
				ints = append(ints, n)
			}
		}
		if len(ints) >= 1 {
			a, b := ints[g.r.Intn(len(ints))], ints[g.r.Intn(len(ints))]
			return qframe.Instruction{Fn: func(x, y int) int { return x + y }, DstCol: dst, SrcCol1: a, SrcCol2: b},
				fmt.Sprintf("SI 0 0 %s %s %s", hlib.Str(dst), optStr(a), optStr(b)), a + "+" + b + "->" + dst
		}
		fallthrough
	default: // one column, function of its type
		src := g.pickCol(names, true)
		var fn interface{}
		rty := 0
		switch tm[src] {
		case types.Int:
			if g.r.Bool() {
				fn = func(x int) int { return x + 1 }
			} else {
				fn, rty = func(x int) *string { s := fmt.Sprint(x); return &s }, 3
			}
		case types.Float:
			fn, rty = func(x float64) float64 { return x * 2 }, 1
		case types.Bool:
			fn, rty = func(x bool) bool { return !x }, 2
		case types.String, types.Enum:
			fn, rty = func(x *string) int {
				if x == nil {
					return -1
				}
				return len(*x)
			}, 0
		default:
			fn = func(x int) int { return x }
		}
		return qframe.Instruction{Fn: fn, DstCol: dst, SrcCol1: src},
			fmt.Sprintf("SI 0 %d %s %s None", rty, hlib.Str(dst), optStr(src)), "f(" + src + ")->" + dst
	}
}

func (g *gen) names(qf qframe.QFrame, max int) []string {
	all := qf.ColumnNames()
	n := g.r.Intn(max + 1)
	out := []string{}
	for i := 0; i < n; i++ {
		out = append(out, g.pickCol(all, true))
	}
	return out
}

// group key oracle: physical row -> group number, taken from GroupBy's own result
func keyOracle(qf qframe.QFrame, cols []string) string {
	gr := qf.GroupBy(groupby.Columns(cols...))
	if gr.Err != nil {
		return "[]"
	}
	items := []string{}
	for gi, s := range qframe.VerifGrouperIndices(gr) {
		for _, v := range s.Vals {
			items = append(items, hlib.Pair(hlib.Z(int64(v)), hlib.Z(int64(gi))))
		}
	}
	return hlib.List(items)
}

// key oracle for Distinct: physical row -> rank of its group in the order Distinct returned the
// groups' representatives (the output order of Distinct is unspecified - hash order, random for
// nulls - so the model is told the order instead of guessing it)
func distinctOracle(qf qframe.QFrame, cols []string, result qframe.QFrame) string {
	gr := qf.GroupBy(groupby.Columns(cols...))
	if gr.Err != nil || result.Err != nil {
		return "[]"
	}
	rank := map[uint32]int{}
	for i, v := range qframe.VerifShare(result).Index.Vals {
		rank[v] = i
	}
	items := []string{}
	for _, s := range qframe.VerifGrouperIndices(gr) {
		if len(s.Vals) == 0 {
			continue
		}
		rk, ok := rank[s.Vals[0]]
		if !ok {
			rk = len(rank) // cannot happen: Distinct keeps the first row of every group
		}
		for _, v := range s.Vals {
			items = append(items, hlib.Pair(hlib.Z(int64(v)), hlib.Z(int64(rk))))
		}
	}
	return hlib.List(items)
}

func initialFrame(r *hlib.Rng) (qframe.QFrame, []string) {
	rows := []int{0, 1, 2, 3, 4, 5, 6, 8}[r.Intn(8)]
	data := map[string]interface{}{}
	order := []string{}
	strs := []string{"a", "ab", "b", "Ba", "c"}
	add := func(name string, v interface{}) { data[name] = v; order = append(order, name) }
	ints := func() []int {
		v := make([]int, rows)
		for i := range v {
			v[i] = r.Intn(4)
		}
		return v
	}
	add("A", ints())
	if r.Chance(2, 3) {
		add("B", ints())
	}
	if r.Chance(1, 3) {
		v := make([]float64, rows)
		for i := range v {
			v[i] = float64(r.Intn(4))
			if r.Chance(1, 8) {
				v[i] = math.NaN()
			}
		}
		add("F", v)
	}
	if r.Chance(1, 3) {
		v := make([]bool, rows)
		for i := range v {
			v[i] = r.Bool()
		}
		add("O", v)
	}
	enum := false
	if r.Chance(1, 2) {
		v := make([]*string, rows)
		for i := range v {
			if !r.Chance(1, 8) {
				s := strs[r.Intn(len(strs))]
				v[i] = &s
			}
		}
		add("S", v)
	}
	if r.Chance(1, 3) {
		v := make([]*string, rows)
		for i := range v {
			if !r.Chance(1, 8) {
				s := strs[r.Intn(len(strs))]
				v[i] = &s
			}
		}
		add("E", v)
		enum = true
	}
	sort.Strings(order)
	opts := []newqf.ConfigFunc{newqf.ColumnOrder(order...)}
	if enum {
		opts = append(opts, newqf.Enums(map[string][]string{"E": nil}))
	}
	return qframe.New(data, opts...), order
}

func main() {
	cfg := hlib.ParseFlags()
	s := hlib.NewSuite(cfg, "share")
	defer s.FinishOnPanic()
	s.Header = "From QF Require Import Base.Prelude Base.CaseLib Model.Heap Model.HeapOps Corr.HeapCorr.\nLocal Open Scope N_scope.\n"
	s.CaseType = "share_case"
	s.CheckFn = "check_share"
	s.PerShard = 40
	s.Rule = "histories of 1-6 operations (Slice, Sort, Filter trees, Copy, Select, Drop, Apply, WithRowNums, FilteredApply, Eval, Distinct, GroupBy, Aggregate, QFrames) on frames of 0-8 rows with int/float/bool/string/enum columns, each applied to a random earlier member; non-trivial = at least one operation produced a member without error; every earlier member is re-digested after every step"
	root := hlib.NewRng(cfg.Seed).Fork()

	for ci := 0; ci < cfg.N; ci++ {
		r := root.Fork()
		g := &gen{r: r, s: s}
		q0, _ := initialFrame(r)
		if q0.Err != nil {
			panic(q0.Err)
		}
		cn := &canon{ids: map[ckey]int{}}
		info0 := qframe.VerifShare(q0)
		colSpec := make([]string, len(info0.Cols))
		for i, c := range info0.Cols {
			lens := []string{}
			for j := 1; j < len(c.Data); j += 2 {
				lens = append(lens, hlib.Nat(int(c.Data[j])))
			}
			colSpec[i] = fmt.Sprintf("(%s, %s, %s)", hlib.Str(c.Name), hlib.N(uint64(tyCode[c.Type])), hlib.List(lens))
		}
		rows := len(info0.Index.Vals)
		obs0 := cn.obsFrame(q0)
		fam := []*member{{qf: q0, digest: digestFrame(q0), desc: "init " + digestFrame(q0)}}
		nsteps := 1 + r.Intn(6)
		steps := []string{}
		descs := []string{fam[0].desc}
		nontrivial := false
		caseID := s.NextID()
		failed := false

		for si := 0; si < nsteps && !failed; si++ {
			ri := r.Intn(len(fam))
			recv := fam[ri]
			var news []*member
			var opTerm, opDesc string
			panicked, pv := hlib.Recover(func() {
				if recv.isG {
					if r.Chance(1, 2) {
						aggs := []qframe.Aggregation{}
						ats := []string{}
						na := 1 + r.Intn(2)
						for i := 0; i < na; i++ {
							col := g.pickCol([]string{"A", "B"}, true)
							as := []string{"", "cnt", "A"}[r.Intn(3)]
							if r.Bool() {
								aggs = append(aggs, qframe.Aggregation{Fn: "count", Column: col, As: as})
								ats = append(ats, fmt.Sprintf("(true, %s, %s, 0)", hlib.Str(col), hlib.Str(as)))
							} else {
								sum := func(x []int) int {
									t := 0
									for _, v := range x {
										t += v
									}
									return t
								}
								aggs = append(aggs, qframe.Aggregation{Fn: sum, Column: col, As: as})
								rty := 0
								if recv.g.Err == nil && recv.g.Aggregate(qframe.Aggregation{Fn: sum, Column: col, As: "\xffprobe"}).Err != nil {
									rty = 9 // the column rejects the function (or does not exist)
								}
								ats = append(ats, fmt.Sprintf("(false, %s, %s, %d)", hlib.Str(col), hlib.Str(as), rty))
							}
						}
						res := recv.g.Aggregate(aggs...)
						news = []*member{{qf: res}}
						opTerm, opDesc = "SAggregate "+hlib.List(ats), fmt.Sprintf("Aggregate%v", ats)
						s.Count("Aggregate")
					} else {
						fs, err := recv.g.QFrames()
						if err == nil {
							sort.SliceStable(fs, func(i, j int) bool {
								return first(qframe.VerifShare(fs[i]).Index) < first(qframe.VerifShare(fs[j]).Index)
							})
							for _, f := range fs {
								news = append(news, &member{qf: f})
							}
						}
						opTerm, opDesc = "SQFrames", "QFrames"
						s.Count("QFrames")
					}
					return
				}
				qf := recv.qf
				one := func(res qframe.QFrame) { news = []*member{{qf: res}} }
				switch k := r.Intn(14); k {
				case 0:
					n := qf.Len()
					a, b := r.Intn(n+2)-1+0, r.Intn(n+2)
					if r.Chance(3, 4) && n > 0 {
						a = r.Intn(n + 1)
						b = a + r.Intn(n-a+1)
					}
					one(qf.Slice(a, b))
					opTerm, opDesc = fmt.Sprintf("SSlice %s %s", hlib.Z(int64(a)), hlib.Z(int64(b))), fmt.Sprintf("Slice(%d,%d)", a, b)
					s.Count("Slice")
				case 1:
					ns := g.names(qf, 2)
					os := make([]qframe.Order, len(ns))
					for i, n := range ns {
						os[i] = qframe.Order{Column: n, Reverse: r.Bool()}
					}
					sorted := qf.Sort(os...)
					one(sorted)
					// oracle for the comparisons: the physical rows in the order Go sorted them
					opTerm, opDesc = "SSort "+strList(ns)+" "+hlib.List(rowsOf(sorted)), fmt.Sprintf("Sort%v", ns)
					s.Count("Sort")
				case 2, 3:
					c, t, d := g.clause(qf, 2)
					one(qf.Filter(c))
					opTerm, opDesc = "SFilter ("+t+")", "Filter "+d
					s.Count("Filter")
				case 4:
					dst, src := []string{"A", "B", "X"}[r.Intn(3)], g.pickCol(qf.ColumnNames(), true)
					one(qf.Copy(dst, src))
					opTerm, opDesc = fmt.Sprintf("SCopy %s %s", hlib.Str(dst), hlib.Str(src)), "Copy "+dst+"<-"+src
					s.Count("Copy")
				case 5:
					ns := g.names(qf, 3)
					one(qf.Select(ns...))
					opTerm, opDesc = "SSelect "+strList(ns), fmt.Sprintf("Select%v", ns)
					s.Count("Select")
				case 6:
					ns := g.names(qf, 2)
					one(qf.Drop(ns...))
					opTerm, opDesc = "SDrop "+strList(ns), fmt.Sprintf("Drop%v", ns)
					s.Count("Drop")
				case 7:
					n := 1 + r.Intn(2)
					ins := make([]qframe.Instruction, n)
					ts := make([]string, n)
					ds := make([]string, n)
					cur := qf
					for i := range ins {
						ins[i], ts[i], ds[i] = g.instr(cur)
						cur = cur.Apply(ins[i])
					}
					one(qf.Apply(ins...))
					opTerm, opDesc = "SApply "+hlib.List(ts), "Apply "+strings.Join(ds, ";")
					s.Count("Apply")
				case 8:
					name := []string{"A", "N"}[r.Intn(2)]
					one(qf.WithRowNums(name))
					opTerm, opDesc = "SRowNums "+hlib.Str(name), "WithRowNums "+name
					s.Count("WithRowNums")
				case 9:
					c, t, d := g.clause(qf, 1)
					in, it, id := g.instr(qf)
					one(qf.FilteredApply(c, in))
					opTerm, opDesc = fmt.Sprintf("SFApply (%s) [%s]", t, it), "FilteredApply "+d+" "+id
					s.Count("FilteredApply")
				case 10:
					a, b := g.pickCol([]string{"A", "B"}, true), g.pickCol([]string{"A", "B"}, false)
					dst := []string{"A", "X"}[r.Intn(2)]
					res := qf.Eval(dst, qframe.Expr("+", types.ColumnName(a), types.ColumnName(b)))
					one(res)
					// the temporary column of the col-col expression: present after Apply, dropped by Eval
					tmp := "\xfftmp"
					// the built-in "+" exists for int, float and string columns; anything else is rejected
					kind, rty := 0, 0
					if qf.Err == nil && res.Err != nil {
						kind = 3
					} else if res.Err == nil {
						rty = tyCode[string(res.ColumnTypeMap()[dst])]
					}
					opTerm = fmt.Sprintf("SEval %s [SI %d %d %s %s %s] %s true", hlib.Str(dst), kind, rty, hlib.Str(tmp), optStr(a), optStr(b), hlib.Str(tmp))
					opDesc = "Eval " + dst + "=" + a + "+" + b
					s.Count("Eval")
				case 11:
					ns := g.names(qf, 2)
					dres := qf.Distinct(groupby.Columns(ns...))
					one(dres)
					cols := ns
					if len(cols) == 0 {
						cols = qf.ColumnNames()
					}
					opTerm, opDesc = fmt.Sprintf("SDistinct %s %s", strList(ns), distinctOracle(qf, cols, dres)), fmt.Sprintf("Distinct%v", ns)
					s.Count("Distinct")
				default:
					ns := g.names(qf, 2)
					gr := qf.GroupBy(groupby.Columns(ns...))
					news = []*member{{isG: true, g: gr}}
					opTerm, opDesc = fmt.Sprintf("SGroupBy %s %s", strList(ns), keyOracle(qf, ns)), fmt.Sprintf("GroupBy%v", ns)
					s.Count("GroupBy")
				}
			})
			descs = append(descs, fmt.Sprintf("#%d.%s", ri, opDesc))
			if panicked {
				s.Fail(caseID, fmt.Sprintf("panic in step %d: %v", si, pv), descs, "panic")
				failed = true
				break
			}
			obs := make([]string, len(news))
			for i, m := range news {
				if m.isG {
					obs[i] = cn.obsGrouper(m.g)
					m.digest = digestGrouper(m.g)
					if m.g.Err == nil {
						nontrivial = true
					}
				} else {
					obs[i] = cn.obsFrame(m.qf)
					m.digest = digestFrame(m.qf)
					if m.qf.Err == nil {
						nontrivial = true
					}
				}
			}
			steps = append(steps, fmt.Sprintf("(%s, %s, %s)", hlib.Nat(ri), opTerm, hlib.List(obs)))
			// C01, directly: every earlier member still shows what it showed when it was created
			for mi, m := range fam {
				if d := m.redigest(); d != m.digest {
					s.Fail(caseID, fmt.Sprintf("member %d changed after step %d (%s): was %s now %s", mi, si, opDesc, m.digest, d), descs, "persistence")
					failed = true
				}
			}
			fam = append(fam, news...)
		}
		if inconsistent > 0 {
			s.Count("inconsistent-header-vs-map")
			inconsistent = 0
			fmt.Fprintf(os.Stderr, "share: case %d contains a frame whose ColumnTypes and views disagree: %v\n", caseID, descs)
		}
		term := fmt.Sprintf("mkShare %s %s (%s) %s", hlib.List(colSpec), hlib.Nat(rows), obs0, hlib.List(steps))
		s.Add(term, descs, nontrivial)
	}
	s.Finish()
}
