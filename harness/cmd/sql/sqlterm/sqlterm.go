// Package sqlterm prints the Coq terms of Model/Sql.v (driver values, frames, configurations,
// result sets, observations) for the engines "sql" and "iofault".
package sqlterm

import (
	"database/sql/driver"
	"fmt"
	"math"

	"github.com/tobgu/qframe"
	"verifharness/hlib"
)

// DVal prints a driver value as a Coq dval.
func DVal(v driver.Value) string {
	switch t := v.(type) {
	case nil:
		return "DNull"
	case int64:
		return "(DInt " + hlib.Z(t) + ")"
	case float64:
		return "(DFloat " + hlib.NHex(math.Float64bits(t)) + ")"
	case bool:
		return "(DBool " + hlib.Bool(t) + ")"
	case string:
		return "(DStr " + hlib.Str(t) + ")"
	case []byte:
		return "(DBytes " + hlib.Bytes(t) + ")"
	default:
		return "DOther"
	}
}

func DVals(vs []driver.Value) string {
	it := make([]string, len(vs))
	for i, v := range vs {
		it[i] = DVal(v)
	}
	return hlib.List(it)
}

// JSONVal renders a driver value for the readable case description.
func JSONVal(v driver.Value) interface{} {
	switch t := v.(type) {
	case nil:
		return nil
	case float64:
		return fmt.Sprintf("f:%016x", math.Float64bits(t))
	case []byte:
		return "bytes:" + string(t)
	case int64:
		return fmt.Sprintf("i:%d", t)
	case bool, string:
		return t
	default:
		return "other"
	}
}

func JSONRows(rows [][]driver.Value) interface{} {
	out := make([][]interface{}, len(rows))
	for i, r := range rows {
		out[i] = make([]interface{}, len(r))
		for j, v := range r {
			out[i][j] = JSONVal(v)
		}
	}
	return out
}

func strList(ss []string) string {
	it := make([]string, len(ss))
	for i, s := range ss {
		it[i] = hlib.Str(s)
	}
	return hlib.List(it)
}

// StrList prints a list of byte strings.
func StrList(ss []string) string { return strList(ss) }

func floatBits(fs []float64) string {
	it := make([]string, len(fs))
	for i, f := range fs {
		it[i] = hlib.NHex(math.Float64bits(f))
	}
	return hlib.List(it)
}

func optStrs(ss []*string) string {
	it := make([]string, len(ss))
	for i, s := range ss {
		it[i] = hlib.OptStr(s)
	}
	return hlib.List(it)
}

func ints(v []int) string {
	it := make([]string, len(v))
	for i, x := range v {
		it[i] = hlib.Z(int64(x))
	}
	return hlib.List(it)
}

// ColData prints the physical content of a dumped column.
func ColData(c qframe.VerifColumn) string {
	switch c.Kind {
	case "int":
		return "(CInt " + ints(c.Ints) + ")"
	case "float":
		return "(CFloat " + floatBits(c.Floats) + ")"
	case "bool":
		return "(CBool " + hlib.BoolList(c.Bools) + ")"
	case "string":
		return "(CStr " + optStrs(c.Strings) + ")"
	case "enum":
		it := make([]string, len(c.Ranks))
		for i, r := range c.Ranks {
			it[i] = hlib.N(uint64(r))
		}
		return "(CEnum " + hlib.List(it) + " " + strList(c.Values) + ")"
	}
	panic("sqlterm: unknown column kind " + c.Kind)
}

// Cols prints the columns of a dump as list (bytes * coldata).
func Cols(d qframe.VerifFrame) string {
	it := make([]string, len(d.Columns))
	for i, c := range d.Columns {
		it[i] = hlib.Pair(hlib.Str(c.Name), ColData(c))
	}
	return hlib.List(it)
}

// Frame prints a physical dump as a Coq frame.
func Frame(d qframe.VerifFrame) string {
	ix := make([]int, len(d.Index))
	for i, x := range d.Index {
		ix[i] = int(x)
	}
	return "(mkFrame " + Cols(d) + " " + hlib.NatList(ix) + ")"
}

// LogicalCols prints the logical content of a frame (the frame seen through its index) in the
// form the model gives to a frame returned by ReadSQL; enum columns must not occur.
func LogicalCols(qf qframe.QFrame) string {
	d := qframe.VerifDump(qf)
	it := make([]string, len(d.Columns))
	for i, c := range d.Columns {
		var data string
		switch c.Kind {
		case "int":
			v := make([]int, len(d.Index))
			for k, p := range d.Index {
				v[k] = c.Ints[p]
			}
			data = "(CInt " + ints(v) + ")"
		case "float":
			v := make([]float64, len(d.Index))
			for k, p := range d.Index {
				v[k] = c.Floats[p]
			}
			data = "(CFloat " + floatBits(v) + ")"
		case "bool":
			v := make([]bool, len(d.Index))
			for k, p := range d.Index {
				v[k] = c.Bools[p]
			}
			data = "(CBool " + hlib.BoolList(v) + ")"
		case "string":
			v := make([]*string, len(d.Index))
			for k, p := range d.Index {
				v[k] = c.Strings[p]
			}
			data = "(CStr " + optStrs(v) + ")"
		default:
			panic("sqlterm: unexpected column kind in a ReadSQL result: " + c.Kind)
		}
		it[i] = hlib.Pair(hlib.Str(c.Name), data)
	}
	return hlib.List(it)
}

// Coerce describes one CoercePair: Kind 1 = Int64ToBool, 2 = StringToFloat, 0 = the Type left out
// (qsql.CoercePair{Column: name}: config/sql.Coerce stores a nil function for it).
type Coerce struct {
	Column string
	Kind   int
}

// Config is the dialect / reader configuration of a case.
type Config struct {
	Table     string
	Escape    rune
	Incr      bool
	Precision int
	HasCoerce bool // Coerce(...) was given (possibly with no pairs): the map is non-nil
	Coerce    []Coerce
}

func CoerceKind(k int) string {
	if k == 1 {
		return "CoInt64ToBool"
	}
	return "CoStringToFloat"
}

// CoerceEntry prints the function of a map entry as an option coerce_kind (None = no function).
func CoerceEntry(k int) string {
	if k == 0 {
		return "None"
	}
	return "(Some " + CoerceKind(k) + ")"
}

func (c Config) Coq() string {
	co := "None"
	if c.HasCoerce {
		it := make([]string, len(c.Coerce))
		for i, p := range c.Coerce {
			it[i] = hlib.Pair(hlib.Str(p.Column), CoerceEntry(p.Kind))
		}
		co = "(Some " + hlib.List(it) + ")"
	}
	return fmt.Sprintf("(mkCfg %s %s %s %s %s)", hlib.Str(c.Table), hlib.Z(int64(c.Escape)), hlib.Bool(c.Incr), hlib.Z(int64(c.Precision)), co)
}

// ResultSet prints (mkRS names rows).
func ResultSet(names []string, rows [][]driver.Value) string {
	it := make([]string, len(rows))
	for i, r := range rows {
		it[i] = DVals(r)
	}
	return "(mkRS " + strList(names) + " " + hlib.List(it) + ")"
}

// Faults prints (mkFaults prepare query row).
func Faults(prepare, query bool, row int) string {
	r := "None"
	if row >= 0 {
		r = "(Some " + hlib.Nat(row) + ")"
	}
	return fmt.Sprintf("(mkFaults %s %s %s)", hlib.Bool(prepare), hlib.Bool(query), r)
}

// Obs prints the observation of a ReadSQL call.
func Obs(panicked bool, qf qframe.QFrame) string {
	if panicked {
		return "RPanic"
	}
	if qf.Err != nil {
		return "RErr"
	}
	return "(RFrame " + LogicalCols(qf) + ")"
}
