// Package fakedb is a recording in-memory database/sql/driver used by the engines "sql" and
// "iofault".  It has no SQL parser: every Exec is recorded (text + arguments as the driver
// receives them) and, when Store is set, its argument list is appended as a row to the canned
// result set; every Query is answered with the canned result set (Cols, Rows).  Faults can be
// injected at Prepare, Query, before delivering row k (Rows.Next returns an error), at Exec
// number k, and a value of a type that Column.Scan does not accept can be planted in a row.
package fakedb

import (
	"database/sql"
	"database/sql/driver"
	"errors"
	"fmt"
	"io"
	"sync"
	"time"
)

// ErrInjected is the error returned at every injected fault.
var ErrInjected = errors.New("fakedb: injected fault")

// Stmt is one statement received through Exec.
type Stmt struct {
	Text   string
	Args   []driver.Value
	Failed bool // the driver answered this Exec with ErrInjected
}

// DB is the state of one fake database.
type DB struct {
	mu sync.Mutex

	Log   []Stmt           // every Exec that reached the driver, in order
	Cols  []string         // result set: column names
	Rows  [][]driver.Value // result set: rows
	Store bool             // successful Execs append their arguments to Rows

	FailPrepareQuery bool // Prepare of the statement used for Query fails
	FailQuery        bool // Stmt.Query fails
	FailRow          int  // Rows.Next returns ErrInjected instead of delivering row FailRow (len(Rows): instead of io.EOF); -1 never
	FailExec         int  // Exec number FailExec (0-based) fails; -1 never
	FailExecPrepare  int  // the Prepare that database/sql issues for Exec number k fails; -1 never
	FailBegin        bool

	Prepared  int // number of Prepare calls seen
	Queries   int
	NextCalls int
	execCount int
}

// New returns an empty database without faults.
func New() *DB { return &DB{FailRow: -1, FailExec: -1, FailExecPrepare: -1} }

// Unsupported is a driver value that qframe's Column.Scan rejects (time.Time is a legal driver.Value).
func Unsupported() driver.Value { return time.Unix(0, 0).UTC() }

var (
	regMu    sync.Mutex
	registry = map[string]*DB{}
	regOnce  sync.Once
	counter  int
)

type drv struct{}

func (drv) Open(name string) (driver.Conn, error) {
	regMu.Lock()
	defer regMu.Unlock()
	db, ok := registry[name]
	if !ok {
		return nil, fmt.Errorf("fakedb: unknown database %q", name)
	}
	return &conn{db: db}, nil
}

// Open registers db under a fresh name and returns a *sql.DB on it together with a closer.
func Open(db *DB) (*sql.DB, func()) {
	regOnce.Do(func() { sql.Register("qfake", drv{}) })
	regMu.Lock()
	counter++
	name := fmt.Sprintf("db%d", counter)
	registry[name] = db
	regMu.Unlock()
	h, err := sql.Open("qfake", name)
	if err != nil {
		panic(err)
	}
	return h, func() {
		h.Close()
		regMu.Lock()
		delete(registry, name)
		regMu.Unlock()
	}
}

type conn struct{ db *DB }

// isInsert: the only statements qframe sends through Exec start with "INSERT".
func isInsert(q string) bool { return len(q) >= 6 && q[:6] == "INSERT" }

func (c *conn) Prepare(query string) (driver.Stmt, error) {
	c.db.mu.Lock()
	defer c.db.mu.Unlock()
	c.db.Prepared++
	if isInsert(query) {
		if c.db.FailExecPrepare >= 0 && c.db.execCount == c.db.FailExecPrepare {
			c.db.execCount++
			return nil, ErrInjected
		}
	} else if c.db.FailPrepareQuery {
		return nil, ErrInjected
	}
	return &stmt{db: c.db, text: query}, nil
}
func (c *conn) Close() error { return nil }
func (c *conn) Begin() (driver.Tx, error) {
	if c.db.FailBegin {
		return nil, ErrInjected
	}
	return tx{}, nil
}

type tx struct{}

func (tx) Commit() error   { return nil }
func (tx) Rollback() error { return nil }

type stmt struct {
	db   *DB
	text string
}

func (s *stmt) Close() error  { return nil }
func (s *stmt) NumInput() int { return -1 }

func (s *stmt) Exec(args []driver.Value) (driver.Result, error) {
	s.db.mu.Lock()
	defer s.db.mu.Unlock()
	k := s.db.execCount
	s.db.execCount++
	cp := append([]driver.Value{}, args...)
	for i, a := range cp {
		if b, ok := a.([]byte); ok {
			cp[i] = append([]byte{}, b...)
		}
	}
	if s.db.FailExec >= 0 && k == s.db.FailExec {
		s.db.Log = append(s.db.Log, Stmt{Text: s.text, Args: cp, Failed: true})
		return nil, ErrInjected
	}
	s.db.Log = append(s.db.Log, Stmt{Text: s.text, Args: cp})
	if s.db.Store {
		s.db.Rows = append(s.db.Rows, cp)
	}
	return driver.RowsAffected(1), nil
}

func (s *stmt) Query(args []driver.Value) (driver.Rows, error) {
	s.db.mu.Lock()
	defer s.db.mu.Unlock()
	s.db.Queries++
	if s.db.FailQuery {
		return nil, ErrInjected
	}
	return &rows{db: s.db}, nil
}

type rows struct {
	scratch [][]byte
	db *DB
	i  int
}

func (r *rows) Columns() []string { return r.db.Cols }
func (r *rows) Close() error      { return nil }
func (r *rows) Next(dest []driver.Value) error {
	r.db.mu.Lock()
	defer r.db.mu.Unlock()
	r.db.NextCalls++
	if r.db.FailRow >= 0 && r.i == r.db.FailRow {
		return ErrInjected
	}
	if r.i >= len(r.db.Rows) {
		return io.EOF
	}
	copy(dest, r.db.Rows[r.i])
	// like real drivers, text delivered as []byte lives in a buffer that is reused for the next row: it is only
	// valid until the next call of Next (database/sql hands it to a Scanner unchanged)
	if r.scratch == nil {
		r.scratch = make([][]byte, len(dest))
	}
	for j, v := range dest {
		if b, ok := v.([]byte); ok && j < len(r.scratch) {
			r.scratch[j] = append(r.scratch[j][:0], b...)
			dest[j] = r.scratch[j]
		}
	}
	r.i++
	return nil
}
