// Engine "sql" (property C19): internal/io/sql + qframe.ToSQL / ReadSQL against Model/Sql.v,
// through a recording in-memory database/sql driver (package fakedb).
package main

import (
	"database/sql/driver"
	"fmt"
	"math"
	"strconv"

	"github.com/tobgu/qframe"
	"github.com/tobgu/qframe/config/newqf"
	qsql "github.com/tobgu/qframe/config/sql"
	"github.com/tobgu/qframe/verifhook/sqlhook"
	"verifharness/cmd/sql/fakedb"
	"verifharness/cmd/sql/sqlterm"
	"verifharness/hlib"
)

var namePool = []string{"a", "b", "c", "id", "discount_%", "vat%", "%d", "100%s", "x y", "Col", "ä", "q\"q", "t`t", "a,b", "名", "$x", "", "'q'", "\"quoted\""}
var goodNames = []string{"a", "b", "c", "id", "discount_%", "vat%", "%d", "100%s", "x y", "Col", "ä", "q\"q", "t`t", "a,b", "名", "n1", "n2"}
var tablePool = []string{"t", "my table", "t%v", "50%", "T\"x", "sch.tab", "", "täb"}
var escPool = []rune{0, '"', '`', '\'', '[', 0x20AC, 0x1F600, -1, 0xD800, 0x110000}
var strPool = []string{"", "a", "b", "abc", "x y", "ä", "NULL", "1.5", "it's", "\"", "a\x00b"}
var intPool = []int{0, 1, -1, 2, 7, 42, math.MaxInt64, math.MinInt64, 1 << 53}
var floatPool = []float64{0, math.Copysign(0, -1), 1.5, -2.25, 1e300, 5e-324, math.Inf(1), math.Inf(-1), math.NaN(),
	math.Float64frombits(0x7FF8000000000000), math.Float64frombits(0xFFF0000000000001), 3.14159, 1e17, 123456.789,
	1.0 / 3e6, 1.0 / 3, 1e-9 / 7, 0.001234567890123, -2.0 / 3e9, 8.5e-3, 123456789.123456789}

// precisions: the usual few digits, and values at and beyond the number of significant digits of a float64
var precPool = []int{1, 2, 3, 1, 2, 6, 12, 15, 16, 17, 18, 19, 20, 25, 308, 400}

// refFixed is the harness's own transcription (standard library only) of what internal/math/float.Fixed computes:
// num scaled by 10^precision, rounded half away from zero through an int, scaled back; values that have no
// fractional digits left at that precision (and NaN, infinities) are returned as they are.  The oracle table the
// Coq model receives is built from it, and the library's function is compared with it on every entry.
func refFixed(num float64, precision int) float64 {
	i := math.Pow(10, float64(precision))
	scaled := num * i
	if math.IsNaN(scaled) || math.Abs(scaled) >= 1<<53 {
		return num
	}
	return float64(int(scaled+math.Copysign(0.5, scaled))) / i
}

var fixedDisagreements []string

func pickName(r *hlib.Rng, used map[string]bool, pool []string) string {
	for tries := 0; tries < 50; tries++ {
		n := pool[r.Intn(len(pool))]
		if !used[n] {
			used[n] = true
			return n
		}
	}
	n := fmt.Sprintf("col%d", len(used))
	used[n] = true
	return n
}

func genConfig(r *hlib.Rng) sqlterm.Config {
	c := sqlterm.Config{Table: tablePool[r.Intn(len(tablePool))]}
	switch r.Intn(6) {
	case 0: // default
	case 1:
		c.Escape, c.Incr = '"', true // Postgres
	case 2:
		c.Escape = '"' // SQLite
	case 3:
		c.Escape = '`' // MySQL
	default:
		c.Escape = escPool[r.Intn(len(escPool))]
		c.Incr = r.Bool()
	}
	return c
}

func confFuncs(c sqlterm.Config) []qsql.ConfigFunc {
	fs := []qsql.ConfigFunc{qsql.Table(c.Table), qsql.Query("SELECT")}
	switch {
	case c.Escape == '"' && c.Incr:
		fs = append(fs, qsql.Postgres())
	case c.Escape == '"':
		fs = append(fs, qsql.SQLite())
	case c.Escape == '`' && !c.Incr:
		fs = append(fs, qsql.MySQL())
	default:
		fs = append(fs, qsql.EscapeChar(c.Escape))
		if c.Incr {
			fs = append(fs, qsql.Incrementing())
		}
	}
	if c.Precision != 0 {
		fs = append(fs, qsql.Precision(c.Precision))
	}
	if c.HasCoerce {
		pairs := make([]qsql.CoercePair, len(c.Coerce))
		for i, p := range c.Coerce {
			pairs[i].Column = p.Column
			switch p.Kind {
			case 1:
				pairs[i].Type = qsql.Int64ToBool
			case 2:
				pairs[i].Type = qsql.StringToFloat
			default: // kind 0: the Type left out — qsql.CoercePair{Column: name}
			}
		}
		fs = append(fs, qsql.Coerce(pairs...))
	}
	return fs
}

// genFrame builds a frame of 1..5 columns of all five column types and 0..8 rows, then derives
// it by Sort / Filter / Slice so that the row index is not the identity.
func genFrame(r *hlib.Rng, minRows int) (qframe.QFrame, string) {
	ncols := 1 + r.Intn(5)
	nrows := minRows + r.Intn(8)
	if r.Chance(1, 12) {
		nrows = minRows
	}
	data := map[string]interface{}{}
	enums := map[string][]string{}
	used := map[string]bool{}
	var intCol, anyCol string
	for j := 0; j < ncols; j++ {
		name := pickName(r, used, goodNames)
		anyCol = name
		switch r.Intn(5) {
		case 0:
			v := make([]int, nrows)
			for i := range v {
				if r.Chance(1, 3) {
					v[i] = intPool[r.Intn(len(intPool))]
				} else {
					v[i] = r.Intn(5)
				}
			}
			data[name] = v
			intCol = name
		case 1:
			v := make([]float64, nrows)
			for i := range v {
				if r.Chance(1, 2) {
					v[i] = floatPool[r.Intn(len(floatPool))]
				} else {
					v[i] = float64(r.Intn(7)) / 2
				}
			}
			data[name] = v
		case 2:
			v := make([]bool, nrows)
			for i := range v {
				v[i] = r.Bool()
			}
			data[name] = v
		default:
			v := make([]*string, nrows)
			nullMode := r.Intn(5) // 0 none, 1 some, 2 leading, 3 all, 4 some
			for i := range v {
				null := false
				switch nullMode {
				case 1, 4:
					null = r.Chance(1, 3)
				case 2:
					null = i < 1+nrows/3
				case 3:
					null = !r.Chance(1, 10)
				}
				if !null {
					s := strPool[r.Intn(1+r.Intn(len(strPool)))]
					v[i] = &s
				}
			}
			data[name] = v
			if r.Chance(1, 2) {
				enums[name] = nil
			}
		}
	}
	qf := qframe.New(data, newqf.Enums(enums))
	if qf.Err != nil {
		panic(qf.Err)
	}
	deriv := ""
	for step := 0; step < 3; step++ {
		switch r.Intn(5) {
		case 0:
			qf = qf.Sort(qframe.Order{Column: anyCol, Reverse: r.Bool()})
			deriv += "sort(" + anyCol + ");"
		case 1:
			if intCol != "" {
				qf = qf.Filter(qframe.Filter{Column: intCol, Comparator: "!=", Arg: 1})
				deriv += "filter(" + intCol + "!=1);"
			}
		case 2:
			if qf.Len() > minRows+1 {
				a := r.Intn(2)
				b := qf.Len() - r.Intn(2)
				if b-a >= minRows && b > a {
					qf = qf.Slice(a, b)
					deriv += fmt.Sprintf("slice(%d,%d);", a, b)
				}
			}
		}
		if qf.Err != nil {
			panic(qf.Err)
		}
	}
	if qf.Len() < minRows {
		return genFrame(r, minRows)
	}
	return qf, deriv
}

func frameDesc(qf qframe.QFrame, deriv string) map[string]interface{} {
	d := qframe.VerifDump(qf)
	cols := []interface{}{}
	for _, c := range d.Columns {
		m := map[string]interface{}{"name": c.Name, "kind": c.Kind}
		switch c.Kind {
		case "int":
			m["data"] = c.Ints
		case "float":
			b := make([]string, len(c.Floats))
			for i, f := range c.Floats {
				b[i] = fmt.Sprintf("%016x", math.Float64bits(f))
			}
			m["bits"] = b
		case "bool":
			m["data"] = c.Bools
		case "string":
			m["data"] = c.Strings
		case "enum":
			m["ranks"], m["values"] = c.Ranks, c.Values
		}
		cols = append(cols, m)
	}
	return map[string]interface{}{"columns": cols, "index": d.Index, "derived": deriv}
}

func logTerm(log []fakedb.Stmt) string {
	it := make([]string, len(log))
	for i, st := range log {
		it[i] = hlib.Pair(hlib.Str(st.Text), sqlterm.DVals(st.Args))
	}
	return hlib.List(it)
}

// ---------------------------------------------------------------- case kinds

func caseInsert(s *hlib.Suite, r *hlib.Rng) {
	n := r.Intn(5)
	if r.Chance(1, 8) {
		n = 9 + r.Intn(4) // two-digit placeholders
	}
	names := make([]string, n)
	for i := range names {
		names[i] = namePool[r.Intn(len(namePool))]
	}
	c := genConfig(r)
	text := sqlhook.Insert(names, c.Table, c.Escape, c.Incr)
	s.Count("insert")
	s.Add(fmt.Sprintf("SqlIns %s %s %s %s %s", sqlterm.StrList(names), hlib.Str(c.Table), hlib.Z(int64(c.Escape)), hlib.Bool(c.Incr), hlib.Str(text)),
		map[string]interface{}{"kind": "insert", "names": names, "table": c.Table, "escape": c.Escape, "incrementing": c.Incr}, n > 0)
}

func caseWrite(s *hlib.Suite, r *hlib.Rng) {
	qf, deriv := genFrame(r, 0)
	c := genConfig(r)
	fail := -1
	if r.Chance(1, 3) {
		fail = r.Intn(qf.Len() + 2)
	}
	db := fakedb.New()
	db.FailExec = fail
	h, closer := fakedb.Open(db)
	defer closer()
	tx, err := h.Begin()
	if err != nil {
		panic(err)
	}
	var werr error
	panicked, pv := hlib.Recover(func() { werr = qf.ToSQL(tx, confFuncs(c)...) })
	res := 0
	if panicked {
		res = 2
	} else if werr != nil {
		res = 1
	}
	failT := "None"
	if fail >= 0 {
		failT = hlib.Some(hlib.Nat(fail))
	}
	desc := map[string]interface{}{"kind": "write", "frame": frameDesc(qf, deriv), "table": c.Table, "escape": c.Escape, "incrementing": c.Incr, "fail_exec": fail}
	s.Count("write")
	if deriv != "" {
		s.Count("write/derived")
	}
	id := s.Add(fmt.Sprintf("SqlWrite %s %s %s %s %s", sqlterm.Frame(qframe.VerifDump(qf)), c.Coq(), failT, logTerm(db.Log), hlib.N(uint64(res))), desc, qf.Len() > 0)
	if panicked {
		s.Fail(id, fmt.Sprintf("ToSQL panicked: %v", pv), desc, "sql-write-panic")
	}
}

func convVals(vs []driver.Value) []interface{} {
	out := make([]interface{}, len(vs))
	for i, v := range vs {
		out[i] = v
	}
	return out
}

type tables struct {
	fixed  map[[2]uint64]uint64
	parse  map[string]*uint64
	forder [][2]uint64
	porder []string
}

func newTables() *tables { return &tables{fixed: map[[2]uint64]uint64{}, parse: map[string]*uint64{}} }

func (t *tables) addFixed(f float64, p int) {
	if p <= 0 {
		return
	}
	k := [2]uint64{math.Float64bits(f), uint64(p)}
	if _, ok := t.fixed[k]; !ok {
		t.fixed[k] = math.Float64bits(refFixed(f, p))
		if got := sqlhook.Fixed(f, p); math.Float64bits(got) != t.fixed[k] && !(math.IsNaN(got) && math.IsNaN(refFixed(f, p))) {
			fixedDisagreements = append(fixedDisagreements, fmt.Sprintf("Fixed(%v (bits %#x), %d) = %v, the rounding rule gives %v", f, math.Float64bits(f), p, got, refFixed(f, p)))
		}
		t.forder = append(t.forder, k)
	}
}

func (t *tables) addParse(s string, p int) {
	if _, ok := t.parse[s]; ok {
		return
	}
	t.porder = append(t.porder, s)
	f, err := strconv.ParseFloat(s, 64)
	if err != nil {
		t.parse[s] = nil
		return
	}
	b := math.Float64bits(f)
	t.parse[s] = &b
	t.addFixed(f, p)
}

func (t *tables) addRow(vs []driver.Value, p int) {
	for _, v := range vs {
		switch x := v.(type) {
		case float64:
			t.addFixed(x, p)
		case string:
			t.addParse(x, p)
		}
	}
}

func (t *tables) coq() (string, string) {
	ft := make([]string, len(t.forder))
	for i, k := range t.forder {
		ft[i] = hlib.Pair(hlib.Pair(hlib.NHex(k[0]), hlib.Z(int64(k[1]))), hlib.NHex(t.fixed[k]))
	}
	pt := make([]string, len(t.porder))
	for i, s := range t.porder {
		v := "None"
		if b := t.parse[s]; b != nil {
			v = hlib.Some(hlib.NHex(*b))
		}
		pt[i] = hlib.Pair(hlib.Str(s), v)
	}
	return hlib.List(ft), hlib.List(pt)
}

// genColumnVals: a column of n driver values of one SQL type with a NULL pattern; "bad" adds
// values that put the column outside the property's quantifier.
func genColumnVals(r *hlib.Rng, n int, typ int, nullMode int, bad bool) []driver.Value {
	vs := make([]driver.Value, n)
	for i := range vs {
		switch typ {
		case 0:
			if r.Chance(1, 3) {
				vs[i] = int64(intPool[r.Intn(len(intPool))])
			} else {
				vs[i] = int64(r.Intn(4))
			}
		case 1:
			if r.Chance(1, 2) {
				vs[i] = floatPool[r.Intn(len(floatPool))]
			} else {
				vs[i] = float64(r.Intn(2000)) / 16 * 1.1
			}
		case 2:
			vs[i] = r.Bool()
		case 3:
			vs[i] = strPool[r.Intn(len(strPool))]
		case 4:
			vs[i] = []byte(strPool[r.Intn(len(strPool))])
		case 5: // numeric text (for StringToFloat)
			pool := []string{"1.5", "-2", "1e3", "NaN", "inf", "0x1p-2", "", "abc", "1_0", " 1", "3.14159"}
			vs[i] = pool[r.Intn(len(pool))]
		}
		null := false
		switch nullMode {
		case 1:
			null = i < 1+n/3 // leading
		case 2:
			null = i >= n-1-n/3 // trailing
		case 3:
			null = true // all
		case 4:
			null = r.Chance(1, 3)
		}
		if null {
			vs[i] = nil
		}
	}
	if bad && n > 0 {
		i := r.Intn(n)
		switch r.Intn(3) {
		case 0:
			vs[i] = fakedb.Unsupported()
		case 1:
			vs[i] = int64(7)
		case 2:
			vs[i] = 2.5
		}
	}
	return vs
}

// numericText: a column of n strings for StringToFloat; good = only texts strconv.ParseFloat accepts.
func numericText(r *hlib.Rng, n int, nullMode int, good bool) []driver.Value {
	pool := []string{"1.5", "-2", "1e3", "NaN", "inf", "0x1p-2", "3.14159", "2.675", "-0", "", "abc", "1_0", " 1"}
	m := len(pool)
	if good {
		m = 9
	}
	vs := make([]driver.Value, n)
	some := false
	for i := range vs {
		null := false
		switch nullMode {
		case 1:
			null = i < 1+n/3
		case 2:
			null = i >= n-1-n/3
		case 4:
			null = r.Chance(1, 3)
		}
		if !null {
			vs[i] = pool[r.Intn(m)]
			some = true
		}
	}
	if !some && n > 0 {
		vs[r.Intn(n)] = pool[r.Intn(m)]
	}
	return vs
}

func nullModeFor(r *hlib.Rng, typ int, allowBad bool) int {
	// NULLs belong in float and text columns; with allowBad also elsewhere
	if typ == 1 || typ == 3 || typ == 4 || typ == 5 || allowBad {
		return r.Intn(5)
	}
	return 0
}

func caseScan(s *hlib.Suite, r *hlib.Rng) {
	n := r.Intn(7)
	typ := r.Intn(6)
	bad := r.Chance(1, 5)
	mode := nullModeFor(r, typ, bad)
	vs := genColumnVals(r, n, typ, mode, bad && r.Bool())
	prec := 0
	if r.Chance(1, 3) {
		prec = precPool[r.Intn(len(precPool))]
	}
	if r.Chance(1, 20) {
		prec = -1
	}
	co := 0
	if r.Chance(1, 4) {
		co = 1 + r.Intn(2)
		if co == 1 && r.Chance(2, 3) && typ != 0 && !bad {
			co = 0
		}
	}
	if typ == 5 && r.Chance(2, 3) {
		co = 2
	}
	// precision oracle probes: a single float value
	if r.Chance(1, 10) {
		vs = []driver.Value{floatPool[r.Intn(len(floatPool))]}
		prec, co = precPool[r.Intn(len(precPool))], 0
	}
	t := newTables()
	t.addRow(vs, prec)
	var data sqlhook.ColumnData
	var errAt int
	panicked, _ := hlib.Recover(func() { data, errAt = sqlhook.ScanColumn(convVals(vs), prec, co) })
	dataT := "None"
	if !panicked {
		switch data.Kind {
		case "nil":
		case "int":
			dataT = hlib.Some(sqlterm.ColData(qframe.VerifColumn{Kind: "int", Ints: data.Ints}))
		case "float":
			dataT = hlib.Some(sqlterm.ColData(qframe.VerifColumn{Kind: "float", Floats: data.Floats}))
		case "bool":
			dataT = hlib.Some(sqlterm.ColData(qframe.VerifColumn{Kind: "bool", Bools: data.Bools}))
		case "string":
			dataT = hlib.Some(sqlterm.ColData(qframe.VerifColumn{Kind: "string", Strings: data.Strings}))
		default:
			panic("unexpected Data() type")
		}
	}
	errT := "None"
	if !panicked && errAt >= 0 {
		errT = hlib.Some(hlib.Nat(errAt))
	}
	coT := "None"
	if co != 0 {
		coT = hlib.Some(sqlterm.CoerceKind(co))
	}
	ft, pt := t.coq()
	desc := map[string]interface{}{"kind": "scan", "values": sqlterm.JSONRows([][]driver.Value{vs}), "precision": prec, "coerce": co}
	s.Count(fmt.Sprintf("scan/type%d/null%d", typ, mode))
	if co != 0 {
		s.Count("scan/coerce")
	}
	if prec > 0 {
		s.Count("scan/precision")
	}
	// A panic is reported through the property oracle of the case (code 2), not a second time here.
	if panicked {
		desc["class"] = "sql-coerce-null-panic"
	} else if prec > 0 && len(vs) == 1 {
		if f, ok := vs[0].(float64); ok && (math.IsNaN(f) || math.IsInf(f, 0) || math.Abs(f) >= 1<<52) {
			desc["class"] = "sql-precision-nonfinite-or-huge"
		}
	}
	s.Add(fmt.Sprintf("SqlScan %s %s %s %s %s %s %s %s", sqlterm.DVals(vs), hlib.Z(int64(prec)), coT, ft, pt, dataT, errT, hlib.Bool(panicked)), desc, len(vs) > 0)
}

func genResultSet(r *hlib.Rng, inQuantifier bool) ([]string, [][]driver.Value, []int) {
	ncols := 1 + r.Intn(4)
	nrows := r.Intn(7)
	if inQuantifier && nrows == 0 {
		nrows = 1 + r.Intn(4)
	}
	used := map[string]bool{}
	names := make([]string, ncols)
	types := make([]int, ncols)
	colVals := make([][]driver.Value, ncols)
	for j := range names {
		if inQuantifier {
			names[j] = pickName(r, used, goodNames)
		} else {
			names[j] = namePool[r.Intn(len(namePool))] // duplicates and rejected names possible
		}
		types[j] = r.Intn(5)
		bad := !inQuantifier && r.Chance(1, 3)
		mode := nullModeFor(r, types[j], bad)
		if inQuantifier && mode == 3 {
			mode = 1
		}
		colVals[j] = genColumnVals(r, nrows, types[j], mode, bad && r.Bool())
		if inQuantifier && mode != 0 {
			// keep at least one value
			all := true
			for _, v := range colVals[j] {
				if v != nil {
					all = false
				}
			}
			if all && nrows > 0 {
				colVals[j] = genColumnVals(r, nrows, types[j], 0, false)
			}
		}
	}
	rows := make([][]driver.Value, nrows)
	for i := range rows {
		rows[i] = make([]driver.Value, ncols)
		for j := range names {
			rows[i][j] = colVals[j][i]
		}
	}
	return names, rows, types
}

func runRead(db *fakedb.DB, c sqlterm.Config) (bool, interface{}, qframe.QFrame) {
	h, closer := fakedb.Open(db)
	defer closer()
	tx, err := h.Begin()
	if err != nil {
		panic(err)
	}
	var qf qframe.QFrame
	panicked, pv := hlib.Recover(func() { qf = qframe.ReadSQL(tx, confFuncs(c)...) })
	return panicked, pv, qf
}

func caseRead(s *hlib.Suite, r *hlib.Rng) {
	inQ := r.Chance(3, 5)
	names, rows, types := genResultSet(r, inQ)
	c := sqlterm.Config{Table: "t"}
	if r.Chance(1, 4) {
		c.Precision = precPool[r.Intn(len(precPool))]
	}
	mixed := false
	if r.Chance(1, 4) {
		c.HasCoerce = true
		// Half of the coercion cases: two coerced columns of DIFFERENT kinds (an int column read with
		// Int64ToBool, a numeric-text column read with StringToFloat) placed behind an uncoerced first
		// column, the pairs in either order.
		mixed = r.Chance(1, 2)
		first := 0
		var forced []sqlterm.Coerce
		if mixed {
			first = 1
			for _, kind := range r.Perm(2) {
				name := []string{"kb", "kf"}[kind]
				modes := []int{0, 0, 0, 1, 2, 4}
				mode := modes[r.Intn(len(modes))]
				if kind == 0 && (inQ || r.Chance(2, 3)) {
					mode = 0 // a NULL in the int -> bool column makes the read fail
				}
				var vals []driver.Value
				if kind == 0 {
					vals = genColumnVals(r, len(rows), 0, mode, false)
				} else {
					vals = numericText(r, len(rows), mode, inQ || r.Chance(2, 3))
				}
				at := 1 + r.Intn(len(names))
				names = append(names[:at], append([]string{name}, names[at:]...)...)
				types = append(types[:at], append([]int{-1}, types[at:]...)...)
				for i := range rows {
					rows[i] = append(rows[i][:at], append([]driver.Value{vals[i]}, rows[i][at:]...)...)
				}
				forced = append(forced, sqlterm.Coerce{Column: name, Kind: 1 + kind})
			}
		}
		for j, n := range names {
			if j < first || types[j] < 0 {
				continue
			}
			if r.Chance(1, 2) && (!mixed || r.Chance(1, 2)) {
				k := 1 + r.Intn(2)
				if types[j] == 0 && r.Chance(3, 4) {
					k = 1
				}
				if types[j] == 3 && r.Chance(3, 4) {
					k = 2
					for i := range rows { // numeric text
						if rows[i][j] != nil {
							rows[i][j] = []string{"1.5", "-2", "1e3", "x", "NaN"}[r.Intn(5)]
						}
					}
				}
				c.Coerce = append(c.Coerce, sqlterm.Coerce{Column: n, Kind: k})
			}
		}
		// the forced pairs go to a random position among the others, keeping their relative order
		for _, f := range forced {
			at := r.Intn(len(c.Coerce) + 1)
			c.Coerce = append(c.Coerce[:at], append([]sqlterm.Coerce{f}, c.Coerce[at:]...)...)
		}
		if r.Chance(1, 3) {
			c.Coerce = append(c.Coerce, sqlterm.Coerce{Column: "missing", Kind: 1 + r.Intn(2)})
		}
		// pairs WITHOUT function (kind 0 = qsql.CoercePair{Column: name}, the Type left out; defect F26): for a
		// column of the result set (the read must report an error as soon as there is a row; placed anywhere among
		// the other pairs, so that it may be replaced by a later pair for the same column or replace an earlier one)
		// and for an absent column (never looked at)
		if r.Chance(1, 4) {
			at := r.Intn(len(c.Coerce) + 1)
			p := sqlterm.Coerce{Column: names[r.Intn(len(names))], Kind: 0}
			c.Coerce = append(c.Coerce[:at], append([]sqlterm.Coerce{p}, c.Coerce[at:]...)...)
		}
		if r.Chance(1, 5) {
			at := r.Intn(len(c.Coerce) + 1)
			p := sqlterm.Coerce{Column: "absent", Kind: 0}
			c.Coerce = append(c.Coerce[:at], append([]sqlterm.Coerce{p}, c.Coerce[at:]...)...)
		}
	}
	db := fakedb.New()
	db.Cols, db.Rows = names, rows
	fp, fq, fr := false, false, -1
	if r.Chance(1, 6) {
		switch r.Intn(3) {
		case 0:
			fp = true
		case 1:
			fq = true
		case 2:
			fr = r.Intn(len(rows) + 2)
		}
	}
	db.FailPrepareQuery, db.FailQuery, db.FailRow = fp, fq, fr
	t := newTables()
	for _, row := range rows {
		t.addRow(row, c.Precision)
	}
	panicked, pv, qf := runRead(db, c)
	ft, pt := t.coq()
	desc := map[string]interface{}{"kind": "read", "names": names, "rows": sqlterm.JSONRows(rows), "precision": c.Precision, "coerce": c.Coerce, "has_coerce": c.HasCoerce,
		"fail_prepare": fp, "fail_query": fq, "fail_row": fr}
	s.Count("read")
	if inQ {
		s.Count("read/in-quantifier")
	}
	if c.HasCoerce {
		s.Count("read/coerce")
		kinds, late, plain := map[int]bool{}, false, false
		nilHit, nilAbsent, nilReplaced := false, false, false
		for _, p := range c.Coerce {
			if p.Kind != 0 {
				continue
			}
			inSet, last := false, 0
			for _, n := range names {
				if n == p.Column {
					inSet = true
				}
			}
			for _, q := range c.Coerce {
				if q.Column == p.Column {
					last = q.Kind
				}
			}
			switch {
			case !inSet:
				nilAbsent = true
			case last == 0:
				nilHit = true
			default:
				nilReplaced = true
			}
		}
		if nilHit {
			s.Count("read/coerce/no-function/column-in-result-set")
			if len(rows) > 0 {
				s.Count("read/coerce/no-function/column-in-result-set/with-rows")
			}
		}
		if nilReplaced {
			s.Count("read/coerce/no-function/replaced-by-later-pair")
		}
		if nilAbsent {
			s.Count("read/coerce/no-function/absent-column")
		}
		for _, n := range names { // last pair for a name wins
			k := 0
			for _, p := range c.Coerce {
				if p.Column == n {
					k = p.Kind
				}
			}
			if k == 0 {
				plain = true
			} else {
				kinds[k] = true
				late = late || plain
			}
		}
		if len(kinds) == 2 {
			s.Count("read/coerce/two-kinds")
		}
		if late {
			s.Count("read/coerce/after-uncoerced")
		}
		if mixed {
			s.Count("read/coerce/mixed-forced")
		}
	}
	if panicked {
		desc["class"] = "sql-coerce-null-panic"
		desc["panic"] = fmt.Sprint(pv)
	}
	s.Add(fmt.Sprintf("SqlRead %s %s %s %s %s %s", c.Coq(), sqlterm.ResultSet(names, rows), sqlterm.Faults(fp, fq, fr), ft, pt, sqlterm.Obs(panicked, qf)), desc, len(rows) > 0)
}

func caseRound(s *hlib.Suite, r *hlib.Rng) {
	minRows := 1
	if r.Chance(1, 10) {
		minRows = 0
	}
	qf, deriv := genFrame(r, minRows)
	c := genConfig(r)
	db := fakedb.New()
	db.Store = true
	db.Cols = qf.ColumnNames()
	h, closer := fakedb.Open(db)
	defer closer()
	tx, err := h.Begin()
	if err != nil {
		panic(err)
	}
	var werr error
	var back qframe.QFrame
	panicked, _ := hlib.Recover(func() {
		werr = qf.ToSQL(tx, confFuncs(c)...)
		if werr == nil {
			back = qframe.ReadSQL(tx, confFuncs(c)...)
		}
	})
	obs := "RErr"
	if werr == nil || panicked {
		obs = sqlterm.Obs(panicked, back)
	}
	desc := map[string]interface{}{"kind": "round", "frame": frameDesc(qf, deriv), "table": c.Table, "escape": c.Escape, "incrementing": c.Incr}
	s.Count("round")
	if deriv != "" {
		s.Count("round/derived")
	}
	s.Add(fmt.Sprintf("SqlRound %s %s %s", sqlterm.Frame(qframe.VerifDump(qf)), c.Coq(), obs), desc, qf.Len() > 0)
}

func main() {
	cfg := hlib.ParseFlags()
	s := hlib.NewSuite(cfg, "sql")
	defer s.FinishOnPanic()
	s.Header = "From QF Require Import Base.Prelude Base.CaseLib Model.Sql Corr.IOCorr.\nLocal Open Scope N_scope.\n"
	s.CaseType = "sql_case"
	s.CheckFn = "check_sql"
	s.PerShard = 60
	s.Rule = "insert: random name lists (0..12, special characters, invalid names) x dialects (escape 0, \", `, non-ASCII and invalid runes; ? and $i) through sqlhook.Insert; " +
		"write: frames of 1..5 columns of all five column types (nil strings, NaN payloads, +-0, extremes, enum) derived by Sort/Filter/Slice, written through the recording driver, a third with an Exec refused at a random position; " +
		"scan: one Column fed a value sequence (typed with NULL patterns none/leading/trailing/all/random, a fifth with foreign values), coercions, precision with oracle tables for float.Fixed and ParseFloat; " +
		"read: canned result sets (3/5 inside the quantifier of C19, the rest with duplicate/rejected names, NULLs in int/bool columns, mixed types), coercions incl. a missing column and pairs WITHOUT function (qsql.CoercePair{Column: name}, kind 0 in the case term: a quarter of the coercion cases for a column of the result set, a fifth for an absent one) (half of the coercion cases: an int column with Int64ToBool and a numeric-text column with StringToFloat behind an uncoerced first column, pairs in either order), precision, a sixth with a driver fault; " +
		"round: ToSQL into the store then ReadSQL from it. Non-trivial = at least one row/name/value; distinct by Coq term."
	r := hlib.NewRng(cfg.Seed)
	for i := 0; i < cfg.N; i++ {
		cr := r.Fork()
		switch i % 10 {
		case 0:
			caseInsert(s, cr)
		case 1, 2:
			caseWrite(s, cr)
		case 3, 4:
			caseScan(s, cr)
		case 5, 6, 7:
			caseRead(s, cr)
		default:
			caseRound(s, cr)
		}
	}
	seenD := map[string]bool{}
	for _, d := range fixedDisagreements {
		if !seenD[d] && len(seenD) < 20 {
			seenD[d] = true
			s.Fail(s.NextID(), "ReadSQL with Precision rounds differently from the stated rule: "+d, map[string]interface{}{"kind": "fixed", "what": d, "props": []string{"C19"}}, "sql-fixed")
		}
	}
	s.Finish()
}
