// Engine "csv": the CSV scanner (internal/fastcsv), ReadCSV (internal/io + qframe.ReadCSV) and
// ToCSV (qframe.ToCSV + encoding/csv) against Model/FastCsv.v, Model/CsvSpec.v, Model/CsvRead.v
// and Model/CsvWrite.v.  Families: scan, readcsv, roundtrip (see Corr/CsvCorr.v).
package main

import (
	"bytes"
	"errors"
	"fmt"
	"io"
	"math"
	"sort"
	"strconv"
	"strings"

	"github.com/tobgu/qframe"
	"github.com/tobgu/qframe/config/csv"
	"github.com/tobgu/qframe/config/newqf"
	"github.com/tobgu/qframe/verifhook/csvhook"
	"verifharness/hlib"
)

// ---------------------------------------------------------------- the scheduled reader

var errInjected = errors.New("injected read failure")

// schedReader hands out the chunks one after the other; a Read never crosses a chunk border and
// a chunk larger than the window is delivered over several calls.
// term: 0 = (0, EOF) by a separate read, 1 = EOF together with the last byte,
// 2 = (0, err) by a separate read, 3 = err together with the last byte.
type schedReader struct {
	chunks  [][]byte
	ci, off int
	term    int
}

func (s *schedReader) terr() error {
	if s.term >= 2 {
		return errInjected
	}
	return io.EOF
}

func (s *schedReader) Read(p []byte) (int, error) {
	if s.ci >= len(s.chunks) {
		return 0, s.terr()
	}
	n := copy(p, s.chunks[s.ci][s.off:])
	s.off += n
	if s.off == len(s.chunks[s.ci]) {
		s.ci++
		s.off = 0
	}
	if s.ci >= len(s.chunks) && (s.term == 1 || s.term == 3) {
		return n, s.terr()
	}
	return n, nil
}

// ---------------------------------------------------------------- rendering (generator side)

type rowStyle struct {
	quoted []bool
	crlf   bool
}

type docStyle struct {
	rows  []rowStyle
	final bool
}

func needsQuote(delim byte, f []byte) bool {
	for _, c := range f {
		if c == delim || c == '"' || c == '\r' || c == '\n' {
			return true
		}
	}
	return false
}

func renderDoc(delim byte, rows [][][]byte, st docStyle) []byte {
	var b bytes.Buffer
	for i, row := range rows {
		for j, f := range row {
			if j > 0 {
				b.WriteByte(delim)
			}
			if st.rows[i].quoted[j] {
				b.WriteByte('"')
				b.Write(bytes.ReplaceAll(f, []byte{'"'}, []byte{'"', '"'}))
				b.WriteByte('"')
			} else {
				b.Write(f)
			}
		}
		if i+1 < len(rows) || st.final {
			if st.rows[i].crlf {
				b.WriteString("\r\n")
			} else {
				b.WriteByte('\n')
			}
		}
	}
	return b.Bytes()
}

// ---------------------------------------------------------------- Coq printers

// L prints a Coq list; long lists are printed as a concatenation of short literals so that the
// term stays shallow (a flat literal of some thousand elements overflows coqc's stack).
func L(items []string) string {
	const piece = 150
	if len(items) <= piece {
		return hlib.List(items)
	}
	var parts []string
	for i := 0; i < len(items); i += piece {
		j := i + piece
		if j > len(items) {
			j = len(items)
		}
		parts = append(parts, hlib.List(items[i:j]))
	}
	return "(concat " + hlib.List(parts) + ")"
}

// B prints a byte string; long ones as a concatenation of (bs len 0xHEX) pieces (a numeral of
// some ten thousand digits costs coqc a lot of stack).
func B(b []byte) string {
	const piece = 512
	if len(b) <= piece {
		return hlib.Bytes(b)
	}
	var parts []string
	for i := 0; i < len(b); i += piece {
		j := i + piece
		if j > len(b) {
			j = len(b)
		}
		parts = append(parts, hlib.Bytes(b[i:j]))
	}
	return "(concat " + hlib.List(parts) + ")"
}

func coqRows(rows [][][]byte) string {
	rs := make([]string, len(rows))
	for i, row := range rows {
		fs := make([]string, len(row))
		for j, f := range row {
			fs[j] = B(f)
		}
		rs[i] = L(fs)
	}
	return L(rs)
}

func coqBytesList(l [][]byte) string {
	it := make([]string, len(l))
	for i, b := range l {
		it[i] = B(b)
	}
	return L(it)
}

func coqStyles(st docStyle) string {
	rs := make([]string, len(st.rows))
	for i, r := range st.rows {
		rs[i] = hlib.Pair(hlib.BoolList(r.quoted), hlib.Bool(r.crlf))
	}
	return hlib.Pair(L(rs), hlib.Bool(st.final))
}

func q(b []byte) string { return strconv.Quote(string(b)) }

// ---------------------------------------------------------------- generators

var cellPool = []string{
	"", "", "a", "b", "ab", "abc", "1", "-7", "2.5", "true", " a", "a ", " ", "a b",
	`"`, `""`, `a"b`, `"a"`, `a""`, `"a`, ",", "a,b", ",,", ";", "a;b", "\t", "|",
	"\n", "a\nb", "\n\n", "l1\nl2\n", "\r\n", "a\r\nb", "x\r\n", "\r\n\r\n", "\"\r\n\"", "\",\"",
	`\.`, "\x00", "\xff\xfe", "\xc3\xa5", "\ufeff", "\ufeffa", "a\"\nb,c\"\"", "0123456789abcdef", "0123456789abcde",
}

// cells with a bare CR: only used in the malformed stream
var bareCRPool = []string{"\r", "a\r", "a\rb", "\ra", "\r\r\n", "a\r\n\r"}

var delimPool = []byte{',', ',', ',', ';', '\t', '|', ' ', 'a', 0, 0xff, '.', '\\'}

func genCell(r *hlib.Rng, delim byte, long bool) []byte {
	if long && r.Chance(1, 3) {
		// field lengths across the buffer capacities and their doublings
		lens := []int{15, 16, 17, 31, 33, 63, 65, 127, 129, 1000, 1022, 1023, 1024, 1025, 2047, 2049, 2051}
		n := lens[r.Intn(len(lens))]
		b := make([]byte, n)
		alpha := []byte{'x', 'y', '"', delim, '\n', 'z', 'z', 'z'}
		for i := range b {
			b[i] = alpha[r.Intn(len(alpha))]
		}
		return b
	}
	if r.Chance(1, 8) {
		n := r.Intn(6)
		b := make([]byte, n)
		alpha := []byte{'a', 'b', '"', delim, '\n', ' ', '"'}
		for i := range b {
			b[i] = alpha[r.Intn(len(alpha))]
		}
		return b
	}
	if r.Chance(1, 12) {
		return []byte{delim}
	}
	return []byte(cellPool[r.Intn(len(cellPool))])
}

func genTable(r *hlib.Rng, delim byte, long bool) [][][]byte {
	nrows := r.Intn(5)
	if r.Chance(1, 10) {
		nrows = 5 + r.Intn(4)
	}
	ncols := 1 + r.Intn(4)
	ragged := r.Chance(1, 6)
	rows := make([][][]byte, nrows)
	for i := range rows {
		nc := ncols
		if ragged {
			nc = 1 + r.Intn(4)
		}
		rows[i] = make([][]byte, nc)
		for j := range rows[i] {
			rows[i][j] = genCell(r, delim, long && i == nrows/2 && j == 0)
		}
	}
	// boundary shapes: empty last cell of the last row, a row of empty cells, an empty first cell
	if nrows > 0 && r.Chance(1, 4) {
		last := rows[nrows-1]
		last[len(last)-1] = []byte{}
	}
	if nrows > 0 && r.Chance(1, 8) {
		i := r.Intn(nrows)
		for j := range rows[i] {
			rows[i][j] = []byte{}
		}
	}
	if nrows > 0 && r.Chance(1, 8) {
		rows[r.Intn(nrows)][0] = []byte{}
	}
	return rows
}

func genStyle(r *hlib.Rng, delim byte, rows [][][]byte) docStyle {
	st := docStyle{rows: make([]rowStyle, len(rows)), final: r.Bool()}
	quoteAll := r.Chance(1, 8)
	crlfAll := r.Intn(3) // 0 LF, 1 CRLF, 2 mixed
	for i, row := range rows {
		st.rows[i].quoted = make([]bool, len(row))
		for j, f := range row {
			st.rows[i].quoted[j] = needsQuote(delim, f) || quoteAll || r.Chance(1, 4)
		}
		st.rows[i].crlf = crlfAll == 1 || (crlfAll == 2 && r.Bool())
	}
	if n := len(rows); n > 0 && len(rows[n-1]) == 1 && len(rows[n-1][0]) == 0 && !st.rows[n-1].quoted[0] {
		// normalisation (i): a blank last row needs the final line break to be denoted at all
		st.final = true
	}
	return st
}

var primes = []int{2, 3, 5, 7, 11, 13}

// chunking kinds: 0 whole, 1 one byte, 2 two bytes, 3 three bytes, 4 primes, 5 random small, 6 random any
func chunkDoc(r *hlib.Rng, doc []byte, kind int) [][]byte {
	var out [][]byte
	pi := 0
	for i := 0; i < len(doc); {
		var k int
		switch kind {
		case 0:
			k = len(doc)
		case 1:
			k = 1
		case 2:
			k = 2
		case 3:
			k = 3
		case 4:
			k = primes[pi%len(primes)]
			pi++
		case 5:
			k = 1 + r.Intn(4)
		default:
			k = 1 + r.Intn(len(doc))
		}
		if i+k > len(doc) {
			k = len(doc) - i
		}
		out = append(out, doc[i:i+k])
		i += k
	}
	return out
}

var chunkKindName = []string{"whole", "1-byte", "2-byte", "3-byte", "primes", "random-small", "random"}
var capPool = []int{1, 2, 3, 4, 7, 16, 1024}

func sameRows(a, b [][][]byte) bool {
	if len(a) != len(b) {
		return false
	}
	for i := range a {
		if len(a[i]) != len(b[i]) {
			return false
		}
		for j := range a[i] {
			if !bytes.Equal(a[i][j], b[i][j]) {
				return false
			}
		}
	}
	return true
}

func chunkSizes(ch [][]byte) []int {
	s := make([]int, len(ch))
	for i, c := range ch {
		s[i] = len(c)
	}
	return s
}

// scanCase runs the real scanner over doc with nruns different (capacity, chunking, stream end) choices.
func scanCase(s *hlib.Suite, r *hlib.Rng, delim byte, doc []byte, oracleRows [][][]byte, st *docStyle, nruns int, allowFail bool, kind string) {
	runs := make([]string, 0, nruns)
	descRuns := make([]interface{}, 0, nruns)
	kinds := r.Perm(len(chunkKindName))
	var first [][][]byte
	haveFirst := false
	id := s.NextID()
	for k := 0; k < nruns; k++ {
		ck := kinds[k%len(kinds)]
		chunks := chunkDoc(r, doc, ck)
		capv := capPool[r.Intn(len(capPool))]
		if len(doc) > 600 && capv < 16 && r.Chance(2, 3) {
			capv = 1024
		}
		term := r.Intn(2)
		if allowFail && r.Chance(1, 4) {
			term = 2 + r.Intn(2)
		}
		rd := &schedReader{chunks: chunks, term: term}
		var rows [][][]byte
		var failed bool
		var trace []csvhook.BufState
		// half of the 1024 runs go through fastcsv.NewReader itself; the model then takes the capacity
		// from the generated constant c_csv_init_cap
		hookCap, capTerm := capv, hlib.Nat(capv)
		if capv == 1024 && r.Bool() {
			hookCap, capTerm = 0, "(N.to_nat c_csv_init_cap)"
		}
		if p, v := hlib.Recover(func() { rows, failed, trace = csvhook.Scan(rd, delim, hookCap) }); p {
			s.Fail(id, fmt.Sprintf("fastcsv panicked: %v", v), map[string]interface{}{"doc": q(doc), "delim": delim, "cap": capv, "chunks": chunkSizes(chunks), "term": term}, "csv-scan-panic")
			continue
		}
		s.Count("scan/chunking/" + chunkKindName[ck])
		s.Count(fmt.Sprintf("scan/cap/%d", capv))
		s.Count(fmt.Sprintf("scan/term/%d", term))
		if term < 2 {
			if !haveFirst {
				first, haveFirst = rows, true
			} else if oracleRows != nil && !sameRows(first, rows) {
				s.Fail(id, "fragmentation dependence: two chunkings of one well-formed document give different rows",
					map[string]interface{}{"doc": q(doc), "delim": delim, "cap": capv, "chunks": chunkSizes(chunks), "term": term}, "csv-fragmentation")
			}
		}
		tr := make([]string, len(trace))
		for i, t := range trace {
			tr[i] = fmt.Sprintf("(%d,%d,%d)%%nat", t.Len, t.Cap, t.Cursor)
		}
		runs = append(runs, fmt.Sprintf("mkRun %s %s %s %s %s %s", capTerm, coqBytesList(chunks), hlib.N(uint64(term)), coqRows(rows), hlib.Bool(failed), L(tr)))
		descRuns = append(descRuns, map[string]interface{}{"cap": capv, "chunking": chunkKindName[ck], "chunk_sizes": chunkSizes(chunks), "term": term})
	}
	oracle := "None"
	if oracleRows != nil {
		oracle = hlib.Some(hlib.Pair(coqRows(oracleRows), coqStyles(*st)))
	}
	s.Count("scan/" + kind)
	s.Add(fmt.Sprintf("CScan %s %s %s %s", hlib.N(uint64(delim)), B(doc), oracle, hlib.List(runs)),
		map[string]interface{}{"family": "scan", "kind": kind, "delim": delim, "doc": q(doc), "runs": descRuns}, len(doc) > 0)
}

func genMalformed(r *hlib.Rng, delim byte) []byte {
	switch r.Intn(3) {
	case 0: // random bytes over an adversarial alphabet
		alpha := []byte{'a', 'b', '"', delim, '\n', '\r', ' ', '"', delim}
		n := r.Intn(14)
		b := make([]byte, n)
		for i := range b {
			b[i] = alpha[r.Intn(len(alpha))]
		}
		return b
	case 1: // a well-formed document with one byte removed, inserted or replaced
		rows := genTable(r, delim, false)
		doc := renderDoc(delim, rows, genStyle(r, delim, rows))
		if len(doc) == 0 {
			return []byte{'"'}
		}
		i := r.Intn(len(doc))
		alpha := []byte{'"', delim, '\n', '\r', 'x'}
		switch r.Intn(3) {
		case 0:
			return append(append([]byte{}, doc[:i]...), doc[i+1:]...)
		case 1:
			return append(append(append([]byte{}, doc[:i]...), alpha[r.Intn(len(alpha))]), doc[i:]...)
		default:
			d := append([]byte{}, doc...)
			d[i] = alpha[r.Intn(len(alpha))]
			return d
		}
	default: // cells with bare CR, rendered as if they were fine
		rows := genTable(r, delim, false)
		if len(rows) == 0 {
			rows = [][][]byte{{[]byte("a")}}
		}
		i := r.Intn(len(rows))
		j := r.Intn(len(rows[i]))
		rows[i][j] = []byte(bareCRPool[r.Intn(len(bareCRPool))])
		return renderDoc(delim, rows, genStyle(r, delim, rows))
	}
}

func familyScan(s *hlib.Suite, r *hlib.Rng, ndocs int, thorough bool) {
	for i := 0; i < ndocs; i++ {
		delim := delimPool[r.Intn(len(delimPool))]
		nruns := 5
		if i%4 == 3 {
			doc := genMalformed(r, delim)
			scanCase(s, r, delim, doc, nil, nil, nruns, true, "malformed")
			continue
		}
		long := i%25 == 7 || (thorough && i%5 == 1)
		rows := genTable(r, delim, long)
		st := genStyle(r, delim, rows)
		doc := renderDoc(delim, rows, st)
		kind := "wellformed"
		if long {
			kind = "wellformed-long"
		}
		scanCase(s, r, delim, doc, rows, &st, nruns, r.Chance(1, 5), kind)
	}
}

// ---------------------------------------------------------------- typed frames as Coq terms

const nanBits = 0x7FF8000000000001

func floatBits(x float64) uint64 {
	if math.IsNaN(x) {
		return nanBits
	}
	return math.Float64bits(x)
}

type obsCol struct {
	name string
	coq  string // Coq term of type column
	typ  string
}

// observe reads a frame through ColumnNames/ColumnTypes and the typed views (rows in index order).
// enumVals: declared value tables by column name (only used to fill the vals component).
// observePanics: frames the library returned without Err whose cells could not be read (the read panicked)
var observePanics []string

func observe(qf qframe.QFrame, enumVals map[string][]string) (cols []obsCol, floats []float64, ok bool) {
	defer func() {
		if p := recover(); p != nil {
			ok = false
			if len(observePanics) < 20 {
				observePanics = append(observePanics, fmt.Sprintf("reading the cells of a returned frame (%d rows, columns %v) panicked: %v", qf.Len(), qf.ColumnNames(), p))
			}
		}
	}()
	names := qf.ColumnNames()
	types := qf.ColumnTypes()
	for i, name := range names {
		oc := obsCol{name: name, typ: string(types[i])}
		switch string(types[i]) {
		case "int":
			v, err := qf.IntView(name)
			if err != nil {
				return nil, nil, false
			}
			it := make([]string, v.Len())
			for j := range it {
				it[j] = hlib.Z(int64(v.ItemAt(j)))
			}
			oc.coq = "ColInt " + L(it)
		case "float":
			v, err := qf.FloatView(name)
			if err != nil {
				return nil, nil, false
			}
			it := make([]string, v.Len())
			for j := range it {
				x := v.ItemAt(j)
				floats = append(floats, x)
				it[j] = hlib.NHex(floatBits(x))
			}
			oc.coq = "ColFloat " + L(it)
		case "bool":
			v, err := qf.BoolView(name)
			if err != nil {
				return nil, nil, false
			}
			it := make([]string, v.Len())
			for j := range it {
				it[j] = hlib.Bool(v.ItemAt(j))
			}
			oc.coq = "ColBool " + L(it)
		case "string":
			v, err := qf.StringView(name)
			if err != nil {
				return nil, nil, false
			}
			it := make([]string, v.Len())
			for j := range it {
				it[j] = hlib.OptStr(v.ItemAt(j))
			}
			oc.coq = "ColString " + L(it)
		case "enum":
			v, err := qf.EnumView(name)
			if err != nil {
				return nil, nil, false
			}
			it := make([]string, v.Len())
			for j := range it {
				it[j] = hlib.OptStr(v.ItemAt(j))
			}
			vals := make([][]byte, 0)
			for _, x := range enumVals[name] {
				vals = append(vals, []byte(x))
			}
			oc.coq = "ColEnum " + coqBytesList(vals) + " " + L(it)
		default:
			oc.coq = "ColNone"
		}
		cols = append(cols, oc)
	}
	return cols, floats, true
}

func coqFrame(cols []obsCol) string {
	it := make([]string, len(cols))
	for i, c := range cols {
		it[i] = hlib.Pair(hlib.Str(c.name), c.coq)
	}
	return hlib.List(it)
}

func coqOptFrame(qf qframe.QFrame, enumVals map[string][]string) string {
	if qf.Err != nil {
		return "None"
	}
	cols, _, ok := observe(qf, enumVals)
	if !ok {
		return "None"
	}
	return hlib.Some(coqFrame(cols))
}

// parseTable: strconv.Atoi / ParseFloat(.,64) / ParseBool on every distinct field of doc
func parseTable(delim byte, extra [][][]byte, docs ...[]byte) string {
	seen := map[string]bool{}
	var keys []string
	for _, row := range extra {
		for _, f := range row {
			if !seen[string(f)] {
				seen[string(f)] = true
				keys = append(keys, string(f))
			}
		}
	}
	for _, doc := range docs {
		rows, _, _ := csvhook.Scan(bytes.NewReader(doc), delim, 0)
		for _, row := range rows {
			for _, f := range row {
				if !seen[string(f)] {
					seen[string(f)] = true
					keys = append(keys, string(f))
				}
			}
		}
	}
	sort.Strings(keys)
	it := make([]string, len(keys))
	for i, k := range keys {
		a, b, c := "None", "None", "None"
		if v, err := strconv.Atoi(k); err == nil {
			a = hlib.Some(hlib.Z(int64(v)))
		}
		if v, err := strconv.ParseFloat(k, 64); err == nil {
			b = hlib.Some(hlib.NHex(floatBits(v)))
		}
		if v, err := strconv.ParseBool(k); err == nil {
			c = hlib.Some(hlib.Bool(v))
		}
		it[i] = hlib.Pair(B([]byte(k)), "("+a+", "+b+", "+c+")")
	}
	return L(it)
}

// ---------------------------------------------------------------- family readcsv

var intCells = []string{"0", "1", "-7", "007", "+3", "42", "9223372036854775807", "00000000000000000042", "-00000000000000000007", "-9223372036854775808", "9223372036854775808", "1_000", "0x10", " 1", "1 ",
	"18446744073709551617", "99999999999999999999", "36893488147419103232", "-18446744073709551615", "000000000009223372036854775808"}

const wellFormedInts = 9

var floatCells = []string{"2.5", "1e3", "-0", "inf", "-Inf", "+Inf", "NaN", "nan", ".5", "5.", "1e400", "0x1p-2", "4.9e-324", "1_0.5", "1,5", "Infinity", "1e-400"}
var boolCells = []string{"true", "false", "T", "F", "1", "0", "TRUE", "False", "t", "f", "tRUE", "yes"}
var nameCells = []string{"A", "B", "C", "A", "", "", "\ufeffid", "A0", "A1", "B0", "$x", `"q"`, "'q'", `"`, "''", " n", "col 1", "a,b", "x\ny", "\u00e5", "int"}
var typePool = []string{"int", "float", "bool", "string", "string", "enum", "enum", "", "", "foo", "Int"}

func genTypedColumn(r *hlib.Rng, n int) [][]byte {
	kind := r.Intn(7)
	col := make([][]byte, n)
	special := r.Intn(n + 1)
	for i := range col {
		var s string
		switch kind {
		case 6: // whole numbers, one of them of 20 and more digits (beyond uint64 as well as int64)
			s = intCells[r.Intn(wellFormedInts)]
			if i == special || r.Chance(1, 6) {
				s = []string{"18446744073709551617", "36893488147419103232", "20000000000000000000", "-40000000000000000000", "184467440737095516160", "18446744073709551616",
					"00000000000000000000017", "-18446744073709551616", "27670116110564327424"}[r.Intn(9)]
			}
		case 0:
			s = intCells[r.Intn(wellFormedInts)] // well-formed ints
		case 1:
			s = floatCells[r.Intn(len(floatCells))]
			if r.Chance(1, 3) {
				s = intCells[r.Intn(wellFormedInts)]
			}
		case 2:
			s = boolCells[r.Intn(len(boolCells))]
		case 3:
			s = cellPool[r.Intn(len(cellPool))]
		case 4: // small alphabet: enum-like
			s = []string{"x", "y", "z", "", "x"}[r.Intn(5)]
		default:
			all := [][]string{intCells, floatCells, boolCells, cellPool}
			p := all[r.Intn(len(all))]
			s = p[r.Intn(len(p))]
		}
		if kind != 3 && r.Chance(1, 7) {
			s = ""
		}
		col[i] = []byte(s)
	}
	return col
}

func familyRead(s *hlib.Suite, r *hlib.Rng, n int, thorough bool) {
	for it := 0; it < n; it++ {
		delim := byte(',')
		if r.Chance(1, 4) {
			delim = delimPool[r.Intn(len(delimPool))]
		}
		ncols := 1 + r.Intn(4)
		nrows := r.Intn(6)
		if r.Chance(1, 8) {
			nrows = 0
		}
		bigHint := (thorough && it%60 == 5) || it%250 == 7 // large RowCountHint cases in every run
		if bigHint {
			nrows = 999 + r.Intn(5) // the column buffers are re-sized when the 1000th row arrives
			ncols = 1 + r.Intn(2)
		}
		names := make([][]byte, ncols)
		for j := range names {
			if r.Chance(5, 6) {
				names[j] = []byte{byte('A' + j)}
			} else {
				names[j] = []byte(nameCells[r.Intn(len(nameCells))])
			}
		}
		cols := make([][][]byte, ncols)
		for j := range cols {
			cols[j] = genTypedColumn(r, nrows)
			if bigHint { // keep the document small: the evaluation of a case is quadratic in its length
				for i := range cols[j] {
					cols[j][i] = []byte([]string{"x", "y", "", "1"}[r.Intn(4)])
				}
			}
		}
		var rows [][][]byte
		headersGiven := r.Chance(1, 4)
		if !headersGiven {
			rows = append(rows, names)
		}
		for i := 0; i < nrows; i++ {
			row := make([][]byte, ncols)
			for j := range row {
				row[j] = cols[j][i]
			}
			if !bigHint && r.Chance(1, 12) {
				rows = append(rows, [][]byte{{}}) // a blank line
			}
			if !bigHint && r.Chance(1, 40) { // wrong column count
				if r.Bool() {
					row = row[:len(row)-1]
					if len(row) == 0 {
						row = [][]byte{[]byte("x"), []byte("y")}
					}
				} else {
					row = append(row, []byte("extra"))
				}
			}
			rows = append(rows, row)
		}
		st := genStyle(r, delim, rows)
		doc := renderDoc(delim, rows, st)
		wellformed := true
		if r.Chance(1, 12) && len(doc) > 0 {
			// malformed stream: one byte mutated; only model-vs-implementation agreement
			d := append([]byte{}, doc...)
			d[r.Intn(len(d))] = []byte{'"', delim, '\n', '\r'}[r.Intn(4)]
			doc = d
			wellformed = false
		}

		// configuration
		var fns []csv.ConfigFunc
		emptyNull, ignoreEmpty := r.Bool(), r.Bool()
		rename := r.Chance(1, 3)
		alias := ""
		if r.Chance(1, 3) {
			alias = []string{"A", "missing", "B0", "x"}[r.Intn(4)]
		}
		hint := 0
		if r.Chance(1, 4) {
			hint = []int{-1, 1, 1999, 2000, 2001, 5000}[r.Intn(6)]
		}
		if bigHint {
			hint = []int{2000, 2001, 3000, 30000}[r.Intn(4)]
		}
		fns = append(fns, csv.EmptyNull(emptyNull), csv.IgnoreEmptyLines(ignoreEmpty), csv.RenameDuplicateColumns(rename),
			csv.MissingColumnNameAlias(alias), csv.RowCountHint(hint))
		if delim != ',' || r.Bool() {
			fns = append(fns, csv.Delimiter(delim))
		}
		var headers []string
		if headersGiven {
			for _, nm := range names {
				headers = append(headers, string(nm))
			}
			if r.Chance(1, 15) {
				headers = append(headers, "Z")
			}
			fns = append(fns, csv.Headers(headers))
		}
		types := map[string]string{}
		enumVals := map[string][]string{}
		for j, nm := range names {
			if r.Chance(1, 2) {
				continue
			}
			name := string(nm)
			if r.Chance(1, 25) {
				name = "nosuch"
			}
			t := typePool[r.Intn(len(typePool))]
			if r.Chance(2, 3) { // a type that always fits
				t = []string{"string", "enum", "string", "enum", ""}[r.Intn(5)]
			}
			types[name] = t
			if (t == "enum" && r.Chance(2, 3)) || r.Chance(1, 30) {
				var vals []string
				seen := map[string]bool{}
				for _, c := range cols[j] {
					if !seen[string(c)] && !r.Chance(1, 30) {
						seen[string(c)] = true
						vals = append(vals, string(c))
					}
				}
				if r.Chance(1, 6) {
					vals = append(vals, "x", "x")
				}
				enumVals[name] = vals
			}
		}
		if len(types) > 0 {
			fns = append(fns, csv.Types(types))
		}
		if len(enumVals) > 0 {
			fns = append(fns, csv.EnumValues(enumVals))
		}

		ck := r.Intn(len(chunkKindName))
		if bigHint {
			ck = 0
		}
		chunks := chunkDoc(r, doc, ck)
		term := r.Intn(2)
		if r.Chance(1, 15) {
			term = 2 + r.Intn(2)
		}
		id := s.NextID()
		var qf qframe.QFrame
		desc := map[string]interface{}{"family": "readcsv", "doc": q(doc), "delim": delim, "empty_null": emptyNull, "ignore_empty": ignoreEmpty,
			"rename": rename, "alias": alias, "hint": hint, "headers": headers, "types": types, "enum_vals": enumVals,
			"chunking": chunkKindName[ck], "term": term, "wellformed": wellformed}
		argsBefore := fmt.Sprintf("%q %q %q", headers, types, enumVals)
		if p, v := hlib.Recover(func() { qf = qframe.ReadCSV(&schedReader{chunks: chunks, term: term}, fns...) }); p {
			s.Fail(id, fmt.Sprintf("ReadCSV panicked: %v", v), desc, "csv-read-panic")
			continue
		}
		_ = argsBefore
		if term < 2 {
			// the configuration values are the caller's: reading the same stream again with the very same option
			// values must give the same frame (the Headers slice may be normalised in place, idempotently)
			var qf2 qframe.QFrame
			if p, _ := hlib.Recover(func() { qf2 = qframe.ReadCSV(&schedReader{chunks: chunks, term: term}, fns...) }); !p {
				if (qf2.Err == nil) != (qf.Err == nil) || (qf.Err == nil && !framesSame(qf, qf2)) {
					s.Fail(id, "reading the same document twice with the same configuration values gives different results", desc, "")
				}
			}
		}
		// Coq configuration record
		tl := make([]string, 0, len(types))
		tk := make([]string, 0, len(types))
		for k := range types {
			tk = append(tk, k)
		}
		sort.Strings(tk)
		for _, k := range tk {
			tl = append(tl, hlib.Pair(hlib.Str(k), hlib.Str(types[k])))
		}
		el := make([]string, 0, len(enumVals))
		ek := make([]string, 0, len(enumVals))
		for k := range enumVals {
			ek = append(ek, k)
		}
		sort.Strings(ek)
		for _, k := range ek {
			vs := make([][]byte, len(enumVals[k]))
			for i, v := range enumVals[k] {
				vs[i] = []byte(v)
			}
			el = append(el, hlib.Pair(hlib.Str(k), coqBytesList(vs)))
		}
		hl := make([][]byte, len(headers))
		for i, h := range headers {
			hl[i] = []byte(h)
		}
		conf := fmt.Sprintf("(mkConf %s %s %s %s %s %s %s %s %s)", hlib.Bool(emptyNull), hlib.Bool(ignoreEmpty), hlib.N(uint64(delim)),
			hlib.List(tl), hlib.List(el), hlib.Z(int64(hint)), coqBytesList(hl), hlib.Bool(rename), hlib.Str(alias))
		oracle := "None"
		if wellformed {
			oracle = hlib.Some(hlib.Pair(coqRows(rows), coqStyles(st)))
		}
		res := coqOptFrame(qf, enumVals)
		s.Count("readcsv")
		if qf.Err != nil {
			s.Count("readcsv/err")
		} else {
			s.Count("readcsv/ok")
			for _, t := range qf.ColumnTypes() {
				s.Count("readcsv/coltype/" + string(t))
			}
		}
		if !wellformed {
			s.Count("readcsv/malformed")
		}
		s.Add(fmt.Sprintf("CRead %s %s %s %s %s %s", conf, coqBytesList(chunks), hlib.N(uint64(term)), oracle, parseTable(delim, rows, doc), res), desc, qf.Err == nil)
	}
}

// ---------------------------------------------------------------- family roundtrip

var rtNames = []string{"A", "B", "C", "D", "\ufeffid", "\ufeff", "col 1", " x", "x ", "a,b", `q"uote`, "new\nline", "ü", "\xff\xfe", "1", "true", `\.`, "'", "a'b'"}
var rtStrings = []string{"", "", "a", "b", "abc", "\ufeffabc", "\ufeff", " lead", "trail ", " ", `"`, `""`, `a"b`, `"quoted"`, ",", "a,b", ",,", "\n", "a\nb", "l1\nl2\n",
	`\.`, `\`, "\t", "\ttab", " nbsp", "\u0085", " em", "　", "\xc2", "\xe2\x80", "\xff", "\xc3\x28", "1", "true", "NaN", "åäö", "x;y", "'", "a\"\nb,c\"\"",
	"0123456789012345678901234567890123456789"}
var rtCRStrings = []string{"a\r\nb", "\r\n", "x\r\n", "a\r", "\r", "a\rb"}
var rtInts = []int{0, 1, -1, 7, -7, 10, 100, -100, 1234567890, math.MaxInt64, math.MinInt64, math.MaxInt32, math.MinInt32, 999999999999, -1000000000000}

func rtFloat(r *hlib.Rng) float64 {
	pool := []float64{0, math.Copysign(0, -1), 1, -1, 0.1, 0.5, 2.5, 1e21, 1e-7, 123456789.125, math.Inf(1), math.Inf(-1), math.NaN(),
		math.Float64frombits(0x7FF0000000000001), math.Float64frombits(0xFFF8000000000000),
		5e-324, 2.2250738585072014e-308, 2.225073858507201e-308, math.MaxFloat64, -math.MaxFloat64, 1e15, 1e16, 1e17, 3.141592653589793, 1.0 / 3}
	if r.Chance(1, 3) {
		return math.Float64frombits(r.U64())
	}
	if r.Chance(1, 4) {
		// ordinary magnitudes with a full 15-17 digit fraction
		scale := []float64{1, 10, 100, 1000, 1e6}[r.Intn(5)]
		x := float64(r.U64()>>11) / float64(1<<53) * scale
		if r.Bool() {
			x = -x
		}
		return x
	}
	if r.Chance(1, 6) {
		return float64(int64(r.U64()>>uint(r.Intn(60)))) / 8
	}
	return pool[r.Intn(len(pool))]
}

func familyRound(s *hlib.Suite, r *hlib.Rng, n int, thorough bool) {
	for it := 0; it < n; it++ {
		ncols := 1 + r.Intn(4)
		nrows := r.Intn(7)
		perm := r.Perm(len(rtNames))
		names := make([]string, ncols)
		data := map[string]interface{}{}
		enums := map[string][]string{}
		var intCol, anyCol string
		withCR := r.Chance(1, 10)
		for j := 0; j < ncols; j++ {
			name := rtNames[perm[j]]
			names[j] = name
			anyCol = name
			switch r.Intn(5) {
			case 0:
				v := make([]int, nrows)
				for i := range v {
					if r.Chance(1, 4) {
						v[i] = int(r.U64() >> uint(r.Intn(64)))
						if r.Bool() {
							v[i] = -v[i]
						}
					} else {
						v[i] = rtInts[r.Intn(len(rtInts))]
					}
				}
				data[name] = v
				intCol = name
			case 1:
				v := make([]float64, nrows)
				for i := range v {
					v[i] = rtFloat(r)
				}
				data[name] = v
			case 2:
				v := make([]bool, nrows)
				for i := range v {
					v[i] = r.Bool()
				}
				data[name] = v
			case 3:
				v := make([]*string, nrows)
				for i := range v {
					if r.Chance(1, 6) {
						continue
					}
					x := rtStrings[r.Intn(len(rtStrings))]
					if withCR && r.Chance(1, 3) {
						x = rtCRStrings[r.Intn(len(rtCRStrings))]
					}
					v[i] = &x
				}
				data[name] = v
			default:
				k := 1 + r.Intn(4)
				p2 := r.Perm(len(rtStrings))
				vals := make([]string, 0, k)
				seenV := map[string]bool{}
				for i := 0; i < k; i++ { // a declared value list must not repeat a value
					if !seenV[rtStrings[p2[i]]] {
						seenV[rtStrings[p2[i]]] = true
						vals = append(vals, rtStrings[p2[i]])
					}
				}
				k = len(vals)
				v := make([]*string, nrows)
				for i := range v {
					if r.Chance(1, 6) {
						continue
					}
					x := vals[r.Intn(k)]
					v[i] = &x
				}
				data[name] = v
				if r.Chance(1, 5) {
					enums[name] = nil // values derived from the data
				} else {
					enums[name] = vals
				}
			}
		}
		id := s.NextID()
		qf := qframe.New(data, newqf.ColumnOrder(names...), newqf.Enums(enums))
		// derive: the index must not be the identity
		deriv := ""
		if r.Bool() {
			qf = qf.Sort(qframe.Order{Column: anyCol, Reverse: r.Bool(), NullLast: r.Bool()})
			deriv += "sort;"
		}
		if intCol != "" && r.Bool() {
			qf = qf.Filter(qframe.Filter{Column: intCol, Comparator: "!=", Arg: 7})
			deriv += "filter;"
		}
		if qf.Err == nil && qf.Len() > 1 && r.Bool() {
			a := r.Intn(qf.Len())
			b := a + r.Intn(qf.Len()-a+1)
			qf = qf.Slice(a, b)
			deriv += "slice;"
		}
		if qf.Err != nil {
			s.Fail(id, fmt.Sprintf("building the frame failed: %v", qf.Err), map[string]interface{}{"names": names}, "csv-harness")
			continue
		}
		cols, floats, ok := observe(qf, enums)
		if !ok {
			s.Fail(id, "view failed on the source frame", map[string]interface{}{"names": names}, "csv-harness")
			continue
		}
		// writer options
		header := !r.Chance(1, 3)
		var tofns []csv.ToConfigFunc
		tofns = append(tofns, csv.Header(header))
		order := "None"
		written := names
		if r.Chance(1, 2) {
			p := r.Perm(ncols)
			o := make([]string, ncols)
			for i := range o {
				o[i] = names[p[i]]
			}
			if r.Chance(1, 12) {
				o = o[:len(o)-1]
			} else if r.Chance(1, 12) {
				o[0] = "nosuch"
			}
			ob := make([][]byte, len(o))
			for i := range o {
				ob[i] = []byte(o[i])
			}
			order = hlib.Some(coqBytesList(ob))
			tofns = append(tofns, csv.Columns(o))
			written = o
		}
		var buf bytes.Buffer
		writtenBefore := fmt.Sprintf("%q", written)
		werr := qf.ToCSV(&buf, tofns...)
		doc := buf.Bytes()
		if fmt.Sprintf("%q", written) != writtenBefore {
			s.Fail(s.NextID(), "ToCSV changed the slice passed to csv.Columns", map[string]interface{}{"family": "roundtrip", "columns_before": writtenBefore, "columns_after": fmt.Sprintf("%q", written), "props": []string{"C13"}}, "")
		}
		ftab := make([]string, 0, len(floats))
		fseen := map[uint64]bool{}
		for _, x := range floats {
			if math.IsNaN(x) || fseen[math.Float64bits(x)] {
				continue
			}
			fseen[math.Float64bits(x)] = true
			ftab = append(ftab, hlib.Pair(hlib.NHex(math.Float64bits(x)), hlib.Str(strconv.FormatFloat(x, 'f', -1, 64))))
		}
		emptyNull := r.Bool()
		desc := map[string]interface{}{"family": "roundtrip", "names": names, "derivation": deriv, "header": header, "columns": written,
			"empty_null": emptyNull, "written": q(doc), "frame": coqFrame(cols)}
		writtenCoq := "None"
		readback := "None"
		tab := "[]"
		if werr == nil {
			writtenCoq = hlib.Some(B(doc))
			types := map[string]string{}
			for _, c := range cols {
				types[c.name] = c.typ
			}
			ev := map[string][]string{}
			for k, v := range enums {
				ev[k] = v
			}
			rfns := []csv.ConfigFunc{csv.Types(types), csv.EmptyNull(emptyNull)}
			if len(ev) > 0 {
				rfns = append(rfns, csv.EnumValues(ev))
			}
			if !header {
				rfns = append(rfns, csv.Headers(written))
			}
			var back qframe.QFrame
			evBefore := fmt.Sprintf("%q %q", types, ev)
			if p, v := hlib.Recover(func() { back = qframe.ReadCSV(bytes.NewReader(doc), rfns...) }); p {
				s.Fail(id, fmt.Sprintf("ReadCSV panicked on ToCSV output: %v", v), desc, "csv-read-panic")
				continue
			}
			_ = evBefore
			if back2 := qframe.ReadCSV(bytes.NewReader(doc), rfns...); (back2.Err == nil) != (back.Err == nil) || (back.Err == nil && !framesSame(back, back2)) {
				s.Fail(id, "reading the same document twice with the same configuration values gives different frames", desc, "")
			}
			readback = coqOptFrame(back, enums)
			tab = parseTable(',', nil, doc)
			s.Count("roundtrip/written")
			if back.Err != nil {
				s.Count("roundtrip/readback-err")
			}
		} else {
			s.Count("roundtrip/tocsv-err")
		}
		if withCR {
			s.Count("roundtrip/with-CR")
		}
		s.Count(fmt.Sprintf("roundtrip/header=%v", header))
		s.Add(fmt.Sprintf("CRound %s (mkToConf %s %s) %s %s %s %s %s", coqFrame(cols), hlib.Bool(header), order, hlib.List(ftab), writtenCoq, hlib.Bool(emptyNull), tab, readback),
			desc, werr == nil && qf.Len() > 0)
	}
}

// ---------------------------------------------------------------- long rows through the public entry point

// familyLong reads, with qframe.ReadCSV (i.e. through fastcsv.NewReader and its 1 KiB initial buffer), documents
// whose rows cross the buffer size and its doublings: one or two long cells (1000..20000 bytes, quoted with
// doubled quotes and line breaks inside half of the time) followed by many short rows.  Every document is read
// under several fragmentations (whole / 4096 / 8192 / prime sized / random large chunks) and both EOF styles; all
// results must be the rendered rows.  These cases are decided in Go only (the documents are too long for the
// Coq evaluation of the buffer model); a disagreement is a concrete failing input of C12.
func familyLong(s *hlib.Suite, r *hlib.Rng, n int) {
	for it := 0; it < n; it++ {
		ncols := 1 + r.Intn(3)
		nshort := r.Intn(400)
		if r.Chance(1, 8) {
			nshort = 4090 + r.Intn(5000) // more rows than any initial capacity of the per-column buffers
		}
		names := make([][]byte, ncols)
		for j := range names {
			names[j] = []byte{byte('A' + j)}
		}
		rows := [][][]byte{names}
		longAt := r.Intn(3)
		mk := func(k int) []byte {
			b := make([]byte, k)
			for i := range b {
				const alphabet = "abcdefghij  \"\"\n,xyz0123456789"
				b[i] = alphabet[r.Intn(len(alphabet))]
			}
			return b
		}
		nrows := 1 + nshort
		for i := 0; i < nrows; i++ {
			row := make([][]byte, ncols)
			for j := range row {
				row[j] = []byte(fmt.Sprintf("v%d_%d", i, j))
			}
			if (i == 0 && longAt == 0) || (i == nrows/2 && longAt == 1) || (i == nrows-1 && longAt == 2) {
				row[r.Intn(ncols)] = mk([]int{1000, 1023, 1024, 1025, 2047, 2049, 4095, 4097, 5000, 8200, 10000, 20000}[r.Intn(12)])
			}
			rows = append(rows, row)
		}
		st := genStyle(r, ',', rows)
		st.final = r.Bool()
		doc := renderDoc(',', rows, st)
		want := fmt.Sprint(len(rows) - 1)
		types := map[string]string{}
		for _, nm := range names {
			types[string(nm)] = "string"
		}
		var first string
		id := s.NextID()
		for run := 0; run < 6; run++ {
			var chunks [][]byte
			how := ""
			switch run {
			case 0:
				chunks, how = [][]byte{doc}, "whole"
			case 1:
				how = "4096"
				for i := 0; i < len(doc); i += 4096 {
					e := i + 4096
					if e > len(doc) {
						e = len(doc)
					}
					chunks = append(chunks, doc[i:e])
				}
			case 2:
				how = "8192"
				for i := 0; i < len(doc); i += 8192 {
					e := i + 8192
					if e > len(doc) {
						e = len(doc)
					}
					chunks = append(chunks, doc[i:e])
				}
			case 3:
				chunks, how = chunkDoc(r, doc, 4), "primes"
			default:
				chunks, how = chunkDoc(r, doc, 6), "random"
			}
			term := run % 2
			if run >= 4 {
				term = r.Intn(2)
			}
			desc := map[string]interface{}{"family": "long", "doc_len": len(doc), "rows": len(rows) - 1, "cols": ncols, "chunking": how, "eof_with_last_data": term == 1,
				"doc_prefix": q(doc[:minInt(len(doc), 80)]), "props": []string{"C12"}}
			var qf qframe.QFrame
			if p, v := hlib.Recover(func() {
				qf = qframe.ReadCSV(&schedReader{chunks: chunks, term: term}, csv.Types(types))
			}); p {
				s.Fail(id, fmt.Sprintf("ReadCSV panicked: %v", v), desc, "csv-read-panic")
				continue
			}
			s.Count("long-row-reads")
			if qf.Err != nil {
				s.Fail(id, fmt.Sprintf("ReadCSV of a well-formed document failed: %v", qf.Err), desc, "csv-long")
				continue
			}
			var b strings.Builder
			if p, v := hlib.Recover(func() {
				fmt.Fprintf(&b, "%d %v\n", qf.Len(), qf.ColumnNames())
				for _, nm := range qf.ColumnNames() {
					v, err := qf.StringView(nm)
					if err != nil {
						fmt.Fprintf(&b, "view error %v", err)
						continue
					}
					for i := 0; i < v.Len(); i++ {
						if x := v.ItemAt(i); x == nil {
							b.WriteString("nil|")
						} else {
							b.WriteString(strconv.Quote(*x) + "|")
						}
					}
					b.WriteString("\n")
				}
			}); p {
				fmt.Fprintf(&b, "reading the cells panicked: %v", v)
			}
			got := b.String()
			if run == 0 {
				first = got
				// the rows the document was rendered from
				var w strings.Builder
				fmt.Fprintf(&w, "%s %v\n", want, qf.ColumnNames())
				for j := range names {
					for i := 1; i < len(rows); i++ {
						w.WriteString(strconv.Quote(string(rows[i][j])) + "|")
					}
					w.WriteString("\n")
				}
				if w.String() != got {
					s.Fail(id, "ReadCSV of a well-formed document with a long cell does not return the rows it was rendered from", desc, "csv-long")
				}
			} else if got != first {
				s.Fail(id, "fragmentation dependence: two fragmentations of one well-formed document give different frames", desc, "csv-long")
			}
		}
	}
}

func main() {
	cfg := hlib.ParseFlags()
	s := hlib.NewSuite(cfg, "csv")
	defer s.FinishOnPanic()
	s.Header = "From QF Require Import Base.Prelude Base.CaseLib Gen.GenConsts Model.FastCsv Model.CsvSpec Model.CsvWrite Model.CsvRead Corr.CsvCorr.\nLocal Open Scope N_scope.\n"
	s.CaseType = "csv_case"
	s.CheckFn = "check_csv"
	s.PerShard = 60
	s.Rule = "scan: documents rendered from random small tables (adversarial cell pool, random legal quoting styles, LF/CRLF, final break, 12 delimiters) plus a malformed stream (random bytes, one-byte mutations, bare CR); every document is scanned 5 times with different chunkings (whole, 1/2/3-byte, primes, random), initial capacities {1,2,3,4,7,16,1024} and both EOF styles (read failures in a fraction). Non-trivial = non-empty document; distinct by Coq term."
	r := hlib.NewRng(cfg.Seed)
	thorough := cfg.Tier == "thorough"
	n := cfg.N
	// n counts (document, chunking) pairs of the scan family; the other families are scaled from it
	familyScan(s, r.Fork(), n/5, thorough)
	familyRead(s, r.Fork(), n*4/15, thorough)
	familyRound(s, r.Fork(), n/5, thorough)
	familyLong(s, r.Fork(), n/50)
	familyBigRound(s, r.Fork(), 4+n/1000)
	for _, p := range observePanics {
		s.Fail(s.NextID(), p, map[string]interface{}{"family": "observation", "props": []string{"C12", "C13"}}, "csv-observe-panic")
	}
	s.Finish()
}

func minInt(a, b int) int {
	if a < b {
		return a
	}
	return b
}

// framesSame: equal names, types and cells (Equals treats NaN = NaN; enum columns compare by value)
// familyBigRound: the ToCSV -> ReadCSV round trip on frames of several thousand rows (more than any initial
// capacity of the reader's per-column buffers), two to four columns of int / string / float / enum, with and
// without a row count hint.  Decided in Go (too long for the Coq evaluation): every cell of the frame read back,
// seen through the typed views, must be the cell that was written.
func familyBigRound(s *hlib.Suite, r *hlib.Rng, n int) {
	for it := 0; it < n; it++ {
		nrows := 4090 + r.Intn(3000)
		if r.Chance(1, 4) {
			nrows = 8190 + r.Intn(3000)
		}
		ints := make([]int, nrows)
		strs := make([]string, nrows)
		flts := make([]float64, nrows)
		ens := make([]*string, nrows)
		evals := []string{"red", "green", "blue"}
		for i := range ints {
			ints[i] = 1000000 + i*7
			strs[i] = fmt.Sprintf("name-%d", i*3)
			flts[i] = float64(i) / 8
			v := evals[i%3]
			ens[i] = &v
		}
		all := []string{"I", "S", "F", "E"}
		perm := r.Perm(4)
		ncols := 2 + r.Intn(3)
		names := make([]string, ncols)
		for j := range names {
			names[j] = all[perm[j]]
		}
		data := map[string]interface{}{}
		types := map[string]string{}
		for _, nm := range names {
			switch nm {
			case "I":
				data[nm], types[nm] = ints, "int"
			case "S":
				data[nm], types[nm] = strs, "string"
			case "F":
				data[nm], types[nm] = flts, "float"
			default:
				data[nm], types[nm] = ens, "enum"
			}
		}
		enumDecl := map[string][]string{}
		if _, has := data["E"]; has {
			enumDecl["E"] = evals
		}
		qf := qframe.New(data, newqf.ColumnOrder(names...), newqf.Enums(enumDecl))
		hint := []int{0, 0, 100, nrows, nrows + 10}[r.Intn(5)]
		desc := map[string]interface{}{"family": "big-roundtrip", "rows": nrows, "columns": names, "row_count_hint": hint, "props": []string{"C13", "C12"}}
		id := s.NextID()
		if qf.Err != nil {
			s.Fail(id, fmt.Sprintf("building the frame failed: %v", qf.Err), desc, "csv-harness")
			continue
		}
		var buf bytes.Buffer
		if err := qf.ToCSV(&buf); err != nil {
			s.Fail(id, fmt.Sprintf("ToCSV failed: %v", err), desc, "")
			continue
		}
		rfns := []csv.ConfigFunc{csv.Types(types), csv.EnumValues(enumDecl)}
		if hint > 0 {
			rfns = append(rfns, csv.RowCountHint(hint))
		}
		var back qframe.QFrame
		if p, v := hlib.Recover(func() { back = qframe.ReadCSV(bytes.NewReader(buf.Bytes()), rfns...) }); p {
			s.Fail(id, fmt.Sprintf("ReadCSV panicked: %v", v), desc, "csv-read-panic")
			continue
		}
		s.Count("big-roundtrips")
		if back.Err != nil {
			s.Fail(id, fmt.Sprintf("ReadCSV of ToCSV output failed: %v", back.Err), desc, "")
			continue
		}
		bad := ""
		checkCells := func() {
			if back.Len() != nrows || fmt.Sprint(back.ColumnNames()) != fmt.Sprint(names) {
				bad = fmt.Sprintf("read back %d rows, columns %v; written %d rows, columns %v", back.Len(), back.ColumnNames(), nrows, names)
			}
			for _, nm := range names {
				if bad != "" {
					break
				}
				switch nm {
				case "I":
					v := back.MustIntView(nm)
					for i := 0; i < nrows && bad == ""; i++ {
						if v.ItemAt(i) != ints[i] {
							bad = fmt.Sprintf("row %d of %s reads back as %d, written %d", i, nm, v.ItemAt(i), ints[i])
						}
					}
				case "S":
					v := back.MustStringView(nm)
					for i := 0; i < nrows && bad == ""; i++ {
						if x := v.ItemAt(i); x == nil || *x != strs[i] {
							bad = fmt.Sprintf("row %d of %s reads back as %v, written %q", i, nm, hlib.OptStr(x), strs[i])
						}
					}
				case "F":
					v := back.MustFloatView(nm)
					for i := 0; i < nrows && bad == ""; i++ {
						if v.ItemAt(i) != flts[i] {
							bad = fmt.Sprintf("row %d of %s reads back as %v, written %v", i, nm, v.ItemAt(i), flts[i])
						}
					}
				default:
					v := back.MustEnumView(nm)
					for i := 0; i < nrows && bad == ""; i++ {
						if x := v.ItemAt(i); x == nil || *x != *ens[i] {
							bad = fmt.Sprintf("row %d of %s reads back as %v, written %q", i, nm, hlib.OptStr(x), *ens[i])
						}
					}
				}
			}
		}
		if p, v := hlib.Recover(checkCells); p {
			bad = fmt.Sprintf("reading the cells of the frame that ReadCSV returned panicked: %v", v)
		}
		if bad != "" {
			s.Fail(id, "round trip of a long frame: "+bad, desc, "csv-big-roundtrip")
		}
	}
}

func framesSame(a, b qframe.QFrame) bool {
	same := false
	// a frame with corrupted storage may panic while it is read: that is "not the same", never the end of the engine
	if p, _ := hlib.Recover(func() {
		if fmt.Sprint(a.ColumnNames()) != fmt.Sprint(b.ColumnNames()) || fmt.Sprint(a.ColumnTypes()) != fmt.Sprint(b.ColumnTypes()) {
			return
		}
		if a.Len() == 0 && b.Len() == 0 {
			same = true
			return
		}
		same, _ = a.Equals(b)
	}); p {
		return false
	}
	return same
}
