// Engine "ryu": internal/ryu.AppendFloat64f (the float formatter behind ToJSON) against
//   - Model/Ryu.v (code 1: the model must produce the same bytes on the same buffer state),
//   - the certificate checker shortest_b / oracle_f of Model/Ryu.v (code 2: the text must be the canonical
//     positional rendering of the shortest, closest decimal inside the float's rounding interval),
//   - strconv.FormatFloat(f, 'f', -1, 64) and strconv.ParseFloat, compared here in Go (Suite.Fail).
//
// -n is the number of cases handed to Coq.  Independently of it a bulk loop compares the implementation
// with strconv in Go only (200k floats in the quick tier, 20M in the thorough tier).
package main

import (
	"bytes"
	"fmt"
	"math"
	"math/big"
	"strconv"
	"strings"

	"github.com/tobgu/qframe"
	"github.com/tobgu/qframe/verifhook/ryuhook"
	"verifharness/hlib"
)

const (
	mantMask = uint64(1)<<52 - 1
	expInf   = 2047
)

func mk(exp uint64, mant uint64) uint64 { return exp<<52 | (mant & mantMask) }

// ---------------------------------------------------------------- buffer states

type bufState struct {
	name   string
	prefix []byte
	spare  []byte // stale bytes between len and cap
	seed   uint64 // spare = gar(seed, len(spare))
	isNil  bool
}

func withSpare(name string, prefix []byte, r *hlib.Rng, n int) bufState {
	seed, g := garbage(r, n)
	return bufState{name: name, prefix: prefix, spare: g, seed: seed}
}

func (b bufState) build() []byte {
	if b.isNil {
		return nil
	}
	back := make([]byte, len(b.prefix)+len(b.spare))
	copy(back, b.prefix)
	copy(back[len(b.prefix):], b.spare)
	return back[:len(b.prefix):len(back)]
}

// garbage: the stale bytes are a fixed function of (seed, position) that Corr/RyuCorr.v recomputes
// (gar seed len), so that a case costs one short term instead of a 300 byte literal.
// Every fourth byte on average is an ASCII digit (stale digits are the most dangerous garbage).
func garByte(seed uint64, i int) byte {
	x := uint32((seed+uint64(i))*2654435761) >> 24
	if x%4 == 0 {
		return byte('0' + (x/4)%10)
	}
	return byte(x)
}

func garbage(r *hlib.Rng, n int) (uint64, []byte) {
	seed := r.U64() % 1000000
	g := make([]byte, n)
	for i := range g {
		g[i] = garByte(seed, i)
	}
	return seed, g
}

// bytesTerm prints a byte string as a concatenation of short literals and runs (rp c n).
func bytesTerm(b []byte) string {
	if len(b) == 0 {
		return "(@nil N)"
	}
	var parts []string
	i := 0
	lit := func(x []byte) {
		for len(x) > 0 {
			k := len(x)
			if k > 32 {
				k = 32
			}
			parts = append(parts, fmt.Sprintf("bs %d 0x%x", k, x[:k]))
			x = x[k:]
		}
	}
	start := 0
	for i < len(b) {
		j := i
		for j < len(b) && b[j] == b[i] {
			j++
		}
		if j-i >= 12 {
			lit(b[start:i])
			parts = append(parts, fmt.Sprintf("rp %d %d", b[i], j-i))
			start = j
		}
		i = j
	}
	lit(b[start:])
	return "(" + strings.Join(parts, " ++ ") + ")"
}

func somePrefix(r *hlib.Rng) []byte {
	pool := []string{"[", "{\"a\":", "1.5,", "-", "0.", "x", "[1,2,", "\xff\x00"}
	return []byte(pool[r.Intn(len(pool))])
}

// pickState chooses one of the buffer states; need = number of bytes the call is going to append.
func pickState(r *hlib.Rng, need int) bufState {
	switch r.Intn(8) {
	case 0:
		return bufState{name: "nil", isNil: true}
	case 1:
		return bufState{name: "empty-cap0", prefix: []byte{}, spare: []byte{}}
	case 2:
		return withSpare("empty-spare", []byte{}, r, need+r.Intn(8))
	case 3:
		return bufState{name: "prefix-exactcap", prefix: somePrefix(r), spare: []byte{}}
	case 4:
		return withSpare("prefix-spare-exact", somePrefix(r), r, need)
	case 5:
		// too little room: some appends fit, the sizeSlice call may or may not
		k := 0
		if need > 0 {
			k = r.Intn(need)
		}
		return withSpare("prefix-spare-short", somePrefix(r), r, k)
	case 6:
		return withSpare("prefix-spare-24", somePrefix(r), r, 24)
	default:
		return withSpare("prefix-spare-large", somePrefix(r), r, need+1+r.Intn(40))
	}
}

// ---------------------------------------------------------------- Go-level comparison with strconv

// goCheck returns "" when text is what strconv prints for bits and parses back to the same bits.
func goCheck(bits uint64, text []byte) string {
	f := math.Float64frombits(bits)
	want := strconv.FormatFloat(f, 'f', -1, 64)
	if string(text) != want {
		return fmt.Sprintf("AppendFloat64f(%#016x) = %q, strconv.FormatFloat = %q", bits, clip(string(text)), clip(want))
	}
	if f != f {
		return ""
	}
	back, err := strconv.ParseFloat(string(text), 64)
	if err != nil || math.Float64bits(back) != bits {
		return fmt.Sprintf("ParseFloat(AppendFloat64f(%#016x)) = %#016x (err %v)", bits, math.Float64bits(back), err)
	}
	return ""
}

func clip(s string) string {
	if len(s) > 60 {
		return s[:28] + "..." + s[len(s)-28:]
	}
	return s
}

// ---------------------------------------------------------------- families of bit patterns

type family struct {
	name   string
	items  []uint64
	weight int
}

func nextUp(b uint64, k int) uint64   { return b + uint64(k) }
func nextDown(b uint64, k int) uint64 { return b - uint64(k) }

func isFiniteBits(b uint64) bool { return (b>>52)&0x7ff != expInf }

func parseBits(s string) (uint64, bool) {
	f, err := strconv.ParseFloat(s, 64)
	if err != nil || math.IsInf(f, 0) || f == 0 {
		return 0, false
	}
	return math.Float64bits(f), true
}

func families(r *hlib.Rng) []family {
	var fams []family

	// per-exponent sweep: every biased exponent 0..2046 with mantissas 0,1,2,3, max, max-1, max-2 (this
	// contains every power of two and its 1..3 ulp neighbours) and random mantissas
	var pe []uint64
	for e := uint64(0); e <= 2046; e++ {
		for _, m := range []uint64{0, 1, 2, 3, mantMask, mantMask - 1, mantMask - 2} {
			if e == 0 && m == 0 {
				continue
			}
			pe = append(pe, mk(e, m))
		}
		for k := 0; k < 5; k++ {
			pe = append(pe, mk(e, r.U64()))
		}
	}
	fams = append(fams, family{"per-exponent", pe, 50})

	// powers of ten and neighbours
	var p10 []uint64
	for k := -324; k <= 308; k++ {
		if b, ok := parseBits(fmt.Sprintf("1e%d", k)); ok {
			for d := -3; d <= 3; d++ {
				nb := b + uint64(int64(d))
				if isFiniteBits(nb) && nb != 0 {
					p10 = append(p10, nb)
				}
			}
		}
	}
	fams = append(fams, family{"pow10", p10, 10})

	// subnormals
	var sub []uint64
	for m := uint64(1); m <= 40; m++ {
		sub = append(sub, m, mantMask+1-m)
	}
	for k := 0; k < 400; k++ {
		sub = append(sub, (r.U64()&mantMask)>>uint(r.Intn(52)))
	}
	sub = nonzero(sub)
	fams = append(fams, family{"subnormal", sub, 5})

	// neighbourhood of 2^52, 2^53, 2^54 (exact-integer path boundary)
	var n53 []uint64
	for _, e := range []uint64{1023 + 51, 1023 + 52, 1023 + 53, 1023 + 54} {
		base := mk(e, 0)
		for d := -40; d <= 40; d++ {
			n53 = append(n53, base+uint64(int64(d)))
		}
		for k := 0; k < 40; k++ {
			n53 = append(n53, mk(e, r.U64()))
		}
	}
	fams = append(fams, family{"two53", n53, 5})

	// exact integers below 2^53
	var ints []uint64
	for i := 1; i <= 300; i++ {
		ints = append(ints, math.Float64bits(float64(i)))
	}
	for k := 0; k < 300; k++ {
		v := r.U64() >> uint(11+r.Intn(53))
		ints = append(ints, math.Float64bits(float64(v)))
	}
	p := uint64(1)
	for k := 0; k < 16; k++ {
		for _, c := range []uint64{1, 2, 5, 9, 12, 123, 4503, 9007} {
			if c*p < 1<<53 {
				ints = append(ints, math.Float64bits(float64(c*p)))
			}
		}
		p *= 10
	}
	ints = nonzero(ints)
	fams = append(fams, family{"exact-int", ints, 6})

	// halfway-looking and short decimals (deep digit removal, round-half-even, trailing-zero paths)
	var dec []uint64
	for k := 0; k < 1500; k++ {
		nd := 1 + r.Intn(17)
		var sb strings.Builder
		sb.WriteByte(byte('1' + r.Intn(9)))
		for i := 1; i < nd; i++ {
			sb.WriteByte(byte('0' + r.Intn(10)))
		}
		if r.Chance(1, 2) {
			sb.WriteByte('5')
		}
		var e int
		switch r.Intn(3) {
		case 0:
			e = -r.Intn(30)
		case 1:
			e = r.Intn(40) - 20
		default:
			e = r.Intn(630) - 325
		}
		if b, ok := parseBits(sb.String() + "e" + strconv.Itoa(e)); ok {
			dec = append(dec, b)
			if r.Chance(1, 3) {
				dec = append(dec, b+1, b-1)
			}
		}
	}
	for _, s := range []string{"0.5", "1.5", "2.5", "0.125", "0.375", "1e23", "9007199254740993", "5e-324", "1.7976931348623157e308",
		"2.2250738585072014e-308", "2.225073858507201e-308", "4.35", "0.1", "0.2", "0.3", "123456789012345678", "1e21", "1e22", "0.000001", "1e-7",
		"8.41e21", "2.0e22", "5e22", "9.5e22", "4.5e15", "8.5e15", "299792458", "6.02214076e23", "1.602176634e-19"} {
		if b, ok := parseBits(s); ok {
			dec = append(dec, b)
		}
	}
	dec = finiteNonzero(dec)
	fams = append(fams, family{"decimal", dec, 10})

	// dyadic rationals c * 2^-j (short exact binary fractions: vr trailing zeros with negative e2)
	var dy []uint64
	for k := 0; k < 400; k++ {
		c := float64(1 + 2*r.Intn(1<<uint(1+r.Intn(20))))
		dy = append(dy, math.Float64bits(math.Ldexp(c, -(1+r.Intn(110)))))
	}
	fams = append(fams, family{"dyadic", finiteNonzero(dy), 4})

	// large integers >= 2^53 whose scaled mantissa / bounds are multiples of 5^q (trailing-zero logic, e2 >= 0)
	var m5 []uint64
	for e2 := 0; e2 <= 80; e2++ {
		q := int(math.Floor(float64(e2) * math.Log10(2)))
		if e2 > 3 {
			q--
		}
		if q < 1 {
			q = 1
		}
		if q > 22 {
			q = 22
		}
		for _, dq := range []int{0, 1} {
			// dq = 1: multiples of 5^(q-1) that are NOT multiples of 5^q (the neighbouring power must be told apart)
			if q-dq < 1 {
				continue
			}
			p5 := new(big.Int).Exp(big.NewInt(5), big.NewInt(int64(q-dq)), nil)
			if p5.BitLen() > 52 {
				continue
			}
			p5u := p5.Uint64()
			for _, c := range []int64{0, 2, -1, -2} {
				// m2 = (j*5^q - c)/4 in [2^52, 2^53) for a random j with the right residue mod 4
				for tries := 0; tries < 40; tries++ {
					j := (uint64(1)<<54)/p5u + r.U64()%((uint64(1)<<54)/p5u)
					if dq == 1 && j%5 == 0 {
						continue
					}
					v := new(big.Int).Mul(new(big.Int).SetUint64(j), p5)
					v.Sub(v, big.NewInt(c))
					if new(big.Int).Mod(v, big.NewInt(4)).Sign() != 0 {
						continue
					}
					m2 := new(big.Int).Div(v, big.NewInt(4))
					if m2.BitLen() != 53 {
						continue
					}
					exp := uint64(e2 + 2 + 1075)
					if exp >= 2047 {
						continue
					}
					m5 = append(m5, mk(exp, m2.Uint64()))
					break
				}
			}
		}
	}
	fams = append(fams, family{"mult-pow5", m5, 5})

	// large magnitudes (2^53 .. 2^135: the branch e2 >= 0 with its power-of-five tests) with random mantissas
	var big5 []uint64
	for e2 := 0; e2 <= 80; e2++ {
		for k := 0; k < 400; k++ {
			big5 = append(big5, mk(uint64(e2+2+1075), r.U64()))
		}
	}
	fams = append(fams, family{"large-random", big5, 4})

	return fams
}

func nonzero(v []uint64) []uint64 {
	o := v[:0]
	for _, x := range v {
		if x != 0 {
			o = append(o, x)
		}
	}
	return o
}

func finiteNonzero(v []uint64) []uint64 {
	o := v[:0]
	for _, x := range v {
		if x&^(1<<63) != 0 && isFiniteBits(x) {
			o = append(o, x)
		}
	}
	return o
}

// stratified sample of k items (keeps the spread over the family's order, e.g. over the exponents)
func sample(r *hlib.Rng, items []uint64, k int) []uint64 {
	if k >= len(items) {
		return items
	}
	out := make([]uint64, 0, k)
	for i := 0; i < k; i++ {
		lo := i * len(items) / k
		hi := (i + 1) * len(items) / k
		out = append(out, items[lo+r.Intn(hi-lo)])
	}
	return out
}

// ---------------------------------------------------------------- shortest digits through strconv (for RCert)

func shortestDigits(f float64) (*big.Int, int) {
	s := strconv.FormatFloat(math.Abs(f), 'e', -1, 64)
	return sciToME(s)
}

func sciToME(s string) (*big.Int, int) {
	ei := strings.IndexByte(s, 'e')
	mant, es := s[:ei], s[ei+1:]
	e, _ := strconv.Atoi(es)
	digits := strings.Replace(mant, ".", "", 1)
	frac := 0
	if di := strings.IndexByte(mant, '.'); di >= 0 {
		frac = len(mant) - di - 1
	}
	m, _ := new(big.Int).SetString(digits, 10)
	k := e - frac
	ten := big.NewInt(10)
	for m.Sign() != 0 && new(big.Int).Mod(m, ten).Sign() == 0 {
		m.Div(m, ten)
		k++
	}
	return m, k
}

// ---------------------------------------------------------------- main

func main() {
	cfg := hlib.ParseFlags()
	s := hlib.NewSuite(cfg, "ryu")
	defer s.FinishOnPanic()
	s.Header = "From QF Require Import Base.Prelude Base.CaseLib Model.Ryu Corr.RyuCorr.\nLocal Open Scope N_scope.\n"
	s.CaseType = "ryu_case"
	s.CheckFn = "check_ryu"
	s.PerShard = 250
	s.Rule = "RApp: float64 bit patterns from the families per-exponent (all 2047 exponents x mantissa 0..3, max-2..max, random; contains all powers of two +-3 ulp), pow10 (+-3 ulp), subnormal, two53, exact-int, decimal (short and halfway-looking literals), dyadic, mult-pow5, random, specials (+-0, +-Inf); each on a buffer state drawn from nil / empty / empty+garbage / prefix exact cap / prefix+exact spare / prefix+short spare / prefix+24 / prefix+large spare (stale bytes random, digit-heavy). RNaN: NaN patterns (model comparison only). RCert: certificate-checker self-tests (strconv's shortest digits must be accepted, perturbed ones rejected). Non-trivial = finite non-zero float. Every pattern is also compared with strconv.FormatFloat/ParseFloat in Go, plus a Go-only bulk loop."
	r := hlib.NewRng(cfg.Seed)
	// at most 50 failures are recorded in detail, all are counted
	fail := func(id int, what string, c interface{}) {
		s.Count("impl-failure")
		if len(s.ImplFails) < 50 {
			s.Fail(id, what, c, "")
		}
	}

	emit := func(bits uint64, fam string, rr *hlib.Rng) {
		f := math.Float64frombits(bits)
		want := strconv.FormatFloat(f, 'f', -1, 64)
		st := pickState(rr, len(want))
		b := st.build()
		var out []byte
		panicked, pv := hlib.Recover(func() { out = ryuhook.AppendFloat64f(b, f) })
		id := s.NextID()
		desc := map[string]interface{}{"kind": "app", "family": fam, "bits": fmt.Sprintf("%#016x", bits), "float": strconv.FormatFloat(f, 'g', -1, 64),
			"buffer": st.name, "prefix_hex": fmt.Sprintf("%x", st.prefix), "spare_len": len(st.spare), "spare_seed": st.seed}
		s.Count("family:" + fam)
		s.Count("buffer:" + st.name)
		if panicked {
			fail(id, fmt.Sprintf("AppendFloat64f panicked: %v", pv), desc)
			out = append([]byte{}, st.prefix...)
		} else {
			if !bytes.HasPrefix(out, st.prefix) {
				fail(id, "AppendFloat64f changed the bytes already in the buffer", desc)
			} else if msg := goCheck(bits, out[len(st.prefix):]); msg != "" {
				fail(id, msg, desc)
			}
		}
		ctor := "RApp"
		if f != f {
			ctor = "RNaN"
		}
		s.Add(fmt.Sprintf("%s %s %s (gar %d %d) %s", ctor, hlib.NHex(bits), hlib.Bytes(st.prefix), st.seed, len(st.spare), bytesTerm(out)),
			desc, f == f && !math.IsInf(f, 0) && f != 0)
	}

	emitCert := func(bits uint64, rr *hlib.Rng) {
		f := math.Float64frombits(bits)
		m0, k0 := shortestDigits(f)
		add := func(m *big.Int, k int, expect bool, what string) {
			if m.Sign() < 0 {
				return
			}
			s.Count("cert:" + what)
			s.Add(fmt.Sprintf("RCert %s %s %s %s", hlib.NHex(bits&^(1<<63)), m.String()+"%N", hlib.Z(int64(k)), hlib.Bool(expect)),
				map[string]interface{}{"kind": "cert", "bits": fmt.Sprintf("%#016x", bits), "m": m.String(), "k": k, "expect": expect, "what": what}, true)
		}
		one := big.NewInt(1)
		add(m0, k0, true, "shortest")
		switch rr.Intn(5) {
		case 0:
			add(new(big.Int).Add(m0, one), k0, false, "plus1")
		case 1:
			add(new(big.Int).Sub(m0, one), k0, false, "minus1")
		case 2:
			add(new(big.Int).Mul(m0, big.NewInt(10)), k0-1, false, "padded-zero")
		case 3:
			m17, k17 := sciToME(strconv.FormatFloat(math.Abs(f), 'e', 16, 64))
			add(m17, k17, m17.Cmp(m0) == 0 && k17 == k0, "17digits")
		default:
			// one digit fewer, rounded: must be outside the interval (else strconv's would not be shortest)
			if m0.Cmp(big.NewInt(10)) >= 0 {
				h := new(big.Int).Add(m0, big.NewInt(5))
				h.Div(h, big.NewInt(10))
				hm, hk := h, k0+1
				for new(big.Int).Mod(hm, big.NewInt(10)).Sign() == 0 {
					hm = new(big.Int).Div(hm, big.NewInt(10))
					hk++
				}
				add(hm, hk, false, "one-digit-fewer")
			}
		}
	}

	// ---- all family members go through the Go-level comparison
	fams := families(r.Fork())
	goChecked := 0
	nilBuf := func(bits uint64, fam string) {
		f := math.Float64frombits(bits)
		var out []byte
		if p, v := hlib.Recover(func() { out = ryuhook.AppendFloat64f(nil, f) }); p {
			fail(-1, fmt.Sprintf("AppendFloat64f(nil, %v) panicked: %v", f, v), map[string]interface{}{"kind": "go-only", "family": fam, "bits": fmt.Sprintf("%#016x", bits)})
			goChecked++
			return
		}
		if msg := goCheck(bits, out); msg != "" {
			fail(-1, msg, map[string]interface{}{"kind": "go-only", "family": fam, "bits": fmt.Sprintf("%#016x", bits)})
		}
		goChecked++
	}
	for _, fm := range fams {
		for _, b := range fm.items {
			nilBuf(b, fm.name)
			nilBuf(b|1<<63, fm.name)
		}
	}

	// ---- the same floats through the public path: a float column written by ToJSON must show, cell by cell,
	// exactly the text strconv.FormatFloat(f, 'f', -1, 64) (null for NaN)
	{
		var fl []float64
		for _, fm := range fams {
			items := fm.items
			if len(items) > 600 {
				items = sample(r.Fork(), items, 600)
			}
			for _, b := range items {
				for _, bb := range []uint64{b, b | 1<<63} {
					if isFiniteBits(bb) {
						fl = append(fl, math.Float64frombits(bb))
					}
				}
			}
		}
		fl = append(fl, 0, math.Copysign(0, -1), math.NaN(), 1, -1, 0.5, 1e21, 123456789, 4294967296, 9999999999, 5551234567)
		var buf bytes.Buffer
		qf := qframe.New(map[string]interface{}{"F": fl})
		var jerr error
		if p, v := hlib.Recover(func() { jerr = qf.ToJSON(&buf) }); p {
			fail(-1, fmt.Sprintf("ToJSON of a float column panicked: %v", v), map[string]interface{}{"kind": "to_json-path", "floats": len(fl)})
		} else if err := jerr; err != nil {
			fail(-1, "ToJSON of a float column failed: "+err.Error(), map[string]interface{}{"kind": "to_json-path", "floats": len(fl)})
		} else {
			recs := bytes.Split(bytes.TrimSuffix(bytes.TrimPrefix(buf.Bytes(), []byte("[")), []byte("]")), []byte("},{"))
			if len(recs) != len(fl) {
				fail(-1, fmt.Sprintf("ToJSON wrote %d records for %d rows", len(recs), len(fl)), map[string]interface{}{"kind": "to_json-path"})
			} else {
				for i, rec := range recs {
					txt := string(bytes.TrimSuffix(bytes.TrimPrefix(bytes.TrimPrefix(rec, []byte("{")), []byte(`"F":`)), []byte("}")))
					want := "null"
					if !math.IsNaN(fl[i]) {
						want = strconv.FormatFloat(fl[i], 'f', -1, 64)
					}
					if txt != want {
						fail(-1, fmt.Sprintf("ToJSON writes the float %#016x as %s, strconv.FormatFloat gives %s", math.Float64bits(fl[i]), clip(txt), clip(want)),
							map[string]interface{}{"kind": "to_json-path", "bits": fmt.Sprintf("%#016x", math.Float64bits(fl[i]))})
						break
					}
				}
			}
		}
		s.Count("to_json-path-floats")
	}

	// ---- cases for Coq
	n := cfg.N
	if n < 40 {
		n = 40
	}
	nCert := n / 16
	nApp := n - 2*nCert
	specials := []uint64{0, 1 << 63, mk(expInf, 0), 1<<63 | mk(expInf, 0)}
	nans := []uint64{mk(expInf, 1<<51), mk(expInf, 1), 1<<63 | mk(expInf, 1<<51), mk(expInf, mantMask)}
	rs := r.Fork()
	for _, b := range specials {
		emit(b, "special", rs.Fork())
	}
	for _, b := range nans {
		emit(b, "nan", rs.Fork())
	}
	nApp -= len(specials) + len(nans)
	wsum := 10 // the random family
	for _, fm := range fams {
		wsum += fm.weight
	}
	var certPool []uint64
	used := 0
	for _, fm := range fams {
		quota := nApp * fm.weight / wsum
		rf := r.Fork()
		pick := sample(rf, fm.items, quota)
		for _, b := range pick {
			if rf.Chance(1, 3) {
				b |= 1 << 63
			}
			emit(b, fm.name, rf.Fork())
			certPool = append(certPool, b)
			used++
		}
	}
	rr := r.Fork()
	for used < nApp {
		b := rr.U64()
		if !isFiniteBits(b) {
			continue
		}
		emit(b, "random", rr.Fork())
		certPool = append(certPool, b)
		used++
	}
	rc := r.Fork()
	for i := 0; i < nCert && len(certPool) > 0; i++ {
		b := certPool[rc.Intn(len(certPool))]
		if b&^(1<<63) == 0 {
			continue
		}
		emitCert(b, rc.Fork())
	}

	// ---- Go-only bulk comparison with strconv
	bulk := 200000
	if cfg.Tier == "thorough" {
		bulk = 20000000
	}
	if cfg.Only >= 0 {
		bulk = 0
	}
	rb := r.Fork()
	reuse := make([]byte, 2, 512)
	reuse[0], reuse[1] = '[', ','
	fails := 0
	for i := 0; i < bulk && fails < 20; i++ {
		var bits uint64
		switch i & 3 {
		case 0, 1:
			bits = rb.U64()
		case 2:
			// random exponent, structured mantissa
			m := rb.U64() & mantMask
			switch rb.Intn(4) {
			case 0:
				m >>= uint(rb.Intn(52))
			case 1:
				m = mantMask - m>>uint(rb.Intn(52))
			case 2:
				m &= rb.U64()
				m &= rb.U64()
			}
			bits = mk(uint64(rb.Intn(2047)), m) | (rb.U64() & (1 << 63))
		default:
			// born from a short decimal literal
			nd := 1 + rb.Intn(17)
			v := rb.U64() % pow10u(nd)
			if b, ok := parseBits(strconv.FormatUint(v, 10) + "e" + strconv.Itoa(rb.Intn(640)-330)); ok {
				bits = b
			} else {
				bits = rb.U64()
			}
		}
		if !isFiniteBits(bits) && bits&mantMask != 0 {
			continue // NaN: excluded by the caller
		}
		f := math.Float64frombits(bits)
		var out []byte
		if i&4 == 0 {
			// stale digits in the spare capacity
			sp := reuse[2:cap(reuse)]
			for j := range sp {
				sp[j] = byte('0' + (i+j)%10)
			}
			var res []byte
			if p, v := hlib.Recover(func() { res = ryuhook.AppendFloat64f(reuse[:2], f) }); p {
				fail(-1, fmt.Sprintf("AppendFloat64f on a buffer of length 2 and capacity %d panicked for %v: %v", cap(reuse), f, v), map[string]interface{}{"kind": "go-only", "bits": fmt.Sprintf("%#016x", bits)})
				fails++
				continue
			}
			if len(res) < 2 || res[0] != '[' || res[1] != ',' {
				fail(-1, "AppendFloat64f changed the bytes already in the buffer", map[string]interface{}{"kind": "go-only", "bits": fmt.Sprintf("%#016x", bits)})
				fails++
				continue
			}
			out = res[2:]
		} else {
			if p, v := hlib.Recover(func() { out = ryuhook.AppendFloat64f(nil, f) }); p {
				fail(-1, fmt.Sprintf("AppendFloat64f(nil, %v) panicked: %v", f, v), map[string]interface{}{"kind": "go-only", "bits": fmt.Sprintf("%#016x", bits)})
				fails++
				continue
			}
		}
		if msg := goCheck(bits, out); msg != "" {
			fail(-1, msg, map[string]interface{}{"kind": "go-only", "family": "bulk", "bits": fmt.Sprintf("%#016x", bits)})
			fails++
		}
		goChecked++
	}
	s.Dist["go-only-compared-with-strconv"] = goChecked

	s.Finish()
}

func pow10u(n int) uint64 {
	p := uint64(1)
	for i := 0; i < n; i++ {
		p *= 10
	}
	return p
}
