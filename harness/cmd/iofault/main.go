// Engine "iofault" (property C15): the six I/O entry points under injected reader / writer /
// driver faults against Model/IOFault.v and Model/Sql.v.
//
// EXHAUSTIVE: one case is one document or frame together with the observations for EVERY fault
// position (byte offset of the stream 0..len, row of the result set, statement number, plus the
// fault-free run).  -n is the number of documents/frames; the number of injections is reported in
// meta.json (distribution key "injections").
package main

import (
	"bytes"
	"database/sql/driver"
	stdcsv "encoding/csv"
	"errors"
	"fmt"
	"io"
	"math"
	"strings"
	"unicode"
	"unicode/utf8"

	"github.com/tobgu/qframe"
	"github.com/tobgu/qframe/config/csv"
	"github.com/tobgu/qframe/config/newqf"
	qsql "github.com/tobgu/qframe/config/sql"
	"verifharness/cmd/sql/fakedb"
	"verifharness/cmd/sql/sqlterm"
	"verifharness/hlib"
)

var errInjected = errors.New("iofault: injected fault")

// eofLike is an error that is not io.EOF but answers errors.Is(err, io.EOF) with true (as a transport error that
// wraps the EOF of the connection it lost does): only io.EOF ITSELF ends a stream regularly.
type eofLike struct{}

func (eofLike) Error() string        { return "iofault: connection lost" }
func (eofLike) Is(target error) bool { return target == io.EOF }

// the injected reader fault takes one of these forms, by fault position
var faultErrs = []error{errInjected, fmt.Errorf("iofault: read: connection reset by peer: %w", io.EOF), io.ErrUnexpectedEOF, eofLike{}, errInjected}

// ---------------------------------------------------------------- fault reader / writer

// faultReader delivers data[:limit] in reads of at most chunk bytes and then returns term forever
// (limit = len(data), term = io.EOF when it never fails).  withData: the terminal error comes
// together with the last bytes.
type faultReader struct {
	data     []byte
	pos      int
	limit    int
	chunk    int
	term     error
	withData bool
}

func newFaultReader(doc []byte, k int, chunk int, withData bool) *faultReader {
	if k > len(doc) { // never fails
		return &faultReader{data: doc, limit: len(doc), chunk: chunk, term: io.EOF, withData: withData}
	}
	return &faultReader{data: doc, limit: k, chunk: chunk, term: faultErrs[(k+len(doc))%len(faultErrs)], withData: withData}
}

func (r *faultReader) Read(p []byte) (int, error) {
	avail := r.limit - r.pos
	if avail == 0 {
		return 0, r.term
	}
	n := len(p)
	if r.chunk < n {
		n = r.chunk
	}
	if avail < n {
		n = avail
	}
	copy(p, r.data[r.pos:r.pos+n])
	r.pos += n
	if r.pos == r.limit && r.withData {
		return n, r.term
	}
	return n, nil
}

// faultWriter accepts left more bytes, then cuts the write short and fails.
type faultWriter struct {
	left int
	got  int
}

func (w *faultWriter) Write(p []byte) (int, error) {
	if len(p) <= w.left {
		w.left -= len(p)
		w.got += len(p)
		return len(p), nil
	}
	n := w.left
	w.got += n
	w.left = 0
	return n, errInjected
}

// faultStringWriter additionally implements io.StringWriter.
type faultStringWriter struct{ faultWriter }

func (w *faultStringWriter) WriteString(s string) (int, error) { return w.Write([]byte(s)) }

// chunked prints a long list as (concat [[..]; [..]; ...]) with at most 250 items per literal:
// coqc overflows its stack on list literals of several thousand items.
func chunked(it []string) string {
	if len(it) <= 250 {
		return hlib.List(it)
	}
	var parts []string
	for i := 0; i < len(it); i += 250 {
		j := i + 250
		if j > len(it) {
			j = len(it)
		}
		parts = append(parts, hlib.List(it[i:j]))
	}
	return "(concat " + hlib.List(parts) + ")"
}

// bytesT prints a byte string; long ones as a concatenation of 256 byte pieces (coqc overflows its
// stack on a hexadecimal numeral of many thousand digits).
func bytesT(b []byte) string {
	if len(b) <= 256 {
		return hlib.Bytes(b)
	}
	var parts []string
	for i := 0; i < len(b); i += 256 {
		j := i + 256
		if j > len(b) {
			j = len(b)
		}
		parts = append(parts, hlib.Bytes(b[i:j]))
	}
	return "(concat " + hlib.List(parts) + ")"
}

func nList(v []int) string {
	it := make([]string, len(v))
	for i, x := range v {
		it[i] = hlib.N(uint64(x))
	}
	return chunked(it)
}

func boolList(v []bool) string {
	it := make([]string, len(v))
	for i, x := range v {
		it[i] = hlib.Bool(x)
	}
	return chunked(it)
}

type pieceRecorder struct{ pieces [][]byte }

func (w *pieceRecorder) Write(p []byte) (int, error) {
	w.pieces = append(w.pieces, append([]byte{}, p...))
	return len(p), nil
}

// ---------------------------------------------------------------- observations

func iobs(panicked bool, qf qframe.QFrame) string {
	if panicked {
		return "IPanic"
	}
	if qf.Err != nil {
		return "IErr"
	}
	return fmt.Sprintf("(IOk %s)", hlib.Nat(qf.Len()))
}

type modeT struct {
	chunk    int
	withData bool
	name     string
}

var modes = []modeT{{1, false, "1-byte reads"}, {2000, false, "whole reads"}, {2000, true, "whole reads, error with the last bytes"}, {3, true, "3-byte reads, error with the last bytes"}}

// ---------------------------------------------------------------- ReadCSV

type csvDoc struct {
	doc     string
	headers []string
	ignore  bool
}

var csvDocs = []csvDoc{
	{"a,b\n1,2\n3,4\n", nil, false},
	{"a,b\n1,2\n3,4", nil, false},
	{"a\n1\n2\n3\n", nil, false},
	{"a,b\r\n1,2\r\n3,4\r\n", nil, false},
	{"a,b\n\"x\",\"y\"\n", nil, false},
	{"a,b\n\"x,1\",\"y\"\"z\"\n\"p\",q\n", nil, false},
	{"a,b\n\"l1\nl2\",2\n", nil, false},
	{"a,b\n1,\n", nil, false},
	{"a,b\n1,", nil, false},
	{"a,b\n\"x\",", nil, false},
	{"a,b\n1,2\n\n3,4\n", nil, true},
	{"a,b\n1,2\n\n3,4\n", nil, false},
	{"", nil, false},
	{"a", nil, false},
	{"a\n", nil, false},
	{"a,b\n1\n", nil, false},
	{"a,a\n1,2\n", nil, false},
	{"1,2\n3,4\n", []string{"x", "y"}, false},
	{"a,b,c\nfoo,1.5,true\nbar,2.5,false\n,,\n", nil, false},
	{"x\n\n", nil, true},
	{"\"a\",\"b\"\n1,2\n", nil, false},
	{"a,b\n1,2\n3,4\n\n", nil, false},
}

func genCsvDoc(r *hlib.Rng) csvDoc {
	ncols := 1 + r.Intn(3)
	nrows := r.Intn(6)
	var b strings.Builder
	cells := []string{"1", "22", "x", "", "\"q\"", "\"a,b\"", "\"a\"\"b\"", "3.5", "true", "\"l\nm\""}
	for j := 0; j < ncols; j++ {
		if j > 0 {
			b.WriteByte(',')
		}
		fmt.Fprintf(&b, "c%d", j)
	}
	eol := "\n"
	if r.Chance(1, 4) {
		eol = "\r\n"
	}
	b.WriteString(eol)
	for i := 0; i < nrows; i++ {
		for j := 0; j < ncols; j++ {
			if j > 0 {
				b.WriteByte(',')
			}
			b.WriteString(cells[r.Intn(len(cells))])
		}
		if i+1 < nrows || r.Chance(3, 4) {
			b.WriteString(eol)
		}
	}
	return csvDoc{doc: b.String(), ignore: r.Chance(1, 3)}
}

func caseReadCsv(s *hlib.Suite, d csvDoc, m modeT) {
	doc := []byte(d.doc)
	obs := make([]string, 0, len(doc)+2)
	var fails []int
	for k := 0; k <= len(doc)+1; k++ {
		rd := newFaultReader(doc, k, m.chunk, m.withData)
		var qf qframe.QFrame
		opts := []csv.ConfigFunc{csv.IgnoreEmptyLines(d.ignore)}
		if len(d.headers) > 0 {
			opts = append(opts, csv.Headers(d.headers))
		}
		panicked, _ := hlib.Recover(func() { qf = qframe.ReadCSV(rd, opts...) })
		obs = append(obs, iobs(panicked, qf))
		if panicked {
			fails = append(fails, k)
		}
		s.Count("injections")
		s.Count("injections/read_csv")
	}
	desc := map[string]interface{}{"kind": "read_csv", "exhaustive": true, "doc": d.doc, "headers": d.headers, "ignore_empty_lines": d.ignore, "mode": m.name,
		"positions": fmt.Sprintf("reader fails at offset k for every k in 0..%d; last entry: never fails", len(doc))}
	id := s.Add(fmt.Sprintf("FReadCsv %s %s %s %s %s %s", hlib.Bytes(doc), sqlterm.StrList(d.headers), hlib.Bool(d.ignore), hlib.Nat(m.chunk), hlib.Bool(m.withData), hlib.List(obs)), desc, len(doc) > 0)
	for _, k := range fails {
		s.Fail(id, fmt.Sprintf("ReadCSV panicked with the reader failing at offset %d", k), desc, "iofault-read-csv-panic")
	}
}

// ---------------------------------------------------------------- ReadJSON

var jsonDocs = []string{
	`[{"a":1,"b":"x"},{"a":2,"b":"y"}]`,
	`[{"a":1,"b":"x"},{"a":2,"b":"y"}]` + "\n",
	"  [ {\"a\" : 1.5} ,\n {\"a\" : 2.5} ]  \n",
	`[{"s":"]\"}"},{"s":"\\"}]`,
	`[]`,
	`[{"a":true,"s":null},{"a":false,"s":"x"}]`,
	`[{"a":[1,2]}]`,
	`{"a":1}`,
	`[{"a":1},{"b":2}]`,
	`[{"a":1}`,
	``,
	"  \n",
	`[{"a":1,"b":{"c":[1,{"d":"}"}]}}]`,
	`[{"a":1}]` + "   ",
}

func genJSONDoc(r *hlib.Rng) string {
	n := r.Intn(5)
	var b strings.Builder
	b.WriteString("[")
	for i := 0; i < n; i++ {
		if i > 0 {
			b.WriteString(",")
		}
		fmt.Fprintf(&b, `{"i":%d,"f":%d.5,"s":%q,"b":%v}`, r.Intn(100), r.Intn(10), []string{"", "x", "]", "a\"b", "{", "\\"}[r.Intn(6)], r.Bool())
	}
	b.WriteString("]")
	if r.Bool() {
		b.WriteString("\n")
	}
	return b.String()
}

func caseReadJSON(s *hlib.Suite, docS string, m modeT) {
	doc := []byte(docS)
	base := qframe.ReadJSON(bytes.NewReader(doc))
	baseT := "None"
	if base.Err == nil {
		baseT = hlib.Some(hlib.Nat(base.Len()))
	}
	obs := make([]string, 0, len(doc)+2)
	var fails []int
	for k := 0; k <= len(doc)+1; k++ {
		rd := newFaultReader(doc, k, m.chunk, m.withData)
		var qf qframe.QFrame
		panicked, _ := hlib.Recover(func() { qf = qframe.ReadJSON(rd) })
		obs = append(obs, iobs(panicked, qf))
		if panicked {
			fails = append(fails, k)
		}
		s.Count("injections")
		s.Count("injections/read_json")
	}
	desc := map[string]interface{}{"kind": "read_json", "exhaustive": true, "doc": docS, "mode": m.name,
		"positions": fmt.Sprintf("reader fails at offset k for every k in 0..%d; last entry: never fails", len(doc))}
	id := s.Add(fmt.Sprintf("FReadJson %s %s %s %s %s", hlib.Bytes(doc), hlib.Nat(m.chunk), hlib.Bool(m.withData), baseT, hlib.List(obs)), desc, len(doc) > 0)
	for _, k := range fails {
		s.Fail(id, fmt.Sprintf("ReadJSON panicked with the reader failing at offset %d", k), desc, "iofault-read-json-panic")
	}
}

// ---------------------------------------------------------------- ToCSV / ToJSON

// fieldNeedsQuotes as in encoding/csv (Comma = ',').
func fieldNeedsQuotes(field string) bool {
	if field == "" {
		return false
	}
	if field == `\.` {
		return true
	}
	if strings.ContainsRune(field, ',') || strings.ContainsAny(field, "\"\r\n") {
		return true
	}
	r1, _ := utf8.DecodeRuneInString(field)
	return unicode.IsSpace(r1)
}

// recordOps lists the bufio calls csv.Writer.Write issues for a record (UseCRLF = false).
func recordOps(record []string) (ops []string, flat []byte) {
	wb := func(c byte) { ops = append(ops, "WByte "+hlib.N(uint64(c))); flat = append(flat, c) }
	ws := func(x string) { ops = append(ops, "WStr "+bytesT([]byte(x))); flat = append(flat, x...) }
	for n, field := range record {
		if n > 0 {
			wb(',')
		}
		if !fieldNeedsQuotes(field) {
			ws(field)
			continue
		}
		wb('"')
		for len(field) > 0 {
			i := strings.IndexAny(field, "\"\r\n")
			if i < 0 {
				i = len(field)
			}
			ws(field[:i])
			field = field[i:]
			if len(field) > 0 {
				switch field[0] {
				case '"':
					ws(`""`)
				case '\r':
					wb('\r')
				case '\n':
					wb('\n')
				}
				field = field[1:]
			}
		}
		wb('"')
	}
	wb('\n')
	return
}

type frameSpec struct {
	name   string
	qf     qframe.QFrame
	header bool
	big    bool
}

func sp(x string) *string { return &x }

func frames(r *hlib.Rng, tier string) []frameSpec {
	long := strings.Repeat("abcdefghij", 100)
	manyI := make([]int, 600)
	manyS := make([]string, 600)
	for i := range manyI {
		manyI[i] = 100 + i
		manyS[i] = "v"
	}
	fs := []frameSpec{
		{"ints", qframe.New(map[string]interface{}{"a": []int{1, 2, 3}, "b": []int{-4, 5, 60}}), true, false},
		{"ints no header", qframe.New(map[string]interface{}{"a": []int{1, 2, 3}, "b": []int{-4, 5, 60}}), false, false},
		{"quoted strings", qframe.New(map[string]interface{}{"s": []string{"x,y", "q\"q", "l1\nl2", " lead", ""}, "t": []*string{sp("a"), nil, sp("b"), nil, sp("\\.")}}), true, false},
		{"floats bools", qframe.New(map[string]interface{}{"f": []float64{1.5, math.NaN(), -0.25}, "b": []bool{true, false, true}}), true, false},
		{"no rows", qframe.New(map[string]interface{}{"a": []int{}}), true, false},
		{"no rows no header", qframe.New(map[string]interface{}{"a": []int{}}), false, false},
		{"enum sorted", qframe.New(map[string]interface{}{"e": []*string{sp("u"), nil, sp("v"), sp("u")}, "i": []int{4, 3, 2, 1}}, newqf.Enums(map[string][]string{"e": nil})).Sort(qframe.Order{Column: "i"}), true, false},
		{"one 5000 byte field", qframe.New(map[string]interface{}{"s": []string{strings.Repeat(long, 5)}}), true, true},
		{"5 rows of 1000 bytes", qframe.New(map[string]interface{}{"s": []string{long, long, long, long, long}, "i": []int{1, 2, 3, 4, 5}}), true, true},
		{"field ending exactly at 4096", qframe.New(map[string]interface{}{"s": []string{strings.Repeat("z", 4096-2-1), "tail"}}), true, true},
		{"quoted 4200 byte field", qframe.New(map[string]interface{}{"s": []string{strings.Repeat("a,\"", 150) + strings.Repeat("b", 3900)}}), false, true},
	}
	if tier != "quick" {
		fs = append(fs, frameSpec{"600 short rows", qframe.New(map[string]interface{}{"i": manyI, "s": manyS}), true, true})
	}
	return fs
}

func genSmallFrame(r *hlib.Rng) frameSpec {
	n := r.Intn(5)
	iv := make([]int, n)
	sv := make([]*string, n)
	fv := make([]float64, n)
	pool := []string{"", "a", "x,y", "q\"", "two\nlines", "plain text"}
	for i := 0; i < n; i++ {
		iv[i] = r.Intn(2000) - 1000
		fv[i] = float64(r.Intn(100)) / 4
		if !r.Chance(1, 4) {
			sv[i] = sp(pool[r.Intn(len(pool))])
		}
	}
	qf := qframe.New(map[string]interface{}{"i": iv, "s": sv, "f": fv})
	if n > 1 && r.Bool() {
		qf = qf.Sort(qframe.Order{Column: "i", Reverse: r.Bool()})
	}
	return frameSpec{fmt.Sprintf("random %d rows", n), qf, r.Bool(), false}
}

func caseWriteCsv(s *hlib.Suite, r *hlib.Rng, f frameSpec, sw bool) {
	if f.qf.Err != nil {
		panic(f.qf.Err)
	}
	var full bytes.Buffer
	if err := f.qf.ToCSV(&full, csv.Header(f.header)); err != nil {
		panic(err)
	}
	out := full.Bytes()
	// the records, recovered from the fault-free output, and the bufio calls they cause
	rd := stdcsv.NewReader(bytes.NewReader(out))
	rd.FieldsPerRecord = -1
	recs, err := rd.ReadAll()
	if err != nil {
		panic(err)
	}
	// encoding/csv skips empty lines when reading: a frame with one column of empty strings
	// is not used here.
	var flatAll []byte
	recTerms := make([]string, len(recs))
	for i, rec := range recs {
		ops, flat := recordOps(rec)
		flatAll = append(flatAll, flat...)
		recTerms[i] = hlib.List(ops)
	}
	if !bytes.Equal(flatAll, out) {
		panic(fmt.Sprintf("harness: the write operations do not reproduce the output of frame %q", f.name))
	}
	headerT := "None"
	rowsT := recTerms
	if f.header {
		headerT = hlib.Some(recTerms[0])
		rowsT = recTerms[1:]
	}
	errs := make([]bool, 0, len(out)+2)
	gots := make([]int, 0, len(out)+2)
	var fails []int
	for k := 0; k <= len(out)+1; k++ {
		var w io.Writer
		var fw *faultWriter
		if sw {
			x := &faultStringWriter{faultWriter{left: k}}
			w, fw = x, &x.faultWriter
		} else {
			fw = &faultWriter{left: k}
			w = fw
		}
		var werr error
		panicked, _ := hlib.Recover(func() { werr = f.qf.ToCSV(w, csv.Header(f.header)) })
		if panicked {
			fails = append(fails, k)
		}
		errs = append(errs, werr != nil || panicked)
		gots = append(gots, fw.got)
		s.Count("injections")
		s.Count("injections/to_csv")
	}
	// positions at which the model is evaluated: all of them for small outputs
	var ks []int
	if len(out) <= 400 {
		for k := 0; k <= len(out)+1; k++ {
			ks = append(ks, k)
		}
	} else {
		for _, k := range []int{0, 1, 4095, 4096, 4097, len(out) - 1, len(out), len(out) + 1} {
			if k >= 0 && k <= len(out)+1 {
				ks = append(ks, k)
			}
		}
		for i := 0; i < 4; i++ {
			ks = append(ks, r.Intn(len(out)+2))
		}
	}
	desc := map[string]interface{}{"kind": "to_csv", "exhaustive": true, "frame": f.name, "header": f.header, "string_writer": sw, "output_bytes": len(out),
		"positions": fmt.Sprintf("writer accepts k bytes then fails, every k in 0..%d (%d = never); oracle at every k, model at %d of them", len(out)+1, len(out)+1, len(ks))}
	if len(out) > 4096 {
		s.Count("to_csv/output>4096")
	}
	id := s.Add(fmt.Sprintf("FWriteCsv %s %s %s %s %s %s %s", headerT, hlib.List(rowsT), hlib.Bool(sw), hlib.Nat(len(out)), boolList(errs), nList(gots), hlib.NatList(ks)), desc, len(out) > 0)
	for _, k := range fails {
		s.Fail(id, fmt.Sprintf("ToCSV panicked with the writer failing after %d bytes", k), desc, "iofault-to-csv-panic")
	}
}

func caseWriteJSON(s *hlib.Suite, f frameSpec) {
	rec := &pieceRecorder{}
	if err := f.qf.ToJSON(rec); err != nil {
		panic(err)
	}
	total0 := 0
	for _, p := range rec.pieces {
		total0 += len(p)
	}
	// Go-side oracle, independent of how ToJSON cuts its output into Write calls: a writer that accepts only k
	// bytes of an output of n > k bytes has not accepted the output; ToJSON must report an error
	for k := 0; k < total0; k++ {
		fw := &faultWriter{left: k}
		var werr error
		panicked, pv := hlib.Recover(func() { werr = f.qf.ToJSON(fw) })
		if panicked || werr == nil {
			s.Fail(s.NextID(), fmt.Sprintf("ToJSON reports success (or panics: %v) although the writer accepted only %d of %d bytes", pv, k, total0),
				map[string]interface{}{"kind": "to_json", "frame": f.name, "accepted_bytes": k, "output_bytes": total0, "props": []string{"C15"}}, "")
			break
		}
	}
	if len(rec.pieces) < 2 || string(rec.pieces[0]) != "[" || string(rec.pieces[len(rec.pieces)-1]) != "]" {
		// the write pattern differs from the one the model transcribes: the exact comparison is not possible
		s.Count("to_json-unexpected-write-pattern")
		s.Broken("ToJSON no longer writes \"[\", one piece per record, \"]\" (frame " + f.name + "): the model of its write pattern cannot be compared")
		return
	}
	total := 0
	for _, p := range rec.pieces {
		total += len(p)
	}
	mid := rec.pieces[1 : len(rec.pieces)-1]
	recT := make([]string, len(mid))
	for i, p := range mid {
		recT[i] = hlib.Bytes(p)
	}
	errs := make([]bool, 0, total+2)
	gots := make([]int, 0, total+2)
	var fails []int
	for k := 0; k <= total+1; k++ {
		fw := &faultWriter{left: k}
		var werr error
		panicked, _ := hlib.Recover(func() { werr = f.qf.ToJSON(fw) })
		if panicked {
			fails = append(fails, k)
		}
		errs = append(errs, werr != nil || panicked)
		gots = append(gots, fw.got)
		s.Count("injections")
		s.Count("injections/to_json")
	}
	desc := map[string]interface{}{"kind": "to_json", "exhaustive": true, "frame": f.name, "output_bytes": total,
		"positions": fmt.Sprintf("writer accepts k bytes then fails, every k in 0..%d (%d = never)", total+1, total+1)}
	id := s.Add(fmt.Sprintf("FWriteJson %s %s %s %s", hlib.List(recT), hlib.Nat(total), boolList(errs), nList(gots)), desc, total > 2)
	for _, k := range fails {
		s.Fail(id, fmt.Sprintf("ToJSON panicked with the writer failing after %d bytes", k), desc, "iofault-to-json-panic")
	}
}

// ---------------------------------------------------------------- transient writer failures

// nthWriter rejects exactly its n-th Write call (0 bytes, error) and accepts every other one.
type nthWriter struct {
	n, calls int
	rejected bool
}

func (w *nthWriter) Write(p []byte) (int, error) {
	w.calls++
	if w.calls == w.n {
		w.rejected = true
		return 0, errInjected
	}
	return len(p), nil
}

// caseTransient: a writer that refuses one single Write and recovers afterwards has not accepted the output
// completely either: ToCSV / ToJSON must report an error for every position of the refused call.  Decided in Go.
func caseTransient(s *hlib.Suite, name string, qf qframe.QFrame) {
	for _, kind := range []string{"to_json", "to_csv"} {
		write := func(w *nthWriter) error {
			if kind == "to_json" {
				return qf.ToJSON(w)
			}
			return qf.ToCSV(w)
		}
		probe := &nthWriter{n: -1}
		if err := write(probe); err != nil {
			panic(err)
		}
		total := probe.calls
		swallowed := []int{}
		for n := 1; n <= total; n++ {
			w := &nthWriter{n: n}
			var err error
			panicked, _ := hlib.Recover(func() { err = write(w) })
			s.Count("injections")
			s.Count("injections/transient_" + kind)
			if panicked || (w.rejected && err == nil) {
				swallowed = append(swallowed, n)
			}
		}
		if len(swallowed) > 0 {
			desc := map[string]interface{}{"kind": "transient_" + kind, "frame": name, "write_calls": total, "refused_calls_not_reported": swallowed[:minI(len(swallowed), 20)],
				"props": []string{"C15"}}
			s.Fail(s.NextID(), fmt.Sprintf("%s reports success although the writer refused its Write call number %d of %d", kind, swallowed[0], total), desc, "")
		}
	}
}

func minI(a, b int) int {
	if a < b {
		return a
	}
	return b
}

// ---------------------------------------------------------------- SQL

type rsSpec struct {
	names []string
	rows  [][]driver.Value
}

func resultSets(r *hlib.Rng) []rsSpec {
	return []rsSpec{
		{[]string{"i", "s"}, [][]driver.Value{{int64(1), "a"}, {int64(2), nil}, {int64(3), "c"}}},
		{[]string{"f"}, [][]driver.Value{{nil}, {1.5}, {nil}, {2.5}}},
		{[]string{"b", "t", "i"}, [][]driver.Value{{true, []byte("x"), int64(-1)}}},
		{[]string{"a"}, [][]driver.Value{}},
		{[]string{"s", "f", "i"}, [][]driver.Value{{nil, nil, int64(1)}, {nil, nil, int64(2)}, {"x", 0.5, int64(3)}, {"y", math.NaN(), int64(4)}, {nil, 1.0, int64(5)}}},
	}
}

func genResultSet(r *hlib.Rng) rsSpec {
	n := r.Intn(6)
	rows := make([][]driver.Value, n)
	for i := range rows {
		var s, f driver.Value
		if !r.Chance(1, 3) {
			s = []string{"", "a", "b"}[r.Intn(3)]
		}
		if !r.Chance(1, 3) {
			f = float64(r.Intn(9)) / 2
		}
		rows[i] = []driver.Value{int64(r.Intn(10)), s, f, r.Bool()}
	}
	return rsSpec{[]string{"i", "s", "f", "b"}, rows}
}

func readSQL(db *fakedb.DB) (bool, qframe.QFrame) {
	h, closer := fakedb.Open(db)
	defer closer()
	tx, err := h.Begin()
	if err != nil {
		panic(err)
	}
	var qf qframe.QFrame
	panicked, _ := hlib.Recover(func() { qf = qframe.ReadSQL(tx, qsql.Query("SELECT")) })
	return panicked, qf
}

func caseSQLRead(s *hlib.Suite, rs rsSpec) {
	conf := sqlterm.Config{Table: ""}
	run := func(set func(db *fakedb.DB)) string {
		db := fakedb.New()
		db.Cols, db.Rows = rs.names, rs.rows
		set(db)
		p, qf := readSQL(db)
		s.Count("injections")
		s.Count("injections/read_sql")
		return sqlterm.Obs(p, qf)
	}
	oprep := run(func(db *fakedb.DB) { db.FailPrepareQuery = true })
	oquery := run(func(db *fakedb.DB) { db.FailQuery = true })
	orows := make([]string, 0, len(rs.rows)+2)
	for k := 0; k <= len(rs.rows)+1; k++ {
		kk := k
		orows = append(orows, run(func(db *fakedb.DB) {
			if kk <= len(rs.rows) {
				db.FailRow = kk
			}
		}))
	}
	desc := map[string]interface{}{"kind": "read_sql", "exhaustive": true, "names": rs.names, "rows": sqlterm.JSONRows(rs.rows),
		"positions": fmt.Sprintf("Prepare; Query; Rows.Next failing at row k for every k in 0..%d (%d = instead of the end); last entry: never", len(rs.rows), len(rs.rows))}
	s.Add(fmt.Sprintf("FSqlRead %s %s %s %s %s", conf.Coq(), sqlterm.ResultSet(rs.names, rs.rows), oprep, oquery, hlib.List(orows)), desc, len(rs.rows) > 0)

	// a value that Scan rejects in column 0 of row k
	obs := make([]string, 0, len(rs.rows))
	for k := range rs.rows {
		rows := make([][]driver.Value, len(rs.rows))
		for i := range rows {
			rows[i] = append([]driver.Value{}, rs.rows[i]...)
		}
		rows[k][0] = fakedb.Unsupported()
		db := fakedb.New()
		db.Cols, db.Rows = rs.names, rows
		p, qf := readSQL(db)
		obs = append(obs, sqlterm.Obs(p, qf))
		s.Count("injections")
		s.Count("injections/read_sql_scan")
	}
	desc2 := map[string]interface{}{"kind": "read_sql_scan", "exhaustive": true, "names": rs.names, "rows": sqlterm.JSONRows(rs.rows),
		"positions": "a time.Time value (rejected by Column.Scan) in column 0 of row k, every k"}
	s.Add(fmt.Sprintf("FSqlScan %s %s %s", conf.Coq(), sqlterm.ResultSet(rs.names, rs.rows), hlib.List(obs)), desc2, len(rs.rows) > 0)
}

func caseSQLWrite(s *hlib.Suite, f frameSpec) {
	conf := sqlterm.Config{Table: "t", Escape: '"', Incr: true}
	n := f.qf.Len()
	run := func(set func(db *fakedb.DB)) (*fakedb.DB, int) {
		db := fakedb.New()
		set(db)
		h, closer := fakedb.Open(db)
		defer closer()
		tx, err := h.Begin()
		if err != nil {
			panic(err)
		}
		var werr error
		panicked, _ := hlib.Recover(func() { werr = f.qf.ToSQL(tx, qsql.Table("t"), qsql.Postgres()) })
		s.Count("injections")
		s.Count("injections/to_sql")
		switch {
		case panicked:
			return db, 2
		case werr != nil:
			return db, 1
		}
		return db, 0
	}
	obs := make([]string, 0, n+1)
	var fails []int
	for k := 0; k <= n; k++ {
		kk := k
		db, res := run(func(db *fakedb.DB) {
			if kk < n {
				db.FailExec = kk
			}
		})
		if res == 2 {
			fails = append(fails, k)
		}
		it := make([]string, len(db.Log))
		for i, st := range db.Log {
			it[i] = hlib.Pair(hlib.Str(st.Text), sqlterm.DVals(st.Args))
		}
		obs = append(obs, hlib.Pair(hlib.List(it), hlib.N(uint64(res))))
	}
	desc := map[string]interface{}{"kind": "to_sql", "exhaustive": true, "frame": f.name,
		"positions": fmt.Sprintf("Exec number k refused for every k in 0..%d; last entry: never", n-1)}
	id := s.Add(fmt.Sprintf("FSqlWrite %s %s %s", sqlterm.Frame(qframe.VerifDump(f.qf)), conf.Coq(), hlib.List(obs)), desc, n > 0)
	for _, k := range fails {
		s.Fail(id, fmt.Sprintf("ToSQL panicked with Exec %d refused", k), desc, "iofault-to-sql-panic")
	}
	// The same with the driver refusing the Prepare that database/sql issues for Exec number k:
	// the statement never reaches Exec, so this is checked here: error returned, exactly the k
	// earlier statements executed.
	for k := 0; k < n; k++ {
		kk := k
		db, res := run(func(db *fakedb.DB) { db.FailExecPrepare = kk })
		if res != 1 || len(db.Log) != k {
			s.Fail(id, fmt.Sprintf("ToSQL with the Prepare of statement %d refused: result %d (want 1 = error), %d statements executed (want %d)", k, res, len(db.Log), k), desc, "iofault-to-sql-prepare")
		}
	}
}

func main() {
	cfg := hlib.ParseFlags()
	s := hlib.NewSuite(cfg, "iofault")
	defer s.FinishOnPanic()
	s.Header = "From QF Require Import Base.Prelude Base.CaseLib Model.Sql Model.IOFault Corr.IOCorr.\nLocal Open Scope N_scope.\n"
	s.CaseType = "iof_case"
	s.CheckFn = "check_iofault"
	s.PerShard = 6
	s.Rule = "EXHAUSTIVE fault enumeration: every case is one document / frame / result set and carries the observations for EVERY fault position " +
		"(reader failing at byte offset k = 0..len(doc) and never, in four delivery modes: 1-byte reads, whole reads, error together with the last bytes, 3-byte reads; " +
		"writer accepting k bytes then failing for k = 0..len(output)+1, plain io.Writer and io.StringWriter, outputs below and above the 4096 byte bufio buffer; " +
		"SQL driver failing at Prepare, Query, Rows.Next at every row incl. instead of the end, a value rejected by Scan in every row, Exec number k for every k). " +
		"The property oracle is evaluated at every position; the model at every position except for outputs > 400 bytes (12 positions incl. 0, 1, 4095..4097, len-1..len+1). " +
		"Fixed corpus of documents plus -n generated ones; 'evaluations' counts cases, distribution.injections counts injected faults. Non-trivial = non-empty document/frame."
	r := hlib.NewRng(cfg.Seed)

	extra := cfg.N
	// CSV documents
	docs := append([]csvDoc{}, csvDocs...)
	for i := 0; i < extra/4; i++ {
		docs = append(docs, genCsvDoc(r.Fork()))
	}
	for _, d := range docs {
		for _, m := range modes {
			caseReadCsv(s, d, m)
		}
	}
	jdocs := append([]string{}, jsonDocs...)
	for i := 0; i < extra/8; i++ {
		jdocs = append(jdocs, genJSONDoc(r.Fork()))
	}
	for _, d := range jdocs {
		for _, m := range modes[:3] {
			caseReadJSON(s, d, m)
		}
	}
	fs := frames(r, cfg.Tier)
	for i := 0; i < extra/4; i++ {
		fs = append(fs, genSmallFrame(r.Fork()))
	}
	for _, f := range fs {
		caseWriteCsv(s, r.Fork(), f, false)
		if f.big || r.Chance(1, 3) {
			caseWriteCsv(s, r.Fork(), f, true)
		}
		if !f.big {
			caseWriteJSON(s, f)
			caseSQLWrite(s, f)
		}
	}
	// transient refusals (Go-side): small frames and one frame whose JSON / CSV output passes 32 KiB
	for _, f := range fs {
		if !f.big {
			caseTransient(s, f.name, f.qf)
		}
	}
	{
		n := 2500
		ids, strs := make([]int, n), make([]string, n)
		for i := range ids {
			ids[i], strs[i] = 1000000+i, fmt.Sprintf("row-%d", i)
		}
		caseTransient(s, "2500 rows", qframe.New(map[string]interface{}{"I": ids, "S": strs}))
	}
	rss := resultSets(r)
	for i := 0; i < extra/8; i++ {
		rss = append(rss, genResultSet(r.Fork()))
	}
	for _, rs := range rss {
		caseSQLRead(s, rs)
	}
	s.Finish()
}
