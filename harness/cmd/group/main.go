// Engine "group": the open-addressing hash table of internal/grouper (GroupBy / Distinct) against
// Model/Grouper.v.
//
//	(a) GTab cases: the real grouper.GroupBy / grouper.Distinct run through the hook with Comparables
//	    whose Compare/Hash come from harness tables (equality class and 64 bit hash per row id).  The
//	    model is evaluated on the same tables and must return the same groups in the same slot order,
//	    the same distinct ids and the same GroupStats; the verified checkers judge the output.
//	(b) GApi cases: QFrame.GroupBy(...).QFrames() and QFrame.Distinct(...) on real frames of all five
//	    key types; a hidden int column "rowid" tells which rows ended up where.  The hash is the seeded
//	    runtime memhash, so groups are compared as a set (sorted by first row id).
package main

import (
	"fmt"
	"math"
	"sort"
	"strings"

	"github.com/tobgu/qframe"
	qcsv "github.com/tobgu/qframe/config/csv"
	"github.com/tobgu/qframe/config/groupby"
	"github.com/tobgu/qframe/config/newqf"
	"github.com/tobgu/qframe/verifhook/grouphook"
	"verifharness/hlib"
)

var hashPatterns = []string{"const", "mod2", "mod8", "highbits", "lowcollide", "pairs", "random", "seq", "wrap"}

// classHash gives the 64 bit hash of an equality class under a pattern.
func classHash(pat string, class uint64, salt uint64, k uint) uint64 {
	mix := func(x uint64) uint64 { // splitmix finaliser
		x += 0x9E3779B97F4A7C15 + salt
		x = (x ^ (x >> 30)) * 0xBF58476D1CE4E5B9
		x = (x ^ (x >> 27)) * 0x94D049BB133111EB
		return x ^ (x >> 31)
	}
	switch pat {
	case "const":
		return salt
	case "mod2":
		return class % 2
	case "mod8":
		return class % 8
	case "highbits": // differ only above bit 32: the uint32 cast makes them all equal
		return class<<32 | (salt & 0xFFFFFFFF)
	case "lowcollide": // equal in the low k bits only
		return mix(class)<<k | (salt & (1<<k - 1))
	case "pairs": // two unequal keys share one full hash
		return mix(class / 2)
	case "seq":
		return class + salt%7
	case "wrap": // cluster at the end of the table so that probing wraps around
		return (1<<k - 1) - class%3
	default:
		return mix(class)
	}
}

type tabCase struct {
	ids     []uint32
	class   map[uint32]int64 // -1 = equal to nothing (null key under Null(false))
	hash    map[uint32]uint64
	pattern string
	ncomp   int
}

func genTab(r *hlib.Rng, n, card int, nullPct int, pat string, twoComp bool, maxK int) tabCase {
	// row ids: a shuffled subset of 0..m-1 (non-identity index) or the identity
	m := n
	if r.Chance(1, 2) {
		m = n + r.Intn(n+3)
	}
	var ids []uint32
	if r.Chance(1, 3) {
		for i := 0; i < n; i++ {
			ids = append(ids, uint32(i))
		}
	} else {
		p := r.Perm(m)
		for i := 0; i < n; i++ {
			ids = append(ids, uint32(p[i]))
		}
	}
	salt := r.U64()
	k := uint(3 + r.Intn(maxK-2))
	tc := tabCase{ids: ids, class: map[uint32]int64{}, hash: map[uint32]uint64{}, pattern: pat, ncomp: 1}
	if twoComp {
		tc.ncomp = 2
	}
	for pos, id := range ids {
		var c int64
		if pos < card && r.Chance(3, 4) {
			c = int64(pos) // make sure the cardinality is (about) reached early or late
		} else {
			c = int64(r.Intn(card))
		}
		if r.Intn(100) < nullPct {
			tc.class[id] = -1
			// a row equal to nothing may hash to anything: random (as rand.Uint64()) or colliding
			if r.Chance(1, 2) {
				tc.hash[id] = r.U64()
			} else {
				tc.hash[id] = classHash(pat, uint64(r.Intn(card)), salt, k)
			}
			continue
		}
		tc.class[id] = c
		tc.hash[id] = classHash(pat, uint64(c), salt, k)
	}
	return tc
}

func runTab(s *hlib.Suite, tc tabCase) {
	// one comparable: Equal = same class, Hash ignores the seed.
	// two comparables: class = c1*4+c2 split over two columns; Hash chains the seed:
	//   col1: seed + (h >> 1)   col2: seed*3 + (h & 1) ... any chaining will do as long as the folded value
	//   handed to the model is computed by the same chain (this exercises table.hash's fold order).
	eq := func(i, j uint32) bool {
		ci, cj := tc.class[i], tc.class[j]
		return ci >= 0 && cj >= 0 && ci == cj
	}
	folded := map[uint32]uint64{}
	var comps []grouphook.Comparable
	if tc.ncomp == 1 {
		comps = []grouphook.Comparable{{Equal: eq, Hash: func(i uint32, seed uint64) uint64 { return tc.hash[i] + seed }}}
		for _, id := range tc.ids {
			folded[id] = tc.hash[id]
		}
	} else {
		eq1 := func(i, j uint32) bool {
			ci, cj := tc.class[i], tc.class[j]
			return ci >= 0 && cj >= 0 && ci/4 == cj/4
		}
		eq2 := func(i, j uint32) bool {
			ci, cj := tc.class[i], tc.class[j]
			return ci >= 0 && cj >= 0 && ci%4 == cj%4
		}
		h1 := func(i uint32, seed uint64) uint64 { return seed + 5 + tc.hash[i]>>1 }
		h2 := func(i uint32, seed uint64) uint64 { return seed*2 + tc.hash[i]&1 - 10 }
		comps = []grouphook.Comparable{{Equal: eq1, Hash: h1}, {Equal: eq2, Hash: h2}}
		for _, id := range tc.ids {
			folded[id] = h2(id, h1(id, 0)) // = tc.hash[id] (mod 2^64)
		}
	}
	var groups [][]uint32
	var dist []uint32
	var st grouphook.Stats
	if p, v := hlib.Recover(func() {
		groups, st = grouphook.GroupBy(tc.ids, comps)
		dist = grouphook.Distinct(tc.ids, comps)
	}); p {
		s.Fail(s.NextID(), fmt.Sprintf("panic in grouper: %v", v), map[string]interface{}{"ids": tc.ids}, "")
		return
	}
	rows := make([]string, len(tc.ids))
	for i, id := range tc.ids {
		cls := "None"
		if tc.class[id] >= 0 {
			cls = hlib.Some(hlib.N(uint64(tc.class[id])))
		}
		rows[i] = fmt.Sprintf("(%s, %s, %s)", hlib.N(uint64(id)), cls, hlib.NHex(folded[id]))
	}
	gs := make([]string, len(groups))
	for i, g := range groups {
		gs[i] = nList(g)
	}
	lf := uint64(st.LoadFactor * 4294967296.0)
	term := fmt.Sprintf("GTab %s %s %s (%s, %s, %s, %s, %s)", hlib.List(rows), hlib.List(gs), nList(dist),
		hlib.N(uint64(st.RelocationCount)), hlib.N(uint64(st.RelocationCollisions)), hlib.N(uint64(st.InsertCollisions)),
		hlib.N(uint64(st.GroupCount)), hlib.N(lf))
	classes := make([]int64, len(tc.ids))
	hashes := make([]string, len(tc.ids))
	for i, id := range tc.ids {
		classes[i] = tc.class[id]
		hashes[i] = fmt.Sprintf("%#x", folded[id])
	}
	desc := map[string]interface{}{"kind": "table", "pattern": tc.pattern, "comparables": tc.ncomp, "n": len(tc.ids),
		"groups": st.GroupCount, "relocations": st.RelocationCount}
	if len(tc.ids) <= 64 {
		desc["ids"] = tc.ids
		desc["class"] = classes
		desc["hash"] = hashes
	}
	s.Count("tab/" + tc.pattern)
	s.Count(fmt.Sprintf("tab/relocations=%d", st.RelocationCount))
	if st.RelocationCount > 0 {
		s.Count(fmt.Sprintf("tab/final_len=%d", finalLen(len(tc.ids), st.RelocationCount)))
	}
	s.Add(term, desc, st.GroupCount >= 2)
}

func initialLen(n int) int {
	e := 0
	for f := n / 4; f > 0; f >>= 1 {
		e++
	}
	if e < 3 {
		e = 3
	}
	return 1 << uint(e)
}

func finalLen(n, relocs int) int { return initialLen(n) << uint(relocs) }

func nList(v []uint32) string {
	it := make([]string, len(v))
	for i, x := range v {
		it[i] = hlib.N(uint64(x))
	}
	return hlib.List(it)
}

// ---------------------------------------------------------------- public API cases

var intPool = []int{0, 1, -1, 2, math.MaxInt64, math.MinInt64, 256, 65536, 1 << 32}
var floatPool = []uint64{
	0x0000000000000000, 0x8000000000000000, // +0, -0
	0x7FF8000000000001, 0x7FF8000000000000, 0xFFF8000000000000, 0x7FF0000000000001, 0x7FFFFFFFFFFFFFFF, // NaNs
	0x3FF8000000000000, 0xBFF8000000000000, 0x7FF0000000000000, 0xFFF0000000000000, // 1.5 -1.5 +Inf -Inf
	0x0000000000000001, 0x8000000000000001, 0x3FF0000000000000, 0x4000000000000000,
}
var strPool = []*string{nil, sp(""), sp("\x00"), sp("\x00\x00"), sp("a"), sp("b"), sp("ab"), sp("a\x00"), sp("é")}
var enumVals = []string{"a", "b", "", "\x00", "c"}

func sp(s string) *string { return &s }

type apiCol struct {
	typ   string
	ints  []int
	flts  []float64
	bools []bool
	strs  []*string
}

func genCol(r *hlib.Rng, typ string, n int, alphabet int) apiCol {
	c := apiCol{typ: typ}
	for i := 0; i < n; i++ {
		switch typ {
		case "int":
			if r.Chance(1, 3) {
				c.ints = append(c.ints, intPool[r.Intn(len(intPool))])
			} else {
				c.ints = append(c.ints, r.Intn(alphabet)-alphabet/2)
			}
		case "float":
			if r.Chance(1, 2) {
				c.flts = append(c.flts, math.Float64frombits(floatPool[r.Intn(len(floatPool))]))
			} else {
				c.flts = append(c.flts, float64(r.Intn(alphabet))/2)
			}
		case "bool":
			c.bools = append(c.bools, r.Bool())
		case "string":
			if r.Chance(1, 2) || alphabet <= len(strPool) {
				c.strs = append(c.strs, strPool[r.Intn(len(strPool))])
			} else {
				c.strs = append(c.strs, sp(fmt.Sprintf("s%d", r.Intn(alphabet))))
			}
		case "enum":
			if r.Chance(1, 5) {
				c.strs = append(c.strs, nil)
			} else {
				c.strs = append(c.strs, sp(enumVals[r.Intn(len(enumVals))]))
			}
		}
	}
	return c
}

func (c apiCol) data() interface{} {
	switch c.typ {
	case "int":
		return c.ints
	case "float":
		return c.flts
	case "bool":
		return c.bools
	default:
		return c.strs
	}
}

func (c apiCol) cell(i int) (string, interface{}) {
	switch c.typ {
	case "int":
		return "CInt " + hlib.Z(int64(c.ints[i])), c.ints[i]
	case "float":
		b := math.Float64bits(c.flts[i])
		return "CFloat " + hlib.NHex(b), fmt.Sprintf("%#016x", b)
	case "bool":
		return "CBool " + hlib.Bool(c.bools[i]), c.bools[i]
	case "string":
		if c.strs[i] == nil {
			return "CStr None", nil
		}
		return "CStr " + hlib.OptStr(c.strs[i]), []byte(*c.strs[i])
	default:
		if c.strs[i] == nil {
			return "CEnum 255%N", nil
		}
		for k, v := range enumVals {
			if v == *c.strs[i] {
				return "CEnum " + hlib.N(uint64(k)), k
			}
		}
		panic("enum value")
	}
}

func runAPI(s *hlib.Suite, r *hlib.Rng, n int) {
	types := []string{"int", "float", "bool", "string", "enum"}
	ncols := 1 + r.Intn(3)
	if r.Chance(1, 2) {
		ncols = 1
	}
	alphabet := 2 + r.Intn(6)
	if n > 40 {
		alphabet = n/2 + r.Intn(n)
	}
	data := map[string]interface{}{}
	enums := map[string][]string{}
	var cols []apiCol
	var names, tnames []string
	for j := 0; j < ncols; j++ {
		typ := types[r.Intn(len(types))]
		c := genCol(r, typ, n, alphabet)
		name := fmt.Sprintf("k%d", j)
		cols = append(cols, c)
		names = append(names, name)
		tnames = append(tnames, typ)
		data[name] = c.data()
		if typ == "enum" {
			enums[name] = enumVals
		}
	}
	rowid := make([]int, n)
	for i := range rowid {
		rowid[i] = i
	}
	data["rowid"] = rowid
	nulleq := r.Bool()
	qf := qframe.New(data, newqf.Enums(enums))
	if qf.Err != nil {
		s.Fail(s.NextID(), "New failed: "+qf.Err.Error(), map[string]interface{}{"types": tnames}, "")
		return
	}
	// non-identity index
	ixKind := "identity"
	switch r.Intn(4) {
	case 1:
		qf = qf.Sort(qframe.Order{Column: "rowid", Reverse: true})
		ixKind = "reversed"
	case 2:
		if n > 2 {
			a := r.Intn(n / 2)
			b := a + 1 + r.Intn(n-a-1)
			qf = qf.Slice(a, b)
			ixKind = fmt.Sprintf("slice(%d,%d)", a, b)
		}
	case 3:
		qf = qf.Sort(qframe.Order{Column: names[0]})
		ixKind = "sorted by k0"
	}
	keyCols := names
	if ncols > 1 && r.Chance(1, 3) { // key order different from column order
		keyCols = append([]string{}, names...)
		keyCols[0], keyCols[ncols-1] = keyCols[ncols-1], keyCols[0]
	}
	idView, err := qf.IntView("rowid")
	if err != nil {
		s.Fail(s.NextID(), "rowid view: "+err.Error(), nil, "")
		return
	}
	ids := idView.Slice()

	var groups [][]int
	var dist []int
	failed := ""
	if p, v := hlib.Recover(func() {
		g := qf.GroupBy(groupby.Columns(keyCols...), groupby.Null(nulleq))
		if g.Err != nil {
			failed = "GroupBy error: " + g.Err.Error()
			return
		}
		qfs, err := g.QFrames()
		if err != nil {
			failed = "QFrames error: " + err.Error()
			return
		}
		for _, gq := range qfs {
			v, err := gq.IntView("rowid")
			if err != nil {
				failed = "group view: " + err.Error()
				return
			}
			groups = append(groups, append([]int{}, v.Slice()...))
		}
		d := qf.Distinct(groupby.Columns(keyCols...), groupby.Null(nulleq))
		if d.Err != nil {
			failed = "Distinct error: " + d.Err.Error()
			return
		}
		v, err := d.IntView("rowid")
		if err != nil {
			failed = "distinct view: " + err.Error()
			return
		}
		dist = append([]int{}, v.Slice()...)
	}); p {
		failed = fmt.Sprintf("panic: %v", v)
	}
	colIdx := map[string]int{}
	for j, nm := range names {
		colIdx[nm] = j
	}
	rows := make([]string, len(ids))
	var descRows []interface{}
	for i, id := range ids {
		var cells []string
		var dcells []interface{}
		for _, nm := range keyCols {
			t, d := cols[colIdx[nm]].cell(id)
			cells = append(cells, t)
			dcells = append(dcells, d)
		}
		rows[i] = fmt.Sprintf("(%s, %s)", hlib.N(uint64(id)), hlib.List(cells))
		descRows = append(descRows, []interface{}{id, dcells})
	}
	ktypes := make([]string, len(keyCols))
	for j, nm := range keyCols {
		ktypes[j] = tnames[colIdx[nm]]
	}
	desc := map[string]interface{}{"kind": "api", "key_types": ktypes, "null_equal": nulleq, "index": ixKind, "n": len(ids)}
	if len(ids) <= 40 {
		desc["rows"] = descRows
	}
	if failed != "" {
		s.Fail(s.NextID(), failed, desc, "")
		return
	}
	// canonical order: the group order depends on the per-process hash seed
	sort.Slice(groups, func(a, b int) bool { return groups[a][0] < groups[b][0] })
	sort.Ints(dist)
	gs := make([]string, len(groups))
	for i, g := range groups {
		gs[i] = nListInt(g)
	}
	term := fmt.Sprintf("GApi %s %s %s %s", hlib.Bool(nulleq), hlib.List(rows), hlib.List(gs), nListInt(dist))
	for _, t := range ktypes {
		s.Count("api/type=" + t)
	}
	s.Count(fmt.Sprintf("api/null_equal=%v", nulleq))
	s.Count(fmt.Sprintf("api/keycols=%d", len(keyCols)))
	s.Add(term, desc, len(groups) >= 2)
}

// runCSVKeys: the same public API decision (GApi) on frames whose key columns were built by ReadCSV: their storage
// (one byte blob per string column, possibly none at all when every cell is empty; enum columns with values in order
// of appearance) differs from what qframe.New builds.  Key cells: a string column s from {"", a, b, \x00-free text}
// (every cell empty one time in three), an int column k, both typed explicitly; EmptyNull on or off.
func runCSVKeys(s *hlib.Suite, r *hlib.Rng, n int) {
	emptyNull := r.Bool()
	nulleq := r.Bool()
	allEmpty := r.Chance(1, 2)
	styp := []string{"string", "enum"}[r.Intn(2)]
	svals := []string{"", "a", "b", "", "ab"}
	var doc strings.Builder
	doc.WriteString("rowid,k,s\n")
	ks := make([]int, n)
	ss := make([]string, n)
	for i := 0; i < n; i++ {
		ks[i] = r.Intn(3)
		if !allEmpty {
			ss[i] = svals[r.Intn(len(svals))]
		}
		fmt.Fprintf(&doc, "%d,%d,%s\n", i, ks[i], ss[i])
	}
	var qf qframe.QFrame
	desc := map[string]interface{}{"kind": "api-csv", "null_equal": nulleq, "empty_null": emptyNull, "s_type": styp, "n": n, "doc": doc.String()}
	if p, v := hlib.Recover(func() {
		qf = qframe.ReadCSV(strings.NewReader(doc.String()), qcsv.Types(map[string]string{"rowid": "int", "k": "int", "s": styp}), qcsv.EmptyNull(emptyNull))
	}); p || qf.Err != nil {
		s.Fail(s.NextID(), fmt.Sprintf("ReadCSV of a well-formed document failed: %v %v", v, qf.Err), desc, "")
		return
	}
	keyCols := [][]string{{"s"}, {"k", "s"}, {"s", "k"}}[r.Intn(3)]
	desc["keys"] = keyCols
	if r.Chance(1, 3) && n > 1 {
		qf = qf.Sort(qframe.Order{Column: "rowid", Reverse: true})
		desc["index"] = "reversed"
	}
	ids := qf.MustIntView("rowid").Slice()
	var groups [][]int
	var dist []int
	failed := ""
	if p, v := hlib.Recover(func() {
		g := qf.GroupBy(groupby.Columns(keyCols...), groupby.Null(nulleq))
		if g.Err != nil {
			failed = "GroupBy error: " + g.Err.Error()
			return
		}
		qfs, err := g.QFrames()
		if err != nil {
			failed = "QFrames error: " + err.Error()
			return
		}
		for _, gq := range qfs {
			groups = append(groups, append([]int{}, gq.MustIntView("rowid").Slice()...))
		}
		d := qf.Distinct(groupby.Columns(keyCols...), groupby.Null(nulleq))
		if d.Err != nil {
			failed = "Distinct error: " + d.Err.Error()
			return
		}
		dist = append([]int{}, d.MustIntView("rowid").Slice()...)
	}); p {
		failed = fmt.Sprintf("panic: %v", v)
	}
	if failed != "" {
		s.Fail(s.NextID(), failed, desc, "")
		return
	}
	rows := make([]string, len(ids))
	for i, id := range ids {
		var cells []string
		for _, nm := range keyCols {
			if nm == "k" {
				cells = append(cells, "CInt "+hlib.Z(int64(ks[id])))
			} else if ss[id] == "" && emptyNull {
				cells = append(cells, "CStr None") // null: the cell kind only matters for equality and nullness
			} else {
				cells = append(cells, "CStr "+hlib.OptStr(sp(ss[id])))
			}
		}
		rows[i] = fmt.Sprintf("(%s, %s)", hlib.N(uint64(id)), hlib.List(cells))
	}
	sort.Slice(groups, func(a, b int) bool { return groups[a][0] < groups[b][0] })
	sort.Ints(dist)
	gs := make([]string, len(groups))
	for i, g := range groups {
		gs[i] = nListInt(g)
	}
	s.Count("api-csv/s_type=" + styp)
	s.Count(fmt.Sprintf("api-csv/all_empty=%v", allEmpty))
	s.Add(fmt.Sprintf("GApi %s %s %s %s", hlib.Bool(nulleq), hlib.List(rows), hlib.List(gs), nListInt(dist)), desc, len(groups) >= 2)
}

// runBig: public GroupBy / Distinct on frames with tens of thousands of distinct keys, so that the table passes
// 2^16 and 2^17 slots.  Decided in Go only (the table model is quadratic in the table size): every key must form
// exactly one group holding all its rows, Distinct must return one row per key.
func runBig(s *hlib.Suite, r *hlib.Rng, distinct, reps int) {
	n := distinct * reps
	keys := make([]int, n)
	for i := range keys {
		keys[i] = (i % distinct) * 7
	}
	// shuffle so that recurrences are spread over the whole insertion sequence
	for i := n - 1; i > 0; i-- {
		j := r.Intn(i + 1)
		keys[i], keys[j] = keys[j], keys[i]
	}
	rowid := make([]int, n)
	for i := range rowid {
		rowid[i] = i
	}
	desc := map[string]interface{}{"kind": "big", "rows": n, "distinct_keys": distinct, "props": []string{"C04", "C05"}}
	qf := qframe.New(map[string]interface{}{"k": keys, "rowid": rowid})
	failed := ""
	if p, v := hlib.Recover(func() {
		g := qf.GroupBy(groupby.Columns("k"))
		if g.Err != nil {
			failed = "GroupBy error: " + g.Err.Error()
			return
		}
		qfs, err := g.QFrames()
		if err != nil {
			failed = "QFrames error: " + err.Error()
			return
		}
		if len(qfs) != distinct {
			failed = fmt.Sprintf("GroupBy returned %d groups for %d distinct keys", len(qfs), distinct)
			return
		}
		seen := map[int]bool{}
		for _, gq := range qfs {
			kv := gq.MustIntView("k")
			if kv.Len() != reps {
				failed = fmt.Sprintf("the group of key %d has %d rows, the key occurs %d times", kv.ItemAt(0), kv.Len(), reps)
				return
			}
			k0 := kv.ItemAt(0)
			for i := 1; i < kv.Len(); i++ {
				if kv.ItemAt(i) != k0 {
					failed = "a group holds rows of different keys"
					return
				}
			}
			if seen[k0] {
				failed = fmt.Sprintf("key %d forms more than one group", k0)
				return
			}
			seen[k0] = true
		}
		d := qf.Distinct(groupby.Columns("k"))
		if d.Err != nil || d.Len() != distinct {
			failed = fmt.Sprintf("Distinct returned %d rows for %d distinct keys (err %v)", d.Len(), distinct, d.Err)
		}
	}); p {
		failed = fmt.Sprintf("panic: %v", v)
	}
	s.Count("big/tables")
	if failed != "" {
		s.Fail(s.NextID(), failed, desc, "")
	}
}

// runDistinctAll: Distinct without columns uses all columns as the key, with the Null option honoured.
func runDistinctAll(s *hlib.Suite, r *hlib.Rng) {
	n := 4 + r.Intn(10)
	strs := make([]*string, n)
	fl := make([]float64, n)
	ints := make([]int, n)
	for i := range strs {
		switch r.Intn(3) {
		case 0:
			strs[i] = nil
		default:
			strs[i] = sp([]string{"a", ""}[r.Intn(2)])
		}
		fl[i] = []float64{1, math.NaN(), 0}[r.Intn(3)]
		ints[i] = r.Intn(2)
	}
	nulleq := r.Bool()
	desc := map[string]interface{}{"kind": "distinct-all-columns", "null_equal": nulleq, "n": n, "props": []string{"C05"}}
	qf := qframe.New(map[string]interface{}{"s": strs, "f": fl, "i": ints})
	var a, b qframe.QFrame
	if p, v := hlib.Recover(func() {
		a = qf.Distinct(groupby.Null(nulleq))
		b = qf.Distinct(groupby.Columns("f", "i", "s"), groupby.Null(nulleq))
	}); p {
		s.Fail(s.NextID(), fmt.Sprintf("Distinct panicked: %v", v), desc, "")
		return
	}
	s.Count("distinct-all-columns")
	if a.Err != nil || b.Err != nil || a.Len() != b.Len() {
		s.Fail(s.NextID(), fmt.Sprintf("Distinct() without columns returns %d rows, Distinct over all columns named explicitly %d rows", a.Len(), b.Len()), desc, "")
		return
	}
	// the expected number of rows, counted directly: rows are equal when all three cells are equal; a null cell
	// (nil string, NaN) equals only another null, and only with Null(true)
	count := 0
	for i := 0; i < n; i++ {
		dup := false
		hasNull := strs[i] == nil || math.IsNaN(fl[i])
		for j := 0; j < i && !dup; j++ {
			same := ints[i] == ints[j] && ((strs[i] == nil && strs[j] == nil) || (strs[i] != nil && strs[j] != nil && *strs[i] == *strs[j])) &&
				((math.IsNaN(fl[i]) && math.IsNaN(fl[j])) || fl[i] == fl[j])
			if same && (nulleq || !hasNull) {
				dup = true
			}
		}
		if !dup {
			count++
		}
	}
	if a.Len() != count {
		s.Fail(s.NextID(), fmt.Sprintf("Distinct() returns %d rows, the frame has %d distinct rows", a.Len(), count), desc, "")
	}
}

func nListInt(v []int) string {
	it := make([]string, len(v))
	for i, x := range v {
		it[i] = hlib.N(uint64(x))
	}
	return hlib.List(it)
}

func main() {
	cfg := hlib.ParseFlags()
	s := hlib.NewSuite(cfg, "group")
	defer s.FinishOnPanic()
	s.Header = "From QF Require Import Base.Prelude Base.CaseLib Model.Grouper Corr.GrouperCorr.\nLocal Open Scope N_scope.\n"
	s.CaseType = "group_case"
	s.CheckFn = "check_group"
	s.PerShard = 80
	s.Rule = "table cases: row ids = shuffled subset or identity; equality classes and per-class 64 bit hashes from patterns " +
		"(const, mod2, mod8, differing above bit 32 only, colliding in the low k bits only, two keys per hash, random, sequential, " +
		"clustered at the table end), rows equal to nothing (null under Null(false)) with random or colliding hashes, one or two " +
		"comparables; cardinalities around every growth step 8->16->...; api cases: frames of int/float/bool/string/enum key " +
		"columns from boundary pools (+-0, NaN payloads, nil/\"\"/\"\\x00\", enum nil), 1-3 key columns, both Null settings, " +
		"identity/reversed/sliced/sorted index; api-csv cases: the key columns built by ReadCSV (typed string/enum column with empty cells, every cell empty one time in three, EmptyNull on/off). Non-trivial = at least two groups; distinct by Coq term."
	r := hlib.NewRng(cfg.Seed)

	maxStep := 1024
	if cfg.Tier == "thorough" {
		maxStep = 8192
	}
	nTab := cfg.N * 7 / 10
	nAPI := cfg.N - nTab

	// The cases are first collected as jobs and then run in a shuffled order, so that the few large
	// tables are spread over the shards (every job owns a forked generator: the order does not change it).
	var jobs []func()

	// (a1) every growth step L -> 2L: cardinalities L/2-1 .. L/2+2 and beyond, several hash patterns
	for L := 8; L <= maxStep; L *= 2 {
		reps := 6
		if L >= 512 {
			reps = 2
			if cfg.Tier == "thorough" {
				reps = 3
			}
		}
		if L >= 2048 {
			reps = 1
		}
		for rep := 0; rep < reps; rep++ {
			for _, dc := range []int{-1, 0, 1, 2, L / 4} {
				card := L/2 + dc
				if card < 1 {
					card = 1
				}
				extra := 1 + r.Intn(card/2+3)
				n := card + extra
				if n >= 4*L { // keep the initial size <= L
					n = 4*L - 1
				}
				pat := hashPatterns[r.Intn(len(hashPatterns))]
				if L >= 256 && (pat == "const" || pat == "mod2" || pat == "mod8" || pat == "highbits" || pat == "wrap") {
					pat = []string{"random", "lowcollide", "pairs", "seq"}[r.Intn(4)] // long chains are quadratic in the model
				}
				nullPct := []int{0, 0, 10, 50}[r.Intn(4)]
				fr, two := r.Fork(), r.Chance(1, 5)
				maxK := 12
				if L >= 256 {
					maxK = 5 // long probe chains are quadratic in the model
				}
				jobs = append(jobs, func() { runTab(s, genTab(fr, n, card, nullPct, pat, two, maxK)) })
			}
		}
	}
	// (a2) small random tables, every pattern
	for i := len(jobs); i < nTab; i++ {
		n := r.Intn(48)
		if r.Chance(1, 6) {
			n = 48 + r.Intn(150)
		}
		card := 1 + r.Intn(n+1)
		if r.Chance(1, 3) {
			card = 1 + r.Intn(6)
		}
		pat := hashPatterns[i%len(hashPatterns)]
		nullPct := []int{0, 0, 10, 50, 100}[r.Intn(5)]
		fr, two := r.Fork(), r.Chance(1, 5)
		jobs = append(jobs, func() { runTab(s, genTab(fr, n, card, nullPct, pat, two, 12)) })
	}
	// (b) public API
	for i := 0; i < nAPI; i++ {
		n := r.Intn(30)
		if r.Chance(1, 5) {
			n = 30 + r.Intn(120)
		}
		if r.Chance(1, 25) {
			n = 150 + r.Intn(150)
			if cfg.Tier == "thorough" {
				n = 150 + r.Intn(600)
			}
		}
		fr := r.Fork()
		if i%4 == 3 {
			jobs = append(jobs, func() { runCSVKeys(s, fr, 1+n%40) })
			continue
		}
		jobs = append(jobs, func() { runAPI(s, fr, n) })
	}
	// (b2) tables beyond 2^16 and 2^17 slots (Go-side decision), Distinct over all columns
	{
		fr := r.Fork()
		jobs = append(jobs, func() { runBig(s, fr, 40000, 3) })
		if cfg.Tier == "thorough" {
			fr2 := r.Fork()
			jobs = append(jobs, func() { runBig(s, fr2, 70000, 2) })
		}
		for i := 0; i < 20; i++ {
			fr3 := r.Fork()
			jobs = append(jobs, func() { runDistinctAll(s, fr3) })
		}
	}
	// (c) thorough only: exhaustive small scope — every partition of 1..5 rows into key classes, every
	// assignment of a hash from {0, 1, 7, 8} to the classes (0/8 collide in a table of 8 slots, 7 wraps)
	if cfg.Tier == "thorough" {
		hv := []uint64{0, 1, 7, 8}
		for n := 1; n <= 5; n++ {
			var rec func(pos, k int, cls []int64)
			rec = func(pos, k int, cls []int64) {
				if pos == n {
					total := 1
					for i := 0; i < k; i++ {
						total *= len(hv)
					}
					for code := 0; code < total; code++ {
						tc := tabCase{class: map[uint32]int64{}, hash: map[uint32]uint64{}, pattern: "exhaustive", ncomp: 1}
						hs := make([]uint64, k)
						for i, c := 0, code; i < k; i++ {
							hs[i] = hv[c%len(hv)]
							c /= len(hv)
						}
						for i := 0; i < n; i++ {
							tc.ids = append(tc.ids, uint32(i))
							tc.class[uint32(i)] = cls[i]
							tc.hash[uint32(i)] = hs[cls[i]]
						}
						jobs = append(jobs, func() { runTab(s, tc) })
					}
					return
				}
				for c := 0; c <= k; c++ { // restricted growth string = one set partition
					nk := k
					if c == k {
						nk = k + 1
					}
					rec(pos+1, nk, append(append([]int64{}, cls...), int64(c)))
				}
			}
			rec(0, 0, nil)
		}
	}
	for _, j := range r.Perm(len(jobs)) {
		jobs[j]()
	}
	s.Finish()
}
