module verifharness

go 1.20

require github.com/tobgu/qframe v0.0.0

require github.com/mauricelam/genny v0.0.0-20190320071652-0800202903e5 // indirect

replace github.com/tobgu/qframe => /repo
