#!/bin/bash
# usage: lib/seed_verify.sh <dir with patch.diff + demo_test.go> <name>
# Independently confirms a seeded change in a scratch worktree (outside /repo and /verif):
#   suite passes with the change, demo fails with it, demo passes without it.   Prints one summary line.
src=$1; name=$2
export GOFLAGS=-mod=mod GOPROXY=off GOSUMDB=off GOTOOLCHAIN=local
W=/tmp/seedv_$name; rm -rf $W; mkdir -p $W
( flock 9; git -C /repo worktree prune; git -C /repo worktree add -q --detach $W/repo HEAD ) 9>/tmp/.qf_worktree.lock || exit 3
cd $W/repo
git apply $src/patch.diff || { echo "$name: PATCH-DOES-NOT-APPLY"; cd /; ( flock 9; git -C /repo worktree remove --force $W/repo ) 9>/tmp/.qf_worktree.lock; rm -rf $W; exit 3; }
build=ok; go build ./... > $W/build.log 2>&1 || build=FAIL
suite=pass; go test -vet=off -count=1 ./... > $W/suite.log 2>&1 || suite=FAIL
cp $src/demo_test.go ./zz_seed_demo_test.go
dwith=pass; go test -vet=off -count=1 -run 'Seed|Demo|C[0-9][0-9]' . > $W/demo_with.log 2>&1 || dwith=fail
git apply -R $src/patch.diff
dwo=pass; go test -vet=off -count=1 -run 'Seed|Demo|C[0-9][0-9]' . > $W/demo_without.log 2>&1 || dwo=FAIL
ran=$(grep -c '^ok\|^--- \|^FAIL' $W/demo_without.log)
echo "$name: build=$build suite=$suite demo_with_change=$dwith demo_without_change=$dwo"
if [ "$suite" != pass ]; then grep -E '^(--- FAIL|FAIL|ok)' $W/suite.log | head -5; fi
mkdir -p /tmp/seedv_logs/$name; cp $W/*.log /tmp/seedv_logs/$name/
cd /; ( flock 9; git -C /repo worktree remove --force $W/repo ) 9>/tmp/.qf_worktree.lock; rm -rf $W
