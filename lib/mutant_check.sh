#!/bin/bash
# usage: lib/mutant_check.sh <name> <patch.diff|-> <property>...
# Runs the registered checks against a MUTATED scratch copy of /repo (HEAD + patch) using a scratch copy of the
# COMMITTED /verif (git HEAD; compiled .vo files are reused for files that are unchanged in the working tree), so
# that neither /repo nor /verif is touched and half-written files of other builders do not matter.
# With patch "-" the unchanged tree is checked.  TIER=thorough, TAIL=<n>, KEEP=1 are honoured.
name=$1; patch=$2; shift 2
W=/tmp/mutchk_$name
rm -rf $W; mkdir -p $W/verif
( flock 9; git -C /repo worktree prune; git -C /repo worktree add -q --detach $W/repo HEAD ) 9>/tmp/.qf_worktree.lock || exit 3
if [ "$patch" != "-" ]; then (cd $W/repo && git apply "$patch") || { echo "PATCH DOES NOT APPLY"; ( flock 9; git -C /repo worktree remove --force $W/repo ) 9>/tmp/.qf_worktree.lock; rm -rf $W; exit 3; }; fi
git -C /verif archive HEAD | tar -x -C $W/verif
# reuse build products: go cache, and .vo of committed-and-unmodified sources
mkdir -p $W/verif/_build; cp -a /verif/_build/gocache $W/verif/_build/ 2>/dev/null
changed=$(cd /verif && git status --porcelain -- coq | awk '{print $2}')
(cd /verif/coq && find . -name '*.vo' -o -name '*.glob' -o -name '*.vos' -o -name '*.vok' | while read f; do
   v="coq/${f#./}"; v="${v%.*}.v"
   case "$v" in coq/Gen/*) ;; *) if echo "$changed" | grep -qx "$v"; then continue; fi; [ -f "$W/verif/$v" ] || continue;; esac
   mkdir -p "$W/verif/coq/$(dirname $f)"; cp -p "$f" "$W/verif/coq/$f"; done)
cp -p /verif/coq/Gen/*.v $W/verif/coq/Gen/ 2>/dev/null
# git archive stamps every file with the commit time; give unchanged sources the working tree's mtime so that make
# accepts the copied .vo files
(cd /verif && git ls-files coq | while read v; do if echo "$changed" | grep -qx "$v"; then continue; fi; [ -f "$W/verif/$v" ] && touch -r "/verif/$v" "$W/verif/$v"; done)
mkdir -p $W/verif/replays $W/verif/evidence
sed -i "s#=> /repo#=> $W/repo#" $W/verif/harness/go.mod
cd $W/verif
for p in "$@"; do
  VERIF_REPO=$W/repo ./check $p --tier ${TIER:-quick} 2>&1 | tail -${TAIL:-8}
  echo "exit[$p]=${PIPESTATUS[0]}"
done
if [ -n "$KEEP" ]; then echo "kept $W"; else
mkdir -p /verif/_build/mutreplays/$name; cp -r $W/verif/replays/. /verif/_build/mutreplays/$name/ 2>/dev/null
( flock 9; git -C /repo worktree remove --force $W/repo ) 9>/tmp/.qf_worktree.lock; rm -rf $W; fi
