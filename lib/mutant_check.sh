#!/bin/bash
# usage: lib/mutant_check.sh <name> <patch.diff|-> <property>...
# Runs the registered checks against a MUTATED scratch copy of /repo (HEAD + patch) using a scratch copy of
# /verif, so that neither /repo nor /verif/_build is touched (other builders may be using them).  Prints the
# check output; scratch copies are removed afterwards.  With patch "-" the unchanged tree is checked.
name=$1; patch=$2; shift 2
W=/tmp/mutchk_$name
rm -rf $W; mkdir -p $W
git -C /repo worktree prune
git -C /repo worktree add -q --detach $W/repo HEAD || exit 3
if [ "$patch" != "-" ]; then (cd $W/repo && git apply "$patch") || { echo "PATCH DOES NOT APPLY"; git -C /repo worktree remove --force $W/repo; rm -rf $W; exit 3; }; fi
rsync -a --exclude .git --exclude _build/cases --exclude replays --exclude evidence --exclude seeded /verif/ $W/verif/
mkdir -p $W/verif/replays $W/verif/evidence
sed -i "s#=> /repo#=> $W/repo#" $W/verif/harness/go.mod
cd $W/verif
for p in "$@"; do
  VERIF_REPO=$W/repo ./check $p --tier ${TIER:-quick} 2>&1 | tail -${TAIL:-8}
  echo "exit[$p]=${PIPESTATUS[0]}"
done
if [ -n "$KEEP" ]; then echo "kept $W"; else
mkdir -p /verif/_build/mutreplays/$name; cp -r $W/verif/replays/. /verif/_build/mutreplays/$name/ 2>/dev/null
git -C /repo worktree remove --force $W/repo; rm -rf $W; fi
