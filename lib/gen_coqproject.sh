#!/bin/sh
# regenerates coq/_CoqProject from the files present (no hand-maintained list); files matching a pattern listed in
# coq/.skip (one grep pattern per line; untracked, used while a file is under construction) are left out
cd "$(dirname "$0")/../coq" || exit 1
{
  echo "-Q . QF"
  echo "-arg -w -arg -notation-overridden,-deprecated-hint-without-locality,-deprecated-instance-without-locality,-ambiguous-paths"
  if [ -s .skip ]; then
    find Base Gen Model Proofs Properties Corr -name '*.v' | LC_ALL=C sort | grep -v -f .skip
  else
    find Base Gen Model Proofs Properties Corr -name '*.v' | LC_ALL=C sort
  fi
} > _CoqProject.new
if ! cmp -s _CoqProject.new _CoqProject; then mv _CoqProject.new _CoqProject; else rm _CoqProject.new; fi
