#!/bin/sh
# regenerates coq/_CoqProject from the files present (no hand-maintained list)
cd "$(dirname "$0")/../coq" || exit 1
{
  echo "-Q . QF"
  echo "-arg -w -arg -notation-overridden,-deprecated-hint-without-locality,-deprecated-instance-without-locality,-ambiguous-paths"
  find Base Gen Model Proofs Properties Corr -name '*.v' | LC_ALL=C sort
} > _CoqProject.new
if ! cmp -s _CoqProject.new _CoqProject; then mv _CoqProject.new _CoqProject; else rm _CoqProject.new; fi
