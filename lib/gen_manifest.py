#!/usr/bin/env python3
"""Regenerates MANIFEST.json from lib/props.py + lib/manifest_text.py (so the two never drift)."""
import json, os, sys, subprocess
ROOT = os.path.dirname(os.path.dirname(os.path.abspath(__file__)))
sys.path.insert(0, os.path.join(ROOT, 'lib'))
from props import PROPS, ENGINES
from manifest_text import TEXT, NOT_APPLICABLE, HOOK_COMMITS
try:
    HOOK_COMMITS = subprocess.check_output(['git', '-C', '/repo', 'log', '--grep', '^verif hooks', '--format=%h'], text=True).split()[::-1] or HOOK_COMMITS
except Exception:
    pass

all_ids = [json.loads(l)['id'] for l in open(os.path.join(ROOT, 'properties.jsonl'))]
checks = []
for pid in all_ids:
    if pid not in PROPS or pid not in TEXT:
        continue
    t = TEXT[pid]
    checks.append({
        'property_id': pid,
        'quick_cmd': './check %s --tier quick' % pid,
        'thorough_cmd': './check %s --tier thorough' % pid,
        'evidence_file': '/verif/evidence/%s.json' % pid,
        'replay_cmd_template': './check %s --replay {path}' % pid,
        'engine': '+'.join(PROPS[pid]['engines']),
        'level_claimed': {'category': 'proof', 'text': t['level'], 'design_ref': t.get('design_ref', 'DESIGN.md section 4, ' + pid)},
        'level_note': t['note'],
        'technique': t['technique'],
    })
na = [{'property_id': p, 'reason': NOT_APPLICABLE.get(p, 'not claimed yet: the model and theorems for this property are still under construction')}
      for p in all_ids if p not in [c['property_id'] for c in checks]]
m = {
    'version': 1,
    'setup_cmd': './check --setup',
    'hooks': {
        'guard': 'verif',
        'enable': 'go build -tags verif (hook files are add-only: /repo/verifhook/*/ and /repo/internal/*/verif_hook.go, all starting with //go:build verif)',
        'baseline_off_cmd': "cd /repo && GOFLAGS=-mod=mod go build ./... && GOFLAGS=-mod=mod go test -vet=off -count=1 ./...",
        'source_commits': HOOK_COMMITS,
        'add_only': True,
    },
    'engines': [{'name': e, 'path': 'harness/cmd/' + e, 'serves_properties': [p for p in all_ids if p in PROPS and e in PROPS[p]['engines']],
                 'kind_free_text': ENGINES[e].get('kind', 'differential correspondence engine: Go harness runs the implementation, coqc evaluates the Coq model and the property oracle on the same cases')}
                for e in sorted(ENGINES)],
    'checks': checks,
    'not_applicable': na,
    'notes': 'Technique family: machine-checked proof in Coq 8.16.1. Every check = full make of coq/ + Properties/<id>.v with Print Assumptions + correspondence engines. See DESIGN.md.',
}
json.dump(m, open(os.path.join(ROOT, 'MANIFEST.json'), 'w'), indent=1)
print('checks:', [c['property_id'] for c in checks], 'not claimed:', [x['property_id'] for x in na])
