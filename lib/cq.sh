#!/bin/sh
# compile one file of the development and show the error with source context
cd /verif/coq || exit 1
out=$(timeout ${CQ_TIMEOUT:-600} coqc -Q . QF "$1" 2>&1)
rc=$?
echo "$out" | head -${CQ_LINES:-40}
if [ $rc -ne 0 ]; then
  line=$(echo "$out" | sed -n 's/^File "[^"]*", line \([0-9]*\),.*/\1/p' | head -1)
  if [ -n "$line" ]; then s=$((line-6)); [ $s -lt 1 ] && s=1; sed -n "${s},$((line+2))p" "$1" | cat -n | sed "s/^/   /"; fi
fi
exit $rc
