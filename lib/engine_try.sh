#!/bin/bash
# usage: lib/engine_try.sh <engine> [n] [seed] [tier]   -- developer aid: builds one engine from the working tree, runs it, compiles
# the shards against the already built coq/ tree and prints non-zero result codes.  Not used by ./check.
eng=$1; n=${2:-600}; seed=${3:-1}; tier=${4:-quick}
export GOFLAGS=-mod=mod GOPROXY=off GOSUMDB=off GOTOOLCHAIN=local
out=/tmp/engtry_$eng${TAG}; rm -rf $out; mkdir -p $out/bin
H=/verif/harness
if [ -n "$PATCH" ]; then
  # run against a patched scratch copy of /repo (removed afterwards)
  ( flock 9; git -C /repo worktree prune; git -C /repo worktree add -q --detach $out/repo HEAD ) 9>/tmp/.qf_worktree.lock || exit 3
  (cd $out/repo && git apply "$PATCH") || { echo "PATCH DOES NOT APPLY"; exit 3; }
  cp -r /verif/harness $out/harness; sed -i "s#=> /repo#=> $out/repo#" $out/harness/go.mod; H=$out/harness
  export VERIF_REPO=$out/repo
  trap '( flock 9; git -C /repo worktree remove --force '$out'/repo ) 9>/tmp/.qf_worktree.lock; rm -rf '$out'/harness' EXIT
fi
race=""; [ "$eng" = conc ] && race="-race"
(cd $H && go build $race -tags verif -o $out/bin/$eng ./cmd/$eng) || exit 2
VERIF_REPO=${VERIF_REPO:-/repo} $out/bin/$eng -seed $seed -n $n -tier $tier -out $out > $out/log.txt 2>&1; echo "engine rc=$?"
tail -3 $out/log.txt
python3 - <<P
import json,glob,re
m=json.load(open('$out/meta.json'))
known={'duplicate-column-names','filteredapply-columnname-copy','eval-missing-column-named-like-a-temporary','filteredapply-enum-toupper'}
f=[x for x in (m.get('impl_failures') or []) if x.get('class') not in known]
print('impl_failures (not known classes):',len(f),' broken_ties:',m.get('broken_ties'))
for x in f[:8]: print('FAIL',json.dumps(x)[:700])
P
ls $out/shard_*.v 2>/dev/null | xargs -P 16 -I{} sh -c 'cd '$out' && ulimit -v 12000000; timeout 1500 coqc -Q /verif/coq QF $(basename {}) > {}.out 2>&1 || echo "COQC FAILED {}"'
python3 - <<P
import json,glob,re
cases={}
for l in open('$out/cases.jsonl'):
    try:
        c=json.loads(l); cases[c.get('id')]=c
    except Exception: pass
known={'duplicate-column-names','filteredapply-columnname-copy','eval-missing-column-named-like-a-temporary','filteredapply-enum-toupper'}
n=0
for o in sorted(glob.glob('$out/shard_*.v.out')):
    t=' '.join(open(o).read().split())
    mm=re.search(r'results = (.*?) : list',t)
    if not mm: print('NO RESULT',o,t[-300:]); continue
    for a,b in re.findall(r'\((\d+)(?:%N)?, (\d+)(?:%N)?\)',mm.group(1)):
        c=cases.get(int(a),{})
        d=c.get('case',c)
        if isinstance(d,dict) and isinstance(d.get('class'),str) and d.get('class') in known: continue
        n+=1
        if n<=12: print('CODE',b,'case',a,json.dumps(d)[:500])
print('unexplained nonzero codes:',n)
P
