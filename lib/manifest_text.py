# Human written texts of MANIFEST.json (level claimed, trusted base note, technique) per property.
HOOK_COMMITS = []
NOT_APPLICABLE = {}
TEXT = {
 'C08': dict(
   level="Theorem C08_pointer_roundtrip (all offsets < 2^35, lengths < 2^28) on a model whose constants are regenerated from the Go source on every run; the model is tied to internal/strings/pointer.go by the bits engine (exact comparison + read-back oracle). More of C08 (New / Select / Drop / Slice / Copy) is under construction.",
   note="Coq kernel + vm_compute; translator qf2coq (constants); Go harness and hook package verifhook/bitshook; Go integer semantics of <<, |, & as modelled in Model/Bits.v.",
   technique="Coq proof (bit-level lemmas) + translator-generated constants + differential correspondence"),
 'C17': dict(
   level="Theorem C17_bitset_single_ok (finite sweep over all 256x256 value pairs, lifted) for the multi-value filter bitset, constants regenerated from the Go source; tied by the bits engine. Enum factory/ordering theorems under construction.",
   note="Coq kernel + vm_compute; translator qf2coq (constants); Go harness and hook internal/ecolumn/verif_hook.go.",
   technique="Coq proof (finite sweep lifted by forallb_forall) + differential correspondence"),
}
