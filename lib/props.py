# Property table of ./check: which Coq property file and which correspondence engines decide a property.
# ENGINES: per engine the case budgets per tier (search_n is used by the directed search that runs when a
# proof obligation or a tie no longer checks).

ENGINES = {
    'bits': dict(quick_n=600, thorough_n=20000, search_n=20000),
}

PROPS = {
    'C08': dict(engines=['bits'], translator_keys=['internal/strings'],
                trusted_base=[], assumptions=[]),
    'C17': dict(engines=['bits'], translator_keys=['internal/ecolumn'],
                trusted_base=[], assumptions=[]),
}
