# Property table of ./check: which Coq property file and which correspondence engines decide a property.
# ENGINES: per engine the case budgets per tier (search_n is used by the directed search that runs when a
# proof obligation or a tie no longer checks).  A case description may carry "props": [...] — then a failing
# case is attributed only to those properties; without it, to every property the engine serves.

ENGINES = {
    'bits':     dict(quick_n=600,  thorough_n=20000, search_n=20000),
    'frameops': dict(quick_n=2600, thorough_n=40000, search_n=12000),
    'sort':     dict(quick_n=1000, thorough_n=6000,  search_n=3000),
    'group':    dict(quick_n=1000, thorough_n=12000, search_n=12000),
    'strings':  dict(quick_n=3000, thorough_n=40000, search_n=40000),
    'csv':      dict(quick_n=3000, thorough_n=60000, search_n=20000),
    'ryu':      dict(quick_n=3400, thorough_n=40000, search_n=40000),
    'sql':      dict(quick_n=800,  thorough_n=20000, search_n=8000),
    'iofault':  dict(quick_n=40,   thorough_n=400,   search_n=400),
    'share':    dict(quick_n=400,  thorough_n=5000,  search_n=5000),
    'conc':     dict(quick_n=1000, thorough_n=6000,  search_n=6000, race=True),
}

STD = ['Go semantics of slices, maps, integer and IEEE-754 operations as modelled; behaviour of the Go standard library where it enters as a recorded oracle table']

PROPS = {
    'C01': dict(engines=['share', 'frameops'], translator_keys=[], uses_gen=False, trusted_base=STD, assumptions=['callbacks do not keep or write through their arguments (reading decision 9)']),
    'C02': dict(engines=['frameops'], translator_keys=['kernel', 'table', 'filter'], trusted_base=STD, assumptions=['like/ilike matcher and user predicates enter as recorded tables']),
    'C03': dict(engines=['sort'], translator_keys=['internal/sort'], trusted_base=STD, assumptions=[]),
    'C04': dict(engines=['group', 'frameops'], translator_keys=['internal/grouper'], trusted_base=STD + ['runtime.memhash is an arbitrary function of (bytes, seed)'], assumptions=[]),
    'C05': dict(engines=['group'], translator_keys=['internal/grouper'], trusted_base=STD + ['runtime.memhash is an arbitrary function of (bytes, seed)'], assumptions=[]),
    'C06': dict(engines=['frameops'], translator_keys=['table'], trusted_base=STD, assumptions=['user functions enter as tables over the cells of the case']),
    'C07': dict(engines=['frameops'], translator_keys=[], uses_gen=False, trusted_base=STD, assumptions=['context functions enter as tables over the cells of the case']),
    'C08': dict(engines=['bits', 'frameops'], translator_keys=['internal/strings'], trusted_base=STD, assumptions=[]),
    'C09': dict(engines=['frameops'], translator_keys=[], uses_gen=False, trusted_base=STD, assumptions=[]),
    'C10': dict(engines=['frameops'], translator_keys=['kernel', 'table', 'filter'], trusted_base=STD, assumptions=[]),
    'C11': dict(engines=['conc'], translator_keys=[], uses_gen=False, trusted_base=STD + ['Go race detector (go build -race)'], assumptions=['the Go memory model itself is not modelled']),
    'C12': dict(engines=['csv'], translator_keys=['internal/fastcsv', 'internal/io'], trusted_base=STD, assumptions=[]),
    'C13': dict(engines=['csv'], translator_keys=['internal/fastcsv', 'internal/io'], trusted_base=STD + ['encoding/csv Writer transcription (Go 1.23)', 'strconv FormatFloat/ParseFloat round trip hypothesis'], assumptions=['float_roundtrip']),
    'C14': dict(engines=['strings', 'ryu', 'frameops'], translator_keys=['internal/strings'], trusted_base=STD, assumptions=[]),
    'C15': dict(engines=['iofault'], translator_keys=[], uses_gen=False, trusted_base=STD + ['database/sql, bufio, encoding/csv, encoding/json error propagation as modelled'], assumptions=[]),
    'C16': dict(engines=['ryu'], translator_keys=['internal/ryu'], trusted_base=STD, assumptions=[]),
    'C17': dict(engines=['bits', 'frameops', 'csv'], translator_keys=['internal/ecolumn'], trusted_base=STD, assumptions=[]),
    'C18': dict(engines=['strings', 'frameops'], translator_keys=['internal/strings', 'internal/scolumn', 'internal/ecolumn'], trusted_base=STD + ['Go regexp is an oracle', 'unicode.ToUpper is an arbitrary rune map'], assumptions=[]),
    'C19': dict(engines=['sql'], translator_keys=[], uses_gen=False, trusted_base=STD + ['database/sql default value conversion'], assumptions=[]),
}

# Source-shape tie: for files that several properties are anchored in, the functions (regular expression on
# "Receiver.Name" / "Name") whose fingerprint a property watches; every other anchor file is watched completely.
# Functions that no model covers are excluded everywhere.
SHARED_FUNCS = {
    'qframe.go': {
        'C02': r'QFrame\.(Filter|filter)', 'C03': r'QFrame\.Sort', 'C04': r'QFrame\.GroupBy', 'C05': r'QFrame\.Distinct',
        'C06': r'QFrame\.(Apply|apply0|apply1|apply2|FilteredApply|WithRowNums|setColumn)',
        'C07': r'QFrame\.(Eval|setColumn|Drop|Select|Copy)',
        'C08': r'(New|createColumn|QFrame\.(Select|Drop|Slice|Copy|setColumn|checkColumns|Contains))',
        'C09': r'QFrame\.(Len|Equals|ToCSV|ToJSON|String|ColumnNames|ColumnTypes|ColumnTypeMap|.*View)',
        'C12': r'ReadCSV', 'C13': r'(ReadCSV|QFrame\.ToCSV)', 'C14': r'(ReadJSON|QFrame\.ToJSON)',
        'C15': r'(ReadCSV|ReadJSON|ReadSQL|QFrame\.(ToCSV|ToJSON|ToSQL))', 'C17': r'(New|createColumn|ReadCSV|ReadJSON)',
        'C19': r'(ReadSQL|QFrame\.ToSQL)',
    },
    'internal/template/column.go': {'C03': r'.*(Compare|Comparable).*', 'C04': r'.*(Aggregate|subsetWithBuf|Subset|Hash|Comparable).*',
                                    'C06': r'.*(Apply1|Apply2|New|NewConst).*', 'C08': r'.*(New|NewConst|Subset).*', 'C09': r'.*(Equals|View|StringAt|AppendByteStringAt|Len).*'},
}
UNMODELLED_FUNCS = [r'QFrame\.(ByteSize|Rolling|Append|Doc|functionType)', r'Doc', r'.*\.ByteSize', r'.*\.FunctionType', r'.*\.DataType', r'.*\.Append']

# properties whose models are tied by the translated functions of Gen/GenFuncs.v (Properties/T1.v)
T1_PROPS = ['C03', 'C04', 'C05', 'C06', 'C07', 'C08', 'C14', 'C16', 'C17']
# which properties a failing translation proof concerns (sorter.go: C03; grouper.go: C04, C05; the pure functions: all)
T1_FILES = {
    'Proofs/GenFuncsProofs.v': T1_PROPS,
    'Proofs/GenSorterProofs.v': ['C03'],
    'Proofs/GenGrouperProofs.v': ['C04', 'C05'],
    'Properties/T1.v': T1_PROPS,
    'Proofs/GenFilterClauseProofs.v': ['C02', 'C10', 'C17'],
    'Properties/T1Filter.v': ['C02', 'C10', 'C17'],
    'Proofs/GenFastCsvProofs.v': ['C12', 'C15'],
    'Properties/T1Csv.v': ['C12', 'C15'],
    'Proofs/GenStrSerProofs.v': ['C14', 'C18', 'C06', 'C09'],
    'Properties/T1Strings.v': ['C14', 'C18', 'C06', 'C09'],
    'Proofs/GenRyuTextProofs.v': ['C16', 'C14'],
    'Properties/T1RyuText.v': ['C16', 'C14'],
    'Proofs/GenSqlIOProofs.v': ['C19', 'C15'],
    'Properties/T1Sql.v': ['C19', 'C15'],
    'Proofs/GenAggrProofs.v': ['C04', 'C05', 'C03'],
    'Properties/T1Aggr.v': ['C04', 'C05', 'C03'],
    'Proofs/GenQFrameOpsProofs.v': ['C08', 'C10', 'C06', 'C01', 'C03', 'C07', 'C09'],
    'Properties/T1QFrame.v': ['C08', 'C10', 'C06', 'C01', 'C03', 'C07', 'C09'],
    'Proofs/GenExprTreeProofs.v': ['C07', 'C10'],
    'Properties/T1Expr.v': ['C07', 'C10'],
    'Proofs/GenIoCsvProofs.v': ['C12', 'C13', 'C17'],
    'Properties/T1IoCsv.v': ['C12', 'C13', 'C17'],
    'Proofs/GenFilterDispatchProofs.v': ['C02', 'C17', 'C18', 'C10'],
    'Properties/T1FilterDispatch.v': ['C02', 'C17', 'C18', 'C10'],
    'Proofs/GenColApplyProofs.v': ['C06', 'C07', 'C18', 'C17'],
    'Properties/T1ColApply.v': ['C06', 'C07', 'C18', 'C17'],
    'Proofs/GenEvalCtxProofs.v': ['C07', 'C10'],
    'Properties/T1EvalCtx.v': ['C07', 'C10'],
    'Proofs/GenViewsProofs.v': ['C09', 'C01'],
    'Properties/T1Views.v': ['C09', 'C01'],
    'Proofs/GenSqlWriteProofs.v': ['C19', 'C15'],
    'Properties/T1SqlWrite.v': ['C19', 'C15'],
    'Proofs/GenIoJsonProofs.v': ['C14', 'C17'],
    'Properties/T1IoJson.v': ['C14', 'C17'],
    'Proofs/GenEnumFacProofs.v': ['C17', 'C14', 'C13', 'C09'],
    'Properties/T1Enum.v': ['C17', 'C14', 'C13', 'C09'],
}
# the files of translation theorems whose statements count as obligations of a property (re-checked with it)
T1_PROP_FILES = {
    'Properties/T1.v': T1_PROPS,
    'Properties/T1Filter.v': ['C02', 'C10', 'C17'],
    'Properties/T1Csv.v': ['C12', 'C15'],
    'Properties/T1Strings.v': ['C14', 'C18', 'C06', 'C09'],
    'Properties/T1RyuText.v': ['C16', 'C14'],
    'Properties/T1Sql.v': ['C19', 'C15'],
    'Properties/T1Aggr.v': ['C04', 'C05', 'C03'],
    'Properties/T1QFrame.v': ['C08', 'C10', 'C06', 'C01', 'C03', 'C07', 'C09'],
    'Properties/T1Expr.v': ['C07', 'C10'],
    'Properties/T1IoCsv.v': ['C12', 'C13', 'C17'],
    'Properties/T1Enum.v': ['C17', 'C14', 'C13'],
    'Properties/T1IoJson.v': ['C14', 'C17'],
    'Properties/T1FilterDispatch.v': ['C02', 'C17', 'C18', 'C10'],
    'Properties/T1ColApply.v': ['C06', 'C07'],
    'Properties/T1EvalCtx.v': ['C07', 'C10'],
    'Properties/T1Views.v': ['C09', 'C01'],
    'Properties/T1SqlWrite.v': ['C19', 'C15'],
}
