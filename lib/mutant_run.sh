#!/bin/bash
# usage: mutant_run.sh <name> <engine> <n> <seed> -- <shell command run inside the scratch copy of /repo to mutate it>
# Runs one engine against a mutated scratch copy of /repo (tracked files at HEAD + untracked hook files),
# WITHOUT touching /repo. Only the correspondence side is exercised (Gen is not regenerated).
set -e
name=$1; engine=$2; n=$3; seed=$4; shift 5
W=/tmp/mut_$name
rm -rf $W && mkdir -p $W
git -C /repo worktree add -q --detach $W/repo HEAD
(cd /repo && git ls-files --others --exclude-standard | while read f; do mkdir -p $W/repo/$(dirname $f); cp $f $W/repo/$f; done)
(cd $W/repo && eval "$@")
cp -r /verif/harness $W/harness
sed -i "s#=> /repo#=> $W/repo#" $W/harness/go.mod
export GOFLAGS=-mod=mod GOPROXY=off GOSUMDB=off GOTOOLCHAIN=local
(cd $W/harness && go build -tags verif -o $W/$engine ./cmd/$engine)
$W/$engine -seed $seed -n $n -out $W/cases >/dev/null
(cd $W/cases && for f in shard_*.v; do coqc -Q /verif/coq QF $f > $f.out 2>&1 & done; wait)
echo "== coq results (non-empty only):"
cat $W/cases/shard_*.out | tr '\n' ' ' | grep -o '([0-9]*, [0-9]*)' | sort -u | tr '\n' ' '; echo
python3 - <<P
import json
m=json.load(open('$W/cases/meta.json'))
f=m.get('impl_failures') or []
print('== impl failures:',len(f))
for x in f[:4]: print('  ',x['what'][:150], json.dumps(x['case'])[:200])
P
git -C /repo worktree remove --force $W/repo
rm -rf $W
