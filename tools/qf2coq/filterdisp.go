package main

// Translation of the column-level filter dispatch into Gallina (coq/Gen/GenFilterDispatch.v, tie T1 for the part
// of QFrame.Filter that lies between the clause tree (filterclause.go) and the loop kernels (kernels.go)):
//
//	qframe.go                         isOrderComparator, unknownCol, QFrame.filter
//	internal/strings/convert.go       InterfaceSliceToStringSlice
//	internal/icolumn/column.go        intComp, interfaceSliceToIntSlice, newIntSet, Column.FloatSlice,
//	                                  Column.filterBuiltIn, Column.Filter
//	internal/fcolumn, bcolumn, scolumn/column.go      Column.filterBuiltIn, Column.Filter
//	internal/ecolumn/column.go        equalTypes, Column.filterBuiltIn, Column.Filter
//
// Each function is translated statement by statement into a definition gd_<pkg letter>_<name>;
// coq/Proofs/GenFilterDispatchProofs.v proves each equal to the hand-written model of coq/Model/Filter.v
// (col_filter, filter_leaf, filter_leaves), so that an edit of one of these Go functions changes the generated
// text and breaks a named theorem T1_filterdisp_<name> of coq/Properties/T1FilterDispatch.v.
//
// THE SCHEME (anything that does not fit is reported through problem(...); the block then keeps the text of the
// golden copy, marked FALLBACK, so that the development still builds — the exit status says the tie is broken).
//
//	boundary    The loop kernels are NOT translated here (they are the deep-embedded terms of Gen/GenKernels.v).
//	            A comparator table  var T = map[string]func(..){..}  is the association list of Gen/GenTables.v;
//	            f, ok := T[k] is gd_lookup (gd_assoc k t_..) and gives the NAME of the function (the empty name
//	            for a missing key: the nil function).  Calling such a value,  f(a, b, ..), is the section variable
//	            tbl_<pkg letter>_<T> f a b ..  (the function of that name in that package applied to the
//	            arguments).  The methods filterCustom1, filterCustom2 and filterWithBitset are kernels too:
//	            c.filterCustom1(..) is the section variable k_<pkg letter>_filterCustom1 <fields of c> ...
//	            The types of these variables are derived from the Go function types.
//	results     every function answers outcome (r1, .., rn, b1, .., bm): the Go results followed by the final
//	            contents of every parameter of type index.Bool, in parameter order (a slice the callee stores
//	            into is value-result; the caller rebinds the variable it passed, which must be a variable).
//	            Panic = Go panic.  The same convention holds for the section variables of the boundary.
//	fuel        newIntSet calls itself: it is a Fixpoint on (fuel : nat), O => Panic.  Every function from which
//	            it can be reached takes fuel as first argument and hands it on unchanged.  Loops need no fuel:
//	            all of them range over a slice.
//	interface{} gd_any: one constructor per dynamic type the translated code distinguishes (gdAnyTypes below)
//	            and gd_any_other for a value of any other type; a type switch / type assertion is a match.
//	            v, ok := x.(T) is  let '(v, ok) := match x with C y => (y, true) | _ => (zero, false) end.
//	            A value of static type T stored into an interface{} is wrapped in its constructor; a column
//	            stored into interface{} goes through gd_col_any (nil stays nil).
//	columns     column.Column is the closed sum gd_column of the five column types (gd_col_nil = nil interface);
//	            a struct Column{data ..} is passed as its fields (c_data ..); scolumn.Column is the abstract SC.
//	            x.Filter(..) with x of interface type is the dispatcher gd_Column_Filter (Panic for nil).
//	            namedColumn is represented by its embedded Column (no other field may be touched).
//	            fcolumn.New(d) (text-matched) is the struct with data = d.
//	frames      QFrame is the abstract F: qf.Err, qf.index, qf.withErr, qf.withIndex as in filterclause.go, and
//	            qf.columnsByName[k] -> gd_lookup (qf_columnsByName qf k) gd_col_nil.
//	            index.NewBool and Int.Filter are the translated gc_NewBool and gc_Int_Filter of GenFilterClause.v.
//	filter      filter.Filter is the generated Record gd_Filter; a variable of that type is held as its fields.
//	errors      error -> option E; qerrors.New(op, format, params..) -> Some (new_error op format): the
//	            parameters of the message are NOT part of the translation (they may only be variables or
//	            reflect.TypeOf(variable)); qerrors.Propagate(op, err) -> Some (propagate op err);
//	            fmt.Sprintf(format, strings..) -> sprintf format [strings].
//	numbers     int -> Z (exact; overflow is outside the translation as it is outside the model); float64 is the
//	            abstract FT with math.IsNaN -> f_isnan, int(x) -> f_toint, float64(i) -> i_tofloat;
//	            enumVal -> N with enumVal(i) = gd_enumVal i (mod 256).
//	sets        intSet (map[int]struct{}) is the list of the keys in insertion order: make -> [], s[k] = struct{}{}
//	            -> gd_set_add (append); only kernels read it.  qfstrings.NewStringSet(l) -> new_string_set l : SS.
//	slices      []T -> list T (nil = []); make([]T, len(x)) -> repeat zero; s[i] -> gd_index; s[i] = v -> gd_update.
//	control     statements are translated in continuation style.  An if / type switch that contains a return
//	            continues inside its (at most one) branch that falls through; when several branches can fall
//	            through it is bound as a sum:  do r <- (..); match r with inr v => return v | inl vars => rest.
//	            An if / switch without return answers the outer variables it assigns.
//	            for i, v := range X: Definition <f>_loopN := fix loop (l : list T) (v_i : Z) (variables) {struct l};
//	            when the body stores into X the element is read as X[i] in the current X (Go reads the backing
//	            array); a loop with a return inside continues with the rest of the function at its exit.
//	            a && b / a || b are andb / orb, or if-then-else when b has to be bound.
//	            a variable declared in an inner scope under the name of a visible one gets a fresh name.
//	rejected    for with a condition, break, continue, goto, labels, expression switch, defer, closures, stores
//	            through pointers, everything else.

import (
	"flag"
	"fmt"
	"go/ast"
	"go/token"
	"os"
	"path/filepath"
	"strconv"
	"strings"
)

const gdRoot = "."
const gdStrPkg = "internal/strings"

var gdColPkgs = []string{"internal/icolumn", "internal/fcolumn", "internal/bcolumn", "internal/scolumn", "internal/ecolumn"}

func gdLetter(pkg string) string {
	switch pkg {
	case gdRoot:
		return "q"
	case gdStrPkg:
		return "str"
	}
	b := filepath.Base(pkg)
	return b[:1]
}

type gdSpec struct{ pkg, fn string }

var gdSpecs = []gdSpec{
	{gdStrPkg, "InterfaceSliceToStringSlice"},
	{"internal/icolumn", "intComp"}, {"internal/icolumn", "interfaceSliceToIntSlice"}, {"internal/icolumn", "newIntSet"},
	{"internal/icolumn", "Column.FloatSlice"}, {"internal/icolumn", "Column.filterBuiltIn"}, {"internal/icolumn", "Column.Filter"},
	{"internal/fcolumn", "Column.filterBuiltIn"}, {"internal/fcolumn", "Column.Filter"},
	{"internal/bcolumn", "Column.filterBuiltIn"}, {"internal/bcolumn", "Column.Filter"},
	{"internal/scolumn", "Column.filterBuiltIn"}, {"internal/scolumn", "Column.Filter"},
	{"internal/ecolumn", "equalTypes"}, {"internal/ecolumn", "Column.filterBuiltIn"}, {"internal/ecolumn", "Column.Filter"},
	{gdRoot, "isOrderComparator"}, {gdRoot, "unknownCol"}, {gdRoot, "QFrame.filter"},
}

// methods of Column that are kernels (Gen/GenKernels.v): section variables
var gdKernelMethods = []string{"filterCustom1", "filterCustom2", "filterWithBitset"}

// the text the fixed vocabulary stands for (printed by go/printer)
var gdVocabulary = []struct{ pkg, fn, text string }{
	{gdRoot, "QFrame.withErr", "func (qf QFrame) withErr(err error) QFrame {\n\treturn QFrame{Err: err, columns: qf.columns, columnsByName: qf.columnsByName, index: qf.index}\n}"},
	{gdRoot, "QFrame.withIndex", "func (qf QFrame) withIndex(ix index.Int) QFrame {\n\treturn QFrame{Err: qf.Err, columns: qf.columns, columnsByName: qf.columnsByName, index: ix}\n}"},
	{"internal/index", "Int.Len", "func (ix Int) Len() int {\n\treturn len(ix)\n}"},
	{"internal/index", "Bool.Len", "func (ix Bool) Len() int {\n\treturn len(ix)\n}"},
	{"internal/index", "NewBool", "func NewBool(size int) Bool"},
	{"internal/index", "Int.Filter", "func (ix Int) Filter(bIx Bool) Int"},
	{"qerrors", "New", "func New(operation, reason string, params ...interface{}) Error {\n\treturn Error{operation: operation, reason: fmt.Sprintf(reason, params...)}\n}"},
	{"qerrors", "Propagate", "func Propagate(operation string, err error) Error {\n\treturn Error{operation: operation, source: err}\n}"},
	{"internal/fcolumn", "New", "func New(d []float64) Column {\n\treturn Column{data: d}\n}"},
	{gdStrPkg, "NewStringSet", "func NewStringSet(input []string) StringSet"},
}

// the type declarations the fixed vocabulary stands for
var gdTypeDecls = []struct{ pkg, name, text string }{
	{gdRoot, "namedColumn", "struct {\n\tcolumn.Column\n\tname\tstring\n\tpos\tint\n}"},
	{"types", "ColumnName", "string"},
	{"internal/ecolumn", "enumVal", "uint8"},
	{"internal/icolumn", "intSet", "map[int]struct{}"},
	{"internal/index", "Int", "[]uint32"},
	{"internal/index", "Bool", "[]bool"},
}

// ------------------------------------------------------------------ types

type gdT struct {
	k    string // see coq()
	pkg  string // struct, kfun
	name string // struct: type name; kfun: table variable
}

func gdK(k string) *gdT { return &gdT{k: k} }

var gdBad = gdK("bad")

func (t *gdT) same(u *gdT) bool { return t.k == u.k && t.pkg == u.pkg && t.name == u.name }

func (t *gdT) coq() string {
	switch t.k {
	case "int":
		return "Z"
	case "bool":
		return "bool"
	case "string", "kfun":
		return "bytes"
	case "float":
		return "FT"
	case "enumval":
		return "N"
	case "id":
		return "A"
	case "ids":
		return "(list A)"
	case "bools", "boolvals":
		return "(list bool)"
	case "ints", "iset":
		return "(list Z)"
	case "floats":
		return "(list FT)"
	case "strings":
		return "(list bytes)"
	case "anys":
		return "(list gd_any)"
	case "enumvals":
		return "(list N)"
	case "any":
		return "gd_any"
	case "err":
		return "(option E)"
	case "col":
		return "gd_column"
	case "scol":
		return "SC"
	case "sset":
		return "SS"
	case "bitset":
		return "BS"
	case "fn1":
		return "FN1"
	case "fn2":
		return "FN2"
	case "frame":
		return "F"
	case "filters":
		return "(list gd_Filter)"
	case "struct":
		if st := gdStructOf(t); st != nil {
			var fs []string
			for _, f := range st.fields {
				fs = append(fs, f.ty.coq())
			}
			return gdTypeTuple(fs)
		}
	}
	return "?"
}

func (t *gdT) elem() *gdT {
	switch t.k {
	case "ids":
		return gdK("id")
	case "bools", "boolvals":
		return gdK("bool")
	case "ints":
		return gdK("int")
	case "floats":
		return gdK("float")
	case "strings":
		return gdK("string")
	case "anys":
		return gdK("any")
	case "enumvals":
		return gdK("enumval")
	case "filters":
		return &gdT{k: "struct", pkg: "filter", name: "Filter"}
	}
	return nil
}

func (t *gdT) zero() (string, bool) {
	switch t.k {
	case "int":
		return "0", true
	case "bool":
		return "false", true
	case "string", "kfun":
		return "(@nil N)", true
	case "enumval":
		return "0%N", true
	case "float":
		return "(i_tofloat 0)", true
	case "ids", "bools", "boolvals", "ints", "iset", "floats", "strings", "anys", "enumvals", "filters":
		return "[]", true
	case "any":
		return "gd_any_nil", true
	case "err":
		return "None", true
	case "col":
		return "gd_col_nil", true
	}
	return "", false
}

type gdField struct {
	name string
	ty   *gdT
}

type gdStruct struct {
	pkg, name string
	fields    []gdField
}

var gdStructs map[string]*gdStruct

func gdStructOf(t *gdT) *gdStruct {
	if t.k != "struct" {
		return nil
	}
	return gdStructs[t.pkg+":"+t.name]
}

// zeros of a struct's fields
func gdStructZero(t *gdT) ([]string, bool) {
	st := gdStructOf(t)
	if st == nil {
		return nil, false
	}
	var out []string
	for _, f := range st.fields {
		z, ok := f.ty.zero()
		if !ok {
			return nil, false
		}
		out = append(out, z)
	}
	return out, true
}

func gdTuple(parts []string) string {
	if len(parts) == 0 {
		return "tt"
	}
	if len(parts) == 1 {
		return parts[0]
	}
	return "(" + strings.Join(parts, ", ") + ")"
}

func gdTypeTuple(parts []string) string {
	if len(parts) == 0 {
		return "unit"
	}
	if len(parts) == 1 {
		return parts[0]
	}
	return "(" + strings.Join(parts, " * ") + ")"
}

// gdResolve maps a Go type expression (source text) of package pkg to a translation type
func gdResolve(pkg, src string) *gdT {
	switch src {
	case "int":
		return gdK("int")
	case "bool":
		return gdK("bool")
	case "string":
		return gdK("string")
	case "float64":
		return gdK("float")
	case "error":
		return gdK("err")
	case "interface{}":
		return gdK("any")
	case "[]int":
		return gdK("ints")
	case "[]float64":
		return gdK("floats")
	case "[]string":
		return gdK("strings")
	case "[]bool":
		return gdK("boolvals")
	case "[]interface{}":
		return gdK("anys")
	case "index.Int":
		return gdK("ids")
	case "index.Bool":
		return gdK("bools")
	case "qfstrings.StringSet":
		return gdK("sset")
	case "column.Column":
		return gdK("col")
	}
	switch pkg {
	case gdRoot:
		switch src {
		case "QFrame":
			return gdK("frame")
		case "...filter.Filter", "[]filter.Filter":
			return gdK("filters")
		case "filter.Filter":
			return &gdT{k: "struct", pkg: "filter", name: "Filter"}
		case "namedColumn":
			return gdK("col")
		case "types.ColumnName":
			return gdK("string")
		}
		for _, cp := range gdColPkgs {
			if src == filepath.Base(cp)+".Column" {
				return gdResolve(cp, "Column")
			}
		}
	case "internal/scolumn":
		if src == "Column" {
			return gdK("scol")
		}
	}
	if src == "Column" {
		if _, ok := gdStructs[pkg+":Column"]; ok {
			return &gdT{k: "struct", pkg: pkg, name: "Column"}
		}
	}
	if pkg == "internal/icolumn" && src == "intSet" {
		return gdK("iset")
	}
	if pkg == "internal/ecolumn" {
		switch src {
		case "enumVal":
			return gdK("enumval")
		case "[]enumVal":
			return gdK("enumvals")
		case "*bitset":
			return gdK("bitset")
		}
	}
	if el, ok := gdFnElem[pkg]; ok {
		switch src {
		case "func(" + el + ") bool":
			return gdK("fn1")
		case "func(" + el + ", " + el + ") bool":
			return gdK("fn2")
		}
	}
	return gdBad
}

// element type of the custom predicates of a column package
var gdFnElem = map[string]string{"internal/icolumn": "int", "internal/fcolumn": "float64", "internal/bcolumn": "bool",
	"internal/scolumn": "*string", "internal/ecolumn": "*string"}

// the dynamic types of interface{} values the translation distinguishes: Go type text -> constructor, payload
type gdAnyType struct {
	src, ctor string
	ty        *gdT
}

var gdAnyTypes = []gdAnyType{
	{"int", "gd_any_int", gdK("int")}, {"float64", "gd_any_float64", gdK("float")}, {"bool", "gd_any_bool", gdK("bool")},
	{"string", "gd_any_string", gdK("string")}, {"[]int", "gd_any_ints", gdK("ints")}, {"[]float64", "gd_any_float64s", gdK("floats")},
	{"[]string", "gd_any_strings", gdK("strings")}, {"[]interface{}", "gd_any_anys", gdK("anys")},
	{"types.ColumnName", "gd_any_ColumnName", gdK("string")},
	{"func(int) bool", "gd_any_func_int", gdK("fn1")}, {"func(float64) bool", "gd_any_func_float64", gdK("fn1")},
	{"func(bool) bool", "gd_any_func_bool", gdK("fn1")}, {"func(*string) bool", "gd_any_func_pstring", gdK("fn1")},
	{"func(int, int) bool", "gd_any_func2_int", gdK("fn2")}, {"func(float64, float64) bool", "gd_any_func2_float64", gdK("fn2")},
	{"func(bool, bool) bool", "gd_any_func2_bool", gdK("fn2")}, {"func(*string, *string) bool", "gd_any_func2_pstring", gdK("fn2")},
}

// a pattern for the dynamic type src seen from package pkg on a scrutinee of type any or col: the constructor
// pattern over the names vars (fields for a struct) and the payload type
func gdTypePattern(pkg string, scrut *gdT, src string) (ctor string, ty *gdT, ok bool) {
	if scrut.k == "any" {
		if src == "nil" {
			return "gd_any_nil", gdK("nil"), true
		}
		for _, a := range gdAnyTypes {
			if a.src == src {
				return a.ctor + " @", a.ty, true
			}
		}
	}
	ty = gdResolve(pkg, src)
	if ty.k == "struct" && ty.name == "Column" || ty.k == "scol" {
		p := ty.pkg
		if ty.k == "scol" {
			p = "internal/scolumn"
		}
		c := "gd_col_" + filepath.Base(p)
		if scrut.k == "any" {
			return "gd_any_col (" + c + " @)", ty, true
		}
		if scrut.k == "col" {
			return c + " @", ty, true
		}
	}
	return "", gdBad, false
}

// ------------------------------------------------------------------ translation state

type gdVar struct {
	name   string // Go name
	ty     *gdT
	coq    string   // Coq name (every type but struct)
	fields []string // struct: the Coq names of the fields
}

type gdVal struct {
	text   string // Coq text; a struct: its fields separated by blanks
	ty     *gdT
	fields []string
}

type gdFunc struct {
	spec     gdSpec
	fd       *ast.FuncDecl
	coq      string
	recv     *gdVar
	params   []gdVar
	results  []*gdT
	fuel     bool
	selfRec  bool
	text     string
	ok, done bool
}

var gdFuncs map[string]*gdFunc // by "pkg:Name"

type gdCtx struct {
	vars   []gdVar
	inLoop bool // the continuation is the next iteration of a loop
	depth  int  // enclosing early-exit blocks
}

type gdTr struct {
	p      *pkgInfo
	f      *gdFunc
	bad    bool
	ntmp   int
	loops  []string
	nloops int
	used   map[string]bool
}

func (t *gdTr) fail(n ast.Node, format string, a ...interface{}) {
	if !t.bad {
		pos := ""
		if n != nil {
			pos = t.p.fset.Position(n.Pos()).String()
			pos = strings.TrimPrefix(pos, repo+"/") + ": "
		}
		problem("filter dispatch translation of %s (%s): %s%s", t.f.spec.fn, t.f.spec.pkg, pos, fmt.Sprintf(format, a...))
	}
	t.bad = true
}

func (t *gdTr) src(n ast.Node) string { return gcSrc(t.p.fset, n) }

func (t *gdTr) tmp() string {
	t.ntmp++
	return fmt.Sprintf("t%d", t.ntmp)
}

func (c gdCtx) lookup(name string) (gdVar, bool) {
	for i := len(c.vars) - 1; i >= 0; i-- {
		if c.vars[i].name == name {
			return c.vars[i], true
		}
	}
	return gdVar{}, false
}

func (t *gdTr) resolve(e ast.Expr) *gdT {
	ty := gdResolve(t.f.spec.pkg, t.src(e))
	if ty.k == "bad" {
		t.fail(e, "type outside the scheme: %s", t.src(e))
	}
	return ty
}

// declare adds a variable; a name that is already visible gets a fresh Coq name
func (t *gdTr) declare(c *gdCtx, name string, ty *gdT) gdVar {
	if name == "_" {
		v := gdVar{name: "_", ty: ty, coq: "_"}
		if st := gdStructOf(ty); st != nil {
			for range st.fields {
				v.fields = append(v.fields, "_")
			}
		}
		return v
	}
	base := "v_" + name
	if t.used[base] {
		for i := 1; ; i++ {
			base = fmt.Sprintf("v_%s_%d", name, i)
			if !t.used[base] {
				break
			}
		}
	}
	t.used[base] = true
	v := gdVar{name: name, ty: ty, coq: base}
	if st := gdStructOf(ty); st != nil {
		v.coq = ""
		for _, f := range st.fields {
			v.fields = append(v.fields, base+"_"+f.name)
		}
	}
	c.vars = append(c.vars, v)
	return v
}

func (v gdVar) names() []string {
	if v.fields != nil {
		return v.fields
	}
	return []string{v.coq}
}

func (v gdVar) val() gdVal {
	if v.fields != nil {
		return gdVal{strings.Join(v.fields, " "), v.ty, v.fields}
	}
	return gdVal{v.coq, v.ty, nil}
}

func gdStructVal(ty *gdT, fields []string) gdVal {
	return gdVal{strings.Join(fields, " "), ty, fields}
}

// coerce checks that a value can stand where want is expected and gives its text there
func (t *gdTr) coerce(n ast.Node, v gdVal, want *gdT) string {
	have := v.ty
	if have.k == "bad" || want.k == "bad" {
		return v.text
	}
	if have.same(want) {
		return v.text
	}
	if have.k == "nil" {
		if z, ok := want.zero(); ok {
			return z
		}
	}
	colOf := func() (string, bool) {
		switch {
		case have.k == "col":
			return v.text, true
		case have.k == "struct" && have.name == "Column":
			return "(gd_col_" + filepath.Base(have.pkg) + " " + v.text + ")", true
		case have.k == "scol":
			return "(gd_col_scolumn " + v.text + ")", true
		}
		return "", false
	}
	switch want.k {
	case "col":
		if x, ok := colOf(); ok {
			return x
		}
	case "any":
		if x, ok := colOf(); ok {
			if have.k == "col" {
				return "(gd_col_any " + x + ")"
			}
			return "(gd_any_col " + x + ")"
		}
		for _, a := range gdAnyTypes {
			if a.ty.same(have) && a.ty.k != "fn1" && a.ty.k != "fn2" && a.src != "types.ColumnName" {
				return "(" + a.ctor + " " + v.text + ")"
			}
		}
	case "string":
		if have.k == "kfun" {
			return v.text
		}
	}
	t.fail(n, "a value of type %s %s stands where %s %s is expected: %s", have.k, have.name, want.k, want.name, t.src(n))
	return v.text
}

// ------------------------------------------------------------------ callees

type gdCallee struct {
	head    string // Coq text of the function (with fuel and receiver fields when it has them)
	params  []*gdT
	results []*gdT
	pure    bool // a value, not an outcome
}

// the types a callee answers: its Go results followed by its parameters of type index.Bool
func gdAnswer(results []*gdT, params []*gdT) []*gdT {
	out := append([]*gdT{}, results...)
	for _, p := range params {
		if p.k == "bools" {
			out = append(out, p)
		}
	}
	return out
}

func gdAnswerType(results []*gdT, params []*gdT) string {
	var parts []string
	for _, r := range gdAnswer(results, params) {
		parts = append(parts, r.coq())
	}
	return gdTypeTuple(parts)
}

func gdParamTypes(vs []gdVar) []*gdT {
	var out []*gdT
	for _, v := range vs {
		out = append(out, v.ty)
	}
	return out
}

// gdFuncType resolves a Go function type of package pkg
func gdFuncType(p *pkgInfo, pkg string, ft *ast.FuncType) (params, results []*gdT, ok bool) {
	ok = true
	get := func(fl *ast.FieldList) []*gdT {
		var out []*gdT
		if fl == nil {
			return out
		}
		for _, f := range fl.List {
			ty := gdResolve(pkg, gcSrc(p.fset, f.Type))
			if ty.k == "bad" {
				ok = false
			}
			n := len(f.Names)
			if n == 0 {
				n = 1
			}
			for i := 0; i < n; i++ {
				out = append(out, ty)
			}
		}
		return out
	}
	return get(ft.Params), get(ft.Results), ok
}

func gdArrow(pre []string, params, results []*gdT) string {
	parts := append([]string{}, pre...)
	for _, p := range params {
		parts = append(parts, p.coq())
	}
	parts = append(parts, "outcome "+gdAnswerType(results, params))
	return strings.Join(parts, " -> ")
}

// table variables of the column packages: by pkg:var
type gdTable struct {
	spec            tableSpec
	params, results []*gdT
	ok              bool
}

var gdTables map[string]*gdTable

// kernel methods: by pkg:method
var gdKernels map[string]*gdCallee

// call emits the binding of a call and answers the values of the Go results
func (t *gdTr) call(ce *ast.CallExpr, cl *gdCallee, c gdCtx, pre *[]string) []gdVal {
	if len(ce.Args) != len(cl.params) {
		t.fail(ce, "call with %d arguments of a function with %d parameters: %s", len(ce.Args), len(cl.params), t.src(ce))
		return nil
	}
	parts := []string{cl.head}
	var rebind []string
	for i, a := range ce.Args {
		v := t.expr(a, c, pre)
		parts = append(parts, t.coerce(a, v, cl.params[i]))
		if cl.params[i].k == "bools" {
			id, ok := a.(*ast.Ident)
			if !ok {
				t.fail(a, "the index.Bool argument of a call must be a variable")
				continue
			}
			w, _ := c.lookup(id.Name)
			rebind = append(rebind, w.coq)
		}
	}
	var out []gdVal
	var pat []string
	for _, r := range cl.results {
		v := gdVal{t.tmp(), r, nil}
		if st := gdStructOf(r); st != nil {
			t.fail(ce, "a struct result is outside the scheme")
			_ = st
		}
		pat = append(pat, v.text)
		out = append(out, v)
	}
	pat = append(pat, rebind...)
	text := strings.Join(parts, " ")
	if cl.pure {
		if len(pat) != 1 {
			t.fail(ce, "pure callee with several results")
		}
		*pre = append(*pre, fmt.Sprintf("let %s := %s in", pat[0], text))
		return out
	}
	if len(pat) == 0 {
		pat = []string{"_"}
	}
	*pre = append(*pre, fmt.Sprintf("do %s <- %s;", gdTuple(pat), text))
	return out
}

// calleeOf resolves the function a call expression calls (nil: not a call of this kind)
func (t *gdTr) calleeOf(ce *ast.CallExpr, c gdCtx, pre *[]string) *gdCallee {
	pkg := t.f.spec.pkg
	fromFunc := func(g *gdFunc, recv []string) *gdCallee {
		if !g.done {
			if g == t.f && t.f.selfRec {
				// the recursive call
			} else {
				t.fail(ce, "call of %s, which is not translated before this function", g.spec.fn)
			}
		}
		head := g.coq
		if g.fuel {
			if g == t.f {
				head += " fuel'"
			} else {
				head += " fuel"
			}
		}
		if len(recv) > 0 {
			head += " " + strings.Join(recv, " ")
		}
		return &gdCallee{head: head, params: gdParamTypes(g.params), results: g.results}
	}
	switch fn := ce.Fun.(type) {
	case *ast.Ident:
		if v, ok := c.lookup(fn.Name); ok {
			if v.ty.k == "kfun" {
				tb := gdTables[v.ty.pkg+":"+v.ty.name]
				if tb == nil || !tb.ok {
					t.fail(ce, "call of a value of an unknown table")
					return nil
				}
				return &gdCallee{head: fmt.Sprintf("tbl_%s_%s %s", gdLetter(v.ty.pkg), v.ty.name, v.coq), params: tb.params, results: tb.results}
			}
			return nil
		}
		if g, ok := gdFuncs[pkg+":"+fn.Name]; ok {
			return fromFunc(g, nil)
		}
	case *ast.SelectorExpr:
		if id, ok := fn.X.(*ast.Ident); ok {
			if v, ok := c.lookup(id.Name); ok {
				// a method
				if v.ty.k == "struct" && v.ty.name == "Column" || v.ty.k == "scol" {
					p := v.ty.pkg
					if v.ty.k == "scol" {
						p = "internal/scolumn"
					}
					if g, ok := gdFuncs[p+":Column."+fn.Sel.Name]; ok {
						return fromFunc(g, v.names())
					}
					if k, ok := gdKernels[p+":"+fn.Sel.Name]; ok {
						cp := *k
						cp.head += " " + strings.Join(v.names(), " ")
						return &cp
					}
				}
				if v.ty.k == "col" && fn.Sel.Name == "Filter" {
					return &gdCallee{head: "gd_Column_Filter fuel " + v.coq, params: []*gdT{gdK("ids"), gdK("any"), gdK("any"), gdK("bools")}, results: []*gdT{gdK("err")}}
				}
				return nil
			}
			if id.Name == "qfstrings" && fn.Sel.Name == "InterfaceSliceToStringSlice" {
				if g, ok := gdFuncs[gdStrPkg+":InterfaceSliceToStringSlice"]; ok {
					return fromFunc(g, nil)
				}
			}
			if id.Name == "index" && fn.Sel.Name == "NewBool" {
				return &gdCallee{head: "gc_NewBool", params: []*gdT{gdK("int")}, results: []*gdT{gdK("bools")}}
			}
		}
	}
	return nil
}

// ------------------------------------------------------------------ expressions

func gdStringLit(lit string) (string, bool) {
	s, err := strconv.Unquote(lit)
	return s, err == nil
}

func (t *gdTr) boolExpr(e ast.Expr, c gdCtx, pre *[]string) string {
	v := t.expr(e, c, pre)
	return t.coerce(e, v, gdK("bool"))
}

func (t *gdTr) expr(e ast.Expr, c gdCtx, pre *[]string) gdVal {
	bad := gdVal{"0", gdBad, nil}
	switch x := e.(type) {
	case *ast.ParenExpr:
		return t.expr(x.X, c, pre)
	case *ast.BasicLit:
		switch x.Kind {
		case token.INT:
			if strings.Trim(x.Value, "0123456789") == "" {
				return gdVal{x.Value, gdK("int"), nil}
			}
		case token.STRING:
			if s, ok := gdStringLit(x.Value); ok {
				return gdVal{coqBytes(s), gdK("string"), nil}
			}
		}
		t.fail(e, "literal outside the scheme: %s", x.Value)
		return bad
	case *ast.Ident:
		switch x.Name {
		case "nil":
			return gdVal{"None", gdK("nil"), nil}
		case "true", "false":
			if _, shadowed := c.lookup(x.Name); !shadowed {
				return gdVal{x.Name, gdK("bool"), nil}
			}
		}
		v, ok := c.lookup(x.Name)
		if !ok {
			t.fail(e, "unknown identifier %s", x.Name)
			return bad
		}
		return v.val()
	case *ast.SelectorExpr:
		if id, ok := x.X.(*ast.Ident); ok {
			if v, ok := c.lookup(id.Name); ok {
				if st := gdStructOf(v.ty); st != nil {
					for i, f := range st.fields {
						if f.name == x.Sel.Name {
							return gdVal{v.fields[i], f.ty, nil}
						}
					}
				}
				switch {
				case v.ty.k == "col" && x.Sel.Name == "Column":
					return v.val()
				case v.ty.k == "frame" && x.Sel.Name == "Err":
					return gdVal{"(qf_Err " + v.coq + ")", gdK("err"), nil}
				case v.ty.k == "frame" && x.Sel.Name == "index":
					return gdVal{"(qf_index " + v.coq + ")", gdK("ids"), nil}
				}
				t.fail(e, "selector outside the scheme: %s", t.src(e))
				return bad
			}
			if id.Name == "filter" {
				if s, ok := stringOf(t.p, x); ok {
					return gdVal{coqBytes(s), gdK("string"), nil}
				}
			}
		}
		t.fail(e, "selector outside the scheme: %s", t.src(e))
		return bad
	case *ast.UnaryExpr:
		if x.Op == token.NOT {
			return gdVal{"(negb " + t.boolExpr(x.X, c, pre) + ")", gdK("bool"), nil}
		}
	case *ast.BinaryExpr:
		switch x.Op {
		case token.LAND, token.LOR:
			a := t.boolExpr(x.X, c, pre)
			var preB []string
			b := t.boolExpr(x.Y, c, &preB)
			if len(preB) == 0 {
				op := "andb"
				if x.Op == token.LOR {
					op = "orb"
				}
				return gdVal{fmt.Sprintf("(%s %s %s)", op, a, b), gdK("bool"), nil}
			}
			v := t.tmp()
			inner := strings.Join(append(preB, "Ok "+b), " ")
			if x.Op == token.LAND {
				*pre = append(*pre, fmt.Sprintf("do %s <- (if %s then (%s) else Ok false);", v, a, inner))
			} else {
				*pre = append(*pre, fmt.Sprintf("do %s <- (if %s then Ok true else (%s));", v, a, inner))
			}
			return gdVal{v, gdK("bool"), nil}
		case token.EQL, token.NEQ:
			a := t.expr(x.X, c, pre)
			b := t.expr(x.Y, c, pre)
			var r string
			switch {
			case b.ty.k == "nil" && a.ty.k == "err":
				r = "(gd_isnil " + a.text + ")"
			case b.ty.k == "nil" && a.ty.k == "any":
				r = "(gd_any_isnil " + a.text + ")"
			case a.ty.k == "string" && b.ty.k == "string":
				r = "(bytes_eqb " + a.text + " " + b.text + ")"
			case a.ty.k == "int" && b.ty.k == "int":
				r = "(" + a.text + " =? " + b.text + ")"
			default:
				t.fail(e, "comparison outside the scheme: %s", t.src(e))
				return bad
			}
			if x.Op == token.NEQ {
				r = "(negb " + r + ")"
			}
			return gdVal{r, gdK("bool"), nil}
		}
	case *ast.IndexExpr:
		s := t.expr(x.X, c, pre)
		i := t.expr(x.Index, c, pre)
		it := t.coerce(x.Index, i, gdK("int"))
		el := s.ty.elem()
		if el == nil || gdStructOf(el) != nil {
			t.fail(e, "index into something that is not a slice: %s", t.src(e))
			return bad
		}
		v := t.tmp()
		*pre = append(*pre, fmt.Sprintf("do %s <- gd_index %s %s;", v, s.text, it))
		return gdVal{v, el, nil}
	case *ast.CallExpr:
		return t.callExpr(x, c, pre)
	}
	t.fail(e, "expression outside the scheme: %s", t.src(e))
	return bad
}

func gdIsLenCall(e ast.Expr) (ast.Expr, bool) {
	ce, ok := e.(*ast.CallExpr)
	if !ok || len(ce.Args) != 1 {
		return nil, false
	}
	if id, ok := ce.Fun.(*ast.Ident); ok && id.Name == "len" {
		return ce.Args[0], true
	}
	return nil, false
}

func (t *gdTr) callExpr(x *ast.CallExpr, c gdCtx, pre *[]string) gdVal {
	bad := gdVal{"0", gdBad, nil}
	pkg := t.f.spec.pkg
	fun := t.src(x.Fun)
	one := func() (gdVal, bool) {
		if len(x.Args) != 1 {
			t.fail(x, "conversion / builtin with %d arguments", len(x.Args))
			return bad, false
		}
		return t.expr(x.Args[0], c, pre), true
	}
	if id, ok := x.Fun.(*ast.Ident); ok {
		if _, isVar := c.lookup(id.Name); !isVar {
			switch id.Name {
			case "len":
				if a, ok := one(); ok && (a.ty.elem() != nil || a.ty.k == "iset") {
					return gdVal{"(Z.of_nat (length " + a.text + "))", gdK("int"), nil}
				}
				t.fail(x, "len of something that is not a slice")
				return bad
			case "string":
				if a, ok := one(); ok && a.ty.k == "string" {
					return a
				}
			case "int":
				if a, ok := one(); ok && a.ty.k == "float" {
					return gdVal{"(ft_toint " + a.text + ")", gdK("int"), nil}
				}
			case "float64":
				if a, ok := one(); ok && a.ty.k == "int" {
					return gdVal{"(i_tofloat " + a.text + ")", gdK("float"), nil}
				}
			case "enumVal":
				if a, ok := one(); ok && a.ty.k == "int" && pkg == "internal/ecolumn" {
					return gdVal{"(gd_enumVal " + a.text + ")", gdK("enumval"), nil}
				}
			case "make":
				if len(x.Args) == 2 {
					ty := t.resolve(x.Args[0])
					if arg, ok := gdIsLenCall(x.Args[1]); ok {
						a := t.expr(arg, c, pre)
						if ty.k == "iset" {
							return gdVal{"(@nil Z)", ty, nil}
						}
						if el := ty.elem(); el != nil && gdStructOf(el) == nil && (a.ty.elem() != nil) {
							if z, ok := el.zero(); ok {
								return gdVal{"(repeat " + z + " (length " + a.text + "))", ty, nil}
							}
							if el.k == "float" {
								return gdVal{"(repeat (i_tofloat 0) (length " + a.text + "))", ty, nil}
							}
						}
					}
				}
				t.fail(x, "make outside the scheme (make(T, len(x))): %s", t.src(x))
				return bad
			}
			if id.Name == "string" || id.Name == "int" || id.Name == "float64" || id.Name == "enumVal" {
				t.fail(x, "conversion outside the scheme: %s", t.src(x))
				return bad
			}
		}
	}
	switch fun {
	case "math.IsNaN":
		if a, ok := one(); ok && a.ty.k == "float" {
			return gdVal{"(ft_isnan " + a.text + ")", gdK("bool"), nil}
		}
	case "qfstrings.NewStringSet":
		if a, ok := one(); ok && a.ty.k == "strings" {
			return gdVal{"(new_string_set " + a.text + ")", gdK("sset"), nil}
		}
	case "fcolumn.New":
		if a, ok := one(); ok && a.ty.k == "floats" {
			return gdStructVal(&gdT{k: "struct", pkg: "internal/fcolumn", name: "Column"}, []string{a.text})
		}
	case "qerrors.New":
		if len(x.Args) >= 2 {
			op := t.expr(x.Args[0], c, pre)
			re := t.expr(x.Args[1], c, pre)
			for _, a := range x.Args[2:] {
				s := t.src(a)
				ok := false
				if id, isId := a.(*ast.Ident); isId {
					_, ok = c.lookup(id.Name)
				}
				if ce, isCall := a.(*ast.CallExpr); isCall && t.src(ce.Fun) == "reflect.TypeOf" && len(ce.Args) == 1 {
					if id, isId := ce.Args[0].(*ast.Ident); isId {
						_, ok = c.lookup(id.Name)
					}
				}
				if !ok {
					t.fail(a, "a message parameter that is neither a variable nor reflect.TypeOf(variable): %s", s)
				}
			}
			return gdVal{"(Some (new_error " + t.coerce(x.Args[0], op, gdK("string")) + " " + t.coerce(x.Args[1], re, gdK("string")) + "))", gdK("err"), nil}
		}
	case "qerrors.Propagate":
		if len(x.Args) == 2 {
			op := t.expr(x.Args[0], c, pre)
			er := t.expr(x.Args[1], c, pre)
			return gdVal{"(Some (propagate " + t.coerce(x.Args[0], op, gdK("string")) + " " + t.coerce(x.Args[1], er, gdK("err")) + "))", gdK("err"), nil}
		}
	case "fmt.Sprintf":
		if len(x.Args) >= 1 {
			f := t.expr(x.Args[0], c, pre)
			var as []string
			for _, a := range x.Args[1:] {
				v := t.expr(a, c, pre)
				as = append(as, t.coerce(a, v, gdK("string")))
			}
			return gdVal{"(sprintf " + t.coerce(x.Args[0], f, gdK("string")) + " [" + strings.Join(as, "; ") + "])", gdK("string"), nil}
		}
	}
	// methods of the vocabulary
	if sel, ok := x.Fun.(*ast.SelectorExpr); ok {
		recv := t.src(sel.X)
		isFrame := false
		if id, ok := sel.X.(*ast.Ident); ok {
			if v, ok := c.lookup(id.Name); ok && v.ty.k == "frame" {
				isFrame = true
			}
		}
		switch {
		case isFrame && sel.Sel.Name == "withErr" && len(x.Args) == 1:
			fr := t.expr(sel.X, c, pre)
			a := t.expr(x.Args[0], c, pre)
			return gdVal{"(qf_withErr " + fr.text + " " + t.coerce(x.Args[0], a, gdK("err")) + ")", gdK("frame"), nil}
		case isFrame && sel.Sel.Name == "withIndex" && len(x.Args) == 1:
			fr := t.expr(sel.X, c, pre)
			a := t.expr(x.Args[0], c, pre)
			return gdVal{"(qf_withIndex " + fr.text + " " + t.coerce(x.Args[0], a, gdK("ids")) + ")", gdK("frame"), nil}
		case sel.Sel.Name == "Len" && len(x.Args) == 0:
			r := t.expr(sel.X, c, pre)
			if r.ty.k == "ids" || r.ty.k == "bools" {
				return gdVal{"(Z.of_nat (length " + r.text + "))", gdK("int"), nil}
			}
		case sel.Sel.Name == "Filter" && len(x.Args) == 1:
			var preR []string
			r := t.expr(sel.X, c, &preR)
			if r.ty.k == "ids" {
				*pre = append(*pre, preR...)
				a := t.expr(x.Args[0], c, pre)
				v := t.tmp()
				*pre = append(*pre, fmt.Sprintf("do %s <- gc_Int_Filter %s %s;", v, r.text, t.coerce(x.Args[0], a, gdK("bools"))))
				return gdVal{v, gdK("ids"), nil}
			}
		}
		_ = recv
	}
	if cl := t.calleeOf(x, c, pre); cl != nil {
		if len(cl.results) != 1 {
			t.fail(x, "a call with %d results used as a value: %s", len(cl.results), t.src(x))
			return bad
		}
		out := t.call(x, cl, c, pre)
		if len(out) == 1 {
			return out[0]
		}
		return bad
	}
	t.fail(x, "call outside the scheme: %s", t.src(x))
	return bad
}

// ------------------------------------------------------------------ statements

func gdJoin(lines []string, last string) string {
	return strings.Join(append(append([]string{}, lines...), last), "\n")
}

// the answer of the function at a return: the results followed by the index.Bool parameters
func (t *gdTr) answer(vals []string, c gdCtx) string {
	parts := append([]string{}, vals...)
	for _, p := range t.f.params {
		if p.ty.k == "bools" {
			parts = append(parts, p.coq)
		}
	}
	return gdTuple(parts)
}

func (t *gdTr) ret(v string, c gdCtx) string {
	if c.depth > 0 {
		return "Ok (inr " + v + ")"
	}
	return "Ok " + v
}

// assignedNames: Go names stored into inside the nodes (also as index.Bool argument of a call) and names declared
func (t *gdTr) assignedNames(c gdCtx, nodes ...ast.Node) (assigned, declared map[string]bool) {
	assigned, declared = map[string]bool{}, map[string]bool{}
	for _, n := range nodes {
		if n == nil {
			continue
		}
		ast.Inspect(n, func(m ast.Node) bool {
			switch s := m.(type) {
			case *ast.AssignStmt:
				for _, l := range s.Lhs {
					if s.Tok == token.DEFINE {
						declared[gcRootIdent(l)] = true
					} else {
						assigned[gcRootIdent(l)] = true
					}
				}
			case *ast.IncDecStmt:
				assigned[gcRootIdent(s.X)] = true
			case *ast.RangeStmt:
				if s.Key != nil {
					declared[gcRootIdent(s.Key)] = true
				}
				if s.Value != nil {
					declared[gcRootIdent(s.Value)] = true
				}
			case *ast.ValueSpec:
				for _, id := range s.Names {
					declared[id.Name] = true
				}
			case *ast.TypeSwitchStmt:
				if as, ok := s.Assign.(*ast.AssignStmt); ok {
					declared[gcRootIdent(as.Lhs[0])] = true
				}
			case *ast.CallExpr:
				if id, ok := s.Fun.(*ast.Ident); ok && id.Name == "len" {
					return true
				}
				if sel, ok := s.Fun.(*ast.SelectorExpr); ok && (sel.Sel.Name == "Len" || t.src(sel) == "index.NewBool") {
					return true
				}
				for _, a := range s.Args {
					if id, ok := a.(*ast.Ident); ok {
						if v, ok := c.lookup(id.Name); ok && v.ty.k == "bools" {
							assigned[id.Name] = true
						}
					}
				}
			}
			return true
		})
	}
	delete(declared, "_")
	return
}

// assigned: the variables of c stored into inside the nodes, in context order
func (t *gdTr) assigned(c gdCtx, nodes ...ast.Node) []gdVar {
	as, _ := t.assignedNames(c, nodes...)
	var out []gdVar
	seen := map[string]bool{}
	for i := len(c.vars) - 1; i >= 0; i-- {
		v := c.vars[i]
		if seen[v.name] {
			continue
		}
		seen[v.name] = true
		if as[v.name] {
			out = append([]gdVar{v}, out...)
		}
	}
	if as["*"] {
		t.fail(nodes[0], "store through a pointer")
	}
	return out
}

func gdFlatNames(vs []gdVar) []string {
	var out []string
	for _, v := range vs {
		out = append(out, v.names()...)
	}
	return out
}

// commaOk translates  v, ok := rhs  for a type assertion or a map index; handled = false when rhs is neither
func (t *gdTr) commaOk(s *ast.AssignStmt, c *gdCtx, out *[]string) bool {
	l0, ok0 := s.Lhs[0].(*ast.Ident)
	l1, ok1 := s.Lhs[1].(*ast.Ident)
	if !ok0 || !ok1 {
		return false
	}
	pkg := t.f.spec.pkg
	bind := func(ty *gdT, rhsOf func(names []string) string) {
		v := t.declare(c, l0.Name, ty)
		o := t.declare(c, l1.Name, gdK("bool"))
		*out = append(*out, fmt.Sprintf("let '%s := %s in", gdTuple(append(append([]string{}, v.names()...), o.names()...)), rhsOf(v.names())))
	}
	switch r := s.Rhs[0].(type) {
	case *ast.TypeAssertExpr:
		if r.Type == nil {
			return false
		}
		scrut := t.expr(r.X, *c, out)
		pat, ty, ok := gdTypePattern(pkg, scrut.ty, t.src(r.Type))
		if !ok || ty.k == "nil" {
			t.fail(r, "type assertion outside the scheme: %s", t.src(r))
			return true
		}
		var zeros []string
		if gdStructOf(ty) != nil {
			zeros, ok = gdStructZero(ty)
		} else {
			var z string
			z, ok = ty.zero()
			zeros = []string{z}
		}
		if !ok {
			t.fail(r, "type assertion to a type without zero value in the scheme: %s", t.src(r))
			return true
		}
		bind(ty, func(names []string) string {
			var ys []string
			for i := range names {
				ys = append(ys, fmt.Sprintf("y%d", i+1))
			}
			p := strings.Replace(pat, "@", strings.Join(ys, " "), 1)
			return fmt.Sprintf("(match %s with %s => %s | _ => %s end)", scrut.text, p,
				gdTuple(append(append([]string{}, ys...), "true")), gdTuple(append(append([]string{}, zeros...), "false")))
		})
		return true
	case *ast.IndexExpr:
		if sel, ok := r.X.(*ast.SelectorExpr); ok && sel.Sel.Name == "columnsByName" {
			fr := t.expr(sel.X, *c, out)
			if fr.ty.k != "frame" {
				t.fail(r, "columnsByName of something that is not a QFrame")
				return true
			}
			k := t.expr(r.Index, *c, out)
			kt := t.coerce(r.Index, k, gdK("string"))
			bind(gdK("col"), func([]string) string {
				return fmt.Sprintf("gd_lookup (qf_columnsByName %s %s) gd_col_nil", fr.text, kt)
			})
			return true
		}
		tpkg, tvar := pkg, t.src(r.X)
		if tvar == "filter.Inverse" {
			tpkg, tvar = "filter", "Inverse"
		}
		if tb, ok := gdTables[tpkg+":"+tvar]; ok {
			k := t.expr(r.Index, *c, out)
			kt := t.coerce(r.Index, k, gdK("string"))
			ty := &gdT{k: "kfun", pkg: tpkg, name: tvar}
			if tb.spec.valIsString {
				ty = gdK("string")
			}
			bind(ty, func([]string) string {
				return fmt.Sprintf("gd_lookup (gd_assoc %s %s) (@nil N)", kt, tb.spec.coqName)
			})
			return true
		}
		t.fail(r, "index with two results of something that is neither a comparator table nor columnsByName: %s", t.src(r))
		return true
	}
	return false
}

// store translates an assignment of the value texts to a left side
func (t *gdTr) store(st ast.Stmt, l ast.Expr, rhs ast.Expr, v gdVal, c *gdCtx, out *[]string) {
	switch l := l.(type) {
	case *ast.Ident:
		if l.Name == "_" {
			return
		}
		w, ok := c.lookup(l.Name)
		if !ok {
			t.fail(st, "store into an unknown variable %s", l.Name)
			return
		}
		if w.fields != nil {
			if !v.ty.same(w.ty) || len(v.fields) != len(w.fields) {
				t.fail(st, "store of another type into the struct variable %s", l.Name)
				return
			}
			for i, f := range w.fields {
				*out = append(*out, fmt.Sprintf("let %s := %s in", f, v.fields[i]))
			}
			return
		}
		*out = append(*out, fmt.Sprintf("let %s := %s in", w.coq, t.coerce(rhs, v, w.ty)))
	case *ast.SelectorExpr:
		if id, ok := l.X.(*ast.Ident); ok {
			if w, ok := c.lookup(id.Name); ok {
				if w.ty.k == "col" && l.Sel.Name == "Column" {
					*out = append(*out, fmt.Sprintf("let %s := %s in", w.coq, t.coerce(rhs, v, gdK("col"))))
					return
				}
				if st2 := gdStructOf(w.ty); st2 != nil {
					for i, f := range st2.fields {
						if f.name == l.Sel.Name {
							*out = append(*out, fmt.Sprintf("let %s := %s in", w.fields[i], t.coerce(rhs, v, f.ty)))
							return
						}
					}
				}
			}
		}
		t.fail(st, "store into a selector outside the scheme: %s", t.src(l))
	case *ast.IndexExpr:
		if id, ok := l.X.(*ast.Ident); ok {
			if w, ok := c.lookup(id.Name); ok {
				if w.ty.k == "iset" {
					if t.src(rhs) != "struct{}{}" {
						t.fail(st, "store into a set of something that is not struct{}{}")
					}
					k := t.expr(l.Index, *c, out)
					*out = append(*out, fmt.Sprintf("let %s := gd_set_add %s %s in", w.coq, w.coq, t.coerce(l.Index, k, gdK("int"))))
					return
				}
				if el := w.ty.elem(); el != nil && gdStructOf(el) == nil {
					i := t.expr(l.Index, *c, out)
					*out = append(*out, fmt.Sprintf("do %s <- gd_update %s %s %s;", w.coq, w.coq, t.coerce(l.Index, i, gdK("int")), t.coerce(rhs, v, el)))
					return
				}
			}
		}
		t.fail(st, "store into an index expression outside the scheme: %s", t.src(l))
	default:
		t.fail(st, "store outside the scheme: %s", t.src(l))
	}
}

// simple translates a statement without control flow into lines that end in "in" or ";"
func (t *gdTr) simple(st ast.Stmt, c *gdCtx) ([]string, bool) {
	var out []string
	switch s := st.(type) {
	case *ast.AssignStmt:
		if s.Tok != token.DEFINE && s.Tok != token.ASSIGN {
			return nil, false
		}
		if len(s.Rhs) == 1 && len(s.Lhs) >= 2 {
			if s.Tok == token.DEFINE && len(s.Lhs) == 2 && t.commaOk(s, c, &out) {
				return out, true
			}
			ce, ok := s.Rhs[0].(*ast.CallExpr)
			if !ok {
				return nil, false
			}
			cl := t.calleeOf(ce, *c, &out)
			if cl == nil || len(cl.results) != len(s.Lhs) {
				t.fail(st, "a call whose results do not match the left side: %s", t.src(st))
				return out, true
			}
			vals := t.call(ce, cl, *c, &out)
			for i, l := range s.Lhs {
				if i >= len(vals) {
					break
				}
				if s.Tok == token.DEFINE {
					id, ok := l.(*ast.Ident)
					if !ok {
						return nil, false
					}
					v := t.declare(c, id.Name, vals[i].ty)
					if id.Name != "_" {
						out = append(out, fmt.Sprintf("let %s := %s in", v.coq, vals[i].text))
					}
				} else {
					t.store(st, l, ce, vals[i], c, &out)
				}
			}
			return out, true
		}
		if len(s.Lhs) != len(s.Rhs) {
			return nil, false
		}
		var vals []gdVal
		if s.Tok == token.ASSIGN && len(s.Lhs) == 1 {
			if ix, ok := s.Lhs[0].(*ast.IndexExpr); ok {
				if id, ok := ix.X.(*ast.Ident); ok {
					if w, ok := c.lookup(id.Name); ok && w.ty.k == "iset" {
						t.store(st, s.Lhs[0], s.Rhs[0], gdVal{}, c, &out)
						return out, true
					}
				}
			}
		}
		for _, r := range s.Rhs {
			if ce, ok := r.(*ast.CallExpr); ok {
				if cl := t.calleeOf(ce, *c, &out); cl != nil && len(cl.results) == 0 {
					t.fail(r, "a call without result used as a value")
				}
			}
			vals = append(vals, t.expr(r, *c, &out))
		}
		for i, l := range s.Lhs {
			for j := i + 1; j < len(vals); j++ {
				for _, n := range gdFlatNames([]gdVar{}) {
					_ = n
				}
				if id, ok := l.(*ast.Ident); ok {
					if w, ok := c.lookup(id.Name); ok && s.Tok == token.ASSIGN {
						for _, n := range w.names() {
							if gsMentions(vals[j].text, n) {
								t.fail(st, "a parallel assignment whose right side mentions an assigned name")
							}
						}
					}
				}
			}
			if s.Tok == token.DEFINE {
				id, ok := l.(*ast.Ident)
				if !ok {
					return nil, false
				}
				ty := vals[i].ty
				if ty.k == "nil" || ty.k == "bad" && !t.bad {
					t.fail(st, "a declaration needs a typed value: %s", t.src(s.Rhs[i]))
				}
				v := t.declare(c, id.Name, ty)
				if id.Name == "_" {
					continue
				}
				if v.fields != nil {
					for k, f := range v.fields {
						out = append(out, fmt.Sprintf("let %s := %s in", f, vals[i].fields[k]))
					}
				} else {
					out = append(out, fmt.Sprintf("let %s := %s in", v.coq, vals[i].text))
				}
			} else {
				t.store(st, l, s.Rhs[i], vals[i], c, &out)
			}
		}
		return out, true
	case *ast.DeclStmt:
		gd, ok := s.Decl.(*ast.GenDecl)
		if !ok || gd.Tok != token.VAR {
			return nil, false
		}
		for _, sp := range gd.Specs {
			vs := sp.(*ast.ValueSpec)
			if vs.Type == nil || len(vs.Values) != 0 {
				return nil, false
			}
			ty := t.resolve(vs.Type)
			z, ok := ty.zero()
			if !ok {
				t.fail(st, "var of a type without zero in the scheme")
			}
			for _, id := range vs.Names {
				v := t.declare(c, id.Name, ty)
				out = append(out, fmt.Sprintf("let %s := %s in", v.coq, z))
			}
		}
		return out, true
	case *ast.ExprStmt:
		ce, ok := s.X.(*ast.CallExpr)
		if !ok {
			return nil, false
		}
		cl := t.calleeOf(ce, *c, &out)
		if cl == nil {
			t.fail(st, "call statement outside the scheme: %s", t.src(st))
			return out, true
		}
		t.call(ce, cl, *c, &out)
		return out, true
	}
	return nil, false
}

func gdContainsReturn(nodes ...ast.Node) bool {
	found := false
	for _, n := range nodes {
		if n == nil {
			continue
		}
		ast.Inspect(n, func(m ast.Node) bool {
			if _, ok := m.(*ast.ReturnStmt); ok {
				found = true
			}
			return !found
		})
	}
	return found
}

// terminates: control never reaches the end of the list
func gdTerminates(list []ast.Stmt) bool {
	if len(list) == 0 {
		return false
	}
	switch s := list[len(list)-1].(type) {
	case *ast.ReturnStmt:
		return true
	case *ast.BlockStmt:
		return gdTerminates(s.List)
	case *ast.IfStmt:
		els, ok := gcElse(s)
		return ok && s.Else != nil && gdTerminates(s.Body.List) && gdTerminates(els)
	case *ast.TypeSwitchStmt:
		hasDefault := false
		for _, cc := range s.Body.List {
			cl := cc.(*ast.CaseClause)
			if cl.List == nil {
				hasDefault = true
			}
			if !gdTerminates(cl.Body) {
				return false
			}
		}
		return hasDefault
	}
	return false
}

func (t *gdTr) stmts(list []ast.Stmt, c gdCtx, k func(gdCtx) string) string {
	if len(list) == 0 {
		return k(c)
	}
	st, rest := list[0], list[1:]
	cont := func(c2 gdCtx) string { return t.stmts(rest, c2, k) }
	if lines, ok := t.simple(st, &c); ok {
		return gdJoin(lines, cont(c))
	}
	switch x := st.(type) {
	case *ast.ReturnStmt:
		if len(rest) != 0 {
			t.fail(st, "statements after return")
		}
		var pre []string
		var vals []string
		if len(x.Results) == 1 && len(t.f.results) > 1 {
			ce, ok := x.Results[0].(*ast.CallExpr)
			var cl *gdCallee
			if ok {
				cl = t.calleeOf(ce, c, &pre)
			}
			if cl == nil || len(cl.results) != len(t.f.results) {
				t.fail(st, "return of a call whose results do not match")
				return "Panic"
			}
			for i, v := range t.call(ce, cl, c, &pre) {
				vals = append(vals, t.coerce(ce, v, t.f.results[i]))
			}
		} else {
			if len(x.Results) != len(t.f.results) {
				t.fail(st, "return with %d values in a function with %d results", len(x.Results), len(t.f.results))
				return "Panic"
			}
			for i, r := range x.Results {
				v := t.expr(r, c, &pre)
				vals = append(vals, t.coerce(r, v, t.f.results[i]))
			}
		}
		return gdJoin(pre, t.ret(t.answer(vals, c), c))
	case *ast.IfStmt:
		return t.ifStmt(x, c, cont)
	case *ast.TypeSwitchStmt:
		return t.typeSwitch(x, c, cont)
	case *ast.RangeStmt:
		return t.rangeStmt(x, c, cont)
	case *ast.BlockStmt:
		return t.stmts(x.List, c, func(c2 gdCtx) string { return cont(gdRestrict(c2, c)) })
	}
	t.fail(st, "statement outside the scheme: %s", strings.SplitN(t.src(st), "\n", 2)[0])
	return "Panic"
}

// leaving a block: the variables declared inside are forgotten (their Coq names stay reserved)
func gdRestrict(inner, outer gdCtx) gdCtx { return outer }

type gdBranch struct {
	head string // "| pattern =>", "then", "else"
	body []ast.Stmt
	ctx  gdCtx
}

// branches translates a construct with several branches (if: 2, type switch: n) in front of cont
func (t *gdTr) branches(n ast.Node, pre []string, open string, brs []gdBranch, close string, c gdCtx, cont func(gdCtx) string) string {
	var nodes []ast.Node
	falls := 0
	for _, b := range brs {
		for _, s := range b.body {
			nodes = append(nodes, s)
		}
		if !gdTerminates(b.body) {
			falls++
		}
	}
	render := func(texts []string) string {
		var sb strings.Builder
		sb.WriteString(open)
		for i, b := range brs {
			sb.WriteString("\n" + b.head + "\n" + gsIndent(texts[i]))
		}
		sb.WriteString(close)
		return sb.String()
	}
	if gdContainsReturn(nodes...) && falls <= 1 {
		back := func(c2 gdCtx) string { return cont(gdRestrict(c2, c)) }
		var texts []string
		for _, b := range brs {
			texts = append(texts, t.stmts(b.body, b.ctx, back))
		}
		return gdJoin(pre, render(texts))
	}
	res := t.assigned(c, nodes...)
	names := gdFlatNames(res)
	if gdContainsReturn(nodes...) {
		// several branches fall through: early exit as a sum
		var texts []string
		for _, b := range brs {
			bc := b.ctx
			bc.depth = c.depth + 1
			texts = append(texts, t.stmts(b.body, bc, func(gdCtx) string { return "Ok (inl " + gdTuple(names) + ")" }))
		}
		r := t.tmp()
		rv := t.tmp()
		outer := "Ok " + rv
		if c.depth > 0 {
			outer = "Ok (inr " + rv + ")"
		}
		return gdJoin(pre, fmt.Sprintf("do %s <- (\n%s);\nmatch %s with\n| inr %s => %s\n| inl %s =>\n%s\nend", r, gsIndent(render(texts)), r, rv, outer, gdTuple(names), gsIndent(cont(c))))
	}
	if len(res) == 0 {
		t.fail(n, "a branching statement without return that stores into no outer variable")
	}
	var texts []string
	for _, b := range brs {
		texts = append(texts, t.stmts(b.body, b.ctx, func(gdCtx) string { return "Ok " + gdTuple(names) }))
	}
	return gdJoin(pre, fmt.Sprintf("do %s <- (\n%s);\n%s", gdTuple(names), gsIndent(render(texts)), cont(c)))
}

func (t *gdTr) ifStmt(x *ast.IfStmt, c gdCtx, cont func(gdCtx) string) string {
	els, ok := gcElse(x)
	if !ok {
		t.fail(x, "else outside the scheme")
		return "Panic"
	}
	var pre []string
	inner := c
	if x.Init != nil {
		lines, ok := t.simple(x.Init, &inner)
		if !ok {
			t.fail(x, "if with an init statement outside the scheme")
			return "Panic"
		}
		pre = append(pre, lines...)
	}
	cond := t.boolExpr(x.Cond, inner, &pre)
	brs := []gdBranch{{"then", x.Body.List, inner}, {"else", els, inner}}
	return t.branches(x, pre, "if "+cond, brs, "", c, cont)
}

func (t *gdTr) typeSwitch(x *ast.TypeSwitchStmt, c gdCtx, cont func(gdCtx) string) string {
	if x.Init != nil {
		t.fail(x, "type switch with an init statement")
		return "Panic"
	}
	var pre []string
	var scrutE ast.Expr
	bound := ""
	switch a := x.Assign.(type) {
	case *ast.AssignStmt:
		if len(a.Lhs) == 1 && len(a.Rhs) == 1 {
			if id, ok := a.Lhs[0].(*ast.Ident); ok {
				bound = id.Name
			}
			if ta, ok := a.Rhs[0].(*ast.TypeAssertExpr); ok && ta.Type == nil {
				scrutE = ta.X
			}
		}
	case *ast.ExprStmt:
		if ta, ok := a.X.(*ast.TypeAssertExpr); ok && ta.Type == nil {
			scrutE = ta.X
		}
	}
	if scrutE == nil {
		t.fail(x, "type switch outside the scheme")
		return "Panic"
	}
	scrut := t.expr(scrutE, c, &pre)
	if scrut.ty.k != "any" {
		t.fail(x, "type switch on something that is not an interface{}")
		return "Panic"
	}
	var brs []gdBranch
	var def *gdBranch
	for _, cc := range x.Body.List {
		cl := cc.(*ast.CaseClause)
		bc := c
		if cl.List == nil {
			if bound != "" {
				bc.vars = append(append([]gdVar{}, c.vars...), gdVar{name: bound, ty: gdK("any"), coq: scrut.text})
			}
			def = &gdBranch{"| _ =>", cl.Body, bc}
			continue
		}
		if len(cl.List) != 1 {
			t.fail(cl, "a case with several types")
			continue
		}
		pat, ty, ok := gdTypePattern(t.f.spec.pkg, scrut.ty, t.src(cl.List[0]))
		if !ok {
			t.fail(cl, "case type outside the scheme: %s", t.src(cl.List[0]))
			continue
		}
		if ty.k == "nil" {
			if bound != "" {
				bc.vars = append(append([]gdVar{}, c.vars...), gdVar{name: bound, ty: gdK("any"), coq: scrut.text})
			}
			brs = append(brs, gdBranch{"| " + pat + " =>", cl.Body, bc})
			continue
		}
		name := bound
		if name == "" {
			name = "_"
		}
		bc.vars = append([]gdVar{}, c.vars...)
		v := t.declare(&bc, name, ty)
		brs = append(brs, gdBranch{"| " + strings.Replace(pat, "@", strings.Join(v.names(), " "), 1) + " =>", cl.Body, bc})
	}
	if def == nil {
		def = &gdBranch{"| _ =>", nil, c}
	}
	brs = append(brs, *def)
	return t.branches(x, pre, "match "+scrut.text+" with", brs, "\nend", c, cont)
}

// every variable of the context once (the latest declaration of a name), structs expanded into their fields
type gdFlat struct {
	coq string
	ty  *gdT
}

func gdFlatVars(c gdCtx) []gdFlat {
	var out []gdFlat
	seen := map[string]bool{}
	for i := len(c.vars) - 1; i >= 0; i-- {
		v := c.vars[i]
		if seen[v.name] {
			continue
		}
		seen[v.name] = true
		if st := gdStructOf(v.ty); st != nil {
			var fs []gdFlat
			for j, f := range st.fields {
				fs = append(fs, gdFlat{v.fields[j], f.ty})
			}
			out = append(fs, out...)
			continue
		}
		out = append([]gdFlat{{v.coq, v.ty}}, out...)
	}
	return out
}

func (t *gdTr) rangeStmt(x *ast.RangeStmt, c gdCtx, cont func(gdCtx) string) string {
	if x.Tok != token.DEFINE {
		t.fail(x, "range without :=")
		return "Panic"
	}
	var pre []string
	xs := t.expr(x.X, c, &pre)
	el := xs.ty.elem()
	if el == nil {
		t.fail(x, "range over something that is not a slice: %s", t.src(x.X))
		return "Panic"
	}
	hasRet := gdContainsReturn(x.Body)
	if hasRet && (c.inLoop || c.depth > 0) {
		t.fail(x, "a loop with a return inside that is nested in a loop or in a block with early exit")
	}
	body := c
	body.vars = append([]gdVar{}, c.vars...)
	body.inLoop = true
	body.depth = 0
	as, _ := t.assignedNames(c, x.Body)
	stores := false
	if id, ok := x.X.(*ast.Ident); ok && as[id.Name] {
		stores = true
	}
	ident := func(n ast.Expr) string {
		id, ok := n.(*ast.Ident)
		if !ok {
			t.fail(x, "range variable that is not an identifier")
			return "_"
		}
		return id.Name
	}
	keyName := ""
	if x.Key != nil {
		if n := ident(x.Key); n != "_" {
			keyName = t.declare(&body, n, gdK("int")).coq
		}
	}
	valPat := "_"
	var head []string
	if x.Value != nil {
		if n := ident(x.Value); n != "_" {
			v := t.declare(&body, n, el)
			switch {
			case stores:
				if gdStructOf(el) != nil {
					t.fail(x, "range by value over a slice of structs that the body stores into")
				}
				if keyName == "" {
					keyName = "i" + t.tmp()
				}
				head = append(head, fmt.Sprintf("do %s <- gd_index %s %s;", v.coq, xs.text, keyName))
			case gdStructOf(el) != nil:
				valPat = "x" + t.tmp()
				head = append(head, fmt.Sprintf("let '(gd_mk_%s %s) := %s in", el.name, strings.Join(v.fields, " "), valPat))
			default:
				valPat = v.coq
			}
		}
	}
	res := t.assigned(c, x.Body)
	const hole = "@LOOPARGS@"
	bodyText := gdJoin(head, t.stmts(x.Body.List, body, func(gdCtx) string {
		call := "loop l'"
		if keyName != "" {
			call += " (" + keyName + " + 1)"
		}
		return call + hole
	}))
	var exit, rty string
	if hasRet {
		exit = cont(c)
		rty = gdAnswerType(t.f.results, gdParamTypes(t.f.params))
	} else {
		exit = "Ok " + gdTuple(gdFlatNames(res))
		var tys []string
		for _, v := range res {
			if st := gdStructOf(v.ty); st != nil {
				for _, f := range st.fields {
					tys = append(tys, f.ty.coq())
				}
			} else {
				tys = append(tys, v.ty.coq())
			}
		}
		rty = gdTypeTuple(tys)
	}
	isRes := map[string]bool{}
	for _, n := range gdFlatNames(res) {
		isRes[n] = true
	}
	args, sig, tys := "", "", ""
	if gsMentions(bodyText, "fuel") || gsMentions(exit, "fuel") {
		args, sig, tys = " fuel", " (fuel : nat)", "nat -> "
	}
	if gsMentions(bodyText, "fuel'") || gsMentions(exit, "fuel'") {
		t.fail(x, "a recursive call inside a loop")
	}
	for _, v := range gdFlatVars(c) {
		if isRes[v.coq] || gsMentions(bodyText, v.coq) || gsMentions(exit, v.coq) {
			args += " " + v.coq
			sig += fmt.Sprintf(" (%s : %s)", v.coq, v.ty.coq())
			tys += v.ty.coq() + " -> "
		}
	}
	bodyText = strings.ReplaceAll(bodyText, hole, args)
	t.nloops++
	name := fmt.Sprintf("%s_loop%d", t.f.coq, t.nloops)
	keySig, keyTy, keyArg := "", "", ""
	if keyName != "" {
		keySig, keyTy, keyArg = " ("+keyName+" : Z)", "Z -> ", " 0"
	}
	elTy := el.coq()
	if gdStructOf(el) != nil {
		elTy = "gd_" + el.name
	}
	var b strings.Builder
	fmt.Fprintf(&b, "Definition %s : list %s -> %s%soutcome %s :=\n", name, elTy, keyTy, tys, rty)
	fmt.Fprintf(&b, "  fix loop (l : list %s)%s%s {struct l} : outcome %s :=\n", elTy, keySig, sig, rty)
	fmt.Fprintf(&b, "  match l with\n  | [] =>\n%s\n  | %s :: l' =>\n%s\n  end.\n", gsIndent(gsIndent(exit)), valPat, gsIndent(gsIndent(bodyText)))
	t.loops = append(t.loops, b.String())
	call := name + " " + xs.text + keyArg + args
	if hasRet {
		return gdJoin(pre, call)
	}
	return gdJoin(pre, fmt.Sprintf("do %s <- %s;\n%s", gdTuple(gdFlatNames(res)), call, cont(c)))
}

// ------------------------------------------------------------------ functions

func gdCoqName(sp gdSpec) string {
	n := strings.ReplaceAll(sp.fn, ".", "_")
	switch sp.pkg {
	case gdRoot, gdStrPkg:
		return "gd_" + n
	}
	return "gd_" + gdLetter(sp.pkg) + "_" + n
}

func gdFindType(p *pkgInfo, name string) ast.Expr {
	for _, f := range p.files {
		for _, d := range f.Decls {
			if gd, ok := d.(*ast.GenDecl); ok && gd.Tok == token.TYPE {
				for _, s := range gd.Specs {
					if ts := s.(*ast.TypeSpec); ts.Name.Name == name {
						return ts.Type
					}
				}
			}
		}
	}
	return nil
}

func gdLoadStruct(pkg, name string) bool {
	p := loadPkg(pkg)
	st, ok := gdFindType(p, name).(*ast.StructType)
	if !ok {
		problem("filter dispatch translation: struct %s not found in %s", name, pkg)
		return false
	}
	s := &gdStruct{pkg: pkg, name: name}
	good := true
	for _, fl := range st.Fields.List {
		ty := gdResolve(pkg, gcSrc(p.fset, fl.Type))
		if ty.k == "bad" || len(fl.Names) == 0 {
			problem("filter dispatch translation: field of %s.%s has a type outside the scheme: %s", pkg, name, gcSrc(p.fset, fl.Type))
			good = false
			continue
		}
		for _, n := range fl.Names {
			s.fields = append(s.fields, gdField{n.Name, ty})
		}
	}
	gdStructs[pkg+":"+name] = s
	return good
}

func gdSignature(p *pkgInfo, f *gdFunc) bool {
	t := &gdTr{p: p, f: f, used: map[string]bool{}}
	fd := f.fd
	mk := func(name string, ty *gdT) gdVar {
		c := gdCtx{}
		return t.declare(&c, name, ty)
	}
	if fd.Recv != nil {
		if len(fd.Recv.List) != 1 || len(fd.Recv.List[0].Names) != 1 {
			t.fail(fd, "receiver outside the scheme")
			return false
		}
		v := mk(fd.Recv.List[0].Names[0].Name, t.resolve(fd.Recv.List[0].Type))
		f.recv = &v
	}
	for _, fl := range fd.Type.Params.List {
		ty := t.resolve(fl.Type)
		if len(fl.Names) == 0 {
			t.fail(fd, "parameter without name")
		}
		for _, n := range fl.Names {
			f.params = append(f.params, mk(n.Name, ty))
		}
	}
	if fd.Type.Results != nil {
		for _, fl := range fd.Type.Results.List {
			if len(fl.Names) != 0 {
				t.fail(fd, "named results")
			}
			f.results = append(f.results, t.resolve(fl.Type))
		}
	}
	if len(f.results) == 0 {
		t.fail(fd, "a function without result")
	}
	return !t.bad
}

func gdTranslate(p *pkgInfo, f *gdFunc) {
	t := &gdTr{p: p, f: f, used: map[string]bool{}}
	c := gdCtx{}
	var sig []string
	add := func(v gdVar) {
		c.vars = append(c.vars, v)
		for _, n := range v.names() {
			t.used[n] = true
		}
		for _, fl := range gdFlatVars(gdCtx{vars: []gdVar{v}}) {
			sig = append(sig, fmt.Sprintf("(%s : %s)", fl.coq, fl.ty.coq()))
		}
	}
	if f.recv != nil {
		add(*f.recv)
	}
	for _, v := range f.params {
		add(v)
	}
	body := t.stmts(f.fd.Body.List, c, func(gdCtx) string {
		t.fail(f.fd, "the function can fall off its end")
		return "Panic"
	})
	var b strings.Builder
	pk := f.spec.pkg
	if pk == gdRoot {
		pk = "qframe"
	}
	fmt.Fprintf(&b, "(* %s\n%s *)\n", pk, gcSource(p, f.fd))
	for _, l := range t.loops {
		if gsMentions(l, "fuel'") {
			t.fail(f.fd, "a recursive call inside a loop")
		}
		b.WriteString(l)
	}
	rty := gdAnswerType(f.results, gdParamTypes(f.params))
	switch {
	case f.selfRec:
		fmt.Fprintf(&b, "Fixpoint %s (fuel : nat) %s {struct fuel} : outcome %s :=\n  match fuel with\n  | O => Panic\n  | S fuel' =>\n%s\n  end.\n", f.coq, strings.Join(sig, " "), rty, gsIndent(gsIndent(body)))
	case f.fuel:
		fmt.Fprintf(&b, "Definition %s (fuel : nat) %s : outcome %s :=\n%s.\n", f.coq, strings.Join(sig, " "), rty, gsIndent(body))
	default:
		fmt.Fprintf(&b, "Definition %s %s : outcome %s :=\n%s.\n", f.coq, strings.Join(sig, " "), rty, gsIndent(body))
	}
	f.text = b.String()
	f.ok = !t.bad
}

// the names a function calls (last identifier of every call)
func gdCalledNames(fd *ast.FuncDecl) map[string]bool {
	out := map[string]bool{}
	ast.Inspect(fd, func(n ast.Node) bool {
		if ce, ok := n.(*ast.CallExpr); ok {
			switch f := ce.Fun.(type) {
			case *ast.Ident:
				out[f.Name] = true
			case *ast.SelectorExpr:
				out[f.Sel.Name] = true
			}
		}
		return true
	})
	return out
}

func gdComputeFuel() {
	calls := map[*gdFunc][]*gdFunc{}
	for _, f := range gdFuncs {
		if f.fd == nil {
			continue
		}
		for n := range gdCalledNames(f.fd) {
			for _, g := range gdFuncs {
				short := g.spec.fn[strings.LastIndex(g.spec.fn, ".")+1:]
				if short != n {
					continue
				}
				if g.spec.pkg == f.spec.pkg || g.spec.pkg == gdStrPkg || f.spec.pkg == gdRoot {
					calls[f] = append(calls[f], g)
					if g == f {
						f.selfRec, f.fuel = true, true
					}
				}
			}
		}
	}
	for changed := true; changed; {
		changed = false
		for f, gs := range calls {
			for _, g := range gs {
				if g.fuel && !f.fuel {
					f.fuel, changed = true, true
				}
			}
		}
	}
}

const gdPreamble = `(* GENERATED by tools/qf2coq (filterdisp.go) from qframe.go (QFrame.filter, isOrderComparator, unknownCol),
   internal/strings/convert.go (InterfaceSliceToStringSlice) and internal/{i,f,b,s,e}column/column.go (Filter,
   filterBuiltIn and their helpers) of tobgu/qframe — do not edit.
   One definition gd_<function> per translated Go function and one Definition gd_<function>_loopN per loop; the
   scheme is described at the top of tools/qf2coq/filterdisp.go.  The loop kernels are the boundary: a comparator
   table is the association list of Gen/GenTables.v, calling an entry is the variable tbl_<pkg>_<table> name args,
   the kernel methods are the variables k_<pkg>_<method>.  Every function answers outcome (results, final contents
   of its index.Bool arguments); Panic = Go panic.  newIntSet is recursive: Fixpoint on fuel (O => Panic); the
   functions that reach it hand fuel on unchanged.  F = QFrame, A = row id, E = error value, FT = float64,
   SC = scolumn.Column, SS = StringSet, BS = *bitset, FN1 / FN2 = the custom predicates are abstract. *)
From QF Require Import Base.Prelude Gen.GenTables Gen.GenFilterClause.
Local Open Scope Z_scope.

(* s[i], s[i] = v *)
Definition gd_index {T : Type} (s : list T) (i : Z) : outcome T :=
  if i <? 0 then Panic else idx s (Z.to_nat i).
Definition gd_update {T : Type} (s : list T) (i : Z) (v : T) : outcome (list T) :=
  if i <? 0 then Panic else do _ <- idx s (Z.to_nat i); Ok (set_nth s (Z.to_nat i) v).
(* err == nil *)
Definition gd_isnil {T : Type} (p : option T) : bool := match p with None => true | Some _ => false end.
(* v, ok := m[k] : a map literal is its association list; the zero value for a missing key *)
Fixpoint gd_assoc {V : Type} (k : bytes) (t : list (bytes * V)) : option V :=
  match t with
  | [] => None
  | (n, v) :: rest => if bytes_eqb n k then Some v else gd_assoc k rest
  end.
Definition gd_lookup {T : Type} (o : option T) (zero : T) : T * bool :=
  match o with Some v => (v, true) | None => (zero, false) end.
(* s[k] = struct{}{} on a map[int]struct{}: the keys in insertion order *)
Definition gd_set_add (s : list Z) (k : Z) : list Z := s ++ [k].
(* enumVal(i): uint8 *)
Definition gd_enumVal (i : Z) : N := Z.to_N (i mod 256).

Section GenFilterDispatch.
Context {A E FT SC SS BS FN1 FN2 F : Type}.

`

func gdTypesBlock() (string, bool) {
	ok := true
	var b strings.Builder
	b.WriteString("(* column.Column: the five column types (a struct as its fields); gd_col_nil = the nil interface *)\n")
	b.WriteString("Inductive gd_column : Type :=\n| gd_col_nil\n")
	for _, cp := range gdColPkgs {
		fmt.Fprintf(&b, "| gd_col_%s", filepath.Base(cp))
		if cp == "internal/scolumn" {
			b.WriteString(" (c : SC)")
		} else if st := gdStructs[cp+":Column"]; st != nil {
			for _, f := range st.fields {
				fmt.Fprintf(&b, " (%s : %s)", f.name, f.ty.coq())
			}
		} else {
			ok = false
		}
		b.WriteString("\n")
	}
	s := strings.TrimRight(b.String(), "\n") + ".\n\n"
	b.Reset()
	b.WriteString("(* interface{}: the dynamic types the translated code distinguishes; gd_any_other = any other type *)\n")
	b.WriteString("Inductive gd_any : Type :=\n| gd_any_nil\n")
	for _, a := range gdAnyTypes {
		fmt.Fprintf(&b, "| %s (x : %s)  (* %s *)\n", a.ctor, a.ty.coq(), strings.ReplaceAll(a.src, "(*", "( *"))
	}
	b.WriteString("| gd_any_col (c : gd_column)\n| gd_any_other.\n\n")
	b.WriteString("Definition gd_any_isnil (x : gd_any) : bool := match x with gd_any_nil => true | _ => false end.\n")
	b.WriteString("(* a column.Column stored into an interface{} *)\n")
	b.WriteString("Definition gd_col_any (c : gd_column) : gd_any := match c with gd_col_nil => gd_any_nil | _ => gd_any_col c end.\n\n")
	s += b.String()
	b.Reset()
	if st := gdStructs["filter:Filter"]; st != nil {
		b.WriteString("(* filter.Filter *)\nRecord gd_Filter : Type := gd_mk_Filter {")
		for i, f := range st.fields {
			if i > 0 {
				b.WriteString(";")
			}
			fmt.Fprintf(&b, " gd_%s : %s", f.name, f.ty.coq())
		}
		b.WriteString(" }.\n")
	} else {
		ok = false
	}
	return s + b.String(), ok
}

func gdVocabularyBlock() (string, bool) {
	ok := true
	var b strings.Builder
	b.WriteString(`Variable new_error : bytes -> bytes -> E.            (* qerrors.New(operation, reason, ..) *)
Variable propagate : bytes -> option E -> E.         (* qerrors.Propagate(operation, err) *)
Variable sprintf : bytes -> list bytes -> bytes.     (* fmt.Sprintf(format, strings..) *)
Variable ft_isnan : FT -> bool.                      (* math.IsNaN *)
Variable ft_toint : FT -> Z.                         (* int(x) *)
Variable i_tofloat : Z -> FT.                        (* float64(i) *)
Variable new_string_set : list bytes -> SS.          (* qfstrings.NewStringSet *)
Variable qf_Err : F -> option E.                     (* qf.Err *)
Variable qf_index : F -> list A.                     (* qf.index *)
Variable qf_withErr : F -> option E -> F.            (* qf.withErr(err) *)
Variable qf_withIndex : F -> list A -> F.            (* qf.withIndex(ix) *)
Variable qf_columnsByName : F -> bytes -> option gd_column.   (* qf.columnsByName[name] (the embedded Column) *)
`)
	b.WriteString("(* calling the entry of a comparator table: the function of that name applied to the arguments *)\n")
	for _, ts := range tableSpecs {
		tb := gdTables[ts.pkg+":"+ts.varName]
		if tb == nil || tb.spec.valIsString {
			continue
		}
		if !tb.ok {
			ok = false
			continue
		}
		fmt.Fprintf(&b, "Variable tbl_%s_%s : %s.\n", gdLetter(ts.pkg), ts.varName, gdArrow([]string{"bytes"}, tb.params, tb.results))
	}
	b.WriteString("(* the kernel methods of Column (receiver first) *)\n")
	for _, cp := range gdColPkgs {
		for _, m := range gdKernelMethods {
			k := gdKernels[cp+":"+m]
			if k == nil {
				continue
			}
			var recv []string
			if cp == "internal/scolumn" {
				recv = []string{"SC"}
			} else if st := gdStructs[cp+":Column"]; st != nil {
				for _, f := range st.fields {
					recv = append(recv, f.ty.coq())
				}
			}
			fmt.Fprintf(&b, "Variable %s : %s.\n", k.head, gdArrow(recv, k.params, k.results))
		}
	}
	return b.String(), ok
}

func gdDispatcher() (string, bool) {
	ok := true
	var b strings.Builder
	b.WriteString("(* x.Filter(..) for x of the interface type column.Column: dynamic dispatch *)\n")
	b.WriteString("Definition gd_Column_Filter (fuel : nat) (c : gd_column) (v_index : (list A)) (v_comparator : gd_any) (v_comparatee : gd_any) (v_bIndex : (list bool)) : outcome ((option E) * (list bool)) :=\n  match c with\n  | gd_col_nil => Panic\n")
	for _, cp := range gdColPkgs {
		g := gdFuncs[cp+":Column.Filter"]
		if g == nil || g.text == "" || len(g.params) != 4 || len(g.results) != 1 {
			ok = false
			continue
		}
		var fs []string
		if cp == "internal/scolumn" {
			fs = []string{"c"}
		} else if st := gdStructs[cp+":Column"]; st != nil {
			for _, f := range st.fields {
				fs = append(fs, f.name)
			}
		}
		head := g.coq
		if g.fuel {
			head += " fuel"
		}
		fmt.Fprintf(&b, "  | gd_col_%s %s => %s %s v_index v_comparator v_comparatee v_bIndex\n", filepath.Base(cp), strings.Join(fs, " "), head, strings.Join(fs, " "))
	}
	b.WriteString("  end.\n")
	return b.String(), ok
}

func genFilterDispatch() string {
	gdFuncs = map[string]*gdFunc{}
	gdStructs = map[string]*gdStruct{}
	gdTables = map[string]*gdTable{}
	gdKernels = map[string]*gdCallee{}
	// the vocabulary
	for _, v := range gdVocabulary {
		vp := loadPkg(v.pkg)
		fd, ok := vp.funcs[v.fn]
		if !ok || fd.Body == nil {
			problem("filter dispatch translation: %s not found in %s", v.fn, v.pkg)
			continue
		}
		cp := *fd
		cp.Doc = nil
		if !strings.Contains(v.text, "{\n") {
			cp.Body = nil
		}
		if gcSrc(vp.fset, &cp) != v.text {
			problem("filter dispatch translation: %s of %s is not the text the fixed vocabulary of the translation stands for", v.fn, v.pkg)
		}
	}
	for _, d := range gdTypeDecls {
		vp := loadPkg(d.pkg)
		e := gdFindType(vp, d.name)
		if e == nil || gcSrc(vp.fset, e) != d.text {
			problem("filter dispatch translation: type %s of %s is not the declaration the translation stands for", d.name, d.pkg)
		}
	}
	typesOk := true
	for _, cp := range gdColPkgs {
		if cp != "internal/scolumn" {
			typesOk = gdLoadStruct(cp, "Column") && typesOk
		}
	}
	typesOk = gdLoadStruct("filter", "Filter") && typesOk
	// tables
	for _, ts := range tableSpecs {
		isCol := false
		for _, cp := range gdColPkgs {
			if ts.pkg == cp && strings.Contains(ts.coqName, "_filter") {
				isCol = true
			}
		}
		if !isCol && !(ts.pkg == "filter" && ts.varName == "Inverse") {
			continue
		}
		tb := &gdTable{spec: ts}
		gdTables[ts.pkg+":"+ts.varName] = tb
		p := loadPkg(ts.pkg)
		cl, ok := p.vars[ts.varName].(*ast.CompositeLit)
		if !ok {
			problem("filter dispatch translation: table %s of %s not found", ts.varName, ts.pkg)
			continue
		}
		mt, ok := cl.Type.(*ast.MapType)
		if !ok || gcSrc(p.fset, mt.Key) != "string" {
			problem("filter dispatch translation: table %s of %s is not a map from string", ts.varName, ts.pkg)
			continue
		}
		if ts.valIsString {
			tb.ok = gcSrc(p.fset, mt.Value) == "string"
		} else if ft, ok := mt.Value.(*ast.FuncType); ok {
			tb.params, tb.results, tb.ok = gdFuncType(p, ts.pkg, ft)
		}
		if !tb.ok {
			problem("filter dispatch translation: the value type of table %s of %s is outside the scheme", ts.varName, ts.pkg)
		}
	}
	// kernel methods
	for _, cp := range gdColPkgs {
		p := loadPkg(cp)
		for _, m := range gdKernelMethods {
			fd, ok := p.funcs["Column."+m]
			if !ok {
				continue
			}
			ps, rs, ok := gdFuncType(p, cp, fd.Type)
			if !ok || fd.Recv == nil || gcSrc(p.fset, fd.Recv.List[0].Type) != "Column" {
				problem("filter dispatch translation: the kernel method %s of %s has a signature outside the scheme", m, cp)
				continue
			}
			gdKernels[cp+":"+m] = &gdCallee{head: fmt.Sprintf("k_%s_%s", gdLetter(cp), m), params: ps, results: rs}
		}
	}

	golden := ""
	if fl := flag.Lookup("golden"); fl != nil && fl.Value.String() != "" {
		if gb, err := os.ReadFile(filepath.Join(fl.Value.String(), "GenFilterDispatch.v")); err == nil {
			golden = string(gb)
		}
	}
	var b strings.Builder
	b.WriteString(gdPreamble)
	block := func(name, text string, ok bool) {
		if !ok {
			old, found := gfGoldenBlock(golden, name)
			if !found {
				return
			}
			text = "(* FALLBACK " + name + ": not derivable from the current source; text of the last validated tree *)\n" + old
		}
		fmt.Fprintf(&b, "(* BEGIN %s *)\n%s(* END %s *)\n\n", name, text, name)
	}
	tyText, tyOk := gdTypesBlock()
	block("gd_types", tyText, tyOk && typesOk)
	vocText, vocOk := gdVocabularyBlock()
	block("gd_vocabulary", vocText, vocOk)

	var order []*gdFunc
	for _, sp := range gdSpecs {
		f := &gdFunc{spec: sp, coq: gdCoqName(sp)}
		gdFuncs[sp.pkg+":"+sp.fn] = f
		order = append(order, f)
		p := loadPkg(sp.pkg)
		fd, ok := p.funcs[sp.fn]
		if !ok || fd.Body == nil {
			problem("filter dispatch translation: function %s not found in %s", sp.fn, sp.pkg)
			continue
		}
		f.fd = fd
		if !gdSignature(p, f) {
			f.fd = nil
		}
	}
	gdComputeFuel()
	dispatched := false
	for _, f := range order {
		if f.spec.pkg == gdRoot && !dispatched {
			text, ok := gdDispatcher()
			block("gd_Column_Filter", text, ok)
			dispatched = true
		}
		if f.fd != nil {
			gdTranslate(loadPkg(f.spec.pkg), f)
		}
		f.done = true
		block(f.coq, f.text, f.ok)
	}
	b.WriteString("End GenFilterDispatch.\n")
	return b.String()
}
