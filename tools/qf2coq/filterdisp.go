package main

// genFilterDispatch: placeholder until the translation of this part of the library is written (an empty generated file).
func genFilterDispatch() string { return "" }
