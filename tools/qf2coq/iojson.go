package main

// Translation of internal/io/json.go (fillInts, fillFloats, fillBools, fillStrings, jsonRecordsToData,
// UnmarshalJSON) and of the wrapper ReadJSON of qframe.go into Gallina (coq/Gen/GenIoJson.v, tie T1 for the JSON
// reader, properties C14 / C17).
//
// The functions listed in gjSpecs are translated statement by statement into definitions gj_<name>.
// coq/Proofs/GenIoJsonProofs.v proves every generated definition equal to the hand-written model of
// coq/Model/JsonRead.v (fill, records_to_data, read_json_records, read_json: the one the strings engine executes
// through Corr/StringsCorr.v), so that an edit of these Go functions changes the generated text and breaks a named
// theorem T1_iojson_<name> of coq/Properties/T1IoJson.v, while the theorems of C14 keep talking about the model.
//
// THE SCHEME (anything that does not fit is reported through problem(...); the block then keeps the text of the
// golden copy, marked FALLBACK, so that the development still builds — the exit status says the tie is broken).
//
//	encoding/json  THE ABSTRACTION BOUNDARY.  io.Reader is a value of an arbitrary type Rd, *json.Decoder a value
//	            of an arbitrary type Dec, with arbitrary answers (section variables): json_NewDecoder : Rd -> Dec
//	            and json_Decode : Dec -> JSONRecords -> gj_error * Dec * JSONRecords (decoder.Decode(&records):
//	            the error, the decoder afterwards, the records afterwards).  Only Decode(&v) with v a variable of
//	            type JSONRecords is understood.
//	qframe.New  THE OTHER BOUNDARY (translated in GenQFrameOps.v): in ReadJSON the call New(data, confFuncs...) is
//	            qf_New : data map -> CF -> outcome Q and the literal QFrame{Err: err} is qf_Err : gj_error -> Q
//	            for arbitrary types Q (QFrame) and CF ([]newqf.ConfigFunc).
//	interface{} REFLECTION AS A TAGGED UNION, fixed per place (gjPlaces):
//	            any     a decoded JSON value (the element type of the maps of JSONRecords): gj_any,
//	                    gj_any_nil | gj_any_bool b | gj_any_float64 bits | gj_any_string s | gj_any_int z |
//	                    gj_any_other (whatever else encoding/json can produce: nested maps and slices).
//	                    switch t := v.(type) is a match on the constructor (cases int, float64, bool, string, nil,
//	                    default; in a case with one type t is the payload, in a case with several types and in
//	                    default it is v itself); x, ok := v.(T) is the match with (zero, false) elsewhere.
//	            data    the values of the result map (what qframe.New takes): newdata of Model/Ops.v; a []int
//	                    stored there is DInts, []float64 DFloats, []bool DBools, []*string DStrPtrs, []string
//	                    DStrings.
//	maps        ASSOCIATION LISTS.  map[string]V is option (list (bytes * V)): None = nil map.  m[k] finds the
//	            FIRST pair for k (gj_map_lookup), m[k] = v replaces the first pair for k or appends
//	            (gj_map_set, Panic on a nil map), range m runs over the pairs in list order (Go leaves the order
//	            open: the theorems hold for every list; a list that represents a Go map has no key twice, which
//	            is a premise where it matters).  v, ok := m[k] gives the zero value and false where there is
//	            no entry.
//	slices      []T -> list; nil is []; len -> Z.of_nat (length x); x[i] -> gj_list_index (Panic outside);
//	            make([]T, n) -> gj_make zero n (Panic when n < 0); x[i] = v -> gj_list_set (Panic outside).
//	            A slice ARGUMENT whose elements the callee assigns is threaded through: the callee answers
//	            outcome (r1 * .. * rn * out1 * ..) where the outs are those arguments, and at the call the new
//	            value is stored back into the variable it was taken from (the length never changes, the caller's
//	            slice shares the backing array: sound because the argument must be a plain variable).
//	pointers    *string: &s is Some s, nil is None.  &records as the argument of Decode: see above.
//	errors      gj_error = gj_nil | gj_err: every non-nil error is the one value gj_err (texts abstracted).
//	            qerrors.New(..) and qerrors.Propagate(..) are gj_err (both answer a struct value, never nil); their
//	            arguments only build the message and are NOT translated (accepted shapes: literals, variables,
//	            err.Error()).
//	numbers     int -> Z, exact (overflow of counters is outside the translation as it is outside the model);
//	            float64 -> N (the bit pattern).
//	strings     string -> bytes; a literal -> (bs len 0xHEX); == is bytes_eqb.
//	fuel        a function that contains a for loop with a condition (or calls such a function) takes
//	            (fuel : nat) first: O => Panic | S fuel' => body; inside, every such loop is entered with the
//	            budget fuel' and every fuelled call gets fuel'.  Range loops are structural and take no fuel (the
//	            source as it is now has range loops only: no generated function takes fuel).
//	control     if / switch: the rest of the block is continued inside every branch that falls through.
//	            for init; cond; post / for cond: a Fixpoint gj_f_loopN over its own counter k (O => Panic):
//	              S k' => if cond then body; post; loop k' .. else exit.          continue = post; loop; break = exit
//	            for i, x := range X (X a slice; or k, v over the pairs of a map): a Fixpoint over the list (X
//	            evaluated once): [] => exit | x :: l' => body; loop l' (i + 1) ..
//	            A loop without return inside answers the outer variables it assigns.  With a return inside it
//	            answers gj_flow: gj_fall vars (left normally) | gj_ret r (the function returned r).
//	scopes      x, y := .. may re-use a variable declared in the very same block (Go assigns it); every other
//	            redeclaration (shadowing) is rejected.
//	rejected    goto, labels, fallthrough, defer, go, shadowing, closures, method values, everything else.

import (
	"flag"
	"fmt"
	"go/ast"
	"go/token"
	"math/big"
	"os"
	"path/filepath"
	"strconv"
	"strings"
)

const gjPkg = "internal/io"
const gjRootPkg = "."
const gjImportPath = "github.com/tobgu/qframe/internal/io"

// in dependency order (a callee before its callers); "root:" marks the function of the root package
var gjSpecs = []string{"fillInts", "fillFloats", "fillBools", "fillStrings", "jsonRecordsToData", "UnmarshalJSON", "root:ReadJSON"}

// the finer types of interface{} places (named type, "function.variable", "function.resultN")
var gjPlaces = map[string]string{
	"JSONRecords":               "any",
	"jsonRecordsToData.result":  "data",
	"jsonRecordsToData.result0": "data",
	"UnmarshalJSON.result0":     "data",
}

const gjPreamble1 = `(* GENERATED by tools/qf2coq (iojson.go) from internal/io/json.go and qframe.go (ReadJSON) of tobgu/qframe — do not
   edit.  One definition gj_<function> per translated Go function, one Fixpoint .._loopN per loop; the scheme is
   described at the top of tools/qf2coq/iojson.go.
   Rd / Dec / json_NewDecoder / json_Decode : the io.Reader and encoding/json's Decoder (arbitrary states, arbitrary
   answers); Q / CF / qf_New / qf_Err : QFrame, the configuration functions, qframe.New and QFrame{Err: err}
   (arbitrary).  A decoded value (interface{}) is a gj_any; the values of the result map are newdata of Model/Ops.v;
   maps are option (association list), first pair found; errors are gj_nil | gj_err; int is Z, float64 its bit
   pattern in N, string is bytes, *string is option bytes.  A slice argument whose elements the function assigns
   is answered after the Go results.  No function has a conditional loop: none takes fuel. *)
From QF Require Import Base.Prelude Model.Frame Model.Ops.
Local Open Scope Z_scope.

(* error values: nil, anything else *)
Inductive gj_error := gj_nil | gj_err.
Definition gj_error_isnil (e : gj_error) : bool := match e with gj_nil => true | gj_err => false end.

(* a decoded JSON value: what encoding/json stores into an interface{} (int never, it is a case of the source) *)
Inductive gj_any :=
| gj_any_nil | gj_any_bool (b : bool) | gj_any_float64 (f : N) | gj_any_string (s : bytes) | gj_any_int (z : Z)
| gj_any_other.
Definition gj_any_isnil (t : gj_any) : bool := match t with gj_any_nil => true | _ => false end.

(* control flow out of a loop that contains a return *)
Inductive gj_flow (Rt V : Type) := gj_fall (v : V) | gj_ret (r : Rt).
Arguments gj_fall {Rt V} v.
Arguments gj_ret {Rt V} r.

(* x == nil on a slice; m == nil on a map / p == nil on a *string *)
Definition gj_isnil {T : Type} (s : list T) : bool := match s with [] => true | _ :: _ => false end.
Definition gj_opt_isnil {T : Type} (o : option T) : bool := match o with None => true | Some _ => false end.
Definition gj_opt_or {T : Type} (o : option T) (d : T) : T := match o with Some x => x | None => d end.
(* x[i]; x[i] = v; make([]T, n) *)
Definition gj_list_index {T : Type} (s : list T) (i : Z) : outcome T :=
  if i <? 0 then Panic else idx s (Z.to_nat i).
Definition gj_list_set {T : Type} (s : list T) (i : Z) (v : T) : outcome (list T) :=
  if i <? 0 then Panic else if (Z.to_nat i <? length s)%nat then Ok (set_nth s (Z.to_nat i) v) else Panic.
Definition gj_make {T : Type} (z : T) (n : Z) : outcome (list T) :=
  if n <? 0 then Panic else Ok (repeat z (Z.to_nat n)).
(* maps as association lists: m[k] (the first pair for k), m[k] = v, the pairs in list order *)
Fixpoint gj_assoc_lookup {V : Type} (l : list (bytes * V)) (k : bytes) : option V :=
  match l with
  | [] => None
  | (k', v) :: l' => if bytes_eqb k' k then Some v else gj_assoc_lookup l' k
  end.
Fixpoint gj_assoc_set {V : Type} (l : list (bytes * V)) (k : bytes) (v : V) : list (bytes * V) :=
  match l with
  | [] => [(k, v)]
  | (k', v') :: l' => if bytes_eqb k' k then (k', v) :: l' else (k', v') :: gj_assoc_set l' k v
  end.
Definition gj_map_lookup {V : Type} (m : option (list (bytes * V))) (k : bytes) : option V :=
  match m with Some l => gj_assoc_lookup l k | None => None end.
Definition gj_map_set {V : Type} (m : option (list (bytes * V))) (k : bytes) (v : V) : outcome (option (list (bytes * V))) :=
  match m with Some l => Ok (Some (gj_assoc_set l k v)) | None => Panic end.
Definition gj_map_entries {V : Type} (m : option (list (bytes * V))) : list (bytes * V) :=
  match m with Some l => l | None => [] end.
Definition gj_map_len {V : Type} (m : option (list (bytes * V))) : Z := Z.of_nat (length (gj_map_entries m)).
(* v, ok := t.(T) *)
Definition gj_assert_int (t : gj_any) : Z * bool := match t with gj_any_int z => (z, true) | _ => (0, false) end.
Definition gj_assert_float64 (t : gj_any) : N * bool := match t with gj_any_float64 b => (b, true) | _ => (0%N, false) end.
Definition gj_assert_bool (t : gj_any) : bool * bool := match t with gj_any_bool b => (b, true) | _ => (false, false) end.
Definition gj_assert_string (t : gj_any) : bytes * bool := match t with gj_any_string s => (s, true) | _ => ([], false) end.

Section GenIoJson.
Context {Rd Dec Q CF : Type}.
Variable json_NewDecoder : Rd -> Dec.
Variable json_Decode : Dec -> list (option (list (bytes * gj_any))) -> gj_error * Dec * list (option (list (bytes * gj_any))).
Variable qf_New : option (list (bytes * newdata)) -> CF -> outcome Q.
Variable qf_Err : gj_error -> Q.

`

// ------------------------------------------------------------------ types

type gjT struct {
	k    string // int bool str float any err optstr list map data reader decoder qframe conf const nil bad
	elem *gjT
	val  *big.Rat
}

var (
	gjInt     = &gjT{k: "int"}
	gjBool    = &gjT{k: "bool"}
	gjStr     = &gjT{k: "str"}
	gjFloat   = &gjT{k: "float"}
	gjAny     = &gjT{k: "any"}
	gjData    = &gjT{k: "data"}
	gjErr     = &gjT{k: "err"}
	gjOptStr  = &gjT{k: "optstr"}
	gjReader  = &gjT{k: "reader"}
	gjDecoder = &gjT{k: "decoder"}
	gjQFrame  = &gjT{k: "qframe"}
	gjConf    = &gjT{k: "conf"}
	gjNil     = &gjT{k: "nil"}
	gjBad     = &gjT{k: "bad"}
)

func gjList(e *gjT) *gjT { return &gjT{k: "list", elem: e} }
func gjMap(e *gjT) *gjT  { return &gjT{k: "map", elem: e} }

func (t *gjT) same(u *gjT) bool {
	if t.k != u.k {
		return false
	}
	if t.elem != nil || u.elem != nil {
		return t.elem != nil && u.elem != nil && t.elem.same(u.elem)
	}
	return true
}

func (t *gjT) name() string {
	switch t.k {
	case "list":
		return "[]" + t.elem.name()
	case "map":
		return "map of " + t.elem.name()
	}
	return t.k
}

func (t *gjT) coq() string {
	switch t.k {
	case "int":
		return "Z"
	case "bool":
		return "bool"
	case "str":
		return "bytes"
	case "float":
		return "N"
	case "any":
		return "gj_any"
	case "data":
		return "newdata"
	case "err":
		return "gj_error"
	case "optstr":
		return "(option bytes)"
	case "list":
		return "(list " + t.elem.coq() + ")"
	case "map":
		return "(option (list (bytes * " + t.elem.coq() + ")))"
	case "reader":
		return "Rd"
	case "decoder":
		return "Dec"
	case "qframe":
		return "Q"
	case "conf":
		return "CF"
	}
	return "BAD"
}

func (t *gjT) zero() (string, bool) {
	switch t.k {
	case "int":
		return "0", true
	case "bool":
		return "false", true
	case "str":
		return "(@nil N)", true
	case "float":
		return "0%N", true
	case "any":
		return "gj_any_nil", true
	case "err":
		return "gj_nil", true
	case "optstr", "map":
		return "None", true
	case "list":
		return "(@nil " + t.elem.coq() + ")", true
	}
	return "BAD", false
}

// the constructor of newdata for a slice stored into a data place
func gjDataCon(t *gjT) string {
	if t.k != "list" {
		return ""
	}
	switch t.elem.k {
	case "int":
		return "DInts"
	case "float":
		return "DFloats"
	case "bool":
		return "DBools"
	case "optstr":
		return "DStrPtrs"
	case "str":
		return "DStrings"
	}
	return ""
}

// the named types of the package (type T ..), filled by gjLoadTypes
var gjTypeDecls map[string]ast.Expr

func gjLoadTypes(p *pkgInfo) {
	gjTypeDecls = map[string]ast.Expr{}
	for _, f := range p.files {
		for _, d := range f.Decls {
			gd, ok := d.(*ast.GenDecl)
			if !ok || gd.Tok != token.TYPE {
				continue
			}
			for _, s := range gd.Specs {
				ts := s.(*ast.TypeSpec)
				gjTypeDecls[ts.Name.Name] = ts.Type
			}
		}
	}
}

// gjResolve maps a Go type expression to a translation type; place is a named type / "func.var" / "func.resultN".
// root: the expression stands in the root package (where the named types of internal/io are not visible).
func gjResolve(p *pkgInfo, e ast.Expr, place string, root bool) *gjT {
	switch x := e.(type) {
	case *ast.ParenExpr:
		return gjResolve(p, x.X, place, root)
	case *ast.Ident:
		switch x.Name {
		case "int":
			return gjInt
		case "bool":
			return gjBool
		case "string":
			return gjStr
		case "float64":
			return gjFloat
		case "error":
			return gjErr
		case "any":
			switch gjPlaces[place] {
			case "any":
				return gjAny
			case "data":
				return gjData
			}
			return gjBad
		case "QFrame":
			if root {
				return gjQFrame
			}
			return gjBad
		}
		if !root {
			if d, ok := gjTypeDecls[x.Name]; ok {
				if _, isStruct := d.(*ast.StructType); !isStruct {
					return gjResolve(p, d, x.Name, root)
				}
			}
		}
	case *ast.InterfaceType:
		if x.Methods == nil || len(x.Methods.List) == 0 {
			switch gjPlaces[place] {
			case "any":
				return gjAny
			case "data":
				return gjData
			}
		}
	case *ast.ArrayType:
		if x.Len == nil {
			el := gjResolve(p, x.Elt, place, root)
			if el.k != "bad" {
				return gjList(el)
			}
		}
	case *ast.MapType:
		if id, ok := x.Key.(*ast.Ident); ok && id.Name == "string" {
			el := gjResolve(p, x.Value, place, root)
			if el.k != "bad" {
				return gjMap(el)
			}
		}
	case *ast.StarExpr:
		if id, ok := x.X.(*ast.Ident); ok && id.Name == "string" {
			return gjOptStr
		}
	case *ast.SelectorExpr:
		switch ggSelName(x) {
		case "io.Reader":
			return gjReader
		}
	case *ast.Ellipsis:
		if ggSelName(x.Elt) == "newqf.ConfigFunc" && root {
			return gjConf
		}
	}
	return gjBad
}

// ------------------------------------------------------------------ translation context

type gjVar struct {
	name  string
	t     *gjT
	local bool // a range / type switch variable: may not be assigned
	depth int  // the block it was declared in
}

type gjFunc struct {
	goName    string
	coq       string
	root      bool
	p         *pkgInfo
	fd        *ast.FuncDecl
	params    []gjVar
	results   []*gjT
	outs      []gjVar
	needsFuel bool
	done      bool
	ok        bool
	text      string
}

var gjFuncs map[string]*gjFunc

type gjCtx struct {
	vars  []gjVar
	depth int
	brk   func() string
	cont  func() string
	retv  func(tuple string) string
}

type gjTr struct {
	p     *pkgInfo
	f     *gjFunc
	loops []string
	bad   bool
	ntmp  int
	nrec  int
}

func (t *gjTr) fail(n ast.Node, format string, a ...interface{}) {
	pos := ""
	if n != nil {
		pos = t.p.fset.Position(n.Pos()).String() + ": "
	}
	problem("internal/io json translation, function %s: %s%s", t.f.goName, pos, fmt.Sprintf(format, a...))
	t.bad = true
}

func (t *gjTr) src(n ast.Node) string { return ggSrc(t.p.fset, n) }

func (t *gjTr) tmp() string {
	t.ntmp++
	return fmt.Sprintf("t%d", t.ntmp)
}

func (c gjCtx) lookup(name string) (gjVar, bool) {
	for i := len(c.vars) - 1; i >= 0; i-- {
		if c.vars[i].name == name {
			return c.vars[i], true
		}
	}
	return gjVar{}, false
}

func (c gjCtx) deeper() gjCtx {
	c.depth++
	return c
}

func gjRootOf(e ast.Expr) string {
	switch x := e.(type) {
	case *ast.Ident:
		return x.Name
	case *ast.IndexExpr:
		return gjRootOf(x.X)
	case *ast.ParenExpr:
		return gjRootOf(x.X)
	case *ast.StarExpr:
		return gjRootOf(x.X)
	case *ast.UnaryExpr:
		if x.Op == token.AND {
			return gjRootOf(x.X)
		}
	}
	return ""
}

// the alias under which the file of fd imports internal/io ("" when it does not)
func gjIoAlias(p *pkgInfo, fd *ast.FuncDecl) string {
	for _, f := range p.files {
		if f.Pos() <= fd.Pos() && fd.End() <= f.End() {
			for _, im := range f.Imports {
				if path, err := strconv.Unquote(im.Path.Value); err == nil && path == gjImportPath {
					if im.Name != nil {
						return im.Name.Name
					}
					return "io"
				}
			}
		}
	}
	return ""
}

var _ = flag.Lookup
var _ = os.ReadFile
var _ = filepath.Join

// ------------------------------------------------------------------ expressions

func gjRatText(v *big.Rat) string {
	if v.Sign() < 0 {
		return "(" + v.Num().String() + ")"
	}
	return v.Num().String()
}

// coerce an untyped constant / nil to the wanted type; a slice to a data place
func (t *gjTr) coerce(n ast.Node, text string, ty *gjT, want *gjT) (string, *gjT) {
	switch ty.k {
	case "nil":
		switch want.k {
		case "err", "optstr", "map", "list", "any":
			z, _ := want.zero()
			return z, want
		}
		t.fail(n, "nil in a context of type %s", want.name())
		return text, want
	case "const":
		if !ty.val.IsInt() {
			t.fail(n, "constant %s is not an integer", ty.val.String())
			return "0", want
		}
		if want.k == "int" {
			return gjRatText(ty.val), want
		}
		t.fail(n, "constant %s in a context of type %s", ty.val.String(), want.name())
		return "0", want
	case "list":
		if want.k == "data" {
			if con := gjDataCon(ty); con != "" {
				return "(" + con + " " + text + ")", want
			}
			t.fail(n, "a %s stored where qframe.New takes its data: no constructor of newdata", ty.name())
			return "DOther", want
		}
	}
	return text, ty
}

// the arguments of qerrors.New / qerrors.Propagate only build a message
func (t *gjTr) messageArg(e ast.Expr, c gjCtx) bool {
	switch x := e.(type) {
	case *ast.BasicLit:
		return true
	case *ast.Ident:
		_, ok := c.lookup(x.Name)
		return ok
	case *ast.CallExpr:
		if se, ok := x.Fun.(*ast.SelectorExpr); ok && len(x.Args) == 0 && se.Sel.Name == "Error" {
			if id, ok := se.X.(*ast.Ident); ok {
				if v, ok := c.lookup(id.Name); ok && v.t.k == "err" {
					return true
				}
			}
		}
	}
	return false
}

// expr translates an expression; operations that can panic are bound in *pre.
func (t *gjTr) expr(e ast.Expr, c gjCtx, pre *[]string) (string, *gjT) {
	switch x := e.(type) {
	case *ast.ParenExpr:
		return t.expr(x.X, c, pre)
	case *ast.BasicLit:
		switch x.Kind {
		case token.INT, token.CHAR:
			if v, ok := evalConst(t.p, x); ok {
				return "", &gjT{k: "const", val: v}
			}
		case token.STRING:
			if s, err := strconv.Unquote(x.Value); err == nil {
				return coqBytes(s), gjStr
			}
		}
	case *ast.Ident:
		if v, ok := c.lookup(x.Name); ok {
			return "v_" + v.name, v.t
		}
		switch x.Name {
		case "true", "false":
			return x.Name, gjBool
		case "nil":
			return "", gjNil
		}
		if ce, ok := t.p.consts[x.Name]; ok {
			if v, ok := evalConst(t.p, ce); ok {
				return "", &gjT{k: "const", val: v}
			}
		}
		t.fail(e, "unknown identifier %s", x.Name)
		return "0", gjBad
	case *ast.IndexExpr:
		a, ta := t.expr(x.X, c, pre)
		i, ti := t.expr(x.Index, c, pre)
		switch ta.k {
		case "list":
			i, ti = t.coerce(x.Index, i, ti, gjInt)
			if ti.k != "int" {
				t.fail(e, "index of type %s", ti.name())
				return "0", gjBad
			}
			tmp := t.tmp()
			*pre = append(*pre, "do "+tmp+" <- gj_list_index "+a+" "+i+";\n")
			return tmp, ta.elem
		case "map":
			if z, ok := ta.elem.zero(); ok && ti.k == "str" {
				return "(gj_opt_or (gj_map_lookup " + a + " " + i + ") " + z + ")", ta.elem
			}
		}
		t.fail(e, "indexing a %s here", ta.name())
		return "0", gjBad
	case *ast.UnaryExpr:
		switch x.Op {
		case token.NOT:
			a, ta := t.expr(x.X, c, pre)
			if ta.k == "bool" {
				return "(negb " + a + ")", gjBool
			}
		case token.AND:
			a, ta := t.expr(x.X, c, pre)
			if ta.k == "str" {
				if _, isVar := x.X.(*ast.Ident); isVar {
					return "(Some " + a + ")", gjOptStr
				}
			}
		}
	case *ast.BinaryExpr:
		return t.binary(x, c, pre)
	case *ast.CompositeLit:
		return t.composite(x, c, pre, "")
	case *ast.CallExpr:
		return t.call(x, c, pre)
	}
	t.fail(e, "expression not understood: %s", t.src(e))
	return "0", gjBad
}

// composite literals: an empty map (place: where its interface{} values go), QFrame{Err: err}
func (t *gjTr) composite(cl *ast.CompositeLit, c gjCtx, pre *[]string, place string) (string, *gjT) {
	if _, isMap := cl.Type.(*ast.MapType); isMap {
		mt := gjResolve(t.p, cl.Type, place, t.f.root)
		if mt.k == "map" && len(cl.Elts) == 0 {
			return "(Some (@nil (bytes * " + mt.elem.coq() + ")))", mt
		}
		t.fail(cl, "only an empty map literal (in a place whose value type is understood) is translated")
		return "None", gjBad
	}
	if id, ok := cl.Type.(*ast.Ident); ok && id.Name == "QFrame" && t.f.root && len(cl.Elts) == 1 {
		if kv, ok := cl.Elts[0].(*ast.KeyValueExpr); ok {
			if k, ok := kv.Key.(*ast.Ident); ok && k.Name == "Err" {
				a, ta := t.expr(kv.Value, c, pre)
				if ta.k == "err" {
					return "(qf_Err " + a + ")", gjQFrame
				}
			}
		}
	}
	t.fail(cl, "composite literal that is not understood: %s", t.src(cl))
	return "0", gjBad
}

func (t *gjTr) binary(x *ast.BinaryExpr, c gjCtx, pre *[]string) (string, *gjT) {
	if x.Op == token.LAND || x.Op == token.LOR {
		a, ta := t.expr(x.X, c, pre)
		var preB []string
		b, tb := t.expr(x.Y, c, &preB)
		if ta.k != "bool" || tb.k != "bool" || len(preB) != 0 {
			t.fail(x, "%s on operands that are not conditions (or whose right operand can panic)", x.Op)
			return "false", gjBool
		}
		if x.Op == token.LAND {
			return "(if " + a + " then " + b + " else false)", gjBool
		}
		return "(if " + a + " then true else " + b + ")", gjBool
	}
	a, ta := t.expr(x.X, c, pre)
	b, tb := t.expr(x.Y, c, pre)
	if ta.k == "const" && tb.k == "const" {
		var v *big.Rat
		switch x.Op {
		case token.ADD:
			v = new(big.Rat).Add(ta.val, tb.val)
		case token.SUB:
			v = new(big.Rat).Sub(ta.val, tb.val)
		case token.MUL:
			v = new(big.Rat).Mul(ta.val, tb.val)
		}
		if v != nil {
			return "", &gjT{k: "const", val: v}
		}
		t.fail(x, "constant expression not understood: %s", t.src(x))
		return "0", gjBad
	}
	if ta.k == "const" || ta.k == "nil" {
		a, ta = t.coerce(x.X, a, ta, tb)
	} else if tb.k == "const" || tb.k == "nil" {
		b, tb = t.coerce(x.Y, b, tb, ta)
	}
	neg := func(s string) string {
		if x.Op == token.NEQ {
			return "(negb " + s + ")"
		}
		return s
	}
	isEq := x.Op == token.EQL || x.Op == token.NEQ
	nilY := ggIsIdent(x.Y, "nil")
	if _, shadowed := c.lookup("nil"); shadowed {
		nilY = false
	}
	if isEq && nilY && ta.same(tb) {
		switch ta.k {
		case "err":
			return neg("(gj_error_isnil " + a + ")"), gjBool
		case "any":
			return neg("(gj_any_isnil " + a + ")"), gjBool
		case "list":
			return neg("(gj_isnil " + a + ")"), gjBool
		case "map", "optstr":
			return neg("(gj_opt_isnil " + a + ")"), gjBool
		}
	}
	if ta.k == "int" && tb.k == "int" {
		switch x.Op {
		case token.ADD:
			return "(" + a + " + " + b + ")", ta
		case token.SUB:
			return "(" + a + " - " + b + ")", ta
		case token.LSS:
			return "(" + a + " <? " + b + ")", gjBool
		case token.LEQ:
			return "(" + a + " <=? " + b + ")", gjBool
		case token.GTR:
			return "(" + b + " <? " + a + ")", gjBool
		case token.GEQ:
			return "(" + b + " <=? " + a + ")", gjBool
		case token.EQL, token.NEQ:
			return neg("(" + a + " =? " + b + ")"), gjBool
		}
	}
	if isEq && ta.same(tb) {
		switch ta.k {
		case "str":
			return neg("(bytes_eqb " + a + " " + b + ")"), gjBool
		case "bool":
			return neg("(Bool.eqb " + a + " " + b + ")"), gjBool
		}
	}
	if x.Op == token.ADD && ta.k == "str" && tb.k == "str" {
		return "(" + a + " ++ " + b + ")", gjStr
	}
	t.fail(x, "operator %s on %s and %s is not understood", x.Op, ta.name(), tb.name())
	return "0", gjBad
}

// call: calls that are plain expressions; calls that change state are statements (callStmt)
func (t *gjTr) call(x *ast.CallExpr, c gjCtx, pre *[]string) (string, *gjT) {
	if id, ok := x.Fun.(*ast.Ident); ok {
		if _, isVar := c.lookup(id.Name); isVar {
			t.fail(x, "call of the variable %s is not understood", id.Name)
			return "0", gjBad
		}
		switch id.Name {
		case "len":
			if len(x.Args) == 1 {
				a, ta := t.expr(x.Args[0], c, pre)
				switch ta.k {
				case "list", "str":
					return "(Z.of_nat (length " + a + "))", gjInt
				case "map":
					return "(gj_map_len " + a + ")", gjInt
				}
			}
		case "make":
			if len(x.Args) == 2 {
				ty := gjResolve(t.p, x.Args[0], "", t.f.root)
				n, tn := t.expr(x.Args[1], c, pre)
				n, tn = t.coerce(x.Args[1], n, tn, gjInt)
				if ty.k == "list" && tn.k == "int" {
					if z, ok := ty.elem.zero(); ok {
						tmp := t.tmp()
						*pre = append(*pre, "do "+tmp+" <- gj_make "+z+" "+n+";\n")
						return tmp, ty
					}
				}
			}
		case "int":
			if len(x.Args) == 1 {
				a, ta := t.expr(x.Args[0], c, pre)
				a, ta = t.coerce(x.Args[0], a, ta, gjInt)
				if ta.k == "int" {
					return a, gjInt
				}
			}
		case "string":
			if len(x.Args) == 1 {
				a, ta := t.expr(x.Args[0], c, pre)
				if ta.k == "str" {
					return a, gjStr
				}
			}
		}
	}
	switch ggSelName(x.Fun) {
	case "qerrors.New", "qerrors.Propagate":
		if _, sh := c.lookup("qerrors"); !sh {
			for _, a := range x.Args {
				if !t.messageArg(a, c) {
					t.fail(a, "argument of %s of a shape that is not understood: %s", ggSelName(x.Fun), t.src(a))
				}
			}
			return "gj_err", gjErr
		}
	}
	t.fail(x, "call not understood (a call that changes state may only stand as a statement, a whole right-hand side, a whole condition or the only returned value): %s", t.src(x))
	return "0", gjBad
}

// ------------------------------------------------------------------ statements

func gjTupleOrUnit(parts []string) string {
	if len(parts) == 0 {
		return "tt"
	}
	return ggTuple(parts)
}

func gjTypeTupleOrUnit(parts []string) string {
	if len(parts) == 0 {
		return "unit"
	}
	return ggTypeTuple(parts)
}

func gjVarNames(vs []gjVar) []string {
	var out []string
	for _, v := range vs {
		out = append(out, "v_"+v.name)
	}
	return out
}

func gjVarTypes(vs []gjVar) []string {
	var out []string
	for _, v := range vs {
		out = append(out, v.t.coq())
	}
	return out
}

// declare a new variable; reuse: the statement is x, y := .. (a variable of the very same block is assigned)
func (t *gjTr) declare(n ast.Node, c *gjCtx, name string, ty *gjT, reuse bool) {
	if ty.k == "const" || ty.k == "nil" || ty.k == "bad" {
		t.fail(n, "variable %s of a type that is not understood", name)
		ty = gjInt
	}
	if v, dup := c.lookup(name); dup {
		if reuse && v.depth == c.depth && !v.local && v.t.same(ty) {
			return
		}
		t.fail(n, "%s shadows / redeclares a variable", name)
	}
	if _, isFn := gjFuncs[name]; isFn {
		t.fail(n, "%s shadows a function", name)
	}
	switch name {
	case "qerrors", "json", "len", "make", "int", "string", "nil", "true", "false", "New", "QFrame", "any", gjIoAlias(t.p, t.f.fd):
		t.fail(n, "%s shadows a name of the vocabulary", name)
	}
	cp := *ty
	vars := append([]gjVar{}, c.vars...)
	c.vars = append(vars, gjVar{name: name, t: &cp, depth: c.depth})
}

// store: the statement(s) that give the place lhs the value val.
func (t *gjTr) store(lhs ast.Expr, val string, tv *gjT, c *gjCtx, pre *[]string) string {
	switch x := lhs.(type) {
	case *ast.ParenExpr:
		return t.store(x.X, val, tv, c, pre)
	case *ast.Ident:
		if x.Name == "_" {
			return ""
		}
		v, ok := c.lookup(x.Name)
		if !ok {
			t.fail(lhs, "unknown variable %s", x.Name)
			return ""
		}
		if v.local {
			t.fail(lhs, "assignment to the range / type switch variable %s", x.Name)
		}
		val, tv = t.coerce(lhs, val, tv, v.t)
		if !tv.same(v.t) {
			t.fail(lhs, "assignment to %s: a %s where a %s is expected", x.Name, tv.name(), v.t.name())
		}
		return "let v_" + x.Name + " := " + val + " in\n"
	case *ast.IndexExpr:
		if _, plain := x.X.(*ast.Ident); !plain {
			t.fail(lhs, "element assignment to something that is not a plain variable")
			return ""
		}
		a, ta := t.expr(x.X, *c, pre)
		k, tk := t.expr(x.Index, *c, pre)
		switch ta.k {
		case "list":
			k, tk = t.coerce(x.Index, k, tk, gjInt)
			val, tv = t.coerce(lhs, val, tv, ta.elem)
			if tk.k != "int" || !tv.same(ta.elem) {
				t.fail(lhs, "element assignment: a %s at an index of type %s of a %s", tv.name(), tk.name(), ta.name())
				return ""
			}
			tmp := t.tmp()
			return "do " + tmp + " <- gj_list_set " + a + " " + k + " " + val + ";\n" + t.store(x.X, tmp, ta, c, pre)
		case "map":
			val, tv = t.coerce(lhs, val, tv, ta.elem)
			if tk.k != "str" || !tv.same(ta.elem) {
				t.fail(lhs, "map assignment: a %s under a key of type %s of a %s", tv.name(), tk.name(), ta.name())
				return ""
			}
			tmp := t.tmp()
			return "do " + tmp + " <- gj_map_set " + a + " " + k + " " + val + ";\n" + t.store(x.X, tmp, ta, c, pre)
		}
		t.fail(lhs, "index assignment to a %s", ta.name())
		return ""
	}
	t.fail(lhs, "assignment to %s", t.src(lhs))
	return ""
}

// callStmt: a call that changes state or can panic (a translated function, the decoder, qframe.New) with the
// stores of its outs.  Answers the text (ending in a newline), the temporaries holding the Go results, their types.
func (t *gjTr) callStmt(ce *ast.CallExpr, c *gjCtx) (string, []string, []*gjT, bool) {
	var pre []string
	type back struct {
		lval ast.Expr
		ty   *gjT
		tmp  string
	}
	var backs []back
	var head string
	var resT []*gjT
	monadic := true
	translated := func(g *gjFunc) {
		if g == t.f {
			t.fail(ce, "recursion")
		} else if !g.done {
			t.fail(ce, "%s is called before it is translated (order of gjSpecs)", g.goName)
		}
		parts := []string{g.coq}
		if g.needsFuel {
			parts = append(parts, "fuel'")
		}
		if len(ce.Args) != len(g.params) || ce.Ellipsis != token.NoPos {
			t.fail(ce, "%s takes %d arguments", g.goName, len(g.params))
		} else {
			for i, a := range ce.Args {
				want := g.params[i].t
				txt, ty := t.expr(a, *c, &pre)
				txt, ty = t.coerce(a, txt, ty, want)
				if !ty.same(want) {
					t.fail(a, "argument of type %s where %s expects %s", ty.name(), g.goName, want.name())
				}
				parts = append(parts, txt)
				for _, o := range g.outs {
					if o.name == g.params[i].name {
						if _, plain := a.(*ast.Ident); !plain {
							t.fail(a, "a slice that %s writes to must be passed as a plain variable", g.goName)
						}
						backs = append(backs, back{lval: a, ty: want})
					}
				}
			}
		}
		head = strings.Join(parts, " ")
		resT = g.results
	}
	switch fn := ce.Fun.(type) {
	case *ast.Ident:
		if _, shadowed := c.lookup(fn.Name); shadowed {
			return "", nil, nil, false
		}
		if fn.Name == "New" && t.f.root {
			if len(ce.Args) != 2 || ce.Ellipsis == token.NoPos {
				t.fail(ce, "New(data, confFuncs...) is expected")
				return "Panic\n", nil, nil, true
			}
			a, ta := t.expr(ce.Args[0], *c, &pre)
			b, tb := t.expr(ce.Args[1], *c, &pre)
			if !ta.same(gjMap(gjData)) || tb.k != "conf" {
				t.fail(ce, "New applied to a %s and a %s", ta.name(), tb.name())
			}
			head, resT = "qf_New "+a+" "+b, []*gjT{gjQFrame}
			break
		}
		g, ok := gjFuncs[fn.Name]
		if !ok || g.root != t.f.root {
			return "", nil, nil, false
		}
		translated(g)
	case *ast.SelectorExpr:
		sn := ggSelName(fn)
		if id, ok := fn.X.(*ast.Ident); ok {
			if _, isVar := c.lookup(id.Name); !isVar {
				if sn == "json.NewDecoder" && !t.f.root {
					if len(ce.Args) != 1 {
						return "", nil, nil, false
					}
					a, ta := t.expr(ce.Args[0], *c, &pre)
					if ta.k != "reader" {
						t.fail(ce, "json.NewDecoder of a %s", ta.name())
					}
					head, resT, monadic = "json_NewDecoder "+a, []*gjT{gjDecoder}, false
					break
				}
				if t.f.root && id.Name == gjIoAlias(t.p, t.f.fd) {
					if g, ok := gjFuncs[fn.Sel.Name]; ok && !g.root {
						translated(g)
						break
					}
				}
				return "", nil, nil, false
			}
		}
		var p0 []string
		rx, tr := t.expr(fn.X, *c, &p0)
		if tr.k != "decoder" || len(p0) != 0 {
			return "", nil, nil, false
		}
		if fn.Sel.Name != "Decode" || len(ce.Args) != 1 {
			t.fail(ce, "method %s of the decoder is not understood", fn.Sel.Name)
			return "Panic\n", nil, nil, true
		}
		u, ok := ce.Args[0].(*ast.UnaryExpr)
		if !ok || u.Op != token.AND {
			t.fail(ce, "Decode(&v) with a variable v is expected")
			return "Panic\n", nil, nil, true
		}
		if _, plain := u.X.(*ast.Ident); !plain {
			t.fail(ce, "Decode(&v) with a variable v is expected")
			return "Panic\n", nil, nil, true
		}
		a, ta := t.expr(u.X, *c, &pre)
		if !ta.same(gjList(gjMap(gjAny))) {
			t.fail(ce, "Decode into a %s: only JSONRecords is understood", ta.name())
		}
		head, resT, monadic = "json_Decode "+rx+" "+a, []*gjT{gjErr}, false
		backs = append(backs, back{lval: fn.X, ty: gjDecoder}, back{lval: u.X, ty: ta})
	default:
		return "", nil, nil, false
	}
	var pat, res []string
	for range resT {
		tmp := t.tmp()
		pat = append(pat, tmp)
		res = append(res, tmp)
	}
	for i := range backs {
		backs[i].tmp = t.tmp()
		pat = append(pat, backs[i].tmp)
	}
	text := strings.Join(pre, "")
	if monadic {
		text += "do " + gjTupleOrUnit(pat) + " <- " + head + ";\n"
	} else if len(pat) == 1 {
		text += "let " + pat[0] + " := " + head + " in\n"
	} else {
		text += "let '" + gjTupleOrUnit(pat) + " := " + head + " in\n"
	}
	for i := len(backs) - 1; i >= 0; i-- {
		bk := backs[i]
		var p2 []string
		text += t.store(bk.lval, bk.tmp, bk.ty, c, &p2)
		if len(p2) != 0 {
			t.fail(ce, "storing back the result of the call needs an operation that can panic")
		}
	}
	return text, res, resT, true
}

// simple: a statement without control flow, as a prefix "let .. in\n" / "do .. <- ..;\n"
func (t *gjTr) simple(st ast.Stmt, c *gjCtx) (string, bool) {
	var pre []string
	wrap := func(s string) string { return strings.Join(pre, "") + s }
	switch x := st.(type) {
	case *ast.DeclStmt:
		gd, ok := x.Decl.(*ast.GenDecl)
		if !ok || gd.Tok != token.VAR {
			return "", false
		}
		text := ""
		for _, sp := range gd.Specs {
			vs := sp.(*ast.ValueSpec)
			if vs.Type == nil || len(vs.Values) != 0 {
				t.fail(st, "only `var x T` is understood")
				return "", true
			}
			for _, n := range vs.Names {
				ty := gjResolve(t.p, vs.Type, t.f.goName+"."+n.Name, t.f.root)
				z, ok := ty.zero()
				if ty.k == "bad" || !ok {
					t.fail(st, "variable %s has a type that is not understood: %s", n.Name, t.src(vs.Type))
					return "", true
				}
				t.declare(st, c, n.Name, ty, false)
				text += "let v_" + n.Name + " := " + z + " in\n"
			}
		}
		return text, true
	case *ast.IncDecStmt:
		a, ta := t.expr(x.X, *c, &pre)
		if ta.k != "int" {
			t.fail(st, "%s on a %s", x.Tok, ta.name())
			return "", true
		}
		op := " + 1"
		if x.Tok == token.DEC {
			op = " - 1"
		}
		return wrap(t.store(x.X, "("+a+op+")", ta, c, &pre)), true
	case *ast.ExprStmt:
		ce, ok := x.X.(*ast.CallExpr)
		if !ok {
			return "", false
		}
		if text, _, _, ok := t.callStmt(ce, c); ok {
			return text, true
		}
		t.fail(st, "statement not understood: %s", t.src(st))
		return "", true
	case *ast.AssignStmt:
		if x.Tok != token.DEFINE && x.Tok != token.ASSIGN {
			t.fail(st, "assignment operator %s", x.Tok)
			return "", true
		}
		bind := func(text string, res []string, resT []*gjT) (string, bool) {
			if len(res) != len(x.Lhs) {
				t.fail(st, "%d values assigned to %d places", len(res), len(x.Lhs))
				return "", true
			}
			for i, l := range x.Lhs {
				if x.Tok == token.DEFINE {
					id, ok := l.(*ast.Ident)
					if !ok {
						t.fail(st, ":= on something that is not a variable")
						return "", true
					}
					if id.Name == "_" {
						continue
					}
					t.declare(st, c, id.Name, resT[i], len(x.Lhs) > 1)
					text += "let v_" + id.Name + " := " + res[i] + " in\n"
				} else {
					var p2 []string
					stx := t.store(l, res[i], resT[i], c, &p2)
					text += strings.Join(p2, "") + stx
				}
			}
			return text, true
		}
		if len(x.Rhs) == 1 {
			if ce, ok := x.Rhs[0].(*ast.CallExpr); ok {
				if text, res, resT, ok := t.callStmt(ce, c); ok {
					return bind(text, res, resT)
				}
			}
			if len(x.Lhs) == 2 {
				switch r := x.Rhs[0].(type) {
				case *ast.TypeAssertExpr: // v, ok := t.(T)
					a, ta := t.expr(r.X, *c, &pre)
					if ta.k == "any" && r.Type != nil {
						fn, ty := "", gjBad
						switch t.src(r.Type) {
						case "int":
							fn, ty = "gj_assert_int", gjInt
						case "float64":
							fn, ty = "gj_assert_float64", gjFloat
						case "bool":
							fn, ty = "gj_assert_bool", gjBool
						case "string":
							fn, ty = "gj_assert_string", gjStr
						}
						if fn != "" {
							t1, t2 := t.tmp(), t.tmp()
							return bind(wrap("let '("+t1+", "+t2+") := "+fn+" "+a+" in\n"), []string{t1, t2}, []*gjT{ty, gjBool})
						}
					}
					t.fail(st, "type assertion not understood: %s", t.src(r))
					return "", true
				case *ast.IndexExpr: // v, ok := m[k]
					a, ta := t.expr(r.X, *c, &pre)
					k, tk := t.expr(r.Index, *c, &pre)
					if ta.k == "map" && tk.k == "str" {
						if z, ok := ta.elem.zero(); ok {
							t1 := t.tmp()
							return bind(wrap("let "+t1+" := gj_map_lookup "+a+" "+k+" in\n"), []string{"(gj_opt_or " + t1 + " " + z + ")", "(negb (gj_opt_isnil " + t1 + "))"}, []*gjT{ta.elem, gjBool})
						}
					}
					t.fail(st, "map lookup not understood: %s", t.src(r))
					return "", true
				}
			}
		}
		if len(x.Rhs) != len(x.Lhs) || len(x.Lhs) != 1 {
			t.fail(st, "assignment with %d left and %d right sides", len(x.Lhs), len(x.Rhs))
			return "", true
		}
		if x.Tok == token.DEFINE {
			id, ok := x.Lhs[0].(*ast.Ident)
			if !ok {
				t.fail(st, ":= on something that is not a variable")
				return "", true
			}
			var a string
			var ta *gjT
			if cl, isLit := x.Rhs[0].(*ast.CompositeLit); isLit {
				a, ta = t.composite(cl, *c, &pre, t.f.goName+"."+id.Name)
			} else {
				a, ta = t.expr(x.Rhs[0], *c, &pre)
			}
			if ta.k == "const" {
				a, ta = t.coerce(x.Rhs[0], a, ta, gjInt)
			}
			t.declare(st, c, id.Name, ta, false)
			return wrap("let v_" + id.Name + " := " + a + " in\n"), true
		}
		a, ta := t.expr(x.Rhs[0], *c, &pre)
		if ta.k == "const" || ta.k == "nil" {
			var p2 []string
			_, tl := t.expr(x.Lhs[0], *c, &p2)
			a, ta = t.coerce(x.Rhs[0], a, ta, tl)
		}
		var p3 []string
		stx := t.store(x.Lhs[0], a, ta, c, &p3)
		return wrap(strings.Join(p3, "") + stx), true
	}
	return "", false
}

func gjRestrict(inner, outer gjCtx) gjCtx {
	r := outer
	r.vars = inner.vars[:len(outer.vars)]
	return r
}

// cond: a condition, possibly a call with side effects; answers the prefix and the boolean text
func (t *gjTr) cond(e ast.Expr, c *gjCtx) (string, string) {
	if ce, ok := e.(*ast.CallExpr); ok {
		if text, res, resT, ok := t.callStmt(ce, c); ok {
			if len(res) != 1 || resT[0].k != "bool" {
				t.fail(e, "a call used as a condition must answer one bool")
				return text, "false"
			}
			return text, res[0]
		}
	}
	var pre []string
	ct, tc := t.expr(e, *c, &pre)
	if tc.k != "bool" {
		t.fail(e, "a condition is expected")
		return "", "false"
	}
	return strings.Join(pre, ""), ct
}

func (t *gjTr) stmts(list []ast.Stmt, c gjCtx, k func(gjCtx) string) string {
	if len(list) == 0 {
		return k(c)
	}
	st, rest := list[0], list[1:]
	memo, have := "", false
	next := func(c2 gjCtx) string {
		if !have {
			memo, have = t.stmts(rest, c2, k), true
		}
		return memo
	}
	switch x := st.(type) {
	case *ast.ReturnStmt:
		return t.ret(x, c)
	case *ast.BranchStmt:
		switch x.Tok {
		case token.BREAK:
			if x.Label != nil || c.brk == nil {
				t.fail(st, "break is not understood here (with a label, inside a switch, or outside a loop)")
				return "Panic"
			}
			return c.brk()
		case token.CONTINUE:
			if x.Label != nil || c.cont == nil {
				t.fail(st, "continue is not understood here (with a label, or outside a loop)")
				return "Panic"
			}
			return c.cont()
		}
		t.fail(st, "%s is not understood", x.Tok)
		return "Panic"
	case *ast.BlockStmt:
		return t.stmts(x.List, c.deeper(), func(c2 gjCtx) string { return next(gjRestrict(c2, c)) })
	case *ast.IfStmt:
		return t.ifStmt(x, c, next)
	case *ast.TypeSwitchStmt:
		return t.typeSwitch(x, c, next)
	case *ast.ForStmt:
		return t.forStmt(x, c, next)
	case *ast.RangeStmt:
		return t.rangeStmt(x, c, next)
	}
	if text, ok := t.simple(st, &c); ok {
		return text + next(c)
	}
	t.fail(st, "statement not understood: %s", t.src(st))
	return "Panic"
}

func (t *gjTr) ifStmt(x *ast.IfStmt, c gjCtx, next func(gjCtx) string) string {
	c1 := c.deeper()
	initText := ""
	if x.Init != nil {
		txt, ok := t.simple(x.Init, &c1)
		if !ok {
			t.fail(x.Init, "if init statement not understood")
		}
		initText = txt
	}
	pre, ct := t.cond(x.Cond, &c1)
	back := func(c2 gjCtx) string { return next(gjRestrict(c2, c)) }
	thenT := t.stmts(x.Body.List, c1.deeper(), back)
	elseT := t.stmts(ggElse(x), c1.deeper(), back)
	return initText + pre + "if " + ct + " then\n" + gsIndent(thenT) + "\nelse\n" + gsIndent(elseT)
}

// switch v := t.(type) on a decoded value: a match on the constructor
func (t *gjTr) typeSwitch(x *ast.TypeSwitchStmt, c gjCtx, next func(gjCtx) string) string {
	if x.Init != nil {
		t.fail(x, "type switch with an init statement")
		return "Panic"
	}
	bound := ""
	var ta *ast.TypeAssertExpr
	switch a := x.Assign.(type) {
	case *ast.AssignStmt:
		if len(a.Lhs) == 1 && len(a.Rhs) == 1 && a.Tok == token.DEFINE {
			bound = a.Lhs[0].(*ast.Ident).Name
			ta, _ = a.Rhs[0].(*ast.TypeAssertExpr)
		}
	case *ast.ExprStmt:
		ta, _ = a.X.(*ast.TypeAssertExpr)
	}
	if ta == nil || ta.Type != nil {
		t.fail(x, "type switch not understood")
		return "Panic"
	}
	var pre []string
	scrut, ts := t.expr(ta.X, c, &pre)
	if ts.k != "any" {
		t.fail(x, "type switch on a %s", ts.name())
		return "Panic"
	}
	type arm struct {
		con string
		ty  *gjT
	}
	arms := []arm{{"gj_any_nil", nil}, {"gj_any_bool", gjBool}, {"gj_any_float64", gjFloat}, {"gj_any_string", gjStr}, {"gj_any_int", gjInt}, {"gj_any_other", nil}}
	byType := map[string]int{"nil": 0, "bool": 1, "float64": 2, "string": 3, "int": 4}
	bodies := make([]*ast.CaseClause, len(arms))
	var deflt *ast.CaseClause
	c1 := c.deeper()
	c1.brk = nil
	for _, s := range x.Body.List {
		cc := s.(*ast.CaseClause)
		for _, b := range cc.Body {
			if bs, ok := b.(*ast.BranchStmt); ok && bs.Tok == token.FALLTHROUGH {
				t.fail(b, "fallthrough")
			}
		}
		if cc.List == nil {
			deflt = cc
			continue
		}
		for _, ty := range cc.List {
			i, ok := byType[t.src(ty)]
			if !ok {
				t.fail(cc, "a case of a type switch on a type that is not a decoded value: %s", t.src(ty))
				continue
			}
			if bodies[i] != nil {
				t.fail(cc, "duplicate case")
			}
			bodies[i] = cc
		}
	}
	back := func(c2 gjCtx) string { return next(gjRestrict(c2, c)) }
	var b strings.Builder
	b.WriteString(strings.Join(pre, "") + "match " + scrut + " with\n")
	for i, a := range arms {
		cc := bodies[i]
		if cc == nil {
			cc = deflt
		}
		pat := a.con
		ci := c1
		letT := ""
		single := cc != nil && cc != deflt && len(cc.List) == 1
		if a.ty != nil {
			if single && bound != "" {
				pat += " v_" + bound
				t.declare(cc, &ci, bound, a.ty, false)
				ci.vars[len(ci.vars)-1].local = true
			} else {
				pat += " _"
			}
		}
		if cc != nil && bound != "" && !(single && a.ty != nil) {
			// several types, nil alone, or default: the variable is the value itself
			t.declare(cc, &ci, bound, gjAny, false)
			ci.vars[len(ci.vars)-1].local = true
			letT = "let v_" + bound + " := " + scrut + " in\n"
		}
		var body string
		if cc != nil {
			body = letT + t.stmts(cc.Body, ci, back)
		} else {
			body = back(c1)
		}
		b.WriteString("| " + pat + " =>\n" + gsIndent(gsIndent(body)) + "\n")
	}
	b.WriteString("end")
	return b.String()
}

func (t *gjTr) outsTuple(res []string) string {
	parts := append([]string{}, res...)
	for _, o := range t.f.outs {
		parts = append(parts, "v_"+o.name)
	}
	return gjTupleOrUnit(parts)
}

func (t *gjTr) resultType() string {
	var tys []string
	for _, r := range t.f.results {
		tys = append(tys, r.coq())
	}
	for _, o := range t.f.outs {
		tys = append(tys, o.t.coq())
	}
	return gjTypeTupleOrUnit(tys)
}

func (t *gjTr) ret(x *ast.ReturnStmt, c gjCtx) string {
	if len(x.Results) == 1 {
		if ce, ok := x.Results[0].(*ast.CallExpr); ok {
			if text, res, resT, ok := t.callStmt(ce, &c); ok {
				if len(res) != len(t.f.results) {
					t.fail(x, "return of a call with %d values, the function has %d results", len(res), len(t.f.results))
					return "Panic"
				}
				for i := range res {
					if !resT[i].same(t.f.results[i]) {
						t.fail(x, "result %d: a %s where a %s is expected", i, resT[i].name(), t.f.results[i].name())
					}
				}
				return text + c.retv(t.outsTuple(res))
			}
		}
	}
	var pre []string
	var res []string
	if len(x.Results) != len(t.f.results) {
		t.fail(x, "return with %d values, the function has %d results", len(x.Results), len(t.f.results))
		return "Panic"
	}
	for i, r := range x.Results {
		a, ta := t.expr(r, c, &pre)
		a, ta = t.coerce(r, a, ta, t.f.results[i])
		if !ta.same(t.f.results[i]) {
			t.fail(r, "result %d: a %s where a %s is expected", i, ta.name(), t.f.results[i].name())
		}
		res = append(res, a)
	}
	return strings.Join(pre, "") + c.retv(t.outsTuple(res))
}

// ------------------------------------------------------------------ loops

// assigned: the variables of c (in order) that the nodes may change (an over-approximation).
func (t *gjTr) assigned(c gjCtx, nodes ...ast.Node) []gjVar {
	names := map[string]bool{}
	mark := func(e ast.Expr) {
		if r := gjRootOf(e); r != "" {
			names[r] = true
		}
	}
	for _, n := range nodes {
		if n == nil {
			continue
		}
		ast.Inspect(n, func(m ast.Node) bool {
			switch x := m.(type) {
			case *ast.AssignStmt:
				// := may assign a variable of its own block; variables of the context around a loop are
				// never in the block of a statement inside it, except through = / x[i] =
				if x.Tok != token.DEFINE {
					for _, l := range x.Lhs {
						mark(l)
					}
				}
			case *ast.IncDecStmt:
				mark(x.X)
			case *ast.CallExpr:
				if se, ok := x.Fun.(*ast.SelectorExpr); ok {
					if r := gjRootOf(se.X); r != "" {
						if v, ok := c.lookup(r); ok && v.t.k == "decoder" {
							names[r] = true
						}
					}
				}
				var g *gjFunc
				switch fn := x.Fun.(type) {
				case *ast.Ident:
					g = gjFuncs[fn.Name]
				case *ast.SelectorExpr:
					g = gjFuncs[fn.Sel.Name]
				}
				for i, a := range x.Args {
					if u, ok := a.(*ast.UnaryExpr); ok && u.Op == token.AND {
						mark(u.X)
					}
					if g != nil && i < len(g.params) {
						for _, o := range g.outs {
							if o.name == g.params[i].name {
								mark(a)
							}
						}
					}
				}
			}
			return true
		})
	}
	var out []gjVar
	for _, v := range c.vars {
		if names[v.name] {
			out = append(out, v)
		}
	}
	return out
}

func gjHasReturn(body *ast.BlockStmt) bool {
	has := false
	ast.Inspect(body, func(m ast.Node) bool {
		switch m.(type) {
		case *ast.ReturnStmt:
			has = true
		case *ast.FuncLit:
			return false
		}
		return true
	})
	return has
}

type gjLoop struct {
	t       *gjTr
	c       gjCtx // the context around the loop
	res     []gjVar
	hasRet  bool
	recMark string
	vtuple  string
	vtype   string
	resType string
	exit    string
	bodyCtx gjCtx
}

// newLoop prepares the translation of a loop: c is the context around it, c1 the context of its body
func (t *gjTr) newLoop(c, c1 gjCtx, body *ast.BlockStmt, nodes ...ast.Node) *gjLoop {
	l := &gjLoop{t: t, c: c}
	l.res = t.assigned(c, nodes...)
	l.hasRet = gjHasReturn(body)
	t.nrec++
	l.recMark = fmt.Sprintf("@REC%d@", t.nrec)
	l.vtuple = gjTupleOrUnit(gjVarNames(l.res))
	l.vtype = gjTypeTupleOrUnit(gjVarTypes(l.res))
	cb := c1
	cb.cont = func() string { return l.recMark }
	if l.hasRet {
		cb.retv = func(tp string) string { return "Ok (gj_ret " + tp + ")" }
		l.exit = "Ok (gj_fall " + l.vtuple + ")"
		l.resType = "(gj_flow " + t.resultType() + " " + l.vtype + ")"
	} else {
		l.exit = "Ok " + l.vtuple
		l.resType = l.vtype
	}
	cb.brk = func() string { return l.exit }
	l.bodyCtx = cb
	return l
}

// finish emits the Fixpoint and answers the text of the call site followed by the rest
func (l *gjLoop) finish(cIn gjCtx, head, structArg, matchHead, body string, firstArgs []string, recFirst []string, extra []gjVar, next func(gjCtx) string) string {
	t := l.t
	var ps []gjVar
	for _, v := range cIn.vars {
		if gsMentions(body, "v_"+v.name) {
			ps = append(ps, v)
		}
	}
	for _, r := range l.res {
		found := false
		for _, v := range ps {
			if v.name == r.name {
				found = true
			}
		}
		if !found {
			ps = append(ps, r)
		}
	}
	// variables introduced by the loop head itself (range variables) are bound by the Fixpoint
	var ps2 []gjVar
	for _, v := range ps {
		skip := false
		for _, e := range extra {
			if e.name == v.name {
				skip = true
			}
		}
		if !skip {
			ps2 = append(ps2, v)
		}
	}
	ps = ps2
	name := fmt.Sprintf("%s_loop%d", t.f.coq, len(t.loops)+1)
	var sig, recArgs, callArgs []string
	if gsMentions(body, "fuel'") {
		sig = append(sig, "(fuel' : nat)")
		recArgs = append(recArgs, "fuel'")
		callArgs = append(callArgs, "fuel'")
	}
	sig = append(sig, head)
	recArgs = append(recArgs, recFirst...)
	callArgs = append(callArgs, firstArgs...)
	for _, v := range ps {
		sig = append(sig, "(v_"+v.name+" : "+v.t.coq()+")")
		recArgs = append(recArgs, "v_"+v.name)
		callArgs = append(callArgs, "v_"+v.name)
	}
	body = strings.ReplaceAll(body, l.recMark, name+" "+strings.Join(recArgs, " "))
	def := "Fixpoint " + name + " " + strings.Join(sig, " ") + " {struct " + structArg + "} : outcome " + l.resType + " :=\n" +
		"  " + matchHead + "\n" + gsIndent(gsIndent(body)) + "\n  end.\n"
	t.loops = append(t.loops, def)
	call := name + " " + strings.Join(callArgs, " ")
	c := l.c
	if l.hasRet {
		tmp, r := t.tmp(), t.tmp()
		return "do " + tmp + " <- " + call + ";\nmatch " + tmp + " with\n| gj_fall " + l.vtuple + " =>\n" + gsIndent(next(c)) +
			"\n| gj_ret " + r + " => " + c.retv(r) + "\nend"
	}
	return "do " + l.vtuple + " <- " + call + ";\n" + next(c)
}

func (t *gjTr) forStmt(x *ast.ForStmt, c gjCtx, next func(gjCtx) string) string {
	c1 := c.deeper()
	initText := ""
	if x.Init != nil {
		txt, ok := t.simple(x.Init, &c1)
		if !ok {
			t.fail(x.Init, "loop init statement not understood")
		}
		initText = txt
	}
	if x.Cond == nil {
		t.fail(x, "a for loop without condition")
		return "Panic"
	}
	var nodes []ast.Node
	nodes = append(nodes, x.Body, x.Cond)
	if x.Post != nil {
		nodes = append(nodes, x.Post)
	}
	l := t.newLoop(c1, c1.deeper(), x.Body, nodes...)
	// the Fixpoint answers the variables of c1 (the init variables too); the rest sees those of c
	cb := l.bodyCtx
	post := func(c2 gjCtx) string {
		if x.Post == nil {
			return l.recMark
		}
		cp := gjRestrict(c2, c1)
		txt, ok := t.simple(x.Post, &cp)
		if !ok {
			t.fail(x.Post, "loop post statement not understood")
		}
		return txt + l.recMark
	}
	cb.cont = func() string { return post(cb) }
	cc := cb
	pre, ct := t.cond(x.Cond, &cc)
	iter := t.stmts(x.Body.List, cc, post)
	body := "| O => Panic\n| S k' =>\n" + gsIndent(pre+"if "+ct+" then\n"+gsIndent(iter)+"\nelse\n"+gsIndent(l.exit))
	rest := l.finish(c1, "(k : nat)", "k", "match k with", body, []string{"fuel'"}, []string{"k'"}, nil, func(c2 gjCtx) string { return next(gjRestrict(c2, c)) })
	return initText + rest
}

func (t *gjTr) rangeStmt(x *ast.RangeStmt, c gjCtx, next func(gjCtx) string) string {
	if x.Tok != token.DEFINE && (x.Key != nil || x.Value != nil) {
		t.fail(x, "range with = instead of :=")
		return "Panic"
	}
	var pre []string
	over, to := t.expr(x.X, c, &pre)
	var elemT *gjT
	list := over
	isMap := false
	switch to.k {
	case "list":
		elemT = to.elem
	case "map":
		elemT, isMap = to.elem, true
		list = "(gj_map_entries " + over + ")"
	default:
		t.fail(x, "range over a %s", to.name())
		return "Panic"
	}
	c1 := c.deeper()
	keyName, valName := "", ""
	if id, ok := x.Key.(*ast.Ident); ok && id.Name != "_" {
		keyName = id.Name
	}
	if x.Value != nil {
		if id, ok := x.Value.(*ast.Ident); ok && id.Name != "_" {
			valName = id.Name
		}
	}
	var extra []gjVar
	keyT := gjInt
	if isMap {
		keyT = gjStr
	}
	if keyName != "" {
		t.declare(x, &c1, keyName, keyT, false)
		c1.vars[len(c1.vars)-1].local = true
		extra = append(extra, c1.vars[len(c1.vars)-1])
	}
	if valName != "" {
		t.declare(x, &c1, valName, elemT, false)
		c1.vars[len(c1.vars)-1].local = true
		extra = append(extra, c1.vars[len(c1.vars)-1])
	}
	l := t.newLoop(c, c1.deeper(), x.Body, x.Body)
	cb := l.bodyCtx
	iter := t.stmts(x.Body.List, cb, func(gjCtx) string { return l.recMark })
	pat := "_"
	if valName != "" {
		pat = "v_" + valName
	}
	itemT := elemT.coq()
	first, rec := []string{list}, []string{"l'"}
	head := ""
	if isMap {
		kp := "_"
		if keyName != "" {
			kp = "v_" + keyName
		}
		pat = "(" + kp + ", " + pat + ")"
		itemT = "(bytes * " + elemT.coq() + ")"
		head = "(l : list " + itemT + ")"
	} else {
		head = "(l : list " + itemT + ")"
		if keyName != "" {
			head += " (v_" + keyName + " : Z)"
			first = append(first, "0")
			rec = append(rec, "(v_"+keyName+" + 1)")
		}
	}
	body := "| [] => " + l.exit + "\n| " + pat + " :: l' =>\n" + gsIndent(iter)
	return strings.Join(pre, "") + l.finish(c1, head, "l", "match l with", body, first, rec, extra, next)
}

// ------------------------------------------------------------------ functions

// does the body assign elements of the slice parameter name?
func gjWritesElements(body *ast.BlockStmt, name string) bool {
	mut := false
	ast.Inspect(body, func(m ast.Node) bool {
		switch x := m.(type) {
		case *ast.AssignStmt:
			for _, l := range x.Lhs {
				if ix, ok := l.(*ast.IndexExpr); ok && gjRootOf(ix) == name {
					mut = true
				}
			}
		case *ast.IncDecStmt:
			if ix, ok := x.X.(*ast.IndexExpr); ok && gjRootOf(ix) == name {
				mut = true
			}
		case *ast.CallExpr:
			var g *gjFunc
			if id, ok := x.Fun.(*ast.Ident); ok {
				g = gjFuncs[id.Name]
			}
			for i, a := range x.Args {
				if id, ok := a.(*ast.Ident); ok && id.Name == name {
					if g == nil || !g.done {
						if fid, ok := x.Fun.(*ast.Ident); !ok || fid.Name != "len" {
							mut = true // handed to something that is not understood
						}
					} else if i < len(g.params) {
						for _, o := range g.outs {
							if o.name == g.params[i].name {
								mut = true
							}
						}
					}
				}
			}
		}
		return true
	})
	return mut
}

func gjSignature(f *gjFunc) bool {
	fd := f.fd
	p := f.p
	bad := func(format string, a ...interface{}) bool {
		problem("internal/io json translation, function %s: %s", f.goName, fmt.Sprintf(format, a...))
		return false
	}
	if fd.Recv != nil {
		return bad("a method")
	}
	for _, fl := range fd.Type.Params.List {
		if len(fl.Names) == 0 {
			return bad("an argument without name")
		}
		for _, n := range fl.Names {
			ty := gjResolve(p, fl.Type, f.goName+"."+n.Name, f.root)
			if ty.k == "bad" {
				return bad("argument %s has a type that is not understood: %s", n.Name, ggSrc(p.fset, fl.Type))
			}
			f.params = append(f.params, gjVar{name: n.Name, t: ty})
			if ty.k == "list" && gjWritesElements(fd.Body, n.Name) {
				f.outs = append(f.outs, gjVar{name: n.Name, t: ty})
			}
			if ty.k == "map" && gjWritesElements(fd.Body, n.Name) {
				return bad("argument %s: a map that the function stores into", n.Name)
			}
		}
	}
	if fd.Type.Results != nil {
		i := 0
		for _, fl := range fd.Type.Results.List {
			if len(fl.Names) > 0 {
				return bad("named results")
			}
			ty := gjResolve(p, fl.Type, fmt.Sprintf("%s.result%d", f.goName, i), f.root)
			if ty.k == "bad" || ty.k == "reader" || ty.k == "decoder" || ty.k == "conf" {
				return bad("result type not understood: %s", ggSrc(p.fset, fl.Type))
			}
			f.results = append(f.results, ty)
			i++
		}
	}
	return true
}

func gjTranslate(f *gjFunc) {
	p := f.p
	t := &gjTr{p: p, f: f}
	c := gjCtx{retv: func(tp string) string { return "Ok " + tp }}
	c.vars = append(c.vars, f.params...)
	for _, v := range c.vars {
		if _, isFn := gjFuncs[v.name]; isFn {
			t.fail(f.fd, "argument %s shadows a function", v.name)
		}
	}
	body := t.stmts(f.fd.Body.List, c.deeper(), func(c2 gjCtx) string {
		if len(f.results) != 0 {
			t.fail(f.fd, "the function can fall off its end")
		}
		return "Ok " + t.outsTuple(nil)
	})
	var sig []string
	f.needsFuel = gsMentions(body, "fuel'")
	for _, l := range t.loops {
		if gsMentions(l, "fuel'") {
			f.needsFuel = true
		}
	}
	if f.needsFuel {
		sig = append(sig, "(fuel : nat)")
	}
	for _, v := range c.vars {
		sig = append(sig, "(v_"+v.name+" : "+v.t.coq()+")")
	}
	var b strings.Builder
	pk := gjPkg
	if f.root {
		pk = "qframe.go"
	}
	fmt.Fprintf(&b, "(* %s\n%s *)\n", pk, gsSource(p, f.fd))
	for _, l := range t.loops {
		b.WriteString(l)
	}
	if f.needsFuel {
		fmt.Fprintf(&b, "Definition %s %s : outcome %s :=\n  match fuel with\n  | O => Panic\n  | S fuel' =>\n%s\n  end.\n",
			f.coq, strings.Join(sig, " "), t.resultType(), gsIndent(gsIndent(body)))
	} else {
		fmt.Fprintf(&b, "Definition %s %s : outcome %s :=\n%s.\n", f.coq, strings.Join(sig, " "), t.resultType(), gsIndent(body))
	}
	f.text = b.String()
	f.ok = !t.bad
}

func genIoJson() string {
	p := loadPkg(gjPkg)
	root := loadPkg(gjRootPkg)
	gjFuncs = map[string]*gjFunc{}
	if _, ok := p.files["json.go"]; !ok {
		problem("internal/io json translation: file json.go not found")
	}
	gjLoadTypes(p)
	if d, ok := gjTypeDecls["JSONRecords"]; !ok || !gjResolve(p, d, "JSONRecords", false).same(gjList(gjMap(gjAny))) {
		problem("internal/io json translation: type JSONRecords is not []map[string]interface{} any more")
	}
	var order []*gjFunc
	for _, n := range gjSpecs {
		f := &gjFunc{goName: strings.TrimPrefix(n, "root:"), root: strings.HasPrefix(n, "root:"), p: p}
		if f.root {
			f.p = root
		}
		f.coq = "gj_" + f.goName
		gjFuncs[f.goName] = f
		order = append(order, f)
	}
	// every function of json.go must be among the translated ones
	if jf, ok := p.files["json.go"]; ok {
		for _, d := range jf.Decls {
			if fd, ok := d.(*ast.FuncDecl); ok {
				name := fd.Name.Name
				if fd.Recv != nil && len(fd.Recv.List) == 1 {
					name = recvName(fd.Recv.List[0].Type) + "." + name
				}
				if g, ok := gjFuncs[name]; !ok || g.root {
					problem("internal/io json translation: function %s of json.go is not among the translated functions (gjSpecs)", name)
				}
			}
		}
	}
	golden := ""
	if fl := flag.Lookup("golden"); fl != nil && fl.Value.String() != "" {
		if gb, err := os.ReadFile(filepath.Join(fl.Value.String(), "GenIoJson.v")); err == nil {
			golden = string(gb)
		}
	}
	block := func(b *strings.Builder, name, text string, ok bool) {
		if !ok {
			old, found := gfGoldenBlock(golden, name)
			if !found {
				return
			}
			text = "(* FALLBACK " + name + ": not derivable from the current source; text of the last validated tree *)\n" + old
		}
		fmt.Fprintf(b, "(* BEGIN %s *)\n%s(* END %s *)\n\n", name, text, name)
	}
	var b strings.Builder
	b.WriteString(gjPreamble1)
	for _, f := range order {
		fd, ok := f.p.funcs[f.goName]
		if !ok || fd.Body == nil {
			problem("internal/io json translation: function %s not found", f.goName)
			f.done = true
			block(&b, f.coq, "", false)
			continue
		}
		f.fd = fd
		if gjSignature(f) {
			gjTranslate(f)
		}
		f.done = true
		block(&b, f.coq, f.text, f.ok)
	}
	b.WriteString("End GenIoJson.\n")
	return b.String()
}
