package main

// Translation of the filter clause trees of filter.go (package qframe), of QFrame.Filter (qframe.go) and of
// internal/index/index.go into Gallina (coq/Gen/GenFilterClause.v, tie T1 for the filter clauses).
//
// The functions listed in gcSpecs are translated statement by statement into definitions gc_<name>.
// coq/Proofs/GenFilterClauseProofs.v proves every generated definition equal to the hand-written model of
// coq/Model/Filter.v (frame_filter / clause_filter / and_loop / or_loop / or_frames / not_merge / index_filter),
// so that an edit of filter.go or index.go changes the generated text and breaks a named theorem
// T1_filter_<name> of coq/Properties/T1Filter.v, while the theorems of C02 / C10 / C17 keep talking about the model.
//
// THE SCHEME (anything that does not fit is reported through problem(...); the block then keeps the text of the
// golden copy, marked FALLBACK, so that the development still builds — the exit status says the tie is broken).
//
//	boundary    The column level is NOT translated: qf.filter(filters...) (qframe.go, with Column.Filter below it)
//	            is the section variable  qf_filter : F -> list L -> outcome F  (model counterpart: filter_leaves).
//	            The signature of QFrame.filter is text-matched.  It must not retain the slice it is given
//	            (OrClause.filter reuses the backing array after filters = filters[:0]).
//	frames      QFrame is the abstract type F; the translated code touches a frame only through
//	              qf.Err            -> qf_Err qf : option E          qf.index         -> qf_index qf : list A
//	              qf.withErr(e)     -> qf_withErr qf e               qf.withIndex(ix) -> qf_withIndex qf ix
//	            (section variables; the bodies of withErr / withIndex are text-matched).
//	            *QFrame -> option F (nil = None).  &x -> Some x, *p and p.f -> gc_deref p (Panic for nil).  This
//	            value reading of pointers is exact because no pointee is ever written: the translator checks
//	            that a variable whose address is taken is never assigned and rejects stores through pointers.
//	errors      error -> option E (nil = None), E abstract; qerrors.New(op, reason) -> Some (new_error op reason)
//	            with the two string literals as byte strings; e != nil -> negb (gc_isnil e).
//	leaves      Filter and filter.Filter (type Filter filter.Filter, text-matched) are the abstract type L; the
//	            conversions between them are the identity; the only field touched is Inverse:
//	              f.Inverse -> l_Inverse f,   f.Inverse = e -> let f := l_set_Inverse f e.
//	row ids     The elements of index.Int are the abstract type A (id0 its zero value, eqb its ==); the
//	            translator type-checks that an id is never used as a number.  Exception: in the functions listed
//	            in gcNumericIds (NewAscending) index.Int is list Z and uint32(e) is the wrap gc_u32.
//	integers    Go int -> Z, exact (positions, lengths, counters; overflow of int is outside the translation as
//	            it is outside the model); x > y is (y <? x); integer.Max -> Z.max (body text-matched); len(s) and
//	            s.Len() (body text-matched) -> Z.of_nat (length s).
//	slices      []T -> list T; nil and the empty slice are both [].  make(T, n [, c]) -> gc_make zero n c (Panic
//	            for a negative length or c < n), make(T, 0, c) -> gc_make0 c (Panic for negative c), make(T, 0)
//	            -> []; s[i] -> gc_index s i, s[i] = v -> gc_update s i v (Panic outside the range);
//	            append(s, x) -> s ++ [x]; s[:0] -> []; copy(d, s) -> let d := gc_copy d s; f(s...) passes s.
//	interface   FilterClause is the closed sum of the types of the package that have the methods filter and
//	            Err: Inductive gc_FilterClause with one constructor gc_mk_<T> per implementer whose arguments are
//	            the fields of the struct (type T comboClause is resolved; Filter is the opaque L).  A clause VALUE
//	            is a finite tree (a Go program can build a cyclic one by writing into the slice it handed to
//	            And / Or afterwards: outside the translation).  A composite literal T{f: e} is the constructor
//	            with the missing fields zero.  The receiver of a method of T is passed as its fields (c_<field>).
//	            x.m(..) with x of interface type is dynamic dispatch: Fixpoint gc_FilterClause_<m> by structural
//	            recursion over the clause, one branch per implementer calling gc_<T>_<m>.  Inside the methods
//	            of the group being defined the dispatcher is the first argument  self  (kept outside the loop
//	            fixpoints so that the termination checker sees through them); the groups are defined in the
//	            order Err, filter.  if v, ok := x.(Filter); ok { A } else { B } -> match x with gc_mk_Filter v => A
//	            | _ => B end.
//	results     every function answers outcome T (Panic = Go panic).  There is NO fuel: all loops are range loops
//	            over a slice evaluated once and all recursion is structural over the clause value.
//	statements  x := e; a, b := e1, e2; var x T; x = e; x++; x.Inverse = e; s[i] = e; copy(..) -> let / do.
//	conditions  a && b, a || b are if-then-else (Go's short circuit); when b can panic the whole condition is
//	            bound first:  do t <- (if a then (..; Ok b) else Ok false).
//	if          no return inside: do (assigned outer variables) <- (if c then ..; Ok (..) else ..; Ok (..)); rest
//	            otherwise the rest of the block is continued inside the branches that fall through.
//	range       for i, v := range X { body }: Definition gc_f_loopN [self] := fix loop (l : list T) [(v_i : Z)]
//	            (variables it mentions) {struct l}, numbered in order of completion; [] => EXIT, v :: l' => body;
//	            loop l' [(v_i + 1)] (current values).  A loop without return answers the outer variables it
//	            assigns (EXIT = Ok (those)).  A loop with a return inside (only at the top level of a function)
//	            also contains the statements that follow it (EXIT = the rest of the function).  When the value
//	            variable is used the body must not store into X.
//	rejected    for with a condition, break, continue, goto, labels, switch, defer, closures, maps, stores
//	            through pointers, assignment to an inner variable that shadows an outer one, everything else.

import (
	"bytes"
	"flag"
	"fmt"
	"go/ast"
	"go/printer"
	"go/token"
	"os"
	"path/filepath"
	"strings"
)

const gcRoot = "." // package qframe
const gcIndexPkg = "internal/index"

type gcSpec struct {
	pkg, fn string
}

// in emission order: index, (the Inductive), free functions without dispatch, the Err group, the filter group,
// the functions that use the dispatchers
var gcIndexSpecs = []gcSpec{{gcIndexPkg, "NewBool"}, {gcIndexPkg, "NewAscending"}, {gcIndexPkg, "Int.Filter"}, {gcIndexPkg, "Int.Copy"}}
var gcEarlySpecs = []gcSpec{{gcRoot, "orFrames"}}
var gcGroups = []string{"Err", "filter"}
var gcLateSpecs = []gcSpec{{gcRoot, "anyFilterErr"}, {gcRoot, "And"}, {gcRoot, "Or"}, {gcRoot, "Not"}, {gcRoot, "Null"}, {gcRoot, "QFrame.Filter"}}

var gcNumericIds = map[string]bool{"NewAscending": true}

// the text the fixed vocabulary stands for (printed by go/printer)
var gcVocabulary = []struct{ pkg, fn, text string }{
	{gcRoot, "QFrame.withErr", "func (qf QFrame) withErr(err error) QFrame {\n\treturn QFrame{Err: err, columns: qf.columns, columnsByName: qf.columnsByName, index: qf.index}\n}"},
	{gcRoot, "QFrame.withIndex", "func (qf QFrame) withIndex(ix index.Int) QFrame {\n\treturn QFrame{Err: qf.Err, columns: qf.columns, columnsByName: qf.columnsByName, index: ix}\n}"},
	{gcRoot, "QFrame.filter", "func (qf QFrame) filter(filters ...filter.Filter) QFrame"},
	{gcIndexPkg, "Int.Len", "func (ix Int) Len() int {\n\treturn len(ix)\n}"},
	{gcIndexPkg, "Bool.Len", "func (ix Bool) Len() int {\n\treturn len(ix)\n}"},
	{"internal/math/integer", "Max", "func Max(x, y int) int {\n\tif x > y {\n\t\treturn x\n\t}\n\treturn y\n}"},
	{"qerrors", "New", "func New(operation, reason string, params ...interface{}) Error"},
}

const gcPreamble = `(* GENERATED by tools/qf2coq (filterclause.go) from filter.go, qframe.go (QFrame.Filter) and
   internal/index/index.go of tobgu/qframe — do not edit.
   One definition gc_<function> per translated Go function, one Definition gc_<function>_loopN (a fix over the
   ranged list) per loop, Inductive gc_FilterClause for the interface FilterClause and one structural Fixpoint
   gc_FilterClause_<method> per interface method; the scheme is described at the top of
   tools/qf2coq/filterclause.go.  F = QFrame, A = row id, E = error value, L = filter.Filter are abstract; the
   column level qf.filter(filters...) is the variable qf_filter.  Every function answers outcome T (Panic = Go
   panic); there is no fuel: every loop ranges over a list and the recursion over clauses is structural. *)
From QF Require Import Base.Prelude.
Local Open Scope Z_scope.

(* uint32(e) *)
Definition gc_u32 (x : Z) : Z := x mod 4294967296.
(* make([]T, n, c), make([]T, 0, c), s[i], s[i] = v, copy(d, s) *)
Definition gc_make {T : Type} (zero : T) (n c : Z) : outcome (list T) :=
  if (n <? 0) || (c <? n) then Panic else Ok (repeat zero (Z.to_nat n)).
Definition gc_make0 {T : Type} (c : Z) : outcome (list T) :=
  if c <? 0 then Panic else Ok [].
Definition gc_index {T : Type} (s : list T) (i : Z) : outcome T :=
  if i <? 0 then Panic else idx s (Z.to_nat i).
Definition gc_update {T : Type} (s : list T) (i : Z) (v : T) : outcome (list T) :=
  if i <? 0 then Panic else do _ <- idx s (Z.to_nat i); Ok (set_nth s (Z.to_nat i) v).
Definition gc_copy {T : Type} (d s : list T) : list T :=
  firstn (length d) s ++ skipn (length s) d.
(* x == nil for an error or a pointer, *p *)
Definition gc_isnil {T : Type} (p : option T) : bool := match p with None => true | Some _ => false end.
Definition gc_deref {T : Type} (p : option T) : outcome T := match p with Some x => Ok x | None => Panic end.

Section GenFilterClause.
Context {A E L F : Type}.
Variable id0 : A.                                   (* the zero value of a row id *)
Variable eqb : A -> A -> bool.                      (* == on row ids *)
Variable new_error : bytes -> bytes -> E.           (* qerrors.New(operation, reason) *)
Variable qf_Err : F -> option E.                    (* qf.Err *)
Variable qf_index : F -> list A.                    (* qf.index *)
Variable qf_withErr : F -> option E -> F.           (* qf.withErr(err) *)
Variable qf_withIndex : F -> list A -> F.           (* qf.withIndex(ix) *)
Variable qf_filter : F -> list L -> outcome F.      (* qf.filter(filters...): the column level *)
Variable l_Inverse : L -> bool.                     (* f.Inverse *)
Variable l_set_Inverse : L -> bool -> L.            (* f.Inverse = b *)

`

// ------------------------------------------------------------------ types

type gcT struct {
	k     string // int u32 bool id ids nums bools frame pframe err leaf leaves clause clauses string struct nil unit
	sname string // struct: the implementer
}

func gcK(k string) *gcT { return &gcT{k: k} }

var gcBad = gcK("bad")

func (t *gcT) same(u *gcT) bool { return t.k == u.k && t.sname == u.sname }

func (t *gcT) coq() string {
	switch t.k {
	case "int", "u32":
		return "Z"
	case "bool":
		return "bool"
	case "id":
		return "A"
	case "ids":
		return "(list A)"
	case "nums":
		return "(list Z)"
	case "bools":
		return "(list bool)"
	case "frame":
		return "F"
	case "pframe":
		return "(option F)"
	case "err":
		return "(option E)"
	case "leaf":
		return "L"
	case "leaves":
		return "(list L)"
	case "clause", "struct":
		return "gc_FilterClause"
	case "clauses":
		return "(list gc_FilterClause)"
	case "string":
		return "bytes"
	case "unit":
		return "unit"
	}
	return "?"
}

// element type and zero of a slice type
func (t *gcT) elem() *gcT {
	switch t.k {
	case "ids":
		return gcK("id")
	case "nums":
		return gcK("u32")
	case "bools":
		return gcK("bool")
	case "leaves":
		return gcK("leaf")
	case "clauses":
		return gcK("clause")
	}
	return nil
}

func (t *gcT) zero() (string, bool) {
	switch t.k {
	case "int", "u32":
		return "0", true
	case "bool":
		return "false", true
	case "id":
		return "id0", true
	case "ids", "nums", "bools", "leaves", "clauses":
		return "[]", true
	case "pframe", "err":
		return "None", true
	}
	return "", false
}

type gcField struct {
	name string
	ty   *gcT
}

type gcImpl struct {
	name   string
	opaque bool // Filter: one argument of type L
	fields []gcField
}

var gcImpls []*gcImpl

func gcImplOf(name string) *gcImpl {
	for _, im := range gcImpls {
		if im.name == name {
			return im
		}
	}
	return nil
}

func gcSrc(fset *token.FileSet, n ast.Node) string {
	var b bytes.Buffer
	printer.Fprint(&b, fset, n)
	return b.String()
}

// gcResolve maps a Go type expression to a translation type
func gcResolve(pkg string, numeric bool, src string) *gcT {
	if pkg == gcIndexPkg {
		switch src {
		case "Int":
			if numeric {
				return gcK("nums")
			}
			return gcK("ids")
		case "Bool":
			return gcK("bools")
		case "int":
			return gcK("int")
		case "uint32":
			if numeric {
				return gcK("u32")
			}
			return gcK("id")
		case "bool":
			return gcK("bool")
		}
		return gcBad
	}
	switch src {
	case "QFrame":
		return gcK("frame")
	case "*QFrame":
		return gcK("pframe")
	case "error":
		return gcK("err")
	case "FilterClause":
		return gcK("clause")
	case "[]FilterClause", "...FilterClause":
		return gcK("clauses")
	case "Filter", "filter.Filter":
		return gcK("leaf")
	case "[]filter.Filter", "...filter.Filter":
		return gcK("leaves")
	case "index.Int":
		return gcK("ids")
	case "int":
		return gcK("int")
	case "bool":
		return gcK("bool")
	case "string":
		return gcK("string")
	}
	if gcImplOf(src) != nil {
		return &gcT{k: "struct", sname: src}
	}
	return gcBad
}

// gcLoadImpls finds the implementers of FilterClause (types with methods filter and Err) in source order and
// resolves their fields.
func gcLoadImpls(p *pkgInfo) bool {
	gcImpls = nil
	okAll := true
	f, found := p.files["filter.go"]
	if !found {
		problem("filter clause translation: filter.go not found")
		return false
	}
	decls := map[string]ast.Expr{}
	var order []string
	for _, d := range f.Decls {
		gd, ok := d.(*ast.GenDecl)
		if !ok || gd.Tok != token.TYPE {
			continue
		}
		for _, s := range gd.Specs {
			ts := s.(*ast.TypeSpec)
			decls[ts.Name.Name] = ts.Type
			order = append(order, ts.Name.Name)
		}
	}
	if it, ok := decls["FilterClause"].(*ast.InterfaceType); !ok || gcSrc(p.fset, it) != "interface {\n\tfmt.Stringer\n\tfilter(qf QFrame) QFrame\n\tErr() error\n}" {
		problem("filter clause translation: the interface FilterClause is not the one the translation stands for (fmt.Stringer, filter(qf QFrame) QFrame, Err() error)")
		okAll = false
	}
	var names []string
	for _, n := range order {
		if p.funcs[n+".filter"] != nil && p.funcs[n+".Err"] != nil {
			names = append(names, n)
			gcImpls = append(gcImpls, &gcImpl{name: n})
		}
	}
	for _, im := range gcImpls {
		e := decls[im.name]
		if id, ok := e.(*ast.Ident); ok { // type T comboClause
			if e2, ok := decls[id.Name]; ok {
				e = e2
			}
		}
		switch t := e.(type) {
		case *ast.StructType:
			for _, fl := range t.Fields.List {
				ty := gcResolve(gcRoot, false, gcSrc(p.fset, fl.Type))
				if ty.k == "bad" || len(fl.Names) == 0 {
					problem("filter clause translation: field of %s has a type outside the scheme: %s", im.name, gcSrc(p.fset, fl.Type))
					okAll = false
					continue
				}
				for _, n := range fl.Names {
					im.fields = append(im.fields, gcField{n.Name, ty})
				}
			}
		case *ast.SelectorExpr:
			if gcSrc(p.fset, t) == "filter.Filter" {
				im.opaque = true
			} else {
				problem("filter clause translation: implementer %s has a type outside the scheme", im.name)
				okAll = false
			}
		default:
			problem("filter clause translation: implementer %s has a type outside the scheme", im.name)
			okAll = false
		}
	}
	_ = names
	return okAll
}

func gcInductive() string {
	var b strings.Builder
	b.WriteString("(* the implementers of FilterClause (types with the methods filter and Err), in source order *)\n")
	b.WriteString("Inductive gc_FilterClause : Type :=\n")
	for _, im := range gcImpls {
		fmt.Fprintf(&b, "| gc_mk_%s", im.name)
		if im.opaque {
			b.WriteString(" (x : L)")
		}
		for _, f := range im.fields {
			fmt.Fprintf(&b, " (%s : %s)", f.name, f.ty.coq())
		}
		b.WriteString("\n")
	}
	s := b.String()
	return strings.TrimRight(s, "\n") + ".\n"
}

// ------------------------------------------------------------------ translation state

type gcVar struct {
	name string // Go name
	coq  string // Coq name (unused for a struct receiver, whose fields are <name>_<field>)
	ty   *gcT
}

type gcFunc struct {
	spec      gcSpec
	short     string // Go name without the receiver
	fd        *ast.FuncDecl
	coq       string
	recv      *gcVar
	params    []gcVar
	res       *gcT
	group     string // "Err" / "filter" for the methods of the implementers
	impl      *gcImpl
	numeric   bool
	needsSelf bool
	text      string
	ok, done  bool
}

var gcFuncs map[string]*gcFunc // by "pkg:Name"

type gcCtx struct {
	vars []gcVar
	top  bool // the continuation of this block is the tail of the function
}

type gcTr struct {
	p        *pkgInfo
	f        *gcFunc
	bad      bool
	ntmp     int
	loops    []string
	nloops   int
	usesSelf bool
	addrOf   map[string]bool
}

func (t *gcTr) fail(n ast.Node, format string, a ...interface{}) {
	if !t.bad {
		pos := ""
		if n != nil {
			pos = t.p.fset.Position(n.Pos()).String()
			pos = strings.TrimPrefix(pos, repo+"/") + ": "
		}
		problem("filter clause translation of %s: %s%s", t.f.spec.fn, pos, fmt.Sprintf(format, a...))
	}
	t.bad = true
}

func (t *gcTr) src(n ast.Node) string { return gcSrc(t.p.fset, n) }

func (t *gcTr) tmp() string {
	t.ntmp++
	return fmt.Sprintf("t%d", t.ntmp)
}

func (c gcCtx) lookup(name string) (gcVar, bool) {
	for i := len(c.vars) - 1; i >= 0; i-- {
		if c.vars[i].name == name {
			return c.vars[i], true
		}
	}
	return gcVar{}, false
}

func gcTuple(parts []string) string {
	if len(parts) == 0 {
		return "tt"
	}
	if len(parts) == 1 {
		return parts[0]
	}
	return "(" + strings.Join(parts, ", ") + ")"
}

func gcTypeTuple(parts []string) string {
	if len(parts) == 0 {
		return "unit"
	}
	if len(parts) == 1 {
		return parts[0]
	}
	return "(" + strings.Join(parts, " * ") + ")"
}

func (t *gcTr) resolve(e ast.Expr) *gcT {
	ty := gcResolve(t.f.spec.pkg, t.f.numeric, t.src(e))
	if ty.k == "bad" {
		t.fail(e, "type outside the scheme: %s", t.src(e))
	}
	return ty
}

// coerce checks that a value of type have can stand where want is expected (nil, struct -> clause)
func (t *gcTr) coerce(n ast.Node, text string, have, want *gcT) string {
	if have.k == "bad" || want.k == "bad" {
		return text
	}
	if have.same(want) {
		return text
	}
	if have.k == "nil" && (want.k == "err" || want.k == "pframe") {
		return "None"
	}
	if have.k == "struct" && want.k == "clause" {
		return text
	}
	if have.k == "int" && want.k == "u32" && strings.Trim(text, "0123456789") == "" { // an untyped constant
		return text
	}
	t.fail(n, "a value of type %s%s stands where %s%s is expected: %s", have.k, have.sname, want.k, want.sname, t.src(n))
	return text
}

// frameOf gives the text of a frame for an expression of type frame or pframe (dereferenced)
func (t *gcTr) frameOf(e ast.Expr, c gcCtx, pre *[]string) (string, bool) {
	x, ty := t.expr(e, c, pre)
	switch ty.k {
	case "frame":
		return x, true
	case "pframe":
		v := t.tmp()
		*pre = append(*pre, fmt.Sprintf("do %s <- gc_deref %s;", v, x))
		return v, true
	}
	return x, false
}

func (t *gcTr) callText(g *gcFunc, n ast.Node, recvArgs []string, args []string) string {
	if !g.done || !g.ok && g.text == "" {
		t.fail(n, "call of %s, which is not translated before this function", g.spec.fn)
	}
	parts := []string{g.coq}
	if g.needsSelf {
		if g.group == t.f.group && g.group != "" {
			parts = append(parts, "self")
			t.usesSelf = true
		} else {
			parts = append(parts, "gc_FilterClause_"+g.group)
		}
	}
	parts = append(parts, recvArgs...)
	parts = append(parts, args...)
	return strings.Join(parts, " ")
}

func (t *gcTr) args(g *gcFunc, ce *ast.CallExpr, c gcCtx, pre *[]string) []string {
	var out []string
	if len(ce.Args) != len(g.params) {
		t.fail(ce, "call of %s with %d arguments (it has %d parameters)", g.spec.fn, len(ce.Args), len(g.params))
		return out
	}
	variadic := false
	if n := len(g.fd.Type.Params.List); n > 0 {
		_, variadic = g.fd.Type.Params.List[n-1].Type.(*ast.Ellipsis)
	}
	if variadic != ce.Ellipsis.IsValid() {
		t.fail(ce, "a variadic parameter must be passed as s...")
	}
	for i, a := range ce.Args {
		x, ty := t.expr(a, c, pre)
		out = append(out, t.coerce(a, x, ty, g.params[i].ty))
	}
	return out
}

// ------------------------------------------------------------------ expressions

func (t *gcTr) expr(e ast.Expr, c gcCtx, pre *[]string) (string, *gcT) {
	switch x := e.(type) {
	case *ast.ParenExpr:
		return t.expr(x.X, c, pre)
	case *ast.BasicLit:
		switch x.Kind {
		case token.INT:
			if strings.Trim(x.Value, "0123456789") == "" {
				return x.Value, gcK("int")
			}
		case token.STRING:
			if len(x.Value) >= 2 && (x.Value[0] == '"' || x.Value[0] == '`') && !strings.Contains(x.Value, "\\") {
				return coqBytes(x.Value[1 : len(x.Value)-1]), gcK("string")
			}
		}
		t.fail(e, "literal outside the scheme: %s", x.Value)
		return "0", gcBad
	case *ast.Ident:
		switch x.Name {
		case "nil":
			return "None", gcK("nil")
		case "true", "false":
			if _, shadowed := c.lookup(x.Name); !shadowed {
				return x.Name, gcK("bool")
			}
		}
		v, ok := c.lookup(x.Name)
		if !ok {
			t.fail(e, "unknown identifier %s", x.Name)
			return "0", gcBad
		}
		if v.ty.k == "struct" && v.coq == "" {
			t.fail(e, "the receiver %s is used as a value", x.Name)
			return "0", gcBad
		}
		return v.coq, v.ty
	case *ast.SelectorExpr:
		if id, ok := x.X.(*ast.Ident); ok {
			if v, ok := c.lookup(id.Name); ok && v.ty.k == "struct" && v.coq == "" {
				for _, f := range gcImplOf(v.ty.sname).fields {
					if f.name == x.Sel.Name {
						return v.name + "_" + f.name, f.ty
					}
				}
				t.fail(e, "unknown field %s", t.src(e))
				return "0", gcBad
			}
		}
		var pre2 []string
		if fr, ok := t.frameOf(x.X, c, &pre2); ok {
			*pre = append(*pre, pre2...)
			switch x.Sel.Name {
			case "Err":
				return "(qf_Err " + fr + ")", gcK("err")
			case "index":
				return "(qf_index " + fr + ")", gcK("ids")
			}
			t.fail(e, "field of QFrame outside the vocabulary: %s", x.Sel.Name)
			return "0", gcBad
		}
		y, ty := t.expr(x.X, c, pre)
		if ty.k == "leaf" && x.Sel.Name == "Inverse" {
			return "(l_Inverse " + y + ")", gcK("bool")
		}
		t.fail(e, "selector outside the scheme: %s", t.src(e))
		return "0", gcBad
	case *ast.UnaryExpr:
		switch x.Op {
		case token.NOT:
			y, ty := t.expr(x.X, c, pre)
			t.coerce(x.X, y, ty, gcK("bool"))
			return "(negb " + y + ")", gcK("bool")
		case token.AND:
			id, ok := x.X.(*ast.Ident)
			if !ok {
				t.fail(e, "& of something that is not a variable")
				return "None", gcBad
			}
			y, ty := t.expr(id, c, pre)
			t.coerce(x.X, y, ty, gcK("frame"))
			t.addrOf[id.Name] = true
			return "(Some " + y + ")", gcK("pframe")
		}
	case *ast.StarExpr:
		y, ty := t.expr(x.X, c, pre)
		t.coerce(x.X, y, ty, gcK("pframe"))
		v := t.tmp()
		*pre = append(*pre, fmt.Sprintf("do %s <- gc_deref %s;", v, y))
		return v, gcK("frame")
	case *ast.IndexExpr:
		s, ty := t.expr(x.X, c, pre)
		i, ti := t.expr(x.Index, c, pre)
		t.coerce(x.Index, i, ti, gcK("int"))
		el := ty.elem()
		if el == nil {
			t.fail(e, "index into something that is not a slice: %s", t.src(e))
			return "0", gcBad
		}
		v := t.tmp()
		*pre = append(*pre, fmt.Sprintf("do %s <- gc_index %s %s;", v, s, i))
		return v, el
	case *ast.SliceExpr:
		if x.Low == nil && x.High != nil && t.src(x.High) == "0" && x.Max == nil {
			_, ty := t.expr(x.X, c, pre)
			if ty.elem() != nil {
				return "[]", ty
			}
		}
		t.fail(e, "slice expression outside the scheme: %s", t.src(e))
		return "[]", gcBad
	case *ast.CompositeLit:
		im := gcImplOf(t.src(x.Type))
		if im == nil || im.opaque {
			t.fail(e, "composite literal outside the scheme: %s", t.src(e))
			return "0", gcBad
		}
		vals := map[string]string{}
		for _, el := range x.Elts {
			kv, ok := el.(*ast.KeyValueExpr)
			if !ok {
				t.fail(el, "composite literal without field names")
				continue
			}
			name := t.src(kv.Key)
			found := false
			for _, f := range im.fields {
				if f.name == name {
					found = true
					y, ty := t.expr(kv.Value, c, pre)
					vals[name] = t.coerce(kv.Value, y, ty, f.ty)
				}
			}
			if !found {
				t.fail(el, "unknown field %s", name)
			}
		}
		parts := []string{"gc_mk_" + im.name}
		for _, f := range im.fields {
			if v, ok := vals[f.name]; ok {
				parts = append(parts, v)
			} else if z, ok := f.ty.zero(); ok {
				parts = append(parts, z)
			} else {
				t.fail(e, "field %s without a value has no zero in the scheme", f.name)
			}
		}
		if len(parts) == 1 {
			return parts[0], &gcT{k: "struct", sname: im.name}
		}
		return "(" + strings.Join(parts, " ") + ")", &gcT{k: "struct", sname: im.name}
	case *ast.BinaryExpr:
		return t.binary(x, c, pre)
	case *ast.CallExpr:
		return t.call(x, c, pre)
	}
	t.fail(e, "expression outside the scheme: %s", t.src(e))
	return "0", gcBad
}

func (t *gcTr) binary(x *ast.BinaryExpr, c gcCtx, pre *[]string) (string, *gcT) {
	if x.Op == token.LAND || x.Op == token.LOR {
		a, ta := t.expr(x.X, c, pre)
		t.coerce(x.X, a, ta, gcK("bool"))
		var preB []string
		b, tb := t.expr(x.Y, c, &preB)
		t.coerce(x.Y, b, tb, gcK("bool"))
		if len(preB) == 0 {
			if x.Op == token.LAND {
				return fmt.Sprintf("(if %s then %s else false)", a, b), gcK("bool")
			}
			return fmt.Sprintf("(if %s then true else %s)", a, b), gcK("bool")
		}
		v := t.tmp()
		right := "(" + strings.Join(preB, " ") + " Ok " + b + ")"
		if x.Op == token.LAND {
			*pre = append(*pre, fmt.Sprintf("do %s <- (if %s then %s else Ok false);", v, a, right))
		} else {
			*pre = append(*pre, fmt.Sprintf("do %s <- (if %s then Ok true else %s);", v, a, right))
		}
		return v, gcK("bool")
	}
	a, ta := t.expr(x.X, c, pre)
	b, tb := t.expr(x.Y, c, pre)
	if ta.k == "bad" || tb.k == "bad" {
		return "0", gcBad
	}
	isNum := func(k string) bool { return k == "int" }
	switch x.Op {
	case token.ADD, token.SUB:
		if isNum(ta.k) && isNum(tb.k) {
			op := "+"
			if x.Op == token.SUB {
				op = "-"
			}
			return fmt.Sprintf("(%s %s %s)", a, op, b), gcK("int")
		}
	case token.LSS, token.LEQ, token.GTR, token.GEQ:
		if isNum(ta.k) && isNum(tb.k) {
			switch x.Op {
			case token.LSS:
				return fmt.Sprintf("(%s <? %s)", a, b), gcK("bool")
			case token.LEQ:
				return fmt.Sprintf("(%s <=? %s)", a, b), gcK("bool")
			case token.GTR:
				return fmt.Sprintf("(%s <? %s)", b, a), gcK("bool")
			default:
				return fmt.Sprintf("(%s <=? %s)", b, a), gcK("bool")
			}
		}
	case token.EQL, token.NEQ:
		text := ""
		switch {
		case tb.k == "nil" && (ta.k == "err" || ta.k == "pframe"):
			text = "(gc_isnil " + a + ")"
		case ta.k == "nil" && (tb.k == "err" || tb.k == "pframe"):
			text = "(gc_isnil " + b + ")"
		case ta.k == "id" && tb.k == "id":
			text = fmt.Sprintf("(eqb %s %s)", a, b)
		case isNum(ta.k) && isNum(tb.k):
			text = fmt.Sprintf("(%s =? %s)", a, b)
		case ta.k == "bool" && tb.k == "bool":
			text = fmt.Sprintf("(Bool.eqb %s %s)", a, b)
		}
		if text != "" {
			if x.Op == token.NEQ {
				text = "(negb " + text + ")"
			}
			return text, gcK("bool")
		}
	}
	t.fail(x, "operator outside the scheme (types %s, %s): %s", ta.k, tb.k, t.src(x))
	return "0", gcBad
}

// ------------------------------------------------------------------ calls

func (t *gcTr) lookupFunc(pkg, name string) *gcFunc { return gcFuncs[pkg+":"+name] }

func (t *gcTr) call(x *ast.CallExpr, c gcCtx, pre *[]string) (string, *gcT) {
	bind := func(text string, ty *gcT) (string, *gcT) {
		v := t.tmp()
		*pre = append(*pre, fmt.Sprintf("do %s <- %s;", v, text))
		return v, ty
	}
	fun := t.src(x.Fun)
	if _, shadowed := c.lookup(fun); shadowed {
		t.fail(x, "call of a variable: %s", fun)
		return "0", gcBad
	}
	switch fun {
	case "len":
		if len(x.Args) == 1 {
			s, ty := t.expr(x.Args[0], c, pre)
			if ty.elem() != nil {
				return "(Z.of_nat (length " + s + "))", gcK("int")
			}
		}
		t.fail(x, "len outside the scheme: %s", t.src(x))
		return "0", gcBad
	case "append":
		if len(x.Args) == 2 && !x.Ellipsis.IsValid() {
			s, ty := t.expr(x.Args[0], c, pre)
			v, tv := t.expr(x.Args[1], c, pre)
			if el := ty.elem(); el != nil {
				v = t.coerce(x.Args[1], v, tv, el)
				return "(" + s + " ++ [" + v + "])", ty
			}
		}
		t.fail(x, "append outside the scheme: %s", t.src(x))
		return "[]", gcBad
	case "make":
		if len(x.Args) == 2 || len(x.Args) == 3 {
			ty := t.resolve(x.Args[0])
			el := ty.elem()
			if el == nil {
				t.fail(x, "make of something that is not a slice: %s", t.src(x))
				return "[]", gcBad
			}
			n, tn := t.expr(x.Args[1], c, pre)
			if tn.k == "u32" { // make(Int, size) with size uint32
				tn = gcK("int")
			}
			t.coerce(x.Args[1], n, tn, gcK("int"))
			if len(x.Args) == 2 && n == "0" {
				return "[]", ty
			}
			if n == "0" {
				cp, tc := t.expr(x.Args[2], c, pre)
				t.coerce(x.Args[2], cp, tc, gcK("int"))
				return bind("gc_make0 "+cp, ty)
			}
			cp := n
			if len(x.Args) == 3 {
				var tc *gcT
				cp, tc = t.expr(x.Args[2], c, pre)
				t.coerce(x.Args[2], cp, tc, gcK("int"))
			}
			z, ok := el.zero()
			if !ok {
				t.fail(x, "make of a slice whose element has no zero in the scheme: %s", t.src(x))
			}
			return bind(fmt.Sprintf("gc_make %s %s %s", z, n, cp), ty)
		}
	case "uint32":
		if len(x.Args) == 1 && t.f.numeric {
			y, ty := t.expr(x.Args[0], c, pre)
			t.coerce(x.Args[0], y, ty, gcK("int"))
			return "(gc_u32 " + y + ")", gcK("u32")
		}
		t.fail(x, "uint32(..) outside a function with numeric row ids")
		return "0", gcBad
	case "filter.Filter", "Filter":
		if len(x.Args) == 1 {
			y, ty := t.expr(x.Args[0], c, pre)
			t.coerce(x.Args[0], y, ty, gcK("leaf"))
			return y, gcK("leaf")
		}
	case "integer.Max":
		if len(x.Args) == 2 {
			a, ta := t.expr(x.Args[0], c, pre)
			b, tb := t.expr(x.Args[1], c, pre)
			t.coerce(x.Args[0], a, ta, gcK("int"))
			t.coerce(x.Args[1], b, tb, gcK("int"))
			return fmt.Sprintf("(Z.max %s %s)", a, b), gcK("int")
		}
	case "qerrors.New":
		if len(x.Args) == 2 {
			a, ta := t.expr(x.Args[0], c, pre)
			b, tb := t.expr(x.Args[1], c, pre)
			t.coerce(x.Args[0], a, ta, gcK("string"))
			t.coerce(x.Args[1], b, tb, gcK("string"))
			return fmt.Sprintf("(Some (new_error %s %s))", a, b), gcK("err")
		}
	}
	// a translated free function of the package
	if id, ok := x.Fun.(*ast.Ident); ok {
		if g := t.lookupFunc(t.f.spec.pkg, id.Name); g != nil && g.fd != nil {
			a := t.args(g, x, c, pre)
			return bind(t.callText(g, x, nil, a), g.res)
		}
		t.fail(x, "call of a function outside the scheme: %s", fun)
		return "0", gcBad
	}
	sel, ok := x.Fun.(*ast.SelectorExpr)
	if !ok {
		t.fail(x, "call outside the scheme: %s", t.src(x))
		return "0", gcBad
	}
	m := sel.Sel.Name
	// a method of the receiver (static)
	if id, ok := sel.X.(*ast.Ident); ok {
		if v, ok := c.lookup(id.Name); ok && v.ty.k == "struct" && v.coq == "" {
			g := t.lookupFunc(t.f.spec.pkg, v.ty.sname+"."+m)
			if g == nil || g.fd == nil {
				t.fail(x, "call of a method outside the scheme: %s", t.src(x))
				return "0", gcBad
			}
			var ra []string
			for _, f := range gcImplOf(v.ty.sname).fields {
				ra = append(ra, v.name+"_"+f.name)
			}
			a := t.args(g, x, c, pre)
			return bind(t.callText(g, x, ra, a), g.res)
		}
	}
	var preR []string
	r, tr := t.expr(sel.X, c, &preR)
	switch tr.k {
	case "frame", "pframe":
		var fr string
		if tr.k == "pframe" {
			fr = t.tmp()
			preR = append(preR, fmt.Sprintf("do %s <- gc_deref %s;", fr, r))
		} else {
			fr = r
		}
		*pre = append(*pre, preR...)
		switch m {
		case "withErr", "withIndex":
			if len(x.Args) == 1 {
				a, ta := t.expr(x.Args[0], c, pre)
				want := gcK("err")
				if m == "withIndex" {
					want = gcK("ids")
				}
				a = t.coerce(x.Args[0], a, ta, want)
				return fmt.Sprintf("(qf_%s %s %s)", m, fr, a), gcK("frame")
			}
		case "filter":
			if len(x.Args) == 1 {
				a, ta := t.expr(x.Args[0], c, pre)
				if x.Ellipsis.IsValid() {
					t.coerce(x.Args[0], a, ta, gcK("leaves"))
					return bind(fmt.Sprintf("qf_filter %s %s", fr, a), gcK("frame"))
				}
				t.coerce(x.Args[0], a, ta, gcK("leaf"))
				return bind(fmt.Sprintf("qf_filter %s [%s]", fr, a), gcK("frame"))
			}
		}
		t.fail(x, "method of QFrame outside the vocabulary: %s", t.src(x))
		return "0", gcBad
	case "ids", "nums", "bools":
		if m == "Len" && len(x.Args) == 0 {
			*pre = append(*pre, preR...)
			return "(Z.of_nat (length " + r + "))", gcK("int")
		}
	case "clause":
		// dynamic dispatch
		for _, grp := range gcGroups {
			if grp != m {
				continue
			}
			*pre = append(*pre, preR...)
			disp := "gc_FilterClause_" + m
			if t.f.group == m {
				disp = "self"
				t.usesSelf = true
			} else if !gcDispatcherDone[m] {
				t.fail(x, "dynamic call of %s before its dispatcher is defined", m)
			}
			var a []string
			var res *gcT
			switch m {
			case "Err":
				if len(x.Args) != 0 {
					t.fail(x, "Err with arguments")
				}
				res = gcK("err")
			case "filter":
				if len(x.Args) != 1 {
					t.fail(x, "filter needs one argument")
					return "0", gcBad
				}
				y, ty := t.expr(x.Args[0], c, pre)
				a = append(a, t.coerce(x.Args[0], y, ty, gcK("frame")))
				res = gcK("frame")
			}
			return bind(strings.Join(append([]string{disp, r}, a...), " "), res)
		}
	}
	t.fail(x, "call outside the scheme: %s", t.src(x))
	return "0", gcBad
}

var gcDispatcherDone = map[string]bool{}

// ------------------------------------------------------------------ statements

func gcContainsReturn(n ast.Node) bool {
	found := false
	ast.Inspect(n, func(m ast.Node) bool {
		if _, ok := m.(*ast.ReturnStmt); ok {
			found = true
		}
		return !found
	})
	return found
}

func gcRootIdent(e ast.Expr) string {
	switch x := e.(type) {
	case *ast.Ident:
		return x.Name
	case *ast.SelectorExpr:
		return gcRootIdent(x.X)
	case *ast.IndexExpr:
		return gcRootIdent(x.X)
	case *ast.ParenExpr:
		return gcRootIdent(x.X)
	case *ast.StarExpr:
		return "*"
	}
	return ""
}

// assignedNames collects the names stored into and the names declared inside the nodes
func gcAssignedNames(nodes ...ast.Node) (assigned, declared map[string]bool) {
	assigned, declared = map[string]bool{}, map[string]bool{}
	for _, n := range nodes {
		ast.Inspect(n, func(m ast.Node) bool {
			switch s := m.(type) {
			case *ast.AssignStmt:
				for _, l := range s.Lhs {
					if s.Tok == token.DEFINE {
						declared[gcRootIdent(l)] = true
					} else {
						assigned[gcRootIdent(l)] = true
					}
				}
			case *ast.IncDecStmt:
				assigned[gcRootIdent(s.X)] = true
			case *ast.RangeStmt:
				if s.Key != nil {
					declared[gcRootIdent(s.Key)] = true
				}
				if s.Value != nil {
					declared[gcRootIdent(s.Value)] = true
				}
			case *ast.ValueSpec:
				for _, id := range s.Names {
					declared[id.Name] = true
				}
			case *ast.CallExpr:
				if id, ok := s.Fun.(*ast.Ident); ok && id.Name == "copy" && len(s.Args) > 0 {
					assigned[gcRootIdent(s.Args[0])] = true
				}
			}
			return true
		})
	}
	delete(declared, "_")
	return
}

// assigned: the variables of c stored into inside the nodes, in context order
func (t *gcTr) assigned(c gcCtx, nodes ...ast.Node) []gcVar {
	as, decl := gcAssignedNames(nodes...)
	var out []gcVar
	seen := map[string]bool{}
	for i := len(c.vars) - 1; i >= 0; i-- {
		v := c.vars[i]
		if seen[v.name] {
			continue
		}
		seen[v.name] = true
		if as[v.name] {
			if decl[v.name] {
				t.fail(nodes[0], "the variable %s is stored into in a block that also declares a variable of that name", v.name)
			}
			if v.coq == "" {
				t.fail(nodes[0], "store into the receiver %s", v.name)
				continue
			}
			out = append([]gcVar{v}, out...)
		}
	}
	if as["*"] {
		t.fail(nodes[0], "store through a pointer")
	}
	return out
}

func gcCoqNames(vs []gcVar) []string {
	var out []string
	for _, v := range vs {
		out = append(out, v.coq)
	}
	return out
}

func gcCoqTypes(vs []gcVar) []string {
	var out []string
	for _, v := range vs {
		out = append(out, v.ty.coq())
	}
	return out
}

func (t *gcTr) declare(n ast.Node, c *gcCtx, name string, ty *gcT) string {
	if name == "_" {
		return "_"
	}
	if v, ok := c.lookup(name); ok && v.coq != "" && !v.ty.same(ty) {
		t.fail(n, "the variable %s is declared again with another type", name)
	}
	c.vars = append(c.vars, gcVar{name, "v_" + name, ty})
	return "v_" + name
}

// simple translates a statement without control flow into lines that end in "in" or ";"
func (t *gcTr) simple(st ast.Stmt, c *gcCtx) ([]string, bool) {
	var out []string
	switch s := st.(type) {
	case *ast.AssignStmt:
		if len(s.Lhs) != len(s.Rhs) {
			return nil, false
		}
		if s.Tok == token.DEFINE {
			var texts []string
			var tys []*gcT
			for _, r := range s.Rhs {
				x, ty := t.expr(r, *c, &out)
				if ty.k == "nil" || ty.k == "bad" && !t.bad {
					t.fail(r, "a declaration needs a typed value: %s", t.src(r))
				}
				texts = append(texts, x)
				tys = append(tys, ty)
			}
			for i, l := range s.Lhs {
				id, ok := l.(*ast.Ident)
				if !ok {
					return nil, false
				}
				for j := i + 1; j < len(texts); j++ {
					if gsMentions(texts[j], "v_"+id.Name) {
						t.fail(st, "a parallel declaration whose right side mentions a declared name")
					}
				}
				ty := tys[i]
				if ty.k == "struct" {
					ty = gcK("clause")
				}
				name := t.declare(l, c, id.Name, ty)
				out = append(out, fmt.Sprintf("let %s := %s in", name, texts[i]))
			}
			return out, true
		}
		if s.Tok != token.ASSIGN || len(s.Lhs) != 1 {
			return nil, false
		}
		switch l := s.Lhs[0].(type) {
		case *ast.Ident:
			v, ok := c.lookup(l.Name)
			if !ok || v.coq == "" {
				t.fail(st, "store into something that is not a variable: %s", l.Name)
				return out, true
			}
			x, ty := t.expr(s.Rhs[0], *c, &out)
			x = t.coerce(s.Rhs[0], x, ty, v.ty)
			out = append(out, fmt.Sprintf("let %s := %s in", v.coq, x))
			return out, true
		case *ast.SelectorExpr:
			if id, ok := l.X.(*ast.Ident); ok && l.Sel.Name == "Inverse" {
				if v, ok := c.lookup(id.Name); ok && v.ty.k == "leaf" {
					x, ty := t.expr(s.Rhs[0], *c, &out)
					t.coerce(s.Rhs[0], x, ty, gcK("bool"))
					out = append(out, fmt.Sprintf("let %s := l_set_Inverse %s %s in", v.coq, v.coq, x))
					return out, true
				}
			}
		case *ast.IndexExpr:
			if id, ok := l.X.(*ast.Ident); ok {
				if v, ok := c.lookup(id.Name); ok && v.ty.elem() != nil {
					i, ti := t.expr(l.Index, *c, &out)
					t.coerce(l.Index, i, ti, gcK("int"))
					x, ty := t.expr(s.Rhs[0], *c, &out)
					x = t.coerce(s.Rhs[0], x, ty, v.ty.elem())
					out = append(out, fmt.Sprintf("do %s <- gc_update %s %s %s;", v.coq, v.coq, i, x))
					return out, true
				}
			}
		}
		return nil, false
	case *ast.DeclStmt:
		gd, ok := s.Decl.(*ast.GenDecl)
		if !ok || gd.Tok != token.VAR {
			return nil, false
		}
		for _, sp := range gd.Specs {
			vs := sp.(*ast.ValueSpec)
			if vs.Type == nil || len(vs.Values) != 0 {
				return nil, false
			}
			ty := t.resolve(vs.Type)
			z, ok := ty.zero()
			if !ok {
				t.fail(st, "var of a type without zero in the scheme")
			}
			for _, id := range vs.Names {
				name := t.declare(id, c, id.Name, ty)
				out = append(out, fmt.Sprintf("let %s := %s in", name, z))
			}
		}
		return out, true
	case *ast.IncDecStmt:
		id, ok := s.X.(*ast.Ident)
		if !ok {
			return nil, false
		}
		v, ok := c.lookup(id.Name)
		if !ok || v.ty.k != "int" {
			return nil, false
		}
		op := "+"
		if s.Tok == token.DEC {
			op = "-"
		}
		out = append(out, fmt.Sprintf("let %s := (%s %s 1) in", v.coq, v.coq, op))
		return out, true
	case *ast.ExprStmt:
		ce, ok := s.X.(*ast.CallExpr)
		if !ok || t.src(ce.Fun) != "copy" || len(ce.Args) != 2 {
			return nil, false
		}
		id, ok := ce.Args[0].(*ast.Ident)
		if !ok {
			return nil, false
		}
		v, ok := c.lookup(id.Name)
		if !ok || v.ty.elem() == nil {
			return nil, false
		}
		x, ty := t.expr(ce.Args[1], *c, &out)
		t.coerce(ce.Args[1], x, ty, v.ty)
		out = append(out, fmt.Sprintf("let %s := gc_copy %s %s in", v.coq, v.coq, x))
		return out, true
	}
	return nil, false
}

func gcRestrict(inner, outer gcCtx) gcCtx {
	r := outer
	_ = inner
	return r
}

func gcJoin(lines []string, last string) string {
	return strings.Join(append(append([]string{}, lines...), last), "\n")
}

// typeAssert recognises  v, ok := x.(T); ok
func (t *gcTr) typeAssert(x *ast.IfStmt) (v string, scrut ast.Expr, im *gcImpl, ok bool) {
	as, isAs := x.Init.(*ast.AssignStmt)
	if !isAs || as.Tok != token.DEFINE || len(as.Lhs) != 2 || len(as.Rhs) != 1 {
		return
	}
	ta, isTa := as.Rhs[0].(*ast.TypeAssertExpr)
	if !isTa || ta.Type == nil {
		return
	}
	v0, ok0 := as.Lhs[0].(*ast.Ident)
	v1, ok1 := as.Lhs[1].(*ast.Ident)
	cond, okc := x.Cond.(*ast.Ident)
	if !ok0 || !ok1 || !okc || cond.Name != v1.Name {
		return
	}
	im = gcImplOf(t.src(ta.Type))
	if im == nil || !im.opaque {
		return
	}
	return v0.Name, ta.X, im, true
}

func (t *gcTr) stmts(list []ast.Stmt, c gcCtx, k func(gcCtx) string) string {
	if len(list) == 0 {
		return k(c)
	}
	st, rest := list[0], list[1:]
	cont := func(c2 gcCtx) string { return t.stmts(rest, c2, k) }
	if lines, ok := t.simple(st, &c); ok {
		return gcJoin(lines, cont(c))
	}
	switch x := st.(type) {
	case *ast.ReturnStmt:
		if len(rest) != 0 {
			t.fail(st, "statements after return")
		}
		if len(x.Results) != 1 {
			t.fail(st, "return without exactly one value")
			return "Panic"
		}
		var pre []string
		y, ty := t.expr(x.Results[0], c, &pre)
		y = t.coerce(x.Results[0], y, ty, t.f.res)
		return gcJoin(pre, "Ok "+y)
	case *ast.IfStmt:
		return t.ifStmt(x, c, cont)
	case *ast.RangeStmt:
		return t.rangeStmt(x, c, cont)
	case *ast.BlockStmt:
		return t.stmts(x.List, c, func(c2 gcCtx) string { return cont(gcRestrict(c2, c)) })
	}
	t.fail(st, "statement outside the scheme: %s", strings.SplitN(t.src(st), "\n", 2)[0])
	return "Panic"
}

func gcElse(x *ast.IfStmt) ([]ast.Stmt, bool) {
	switch e := x.Else.(type) {
	case nil:
		return nil, true
	case *ast.BlockStmt:
		return e.List, true
	case *ast.IfStmt:
		return []ast.Stmt{e}, true
	}
	return nil, false
}

func gcEndsInReturn(list []ast.Stmt) bool {
	if len(list) == 0 {
		return false
	}
	_, ok := list[len(list)-1].(*ast.ReturnStmt)
	return ok
}

func (t *gcTr) ifStmt(x *ast.IfStmt, c gcCtx, cont func(gcCtx) string) string {
	els, ok := gcElse(x)
	if !ok {
		t.fail(x, "else outside the scheme")
		return "Panic"
	}
	var pre []string
	var head, mid string
	cThen := c
	if x.Init != nil {
		v, scrutE, im, ok := t.typeAssert(x)
		if !ok {
			t.fail(x, "if with an init statement that is not  v, ok := x.(Filter); ok")
			return "Panic"
		}
		s, ty := t.expr(scrutE, c, &pre)
		t.coerce(scrutE, s, ty, gcK("clause"))
		name := t.declare(x, &cThen, v, gcK("leaf"))
		head = fmt.Sprintf("match %s with\n| gc_mk_%s %s =>", s, im.name, name)
		mid = "| _ =>"
	} else {
		cond, ty := t.expr(x.Cond, c, &pre)
		t.coerce(x.Cond, cond, ty, gcK("bool"))
		head = fmt.Sprintf("if %s then", cond)
		mid = "else"
	}
	end := ""
	if x.Init != nil {
		end = "\nend"
	}
	if gcContainsReturn(x) {
		thenFalls, elseFalls := !gcEndsInReturn(x.Body.List), !gcEndsInReturn(els)
		if thenFalls && elseFalls {
			t.fail(x, "an if with a return inside of which both branches can fall through")
		}
		back := func(c2 gcCtx) string { return cont(gcRestrict(c2, c)) }
		a := t.stmts(x.Body.List, cThen, back)
		b := t.stmts(els, c, back)
		return gcJoin(pre, fmt.Sprintf("%s\n%s\n%s\n%s%s", head, gsIndent(a), mid, gsIndent(b), end))
	}
	nodes := []ast.Node{x.Body}
	if x.Else != nil {
		nodes = append(nodes, x.Else)
	}
	res := t.assigned(c, nodes...)
	if len(res) == 0 {
		t.fail(x, "an if without return that stores into no outer variable")
	}
	inner := c
	inner.top = false
	innerThen := cThen
	innerThen.top = false
	exit := func(c2 gcCtx) string { return "Ok " + gcTuple(gcCoqNames(res)) }
	a := t.stmts(x.Body.List, innerThen, exit)
	b := t.stmts(els, inner, exit)
	line := fmt.Sprintf("do %s <- (\n%s\n%s\n%s\n%s%s);", gcTuple(gcCoqNames(res)), gsIndent(head), gsIndent(gsIndent(a)), gsIndent(mid), gsIndent(gsIndent(b)), gsIndent(end))
	return gcJoin(pre, line+"\n"+cont(c))
}

// every variable of the context as (coq name, type), receivers expanded into their fields
func gcFlatVars(c gcCtx) []gcVar {
	var out []gcVar
	seen := map[string]bool{}
	for i := len(c.vars) - 1; i >= 0; i-- {
		v := c.vars[i]
		if seen[v.name] {
			continue
		}
		seen[v.name] = true
		if v.ty.k == "struct" && v.coq == "" {
			fs := gcImplOf(v.ty.sname).fields
			for j := len(fs) - 1; j >= 0; j-- {
				out = append([]gcVar{{v.name + "." + fs[j].name, v.name + "_" + fs[j].name, fs[j].ty}}, out...)
			}
			continue
		}
		out = append([]gcVar{v}, out...)
	}
	return out
}

func (t *gcTr) selfType() string {
	switch t.f.group {
	case "Err":
		return "gc_FilterClause -> outcome (option E)"
	case "filter":
		return "gc_FilterClause -> F -> outcome F"
	}
	return "unit"
}

func (t *gcTr) rangeStmt(x *ast.RangeStmt, c gcCtx, cont func(gcCtx) string) string {
	if x.Tok != token.DEFINE {
		t.fail(x, "range without :=")
		return "Panic"
	}
	var pre []string
	xs, tx := t.expr(x.X, c, &pre)
	el := tx.elem()
	if el == nil {
		t.fail(x, "range over something that is not a slice: %s", t.src(x.X))
		return "Panic"
	}
	body := c
	body.top = false
	keyName, valName := "", "_"
	check := func(n ast.Expr) string {
		id, ok := n.(*ast.Ident)
		if !ok {
			t.fail(x, "range variable that is not an identifier")
			return "_"
		}
		if v, ok := c.lookup(id.Name); ok && v.coq != "" && id.Name != "_" {
			t.fail(x, "the range variable %s shadows a variable", id.Name)
		}
		return id.Name
	}
	if x.Key != nil {
		if n := check(x.Key); n != "_" {
			keyName = t.declare(x, &body, n, gcK("int"))
		}
	}
	if x.Value != nil {
		if n := check(x.Value); n != "_" {
			valName = t.declare(x, &body, n, el)
			as, _ := gcAssignedNames(x.Body)
			if r := gcRootIdent(x.X); r != "" && as[r] {
				t.fail(x, "the body stores into the slice it ranges over by value")
			}
		}
	}
	hasRet := gcContainsReturn(x.Body)
	res := t.assigned(c, x.Body)
	if hasRet && !c.top {
		t.fail(x, "a loop with a return inside that is not at the top level of the function")
	}
	const hole = "@LOOPARGS@"
	bodyText := t.stmts(x.Body.List, body, func(c2 gcCtx) string {
		call := "loop l'"
		if keyName != "" {
			call += " (" + keyName + " + 1)"
		}
		return call + hole
	})
	var exit, rty string
	if hasRet {
		exit = cont(c)
		rty = t.f.res.coq()
	} else {
		exit = "Ok " + gcTuple(gcCoqNames(res))
		rty = gcTypeTuple(gcCoqTypes(res))
	}
	// the variables the loop takes
	var params []gcVar
	isRes := map[string]bool{}
	for _, v := range res {
		isRes[v.coq] = true
	}
	for _, v := range gcFlatVars(c) {
		if isRes[v.coq] || gsMentions(bodyText, v.coq) || gsMentions(exit, v.coq) {
			params = append(params, v)
		}
	}
	args := ""
	sig := ""
	tys := ""
	for _, v := range params {
		args += " " + v.coq
		sig += fmt.Sprintf(" (%s : %s)", v.coq, v.ty.coq())
		tys += v.ty.coq() + " -> "
	}
	bodyText = strings.ReplaceAll(bodyText, hole, args)
	usesSelf := gsMentions(bodyText, "self") || gsMentions(exit, "self")
	t.nloops++
	name := fmt.Sprintf("%s_loop%d", t.f.coq, t.nloops)
	selfSig, selfArg := "", ""
	if usesSelf {
		selfSig = " (self : " + t.selfType() + ")"
		selfArg = " self"
	}
	keySig, keyTy, keyArg := "", "", ""
	if keyName != "" {
		keySig, keyTy, keyArg = " ("+keyName+" : Z)", "Z -> ", " 0"
	}
	var b strings.Builder
	fmt.Fprintf(&b, "Definition %s%s : list %s -> %s%soutcome %s :=\n", name, selfSig, el.coq(), keyTy, tys, rty)
	fmt.Fprintf(&b, "  fix loop (l : list %s)%s%s {struct l} : outcome %s :=\n", el.coq(), keySig, sig, rty)
	fmt.Fprintf(&b, "  match l with\n  | [] =>\n%s\n  | %s :: l' =>\n%s\n  end.\n", gsIndent(gsIndent(exit)), valName, gsIndent(gsIndent(bodyText)))
	t.loops = append(t.loops, b.String())
	call := name + selfArg + " " + xs + keyArg + args
	if hasRet {
		return gcJoin(pre, call)
	}
	return gcJoin(pre, fmt.Sprintf("do %s <- %s;\n%s", gcTuple(gcCoqNames(res)), call, cont(c)))
}

// ------------------------------------------------------------------ functions

func gcCoqName(fn string) string { return "gc_" + strings.ReplaceAll(fn, ".", "_") }

func gcSignature(p *pkgInfo, f *gcFunc) bool {
	t := &gcTr{p: p, f: f}
	fd := f.fd
	if fd.Recv != nil {
		if len(fd.Recv.List) != 1 || len(fd.Recv.List[0].Names) > 1 {
			t.fail(fd, "receiver outside the scheme")
			return false
		}
		ty := t.resolve(fd.Recv.List[0].Type)
		name := "_"
		if len(fd.Recv.List[0].Names) == 1 {
			name = fd.Recv.List[0].Names[0].Name
		}
		v := gcVar{name, "v_" + name, ty}
		if ty.k == "struct" {
			v.coq = ""
			f.impl = gcImplOf(ty.sname)
		}
		if ty.k == "leaf" {
			f.impl = gcImplOf("Filter")
		}
		f.recv = &v
	}
	for _, fl := range fd.Type.Params.List {
		ty := t.resolve(fl.Type)
		if _, isEll := fl.Type.(*ast.Ellipsis); isEll {
			ty = gcResolve(f.spec.pkg, f.numeric, t.src(fl.Type))
		}
		for _, n := range fl.Names {
			f.params = append(f.params, gcVar{n.Name, "v_" + n.Name, ty})
		}
		if len(fl.Names) == 0 {
			t.fail(fd, "parameter without name")
		}
	}
	if fd.Type.Results == nil || len(fd.Type.Results.List) != 1 || len(fd.Type.Results.List[0].Names) != 0 {
		t.fail(fd, "the function must have exactly one unnamed result")
		return false
	}
	f.res = t.resolve(fd.Type.Results.List[0].Type)
	return !t.bad
}

func gcSource(p *pkgInfo, fd *ast.FuncDecl) string {
	cp := *fd
	cp.Doc = nil
	s := gcSrc(p.fset, &cp)
	s = strings.ReplaceAll(s, "(*", "( *")
	s = strings.ReplaceAll(s, "*)", "* )")
	s = strings.ReplaceAll(s, "\"", "'")
	return s
}

func gcTranslate(p *pkgInfo, f *gcFunc) {
	t := &gcTr{p: p, f: f, addrOf: map[string]bool{}}
	c := gcCtx{top: true}
	var sig []string
	if f.recv != nil {
		c.vars = append(c.vars, *f.recv)
		if f.recv.coq == "" {
			for _, fl := range gcImplOf(f.recv.ty.sname).fields {
				sig = append(sig, fmt.Sprintf("(%s_%s : %s)", f.recv.name, fl.name, fl.ty.coq()))
			}
		} else if f.recv.name != "_" {
			sig = append(sig, fmt.Sprintf("(%s : %s)", f.recv.coq, f.recv.ty.coq()))
		} else {
			sig = append(sig, fmt.Sprintf("(_ : %s)", f.recv.ty.coq()))
		}
	}
	for _, v := range f.params {
		c.vars = append(c.vars, v)
		sig = append(sig, fmt.Sprintf("(%s : %s)", v.coq, v.ty.coq()))
	}
	body := t.stmts(f.fd.Body.List, c, func(c2 gcCtx) string {
		t.fail(f.fd, "the function can fall off its end")
		return "Panic"
	})
	as, _ := gcAssignedNames(f.fd.Body)
	for n := range t.addrOf {
		if as[n] {
			t.fail(f.fd, "the variable %s has its address taken and is stored into", n)
		}
	}
	f.needsSelf = t.usesSelf
	if f.needsSelf {
		sig = append([]string{"(self : " + t.selfType() + ")"}, sig...)
	}
	var b strings.Builder
	pk := f.spec.pkg
	if pk == gcRoot {
		pk = "qframe"
	}
	fmt.Fprintf(&b, "(* %s\n%s *)\n", pk, gcSource(p, f.fd))
	for _, l := range t.loops {
		b.WriteString(l)
	}
	sep := " "
	if len(sig) == 0 {
		sep = ""
	}
	fmt.Fprintf(&b, "Definition %s%s%s : outcome %s :=\n%s.\n", f.coq, sep, strings.Join(sig, " "), f.res.coq(), gsIndent(body))
	f.text = b.String()
	f.ok = !t.bad
}

// gcDispatcher: the structural Fixpoint for one interface method
func gcDispatcher(m string) (string, bool) {
	ok := true
	var b strings.Builder
	sig, rty, extra := "(c : gc_FilterClause)", "(option E)", ""
	if m == "filter" {
		sig, rty, extra = "(c : gc_FilterClause) (qf : F)", "F", " qf"
	}
	fmt.Fprintf(&b, "(* x.%s(..) for x of the interface type FilterClause: dynamic dispatch *)\n", m)
	fmt.Fprintf(&b, "Fixpoint gc_FilterClause_%s %s {struct c} : outcome %s :=\n  match c with\n", m, sig, rty)
	for _, im := range gcImpls {
		g := gcFuncs[gcRoot+":"+im.name+"."+m]
		if g == nil || g.text == "" {
			ok = false
			continue
		}
		pat := []string{"gc_mk_" + im.name}
		call := []string{g.coq}
		if g.needsSelf {
			call = append(call, "gc_FilterClause_"+m)
		}
		if im.opaque {
			pat = append(pat, "x")
			call = append(call, "x")
		}
		for _, f := range im.fields {
			pat = append(pat, "x_"+f.name)
			call = append(call, "x_"+f.name)
		}
		fmt.Fprintf(&b, "  | %s => %s%s\n", strings.Join(pat, " "), strings.Join(call, " "), extra)
	}
	b.WriteString("  end.\n")
	return b.String(), ok
}

func genFilterClause() string {
	gcFuncs = map[string]*gcFunc{}
	gcDispatcherDone = map[string]bool{}
	root := loadPkg(gcRoot)
	ixp := loadPkg(gcIndexPkg)
	pkgOf := func(dir string) *pkgInfo {
		if dir == gcIndexPkg {
			return ixp
		}
		return root
	}
	// the vocabulary
	for _, v := range gcVocabulary {
		vp := loadPkg(v.pkg)
		fd, ok := vp.funcs[v.fn]
		if !ok || fd.Body == nil {
			problem("filter clause translation: %s not found in %s", v.fn, v.pkg)
			continue
		}
		cp := *fd
		cp.Doc = nil
		if !strings.Contains(v.text, "{\n") {
			cp.Body = nil
		}
		if gcSrc(vp.fset, &cp) != v.text {
			problem("filter clause translation: %s of %s is not the text the fixed vocabulary of the translation stands for", v.fn, v.pkg)
		}
	}
	if f, ok := root.files["filter.go"]; ok {
		found := false
		for _, d := range f.Decls {
			if gd, ok := d.(*ast.GenDecl); ok && gd.Tok == token.TYPE {
				for _, s := range gd.Specs {
					ts := s.(*ast.TypeSpec)
					if ts.Name.Name == "Filter" && gcSrc(root.fset, ts.Type) == "filter.Filter" {
						found = true
					}
				}
			}
		}
		if !found {
			problem("filter clause translation: type Filter filter.Filter not found")
		}
	}
	implsOk := gcLoadImpls(root)

	golden := ""
	if fl := flag.Lookup("golden"); fl != nil && fl.Value.String() != "" {
		if gb, err := os.ReadFile(filepath.Join(fl.Value.String(), "GenFilterClause.v")); err == nil {
			golden = string(gb)
		}
	}
	var b strings.Builder
	b.WriteString(gcPreamble)
	block := func(name, text string, ok bool) {
		if !ok {
			old, found := gfGoldenBlock(golden, name)
			if !found {
				return
			}
			text = "(* FALLBACK " + name + ": not derivable from the current source; text of the last validated tree *)\n" + old
		}
		fmt.Fprintf(&b, "(* BEGIN %s *)\n%s(* END %s *)\n\n", name, text, name)
	}
	mk := func(sp gcSpec, group string) *gcFunc {
		short := sp.fn[strings.LastIndex(sp.fn, ".")+1:]
		f := &gcFunc{spec: sp, short: short, coq: gcCoqName(sp.fn), group: group, numeric: gcNumericIds[sp.fn]}
		gcFuncs[sp.pkg+":"+sp.fn] = f
		p := pkgOf(sp.pkg)
		fd, ok := p.funcs[sp.fn]
		if !ok || fd.Body == nil {
			problem("filter clause translation: function %s not found in %s", sp.fn, sp.pkg)
			return f
		}
		f.fd = fd
		if !gcSignature(p, f) {
			f.fd = nil
		}
		return f
	}
	run := func(fs []*gcFunc) {
		for _, f := range fs {
			if f.fd != nil {
				gcTranslate(pkgOf(f.spec.pkg), f)
			}
			f.done = true
			block(f.coq, f.text, f.ok)
		}
	}
	var ixs, early, late []*gcFunc
	for _, sp := range gcIndexSpecs {
		ixs = append(ixs, mk(sp, ""))
	}
	run(ixs)
	block("gc_FilterClause", gcInductive(), implsOk)
	for _, sp := range gcEarlySpecs {
		early = append(early, mk(sp, ""))
	}
	groups := map[string][]*gcFunc{}
	for _, m := range gcGroups {
		for _, im := range gcImpls {
			groups[m] = append(groups[m], mk(gcSpec{gcRoot, im.name + "." + m}, m))
		}
	}
	for _, sp := range gcLateSpecs {
		late = append(late, mk(sp, ""))
	}
	run(early)
	for _, m := range gcGroups {
		run(groups[m])
		text, ok := gcDispatcher(m)
		gcDispatcherDone[m] = true
		block("gc_FilterClause_"+m, text, ok)
	}
	run(late)
	b.WriteString("End GenFilterClause.\n")
	return b.String()
}
