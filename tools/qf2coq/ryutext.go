package main

// Translation of the text assembly of the float64 'f' printer of internal/ryu into Gallina
// (coq/Gen/GenRyuText.v, tie T1 for the rest of the path bits -> bytes; the digit generation is translated by
// funcs.go).
//
// The functions listed in rtSpecs (ryu64.go: sizeSlice, dec64.appendF; ryu.go: appendSpecialf, AppendFloat64f,
// FormatFloat64f) are translated statement by statement into definitions grt_<name>.
// coq/Proofs/GenRyuTextProofs.v proves every generated definition equal to the hand-written model function of
// coq/Model/Ryu.v (sizeSlice, appendF, appendSpecialf, AppendFloat64f — the functions the engine "ryu" executes
// and C16_AppendFloat64f_total / C16_text speak about) for all buffers, all allocators, all arguments and all
// sufficient fuel, so that an edit of these Go functions changes the generated text and breaks a named theorem
// T1_ryutext_<name> of coq/Properties/T1RyuText.v.
//
// THE SCHEME (anything that does not fit is reported through problem(...); the function then keeps the text of
// the golden copy, marked FALLBACK, so that the development still builds — the exit status says the tie is
// broken).
//
//	[]byte      a byte slice is the record grt_buf {| grt_data; grt_spare |}: the visible contents and the bytes
//	            of the spare capacity (cap - len stale bytes), the abstraction of Model/Ryu.v.  alloc : nat ->
//	            bytes (a variable of the generated section) is what the runtime leaves in the spare capacity when
//	            append has to reallocate to a given length; nothing may depend on it.  Fixed vocabulary (preamble
//	            of the generated file):
//	              len(b), cap(b)           -> grt_len b, grt_cap b
//	              append(b, x, y)          -> grt_append b [x; y]      (in place when the spare capacity suffices,
//	              append(b, "lit"...)      -> grt_append b [bytes]      else a new array with spare alloc (new len))
//	              append(b, make([]byte, n)...) -> do t <- grt_make n; .. grt_append b t   (n < 0 panics)
//	              b[:n]                    -> grt_reslice b n          (0 <= n <= cap, else Panic; bytes of the
//	                                                                    spare capacity become visible)
//	              b[i] = v, b[i]           -> grt_store b i v, grt_index b i   (Panic outside 0 <= i < len)
//	              make([]byte, n, c)       -> grt_make3 n c
//	              byteSliceToString(b)     -> grt_data b     (the body of byteSliceToString is compared with the
//	                                                          text this stands for)
//	            Two slices never share an array in the translated functions: a slice variable is only ever
//	            replaced by a slice derived from itself (checked: the first argument of append and the operand
//	            of b[:n] are variables, and their result is returned or assigned to a variable of that name).
//	float64     a float64 parameter is its bit pattern (Z in [0, 2^64)); its only uses are math.Float64bits(f)
//	            -> the value itself, and being handed to a translated function.
//	integers    Go int -> Z, NOT wrapped: + - * and unary - are exact (a position, a length or a counter of a
//	            slice; overflow of int is outside the translation as it is outside the model).  uintN / intN ->
//	            Z inside the range of the type, + - * wrap explicitly (gu8 .. gs64 of GenFuncs.v); / % with a
//	            non-zero constant divisor are Z.div / Z.modulo (unsigned, and Z.quot / Z.rem on int); shifts by
//	            a constant below the width are Z.shiftl (wrapped) / Z.shiftr; & | are Z.land / Z.lor.  A
//	            conversion T(e) is the identity when every value of the type of e is a value of T (int32 -> int,
//	            byte -> uint32 ..) and the wrap of T otherwise (uint64 -> byte ..).  Constant expressions
//	            (also typed ones like uint64(1)<<mantBits64 - 1) are folded exactly and must fit their type.
//	            x > y is written (y <? x), x >= y is (y <=? x).
//	struct      dec64 -> one variable per field (v_d_m, v_d_e; the pair where a single value is needed); a value
//	            receiver is the first argument after fuel.
//	results     a function that can panic (slice operation, loop, call of such a function, call of a partial
//	            function of GenFuncs.v) answers outcome T; Panic = the Go function panics OR fuel used up.
//	            Functions of GenFuncs.v (decimalLen64, float64ToDecimalExactInt, float64ToDecimal ..) are
//	            called by name; their option is lifted by grt_lift (None -> Panic).
//	fuel        a function that contains a loop, or calls one that does, takes (fuel : nat) first.  Every for
//	            loop is a separate Fixpoint grt_<f>_loopN over its own counter k (O => Panic), entered with the
//	            budget fuel; calls of functions with fuel hand fuel on.  "fuel > every trip count" is what
//	            sufficient means.
//	statements  x := e; a, b := f(..); x = e; x op= e; x++; x--; b[i] = e; return e; if / else
//	if          when no branch leaves the statement early the branches compute the new values of the variables
//	            they assign (let / do (x, y) <- (if c then .. else ..)); otherwise the rest of the block is
//	            continued inside the branches that fall through.
//	loops       for init; cond; post { body } without return inside: a Fixpoint from the variables it mentions
//	            to the new values of the outer variables it assigns; break = exit, continue = post and again.
//	shadowing   x := e for an x of an enclosing scope is accepted only in a block that ends with return (the
//	            outer variable is dead from there on), as in the "0.XYZ" branch of appendF.
//	rejected    return inside a loop, switch, range, goto, labels, defer, closures, maps, pointers, slices of
//	            other element types, slice expressions other than b[:n], && / || with an operation that can
//	            panic on the right, calls of unknown functions, everything else.

import (
	"bytes"
	"flag"
	"fmt"
	"go/ast"
	"go/printer"
	"go/token"
	"math/big"
	"os"
	"path/filepath"
	"strconv"
	"strings"
)

const rtPkg = "internal/ryu"

// in dependency order (a callee before its callers)
var rtSpecs = []string{"sizeSlice", "appendSpecialf", "dec64.appendF", "AppendFloat64f", "FormatFloat64f"}

// the text the fixed vocabulary stands for (bodies printed by go/printer)
var rtVocabulary = map[string]string{
	"byteSliceToString": "{\n\n\treturn *(*string)(unsafe.Pointer(&b))\n}",
}

const rtPreamble = `(* GENERATED by tools/qf2coq (ryutext.go) from internal/ryu/ryu.go and ryu64.go of tobgu/qframe — do not edit.
   One definition grt_<function> per translated Go function, one Fixpoint grt_<function>_loopN per loop; the
   scheme is described at the top of tools/qf2coq/ryutext.go.  A []byte is grt_buf (visible contents + bytes of
   the spare capacity), alloc is the content of the spare capacity after a reallocation; Go int is Z (exact),
   the fixed-width types are Z wrapped by gu8 .. gs64 of GenFuncs.v; a float64 is its bit pattern; functions that
   can panic answer outcome (Panic = Go panic or fuel used up); the digit generation (decimalLen64,
   float64ToDecimalExactInt, float64ToDecimal) is called in its translated form gf_ryu_* of GenFuncs.v. *)
From QF Require Import Base.Prelude Gen.GenFuncs.
Local Open Scope Z_scope.

(* a []byte: the visible contents and the bytes of the spare capacity *)
Record grt_buf := { grt_data : bytes; grt_spare : bytes }.
Definition grt_len (b : grt_buf) : Z := Z.of_nat (length (grt_data b)).
Definition grt_cap (b : grt_buf) : Z := Z.of_nat (length (grt_data b) + length (grt_spare b)).
(* a partial function of GenFuncs.v *)
Definition grt_lift {A : Type} (o : option A) : outcome A :=
  match o with Some a => Ok a | None => Panic end.
(* a value of type byte as an element of bytes *)
Definition grt_byte (v : Z) : N := Z.to_N v.
(* make([]byte, n) as the argument of append, make([]byte, n, c) *)
Definition grt_make (n : Z) : outcome bytes :=
  if n <? 0 then Panic else Ok (repeat 0%N (Z.to_nat n)).
Definition grt_make3 (n c : Z) : outcome grt_buf :=
  if (n <? 0) || (c <? n) then Panic
  else Ok {| grt_data := repeat 0%N (Z.to_nat n); grt_spare := repeat 0%N (Z.to_nat (c - n)) |}.
(* b[:n] *)
Definition grt_reslice (b : grt_buf) (n : Z) : outcome grt_buf :=
  if (n <? 0) || (grt_cap b <? n) then Panic
  else Ok {| grt_data := firstn (Z.to_nat n) (grt_data b ++ grt_spare b);
             grt_spare := skipn (Z.to_nat n) (grt_data b ++ grt_spare b) |}.
(* b[i] = v and b[i] *)
Definition grt_store (b : grt_buf) (i v : Z) : outcome grt_buf :=
  if (i <? 0) || (grt_len b <=? i) then Panic
  else Ok {| grt_data := set_nth (grt_data b) (Z.to_nat i) (grt_byte v); grt_spare := grt_spare b |}.
Definition grt_index (b : grt_buf) (i : Z) : outcome Z :=
  if i <? 0 then Panic else do x <- idx (grt_data b) (Z.to_nat i); Ok (Z.of_N x).

Section GenRyuText.
Variable alloc : nat -> bytes.

(* append(b, xs...) *)
Definition grt_append (b : grt_buf) (xs : bytes) : grt_buf :=
  if (length xs <=? length (grt_spare b))%nat
  then {| grt_data := grt_data b ++ xs; grt_spare := skipn (length xs) (grt_spare b) |}
  else {| grt_data := grt_data b ++ xs; grt_spare := alloc (length (grt_data b) + length xs)%nat |}.

`

// ------------------------------------------------------------------ types

type rtKind int

const (
	rtInt  rtKind = iota // Go int: exact Z
	rtWord               // fixed-width integer: wrapped Z
	rtBool
	rtBuf   // []byte
	rtBytes // string, or a byte sequence handed to append
	rtStruct
	rtFloat // float64 as its bit pattern
	rtTuple
	rtUnit
	rtUntyped
	rtBad
)

type rtT struct {
	k      rtKind
	signed bool
	bits   int
	name   string   // struct name
	fnames []string // struct fields
	elems  []*rtT   // struct fields / tuple components
}

var (
	rtIntT   = &rtT{k: rtInt, signed: true, bits: 64}
	rtBoolT  = &rtT{k: rtBool}
	rtBufT   = &rtT{k: rtBuf}
	rtBytesT = &rtT{k: rtBytes}
	rtFloatT = &rtT{k: rtFloat}
	rtUnitT  = &rtT{k: rtUnit}
	rtUntT   = &rtT{k: rtUntyped}
	rtBadT   = &rtT{k: rtBad}
	rtByteT  = &rtT{k: rtWord, bits: 8}
	rtU64T   = &rtT{k: rtWord, bits: 64}
)

func (t *rtT) isNum() bool { return t.k == rtInt || t.k == rtWord }

func (t *rtT) same(u *rtT) bool {
	if t.k != u.k {
		return false
	}
	switch t.k {
	case rtWord:
		return t.signed == u.signed && t.bits == u.bits
	case rtStruct:
		return t.name == u.name
	case rtTuple:
		if len(t.elems) != len(u.elems) {
			return false
		}
		for i := range t.elems {
			if !t.elems[i].same(u.elems[i]) {
				return false
			}
		}
	}
	return true
}

func (t *rtT) coq() string {
	switch t.k {
	case rtInt, rtWord, rtFloat:
		return "Z"
	case rtBool:
		return "bool"
	case rtBuf:
		return "grt_buf"
	case rtBytes:
		return "bytes"
	case rtUnit:
		return "unit"
	case rtStruct, rtTuple:
		var parts []string
		for _, e := range t.elems {
			parts = append(parts, e.coq())
		}
		return "(" + strings.Join(parts, " * ") + ")"
	}
	return "BAD"
}

func (t *rtT) goName() string {
	switch t.k {
	case rtInt:
		return "int"
	case rtWord:
		if t.signed {
			return fmt.Sprintf("int%d", t.bits)
		}
		return fmt.Sprintf("uint%d", t.bits)
	case rtBool:
		return "bool"
	case rtBuf:
		return "[]byte"
	case rtBytes:
		return "string"
	case rtStruct:
		return t.name
	case rtFloat:
		return "float64"
	case rtUntyped:
		return "untyped constant"
	case rtTuple:
		return "several values"
	case rtUnit:
		return "no value"
	}
	return "?"
}

func (t *rtT) wrap() string {
	if t.signed {
		return fmt.Sprintf("gs%d", t.bits)
	}
	return fmt.Sprintf("gu%d", t.bits)
}

func (t *rtT) lo() *big.Int {
	if !t.signed {
		return big.NewInt(0)
	}
	return new(big.Int).Neg(new(big.Int).Lsh(big.NewInt(1), uint(t.bits-1)))
}

func (t *rtT) hi() *big.Int { // exclusive
	if !t.signed {
		return new(big.Int).Lsh(big.NewInt(1), uint(t.bits))
	}
	return new(big.Int).Lsh(big.NewInt(1), uint(t.bits-1))
}

// every value of t is a value of u
func (t *rtT) within(u *rtT) bool {
	return t.lo().Cmp(u.lo()) >= 0 && t.hi().Cmp(u.hi()) <= 0
}

func rtFromGf(t *gfType) *rtT {
	switch t.kind {
	case gfInt:
		if t.signed && t.bits == 64 {
			return rtIntT
		}
		return &rtT{k: rtWord, signed: t.signed, bits: t.bits}
	case gfBool:
		return rtBoolT
	case gfUnit:
		return rtUnitT
	case gfString:
		return rtBytesT
	case gfStruct, gfTuple:
		r := &rtT{k: rtTuple}
		if t.kind == gfStruct {
			r.k = rtStruct
			r.name = t.name
			r.fnames = t.fnames
		}
		for _, e := range t.elems {
			x := rtFromGf(e)
			if x == nil {
				return nil
			}
			r.elems = append(r.elems, x)
		}
		return r
	}
	return nil
}

func rtResolve(g *gfPkg, e ast.Expr) *rtT {
	switch t := e.(type) {
	case *ast.ParenExpr:
		return rtResolve(g, t.X)
	case *ast.ArrayType:
		if t.Len == nil {
			if el := rtResolve(g, t.Elt); el != nil && el.same(rtByteT) {
				return rtBufT
			}
		}
		return nil
	case *ast.Ident:
		if _, shadow := g.types[t.Name]; !shadow {
			switch t.Name {
			case "float64":
				return rtFloatT
			case "int":
				return rtIntT
			case "int64":
				return &rtT{k: rtWord, signed: true, bits: 64}
			}
		}
	}
	gt := g.resolveType(e, 0)
	if gt == nil {
		return nil
	}
	return rtFromGf(gt)
}

// ------------------------------------------------------------------ translated functions

type rtVar struct {
	name string // Go name
	typ  *rtT
}

type rtFunc struct {
	goName string
	coq    string
	fd     *ast.FuncDecl
	params []rtVar
	result *rtT
	part   bool // answers outcome
	fuel   bool // takes fuel
	text   string
	ok     bool
}

var rtFuncs = map[string]*rtFunc{} // by Go name (method: Receiver.Name)

type rtBind struct{ name, term string }

type rtEnv struct {
	order  []string
	typ    map[string]*rtT
	closed bool // the block cannot fall through to the code after it (it ends with return)
}

func (e *rtEnv) clone() *rtEnv {
	n := &rtEnv{order: append([]string(nil), e.order...), typ: map[string]*rtT{}, closed: e.closed}
	for k, v := range e.typ {
		n.typ[k] = v
	}
	return n
}

func (e *rtEnv) declare(name string, t *rtT) {
	if _, ok := e.typ[name]; !ok {
		e.order = append(e.order, name)
	}
	e.typ[name] = t
}

type rtTr struct {
	g       *gfPkg
	f       *rtFunc
	bad     bool
	tmp     int
	pending []rtBind
	aux     []string
	nloop   int
	partial bool // the code being emitted has type outcome _
	inMerge int
	inLoop  int
}

func (c *rtTr) fail(n ast.Node, format string, a ...interface{}) {
	if !c.bad {
		where := ""
		if n != nil {
			where = " (" + rtSrc(c.g.p.fset, n) + ")"
		}
		problem("internal/ryu text translation: function %s: %s%s", c.f.goName, fmt.Sprintf(format, a...), where)
	}
	c.bad = true
}

func rtSrc(fset *token.FileSet, n ast.Node) string {
	var b bytes.Buffer
	printer.Fprint(&b, fset, n)
	s := strings.Join(strings.Fields(b.String()), " ")
	if len(s) > 70 {
		s = s[:70] + " .."
	}
	return s
}

func (c *rtTr) fresh() string {
	c.tmp++
	return fmt.Sprintf("t%d", c.tmp)
}

func (c *rtTr) take() []rtBind {
	p := c.pending
	c.pending = nil
	return p
}

func (c *rtTr) wrapBinds(b []rtBind, inner string) string {
	if len(b) > 0 && !c.partial {
		c.fail(nil, "internal: operation that can panic in code classified as total")
	}
	for i := len(b) - 1; i >= 0; i-- {
		inner = fmt.Sprintf("do %s <- %s;\n  %s", b[i].name, b[i].term, inner)
	}
	return inner
}

func (c *rtTr) ret(term string) string {
	if c.partial {
		if strings.ContainsAny(term, " ") && !strings.HasPrefix(term, "(") {
			term = "(" + term + ")"
		}
		return "Ok " + term
	}
	return term
}

func rtCoqVar(name string) string { return "v_" + name }

func rtFlat(name string, t *rtT) []rtVar {
	if t.k == rtStruct {
		var out []rtVar
		for i, f := range t.fnames {
			out = append(out, rtVar{rtCoqVar(name) + "_" + f, t.elems[i]})
		}
		return out
	}
	return []rtVar{{rtCoqVar(name), t}}
}

func rtValue(name string, t *rtT) string {
	fl := rtFlat(name, t)
	if len(fl) == 1 {
		return fl[0].name
	}
	var parts []string
	for _, v := range fl {
		parts = append(parts, v.name)
	}
	return "(" + strings.Join(parts, ", ") + ")"
}

func rtPattern(name string, t *rtT) string {
	v := rtValue(name, t)
	if strings.HasPrefix(v, "(") {
		return "'" + v
	}
	return v
}

func rtTupleOf(vs []rtVar) (val, pat string) {
	if len(vs) == 1 {
		return vs[0].name, vs[0].name
	}
	var parts []string
	for _, v := range vs {
		parts = append(parts, v.name)
	}
	j := strings.Join(parts, ", ")
	return "(" + j + ")", "'(" + j + ")"
}

// ------------------------------------------------------------------ classification

func rtCallee(g *gfPkg, env *rtEnv, call *ast.CallExpr) (own *rtFunc, ext *gfFunc, args []ast.Expr) {
	switch f := call.Fun.(type) {
	case *ast.Ident:
		if r, ok := rtFuncs[f.Name]; ok {
			return r, nil, call.Args
		}
		if x, ok := gfFuncs[rtPkg+":"+f.Name]; ok {
			return nil, x, call.Args
		}
	case *ast.SelectorExpr:
		if id, ok := f.X.(*ast.Ident); ok && env != nil {
			if vt, isVar := env.typ[id.Name]; isVar && vt.k == rtStruct {
				if r, ok := rtFuncs[vt.name+"."+f.Sel.Name]; ok {
					return r, nil, append([]ast.Expr{f.X}, call.Args...)
				}
			}
		}
	}
	return nil, nil, nil
}

// rtNodePartial: the node contains an operation that can panic (or a loop).
func rtNodePartial(g *gfPkg, n ast.Node) bool {
	res := false
	ast.Inspect(n, func(x ast.Node) bool {
		switch t := x.(type) {
		case *ast.ForStmt, *ast.IndexExpr, *ast.SliceExpr:
			res = true
		case *ast.CallExpr:
			if id, ok := t.Fun.(*ast.Ident); ok {
				if id.Name == "panic" || id.Name == "make" {
					res = true
				}
				if r, ok := rtFuncs[id.Name]; ok && r.part {
					res = true
				}
				if x, ok := gfFuncs[rtPkg+":"+id.Name]; ok && (x.partial || !x.ok) {
					res = true
				}
			}
			if sel, ok := t.Fun.(*ast.SelectorExpr); ok {
				for k, r := range rtFuncs {
					if strings.HasSuffix(k, "."+sel.Sel.Name) && r.part {
						res = true
					}
				}
			}
		}
		return !res
	})
	return res
}

func rtNeedsFuel(n ast.Node) bool {
	res := false
	ast.Inspect(n, func(x ast.Node) bool {
		switch t := x.(type) {
		case *ast.ForStmt:
			res = true
		case *ast.CallExpr:
			if id, ok := t.Fun.(*ast.Ident); ok {
				if r, ok := rtFuncs[id.Name]; ok && r.fuel {
					res = true
				}
			}
			if sel, ok := t.Fun.(*ast.SelectorExpr); ok {
				for k, r := range rtFuncs {
					if strings.HasSuffix(k, "."+sel.Sel.Name) && r.fuel {
						res = true
					}
				}
			}
		}
		return !res
	})
	return res
}

// ------------------------------------------------------------------ expressions

func (c *rtTr) constAs(n ast.Node, v *big.Int, t *rtT) string {
	if !t.isNum() {
		c.fail(n, "constant %s used at type %s", v.String(), t.goName())
		return "0"
	}
	if v.Cmp(t.lo()) < 0 || v.Cmp(t.hi()) >= 0 {
		c.fail(n, "constant %s does not fit %s", v.String(), t.goName())
		return "0"
	}
	return gfNum(v)
}

// typed forces an untyped constant to the wanted type (int when there is none).
func (c *rtTr) typed(n ast.Node, term string, t *rtT, cv *big.Int, want *rtT) (string, *rtT) {
	if t.k == rtUntyped {
		if want == nil || !want.isNum() {
			want = rtIntT
		}
		return c.constAs(n, cv, want), want
	}
	return term, t
}

// expr translates e: the Coq term, its type, and its value when it is a constant (typed or not).
func (c *rtTr) expr(env *rtEnv, e ast.Expr, want *rtT) (string, *rtT, *big.Int) {
	g := c.g
	if !rtMentionsVar(env, e) { // a local variable hides a package constant of the same name
		if v, ok := gfConst(g, e); ok {
			return gfNum(v), rtUntT, v
		}
	}
	switch t := e.(type) {
	case *ast.ParenExpr:
		return c.expr(env, t.X, want)
	case *ast.BasicLit:
		if t.Kind == token.STRING {
			str, err := strconv.Unquote(t.Value)
			if err != nil {
				break
			}
			return rtBytesLit([]byte(str)), rtBytesT, nil
		}
	case *ast.Ident:
		switch t.Name {
		case "true":
			return "true", rtBoolT, nil
		case "false":
			return "false", rtBoolT, nil
		}
		if vt, ok := env.typ[t.Name]; ok {
			return rtValue(t.Name, vt), vt, nil
		}
		c.fail(e, "identifier %s not understood", t.Name)
		return "0", rtBadT, nil
	case *ast.SelectorExpr:
		if id, ok := t.X.(*ast.Ident); ok {
			if vt, ok := env.typ[id.Name]; ok && vt.k == rtStruct {
				for i, f := range vt.fnames {
					if f == t.Sel.Name {
						return rtCoqVar(id.Name) + "_" + f, vt.elems[i], nil
					}
				}
			}
		}
	case *ast.UnaryExpr:
		switch t.Op {
		case token.NOT:
			x, tx, _ := c.expr(env, t.X, rtBoolT)
			if tx.k != rtBool {
				c.fail(e, "! applied to %s", tx.goName())
			}
			return "(negb " + x + ")", rtBoolT, nil
		case token.SUB, token.ADD:
			x, tx, cv := c.expr(env, t.X, want)
			x, tx = c.typed(e, x, tx, cv, want)
			if !tx.isNum() {
				c.fail(e, "unary %s applied to %s", t.Op, tx.goName())
				return "0", rtBadT, nil
			}
			if t.Op == token.ADD {
				return x, tx, cv
			}
			if cv != nil {
				nv := new(big.Int).Neg(cv)
				return c.constAs(e, nv, tx), tx, nv
			}
			if tx.k == rtInt {
				return fmt.Sprintf("(- %s)", x), tx, nil
			}
			return fmt.Sprintf("(%s (- %s))", tx.wrap(), x), tx, nil
		}
	case *ast.BinaryExpr:
		return c.binary(env, t, want)
	case *ast.CallExpr:
		return c.call(env, t, want)
	case *ast.IndexExpr:
		id, ok := t.X.(*ast.Ident)
		if !ok || env.typ[id.Name] == nil || env.typ[id.Name].k != rtBuf {
			break
		}
		i, ti, cv := c.expr(env, t.Index, rtIntT)
		i, ti = c.typed(e, i, ti, cv, rtIntT)
		if ti.k != rtInt {
			c.fail(e, "index of type %s (only int is supported)", ti.goName())
		}
		name := c.fresh()
		c.pending = append(c.pending, rtBind{name, fmt.Sprintf("grt_index %s %s", rtCoqVar(id.Name), i)})
		return name, rtByteT, nil
	case *ast.SliceExpr:
		id, ok := t.X.(*ast.Ident)
		if !ok || env.typ[id.Name] == nil || env.typ[id.Name].k != rtBuf || t.Low != nil || t.High == nil || t.Slice3 {
			c.fail(e, "slice expression other than b[:n] on a []byte variable")
			return "0", rtBadT, nil
		}
		h, th, cv := c.expr(env, t.High, rtIntT)
		h, th = c.typed(e, h, th, cv, rtIntT)
		if th.k != rtInt {
			c.fail(e, "slice bound of type %s (only int is supported)", th.goName())
		}
		name := c.fresh()
		c.pending = append(c.pending, rtBind{name, fmt.Sprintf("grt_reslice %s %s", rtCoqVar(id.Name), h)})
		return name, &rtT{k: rtBuf, name: id.Name}, nil
	}
	c.fail(e, "expression %T not supported", e)
	return "0", rtBadT, nil
}

func rtMentionsVar(env *rtEnv, e ast.Expr) bool {
	res := false
	ast.Inspect(e, func(x ast.Node) bool {
		if id, ok := x.(*ast.Ident); ok {
			if _, isVar := env.typ[id.Name]; isVar {
				res = true
			}
		}
		return !res
	})
	return res
}

func rtBytesLit(bs []byte) string {
	var parts []string
	for _, b := range bs {
		parts = append(parts, strconv.Itoa(int(b)))
	}
	return "[" + strings.Join(parts, "; ") + "]%N"
}

func rtFold(op token.Token, a, b *big.Int) (*big.Int, bool) {
	switch op {
	case token.ADD:
		return new(big.Int).Add(a, b), true
	case token.SUB:
		return new(big.Int).Sub(a, b), true
	case token.MUL:
		return new(big.Int).Mul(a, b), true
	case token.AND:
		return new(big.Int).And(a, b), true
	case token.OR:
		return new(big.Int).Or(a, b), true
	case token.SHL:
		if b.Sign() >= 0 && b.IsInt64() && b.Int64() < 4096 {
			return new(big.Int).Lsh(a, uint(b.Int64())), true
		}
	case token.SHR:
		if b.Sign() >= 0 && b.IsInt64() && b.Int64() < 4096 {
			return new(big.Int).Rsh(a, uint(b.Int64())), true
		}
	case token.QUO:
		if b.Sign() != 0 {
			return new(big.Int).Quo(a, b), true
		}
	case token.REM:
		if b.Sign() != 0 {
			return new(big.Int).Rem(a, b), true
		}
	}
	return nil, false
}

func (c *rtTr) binary(env *rtEnv, e *ast.BinaryExpr, want *rtT) (string, *rtT, *big.Int) {
	op := e.Op
	switch op {
	case token.LAND, token.LOR:
		x, tx, _ := c.expr(env, e.X, rtBoolT)
		before := len(c.pending)
		y, ty, _ := c.expr(env, e.Y, rtBoolT)
		if len(c.pending) != before {
			c.fail(e, "operation that can panic on the right of %s", op)
		}
		if tx.k != rtBool || ty.k != rtBool {
			c.fail(e, "%s applied to operands that are not boolean", op)
		}
		if op == token.LAND {
			return fmt.Sprintf("(%s && %s)", x, y), rtBoolT, nil
		}
		return fmt.Sprintf("(%s || %s)", x, y), rtBoolT, nil
	case token.SHL, token.SHR:
		x, tx, cx := c.expr(env, e.X, want)
		n, tn, cn := c.expr(env, e.Y, nil)
		if cn == nil || tn.k != rtUntyped && !tn.isNum() || cn.Sign() < 0 {
			c.fail(e, "shift by a count that is not a constant")
			return "0", rtBadT, nil
		}
		x, tx = c.typed(e, x, tx, cx, want)
		if !tx.isNum() || cn.Cmp(big.NewInt(int64(tx.bits))) >= 0 {
			c.fail(e, "shift of %s by %s", tx.goName(), cn.String())
			return "0", rtBadT, nil
		}
		if cx != nil {
			v, _ := rtFold(op, cx, cn)
			return c.constAs(e, v, tx), tx, v
		}
		if op == token.SHR {
			return fmt.Sprintf("(Z.shiftr %s %s)", x, n), tx, nil
		}
		if tx.k == rtInt {
			c.fail(e, "left shift of an int that is not a constant")
			return "0", rtBadT, nil
		}
		return fmt.Sprintf("(%s (Z.shiftl %s %s))", tx.wrap(), x, n), tx, nil
	}
	isCmp := op == token.EQL || op == token.NEQ || op == token.LSS || op == token.LEQ || op == token.GTR || op == token.GEQ
	opWant := want
	if isCmp {
		opWant = nil
	}
	x, tx, cx := c.expr(env, e.X, opWant)
	var y string
	var ty *rtT
	var cy *big.Int
	if tx.isNum() {
		y, ty, cy = c.expr(env, e.Y, tx)
	} else {
		y, ty, cy = c.expr(env, e.Y, opWant)
	}
	if tx.k == rtUntyped && ty.k == rtUntyped {
		c.fail(e, "constant expression that cannot be folded")
		return "0", rtBadT, nil
	}
	if tx.k == rtUntyped {
		x, tx = c.typed(e, x, tx, cx, ty)
	}
	if ty.k == rtUntyped {
		y, ty = c.typed(e, y, ty, cy, tx)
	}
	if tx.k == rtBool && ty.k == rtBool && (op == token.EQL || op == token.NEQ) {
		if op == token.EQL {
			return fmt.Sprintf("(Bool.eqb %s %s)", x, y), rtBoolT, nil
		}
		return fmt.Sprintf("(negb (Bool.eqb %s %s))", x, y), rtBoolT, nil
	}
	if !tx.isNum() || !ty.isNum() {
		c.fail(e, "operator %s on %s and %s", op, tx.goName(), ty.goName())
		return "0", rtBadT, nil
	}
	if !tx.same(ty) {
		c.fail(e, "operator %s on mismatched types %s and %s", op, tx.goName(), ty.goName())
		return "0", rtBadT, nil
	}
	switch op {
	case token.EQL:
		return fmt.Sprintf("(%s =? %s)", x, y), rtBoolT, nil
	case token.NEQ:
		return fmt.Sprintf("(negb (%s =? %s))", x, y), rtBoolT, nil
	case token.LSS:
		return fmt.Sprintf("(%s <? %s)", x, y), rtBoolT, nil
	case token.LEQ:
		return fmt.Sprintf("(%s <=? %s)", x, y), rtBoolT, nil
	case token.GTR:
		return fmt.Sprintf("(%s <? %s)", y, x), rtBoolT, nil
	case token.GEQ:
		return fmt.Sprintf("(%s <=? %s)", y, x), rtBoolT, nil
	}
	if cx != nil && cy != nil { // typed constant expression: folded exactly, must fit (as the Go compiler demands)
		if v, ok := rtFold(op, cx, cy); ok {
			return c.constAs(e, v, tx), tx, v
		}
	}
	w := func(s string) string {
		if tx.k == rtInt {
			return "(" + s + ")"
		}
		return "(" + tx.wrap() + " (" + s + "))"
	}
	switch op {
	case token.ADD:
		return w(x + " + " + y), tx, nil
	case token.SUB:
		return w(x + " - " + y), tx, nil
	case token.MUL:
		return w(x + " * " + y), tx, nil
	case token.AND:
		return fmt.Sprintf("(Z.land %s %s)", x, y), tx, nil
	case token.OR:
		return fmt.Sprintf("(Z.lor %s %s)", x, y), tx, nil
	case token.QUO, token.REM:
		if cy == nil || cy.Sign() == 0 {
			c.fail(e, "%s by a divisor that is not a non-zero constant", op)
			return "0", rtBadT, nil
		}
		switch {
		case op == token.QUO && tx.k == rtInt:
			return fmt.Sprintf("(Z.quot %s %s)", x, y), tx, nil
		case op == token.QUO && tx.signed:
			return fmt.Sprintf("(%s (Z.quot %s %s))", tx.wrap(), x, y), tx, nil
		case op == token.QUO:
			return fmt.Sprintf("(%s / %s)", x, y), tx, nil
		case tx.signed:
			return fmt.Sprintf("(Z.rem %s %s)", x, y), tx, nil
		}
		return fmt.Sprintf("(%s mod %s)", x, y), tx, nil
	}
	c.fail(e, "operator %s not supported", op)
	return "0", rtBadT, nil
}

// byte elements of append(b, x, y): a list of N
func (c *rtTr) byteElems(env *rtEnv, args []ast.Expr) string {
	allConst := true
	var consts []byte
	var parts []string
	for _, a := range args {
		x, tx, cv := c.expr(env, a, rtByteT)
		x, tx = c.typed(a, x, tx, cv, rtByteT)
		if !tx.same(rtByteT) {
			c.fail(a, "append of a value of type %s to a []byte", tx.goName())
		}
		if cv != nil && cv.IsInt64() && cv.Int64() >= 0 && cv.Int64() < 256 {
			consts = append(consts, byte(cv.Int64()))
			parts = append(parts, cv.String()+"%N")
		} else {
			allConst = false
			parts = append(parts, "(grt_byte "+x+")")
		}
	}
	if allConst {
		return rtBytesLit(consts)
	}
	return "[" + strings.Join(parts, "; ") + "]"
}

func (c *rtTr) call(env *rtEnv, call *ast.CallExpr, want *rtT) (string, *rtT, *big.Int) {
	g := c.g
	if id, ok := call.Fun.(*ast.Ident); ok {
		_, isOwn := rtFuncs[id.Name]
		_, isFunc := g.p.funcs[id.Name]
		// conversions
		if !isOwn && !isFunc && len(call.Args) == 1 && id.Name != "len" && id.Name != "cap" {
			if tt := rtResolve(g, id); tt != nil {
				if !tt.isNum() {
					c.fail(call, "conversion to %s not supported", id.Name)
					return "0", rtBadT, nil
				}
				x, tx, cv := c.expr(env, call.Args[0], tt)
				if cv != nil {
					return c.constAs(call, cv, tt), tt, cv
				}
				if !tx.isNum() {
					c.fail(call, "conversion of %s to %s not supported", tx.goName(), id.Name)
					return "0", rtBadT, nil
				}
				if tx.within(tt) { // every value of the source type is a value of the target type
					return x, tt, nil
				}
				if tt.k == rtInt {
					return fmt.Sprintf("(gs64 %s)", x), tt, nil
				}
				return fmt.Sprintf("(%s %s)", tt.wrap(), x), tt, nil
			}
		}
		switch id.Name {
		case "len", "cap":
			if len(call.Args) != 1 {
				break
			}
			x, tx, _ := c.expr(env, call.Args[0], nil)
			if tx.k == rtBuf {
				return fmt.Sprintf("(grt_%s %s)", id.Name, x), rtIntT, nil
			}
			if tx.k == rtBytes && id.Name == "len" {
				return fmt.Sprintf("(Z.of_nat (length %s))", x), rtIntT, nil
			}
			c.fail(call, "%s of %s", id.Name, tx.goName())
			return "0", rtBadT, nil
		case "make":
			if len(call.Args) == 3 && rtResolve(g, call.Args[0]) == rtBufT {
				n, tn, cn := c.expr(env, call.Args[1], rtIntT)
				n, tn = c.typed(call, n, tn, cn, rtIntT)
				cp, tc, cc := c.expr(env, call.Args[2], rtIntT)
				cp, tc = c.typed(call, cp, tc, cc, rtIntT)
				if tn.k != rtInt || tc.k != rtInt {
					c.fail(call, "make with a length or capacity that is not an int")
				}
				name := c.fresh()
				c.pending = append(c.pending, rtBind{name, fmt.Sprintf("grt_make3 %s %s", n, cp)})
				return name, &rtT{k: rtBuf, name: "*"}, nil
			}
			c.fail(call, "make other than make([]byte, n, c) or append(b, make([]byte, n)...)")
			return "0", rtBadT, nil
		case "append":
			if len(call.Args) < 2 {
				break
			}
			bid, ok := call.Args[0].(*ast.Ident)
			if !ok || env.typ[bid.Name] == nil || env.typ[bid.Name].k != rtBuf {
				c.fail(call, "append to something that is not a []byte variable")
				return "0", rtBadT, nil
			}
			resT := &rtT{k: rtBuf, name: bid.Name}
			if call.Ellipsis.IsValid() {
				if len(call.Args) != 2 {
					break
				}
				// append(b, make([]byte, n)...)
				if mk, ok := call.Args[1].(*ast.CallExpr); ok {
					if mid, ok := mk.Fun.(*ast.Ident); ok && mid.Name == "make" && len(mk.Args) == 2 && rtResolve(g, mk.Args[0]) == rtBufT {
						n, tn, cn := c.expr(env, mk.Args[1], rtIntT)
						n, tn = c.typed(mk, n, tn, cn, rtIntT)
						if tn.k != rtInt {
							c.fail(mk, "make with a length that is not an int")
						}
						name := c.fresh()
						c.pending = append(c.pending, rtBind{name, fmt.Sprintf("grt_make %s", n)})
						return fmt.Sprintf("(grt_append %s %s)", rtCoqVar(bid.Name), name), resT, nil
					}
				}
				x, tx, _ := c.expr(env, call.Args[1], nil)
				if tx.k != rtBytes {
					c.fail(call, "append(b, x...) with x of type %s", tx.goName())
					return "0", rtBadT, nil
				}
				return fmt.Sprintf("(grt_append %s %s)", rtCoqVar(bid.Name), x), resT, nil
			}
			return fmt.Sprintf("(grt_append %s %s)", rtCoqVar(bid.Name), c.byteElems(env, call.Args[1:])), resT, nil
		case "byteSliceToString":
			if len(call.Args) == 1 {
				x, tx, _ := c.expr(env, call.Args[0], nil)
				if tx.k == rtBuf {
					return fmt.Sprintf("(grt_data %s)", x), rtBytesT, nil
				}
			}
			c.fail(call, "byteSliceToString applied to something that is not a []byte")
			return "0", rtBadT, nil
		}
	}
	// math.Float64bits(f)
	if sel, ok := call.Fun.(*ast.SelectorExpr); ok {
		if id, ok := sel.X.(*ast.Ident); ok && g.imports[id.Name] == "math" {
			if sel.Sel.Name == "Float64bits" && len(call.Args) == 1 {
				x, tx, _ := c.expr(env, call.Args[0], nil)
				if tx.k == rtFloat {
					return x, rtU64T, nil
				}
			}
			c.fail(call, "math.%s not supported", sel.Sel.Name)
			return "0", rtBadT, nil
		}
	}
	own, ext, args := rtCallee(g, env, call)
	if own == nil && ext == nil {
		c.fail(call, "call not understood (not a function of this translation nor of GenFuncs.v)")
		return "0", rtBadT, nil
	}
	var ptypes []*rtT
	var name string
	var result *rtT
	var part bool
	if own != nil {
		// a callee whose body could not be translated keeps its golden text (same name and type): its
		// callers are still translated, so that only the tie of the function that was edited breaks
		for _, p := range own.params {
			ptypes = append(ptypes, p.typ)
		}
		name, result, part = own.coq, own.result, own.part
		if own.fuel {
			if c.inLoop > 0 {
				c.fail(call, "call of a function with loops inside a loop")
			}
			name += " fuel"
		}
	} else {
		ext = gfGet(ext.spec.pkg + ":" + ext.spec.fn)
		if ext == nil || !ext.ok || ext.recvOut != nil || ext.result == nil {
			c.fail(call, "call of a function of GenFuncs.v that has no translation")
			return "0", rtBadT, nil
		}
		for _, p := range ext.params {
			if p.typ.kind == gfMsg {
				c.fail(call, "call of a function of GenFuncs.v with a message argument")
				return "0", rtBadT, nil
			}
			pt := rtFromGf(p.typ)
			if pt == nil {
				c.fail(call, "call of a function of GenFuncs.v with an argument of unsupported type")
				return "0", rtBadT, nil
			}
			ptypes = append(ptypes, pt)
		}
		result = rtFromGf(ext.result)
		if result == nil {
			c.fail(call, "call of a function of GenFuncs.v with a result of unsupported type")
			return "0", rtBadT, nil
		}
		name, part = ext.name, ext.partial
	}
	if len(args) != len(ptypes) {
		c.fail(call, "call with %d arguments, %d expected", len(args), len(ptypes))
		return "0", rtBadT, nil
	}
	term := name
	for i, a := range args {
		x, tx, cv := c.expr(env, a, ptypes[i])
		x, tx = c.typed(a, x, tx, cv, ptypes[i])
		if !tx.same(ptypes[i]) {
			c.fail(a, "argument %d has type %s, not %s", i, tx.goName(), ptypes[i].goName())
		}
		term += " " + x
	}
	if part {
		if own == nil {
			term = "grt_lift (" + term + ")"
		}
		tn := c.fresh()
		c.pending = append(c.pending, rtBind{tn, term})
		return tn, result, nil
	}
	return "(" + term + ")", result, nil
}

// ------------------------------------------------------------------ statements

type rtCont func(env *rtEnv) string

type rtLoopCtx struct{ brk, cont rtCont }

// variables of env assigned somewhere in the statements (flattened, in env order)
func (c *rtTr) assigned(env *rtEnv, stmts []ast.Stmt) []rtVar {
	hit := map[string]bool{}
	mark := func(e ast.Expr) {
		switch t := e.(type) {
		case *ast.Ident:
			if vt, ok := env.typ[t.Name]; ok {
				for _, v := range rtFlat(t.Name, vt) {
					hit[v.name] = true
				}
			}
		case *ast.SelectorExpr:
			if id, ok := t.X.(*ast.Ident); ok {
				if _, ok := env.typ[id.Name]; ok {
					hit[rtCoqVar(id.Name)+"_"+t.Sel.Name] = true
				}
			}
		case *ast.IndexExpr:
			if id, ok := t.X.(*ast.Ident); ok {
				if _, ok := env.typ[id.Name]; ok {
					hit[rtCoqVar(id.Name)] = true
				}
			}
		}
	}
	for _, s := range stmts {
		ast.Inspect(s, func(x ast.Node) bool {
			switch t := x.(type) {
			case *ast.AssignStmt:
				if t.Tok != token.DEFINE {
					for _, l := range t.Lhs {
						mark(l)
					}
				}
			case *ast.IncDecStmt:
				mark(t.X)
			}
			return true
		})
	}
	var out []rtVar
	for _, n := range env.order {
		for _, v := range rtFlat(n, env.typ[n]) {
			if hit[v.name] {
				out = append(out, v)
			}
		}
	}
	return out
}

func (c *rtTr) declareNew(n ast.Node, env *rtEnv, name string, t *rtT) bool {
	if name == "_" {
		return true
	}
	if _, dup := env.typ[name]; dup && !(env.closed && c.inMerge == 0 && c.inLoop == 0) {
		c.fail(n, "variable %s declared twice (shadowing is only supported in a block that ends with return)", name)
		return false
	}
	switch t.k {
	case rtInt, rtWord, rtBool, rtStruct, rtBuf, rtBytes:
	default:
		c.fail(n, "variable %s of unsupported type %s", name, t.goName())
		return false
	}
	if t.k == rtBuf {
		t = rtBufT
	}
	env.declare(name, t)
	return true
}

// bufOrigin checks the no-aliasing discipline: a []byte value derived from variable x (append(x, ..), x[:n]) may
// only be stored in a variable named x (or returned).
func (c *rtTr) bufOrigin(n ast.Node, target string, tv *rtT) {
	if tv.k == rtBuf && tv.name != "" && tv.name != "*" && tv.name != target {
		c.fail(n, "a slice derived from %s is stored in %s (two slices would share an array)", tv.name, target)
	}
}

var rtAssignOps = map[token.Token]token.Token{
	token.ADD_ASSIGN: token.ADD, token.SUB_ASSIGN: token.SUB, token.MUL_ASSIGN: token.MUL, token.QUO_ASSIGN: token.QUO,
	token.REM_ASSIGN: token.REM, token.AND_ASSIGN: token.AND, token.OR_ASSIGN: token.OR,
	token.SHL_ASSIGN: token.SHL, token.SHR_ASSIGN: token.SHR,
}

func (c *rtTr) lhsType(env *rtEnv, lhs ast.Expr) *rtT {
	switch t := lhs.(type) {
	case *ast.Ident:
		if vt, ok := env.typ[t.Name]; ok {
			return vt
		}
	case *ast.SelectorExpr:
		if id, ok := t.X.(*ast.Ident); ok {
			if vt, ok := env.typ[id.Name]; ok && vt.k == rtStruct {
				for i, f := range vt.fnames {
					if f == t.Sel.Name {
						return vt.elems[i]
					}
				}
			}
		}
	case *ast.IndexExpr:
		if id, ok := t.X.(*ast.Ident); ok {
			if vt, ok := env.typ[id.Name]; ok && vt.k == rtBuf {
				return rtByteT
			}
		}
	}
	return nil
}

// store handles lhs = rhs, or lhs = lhs op rhs when op != ILLEGAL
func (c *rtTr) store(env *rtEnv, s ast.Stmt, lhs ast.Expr, op token.Token, rhs ast.Expr, rest func() string) string {
	lt := c.lhsType(env, lhs)
	if lt == nil {
		c.fail(s, "assignment target not supported")
		return "BAD"
	}
	var val string
	var tv *rtT
	var cv *big.Int
	if op == token.ILLEGAL {
		val, tv, cv = c.expr(env, rhs, lt)
	} else {
		val, tv, cv = c.binary(env, &ast.BinaryExpr{X: lhs, Op: op, Y: rhs}, lt)
	}
	val, tv = c.typed(s, val, tv, cv, lt)
	if !tv.same(lt) {
		c.fail(s, "assignment of %s to a target of type %s", tv.goName(), lt.goName())
	}
	switch t := lhs.(type) {
	case *ast.IndexExpr:
		id := t.X.(*ast.Ident)
		i, ti, ci := c.expr(env, t.Index, rtIntT)
		i, ti = c.typed(s, i, ti, ci, rtIntT)
		if ti.k != rtInt {
			c.fail(s, "index of type %s (only int is supported)", ti.goName())
		}
		binds := c.take()
		if !c.partial {
			c.fail(s, "internal: store in code classified as total")
		}
		return c.wrapBinds(binds, fmt.Sprintf("do %s <- grt_store %s %s %s;\n  %s", rtCoqVar(id.Name), rtCoqVar(id.Name), i, val, rest()))
	case *ast.Ident:
		c.bufOrigin(s, t.Name, tv)
		binds := c.take()
		return c.wrapBinds(binds, fmt.Sprintf("let %s := %s in\n  %s", rtPattern(t.Name, lt), val, rest()))
	case *ast.SelectorExpr:
		id := t.X.(*ast.Ident)
		binds := c.take()
		return c.wrapBinds(binds, fmt.Sprintf("let %s_%s := %s in\n  %s", rtCoqVar(id.Name), t.Sel.Name, val, rest()))
	}
	c.fail(s, "assignment target not supported")
	return "BAD"
}

func rtEndsWithReturn(list []ast.Stmt) bool {
	if len(list) == 0 {
		return false
	}
	_, ok := list[len(list)-1].(*ast.ReturnStmt)
	return ok
}

func (c *rtTr) block(env *rtEnv, stmts []ast.Stmt, lp *rtLoopCtx, k rtCont) string {
	if c.bad {
		return "BAD"
	}
	if len(stmts) == 0 {
		return k(env)
	}
	s := stmts[0]
	rest := func() string { return c.block(env, stmts[1:], lp, k) }
	switch t := s.(type) {
	case *ast.EmptyStmt:
		return rest()
	case *ast.ReturnStmt:
		if c.inMerge > 0 || c.inLoop > 0 {
			c.fail(s, "return inside a loop or a merged branch")
			return "BAD"
		}
		if len(stmts) > 1 {
			c.fail(s, "statements after return")
			return "BAD"
		}
		if c.f.result.k == rtUnit {
			if len(t.Results) != 0 {
				c.fail(s, "return with a value")
			}
			return c.ret("tt")
		}
		if len(t.Results) != 1 {
			c.fail(s, "return with %d values", len(t.Results))
			return "BAD"
		}
		x, tx, cv := c.expr(env, t.Results[0], c.f.result)
		x, tx = c.typed(s, x, tx, cv, c.f.result)
		if !tx.same(c.f.result) {
			c.fail(s, "return of %s, declared %s", tx.goName(), c.f.result.goName())
		}
		binds := c.take()
		return c.wrapBinds(binds, c.ret(x))
	case *ast.IncDecStmt:
		op := token.ADD
		if t.Tok == token.DEC {
			op = token.SUB
		}
		return c.store(env, s, t.X, op, &ast.BasicLit{Kind: token.INT, Value: "1"}, rest)
	case *ast.AssignStmt:
		if t.Tok == token.DEFINE {
			if len(t.Rhs) == 1 && len(t.Lhs) > 1 { // a, b := f(..)
				x, tx, _ := c.expr(env, t.Rhs[0], nil)
				if tx.k != rtTuple || len(tx.elems) != len(t.Lhs) {
					c.fail(s, "definition of several variables from one value not understood")
					return "BAD"
				}
				binds := c.take()
				var pat []string
				for i, l := range t.Lhs {
					id, ok := l.(*ast.Ident)
					if !ok {
						c.fail(s, "definition target not supported")
						return "BAD"
					}
					if id.Name == "_" {
						pat = append(pat, "_")
						continue
					}
					if !c.declareNew(s, env, id.Name, tx.elems[i]) {
						return "BAD"
					}
					pat = append(pat, strings.TrimPrefix(rtPattern(id.Name, tx.elems[i]), "'"))
				}
				return c.wrapBinds(binds, fmt.Sprintf("let '(%s) := %s in\n  %s", strings.Join(pat, ", "), x, rest()))
			}
			if len(t.Lhs) != 1 || len(t.Rhs) != 1 {
				c.fail(s, "definition with %d targets and %d values", len(t.Lhs), len(t.Rhs))
				return "BAD"
			}
			id, ok := t.Lhs[0].(*ast.Ident)
			if !ok {
				c.fail(s, "definition target not supported")
				return "BAD"
			}
			x, tx, cv := c.expr(env, t.Rhs[0], nil)
			x, tx = c.typed(s, x, tx, cv, nil)
			binds := c.take()
			c.bufOrigin(s, id.Name, tx)
			if !c.declareNew(s, env, id.Name, tx) {
				return "BAD"
			}
			if id.Name == "_" {
				return c.wrapBinds(binds, rest())
			}
			return c.wrapBinds(binds, fmt.Sprintf("let %s := %s in\n  %s", rtPattern(id.Name, env.typ[id.Name]), x, rest()))
		}
		if len(t.Lhs) != 1 || len(t.Rhs) != 1 {
			c.fail(s, "parallel assignment not supported")
			return "BAD"
		}
		if t.Tok == token.ASSIGN {
			return c.store(env, s, t.Lhs[0], token.ILLEGAL, t.Rhs[0], rest)
		}
		op, ok := rtAssignOps[t.Tok]
		if !ok {
			c.fail(s, "assignment operator %s not supported", t.Tok)
			return "BAD"
		}
		return c.store(env, s, t.Lhs[0], op, t.Rhs[0], rest)
	case *ast.IfStmt:
		if t.Init != nil {
			c.fail(s, "if with an init statement not supported")
			return "BAD"
		}
		cond, tc, _ := c.expr(env, t.Cond, rtBoolT)
		if tc.k != rtBool {
			c.fail(s, "condition is not boolean")
			return "BAD"
		}
		binds := c.take()
		var elseStmts []ast.Stmt
		switch e := t.Else.(type) {
		case nil:
		case *ast.BlockStmt:
			elseStmts = e.List
		case *ast.IfStmt:
			elseStmts = []ast.Stmt{e}
		default:
			c.fail(s, "else branch not supported")
			return "BAD"
		}
		jump := gfEscapes(t.Body) || (t.Else != nil && gfEscapes(t.Else))
		if !jump {
			part := rtNodePartial(c.g, t.Body) || (t.Else != nil && rtNodePartial(c.g, t.Else))
			vars := c.assigned(env, append(append([]ast.Stmt{}, t.Body.List...), elseStmts...))
			if len(vars) == 0 && !part {
				return c.wrapBinds(binds, rest())
			}
			val, pat := "tt", "_"
			if len(vars) > 0 {
				val, pat = rtTupleOf(vars)
			}
			wasPartial := c.partial
			if part && !wasPartial {
				c.fail(s, "internal: branch that can panic in code classified as total")
			}
			c.partial = part
			c.inMerge++
			end := func(*rtEnv) string { return c.ret(val) }
			a := c.block(env.clone(), t.Body.List, nil, end)
			b := c.block(env.clone(), elseStmts, nil, end)
			c.inMerge--
			c.partial = wasPartial
			if part {
				return c.wrapBinds(binds, fmt.Sprintf("do %s <- (if %s\n  then (%s)\n  else (%s));\n  %s", strings.TrimPrefix(pat, "'"), cond, a, b, rest()))
			}
			return c.wrapBinds(binds, fmt.Sprintf("let %s := (if %s then (%s) else (%s)) in\n  %s", pat, cond, a, b, rest()))
		}
		base := env.clone() // both branches may fall through: the rest is translated afresh for each
		after := func(*rtEnv) string { return c.block(base.clone(), stmts[1:], lp, k) }
		ea := env.clone()
		ea.closed = rtEndsWithReturn(t.Body.List)
		eb := env.clone()
		eb.closed = rtEndsWithReturn(elseStmts)
		a := c.block(ea, t.Body.List, lp, after)
		b := c.block(eb, elseStmts, lp, after)
		return c.wrapBinds(binds, fmt.Sprintf("if %s\n  then (%s)\n  else (%s)", cond, a, b))
	case *ast.BranchStmt:
		if t.Label != nil || lp == nil {
			c.fail(s, "%s not supported here", t.Tok)
			return "BAD"
		}
		switch t.Tok {
		case token.BREAK:
			return lp.brk(env)
		case token.CONTINUE:
			return lp.cont(env)
		}
	case *ast.ForStmt:
		if gfHasReturn(t) {
			c.fail(s, "loop with a return (or panic) inside")
			return "BAD"
		}
		return c.loop(env, t, rest)
	}
	c.fail(s, "statement %T not supported", s)
	return "BAD"
}

// loop: a Fixpoint over its own counter from the variables the loop mentions to the new values of the outer
// variables it assigns.
func (c *rtTr) loop(env *rtEnv, t *ast.ForStmt, rest func() string) string {
	if !c.partial || !c.f.fuel {
		c.fail(t, "internal: loop in a function classified as free of loops")
		return "BAD"
	}
	if c.inLoop > 0 {
		c.fail(t, "nested loop")
		return "BAD"
	}
	lenv := env.clone()
	var initStmts []ast.Stmt
	if t.Init != nil {
		initStmts = []ast.Stmt{t.Init}
	}
	return c.block(lenv, initStmts, nil, func(*rtEnv) string {
		stmts := append([]ast.Stmt{}, t.Body.List...)
		if t.Post != nil {
			stmts = append(stmts, t.Post)
		}
		outVars := c.assigned(env, stmts)
		val, pat := "tt", "_"
		var outTypes []string
		if len(outVars) > 0 {
			val, pat = rtTupleOf(outVars)
			for _, v := range outVars {
				outTypes = append(outTypes, v.typ.coq())
			}
		} else {
			outTypes = []string{"unit"}
		}
		used := map[string]bool{}
		note := func(n ast.Node) {
			ast.Inspect(n, func(x ast.Node) bool {
				switch t := x.(type) {
				case *ast.Ident:
					used[t.Name] = true
				case *ast.SelectorExpr:
					if id, ok := t.X.(*ast.Ident); ok {
						used[id.Name] = true
						return false
					}
				}
				return true
			})
		}
		if t.Cond != nil {
			note(t.Cond)
		}
		note(t.Body)
		if t.Post != nil {
			note(t.Post)
		}
		var params, args []string
		for _, n := range lenv.order {
			if !used[n] {
				continue
			}
			for _, v := range rtFlat(n, lenv.typ[n]) {
				params = append(params, fmt.Sprintf("(%s : %s)", v.name, v.typ.coq()))
				args = append(args, v.name)
			}
		}
		idx := len(c.aux)
		c.aux = append(c.aux, "") // the number of a loop is its position in the source
		c.nloop++
		name := fmt.Sprintf("%s_loop%d", c.f.coq, c.nloop)
		c.inLoop++
		exit := func(*rtEnv) string { return "Ok " + val }
		recur := func(*rtEnv) string {
			post := []ast.Stmt{}
			if t.Post != nil {
				post = append(post, t.Post)
			}
			return c.block(lenv.clone(), post, nil, func(*rtEnv) string {
				return fmt.Sprintf("%s k' %s", name, strings.Join(args, " "))
			})
		}
		body := c.block(lenv.clone(), t.Body.List, &rtLoopCtx{brk: exit, cont: recur}, recur)
		if t.Cond != nil {
			cond, tc, _ := c.expr(lenv, t.Cond, rtBoolT)
			if tc.k != rtBool {
				c.fail(t, "loop condition is not boolean")
			}
			binds := c.take()
			body = c.wrapBinds(binds, fmt.Sprintf("if %s\n  then (%s)\n  else (%s)", cond, body, exit(lenv)))
		}
		c.inLoop--
		c.aux[idx] = fmt.Sprintf("Fixpoint %s (k : nat) %s {struct k} : outcome (%s) :=\n  match k with\n  | O => Panic\n  | S k' =>\n  %s\n  end.\n",
			name, strings.Join(params, " "), strings.Join(outTypes, " * "), body)
		return fmt.Sprintf("do %s <- %s fuel %s;\n  %s", strings.TrimPrefix(pat, "'"), name, strings.Join(args, " "), rest())
	})
}

// ------------------------------------------------------------------ one function

func rtSource(p *pkgInfo, fd *ast.FuncDecl) string {
	cp := *fd
	cp.Doc = nil
	var b bytes.Buffer
	if err := printer.Fprint(&b, p.fset, &cp); err != nil {
		return ""
	}
	s := b.String()
	s = strings.ReplaceAll(s, "(*", "( *")
	s = strings.ReplaceAll(s, "*)", "* )")
	if strings.Count(s, "\"")%2 == 1 {
		s = strings.ReplaceAll(s, "\"", "'")
	}
	for _, w := range []string{"Admitted", "admit", "Axiom", "Parameter", "Conjecture", "Variable", "Hypothesis", "Guard", "native"} {
		if strings.Contains(s, w) {
			return ""
		}
	}
	return s
}

func rtSignature(g *gfPkg, f *rtFunc) bool {
	bad := func(format string, a ...interface{}) bool {
		problem("internal/ryu text translation: function %s: %s", f.goName, fmt.Sprintf(format, a...))
		return false
	}
	fd := f.fd
	if fd.Body == nil || fd.Type.TypeParams != nil {
		return bad("no body, or generic")
	}
	seen := map[string]bool{}
	add := func(name string, te ast.Expr) bool {
		pt := rtResolve(g, te)
		if pt == nil {
			return bad("parameter %s: type not supported", name)
		}
		switch pt.k {
		case rtInt, rtWord, rtBool, rtBuf, rtStruct, rtFloat:
		default:
			return bad("parameter %s: type %s not supported", name, pt.goName())
		}
		if name == "_" || name == "" || seen[name] {
			return bad("parameter without a name of its own")
		}
		seen[name] = true
		f.params = append(f.params, rtVar{name, pt})
		return true
	}
	if fd.Recv != nil {
		if len(fd.Recv.List) != 1 || len(fd.Recv.List[0].Names) != 1 {
			return bad("receiver not understood")
		}
		if _, ptr := fd.Recv.List[0].Type.(*ast.StarExpr); ptr {
			return bad("pointer receiver")
		}
		if !add(fd.Recv.List[0].Names[0].Name, fd.Recv.List[0].Type) {
			return false
		}
	}
	for _, fl := range fd.Type.Params.List {
		if _, variadic := fl.Type.(*ast.Ellipsis); variadic || len(fl.Names) == 0 {
			return bad("variadic or unnamed parameter")
		}
		for _, n := range fl.Names {
			if !add(n.Name, fl.Type) {
				return false
			}
		}
	}
	f.result = rtUnitT
	if fd.Type.Results != nil && len(fd.Type.Results.List) > 0 {
		if len(fd.Type.Results.List) != 1 || len(fd.Type.Results.List[0].Names) != 0 {
			return bad("several or named results")
		}
		rt := rtResolve(g, fd.Type.Results.List[0].Type)
		if rt == nil {
			return bad("result type not supported")
		}
		switch rt.k {
		case rtInt, rtWord, rtBool, rtBuf, rtBytes:
		default:
			return bad("result type %s not supported", rt.goName())
		}
		f.result = rt
	}
	f.part = rtNodePartial(g, fd.Body)
	f.fuel = rtNeedsFuel(fd.Body)
	return true
}

func rtTranslate(g *gfPkg, f *rtFunc) {
	c := &rtTr{g: g, f: f, partial: f.part}
	env := &rtEnv{typ: map[string]*rtT{}}
	for _, p := range f.params {
		env.declare(p.name, p.typ)
	}
	env.closed = false
	body := c.block(env, f.fd.Body.List, nil, func(*rtEnv) string {
		if f.result.k == rtUnit {
			return c.ret("tt")
		}
		c.fail(f.fd, "control reaches the end of a function with a result")
		return "BAD"
	})
	if c.bad {
		return
	}
	var b strings.Builder
	if src := rtSource(g.p, f.fd); src != "" {
		fmt.Fprintf(&b, "(* %s\n%s *)\n", rtPkg, src)
	}
	for _, a := range c.aux {
		b.WriteString(a)
	}
	var ps []string
	if f.fuel {
		ps = append(ps, "(fuel : nat)")
	}
	destruct := ""
	for _, p := range f.params {
		ps = append(ps, fmt.Sprintf("(%s : %s)", rtCoqVar(p.name), p.typ.coq()))
		if p.typ.k == rtStruct {
			destruct += fmt.Sprintf("let %s := %s in\n  ", rtPattern(p.name, p.typ), rtCoqVar(p.name))
		}
	}
	rt := f.result.coq()
	if f.part {
		rt = "outcome " + rt
	}
	fmt.Fprintf(&b, "Definition %s %s : %s :=\n  %s%s.\n", f.coq, strings.Join(ps, " "), rt, destruct, body)
	f.text = b.String()
	f.ok = true
}

// ------------------------------------------------------------------ the file

func genRyuText() string {
	g := gfLoad(rtPkg)
	p := g.p
	for name, want := range rtVocabulary {
		fd, ok := p.funcs[name]
		if !ok || fd.Body == nil {
			problem("internal/ryu text translation: function %s not found in %s", name, rtPkg)
			continue
		}
		var b bytes.Buffer
		printer.Fprint(&b, p.fset, fd.Body)
		if b.String() != want {
			problem("internal/ryu text translation: the body of %s is not the one the vocabulary of the translation stands for", name)
		}
	}
	var order []*rtFunc
	for _, n := range rtSpecs {
		short := n[strings.LastIndex(n, ".")+1:]
		f := &rtFunc{goName: n, coq: "grt_" + short}
		order = append(order, f)
		fd, ok := p.funcs[n]
		if !ok {
			problem("internal/ryu text translation: function %s not found in %s", n, rtPkg)
			continue
		}
		f.fd = fd
		if !rtSignature(g, f) {
			f.fd = nil
			continue
		}
		rtFuncs[n] = f // visible to its callers from here on (a callee stands before its callers in rtSpecs)
		rtTranslate(g, f)
	}
	golden := ""
	if fl := flag.Lookup("golden"); fl != nil && fl.Value.String() != "" {
		if gb, err := os.ReadFile(filepath.Join(fl.Value.String(), "GenRyuText.v")); err == nil {
			golden = string(gb)
		}
	}
	var b strings.Builder
	b.WriteString(rtPreamble)
	for _, f := range order {
		text := f.text
		if !f.ok {
			old, found := gfGoldenBlock(golden, f.coq)
			if !found {
				continue
			}
			text = "(* FALLBACK " + f.coq + ": not derivable from the current source; text of the last validated tree *)\n" + old
		}
		fmt.Fprintf(&b, "(* BEGIN %s *)\n%s(* END %s *)\n\n", f.coq, text, f.coq)
	}
	b.WriteString("End GenRyuText.\n")
	return b.String()
}
