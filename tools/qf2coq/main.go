// qf2coq regenerates the Coq files under coq/Gen from the Go sources of tobgu/qframe (tie T1).
//
//	qf2coq -repo /repo -out /verif/coq/Gen
//
// It understands a small number of source shapes and fails loudly (exit 3, one line per problem
// on stderr starting with "qf2coq: ") on anything else; a failure is a broken correspondence and
// is reported as such by ./check.  Files are only rewritten when their content changes so that
// make does not rebuild the development needlessly.
//
// Generated:
//
//	GenConsts.v   named constants and the integer literals of the functions listed in constSpecs
//	GenTables.v   map literals (filter tables, aggregation tables, filter.Inverse, apply tables)
//	GenRyu.v      pow5Split64 / pow5InvSplit64 / powersOf10
//	GenKernels.v  the filter loop kernels of internal/*column as deep-embedded cell predicates
package main

import (
	"bytes"
	"crypto/sha256"
	"encoding/hex"
	"flag"
	"fmt"
	"go/ast"
	"go/parser"
	"go/printer"
	"go/token"
	"math/big"
	"os"
	"path/filepath"
	"regexp"
	"sort"
	"strconv"
	"strings"
)

var problems []string

func problem(format string, a ...interface{}) {
	problems = append(problems, fmt.Sprintf(format, a...))
}

type pkgInfo struct {
	fset  *token.FileSet
	files map[string]*ast.File // by base name
	funcs map[string]*ast.FuncDecl
	// package level constants and vars
	consts map[string]ast.Expr
	vars   map[string]ast.Expr
}

var repo string
var pkgs = map[string]*pkgInfo{}

func loadPkg(dir string) *pkgInfo {
	if p, ok := pkgs[dir]; ok {
		return p
	}
	p := &pkgInfo{fset: token.NewFileSet(), files: map[string]*ast.File{}, funcs: map[string]*ast.FuncDecl{}, consts: map[string]ast.Expr{}, vars: map[string]ast.Expr{}}
	pkgs[dir] = p
	full := filepath.Join(repo, dir)
	ents, err := os.ReadDir(full)
	if err != nil {
		problem("cannot read %s: %v", dir, err)
		return p
	}
	for _, e := range ents {
		n := e.Name()
		if e.IsDir() || !strings.HasSuffix(n, ".go") || strings.HasSuffix(n, "_test.go") || strings.HasPrefix(n, "verif_") {
			continue
		}
		f, err := parser.ParseFile(p.fset, filepath.Join(full, n), nil, parser.SkipObjectResolution)
		if err != nil {
			problem("parse %s/%s: %v", dir, n, err)
			continue
		}
		// skip files excluded by build tags we do not use (e.g. generators with +build ignore)
		skip := false
		for _, cg := range f.Comments {
			if cg.Pos() < f.Package {
				t := cg.Text()
				if strings.Contains(t, "+build ignore") || strings.Contains(t, "go:build ignore") || strings.Contains(t, "go:build verif") {
					skip = true
				}
			}
		}
		if skip {
			continue
		}
		p.files[n] = f
		for _, d := range f.Decls {
			switch t := d.(type) {
			case *ast.FuncDecl:
				name := t.Name.Name
				if t.Recv != nil && len(t.Recv.List) == 1 {
					name = recvName(t.Recv.List[0].Type) + "." + name
				}
				p.funcs[name] = t
			case *ast.GenDecl:
				if t.Tok == token.CONST || t.Tok == token.VAR {
					for _, s := range t.Specs {
						vs := s.(*ast.ValueSpec)
						for i, id := range vs.Names {
							if i < len(vs.Values) {
								if t.Tok == token.CONST {
									p.consts[id.Name] = vs.Values[i]
								} else {
									p.vars[id.Name] = vs.Values[i]
								}
							}
						}
					}
				}
			}
		}
	}
	return p
}

func recvName(e ast.Expr) string {
	switch t := e.(type) {
	case *ast.StarExpr:
		return recvName(t.X)
	case *ast.Ident:
		return t.Name
	}
	return "?"
}

// ------------------------------------------------------------------ constant evaluation

// evalConst evaluates an integer/float constant expression (literals, named constants of the
// package, + - * / << >> | & and parentheses, conversions like uint64(1)).
func evalConst(p *pkgInfo, e ast.Expr) (*big.Rat, bool) {
	switch t := e.(type) {
	case *ast.BasicLit:
		switch t.Kind {
		case token.INT:
			v, ok := new(big.Int).SetString(strings.ReplaceAll(t.Value, "_", ""), 0)
			if !ok {
				return nil, false
			}
			return new(big.Rat).SetInt(v), true
		case token.FLOAT:
			v, ok := new(big.Rat).SetString(t.Value)
			return v, ok
		case token.CHAR:
			s, err := strconv.Unquote(t.Value)
			if err != nil || len([]rune(s)) != 1 {
				return nil, false
			}
			return new(big.Rat).SetInt64(int64([]rune(s)[0])), true
		}
	case *ast.Ident:
		if c, ok := p.consts[t.Name]; ok {
			return evalConst(p, c)
		}
	case *ast.ParenExpr:
		return evalConst(p, t.X)
	case *ast.CallExpr:
		if len(t.Args) == 1 {
			if id, ok := t.Fun.(*ast.Ident); ok {
				switch id.Name {
				case "uint64", "uint32", "int32", "int", "int64", "uint", "byte", "uint8", "Pointer", "enumVal":
					return evalConst(p, t.Args[0])
				}
			}
		}
	case *ast.BinaryExpr:
		a, ok1 := evalConst(p, t.X)
		b, ok2 := evalConst(p, t.Y)
		if !ok1 || !ok2 {
			return nil, false
		}
		switch t.Op {
		case token.ADD:
			return new(big.Rat).Add(a, b), true
		case token.SUB:
			return new(big.Rat).Sub(a, b), true
		case token.MUL:
			return new(big.Rat).Mul(a, b), true
		case token.SHL:
			if a.IsInt() && b.IsInt() {
				return new(big.Rat).SetInt(new(big.Int).Lsh(a.Num(), uint(b.Num().Int64()))), true
			}
		}
	}
	return nil, false
}

// intLits collects, in source order, the integer (and char) literals inside a function body.
func intLits(fd *ast.FuncDecl) []*ast.BasicLit {
	var out []*ast.BasicLit
	ast.Inspect(fd.Body, func(n ast.Node) bool {
		if bl, ok := n.(*ast.BasicLit); ok && (bl.Kind == token.INT || bl.Kind == token.CHAR || bl.Kind == token.FLOAT) {
			out = append(out, bl)
		}
		return true
	})
	return out
}

type constSpec struct {
	pkg   string
	fn    string   // "" = package level constant(s)
	names []string // for fn != "": one name per literal in source order ("_" = not exported);
	// for fn == "": the constant identifiers to export
}

var constSpecs = []constSpec{
	{"internal/strings", "", []string{"nullBit"}},
	{"internal/strings", "NewPointer", []string{"ptr_new_shift"}},
	{"internal/strings", "Pointer.Offset", []string{"ptr_off_shift", "ptr_off_mask"}},
	{"internal/strings", "Pointer.Len", []string{"ptr_len_mask"}},
	{"internal/strings", "Pointer.IsNull", []string{"ptr_null_cmp"}},
	{"internal/ecolumn", "", []string{"maxCardinality", "nullValue"}},
	{"internal/ecolumn", "bitset.set", []string{"bitset_set_shift", "bitset_set_one", "bitset_set_mask"}},
	{"internal/ecolumn", "bitset.isSet", []string{"bitset_isset_shift", "bitset_isset_one", "bitset_isset_mask", "bitset_isset_cmp"}},
	{"internal/ecolumn", "enumVal.compVal", []string{"compval_null"}},
	{"internal/grouper", "", []string{"growthFactor", "maxLoadFactor"}},
	{"internal/grouper", "calculateInitialSizeExp", []string{"grouper_fit_div", "grouper_min_exp"}},
	{"internal/sort", "quickSort", []string{"qs_insertion_max", "qs_depth_zero", "qs_one", "qs_gap_a", "qs_gap_b", "qs_gap_c"}},
	{"internal/sort", "insertionSort", []string{"is_one", "is_prev_a", "is_prev_b"}},
	{"internal/sort", "siftDown", []string{"sd_two", "sd_one_a", "sd_one_b", "sd_one_c"}},
	{"internal/sort", "heapSort", []string{"hs_lo", "hs_one_a", "hs_two", "hs_zero_a", "hs_one_b", "hs_zero_b"}},
	{"internal/sort", "maxDepth", []string{"md_zero", "md_shift", "md_mul"}},
	{"internal/sort", "doPivot", []string{"dp_m_shift", "dp_ninther_min", "dp_ninther_div", "dp_two_a", "dp_one_a", "dp_one_b", "dp_one_c", "dp_two_b", "dp_one_d", "dp_one_e", "dp_one_f", "dp_one_g", "dp_one_h", "dp_protect", "dp_quarter", "dp_dups0", "dp_one_i", "dp_one_j", "dp_one_k", "dp_one_l", "dp_dups_min", "dp_one_m", "dp_one_n", "dp_one_o", "dp_one_p"}},
	{"internal/fastcsv", "bufferedReader.more", []string{"csv_grow_mul", "csv_grow_add"}},
	{"internal/fastcsv", "NewReader", []string{"csv_init_len", "csv_init_cap", "csv_fields_len", "csv_fields_cap"}},
	{"internal/ryu", "", []string{"mantBits64", "expBits64", "bias64", "pow5NumBits64", "pow5InvNumBits64"}},
	{"internal/ryu", "log10Pow2", []string{"l10p2_min", "l10p2_max", "l10p2_mul", "l10p2_shift"}},
	{"internal/ryu", "log10Pow5", []string{"l10p5_min", "l10p5_max", "l10p5_mul", "l10p5_shift"}},
	{"internal/ryu", "pow5Bits", []string{"p5b_min", "p5b_max", "p5b_mul", "p5b_shift", "p5b_add"}},
}

func coqNum(r *big.Rat) (string, bool) {
	if r.IsInt() {
		if r.Sign() < 0 {
			return "", false
		}
		return r.Num().String() + "%N", true
	}
	return "", false
}

func genConsts() string {
	var b strings.Builder
	b.WriteString("(* GENERATED by tools/qf2coq from the Go sources of tobgu/qframe — do not edit. *)\nFrom Coq Require Import NArith.\n\n")
	for _, cs := range constSpecs {
		p := loadPkg(cs.pkg)
		if cs.fn == "" {
			for _, n := range cs.names {
				e, ok := p.consts[n]
				if !ok {
					problem("constant %s not found in %s", n, cs.pkg)
					continue
				}
				v, ok := evalConst(p, e)
				if !ok {
					problem("constant %s in %s is not a constant expression I can evaluate", n, cs.pkg)
					continue
				}
				if s, ok := coqNum(v); ok {
					fmt.Fprintf(&b, "Definition c_%s : N := %s.\n", n, s)
				} else {
					fmt.Fprintf(&b, "Definition c_%s_num : N := %s%%N.\nDefinition c_%s_den : N := %s%%N.\n", n, v.Num().String(), n, v.Denom().String())
				}
			}
			continue
		}
		fd, ok := p.funcs[cs.fn]
		if !ok {
			problem("function %s not found in %s", cs.fn, cs.pkg)
			continue
		}
		lits := intLits(fd)
		if len(lits) != len(cs.names) {
			problem("function %s in %s has %d numeric literals, the model expects %d (its shape changed)", cs.fn, cs.pkg, len(lits), len(cs.names))
			continue
		}
		for i, n := range cs.names {
			if n == "_" {
				continue
			}
			v, ok := evalConst(p, lits[i])
			if !ok {
				problem("literal %d of %s in %s not understood", i, cs.fn, cs.pkg)
				continue
			}
			s, ok := coqNum(v)
			if !ok {
				problem("literal %d of %s in %s is not a natural number", i, cs.fn, cs.pkg)
				continue
			}
			fmt.Fprintf(&b, "Definition c_%s : N := %s.\n", n, s)
		}
	}
	return b.String()
}

// ------------------------------------------------------------------ tables

func coqBytes(s string) string {
	if len(s) == 0 {
		return "(@nil N)"
	}
	return fmt.Sprintf("(bs %d 0x%s)", len(s), hex.EncodeToString([]byte(s)))
}

// stringOf resolves a map key/value: string literal, identifier constant, or pkg.Const selector.
func stringOf(p *pkgInfo, e ast.Expr) (string, bool) {
	switch t := e.(type) {
	case *ast.BasicLit:
		if t.Kind == token.STRING {
			s, err := strconv.Unquote(t.Value)
			return s, err == nil
		}
	case *ast.Ident:
		if c, ok := p.consts[t.Name]; ok {
			return stringOf(p, c)
		}
	case *ast.SelectorExpr:
		if id, ok := t.X.(*ast.Ident); ok && id.Name == "filter" {
			fp := loadPkg("filter")
			if c, ok := fp.consts[t.Sel.Name]; ok {
				return stringOf(fp, c)
			}
		}
	}
	return "", false
}

type tableSpec struct {
	pkg, varName, coqName string
	valIsString           bool // values are strings (filter.Inverse); else identifiers (function names)
}

var tableSpecs = []tableSpec{
	{"filter", "Inverse", "t_filter_inverse", true},
	{"internal/icolumn", "filterFuncs", "t_i_filter1", false},
	{"internal/icolumn", "multiInputFilterFuncs", "t_i_filterN", false},
	{"internal/icolumn", "filterFuncs2", "t_i_filter2", false},
	{"internal/icolumn", "filterFuncs0", "t_i_filter0", false},
	{"internal/fcolumn", "filterFuncs0", "t_f_filter0", false},
	{"internal/fcolumn", "filterFuncs1", "t_f_filter1", false},
	{"internal/fcolumn", "filterFuncs2", "t_f_filter2", false},
	{"internal/bcolumn", "filterFuncs", "t_b_filter1", false},
	{"internal/bcolumn", "filterFuncs2", "t_b_filter2", false},
	{"internal/scolumn", "filterFuncs0", "t_s_filter0", false},
	{"internal/scolumn", "filterFuncs1", "t_s_filter1", false},
	{"internal/scolumn", "multiInputFilterFuncs", "t_s_filterN", false},
	{"internal/scolumn", "filterFuncs2", "t_s_filter2", false},
	{"internal/ecolumn", "filterFuncs0", "t_e_filter0", false},
	{"internal/ecolumn", "filterFuncs1", "t_e_filter1", false},
	{"internal/ecolumn", "filterFuncs2", "t_e_filter2", false},
	{"internal/ecolumn", "multiFilterFuncs", "t_e_filterLike", false},
	{"internal/ecolumn", "multiInputFilterFuncs", "t_e_filterN", false},
	{"internal/icolumn", "aggregations", "t_i_aggregations", false},
	{"internal/fcolumn", "aggregations", "t_f_aggregations", false},
	{"internal/bcolumn", "aggregations", "t_b_aggregations", false},
	{"internal/scolumn", "stringApplyFuncs", "t_s_apply", false},
	{"internal/ecolumn", "enumApplyFuncs", "t_e_apply", false},
}

func genTables() string {
	var b strings.Builder
	b.WriteString("(* GENERATED by tools/qf2coq from the Go sources of tobgu/qframe — do not edit.\n   Every map literal becomes an association list sorted by key (Go map order is irrelevant). *)\nFrom QF Require Import Base.Prelude.\nLocal Open Scope N_scope.\n\n")
	for _, ts := range tableSpecs {
		p := loadPkg(ts.pkg)
		e, ok := p.vars[ts.varName]
		if !ok {
			problem("table %s not found in %s", ts.varName, ts.pkg)
			continue
		}
		cl, ok := e.(*ast.CompositeLit)
		if !ok {
			problem("table %s in %s is not a composite literal", ts.varName, ts.pkg)
			continue
		}
		type kv struct{ k, v string }
		var kvs []kv
		for _, el := range cl.Elts {
			kve, ok := el.(*ast.KeyValueExpr)
			if !ok {
				problem("table %s in %s: element is not key: value", ts.varName, ts.pkg)
				continue
			}
			k, ok := stringOf(p, kve.Key)
			if !ok {
				problem("table %s in %s: key not understood", ts.varName, ts.pkg)
				continue
			}
			var v string
			if ts.valIsString {
				v, ok = stringOf(p, kve.Value)
				if !ok {
					problem("table %s in %s: value of %q not understood", ts.varName, ts.pkg, k)
					continue
				}
			} else {
				id, ok := kve.Value.(*ast.Ident)
				if !ok {
					problem("table %s in %s: value of %q is not a function name", ts.varName, ts.pkg, k)
					continue
				}
				v = id.Name
			}
			kvs = append(kvs, kv{k, v})
		}
		sort.Slice(kvs, func(i, j int) bool { return kvs[i].k < kvs[j].k })
		fmt.Fprintf(&b, "Definition %s : list (bytes * bytes) := [\n", ts.coqName)
		for i, x := range kvs {
			sep := ";"
			if i == len(kvs)-1 {
				sep = ""
			}
			fmt.Fprintf(&b, "  (%s, %s)%s  (* %q -> %q *)\n", coqBytes(x.k), coqBytes(x.v), sep, x.k, x.v)
		}
		b.WriteString("].\n\n")
	}
	return b.String()
}

// ------------------------------------------------------------------ ryu tables

func genRyu() string {
	var b strings.Builder
	b.WriteString("(* GENERATED by tools/qf2coq from internal/ryu/tables.go and ryu64.go — do not edit.\n   uint128{lo, hi} literals are emitted as (lo, hi). *)\nFrom Coq Require Import NArith List.\nImport ListNotations.\nLocal Open Scope N_scope.\n\n")
	p := loadPkg("internal/ryu")
	for _, tn := range []string{"pow5Split64", "pow5InvSplit64"} {
		e, ok := p.vars[tn]
		if !ok {
			problem("ryu table %s not found", tn)
			continue
		}
		cl, ok := e.(*ast.CompositeLit)
		if !ok {
			problem("ryu table %s is not a composite literal", tn)
			continue
		}
		fmt.Fprintf(&b, "Definition g_%s : list (N * N) := [\n", tn)
		for i, el := range cl.Elts {
			pair, ok := el.(*ast.CompositeLit)
			if !ok || len(pair.Elts) != 2 {
				problem("ryu table %s entry %d is not {lo, hi}", tn, i)
				continue
			}
			lo, ok1 := evalConst(p, pair.Elts[0])
			hi, ok2 := evalConst(p, pair.Elts[1])
			if !ok1 || !ok2 || !lo.IsInt() || !hi.IsInt() {
				problem("ryu table %s entry %d not numeric", tn, i)
				continue
			}
			sep := ";"
			if i == len(cl.Elts)-1 {
				sep = ""
			}
			fmt.Fprintf(&b, "  (%s, %s)%s\n", lo.Num().String(), hi.Num().String(), sep)
		}
		b.WriteString("].\n\n")
	}
	if e, ok := p.vars["powersOf10"]; ok {
		if cl, ok := e.(*ast.CompositeLit); ok {
			b.WriteString("Definition g_powersOf10 : list N := [\n")
			for i, el := range cl.Elts {
				v, ok := evalConst(p, el)
				if !ok || !v.IsInt() {
					problem("powersOf10 entry %d not an integer", i)
					continue
				}
				sep := ";"
				if i == len(cl.Elts)-1 {
					sep = ""
				}
				fmt.Fprintf(&b, "  %s%s\n", v.Num().String(), sep)
			}
			b.WriteString("].\n")
		} else {
			problem("powersOf10 is not a composite literal")
		}
	} else {
		problem("powersOf10 not found")
	}
	return b.String()
}

// ------------------------------------------------------------------ output

// withFallbacks appends, for every top-level Definition of the golden file that the freshly generated content
// lacks, the golden definition (in golden order, before the first generated definition that could mention it is
// not needed: fallbacks are only ever constants/kernels that later definitions refer to by name, so they are
// inserted right after the header).
func withFallbacks(content, goldenPath string) string {
	g, err := os.ReadFile(goldenPath)
	if err != nil {
		return content
	}
	defRe := regexp.MustCompile(`(?m)^Definition ([A-Za-z0-9_']+)[ :]`)
	have := map[string]bool{}
	for _, m := range defRe.FindAllStringSubmatch(content, -1) {
		have[m[1]] = true
	}
	gs := string(g)
	locs := defRe.FindAllStringSubmatchIndex(gs, -1)
	var missing []string
	for i, l := range locs {
		name := gs[l[2]:l[3]]
		if have[name] {
			continue
		}
		end := len(gs)
		if i+1 < len(locs) {
			end = locs[i+1][0]
		}
		missing = append(missing, "(* FALLBACK "+name+": not derivable from the current source; value of the last validated tree *)\n"+strings.TrimRight(gs[l[0]:end], "\n")+"\n")
	}
	if len(missing) == 0 {
		return content
	}
	// insert before the first generated Definition (after the header / imports)
	first := defRe.FindStringIndex(content)
	if first == nil {
		return content + "\n" + strings.Join(missing, "")
	}
	return content[:first[0]] + strings.Join(missing, "") + content[first[0]:]
}

// writeShapes fingerprints every function declaration of the library's non-test, non-instrumentation Go files:
// key "<file>:<Receiver.>Name", value sha256 of the declaration printed without comments (so that comment and
// layout edits do not count).  ./check compares them with tools/qf2coq/golden/shapes.json.
func writeShapes(path string) error {
	res := map[string]string{}
	err := filepath.Walk(repo, func(p string, info os.FileInfo, err error) error {
		if err != nil {
			return err
		}
		rel, _ := filepath.Rel(repo, p)
		if info.IsDir() {
			if rel == ".git" || rel == "contrib" || rel == "cmd" || rel == "verifhook" || strings.HasPrefix(rel, ".") && rel != "." {
				return filepath.SkipDir
			}
			return nil
		}
		if !strings.HasSuffix(p, ".go") || strings.HasSuffix(p, "_test.go") {
			return nil
		}
		src, err := os.ReadFile(p)
		if err != nil {
			return err
		}
		if bytes.HasPrefix(src, []byte("//go:build verif")) {
			return nil
		}
		fset := token.NewFileSet()
		f, err := parser.ParseFile(fset, p, src, 0)
		if err != nil {
			return nil // a file that does not parse does not build either; the build reports it
		}
		for _, d := range f.Decls {
			fd, ok := d.(*ast.FuncDecl)
			if !ok {
				continue
			}
			fd.Doc = nil
			name := fd.Name.Name
			if fd.Recv != nil && len(fd.Recv.List) > 0 {
				name = recvName(fd.Recv.List[0].Type) + "." + name
			}
			var b bytes.Buffer
			if err := printer.Fprint(&b, fset, fd); err != nil {
				continue
			}
			h := sha256.Sum256(b.Bytes())
			key := filepath.ToSlash(rel) + ":" + name
			if _, dup := res[key]; dup { // init functions, build-tagged variants
				key += "#2"
			}
			res[key] = hex.EncodeToString(h[:8])
		}
		return nil
	})
	if err != nil {
		return err
	}
	keys := make([]string, 0, len(res))
	for k := range res {
		keys = append(keys, k)
	}
	sort.Strings(keys)
	var b strings.Builder
	b.WriteString("{\n")
	for i, k := range keys {
		fmt.Fprintf(&b, " %q: %q", k, res[k])
		if i+1 < len(keys) {
			b.WriteString(",")
		}
		b.WriteString("\n")
	}
	b.WriteString("}\n")
	return os.WriteFile(path, []byte(b.String()), 0o644)
}

func writeIfChanged(path, content string) {
	old, err := os.ReadFile(path)
	if err == nil && bytes.Equal(old, []byte(content)) {
		return
	}
	if err := os.WriteFile(path, []byte(content), 0o644); err != nil {
		problem("write %s: %v", path, err)
	}
}

func main() {
	out := flag.String("out", "", "output directory (coq/Gen)")
	flag.StringVar(&repo, "repo", "/repo", "qframe working tree")
	golden := flag.String("golden", "", "directory with the golden copy of the generated files (fallback definitions)")
	updateGolden := flag.String("update-golden", "", "write the generated files to this golden directory as well")
	shapes := flag.String("shapes", "", "write the fingerprints of all function declarations of the library to this JSON file and exit")
	flag.Parse()
	if *shapes != "" {
		if err := writeShapes(*shapes); err != nil {
			fmt.Fprintln(os.Stderr, "qf2coq: "+err.Error())
			os.Exit(3)
		}
		return
	}
	if *out == "" {
		fmt.Fprintln(os.Stderr, "missing -out")
		os.Exit(2)
	}
	os.MkdirAll(*out, 0o755)
	// every generator is run with a note of whether it reported a problem
	files := map[string]string{}
	troubled := map[string]bool{}
	gens := []struct {
		name string
		f    func() string
	}{
		{"GenConsts.v", genConsts}, {"GenTables.v", genTables}, {"GenRyu.v", genRyu}, {"GenKernels.v", genKernels},
		{"GenFuncs.v", genFuncs}, {"GenSorter.v", genSorter}, {"GenGrouper.v", genGrouper},
		{"GenFilterClause.v", genFilterClause}, {"GenStrSer.v", genStrSer}, {"GenRyuText.v", genRyuText},
		{"GenFastCsv.v", genFastCsv}, {"GenQFrameOps.v", genQFrameOps}, {"GenExprTree.v", genExprTree},
		{"GenIoCsv.v", genIoCsv}, {"GenSqlIO.v", genSqlIO}, {"GenAggr.v", genAggr}, {"GenEnumFac.v", genEnumFac},
		{"GenFilterDispatch.v", genFilterDispatch}, {"GenColApply.v", genColApply}, {"GenIoJson.v", genIoJson},
		{"GenEvalCtx.v", genEvalCtx}, {"GenViews.v", genViews}, {"GenSqlWrite.v", genSqlWrite},
	}
	// the first seven files mix translated and fallback definitions (every definition is self-contained there); for
	// the later ones a fallback block may refer to generated types (an Inductive collected from the struct literals of
	// the source, say) that the changed source no longer yields, so a generator that reported a problem is answered
	// by the WHOLE golden file: the development keeps building, the exit status reports the broken tie
	wholeFile := map[string]bool{}
	for i, g := range gens {
		n0 := len(problems)
		files[g.name] = g.f()
		if len(problems) > n0 {
			troubled[g.name] = true
		}
		if i >= 7 {
			wholeFile[g.name] = true
		}
	}
	// Files are written even when problems were found so that the directed search can still build: every
	// definition that could not be derived from the current source is taken from the golden copy (the output
	// for the last tree the model was validated against, tools/qf2coq/golden/) and marked FALLBACK; the exit
	// status still tells ./check that the tie is broken.
	if *updateGolden != "" {
		os.MkdirAll(*updateGolden, 0o755)
		for n, c := range files {
			writeIfChanged(filepath.Join(*updateGolden, n), c)
		}
	}
	for n, c := range files {
		if *golden != "" {
			if g, err := os.ReadFile(filepath.Join(*golden, n)); err == nil && troubled[n] && wholeFile[n] && len(g) > 0 {
				c = "(* FALLBACK: the whole file is the golden copy (the translator reported a problem on the current source) *)\n" + string(g)
			} else {
				c = withFallbacks(c, filepath.Join(*golden, n))
			}
		}
		writeIfChanged(filepath.Join(*out, n), c)
	}
	if len(problems) > 0 {
		for _, p := range problems {
			fmt.Fprintln(os.Stderr, "qf2coq: "+p)
		}
		os.Exit(3)
	}
}
