package main

// Translation of expression.go (package qframe) into Gallina (coq/Gen/GenExprTree.v, tie T1 for the expression
// trees of Eval: properties C07 and C10).
//
// EVERY function of expression.go is translated statement by statement into a definition ge_<name>
// (ge_<T>_<method> for a method).  coq/Proofs/GenExprTreeProofs.v proves every generated definition equal to
// the hand-written model of coq/Model/Eval.v (new_expr / expr_call / temp_col_name / get_fn / execute), so that
// an edit of expression.go changes the generated text and breaks a named theorem T1_expr_<name> of
// coq/Properties/T1Expr.v, while the theorems of C07 / C10 keep talking about the model.
//
// THE SCHEME (anything that does not fit is reported through problem(...); the block then keeps the text of the
// golden copy, marked FALLBACK, so that the development still builds — the exit status says the tie is broken).
//
//	boundary    The frame and the evaluation context are NOT translated.  QFrame is the abstract type F, touched
//	            only through  qf.Err -> qf_Err qf : option E,  qf.withErr(e) -> qf_withErr qf e  (body text-matched)
//	            and the calls  qf.Apply(instr) -> qf_Apply qf [instr],  qf.Drop(cols...) -> qf_Drop qf cols,
//	            qf.Contains(name) -> qf_Contains qf name,  qf.functionType(name) -> qf_functionType qf name,
//	            which answer outcome (signatures text-matched; Panic = the Go call panics).  *eval.Context is the
//	            abstract type C with  ctx.GetFunc(typ, ac, name) -> ctx_GetFunc ctx typ ac name : outcome (ge_Any *
//	            bool);  eval.ArgCount is AC (eval.ArgCountOne / eval.ArgCountTwo are eval_ArgCountOne /
//	            eval_ArgCountTwo), types.FunctionType is FT.  strconv.Itoa is strconv_Itoa : Z -> bytes.
//	errors      error -> option E (nil = None), E abstract; qerrors.New(op, format, params...) -> err_New op format
//	            (the two string literals as byte strings; the params are evaluated and dropped: an error is
//	            known up to its operation and message format), qerrors.Propagate(op, err) -> err_Propagate op err.
//	strings     string and types.ColumnName are bytes; the conversions between them are the identity; + is ++.
//	integers    Go int -> Z, exact (lengths and counters only).
//	interface{} The dynamic types the file distinguishes (every T of an assertion x.(T) or of a case of a type
//	            switch) become the constructors of  Inductive ge_Any:  ge_dyn_nil (the nil interface),
//	            ge_dyn_<T> (v : payload) in order of first occurrence, and ge_dyn_other (v : DV) for every other
//	            dynamic type (DV abstract).  Payloads: Expression -> ge_Expression (an implementer of the package; a
//	            nil Expression is outside the translation), string / types.ColumnName -> bytes, []interface{} ->
//	            list ge_Any, int -> Z, float64 -> FL (abstract), bool -> bool, *string -> option bytes.
//	            x.(T) with comma-ok is a match answering (payload, true) or (zero, false);
//	            if v, ok := x.(T); ok { A } else { B } is  match x with ge_dyn_T v => A | _ => B end;
//	            switch x.(type) { case T1, T2: A default: B } is a match with or-patterns; x == nil is
//	            ge_Any_isnil x.  A value stored where interface{} is expected is wrapped by its static type.
//	interface   Expression is the closed sum of the struct types of the file that have the methods execute and
//	            Err: Inductive ge_Expression (mutual with ge_Any) with one constructor ge_mk_<T> per implementer whose
//	            arguments are the fields.  A VALUE of the struct type T is the record ge_T (constructor ge_new_T,
//	            projections ge_T_f_<field>); T{f: e} is the constructor with the missing fields zero; using it
//	            where an Expression is expected is ge_T_box.  The receiver of a method is passed as its fields
//	            (<recv>_<field>).  x.m(..) with x of static struct type is the direct call ge_T_m; with x of type
//	            Expression it is dynamic dispatch: Fixpoint ge_Expression_<m> by structural recursion over the tree,
//	            one branch per implementer.  Inside the methods of the group being defined the dispatcher is the
//	            first argument  self.
//	results     every function answers outcome T (Panic = Go panic or fuel used up), several results as a tuple.
//	            panic(..) is Panic (the message is dropped).  One BEGIN/END block per function; the members of a
//	            recursive cycle share the block named after the first of them (ge_newExpr holds newExprExpr too).
//	order       definitions are emitted callees first (reverse topological order of the static call graph, ties
//	            in source order); the dispatcher of a method follows the methods of all implementers.
//	fuel        a function that contains a for loop with a condition, that is recursive (alone or mutually: the
//	            members of a cycle of the static call graph are one Fixpoint .. with .. on fuel), or that calls
//	            such a function takes (fuel : nat) first:  match fuel with O => Panic | S fuel' => body end; inside
//	            body every for loop is entered with the budget fuel', every call of a fuelled function gets fuel'.
//	            The dispatcher of a group with a fuelled method takes fuel and stays structural in the tree.
//	statements  x := e; a, b := f(..); a, b = f(..); var x T; x = e; x++; s[i] = e; copy(d[lo:], s) -> let / do.
//	conditions  a && b, a || b are && / || when b is pure, otherwise the whole condition is bound first:
//	            do t <- (if a then (..; Ok b) else Ok false).
//	if          no return inside: do (assigned outer variables) <- (if c then ..; Ok (..) else ..; Ok (..)); rest
//	            otherwise the rest of the block is continued inside the branches that fall through.
//	for         for init; cond; post { body }: Fixpoint ge_f_loopN [fuel'] (k : nat) (variables it mentions)
//	            {struct k}: O => Panic, S k' => if cond then body; post; loop k' .. else EXIT.  A loop without
//	            return answers the outer variables it assigns (EXIT = Ok (those)); a loop with a return inside
//	            also contains the statements that follow it (EXIT = the rest of the function).
//	range       for i, v := range X { body }: Fixpoint ge_f_loopN (l : list T) [(v_i : Z)] (variables) {struct l};
//	            no fuel.
//	rejected    break, continue, goto, labels, value switch, defer, closures, maps, pointers other than the
//	            literal (*string)(nil), an inner := that shadows an outer variable, dynamic dispatch inside a
//	            loop, everything else.

import (
	"flag"
	"fmt"
	"go/ast"
	"go/token"
	"os"
	"path/filepath"
	"strconv"
	"strings"
)

const geFile = "expression.go"

// the text the fixed vocabulary stands for (printed by go/printer; without "{" only the signature is compared)
var geVocabulary = []struct{ pkg, fn, text string }{
	{".", "QFrame.withErr", "func (qf QFrame) withErr(err error) QFrame {\n\treturn QFrame{Err: err, columns: qf.columns, columnsByName: qf.columnsByName, index: qf.index}\n}"},
	{".", "QFrame.Apply", "func (qf QFrame) Apply(instructions ...Instruction) QFrame"},
	{".", "QFrame.Drop", "func (qf QFrame) Drop(columns ...string) QFrame"},
	{".", "QFrame.Contains", "func (qf QFrame) Contains(colName string) bool"},
	{".", "QFrame.functionType", "func (qf QFrame) functionType(name string) (types.FunctionType, error)"},
	{"config/eval", "Context.GetFunc", "func (ctx *Context) GetFunc(typ types.FunctionType, ac ArgCount, name string) (interface{}, bool)"},
	{"qerrors", "New", "func New(operation, reason string, params ...interface{}) Error"},
	{"qerrors", "Propagate", "func Propagate(operation string, err error) Error"},
}

const gePreamble = `(* GENERATED by tools/qf2coq (exprtree.go) from expression.go of tobgu/qframe — do not edit.
   One definition ge_<function> per translated Go function (ge_<T>_<method> for a method), one Fixpoint
   ge_<function>_loopN per loop, Inductive ge_Any for the dynamic values of interface{} and ge_Expression for the
   interface Expression, one record ge_<T> per implementer, one structural Fixpoint ge_Expression_<method> per
   interface method; the scheme is described at the top of tools/qf2coq/exprtree.go.  F = QFrame, C =
   *eval.Context, AC = eval.ArgCount, FT = types.FunctionType, E = error value, FL = float64, DV = the dynamic
   values of all other types are abstract; Apply / Drop / Contains / functionType / GetFunc are variables.  Every
   function answers outcome T (Panic = Go panic or fuel used up); a function with a conditional loop or with
   recursion takes fuel first: O => Panic, S fuel' => the body, whose loops and fuelled calls all get fuel'. *)
From QF Require Import Base.Prelude.
Local Open Scope Z_scope.

(* make([]T, n), s[i], s[i] = v, s[lo:], copy(d[lo:], s) *)
Definition ge_make {T : Type} (zero : T) (n : Z) : outcome (list T) :=
  if n <? 0 then Panic else Ok (repeat zero (Z.to_nat n)).
Definition ge_index {T : Type} (s : list T) (i : Z) : outcome T :=
  if i <? 0 then Panic else idx s (Z.to_nat i).
Definition ge_update {T : Type} (s : list T) (i : Z) (v : T) : outcome (list T) :=
  if i <? 0 then Panic else do _ <- idx s (Z.to_nat i); Ok (set_nth s (Z.to_nat i) v).
Definition ge_from {T : Type} (s : list T) (lo : Z) : outcome (list T) :=
  if (lo <? 0) || (Z.of_nat (length s) <? lo) then Panic else Ok (skipn (Z.to_nat lo) s).
Definition ge_copy_at {T : Type} (d : list T) (lo : Z) (s : list T) : outcome (list T) :=
  if (lo <? 0) || (Z.of_nat (length d) <? lo) then Panic
  else let tail := skipn (Z.to_nat lo) d in
       Ok (firstn (Z.to_nat lo) d ++ firstn (length tail) s ++ skipn (length s) tail).
(* x == nil for an error *)
Definition ge_isnil {T : Type} (p : option T) : bool := match p with None => true | Some _ => false end.

Section GenExprTree.
Context {F C AC FT E FL DV : Type}.
Variable qf_Err : F -> option E.                                   (* qf.Err *)
Variable qf_withErr : F -> option E -> F.                          (* qf.withErr(err) *)
Variable qf_Contains : F -> bytes -> outcome bool.                 (* qf.Contains(name) *)
Variable qf_Drop : F -> list bytes -> outcome F.                   (* qf.Drop(names...) *)
Variable qf_functionType : F -> bytes -> outcome (FT * option E).  (* qf.functionType(name) *)
Variable err_New : bytes -> bytes -> E.                            (* qerrors.New(operation, format, ...) *)
Variable err_Propagate : bytes -> option E -> E.                   (* qerrors.Propagate(operation, err) *)
Variable eval_ArgCountOne eval_ArgCountTwo : AC.                   (* eval.ArgCountOne, eval.ArgCountTwo *)
Variable strconv_Itoa : Z -> bytes.                                (* strconv.Itoa *)

`

// ------------------------------------------------------------------ types

type geT struct {
	k     string // int bool string colname ustring any anys strings colnames frame ctx argcount functype err qerr iface struct instr pstring float nil tuple bad
	sname string
	elems []*geT
}

func geK(k string) *geT { return &geT{k: k} }

var geBad = geK("bad")

func (t *geT) same(u *geT) bool {
	if t.k != u.k || t.sname != u.sname || len(t.elems) != len(u.elems) {
		return false
	}
	for i := range t.elems {
		if !t.elems[i].same(u.elems[i]) {
			return false
		}
	}
	return true
}

func (t *geT) coq() string {
	switch t.k {
	case "int":
		return "Z"
	case "bool":
		return "bool"
	case "string", "colname", "ustring":
		return "bytes"
	case "any", "nil":
		return "ge_Any"
	case "anys":
		return "(list ge_Any)"
	case "strings", "colnames":
		return "(list bytes)"
	case "frame":
		return "F"
	case "ctx":
		return "C"
	case "argcount":
		return "AC"
	case "functype":
		return "FT"
	case "err":
		return "(option E)"
	case "qerr":
		return "E"
	case "iface":
		return "ge_Expression"
	case "struct":
		return "ge_" + t.sname
	case "instr":
		return "ge_Instruction"
	case "pstring":
		return "(option bytes)"
	case "float":
		return "FL"
	case "tuple":
		var parts []string
		for _, e := range t.elems {
			parts = append(parts, e.coq())
		}
		return gcTypeTuple(parts)
	}
	return "?"
}

func (t *geT) elem() *geT {
	switch t.k {
	case "anys":
		return geK("any")
	case "strings":
		return geK("string")
	case "colnames":
		return geK("colname")
	}
	return nil
}

func (t *geT) zero() (string, bool) {
	switch t.k {
	case "int":
		return "0", true
	case "bool":
		return "false", true
	case "string", "colname":
		return "(@nil N)", true
	case "any":
		return "ge_dyn_nil", true
	case "anys":
		return "(@nil ge_Any)", true
	case "strings", "colnames":
		return "(@nil bytes)", true
	case "err", "pstring":
		return "None", true
	case "struct":
		im := geImplOf(t.sname)
		if im == nil {
			return "", false
		}
		parts := []string{"ge_new_" + im.name}
		for _, f := range im.fields {
			z, ok := f.ty.zero()
			if !ok {
				return "", false
			}
			parts = append(parts, z)
		}
		return "(" + strings.Join(parts, " ") + ")", true
	}
	return "", false
}

type geField struct {
	name string
	ty   *geT
}

type geImpl struct {
	name   string
	fields []geField
}

var geImpls []*geImpl
var geMethods []string // the methods of the interface Expression, in source order
var geInstr []geField  // the fields of Instruction

func geImplOf(name string) *geImpl {
	for _, im := range geImpls {
		if im.name == name {
			return im
		}
	}
	return nil
}

// the dynamic types interface{} values are tested for
type geDyn struct {
	src, ctor string
	ty        *geT
}

var geDynTable = []geDyn{
	{"Expression", "ge_dyn_Expression", geK("iface")},
	{"string", "ge_dyn_string", geK("string")},
	{"types.ColumnName", "ge_dyn_ColumnName", geK("colname")},
	{"[]interface{}", "ge_dyn_slice", geK("anys")},
	{"int", "ge_dyn_int", geK("int")},
	{"float64", "ge_dyn_float64", geK("float")},
	{"bool", "ge_dyn_bool", geK("bool")},
	{"*string", "ge_dyn_pstring", geK("pstring")},
}
var geDyns []geDyn // those that occur, in order of first occurrence

func geDynOfSrc(src string) *geDyn {
	for i := range geDyns {
		if geDyns[i].src == src {
			return &geDyns[i]
		}
	}
	return nil
}

func geDynOfKind(k string) *geDyn {
	for i := range geDyns {
		if geDyns[i].ty.k == k {
			return &geDyns[i]
		}
	}
	return nil
}

// geResolve maps a Go type expression (source text) to a translation type
func geResolve(src string) *geT {
	switch src {
	case "QFrame":
		return geK("frame")
	case "*eval.Context":
		return geK("ctx")
	case "eval.ArgCount":
		return geK("argcount")
	case "types.FunctionType":
		return geK("functype")
	case "types.ColumnName":
		return geK("colname")
	case "string":
		return geK("string")
	case "interface{}", "types.DataFuncOrBuiltInId":
		return geK("any")
	case "[]interface{}", "...interface{}":
		return geK("anys")
	case "[]string", "...string":
		return geK("strings")
	case "[]types.ColumnName":
		return geK("colnames")
	case "Expression":
		return geK("iface")
	case "error":
		return geK("err")
	case "int":
		return geK("int")
	case "bool":
		return geK("bool")
	case "Instruction":
		return geK("instr")
	}
	if geImplOf(src) != nil {
		return &geT{k: "struct", sname: src}
	}
	return geBad
}

// geLoadTypes reads the interface Expression, its implementers, the dynamic types tested and Instruction.
func geLoadTypes(p *pkgInfo) bool {
	geImpls, geMethods, geInstr, geDyns = nil, nil, nil, nil
	okAll := true
	f, found := p.files[geFile]
	if !found {
		problem("expression translation: %s not found", geFile)
		return false
	}
	decls := map[string]ast.Expr{}
	var order []string
	for _, d := range f.Decls {
		gd, ok := d.(*ast.GenDecl)
		if !ok || gd.Tok != token.TYPE {
			continue
		}
		for _, s := range gd.Specs {
			ts := s.(*ast.TypeSpec)
			decls[ts.Name.Name] = ts.Type
			order = append(order, ts.Name.Name)
		}
	}
	it, ok := decls["Expression"].(*ast.InterfaceType)
	if !ok {
		problem("expression translation: the interface Expression is not declared in %s", geFile)
		return false
	}
	for _, m := range it.Methods.List {
		if len(m.Names) != 1 {
			problem("expression translation: the interface Expression embeds another interface")
			okAll = false
			continue
		}
		geMethods = append(geMethods, m.Names[0].Name)
	}
	for _, n := range order {
		all := len(geMethods) > 0
		for _, m := range geMethods {
			if p.funcs[n+"."+m] == nil {
				all = false
			}
		}
		if all {
			geImpls = append(geImpls, &geImpl{name: n})
		}
	}
	for _, im := range geImpls {
		st, ok := decls[im.name].(*ast.StructType)
		if !ok {
			problem("expression translation: implementer %s is not a struct", im.name)
			okAll = false
			continue
		}
		for _, fl := range st.Fields.List {
			ty := geResolve(gcSrc(p.fset, fl.Type))
			if ty.k == "bad" || ty.k == "struct" || len(fl.Names) == 0 {
				problem("expression translation: field of %s has a type outside the scheme: %s", im.name, gcSrc(p.fset, fl.Type))
				okAll = false
				continue
			}
			for _, n := range fl.Names {
				im.fields = append(im.fields, geField{n.Name, ty})
			}
		}
	}
	// the dynamic types tested
	note := func(e ast.Expr) {
		src := gcSrc(p.fset, e)
		if src == "nil" || geDynOfSrc(src) != nil {
			return
		}
		for _, d := range geDynTable {
			if d.src == src {
				geDyns = append(geDyns, d)
				return
			}
		}
		problem("expression translation: %s: a test for the dynamic type %s is outside the scheme", strings.TrimPrefix(p.fset.Position(e.Pos()).String(), repo+"/"), src)
		okAll = false
	}
	ast.Inspect(f, func(n ast.Node) bool {
		switch x := n.(type) {
		case *ast.TypeAssertExpr:
			if x.Type != nil {
				note(x.Type)
			}
		case *ast.TypeSwitchStmt:
			for _, cc := range x.Body.List {
				for _, e := range cc.(*ast.CaseClause).List {
					note(e)
				}
			}
		}
		return true
	})
	// Instruction (qframe.go)
	for _, qfFile := range p.files {
		for _, d := range qfFile.Decls {
			gd, ok := d.(*ast.GenDecl)
			if !ok || gd.Tok != token.TYPE {
				continue
			}
			for _, s := range gd.Specs {
				ts := s.(*ast.TypeSpec)
				st, ok := ts.Type.(*ast.StructType)
				if ts.Name.Name != "Instruction" || !ok {
					continue
				}
				for _, fl := range st.Fields.List {
					ty := geResolve(gcSrc(p.fset, fl.Type))
					if ty.k != "any" && ty.k != "string" || len(fl.Names) == 0 {
						problem("expression translation: field of Instruction has a type outside the scheme: %s", gcSrc(p.fset, fl.Type))
						okAll = false
						continue
					}
					for _, n := range fl.Names {
						geInstr = append(geInstr, geField{n.Name, ty})
					}
				}
			}
		}
	}
	if len(geInstr) == 0 {
		problem("expression translation: type Instruction struct not found")
		okAll = false
	}
	// named types of other packages the scheme reads as bytes / interface{} / Z
	for _, chk := range []struct{ pkg, name, text string }{
		{"types", "ColumnName", "string"}, {"types", "DataFuncOrBuiltInId", "interface{}"},
	} {
		tp := loadPkg(chk.pkg)
		got := ""
		for _, tf := range tp.files {
			for _, d := range tf.Decls {
				if gd, ok := d.(*ast.GenDecl); ok && gd.Tok == token.TYPE {
					for _, s := range gd.Specs {
						if ts := s.(*ast.TypeSpec); ts.Name.Name == chk.name {
							got = gcSrc(tp.fset, ts.Type)
						}
					}
				}
			}
		}
		if got != chk.text {
			problem("expression translation: %s.%s is not %s", chk.pkg, chk.name, chk.text)
			okAll = false
		}
	}
	ep := loadPkg("config/eval")
	for _, n := range []string{"ArgCountOne", "ArgCountTwo"} {
		if _, ok := ep.consts[n]; !ok {
			// ArgCountTwo has no value of its own (iota continuation): look for the name
			foundName := false
			for _, ef := range ep.files {
				ast.Inspect(ef, func(x ast.Node) bool {
					if vs, ok := x.(*ast.ValueSpec); ok {
						for _, id := range vs.Names {
							if id.Name == n {
								foundName = true
							}
						}
					}
					return true
				})
			}
			if !foundName {
				problem("expression translation: eval.%s not found", n)
				okAll = false
			}
		}
	}
	return okAll
}

func geInductive() string {
	var b strings.Builder
	b.WriteString("(* the dynamic values of interface{}: nil, the types the file tests for (in order of first occurrence), the rest;\n   the implementers of Expression (struct types with the methods " + strings.Join(geMethods, ", ") + "), in source order *)\n")
	b.WriteString("Inductive ge_Any : Type :=\n| ge_dyn_nil\n")
	for _, d := range geDyns {
		fmt.Fprintf(&b, "| %s (v : %s)\n", d.ctor, strings.Trim(d.ty.coq(), "()"))
	}
	b.WriteString("| ge_dyn_other (v : DV)\nwith ge_Expression : Type :=\n")
	for _, im := range geImpls {
		fmt.Fprintf(&b, "| ge_mk_%s", im.name)
		for _, f := range im.fields {
			fmt.Fprintf(&b, " (%s : %s)", f.name, strings.Trim(f.ty.coq(), "()"))
		}
		b.WriteString("\n")
	}
	s := strings.TrimRight(b.String(), "\n") + ".\n"
	b.Reset()
	b.WriteString(s)
	b.WriteString("(* x == nil for x of type interface{} *)\nDefinition ge_Any_isnil (x : ge_Any) : bool := match x with ge_dyn_nil => true | _ => false end.\n")
	b.WriteString("(* the struct types as values, and their use where an Expression is expected *)\n")
	for _, im := range geImpls {
		if len(im.fields) == 0 {
			fmt.Fprintf(&b, "Record ge_%s : Type := ge_new_%s { }.\n", im.name, im.name)
		} else {
			var fs []string
			for _, f := range im.fields {
				fs = append(fs, fmt.Sprintf("ge_%s_f_%s : %s", im.name, f.name, f.ty.coq()))
			}
			fmt.Fprintf(&b, "Record ge_%s : Type := ge_new_%s { %s }.\n", im.name, im.name, strings.Join(fs, "; "))
		}
		parts := []string{"ge_mk_" + im.name}
		for _, f := range im.fields {
			parts = append(parts, fmt.Sprintf("(ge_%s_f_%s x)", im.name, f.name))
		}
		fmt.Fprintf(&b, "Definition ge_%s_box (x : ge_%s) : ge_Expression := %s.\n", im.name, im.name, strings.Join(parts, " "))
	}
	b.WriteString("(* Instruction (qframe.go) and the calls that take it *)\n")
	var fs []string
	for _, f := range geInstr {
		fs = append(fs, fmt.Sprintf("ge_Instruction_f_%s : %s", f.name, f.ty.coq()))
	}
	fmt.Fprintf(&b, "Record ge_Instruction : Type := ge_new_Instruction { %s }.\n", strings.Join(fs, "; "))
	b.WriteString("Variable qf_Apply : F -> list ge_Instruction -> outcome F.           (* qf.Apply(instructions...) *)\n")
	b.WriteString("Variable ctx_GetFunc : C -> FT -> AC -> bytes -> outcome (ge_Any * bool).  (* ctx.GetFunc(typ, ac, name) *)\n")
	return b.String()
}

// ------------------------------------------------------------------ translation state

type geVar struct {
	name  string // Go name
	coq   string // Coq name; "" for a struct receiver (its fields are <name>_<field>)
	ty    *geT
	level int // nesting depth of the block that declares it (0 = parameters and function body)
}

type geFunc struct {
	goName    string // "newExpr", "colExpr.execute"
	short     string
	fd        *ast.FuncDecl
	coq       string
	recv      *geVar
	impl      *geImpl
	group     string // method of the interface: its name
	params    []geVar
	res       *geT
	variadic  bool
	needsFuel bool
	needsSelf bool
	recursive bool     // member of a cycle of the static call graph
	scc       []string // the members of its cycle, in emission order
	static    map[string]bool
	dynamic   map[string]bool
	sigText   string
	bodyText  string
	loops     []string
	ok        bool
}

var geFuncs map[string]*geFunc
var geOrder []string // Go names in source order
var geGroupFuel map[string]bool

type geCtx struct {
	vars  []geVar
	level int
}

func (c geCtx) lookup(name string) (geVar, bool) {
	for i := len(c.vars) - 1; i >= 0; i-- {
		if c.vars[i].name == name {
			return c.vars[i], true
		}
	}
	return geVar{}, false
}

func (c geCtx) with(v geVar) geCtx {
	vs := make([]geVar, len(c.vars), len(c.vars)+1)
	copy(vs, c.vars)
	return geCtx{vars: append(vs, v), level: c.level}
}

func (c geCtx) inner() geCtx { return geCtx{vars: c.vars, level: c.level + 1} }

type geTr struct {
	p        *pkgInfo
	f        *geFunc
	bad      bool
	ntmp     int
	nloops   int
	usesSelf bool
	inLoop   int
}

func (t *geTr) fail(n ast.Node, format string, a ...interface{}) {
	if !t.bad {
		pos := ""
		if n != nil {
			pos = strings.TrimPrefix(t.p.fset.Position(n.Pos()).String(), repo+"/") + ": "
		}
		problem("expression translation of %s: %s%s", t.f.goName, pos, fmt.Sprintf(format, a...))
	}
	t.bad = true
}

func (t *geTr) src(n ast.Node) string { return gcSrc(t.p.fset, n) }

func (t *geTr) tmp() string {
	t.ntmp++
	return fmt.Sprintf("t%d", t.ntmp)
}

// conv: a value of static type have where want is expected
func (t *geTr) conv(n ast.Node, text string, have, want *geT) string {
	if have.k == "bad" || want.k == "bad" {
		return text
	}
	if have.same(want) {
		return text
	}
	switch {
	case have.k == "ustring" && (want.k == "string" || want.k == "colname"):
		return text
	case have.k == "nil" && want.k == "err":
		return "None"
	case have.k == "nil" && want.k == "any":
		return "ge_dyn_nil"
	case have.k == "qerr" && want.k == "err":
		return "(Some " + text + ")"
	case have.k == "struct" && want.k == "iface":
		return "(ge_" + have.sname + "_box " + text + ")"
	case want.k == "any":
		hk := have.k
		if hk == "ustring" {
			hk = "string"
		}
		if hk == "struct" {
			if d := geDynOfKind("iface"); d != nil {
				return "(" + d.ctor + " (ge_" + have.sname + "_box " + text + "))"
			}
		} else if d := geDynOfKind(hk); d != nil {
			return "(" + d.ctor + " " + text + ")"
		}
	}
	t.fail(n, "a value of type %s%s stands where %s%s is expected: %s", have.k, have.sname, want.k, want.sname, t.src(n))
	return text
}

func (t *geTr) stringLit(e ast.Expr) (string, bool) {
	bl, ok := e.(*ast.BasicLit)
	if !ok || bl.Kind != token.STRING {
		return "", false
	}
	s, err := strconv.Unquote(bl.Value)
	if err != nil {
		return "", false
	}
	return coqBytes(s), true
}

// ------------------------------------------------------------------ expressions

// expr translates a single-valued expression; calls are bound first (pre)
func (t *geTr) expr(e ast.Expr, c geCtx, pre *[]string) (string, *geT) {
	switch x := e.(type) {
	case *ast.ParenExpr:
		return t.expr(x.X, c, pre)
	case *ast.BasicLit:
		switch x.Kind {
		case token.INT:
			if strings.Trim(x.Value, "0123456789") == "" {
				return x.Value, geK("int")
			}
		case token.STRING:
			if s, ok := t.stringLit(x); ok {
				return s, geK("ustring")
			}
		}
		t.fail(e, "literal outside the scheme: %s", x.Value)
		return "0", geBad
	case *ast.Ident:
		if v, ok := c.lookup(x.Name); ok {
			if v.coq == "" {
				t.fail(e, "the receiver %s is used as a value", x.Name)
				return "0", geBad
			}
			return v.coq, v.ty
		}
		switch x.Name {
		case "nil":
			return "ge_dyn_nil", geK("nil")
		case "true", "false":
			return x.Name, geK("bool")
		}
		t.fail(e, "unknown identifier %s", x.Name)
		return "0", geBad
	case *ast.SelectorExpr:
		if id, ok := x.X.(*ast.Ident); ok {
			if _, isVar := c.lookup(id.Name); !isVar && id.Name == "eval" {
				switch x.Sel.Name {
				case "ArgCountOne", "ArgCountTwo":
					return "eval_" + x.Sel.Name, geK("argcount")
				}
			}
			if v, ok := c.lookup(id.Name); ok && v.ty.k == "struct" && v.coq == "" {
				for _, f := range geImplOf(v.ty.sname).fields {
					if f.name == x.Sel.Name {
						return v.name + "_" + f.name, f.ty
					}
				}
				t.fail(e, "unknown field %s", t.src(e))
				return "0", geBad
			}
		}
		y, ty := t.expr(x.X, c, pre)
		switch ty.k {
		case "frame":
			if x.Sel.Name == "Err" {
				return "(qf_Err " + y + ")", geK("err")
			}
		case "struct":
			for _, f := range geImplOf(ty.sname).fields {
				if f.name == x.Sel.Name {
					return fmt.Sprintf("(ge_%s_f_%s %s)", ty.sname, f.name, y), f.ty
				}
			}
		case "instr":
			for _, f := range geInstr {
				if f.name == x.Sel.Name {
					return fmt.Sprintf("(ge_Instruction_f_%s %s)", f.name, y), f.ty
				}
			}
		}
		t.fail(e, "selector outside the scheme: %s", t.src(e))
		return "0", geBad
	case *ast.UnaryExpr:
		if x.Op == token.NOT {
			y, ty := t.expr(x.X, c, pre)
			t.conv(x.X, y, ty, geK("bool"))
			return "(negb " + y + ")", geK("bool")
		}
	case *ast.BinaryExpr:
		return t.binary(x, c, pre)
	case *ast.IndexExpr:
		s, ty := t.expr(x.X, c, pre)
		i, ti := t.expr(x.Index, c, pre)
		t.conv(x.Index, i, ti, geK("int"))
		el := ty.elem()
		if el == nil {
			t.fail(e, "index into something that is not a slice: %s", t.src(e))
			return "0", geBad
		}
		v := t.tmp()
		*pre = append(*pre, fmt.Sprintf("do %s <- ge_index %s %s;", v, s, i))
		return v, el
	case *ast.SliceExpr:
		if x.Low != nil && x.High == nil && x.Max == nil {
			s, ty := t.expr(x.X, c, pre)
			lo, tl := t.expr(x.Low, c, pre)
			t.conv(x.Low, lo, tl, geK("int"))
			if ty.elem() != nil {
				v := t.tmp()
				*pre = append(*pre, fmt.Sprintf("do %s <- ge_from %s %s;", v, s, lo))
				return v, ty
			}
		}
		t.fail(e, "slice expression outside the scheme: %s", t.src(e))
		return "[]", geBad
	case *ast.CompositeLit:
		return t.composite(x, c, pre)
	case *ast.CallExpr:
		text, ty := t.call(x, c, pre)
		if ty.k == "tuple" {
			t.fail(e, "a call with several results stands where one value is expected: %s", t.src(e))
			return "0", geBad
		}
		return text, ty
	case *ast.TypeAssertExpr:
		t.fail(e, "a type assertion without the second result is outside the scheme: %s", t.src(e))
		return "0", geBad
	}
	t.fail(e, "expression outside the scheme: %s", t.src(e))
	return "0", geBad
}

func (t *geTr) binary(x *ast.BinaryExpr, c geCtx, pre *[]string) (string, *geT) {
	switch x.Op {
	case token.LAND, token.LOR:
		a, ta := t.expr(x.X, c, pre)
		t.conv(x.X, a, ta, geK("bool"))
		var pre2 []string
		b, tb := t.expr(x.Y, c, &pre2)
		t.conv(x.Y, b, tb, geK("bool"))
		if len(pre2) == 0 {
			if x.Op == token.LAND {
				return "(" + a + " && " + b + ")", geK("bool")
			}
			return "(" + a + " || " + b + ")", geK("bool")
		}
		v := t.tmp()
		inner := "(" + strings.Join(pre2, " ") + " Ok " + b + ")"
		if x.Op == token.LAND {
			*pre = append(*pre, fmt.Sprintf("do %s <- (if %s then %s else Ok false);", v, a, inner))
		} else {
			*pre = append(*pre, fmt.Sprintf("do %s <- (if %s then Ok true else %s);", v, a, inner))
		}
		return v, geK("bool")
	case token.EQL, token.NEQ:
		a, ta := t.expr(x.X, c, pre)
		b, tb := t.expr(x.Y, c, pre)
		var text string
		switch {
		case tb.k == "nil" && ta.k == "err":
			text = "(ge_isnil " + a + ")"
		case tb.k == "nil" && ta.k == "any":
			text = "(ge_Any_isnil " + a + ")"
		case ta.k == "int" && tb.k == "int":
			text = "(" + a + " =? " + b + ")"
		case ta.k == "bool" && tb.k == "bool":
			text = "(Bool.eqb " + a + " " + b + ")"
		case (ta.k == "string" || ta.k == "colname" || ta.k == "ustring") && (tb.k == ta.k || tb.k == "ustring" || ta.k == "ustring") && (tb.k == "string" || tb.k == "colname" || tb.k == "ustring"):
			text = "(bytes_eqb " + a + " " + b + ")"
		default:
			t.fail(x, "comparison outside the scheme: %s", t.src(x))
			return "false", geBad
		}
		if x.Op == token.NEQ {
			text = "(negb " + text + ")"
		}
		return text, geK("bool")
	case token.LSS, token.LEQ, token.GTR, token.GEQ:
		a, ta := t.expr(x.X, c, pre)
		b, tb := t.expr(x.Y, c, pre)
		t.conv(x.X, a, ta, geK("int"))
		t.conv(x.Y, b, tb, geK("int"))
		switch x.Op {
		case token.LSS:
			return "(" + a + " <? " + b + ")", geK("bool")
		case token.LEQ:
			return "(" + a + " <=? " + b + ")", geK("bool")
		case token.GTR:
			return "(" + b + " <? " + a + ")", geK("bool")
		}
		return "(" + b + " <=? " + a + ")", geK("bool")
	case token.ADD, token.SUB:
		a, ta := t.expr(x.X, c, pre)
		b, tb := t.expr(x.Y, c, pre)
		if ta.k == "int" && tb.k == "int" {
			if x.Op == token.ADD {
				return "(" + a + " + " + b + ")", geK("int")
			}
			return "(" + a + " - " + b + ")", geK("int")
		}
		isStr := func(k string) bool { return k == "string" || k == "ustring" }
		if x.Op == token.ADD && isStr(ta.k) && isStr(tb.k) {
			return "(" + a + " ++ " + b + ")", geK("string")
		}
		if x.Op == token.ADD && (ta.k == "colname" && (tb.k == "colname" || tb.k == "ustring") || ta.k == "ustring" && tb.k == "colname") {
			return "(" + a + " ++ " + b + ")", geK("colname")
		}
	}
	t.fail(x, "operator outside the scheme: %s", t.src(x))
	return "0", geBad
}

func (t *geTr) composite(x *ast.CompositeLit, c geCtx, pre *[]string) (string, *geT) {
	tsrc := t.src(x.Type)
	if ty := geResolve(tsrc); ty.elem() != nil { // a slice literal
		var parts []string
		for _, el := range x.Elts {
			if _, isKV := el.(*ast.KeyValueExpr); isKV {
				t.fail(el, "slice literal with keys")
				continue
			}
			y, ty2 := t.expr(el, c, pre)
			parts = append(parts, t.conv(el, y, ty2, ty.elem()))
		}
		if len(parts) == 0 {
			z, _ := ty.zero()
			return z, ty
		}
		return "[" + strings.Join(parts, "; ") + "]", ty
	}
	var fields []geField
	var ctor string
	var rty *geT
	if im := geImplOf(tsrc); im != nil {
		fields, ctor, rty = im.fields, "ge_new_"+im.name, &geT{k: "struct", sname: im.name}
	} else if tsrc == "Instruction" {
		fields, ctor, rty = geInstr, "ge_new_Instruction", geK("instr")
	} else {
		t.fail(x, "composite literal outside the scheme: %s", t.src(x))
		return "0", geBad
	}
	vals := map[string]string{}
	for _, el := range x.Elts {
		kv, ok := el.(*ast.KeyValueExpr)
		if !ok {
			t.fail(el, "composite literal without field names")
			continue
		}
		name := t.src(kv.Key)
		found := false
		for _, f := range fields {
			if f.name == name {
				found = true
				y, ty2 := t.expr(kv.Value, c, pre)
				vals[name] = t.conv(kv.Value, y, ty2, f.ty)
			}
		}
		if !found {
			t.fail(el, "unknown field %s", name)
		}
	}
	parts := []string{ctor}
	for _, f := range fields {
		if v, ok := vals[f.name]; ok {
			parts = append(parts, v)
		} else if z, ok := f.ty.zero(); ok {
			parts = append(parts, z)
		} else {
			t.fail(x, "the field %s has no zero value in the scheme", f.name)
		}
	}
	if len(parts) == 1 {
		return parts[0], rty
	}
	return "(" + strings.Join(parts, " ") + ")", rty
}

// argsFor translates the arguments of a call of a translated function
func (t *geTr) argsFor(g *geFunc, ce *ast.CallExpr, c geCtx, pre *[]string) []string {
	var out []string
	np := len(g.params)
	if g.variadic && !ce.Ellipsis.IsValid() {
		// f(a, b, extra...) : the extra arguments form the slice
		if len(ce.Args) < np-1 {
			t.fail(ce, "call of %s with too few arguments", g.goName)
			return out
		}
		for i := 0; i < np-1; i++ {
			y, ty := t.expr(ce.Args[i], c, pre)
			out = append(out, t.conv(ce.Args[i], y, ty, g.params[i].ty))
		}
		var parts []string
		el := g.params[np-1].ty.elem()
		for _, a := range ce.Args[np-1:] {
			y, ty := t.expr(a, c, pre)
			parts = append(parts, t.conv(a, y, ty, el))
		}
		if len(parts) == 0 {
			z, _ := g.params[np-1].ty.zero()
			out = append(out, z)
		} else {
			out = append(out, "["+strings.Join(parts, "; ")+"]")
		}
		return out
	}
	if len(ce.Args) != np {
		t.fail(ce, "call of %s with %d arguments (it has %d parameters)", g.goName, len(ce.Args), np)
		return out
	}
	if ce.Ellipsis.IsValid() && !g.variadic {
		t.fail(ce, "s... passed to a function that is not variadic")
	}
	for i, a := range ce.Args {
		y, ty := t.expr(a, c, pre)
		out = append(out, t.conv(a, y, ty, g.params[i].ty))
	}
	return out
}

func (t *geTr) bind(pre *[]string, callText string) string {
	v := t.tmp()
	*pre = append(*pre, fmt.Sprintf("do %s <- %s;", v, callText))
	return v
}

func (t *geTr) staticCall(g *geFunc, n ast.Node, recvFields []string, args []string, pre *[]string) (string, *geT) {
	parts := []string{g.coq}
	if g.needsSelf {
		if g.group == t.f.group && g.group != "" {
			parts = append(parts, "self")
			t.usesSelf = true
		} else {
			t.fail(n, "call of the method %s, which dispatches dynamically, from outside its group", g.goName)
		}
	}
	if g.needsFuel {
		parts = append(parts, "fuel'")
	}
	parts = append(parts, recvFields...)
	parts = append(parts, args...)
	return t.bind(pre, strings.Join(parts, " ")), g.res
}

func (t *geTr) call(ce *ast.CallExpr, c geCtx, pre *[]string) (string, *geT) {
	// conversions
	funSrc := t.src(ce.Fun)
	if len(ce.Args) == 1 {
		switch funSrc {
		case "string", "types.ColumnName":
			if _, shadow := c.lookup(funSrc); !shadow {
				y, ty := t.expr(ce.Args[0], c, pre)
				if ty.k != "string" && ty.k != "colname" && ty.k != "ustring" {
					t.fail(ce, "conversion outside the scheme: %s", t.src(ce))
				}
				if funSrc == "string" {
					return y, geK("string")
				}
				return y, geK("colname")
			}
		case "(*string)":
			if t.src(ce.Args[0]) == "nil" {
				return "None", geK("pstring")
			}
		}
	}
	switch fun := ce.Fun.(type) {
	case *ast.Ident:
		if _, isVar := c.lookup(fun.Name); isVar {
			t.fail(ce, "call of a function value: %s", t.src(ce))
			return "0", geBad
		}
		switch fun.Name {
		case "len":
			if len(ce.Args) == 1 {
				y, ty := t.expr(ce.Args[0], c, pre)
				if ty.elem() == nil && ty.k != "string" && ty.k != "colname" {
					t.fail(ce, "len of something that is not a slice or a string")
				}
				return "(Z.of_nat (length " + y + "))", geK("int")
			}
		case "append":
			if len(ce.Args) == 2 && !ce.Ellipsis.IsValid() {
				s, ty := t.expr(ce.Args[0], c, pre)
				el := ty.elem()
				if el == nil {
					t.fail(ce, "append to something that is not a slice")
					return "[]", geBad
				}
				y, ty2 := t.expr(ce.Args[1], c, pre)
				return "(" + s + " ++ [" + t.conv(ce.Args[1], y, ty2, el) + "])", ty
			}
		case "make":
			if len(ce.Args) == 2 {
				ty := geResolve(t.src(ce.Args[0]))
				el := ty.elem()
				if el == nil {
					t.fail(ce, "make of a type outside the scheme: %s", t.src(ce))
					return "[]", geBad
				}
				if t.src(ce.Args[1]) == "0" {
					z, _ := ty.zero()
					return z, ty
				}
				n, tn := t.expr(ce.Args[1], c, pre)
				t.conv(ce.Args[1], n, tn, geK("int"))
				z, ok := el.zero()
				if !ok {
					t.fail(ce, "make: the element type has no zero value in the scheme")
				}
				return t.bind(pre, "ge_make "+z+" "+n), ty
			}
		}
		if g, ok := geFuncs[fun.Name]; ok {
			args := t.argsFor(g, ce, c, pre)
			return t.staticCall(g, ce, nil, args, pre)
		}
		t.fail(ce, "call outside the scheme: %s", t.src(ce))
		return "0", geBad
	case *ast.SelectorExpr:
		if id, ok := fun.X.(*ast.Ident); ok {
			if _, isVar := c.lookup(id.Name); !isVar {
				switch id.Name + "." + fun.Sel.Name {
				case "strconv.Itoa":
					if len(ce.Args) == 1 {
						y, ty := t.expr(ce.Args[0], c, pre)
						t.conv(ce.Args[0], y, ty, geK("int"))
						return "(strconv_Itoa " + y + ")", geK("string")
					}
				case "qerrors.New":
					if len(ce.Args) >= 2 && !ce.Ellipsis.IsValid() {
						op, ok1 := t.stringLit(ce.Args[0])
						fm, ok2 := t.stringLit(ce.Args[1])
						if !ok1 || !ok2 {
							t.fail(ce, "qerrors.New: the operation and the format must be string literals")
						}
						for _, a := range ce.Args[2:] { // evaluated (a panic in them stays), then dropped
							t.expr(a, c, pre)
						}
						return "(err_New " + op + " " + fm + ")", geK("qerr")
					}
				case "qerrors.Propagate":
					if len(ce.Args) == 2 {
						op, ok1 := t.stringLit(ce.Args[0])
						if !ok1 {
							t.fail(ce, "qerrors.Propagate: the operation must be a string literal")
						}
						y, ty := t.expr(ce.Args[1], c, pre)
						return "(err_Propagate " + op + " " + t.conv(ce.Args[1], y, ty, geK("err")) + ")", geK("qerr")
					}
				}
				t.fail(ce, "call outside the scheme: %s", t.src(ce))
				return "0", geBad
			}
			// a method of the receiver struct
			if v, ok := c.lookup(id.Name); ok && v.ty.k == "struct" && v.coq == "" {
				g, ok := geFuncs[v.ty.sname+"."+fun.Sel.Name]
				if !ok {
					t.fail(ce, "unknown method %s", t.src(ce.Fun))
					return "0", geBad
				}
				var rf []string
				for _, f := range geImplOf(v.ty.sname).fields {
					rf = append(rf, v.name+"_"+f.name)
				}
				return t.staticCall(g, ce, rf, t.argsFor(g, ce, c, pre), pre)
			}
		}
		y, ty := t.expr(fun.X, c, pre)
		m := fun.Sel.Name
		argN := func(n int) bool {
			if len(ce.Args) != n {
				t.fail(ce, "%s with %d arguments", t.src(ce.Fun), len(ce.Args))
				return false
			}
			return true
		}
		switch ty.k {
		case "frame":
			switch m {
			case "withErr":
				if argN(1) {
					a, ta := t.expr(ce.Args[0], c, pre)
					return "(qf_withErr " + y + " " + t.conv(ce.Args[0], a, ta, geK("err")) + ")", geK("frame")
				}
			case "Contains":
				if argN(1) {
					a, ta := t.expr(ce.Args[0], c, pre)
					return t.bind(pre, "qf_Contains "+y+" "+t.conv(ce.Args[0], a, ta, geK("string"))), geK("bool")
				}
			case "functionType":
				if argN(1) {
					a, ta := t.expr(ce.Args[0], c, pre)
					return t.bind(pre, "qf_functionType "+y+" "+t.conv(ce.Args[0], a, ta, geK("string"))), &geT{k: "tuple", elems: []*geT{geK("functype"), geK("err")}}
				}
			case "Drop", "Apply":
				want, fn := geK("string"), "qf_Drop"
				if m == "Apply" {
					want, fn = geK("instr"), "qf_Apply"
				}
				if ce.Ellipsis.IsValid() {
					if argN(1) {
						a, ta := t.expr(ce.Args[0], c, pre)
						if ta.elem() == nil || !ta.elem().same(want) {
							t.fail(ce, "%s(s...) with s of a type outside the scheme", m)
						}
						return t.bind(pre, fn+" "+y+" "+a), geK("frame")
					}
				} else {
					var parts []string
					for _, arg := range ce.Args {
						a, ta := t.expr(arg, c, pre)
						parts = append(parts, t.conv(arg, a, ta, want))
					}
					return t.bind(pre, fn+" "+y+" ["+strings.Join(parts, "; ")+"]"), geK("frame")
				}
			}
		case "ctx":
			if m == "GetFunc" && argN(3) {
				var as []string
				for i, want := range []*geT{geK("functype"), geK("argcount"), geK("string")} {
					a, ta := t.expr(ce.Args[i], c, pre)
					as = append(as, t.conv(ce.Args[i], a, ta, want))
				}
				return t.bind(pre, "ctx_GetFunc "+y+" "+strings.Join(as, " ")), &geT{k: "tuple", elems: []*geT{geK("any"), geK("bool")}}
			}
		case "struct":
			g, ok := geFuncs[ty.sname+"."+m]
			if ok {
				var rf []string
				for _, f := range geImplOf(ty.sname).fields {
					rf = append(rf, fmt.Sprintf("(ge_%s_f_%s %s)", ty.sname, f.name, y))
				}
				return t.staticCall(g, ce, rf, t.argsFor(g, ce, c, pre), pre)
			}
		case "iface":
			// dynamic dispatch
			var g0 *geFunc
			for _, im := range geImpls {
				if g := geFuncs[im.name+"."+m]; g != nil {
					g0 = g
					break
				}
			}
			isMethod := false
			for _, mm := range geMethods {
				if mm == m {
					isMethod = true
				}
			}
			if g0 == nil || !isMethod {
				t.fail(ce, "unknown interface method %s", m)
				return "0", geBad
			}
			args := t.argsFor(g0, ce, c, pre)
			var parts []string
			if t.f.group == m {
				if t.inLoop > 0 {
					t.fail(ce, "dynamic dispatch inside a loop of a method of the same group")
				}
				parts = append(parts, "self")
				t.usesSelf = true
			} else {
				parts = append(parts, "ge_Expression_"+m)
			}
			if geGroupFuel[m] {
				parts = append(parts, "fuel'")
			}
			parts = append(parts, y)
			parts = append(parts, args...)
			return t.bind(pre, strings.Join(parts, " ")), g0.res
		}
		t.fail(ce, "method call outside the scheme: %s", t.src(ce))
		return "0", geBad
	}
	t.fail(ce, "call outside the scheme: %s", t.src(ce))
	return "0", geBad
}

// ------------------------------------------------------------------ statements

type geCont func(c geCtx) string

func geWrap(pre []string, body string) string {
	if len(pre) == 0 {
		return body
	}
	return strings.Join(pre, "\n") + "\n" + body
}

func geContainsReturn(nodes ...ast.Node) bool {
	found := false
	for _, n := range nodes {
		if n == nil {
			continue
		}
		ast.Inspect(n, func(x ast.Node) bool {
			if _, ok := x.(*ast.ReturnStmt); ok {
				found = true
			}
			return true
		})
	}
	return found
}

// assignedOuter: the variables of c that the nodes store into, in the order of c
func (t *geTr) assignedOuter(c geCtx, nodes ...ast.Node) []geVar {
	names := map[string]bool{}
	base := func(e ast.Expr) {
		for {
			switch x := e.(type) {
			case *ast.Ident:
				names[x.Name] = true
				return
			case *ast.IndexExpr:
				e = x.X
			case *ast.SliceExpr:
				e = x.X
			case *ast.ParenExpr:
				e = x.X
			default:
				return
			}
		}
	}
	for _, n := range nodes {
		if n == nil {
			continue
		}
		ast.Inspect(n, func(x ast.Node) bool {
			switch s := x.(type) {
			case *ast.AssignStmt:
				if s.Tok != token.DEFINE {
					for _, l := range s.Lhs {
						base(l)
					}
				}
			case *ast.IncDecStmt:
				base(s.X)
			case *ast.CallExpr:
				if id, ok := s.Fun.(*ast.Ident); ok && id.Name == "copy" && len(s.Args) == 2 {
					base(s.Args[0])
				}
			}
			return true
		})
	}
	var out []geVar
	seen := map[string]bool{}
	for i := len(c.vars) - 1; i >= 0; i-- {
		v := c.vars[i]
		if names[v.name] && !seen[v.name] && v.coq != "" {
			seen[v.name] = true
			out = append([]geVar{v}, out...)
		}
	}
	return out
}

func geVarTuple(vs []geVar) (val, pat string, ty *geT) {
	var parts []string
	ty = &geT{k: "tuple"}
	for _, v := range vs {
		parts = append(parts, v.coq)
		ty.elems = append(ty.elems, v.ty)
	}
	if len(parts) == 0 {
		return "tt", "_", ty
	}
	if len(parts) == 1 {
		return parts[0], parts[0], vs[0].ty
	}
	return "(" + strings.Join(parts, ", ") + ")", "(" + strings.Join(parts, ", ") + ")", ty
}

// declare handles the left side of := for one name
func (t *geTr) declare(n ast.Node, c geCtx, name string, ty *geT) (geCtx, string) {
	if name == "_" {
		return c, "_"
	}
	if v, ok := c.lookup(name); ok {
		if v.level == c.level {
			if v.coq == "" || !v.ty.same(ty) && ty.k != "bad" && v.ty.k != "bad" {
				t.fail(n, "%s is redeclared with another type", name)
			}
			return c, v.coq
		}
		t.fail(n, "the inner variable %s shadows an outer one", name)
	}
	if ty.k == "ustring" {
		ty = geK("string")
	}
	if ty.k == "nil" || ty.k == "tuple" {
		t.fail(n, "the variable %s has no type in the scheme", name)
	}
	v := geVar{name: name, coq: "v_" + name, ty: ty, level: c.level}
	return c.with(v), v.coq
}

type geBranch struct {
	head string
	gen  func(k geCont) string
}

// branching statement: when no branch returns, the outer variables stored into are joined; otherwise the rest
// of the block is continued inside the branches that fall through
func (t *geTr) branching(nodes []ast.Node, c geCtx, k geCont, open string, brs []geBranch, close string) string {
	var b strings.Builder
	emit := func(kk geCont) {
		if open != "" {
			b.WriteString(open + "\n")
		}
		for _, br := range brs {
			b.WriteString(br.head + "\n" + gsIndent(br.gen(kk)) + "\n")
		}
		if close != "" {
			b.WriteString(close + "\n")
		}
	}
	if !geContainsReturn(nodes...) {
		vs := t.assignedOuter(c, nodes...)
		val, pat, _ := geVarTuple(vs)
		emit(func(geCtx) string { return "Ok " + val })
		return "do " + pat + " <- (\n" + gsIndent(strings.TrimRight(b.String(), "\n")) + "  );\n" + k(c)
	}
	calls := 0
	emit(func(geCtx) string {
		calls++
		before := t.nloops
		s := k(c)
		if calls > 1 && t.nloops != before {
			t.fail(nodes[0], "a loop follows a branching statement with a return in one branch and a fall-through in several")
		}
		return s
	})
	return strings.TrimRight(b.String(), "\n")
}

func (t *geTr) stmts(list []ast.Stmt, c geCtx, k geCont) string {
	if len(list) == 0 {
		return k(c)
	}
	return t.stmt(list[0], c, func(c2 geCtx) string { return t.stmts(list[1:], c2, k) })
}

func (t *geTr) block(b *ast.BlockStmt, c geCtx, k geCont) string {
	return t.stmts(b.List, c.inner(), func(geCtx) string { return k(c) })
}

func (t *geTr) stmt(s ast.Stmt, c geCtx, k geCont) string {
	switch x := s.(type) {
	case *ast.EmptyStmt:
		return k(c)
	case *ast.BlockStmt:
		return t.block(x, c, k)
	case *ast.ReturnStmt:
		return t.ret(x, c)
	case *ast.ExprStmt:
		if ce, ok := x.X.(*ast.CallExpr); ok {
			if id, ok := ce.Fun.(*ast.Ident); ok {
				if _, isVar := c.lookup(id.Name); !isVar {
					switch id.Name {
					case "panic":
						return "Panic"
					case "copy":
						return t.copyStmt(ce, c, k)
					}
				}
			}
		}
		t.fail(s, "expression statement outside the scheme: %s", t.src(s))
		return "Panic"
	case *ast.DeclStmt:
		gd, ok := x.Decl.(*ast.GenDecl)
		if !ok || gd.Tok != token.VAR {
			t.fail(s, "declaration outside the scheme")
			return "Panic"
		}
		var pre []string
		for _, sp := range gd.Specs {
			vs := sp.(*ast.ValueSpec)
			if vs.Type == nil || len(vs.Values) != 0 {
				t.fail(s, "var declaration outside the scheme (var x T only): %s", t.src(s))
				continue
			}
			ty := geResolve(t.src(vs.Type))
			z, ok := ty.zero()
			if !ok {
				t.fail(s, "var of a type without zero value in the scheme: %s", t.src(vs.Type))
			}
			for _, id := range vs.Names {
				var name string
				c, name = t.declare(s, c, id.Name, ty)
				pre = append(pre, fmt.Sprintf("let %s := %s in", name, z))
			}
		}
		return geWrap(pre, k(c))
	case *ast.IncDecStmt:
		id, ok := x.X.(*ast.Ident)
		if !ok {
			t.fail(s, "++ / -- of something that is not a variable")
			return "Panic"
		}
		v, ok := c.lookup(id.Name)
		if !ok || v.ty.k != "int" {
			t.fail(s, "++ / -- of something that is not an int variable")
			return "Panic"
		}
		op := "+"
		if x.Tok == token.DEC {
			op = "-"
		}
		return fmt.Sprintf("let %s := (%s %s 1) in\n", v.coq, v.coq, op) + k(c)
	case *ast.AssignStmt:
		return t.assign(x, c, k)
	case *ast.IfStmt:
		return t.ifStmt(x, c, k)
	case *ast.TypeSwitchStmt:
		return t.typeSwitch(x, c, k)
	case *ast.ForStmt:
		return t.forStmt(x, c, k)
	case *ast.RangeStmt:
		return t.rangeStmt(x, c, k)
	}
	t.fail(s, "statement outside the scheme: %s", strings.SplitN(t.src(s), "\n", 2)[0])
	return "Panic"
}

func (t *geTr) ret(x *ast.ReturnStmt, c geCtx) string {
	var pre []string
	want := []*geT{t.f.res}
	if t.f.res.k == "tuple" {
		want = t.f.res.elems
	}
	if len(x.Results) == 1 && len(want) > 1 {
		ce, ok := x.Results[0].(*ast.CallExpr)
		if !ok {
			t.fail(x, "return outside the scheme")
			return "Panic"
		}
		y, ty := t.call(ce, c, &pre)
		if !ty.same(t.f.res) {
			t.fail(x, "return of a call with other result types")
		}
		return geWrap(pre, "Ok "+y)
	}
	if len(x.Results) != len(want) {
		t.fail(x, "return with %d values, the function has %d results", len(x.Results), len(want))
		return "Panic"
	}
	var parts []string
	for i, r := range x.Results {
		y, ty := t.expr(r, c, &pre)
		parts = append(parts, t.conv(r, y, ty, want[i]))
	}
	return geWrap(pre, "Ok "+gcTuple(parts))
}

func (t *geTr) copyStmt(ce *ast.CallExpr, c geCtx, k geCont) string {
	if len(ce.Args) != 2 {
		t.fail(ce, "copy outside the scheme")
		return "Panic"
	}
	var pre []string
	dst := ce.Args[0]
	lo := "0"
	if se, ok := dst.(*ast.SliceExpr); ok && se.Low != nil && se.High == nil && se.Max == nil {
		l, tl := t.expr(se.Low, c, &pre)
		t.conv(se.Low, l, tl, geK("int"))
		lo, dst = l, se.X
	}
	id, ok := dst.(*ast.Ident)
	if !ok {
		t.fail(ce, "copy into something that is not a variable or v[lo:]: %s", t.src(ce))
		return "Panic"
	}
	v, ok := c.lookup(id.Name)
	if !ok || v.ty.elem() == nil {
		t.fail(ce, "copy into something that is not a slice variable")
		return "Panic"
	}
	sText, sTy := t.expr(ce.Args[1], c, &pre)
	if !sTy.same(v.ty) {
		t.fail(ce, "copy between slices of different types")
	}
	pre = append(pre, fmt.Sprintf("do %s <- ge_copy_at %s %s %s;", v.coq, v.coq, lo, sText))
	return geWrap(pre, k(c))
}

// assertion x.(T) with comma-ok as a value: (payload, true) or (zero, false)
func (t *geTr) assertPair(ta *ast.TypeAssertExpr, c geCtx, pre *[]string) (string, *geT, bool) {
	if ta.Type == nil {
		t.fail(ta, "x.(type) outside a switch")
		return "", geBad, false
	}
	y, ty := t.expr(ta.X, c, pre)
	if ty.k != "any" {
		t.fail(ta, "type assertion on something that is not an interface{} value: %s", t.src(ta))
		return "", geBad, false
	}
	d := geDynOfSrc(t.src(ta.Type))
	if d == nil {
		t.fail(ta, "type assertion to a type outside the scheme: %s", t.src(ta.Type))
		return "", geBad, false
	}
	z, ok := d.ty.zero()
	if !ok {
		t.fail(ta, "the asserted type %s has no zero value in the scheme (use if v, ok := x.(T); ok { .. })", d.src)
		return "", geBad, false
	}
	return fmt.Sprintf("(match %s with %s v => (v, true) | _ => (%s, false) end)", y, d.ctor, z), d.ty, true
}

func (t *geTr) assign(x *ast.AssignStmt, c geCtx, k geCont) string {
	if x.Tok != token.DEFINE && x.Tok != token.ASSIGN {
		t.fail(x, "assignment operator outside the scheme: %s", t.src(x))
		return "Panic"
	}
	var pre []string
	// the left sides: names (declared or assigned)
	lhsName := func(l ast.Expr, ty *geT, c geCtx) (geCtx, string) {
		id, ok := l.(*ast.Ident)
		if !ok {
			t.fail(l, "left side outside the scheme: %s", t.src(l))
			return c, "_"
		}
		if id.Name == "_" {
			return c, "_"
		}
		if x.Tok == token.DEFINE {
			return t.declare(l, c, id.Name, ty)
		}
		v, ok := c.lookup(id.Name)
		if !ok || v.coq == "" {
			t.fail(l, "assignment to an unknown variable %s", id.Name)
			return c, "_"
		}
		if !v.ty.same(ty) && ty.k != "bad" {
			// the value must be convertible
			t.conv(l, "", ty, v.ty)
		}
		return c, v.coq
	}
	if len(x.Lhs) == 2 && len(x.Rhs) == 1 {
		var val string
		var tys []*geT
		switch r := x.Rhs[0].(type) {
		case *ast.TypeAssertExpr:
			text, ty, ok := t.assertPair(r, c, &pre)
			if !ok {
				return "Panic"
			}
			val, tys = text, []*geT{ty, geK("bool")}
		case *ast.CallExpr:
			text, ty := t.call(r, c, &pre)
			if ty.k != "tuple" || len(ty.elems) != 2 {
				t.fail(x, "two variables are assigned from a call with another number of results: %s", t.src(x))
				return "Panic"
			}
			val, tys = text, ty.elems
		default:
			t.fail(x, "assignment outside the scheme: %s", t.src(x))
			return "Panic"
		}
		c2 := c
		var names []string
		for i, l := range x.Lhs {
			var n string
			c2, n = lhsName(l, tys[i], c2)
			names = append(names, n)
		}
		pre = append(pre, fmt.Sprintf("let '(%s) := %s in", strings.Join(names, ", "), val))
		return geWrap(pre, k(c2))
	}
	if len(x.Lhs) != len(x.Rhs) {
		t.fail(x, "assignment outside the scheme: %s", t.src(x))
		return "Panic"
	}
	if len(x.Lhs) == 1 {
		if ie, ok := x.Lhs[0].(*ast.IndexExpr); ok && x.Tok == token.ASSIGN {
			id, ok := ie.X.(*ast.Ident)
			if !ok {
				t.fail(x, "store outside the scheme: %s", t.src(x))
				return "Panic"
			}
			v, ok := c.lookup(id.Name)
			if !ok || v.ty.elem() == nil {
				t.fail(x, "store into something that is not a slice variable")
				return "Panic"
			}
			i, ti := t.expr(ie.Index, c, &pre)
			t.conv(ie.Index, i, ti, geK("int"))
			y, ty := t.expr(x.Rhs[0], c, &pre)
			pre = append(pre, fmt.Sprintf("do %s <- ge_update %s %s %s;", v.coq, v.coq, i, t.conv(x.Rhs[0], y, ty, v.ty.elem())))
			return geWrap(pre, k(c))
		}
	}
	var vals []string
	var tys []*geT
	for _, r := range x.Rhs {
		y, ty := t.expr(r, c, &pre)
		vals = append(vals, y)
		tys = append(tys, ty)
	}
	c2 := c
	var names []string
	for i, l := range x.Lhs {
		want := tys[i]
		if x.Tok == token.ASSIGN {
			if id, ok := l.(*ast.Ident); ok {
				if v, ok := c.lookup(id.Name); ok {
					vals[i] = t.conv(x.Rhs[i], vals[i], tys[i], v.ty)
					want = v.ty
				}
			}
		}
		var n string
		c2, n = lhsName(l, want, c2)
		names = append(names, n)
	}
	if len(names) == 1 {
		pre = append(pre, fmt.Sprintf("let %s := %s in", names[0], vals[0]))
	} else {
		pre = append(pre, fmt.Sprintf("let '(%s) := (%s) in", strings.Join(names, ", "), strings.Join(vals, ", ")))
	}
	return geWrap(pre, k(c2))
}

func (t *geTr) ifStmt(x *ast.IfStmt, c geCtx, k geCont) string {
	nodes := []ast.Node{x.Body}
	if x.Else != nil {
		nodes = append(nodes, x.Else)
	}
	elseGen := func(ce geCtx) func(kk geCont) string {
		return func(kk geCont) string {
			if x.Else == nil {
				return kk(c)
			}
			return t.stmts([]ast.Stmt{x.Else}, ce.inner(), func(geCtx) string { return kk(c) })
		}
	}
	ci := c.inner()
	// if v, ok := x.(T); ok { A } else { B }
	if as, ok := x.Init.(*ast.AssignStmt); ok && as.Tok == token.DEFINE && len(as.Lhs) == 2 && len(as.Rhs) == 1 {
		if ta, ok := as.Rhs[0].(*ast.TypeAssertExpr); ok && ta.Type != nil {
			vId, ok1 := as.Lhs[0].(*ast.Ident)
			okId, ok2 := as.Lhs[1].(*ast.Ident)
			cId, ok3 := x.Cond.(*ast.Ident)
			if ok1 && ok2 && ok3 && cId.Name == okId.Name && okId.Name != "_" {
				var pre []string
				y, ty := t.expr(ta.X, c, &pre)
				if ty.k != "any" {
					t.fail(ta, "type assertion on something that is not an interface{} value: %s", t.src(ta))
					return "Panic"
				}
				d := geDynOfSrc(t.src(ta.Type))
				if d == nil {
					t.fail(ta, "type assertion to a type outside the scheme: %s", t.src(ta.Type))
					return "Panic"
				}
				cA := ci.with(geVar{name: okId.Name, coq: "true", ty: geK("bool"), level: ci.level})
				cB := ci.with(geVar{name: okId.Name, coq: "false", ty: geK("bool"), level: ci.level})
				pat := "_"
				if vId.Name != "_" {
					pat = "v_" + vId.Name
					cA = cA.with(geVar{name: vId.Name, coq: pat, ty: d.ty, level: ci.level})
					if z, ok := d.ty.zero(); ok {
						cB = cB.with(geVar{name: vId.Name, coq: z, ty: d.ty, level: ci.level})
					}
				}
				if names := t.assignedOuter(ci.with(geVar{name: okId.Name, coq: "x", ty: geK("bool")}).with(geVar{name: vId.Name, coq: "x", ty: d.ty}), nodes...); func() bool {
					for _, v := range names {
						if v.name == okId.Name || v.name == vId.Name {
							return true
						}
					}
					return false
				}() {
					t.fail(x, "the variables of the assertion are stored into")
				}
				brs := []geBranch{
					{"| " + d.ctor + " " + pat + " =>", func(kk geCont) string {
						return t.stmts(x.Body.List, cA.inner(), func(geCtx) string { return kk(c) })
					}},
					{"| _ =>", elseGen(cB)},
				}
				return geWrap(pre, t.branching(nodes, c, k, "match "+y+" with", brs, "end"))
			}
		}
	}
	core := func(c2 geCtx) string {
		var pre []string
		cond, tc := t.expr(x.Cond, c2, &pre)
		t.conv(x.Cond, cond, tc, geK("bool"))
		brs := []geBranch{
			{"if " + cond + " then", func(kk geCont) string {
				return t.stmts(x.Body.List, c2.inner(), func(geCtx) string { return kk(c) })
			}},
			{"else", elseGen(c2)},
		}
		return geWrap(pre, t.branching(nodes, c, k, "", brs, ""))
	}
	if x.Init != nil {
		return t.stmt(x.Init, ci, core)
	}
	return core(ci)
}

func (t *geTr) typeSwitch(x *ast.TypeSwitchStmt, c geCtx, k geCont) string {
	if x.Init != nil {
		t.fail(x, "type switch with an init statement")
		return "Panic"
	}
	var ta *ast.TypeAssertExpr
	bindName := ""
	switch a := x.Assign.(type) {
	case *ast.ExprStmt:
		ta, _ = a.X.(*ast.TypeAssertExpr)
	case *ast.AssignStmt:
		if len(a.Lhs) == 1 && len(a.Rhs) == 1 {
			ta, _ = a.Rhs[0].(*ast.TypeAssertExpr)
			bindName = a.Lhs[0].(*ast.Ident).Name
		}
	}
	if ta == nil {
		t.fail(x, "type switch outside the scheme")
		return "Panic"
	}
	var pre []string
	y, ty := t.expr(ta.X, c, &pre)
	if ty.k != "any" {
		t.fail(x, "type switch on something that is not an interface{} value")
		return "Panic"
	}
	nodes := []ast.Node{x.Body}
	var brs []geBranch
	var def *ast.CaseClause
	seen := map[string]bool{}
	ci := c.inner()
	for _, cl := range x.Body.List {
		cc := cl.(*ast.CaseClause)
		if cc.List == nil {
			def = cc
			continue
		}
		var pats []string
		cb := ci
		for _, e := range cc.List {
			src := t.src(e)
			if seen[src] {
				t.fail(e, "the type %s occurs in two cases", src)
			}
			seen[src] = true
			if src == "nil" {
				pats = append(pats, "ge_dyn_nil")
				continue
			}
			d := geDynOfSrc(src)
			if d == nil {
				t.fail(e, "case of a type outside the scheme: %s", src)
				continue
			}
			if bindName != "" && len(cc.List) == 1 {
				pats = append(pats, d.ctor+" v_"+bindName)
				cb = cb.with(geVar{name: bindName, coq: "v_" + bindName, ty: d.ty, level: ci.level})
			} else {
				pats = append(pats, d.ctor+" _")
			}
		}
		if bindName != "" && len(cc.List) != 1 {
			cb = cb.with(geVar{name: bindName, coq: y, ty: geK("any"), level: ci.level})
		}
		body := cc.Body
		cbb := cb
		brs = append(brs, geBranch{"| " + strings.Join(pats, " | ") + " =>", func(kk geCont) string {
			return t.stmts(body, cbb.inner(), func(geCtx) string { return kk(c) })
		}})
	}
	cd := ci
	if bindName != "" {
		cd = cd.with(geVar{name: bindName, coq: y, ty: geK("any"), level: ci.level})
	}
	brs = append(brs, geBranch{"| _ =>", func(kk geCont) string {
		if def == nil {
			return kk(c)
		}
		return t.stmts(def.Body, cd.inner(), func(geCtx) string { return kk(c) })
	}})
	for _, cl := range x.Body.List {
		for _, s := range cl.(*ast.CaseClause).Body {
			if _, ok := s.(*ast.BranchStmt); ok {
				t.fail(s, "break / fallthrough in a type switch")
			}
		}
	}
	return geWrap(pre, t.branching(nodes, c, k, "match "+y+" with", brs, "end"))
}

// loopParams: the variables of c the text mentions (innermost binding of each Coq name), minus those excluded
func geLoopParams(c geCtx, text string, exclude map[string]bool) []geVar {
	var out []geVar
	seen := map[string]bool{}
	for i := len(c.vars) - 1; i >= 0; i-- {
		v := c.vars[i]
		names := []string{v.coq}
		if v.coq == "" { // the receiver: its fields
			names = nil
			for _, f := range geImplOf(v.ty.sname).fields {
				names = append(names, v.name+"_"+f.name)
			}
		}
		for j, n := range names {
			if seen[n] || exclude[n] || !strings.HasPrefix(n, "v_") && v.coq != "" {
				continue
			}
			seen[n] = true
			if gsMentions(text, n) {
				ty := v.ty
				if v.coq == "" {
					ty = geImplOf(v.ty.sname).fields[j].ty
				}
				out = append([]geVar{{name: n, coq: n, ty: ty}}, out...)
			}
		}
	}
	return out
}

const geCallMark = "@@LOOPCALL@@"

func (t *geTr) loopName() string {
	t.nloops++
	return fmt.Sprintf("%s_loop%d", t.f.coq, t.nloops)
}

func (t *geTr) forStmt(x *ast.ForStmt, c geCtx, k geCont) string {
	if x.Cond == nil {
		t.fail(x, "for without a condition")
		return "Panic"
	}
	gen := func(c2 geCtx) string {
		hasRet := geContainsReturn(x.Body)
		nodes := []ast.Node{x.Body}
		if x.Post != nil {
			nodes = append(nodes, x.Post)
		}
		outVars := t.assignedOuter(c, nodes...)
		val, pat, rty := geVarTuple(outVars)
		t.inLoop++
		var pre []string
		cond, tc := t.expr(x.Cond, c2, &pre)
		t.conv(x.Cond, cond, tc, geK("bool"))
		body := t.stmts(x.Body.List, c2.inner(), func(geCtx) string {
			if x.Post == nil {
				return geCallMark
			}
			return t.stmt(x.Post, c2, func(geCtx) string { return geCallMark })
		})
		t.inLoop--
		name := t.loopName()
		exit := "Ok " + val
		if hasRet {
			exit = k(c)
			rty = t.f.res
		}
		text := geWrap(pre, "if "+cond+" then\n"+gsIndent(body)+"\nelse\n"+gsIndent(exit))
		if gsMentions(text, "self") {
			t.fail(x, "dynamic dispatch inside a loop of a method of the same group")
		}
		params := geLoopParams(c2, text, nil)
		var sig, args []string
		if gsMentions(text, "fuel'") {
			sig = append(sig, "(fuel' : nat)")
			args = append(args, "fuel'")
		}
		sig = append(sig, "(k : nat)")
		var vargs []string
		for _, p := range params {
			sig = append(sig, fmt.Sprintf("(%s : %s)", p.coq, p.ty.coq()))
			vargs = append(vargs, p.coq)
		}
		rec := strings.Join(append(append([]string{name}, args...), append([]string{"k'"}, vargs...)...), " ")
		text = strings.ReplaceAll(text, geCallMark, rec)
		t.f.loops = append(t.f.loops, fmt.Sprintf("Fixpoint %s %s {struct k} : outcome %s :=\n  match k with\n  | O => Panic\n  | S k' =>\n%s\n  end.\n", name, strings.Join(sig, " "), rty.coq(), gsIndent(gsIndent(text))))
		call := strings.Join(append(append([]string{name}, args...), append([]string{"fuel'"}, vargs...)...), " ")
		if hasRet {
			return call
		}
		return "do " + pat + " <- " + call + ";\n" + k(c)
	}
	ci := c.inner()
	if x.Init != nil {
		return t.stmt(x.Init, ci, gen)
	}
	return gen(ci)
}

func (t *geTr) rangeStmt(x *ast.RangeStmt, c geCtx, k geCont) string {
	if x.Tok != token.DEFINE && (x.Key != nil || x.Value != nil) {
		t.fail(x, "range with assignment to existing variables")
		return "Panic"
	}
	var pre []string
	xs, xty := t.expr(x.X, c, &pre)
	el := xty.elem()
	if el == nil {
		t.fail(x, "range over something that is not a slice: %s", t.src(x.X))
		return "Panic"
	}
	ci := c.inner()
	keyCoq, valPat := "", "_"
	exclude := map[string]bool{}
	if id, ok := x.Key.(*ast.Ident); ok && id.Name != "_" {
		ci, keyCoq = t.declare(x, ci, id.Name, geK("int"))
		exclude[keyCoq] = true
	}
	if id, ok := x.Value.(*ast.Ident); ok && id.Name != "_" {
		ci, valPat = t.declare(x, ci, id.Name, el)
		exclude[valPat] = true
	}
	hasRet := geContainsReturn(x.Body)
	outVars := t.assignedOuter(c, x.Body)
	for _, v := range outVars {
		if id, ok := x.X.(*ast.Ident); ok && id.Name == v.name {
			t.fail(x, "the ranged slice is stored into by the body")
		}
	}
	val, pat, rty := geVarTuple(outVars)
	t.inLoop++
	body := t.stmts(x.Body.List, ci.inner(), func(geCtx) string { return geCallMark })
	t.inLoop--
	name := t.loopName()
	exit := "Ok " + val
	if hasRet {
		exit = k(c)
		rty = t.f.res
	}
	all := body + "\n" + exit
	if gsMentions(all, "self") {
		t.fail(x, "dynamic dispatch inside a loop of a method of the same group")
	}
	params := geLoopParams(ci, all, exclude)
	var sig, args, vargs []string
	if gsMentions(all, "fuel'") {
		sig = append(sig, "(fuel' : nat)")
		args = append(args, "fuel'")
	}
	sig = append(sig, fmt.Sprintf("(l : list %s)", strings.Trim(el.coq(), "()")))
	recHead := append(append([]string{name}, args...), "l'")
	callHead := append(append([]string{name}, args...), xs)
	if keyCoq != "" {
		sig = append(sig, "("+keyCoq+" : Z)")
		recHead = append(recHead, "("+keyCoq+" + 1)")
		callHead = append(callHead, "0")
	}
	for _, p := range params {
		sig = append(sig, fmt.Sprintf("(%s : %s)", p.coq, p.ty.coq()))
		vargs = append(vargs, p.coq)
	}
	body = strings.ReplaceAll(body, geCallMark, strings.Join(append(recHead, vargs...), " "))
	t.f.loops = append(t.f.loops, fmt.Sprintf("Fixpoint %s %s {struct l} : outcome %s :=\n  match l with\n  | [] =>\n%s\n  | %s :: l' =>\n%s\n  end.\n", name, strings.Join(sig, " "), rty.coq(), gsIndent(gsIndent(exit)), valPat, gsIndent(gsIndent(body))))
	call := strings.Join(append(callHead, vargs...), " ")
	if hasRet {
		return geWrap(pre, call)
	}
	return geWrap(pre, "do "+pat+" <- "+call+";\n"+k(c))
}

// ------------------------------------------------------------------ functions

func geCoqName(goName string) string { return "ge_" + strings.ReplaceAll(goName, ".", "_") }

func geSignature(p *pkgInfo, f *geFunc) bool {
	t := &geTr{p: p, f: f}
	fd := f.fd
	if fd.Recv != nil {
		if len(fd.Recv.List) != 1 || len(fd.Recv.List[0].Names) > 1 {
			t.fail(fd, "receiver outside the scheme")
			return false
		}
		ty := geResolve(t.src(fd.Recv.List[0].Type))
		if ty.k != "struct" {
			t.fail(fd, "a method of a type that is not an implementer of Expression")
			return false
		}
		name := "_"
		if len(fd.Recv.List[0].Names) == 1 {
			name = fd.Recv.List[0].Names[0].Name
		}
		if name == "_" {
			name = "recv"
		}
		f.recv = &geVar{name: name, coq: "", ty: ty}
		f.impl = geImplOf(ty.sname)
		for _, m := range geMethods {
			if m == f.short {
				f.group = m
			}
		}
	}
	nparams := len(fd.Type.Params.List)
	for i, fl := range fd.Type.Params.List {
		ty := geResolve(t.src(fl.Type))
		if ty.k == "bad" {
			t.fail(fl, "parameter type outside the scheme: %s", t.src(fl.Type))
		}
		if _, isEll := fl.Type.(*ast.Ellipsis); isEll {
			if i != nparams-1 || len(fl.Names) != 1 {
				t.fail(fl, "variadic parameter outside the scheme")
			}
			f.variadic = true
		}
		if len(fl.Names) == 0 {
			t.fail(fd, "parameter without name")
		}
		for _, n := range fl.Names {
			coq := "v_" + n.Name
			if n.Name == "_" {
				coq = "_"
			}
			f.params = append(f.params, geVar{name: n.Name, coq: coq, ty: ty})
		}
	}
	if fd.Type.Results == nil || len(fd.Type.Results.List) == 0 {
		t.fail(fd, "a function without result")
		return false
	}
	var rs []*geT
	for _, fl := range fd.Type.Results.List {
		if len(fl.Names) != 0 {
			t.fail(fd, "named results")
		}
		ty := geResolve(t.src(fl.Type))
		if ty.k == "bad" {
			t.fail(fl, "result type outside the scheme: %s", t.src(fl.Type))
		}
		rs = append(rs, ty)
	}
	if len(rs) == 1 {
		f.res = rs[0]
	} else {
		f.res = &geT{k: "tuple", elems: rs}
	}
	return !t.bad
}

// geAnalyse: the static call graph (which translated functions a function calls directly, which interface
// methods it calls dynamically), syntactically; the receiver types of method calls are found by the translation
// itself, here every x.m(..) with m the name of a method of an implementer counts as possibly static AND dynamic
// unless x is a known struct variable.
func geAnalyse(f *geFunc) (hasCondFor bool) {
	f.static, f.dynamic = map[string]bool{}, map[string]bool{}
	structVars := map[string]string{} // local variable -> struct name (from x, _ := newT(..) / x := T{..})
	if f.recv != nil {
		structVars[f.recv.name] = f.recv.ty.sname
	}
	ast.Inspect(f.fd.Body, func(n ast.Node) bool {
		switch x := n.(type) {
		case *ast.ForStmt:
			hasCondFor = true
		case *ast.AssignStmt:
			if len(x.Rhs) == 1 {
				if ce, ok := x.Rhs[0].(*ast.CallExpr); ok {
					if id, ok := ce.Fun.(*ast.Ident); ok {
						if g := geFuncs[id.Name]; g != nil && g.res != nil {
							rs := []*geT{g.res}
							if g.res.k == "tuple" {
								rs = g.res.elems
							}
							for i, l := range x.Lhs {
								if lid, ok := l.(*ast.Ident); ok && i < len(rs) && rs[i].k == "struct" {
									structVars[lid.Name] = rs[i].sname
								}
							}
						}
					}
				}
				if cl, ok := x.Rhs[0].(*ast.CompositeLit); ok && len(x.Lhs) == 1 {
					if id, ok := cl.Type.(*ast.Ident); ok && geImplOf(id.Name) != nil {
						if lid, ok := x.Lhs[0].(*ast.Ident); ok {
							structVars[lid.Name] = id.Name
						}
					}
				}
			}
		}
		return true
	})
	ast.Inspect(f.fd.Body, func(n ast.Node) bool {
		ce, ok := n.(*ast.CallExpr)
		if !ok {
			return true
		}
		switch fun := ce.Fun.(type) {
		case *ast.Ident:
			if geFuncs[fun.Name] != nil {
				f.static[fun.Name] = true
			}
		case *ast.SelectorExpr:
			m := fun.Sel.Name
			if id, ok := fun.X.(*ast.Ident); ok {
				if sn, ok := structVars[id.Name]; ok {
					if geFuncs[sn+"."+m] != nil {
						f.static[sn+"."+m] = true
					}
					return true
				}
			}
			for _, mm := range geMethods {
				if mm == m {
					f.dynamic[m] = true
				}
			}
		}
		return true
	})
	return
}

func geSource(p *pkgInfo, fd *ast.FuncDecl) string { return gcSource(p, fd) }

func (t *geTr) selfType() string {
	g := t.f
	var parts []string
	if geGroupFuel[g.group] {
		parts = append(parts, "nat")
	}
	parts = append(parts, "ge_Expression")
	for _, v := range g.params {
		parts = append(parts, v.ty.coq())
	}
	parts = append(parts, "outcome "+g.res.coq())
	return strings.Join(parts, " -> ")
}

func geTranslate(p *pkgInfo, f *geFunc) {
	t := &geTr{p: p, f: f}
	c := geCtx{}
	var sig []string
	if f.recv != nil {
		c.vars = append(c.vars, *f.recv)
		for _, fl := range f.impl.fields {
			sig = append(sig, fmt.Sprintf("(%s_%s : %s)", f.recv.name, fl.name, fl.ty.coq()))
		}
	}
	for _, v := range f.params {
		if v.name != "_" {
			c.vars = append(c.vars, v)
		}
		sig = append(sig, fmt.Sprintf("(%s : %s)", v.coq, v.ty.coq()))
	}
	body := t.stmts(f.fd.Body.List, c, func(geCtx) string {
		t.fail(f.fd, "the function can fall off its end")
		return "Panic"
	})
	f.needsSelf = t.usesSelf
	if f.needsFuel {
		sig = append([]string{"(fuel : nat)"}, sig...)
		body = "match fuel with\n| O => Panic\n| S fuel' =>\n" + gsIndent(body) + "\nend"
	} else if gsMentions(body, "fuel'") {
		t.fail(f.fd, "a function without fuel uses fuel")
	}
	for _, l := range f.loops {
		for _, m := range f.scc {
			if len(f.scc) > 1 || f.recursive {
				if gsMentions(l, geCoqName(m)) {
					t.fail(f.fd, "a loop calls a function of the recursive group")
				}
			}
		}
	}
	if f.needsSelf {
		sig = append([]string{"(self : " + t.selfType() + ")"}, sig...)
	}
	structArg := ""
	if f.recursive {
		structArg = " {struct fuel}"
	}
	sep := " "
	if len(sig) == 0 {
		sep = ""
	}
	f.sigText = fmt.Sprintf("%s%s%s%s : outcome %s", f.coq, sep, strings.Join(sig, " "), structArg, f.res.coq())
	f.bodyText = gsIndent(body)
	f.ok = !t.bad
}

func geDispatcher(m string) (string, bool) {
	ok := true
	var b strings.Builder
	var g0 *geFunc
	for _, im := range geImpls {
		if g := geFuncs[im.name+"."+m]; g != nil && g.res != nil {
			g0 = g
			break
		}
	}
	if g0 == nil {
		return "", false
	}
	sig := ""
	if geGroupFuel[m] {
		sig = "(fuel : nat) "
	}
	sig += "(x : ge_Expression)"
	extra := ""
	for i, v := range g0.params {
		sig += fmt.Sprintf(" (a%d : %s)", i+1, v.ty.coq())
		extra += fmt.Sprintf(" a%d", i+1)
	}
	fmt.Fprintf(&b, "(* x.%s(..) for x of the interface type Expression: dynamic dispatch *)\n", m)
	kw, st := "Definition", ""
	for _, im := range geImpls {
		if g := geFuncs[im.name+"."+m]; g != nil && g.needsSelf {
			kw, st = "Fixpoint", " {struct x}"
		}
	}
	fmt.Fprintf(&b, "%s ge_Expression_%s %s%s : outcome %s :=\n  match x with\n", kw, m, sig, st, g0.res.coq())
	for _, im := range geImpls {
		g := geFuncs[im.name+"."+m]
		if g == nil || !g.ok || g.res == nil || !g.res.same(g0.res) || len(g.params) != len(g0.params) {
			ok = false
			continue
		}
		pat := []string{"ge_mk_" + im.name}
		call := []string{g.coq}
		if g.needsSelf {
			call = append(call, "ge_Expression_"+m)
		}
		if g.needsFuel {
			call = append(call, "fuel")
		}
		for _, f := range im.fields {
			pat = append(pat, "x_"+f.name)
			call = append(call, "x_"+f.name)
		}
		fmt.Fprintf(&b, "  | %s => %s%s\n", strings.Join(pat, " "), strings.Join(call, " "), extra)
	}
	b.WriteString("  end.\n")
	return b.String(), ok
}

func genExprTree() string {
	geFuncs = map[string]*geFunc{}
	geOrder = nil
	geGroupFuel = map[string]bool{}
	root := loadPkg(".")
	for _, v := range geVocabulary {
		vp := loadPkg(v.pkg)
		fd, ok := vp.funcs[v.fn]
		if !ok || fd.Body == nil {
			problem("expression translation: %s not found in %s", v.fn, v.pkg)
			continue
		}
		cp := *fd
		cp.Doc = nil
		if !strings.Contains(v.text, "{\n") {
			cp.Body = nil
		}
		if gcSrc(vp.fset, &cp) != v.text {
			problem("expression translation: %s of %s is not the text the fixed vocabulary of the translation stands for", v.fn, v.pkg)
		}
	}
	typesOk := geLoadTypes(root)
	golden := ""
	if fl := flag.Lookup("golden"); fl != nil && fl.Value.String() != "" {
		if gb, err := os.ReadFile(filepath.Join(fl.Value.String(), "GenExprTree.v")); err == nil {
			golden = string(gb)
		}
	}
	var b strings.Builder
	b.WriteString(gePreamble)
	block := func(name, text string, ok bool) {
		if !ok {
			old, found := gfGoldenBlock(golden, name)
			if !found {
				return
			}
			text = "(* FALLBACK " + name + ": not derivable from the current source; text of the last validated tree *)\n" + old
		}
		fmt.Fprintf(&b, "(* BEGIN %s *)\n%s(* END %s *)\n\n", name, text, name)
	}
	block("ge_Any", geInductive(), typesOk)
	file, found := root.files[geFile]
	if !found {
		b.WriteString("End GenExprTree.\n")
		return b.String()
	}
	// every function of the file, in source order
	for _, d := range file.Decls {
		fd, ok := d.(*ast.FuncDecl)
		if !ok || fd.Body == nil {
			continue
		}
		name := fd.Name.Name
		if fd.Recv != nil && len(fd.Recv.List) == 1 {
			name = recvName(fd.Recv.List[0].Type) + "." + name
		}
		f := &geFunc{goName: name, short: fd.Name.Name, fd: fd, coq: geCoqName(name)}
		geFuncs[name] = f
		geOrder = append(geOrder, name)
	}
	for _, n := range geOrder {
		f := geFuncs[n]
		if !geSignature(root, f) {
			f.res = nil
		}
	}
	// call graph; nodes: functions and "dispatch:<m>"
	condFor := map[string]bool{}
	deps := map[string][]string{}
	var nodes []string
	for _, n := range geOrder {
		f := geFuncs[n]
		nodes = append(nodes, n)
		if f.res == nil {
			continue
		}
		condFor[n] = geAnalyse(f)
		for _, g := range geOrder { // in source order, for a stable result
			if f.static[g] {
				deps[n] = append(deps[n], g)
			}
		}
		for _, m := range geMethods {
			if f.dynamic[m] && f.group != m {
				deps[n] = append(deps[n], "dispatch:"+m)
			}
		}
	}
	for _, m := range geMethods {
		nodes = append(nodes, "dispatch:"+m)
		for _, im := range geImpls {
			deps["dispatch:"+m] = append(deps["dispatch:"+m], im.name+"."+m)
		}
	}
	// strongly connected components in reverse topological order (Tarjan): callees first
	var sccs [][]string
	{
		index, low, on := map[string]int{}, map[string]int{}, map[string]bool{}
		var stack []string
		next := 0
		var visit func(v string)
		visit = func(v string) {
			next++
			index[v], low[v] = next, next
			stack = append(stack, v)
			on[v] = true
			for _, w := range deps[v] {
				if index[w] == 0 {
					visit(w)
					if low[w] < low[v] {
						low[v] = low[w]
					}
				} else if on[w] && index[w] < low[v] {
					low[v] = index[w]
				}
			}
			if low[v] == index[v] {
				var comp []string
				for {
					w := stack[len(stack)-1]
					stack = stack[:len(stack)-1]
					on[w] = false
					comp = append([]string{w}, comp...)
					if w == v {
						break
					}
				}
				sccs = append(sccs, comp)
			}
		}
		for _, v := range nodes {
			if index[v] == 0 {
				visit(v)
			}
		}
	}
	for _, comp := range sccs {
		self := false
		for _, w := range deps[comp[0]] {
			if w == comp[0] {
				self = true
			}
		}
		if len(comp) > 1 || self {
			// members in source order
			var ordered []string
			for _, n := range nodes {
				for _, w := range comp {
					if w == n {
						ordered = append(ordered, n)
					}
				}
			}
			copy(comp, ordered)
			for _, w := range comp {
				f := geFuncs[w]
				if f == nil || f.recv != nil {
					problem("expression translation: recursion through %s is outside the scheme (only free functions may be recursive)", w)
					continue
				}
				f.recursive = true
				f.scc = comp
			}
		}
	}
	// fuel: least fixed point
	for changed := true; changed; {
		changed = false
		for _, n := range geOrder {
			f := geFuncs[n]
			if f.res == nil || f.needsFuel {
				continue
			}
			need := condFor[n] || f.recursive
			for g := range f.static {
				if geFuncs[g].needsFuel {
					need = true
				}
			}
			for m := range f.dynamic {
				if geGroupFuel[m] {
					need = true
				}
			}
			if need {
				f.needsFuel = true
				if f.group != "" {
					geGroupFuel[f.group] = true
				}
				changed = true
			}
		}
	}
	// emission
	dispatched := map[string]bool{}
	for _, comp := range sccs {
		if strings.HasPrefix(comp[0], "dispatch:") {
			if len(comp) > 1 {
				problem("expression translation: the dispatcher of %s is part of a cycle of the call graph", comp[0])
			}
			m := strings.TrimPrefix(comp[0], "dispatch:")
			text, ok := geDispatcher(m)
			dispatched[m] = true
			block("ge_Expression_"+m, text, ok)
			continue
		}
		allOk := true
		var text strings.Builder
		var defs []string
		for _, n := range comp {
			f := geFuncs[n]
			if f.res != nil {
				geTranslate(root, f)
			}
			if !f.ok {
				allOk = false
				continue
			}
			pk := "qframe"
			fmt.Fprintf(&text, "(* %s\n%s *)\n", pk, geSource(root, f.fd))
			for _, l := range f.loops {
				text.WriteString(l)
			}
			defs = append(defs, f.sigText+" :=\n"+f.bodyText)
		}
		if allOk {
			kw := "Definition"
			if geFuncs[comp[0]].recursive {
				kw = "Fixpoint"
			}
			text.WriteString(kw + " " + strings.Join(defs, "\nwith ") + ".\n")
		}
		block(geFuncs[comp[0]].coq, text.String(), allOk)
	}
	b.WriteString("End GenExprTree.\n")
	return b.String()
}
