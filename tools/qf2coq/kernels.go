package main

// Translation of the filter loop kernels (internal/*column/filters*.go and the custom filter
// loops in column.go) into the deep embedding of coq/Base/KernelSyntax.v.
//
// A kernel is a function that has a parameter called bIndex.  Recognised shapes:
//
//	(empty body)                                              KNoOp
//	for i := range bIndex { bIndex[i] = true|false }          KFill b
//	for i, x := range bIndex { if !x { binds; bIndex[i] = E } }             KGuarded E
//	for i, x := range bIndex { if !x { binds; if C { bIndex[i] = E } } }    KGuardedIf C E
//	return f(index, s, comparatee, bIndex, true|false)        KDelegate "f" b
//
// optionally preceded by a recognised preamble (matcher construction, type assertion of the
// comparatee to Column) and followed by "return nil".  Anything else is a problem.

import (
	"fmt"
	"go/ast"
	"go/token"
	"sort"
	"strings"
)

type kctx struct {
	pkg     string
	fn      string
	data    []string          // data parameters in order (cell sources): "column", "compCol", ...
	scalar  string            // scalar comparand parameter name ("" if none)
	set     string            // set parameter name
	fnParam string            // custom predicate parameter
	env     map[string]string // local identifier -> kexpr text
	cellOf  map[string]int    // identifier naming a cell source -> index
	ok      bool
}

func (k *kctx) bad(format string, a ...interface{}) string {
	k.ok = false
	problem("kernel %s.%s: %s", k.pkg, k.fn, fmt.Sprintf(format, a...))
	return "KBad"
}

func isIdent(e ast.Expr, name string) bool {
	id, ok := e.(*ast.Ident)
	return ok && id.Name == name
}

// isIndexI recognises index[i]
func isIndexI(e ast.Expr) bool {
	ix, ok := e.(*ast.IndexExpr)
	return ok && isIdent(ix.X, "index") && isIdent(ix.Index, "i")
}

func (k *kctx) posExpr(e ast.Expr) bool {
	if isIndexI(e) {
		return true
	}
	if id, ok := e.(*ast.Ident); ok && k.env[id.Name] == "POS" {
		return true
	}
	return false
}

// cellSource returns the index of the data source named by e (column, c.data, otherC.data, col2 ...)
func (k *kctx) cellSource(e ast.Expr) (int, bool) {
	switch t := e.(type) {
	case *ast.Ident:
		n, ok := k.cellOf[t.Name]
		return n, ok
	case *ast.SelectorExpr:
		if t.Sel.Name == "data" {
			if id, ok := t.X.(*ast.Ident); ok {
				n, ok := k.cellOf[id.Name]
				return n, ok
			}
		}
	}
	return 0, false
}

func (k *kctx) expr(e ast.Expr) string {
	switch t := e.(type) {
	case *ast.ParenExpr:
		return k.expr(t.X)
	case *ast.Ident:
		if v, ok := k.env[t.Name]; ok && v != "POS" {
			return v
		}
		if t.Name == k.scalar {
			return "KConst"
		}
		if t.Name == "true" {
			return "KTrue"
		}
		if t.Name == "false" {
			return "KFalse"
		}
		return k.bad("unknown identifier %s", t.Name)
	case *ast.BasicLit:
		if t.Kind == token.INT {
			return "(KLit " + t.Value + "%Z)"
		}
		return k.bad("literal %s", t.Value)
	case *ast.UnaryExpr:
		if t.Op == token.NOT {
			return "(KNot " + k.expr(t.X) + ")"
		}
		return k.bad("unary operator %s", t.Op)
	case *ast.BinaryExpr:
		ops := map[token.Token]string{token.LSS: "KLt", token.LEQ: "KLe", token.GTR: "KGt", token.GEQ: "KGe", token.EQL: "KEq", token.NEQ: "KNe", token.LAND: "KAnd", token.LOR: "KOr", token.AND: "KBitAnd"}
		if c, ok := ops[t.Op]; ok {
			return "(" + c + " " + k.expr(t.X) + " " + k.expr(t.Y) + ")"
		}
		return k.bad("binary operator %s", t.Op)
	case *ast.IndexExpr:
		if n, ok := k.cellSource(t.X); ok && k.posExpr(t.Index) {
			return fmt.Sprintf("(KCell %d)", n)
		}
		return k.bad("index expression not of the form column[index[i]]")
	case *ast.CallExpr:
		switch f := t.Fun.(type) {
		case *ast.SelectorExpr:
			recv, isId := f.X.(*ast.Ident)
			switch {
			case isId && recv.Name == "math" && f.Sel.Name == "IsNaN" && len(t.Args) == 1:
				return "(KIsNaN " + k.expr(t.Args[0]) + ")"
			case f.Sel.Name == "Contains" && isId && recv.Name == k.set && len(t.Args) == 1:
				return "(KInSet " + k.expr(t.Args[0]) + ")"
			case f.Sel.Name == "isNull" && len(t.Args) == 0:
				return "(KIsNull " + k.expr(f.X) + ")"
			case f.Sel.Name == "compVal" && len(t.Args) == 0:
				return "(KCompVal " + k.expr(f.X) + ")"
			case f.Sel.Name == "Matches" && isId && k.env[recv.Name] == "MATCHER" && len(t.Args) == 1:
				return "(KMatches " + k.expr(t.Args[0]) + ")"
			case f.Sel.Name == "isSet" && isId && recv.Name == "bset" && len(t.Args) == 1:
				return "(KBitsetIsSet " + k.expr(t.Args[0]) + ")"
			case f.Sel.Name == "stringPtrAt" && len(t.Args) == 1 && k.posExpr(t.Args[0]):
				if n, ok := k.cellSource(f.X); ok {
					return fmt.Sprintf("(KCell %d)", n)
				}
			}
			return k.bad("call %s not understood", f.Sel.Name)
		case *ast.Ident:
			if f.Name == k.fnParam {
				args := make([]string, len(t.Args))
				for i, a := range t.Args {
					args[i] = k.expr(a)
				}
				return "(KCallFn [" + strings.Join(args, "; ") + "])"
			}
			if f.Name == "stringToPtr" && len(t.Args) == 1 {
				// stringToPtr(c.stringAt(index[i])) : the cell as *string
				if c, ok := t.Args[0].(*ast.CallExpr); ok {
					if s, ok := c.Fun.(*ast.SelectorExpr); ok && s.Sel.Name == "stringAt" && len(c.Args) == 1 && k.posExpr(c.Args[0]) {
						if n, ok := k.cellSource(s.X); ok {
							return fmt.Sprintf("(KCell %d)", n)
						}
					}
				}
			}
			return k.bad("call %s not understood", f.Name)
		}
	}
	return k.bad("expression shape %T", e)
}

// bind handles the statements that precede the assignment inside "if !x { ... }".
func (k *kctx) bind(s ast.Stmt) bool {
	as, ok := s.(*ast.AssignStmt)
	if !ok || as.Tok != token.DEFINE {
		return false
	}
	// pos := index[i]
	if len(as.Lhs) == 1 && len(as.Rhs) == 1 {
		id := as.Lhs[0].(*ast.Ident)
		if isIndexI(as.Rhs[0]) {
			k.env[id.Name] = "POS"
			return true
		}
		k.env[id.Name] = k.expr(as.Rhs[0])
		return true
	}
	// s, isNull := c.stringAt(index[i])
	if len(as.Lhs) == 2 && len(as.Rhs) == 1 {
		if c, ok := as.Rhs[0].(*ast.CallExpr); ok {
			if s, ok := c.Fun.(*ast.SelectorExpr); ok && s.Sel.Name == "stringAt" && len(c.Args) == 1 && k.posExpr(c.Args[0]) {
				if n, ok := k.cellSource(s.X); ok {
					cell := fmt.Sprintf("(KCell %d)", n)
					if id := as.Lhs[0].(*ast.Ident); id.Name != "_" {
						k.env[id.Name] = cell
					}
					if id := as.Lhs[1].(*ast.Ident); id.Name != "_" {
						k.env[id.Name] = "(KIsNull " + cell + ")"
					}
					return true
				}
			}
		}
		return false
	}
	// enum, enum2 := col[index[i]], col2[index[i]]
	if len(as.Lhs) == len(as.Rhs) {
		for i := range as.Lhs {
			k.env[as.Lhs[i].(*ast.Ident).Name] = k.expr(as.Rhs[i])
		}
		return true
	}
	return false
}

func stripReturnNil(stmts []ast.Stmt) []ast.Stmt {
	if n := len(stmts); n > 0 {
		if r, ok := stmts[n-1].(*ast.ReturnStmt); ok && len(r.Results) == 1 && isIdent(r.Results[0], "nil") {
			return stmts[:n-1]
		}
	}
	return stmts
}

// isBIndexAssign recognises bIndex[i] = E
func isBIndexAssign(s ast.Stmt) (ast.Expr, bool) {
	as, ok := s.(*ast.AssignStmt)
	if !ok || as.Tok != token.ASSIGN || len(as.Lhs) != 1 || len(as.Rhs) != 1 {
		return nil, false
	}
	ix, ok := as.Lhs[0].(*ast.IndexExpr)
	if !ok || !isIdent(ix.X, "bIndex") || !isIdent(ix.Index, "i") {
		return nil, false
	}
	return as.Rhs[0], true
}

func (k *kctx) kernelBody(stmts []ast.Stmt) string {
	stmts = stripReturnNil(stmts)
	if len(stmts) == 0 {
		return "KNoOp"
	}
	// delegate: return f(index, s, comparatee, bIndex, flag)
	if len(stmts) == 1 {
		if r, ok := stmts[0].(*ast.ReturnStmt); ok && len(r.Results) == 1 {
			if c, ok := r.Results[0].(*ast.CallExpr); ok {
				if f, ok := c.Fun.(*ast.Ident); ok && len(c.Args) == 5 && isIdent(c.Args[3], "bIndex") {
					if isIdent(c.Args[4], "true") {
						return fmt.Sprintf("(KDelegate %s true)", coqBytes(f.Name))
					}
					if isIdent(c.Args[4], "false") {
						return fmt.Sprintf("(KDelegate %s false)", coqBytes(f.Name))
					}
				}
			}
			return k.bad("unrecognised return statement")
		}
	}
	// preambles
	pre := "PNone"
	for len(stmts) > 1 {
		as, ok := stmts[0].(*ast.AssignStmt)
		if !ok || as.Tok != token.DEFINE || len(as.Lhs) != 2 || len(as.Rhs) != 1 {
			break
		}
		ifs, ok := stmts[1].(*ast.IfStmt)
		if !ok {
			break
		}
		_ = ifs
		switch r := as.Rhs[0].(type) {
		case *ast.CallExpr:
			// matcher, err := qfstrings.NewMatcher(comparatee, caseSensitive)
			if s, ok := r.Fun.(*ast.SelectorExpr); ok && s.Sel.Name == "NewMatcher" && len(r.Args) == 2 && isIdent(r.Args[0], k.scalar) {
				k.env[as.Lhs[0].(*ast.Ident).Name] = "MATCHER"
				pre = "PMatcher"
				stmts = stmts[2:]
				continue
			}
		case *ast.TypeAssertExpr:
			// otherC, ok := comparatee.(Column)
			if isIdent(r.X, "comparatee") && isIdent(r.Type, "Column") {
				k.cellOf[as.Lhs[0].(*ast.Ident).Name] = 1
				pre = "PColumnArg"
				stmts = stmts[2:]
				continue
			}
		}
		break
	}
	if len(stmts) != 1 {
		return k.bad("expected a single loop, found %d statements", len(stmts))
	}
	rs, ok := stmts[0].(*ast.RangeStmt)
	if !ok || !isIdent(rs.X, "bIndex") || !isIdent(rs.Key, "i") {
		return k.bad("not a range loop over bIndex")
	}
	body := rs.Body.List
	if rs.Value == nil {
		// fill loop
		if len(body) == 1 {
			if e, ok := isBIndexAssign(body[0]); ok {
				if isIdent(e, "true") {
					return "(KFill true)"
				}
				if isIdent(e, "false") {
					return "(KFill false)"
				}
			}
		}
		return k.bad("unguarded loop that is not a constant fill")
	}
	if !isIdent(rs.Value, "x") || len(body) != 1 {
		return k.bad("loop body shape")
	}
	ifs, ok := body[0].(*ast.IfStmt)
	if !ok || ifs.Else != nil || ifs.Init != nil {
		return k.bad("loop body is not if !x { ... }")
	}
	if u, ok := ifs.Cond.(*ast.UnaryExpr); !ok || u.Op != token.NOT || !isIdent(u.X, "x") {
		return k.bad("guard is not !x")
	}
	inner := ifs.Body.List
	for len(inner) > 1 {
		if !k.bind(inner[0]) {
			return k.bad("unrecognised statement before the assignment")
		}
		inner = inner[1:]
	}
	if len(inner) != 1 {
		return k.bad("empty guarded block")
	}
	if e, ok := isBIndexAssign(inner[0]); ok {
		return fmt.Sprintf("(KGuarded %s %s)", pre, k.expr(e))
	}
	if ifs2, ok := inner[0].(*ast.IfStmt); ok && ifs2.Else == nil && ifs2.Init == nil && len(ifs2.Body.List) == 1 {
		if e, ok := isBIndexAssign(ifs2.Body.List[0]); ok {
			return fmt.Sprintf("(KGuardedIf %s %s %s)", pre, k.expr(ifs2.Cond), k.expr(e))
		}
	}
	return k.bad("guarded block does not end in bIndex[i] = E")
}

func typeString(e ast.Expr) string {
	switch t := e.(type) {
	case *ast.Ident:
		return t.Name
	case *ast.ArrayType:
		return "[]" + typeString(t.Elt)
	case *ast.SelectorExpr:
		return typeString(t.X) + "." + t.Sel.Name
	case *ast.FuncType:
		return "func"
	case *ast.InterfaceType:
		return "interface{}"
	case *ast.StarExpr:
		return "*" + typeString(t.X)
	}
	return "?"
}

var kernelPkgs = []struct{ dir, letter string }{
	{"internal/icolumn", "i"}, {"internal/fcolumn", "f"}, {"internal/bcolumn", "b"},
	{"internal/scolumn", "s"}, {"internal/ecolumn", "e"},
}

func genKernels() string {
	var b strings.Builder
	b.WriteString("(* GENERATED by tools/qf2coq from the filter kernels of internal/*column — do not edit. *)\nFrom QF Require Import Base.Prelude Base.KernelSyntax.\nLocal Open Scope N_scope.\n\n")
	var all []string
	for _, kp := range kernelPkgs {
		p := loadPkg(kp.dir)
		names := make([]string, 0)
		for n := range p.funcs {
			names = append(names, n)
		}
		sort.Strings(names)
		for _, n := range names {
			fd := p.funcs[n]
			if fd.Body == nil {
				continue
			}
			hasB := false
			for _, f := range fd.Type.Params.List {
				for _, id := range f.Names {
					if id.Name == "bIndex" {
						hasB = true
					}
				}
			}
			if !hasB {
				continue
			}
			short := n
			if i := strings.Index(n, "."); i >= 0 {
				short = n[i+1:]
			}
			// dispatchers are modelled by hand (Model/Filter.v); only loops are kernels
			if short == "Filter" || short == "filterBuiltIn" {
				continue
			}
			k := &kctx{pkg: kp.dir, fn: n, env: map[string]string{}, cellOf: map[string]int{}, ok: true}
			if fd.Recv != nil && len(fd.Recv.List) == 1 && len(fd.Recv.List[0].Names) == 1 {
				k.cellOf[fd.Recv.List[0].Names[0].Name] = 0
			}
			ncell := len(k.cellOf)
			for _, f := range fd.Type.Params.List {
				ts := typeString(f.Type)
				for _, id := range f.Names {
					switch {
					case id.Name == "index" || id.Name == "bIndex" || id.Name == "_":
					case ts == "func":
						k.fnParam = id.Name
					case ts == "intSet" || ts == "qfstrings.StringSet":
						k.set = id.Name
					case strings.HasPrefix(ts, "[]") || ts == "Column":
						k.cellOf[id.Name] = ncell
						ncell++
					case ts == "*bitset":
						// used through bset.isSet
					case ts == "interface{}":
						// comparatee of custom2: handled by the PColumnArg preamble
					case ts == "bool" && k.scalar != "":
						// flag parameter (caseSensitive)
					default:
						k.scalar = id.Name
					}
				}
			}
			body := k.kernelBody(fd.Body.List)
			cn := fmt.Sprintf("k_%s_%s", kp.letter, short)
			fmt.Fprintf(&b, "Definition %s : kernel := %s.\n", cn, body)
			all = append(all, fmt.Sprintf("(%s, %s)", coqBytes(kp.letter+"."+short), cn))
		}
		b.WriteString("\n")
	}
	b.WriteString("Definition g_kernels : list (bytes * kernel) := [\n  " + strings.Join(all, ";\n  ") + "\n].\n")
	return b.String()
}
