package main

// Translation of Grouper.Aggregate / Grouper.QFrames (grouper.go), of the wrappers QFrame.GroupBy / QFrame.Distinct
// with their helpers (qframe.go), of groupby.NewConfig (config/groupby), of the aggregation loop and the
// built-in aggregations of internal/icolumn, fcolumn, bcolumn (the instances of internal/template) and of the
// Comparable of all five column packages (constructor, Compare, Hash; scolumn's bytesAt), of Column.Subset of
// all five, of stringSlice / Aggregate of scolumn and ecolumn and of scolumn.New / NewBytes into Gallina
// (coq/Gen/GenAggr.v, tie T1 for C04 / C03).
//
// The functions listed in gaSpecs are translated statement by statement into definitions ga_<name>.
// coq/Proofs/GenAggrProofs.v proves every generated definition equal to the hand-written model of
// coq/Model/Aggregate.v (aggregate, qframes, group_by_with, distinct_with, col_aggregate, i_sum, i_max, i_min)
// under an explicit representation of the model's values as Go values, so that an edit of one of these Go
// functions changes the generated text and breaks a named theorem T1_aggr_<name> of coq/Properties/T1Aggr.v.
//
// THE SCHEME (anything that does not fit is reported through problem(...); the block then keeps the text of the
// golden copy, marked FALLBACK, so that the development still builds — the exit status says the tie is broken).
//
//	boundary    NOT translated, section variables instead (their Go signatures are text-matched):
//	              col.Subset(ix)            -> col_Subset c ix : outcome (option C)
//	              col.Aggregate(ixs, fn)    -> col_Aggregate c ixs fn : outcome (option C * option E)
//	              col.Comparable(r, e, n)   -> col_Comparable c r e n : K
//	              icolumn.New(ints)         -> icolumn_New ints : C
//	              grouper.GroupBy(ix, cs)   -> grouper_GroupBy ix cs : outcome (list (list Z) * S)
//	              grouper.Distinct(ix, cs)  -> grouper_Distinct ix cs : outcome (list Z)
//	              f(&config), f a groupby.ConfigFunc -> cf_apply f config : outcome Config (value-result)
//	              qerrors.New(op, reason, strings...) -> new_error op reason [strings] : E
//	              qerrors.Propagate(op, err) -> propagate op err : E;  unknownCol(s) -> unknownCol s : bytes
//	              fn == "literal" (fn an interface{} value) -> fn_eq_string fn literal
//	              c.fnName(name) of an icolumn.Column -> icolumn_fnName name (body text-matched); an
//	              interface{} value handed to qerrors.New as a parameter -> fn_text fn
//	              index.NewAscending is the translated gc_NewAscending of GenFilterClause.v, integer.Max /
//	              integer.Min the translated gf_integer_Max / gf_integer_Min of GenFuncs.v.
//	              hash.HashBytes(b, seed) -> memhash b seed (body text-matched; memhash is the runtime's);
//	              return rand.Uint64() -> the next value of a stream: a function that calls rand takes the
//	              stream state v_rand : R and returns the rest beside its result (rand_Uint64 : R -> N * R)
//	              x.isNull() of an ecolumn.enumVal, p.IsNull() / p.Offset() / p.Len() of a strings.Pointer ->
//	              the translated gf_ecolumn_enumVal_isNull / gf_strings_Pointer_* of GenFuncs.v (on Z).
//	floats      float64 -> N (the bit pattern); ALL float operations are section variables: 0 / 0.0 -> f_zero,
//	            math.NaN() -> f_NaN, x + y -> f_add, x / y -> f_div, float64(n) -> f_of_int, math.Max / math.Min
//	            -> f_Max / f_Min, x < y -> f_lt x y, x > y -> f_lt y x, math.IsNaN(x) -> f_isnan x, x == 0 ->
//	            f_iszero x; math.Float64bits(f) is the identity.  uint64 -> N.
//	unsafe      ( *[8]byte)(unsafe.Pointer(&v))[:] for a uint64 variable v -> ga_le64 v (its little-endian bytes);
//	            x := &s[i] of an []int, x only handed to ( *[8]byte)(unsafe.Pointer(x))[:] -> ga_le64 (ga_u64 x)
//	            (two's complement); both text-matched.  [1]byte{e} / b[:] -> the one element byte list.
//	strings     *string -> option bytes (nil = None; &s / &values[i] -> Some, *p -> ga_deref p: exact because the
//	            pointees are never stored into); func([]*string) *string is a Coq function on list (option bytes)
//	            (fn_cases_string); append(b, s...) -> b ++ s; qfstrings.NewPointer -> gf_strings_NewPointer,
//	            qfstrings.UnsafeBytesToString -> the identity (body text-matched); an scolumn.Column /
//	            ecolumn.Column returned as a column.Column goes through scolumn_AsColumn / ecolumn_AsColumn.
//	            NOT translated: the views, Append, the filters (GenKernels), the other constructors.
//	values      int -> Z (exact: positions, lengths, counters; in the functions listed in gaWrapInts, whose ints
//	            are data, + wraps: wrap64); uint32 -> Z, uint32(e) -> ga_u32 e; bool; string -> bytes;
//	            error -> option E (nil = None); column.Column (an interface value) -> option C (nil = None, a
//	            method call on nil panics: ga_deref); column.Comparable -> K; interface{} /
//	            types.SliceFuncOrBuiltInId -> Fn; GroupStats -> S (zero s0; the conversion GroupStats(x) is the
//	            identity); groupby.ConfigFunc -> CF; column.CompareResult -> Z with the constants
//	            ga_column_LessThan .. ga_column_NotEqual = 0 .. 3 (the iota block is checked); an icolumn.Column /
//	            icolumn.Comparable returned as an interface value goes through icolumn_Column / icolumn_Comparable.
//	slices      []T -> list T; nil and the empty slice are both [].  make([]T, n [, c]) -> ga_make zero n c,
//	            make([]T, 0, c) -> ga_make0 c (Panic for negative sizes); s[i] -> ga_index, s[i] = v -> ga_update
//	            (Panic outside the range); append(s, x) -> s ++ [x]; s[1:] -> ga_tail1 (Panic when empty);
//	            T{a, b} -> [a; b]; len(s) / s.Len() on an index.Int -> Z.of_nat (length s); s[lo:hi] -> ga_slice
//	            (Panic unless 0 <= lo <= hi <= len: the capacity of a slice is taken to be its length);
//	            []byte -> bytes; bytes.Compare -> ga_bytes_compare (-1 / 0 / 1 from bytes_cmp).
//	maps        map[string]V -> list (bytes * V) in insertion order; m[k] = v appends, m[k] and v, ok := m[k]
//	            find the LAST entry with the key (ga_map_get; the zero value when there is none);
//	            make(map.., n) -> [] (the size hint is dropped).  Ranging over a map and len of a map are rejected,
//	            so only lookups observe the list.  A package level map literal of functions is the association
//	            list of its entries.
//	structs     one Record ga_<T> per struct of gaRecSpecs with constructor ga_mk_<T>, projections ga_<T>_<f>,
//	            setters ga_<T>_set_<f> and zero value ga_<T>_zero; an embedded field has its type's name;
//	            x.f -> projection, x.f = e -> let x := setter; T{f: e} -> constructor, missing fields zero;
//	            x.m(..) for a method m of an embedded interface field is x.Field.m(..).
//	functions   a func value func([]int) int is a Coq function list Z -> outcome Z; the type switch
//	            switch t := fn.(type) { case string: .. case func([]int) int: .. default: .. } is
//	            match fn_cases_T fn with ga_FnString t => .. | ga_FnFunc t => .. | ga_FnOther => .. end
//	            (fn_cases_int / _float64 / _bool : Fn -> ga_fncase T, section variables: the reflection of the
//	            dynamic type as the package with element type T sees it).
//	switch      switch r { case K: .. default: .. } on an int with integer constant cases, every branch ending
//	            in return -> nested if (r =? K).
//	pointers    &x only as the argument of a ConfigFunc call or as a *[]int buffer argument of a translated
//	            function (value-result: the callee returns the new pointee beside its result); *p reads the
//	            current pointee, *p = e stores it; cap(*p) is abstracted: see ga_cap below.
//	results     every function answers outcome T (Panic = Go panic); several results are a tuple.
//	statements  x := e; a, b := e1, e2; a, b := f(..); v, ok := m[k]; var x T; x = e; x.f = e; s[i] = e;
//	            m[k] = e; x++; x += e; f(&x).
//	conditions  a && b, a || b are if-then-else (Go's short circuit).
//	if          [init;] no return inside: do (assigned outer variables) <- (if c then .. else ..); rest
//	            otherwise the rest of the block is continued inside every branch that falls through.
//	range       for i, v := range X { body }: Definition ga_f_loopN := fix loop (l : list T) [(v_i : Z)]
//	            (variables it mentions) {struct l}, numbered in order of completion.  A loop without return
//	            answers the outer variables it assigns.  A loop with a return inside (only at the top level of
//	            a function) also contains the statements that follow it.  The body must not store into X when
//	            the value variable is used.
//	for         for i := 0; i < e; i++ { body } with e free of the variables the body stores into and i not
//	            stored into is the range loop over ga_iota e = [0; ..; e-1].  NO fuel anywhere: every loop is
//	            structural over a list evaluated once.
//	rejected    other for loops, break, continue, goto, labels, other switches, defer, closures, range over
//	            maps or strings, stores through other pointers, shadowing assignments, everything else.

import (
	"bytes"
	"flag"
	"fmt"
	"go/ast"
	"go/printer"
	"go/token"
	"os"
	"path/filepath"
	"regexp"
	"strings"
)

const gaRoot = "."
const gaGroupbyPkg = "config/groupby"
const gaIcolumnPkg = "internal/icolumn"

type gaSpec struct{ pkg, fn string }

// the column packages: short name and the Go element type of Column.data ("" when the package is not an instance
// of internal/template)
var gaColPkgs = map[string]struct{ short, elem string }{
	"internal/icolumn": {"icolumn", "int"},
	"internal/fcolumn": {"fcolumn", "float64"},
	"internal/bcolumn": {"bcolumn", "bool"},
	"internal/scolumn": {"scolumn", ""},
	"internal/ecolumn": {"ecolumn", ""},
}

func gaIsColPkg(pkg string) bool { _, ok := gaColPkgs[pkg]; return ok }

// in emission order
var gaSpecs = []gaSpec{
	{gaGroupbyPkg, "NewConfig"},
	{gaRoot, "QFrame.withErr"}, {gaRoot, "QFrame.withIndex"}, {gaRoot, "QFrame.Len"}, {gaRoot, "QFrame.ColumnNames"},
	{gaRoot, "QFrame.columnsOrAll"}, {gaRoot, "QFrame.orders"}, {gaRoot, "QFrame.comparables"},
	{gaRoot, "QFrame.checkColumns"}, {gaRoot, "QFrame.Distinct"}, {gaRoot, "QFrame.GroupBy"},
	{gaRoot, "Grouper.Aggregate"}, {gaRoot, "Grouper.QFrames"},
	{gaIcolumnPkg, "sum"}, {gaIcolumnPkg, "max"}, {gaIcolumnPkg, "min"}, {gaIcolumnPkg, "aggregations"},
	{gaIcolumnPkg, "Column.subsetWithBuf"}, {gaIcolumnPkg, "Column.Aggregate"},
	{gaIcolumnPkg, "Column.Comparable"}, {gaIcolumnPkg, "Comparable.Compare"}, {gaIcolumnPkg, "Comparable.Hash"},
	{gaIcolumnPkg, "Column.subset"}, {gaIcolumnPkg, "Column.Subset"},
	{"internal/fcolumn", "Column.subset"}, {"internal/fcolumn", "Column.Subset"},
	{"internal/bcolumn", "Column.subset"}, {"internal/bcolumn", "Column.Subset"},
	{"internal/fcolumn", "sum"}, {"internal/fcolumn", "avg"}, {"internal/fcolumn", "max"}, {"internal/fcolumn", "min"},
	{"internal/fcolumn", "aggregations"}, {"internal/fcolumn", "Column.subsetWithBuf"}, {"internal/fcolumn", "Column.Aggregate"},
	{"internal/fcolumn", "Column.Comparable"}, {"internal/fcolumn", "Comparable.Compare"}, {"internal/fcolumn", "Comparable.Hash"},
	{"internal/bcolumn", "majority"}, {"internal/bcolumn", "aggregations"}, {"internal/bcolumn", "Column.subsetWithBuf"},
	{"internal/bcolumn", "Column.Aggregate"}, {"internal/bcolumn", "Column.Comparable"}, {"internal/bcolumn", "Comparable.Compare"},
	{"internal/bcolumn", "Comparable.Hash"},
	{"internal/scolumn", "Column.bytesAt"}, {"internal/scolumn", "Column.Comparable"}, {"internal/scolumn", "Comparable.Compare"},
	{"internal/scolumn", "Comparable.Hash"},
	{"internal/scolumn", "NewBytes"}, {"internal/scolumn", "New"}, {"internal/scolumn", "Column.subset"},
	{"internal/scolumn", "Column.Subset"}, {"internal/scolumn", "Column.stringAt"}, {"internal/scolumn", "Column.stringSlice"},
	{"internal/scolumn", "Column.Aggregate"},
	{"internal/ecolumn", "Column.Comparable"}, {"internal/ecolumn", "Comparable.Compare"}, {"internal/ecolumn", "Comparable.Hash"},
	{"internal/ecolumn", "Column.subset"}, {"internal/ecolumn", "Column.Subset"}, {"internal/ecolumn", "Column.stringSlice"},
	{"internal/ecolumn", "Column.Aggregate"},
}

// functions whose ints are data (64 bit wrap-around on +)
var gaWrapInts = map[string]bool{gaIcolumnPkg + ":sum": true}

var gaRecSpecs = []gaSpec{
	{gaRoot, "namedColumn"}, {gaRoot, "QFrame"}, {gaRoot, "Grouper"}, {gaRoot, "Aggregation"}, {gaRoot, "Order"},
	{gaGroupbyPkg, "Config"}, {gaIcolumnPkg, "Column"}, {gaIcolumnPkg, "Comparable"},
	{"internal/fcolumn", "Column"}, {"internal/fcolumn", "Comparable"}, {"internal/bcolumn", "Column"}, {"internal/bcolumn", "Comparable"},
	{"internal/scolumn", "Column"}, {"internal/scolumn", "Comparable"}, {"internal/ecolumn", "Column"}, {"internal/ecolumn", "Comparable"},
}

// the text the fixed vocabulary stands for (printed by go/printer; without body when the text has none)
var gaVocabulary = []struct{ pkg, fn, text string }{
	{"internal/index", "Int.Len", "func (ix Int) Len() int {\n\treturn len(ix)\n}"},
	{"internal/index", "NewAscending", "func NewAscending(size uint32) Int"},
	{"internal/math/integer", "Max", "func Max(x, y int) int {\n\tif x > y {\n\t\treturn x\n\t}\n\treturn y\n}"},
	{"internal/math/integer", "Min", "func Min(x, y int) int {\n\tif x < y {\n\t\treturn x\n\t}\n\treturn y\n}"},
	{"qerrors", "New", "func New(operation, reason string, params ...interface{}) Error"},
	{"qerrors", "Propagate", "func Propagate(operation string, err error) Error"},
	{gaRoot, "unknownCol", "func unknownCol(c string) string"},
	{"internal/grouper", "GroupBy", "func GroupBy(ix index.Int, comparables []column.Comparable) ([]index.Int, GroupStats)"},
	{"internal/grouper", "Distinct", "func Distinct(ix index.Int, comparables []column.Comparable) index.Int"},
	{gaIcolumnPkg, "New", "func New(d []int) Column"},
	{gaIcolumnPkg, "Column.fnName", "func (c Column) fnName(name string) string {\n\treturn fmt.Sprintf(\"%s.%s\", c.DataType(), name)\n}"},
	{"internal/fcolumn", "Column.fnName", "func (c Column) fnName(name string) string {\n\treturn fmt.Sprintf(\"%s.%s\", c.DataType(), name)\n}"},
	{"internal/bcolumn", "Column.fnName", "func (c Column) fnName(name string) string {\n\treturn fmt.Sprintf(\"%s.%s\", c.DataType(), name)\n}"},
	{"internal/hash", "HashBytes", "func HashBytes(bb []byte, seed uint64) uint64 {\n\tss := (*stringStruct)(unsafe.Pointer(&bb))\n\treturn uint64(memhash(ss.str, uintptr(seed), uintptr(ss.len)))\n}"},
	{"internal/ecolumn", "enumVal.isNull", "func (v enumVal) isNull() bool {\n\treturn v == nullValue\n}"},
	{"internal/strings", "Pointer.IsNull", "func (p Pointer) IsNull() bool"},
	{"internal/strings", "Pointer.Offset", "func (p Pointer) Offset() int"},
	{"internal/strings", "Pointer.Len", "func (p Pointer) Len() int"},
	{"internal/strings", "NewPointer", "func NewPointer(offset, length int, isNull bool) Pointer"},
	{"internal/strings", "UnsafeBytesToString", "func UnsafeBytesToString(in []byte) string {\n\treturn unsafe.String(unsafe.SliceData(in), len(in))\n}"},
}

// type declarations and interface methods the vocabulary stands for: pkg, type name, text that must occur
var gaTypeTexts = []struct{ pkg, name, text string }{
	{gaRoot, "GroupStats", "grouper.GroupStats"},
	{gaGroupbyPkg, "ConfigFunc", "func(c *Config)"},
	{"types", "SliceFuncOrBuiltInId", "interface{}"},
	{"internal/index", "Int", "[]uint32"},
	{"internal/column", "CompareResult", "byte"},
	{"internal/ecolumn", "enumVal", "uint8"},
	{"internal/strings", "Pointer", "uint64"},
	{"internal/column", "Column", "Subset(index index.Int) Column"},
	{"internal/column", "Column", "Comparable(reverse, equalNull, nullLast bool) Comparable"},
	{"internal/column", "Column", "Aggregate(indices []index.Int, fn interface{}) (Column, error)"},
}

const gaPreamble = `(* GENERATED by tools/qf2coq (aggr.go) from grouper.go, qframe.go (GroupBy, Distinct and their helpers),
   config/groupby, internal/icolumn / fcolumn / bcolumn (Aggregate, subsetWithBuf, aggregations.go) and the
   Comparable (constructor, Compare, Hash) and Column.Subset of internal/icolumn / fcolumn / bcolumn / scolumn /
   ecolumn, stringSlice / Aggregate of scolumn and ecolumn, scolumn.New of tobgu/qframe — do not edit.
   One Record ga_<T> per struct, one definition ga_<function> per translated Go function, one Definition
   ga_<function>_loopN (a fix over the ranged list) per loop; the scheme is described at the top of
   tools/qf2coq/aggr.go.  C = a non-nil column.Column, E = error value, Fn = interface{} (aggregation function or
   name), S = GroupStats, K = column.Comparable, CF = groupby.ConfigFunc are abstract; row ids (uint32) and ints
   are Z; float64 and uint64 are N (bit patterns; the float operations are the variables f_zero .. f_iszero); memhash and the random
   stream (rand_Uint64 over the state type R) are variables; a map[string]V is the association list of its
   insertions (the LAST entry of a key is its value).
   Every function answers outcome T (Panic = Go panic); there is no fuel: every loop ranges over a list. *)
From QF Require Import Base.Prelude Gen.GenFuncs Gen.GenFilterClause.
Local Open Scope Z_scope.

(* uint32(e) *)
Definition ga_u32 (x : Z) : Z := x mod 4294967296.
(* make([]T, n, c), make([]T, 0, c), s[i], s[i] = v, s[1:], for i := 0; i < n; i++ *)
Definition ga_make {T : Type} (zero : T) (n c : Z) : outcome (list T) :=
  if (n <? 0) || (c <? n) then Panic else Ok (repeat zero (Z.to_nat n)).
Definition ga_make0 {T : Type} (c : Z) : outcome (list T) :=
  if c <? 0 then Panic else Ok [].
Definition ga_index {T : Type} (s : list T) (i : Z) : outcome T :=
  if i <? 0 then Panic else idx s (Z.to_nat i).
Definition ga_update {T : Type} (s : list T) (i : Z) (v : T) : outcome (list T) :=
  if i <? 0 then Panic else do _ <- idx s (Z.to_nat i); Ok (set_nth s (Z.to_nat i) v).
Definition ga_tail1 {T : Type} (s : list T) : outcome (list T) :=
  match s with [] => Panic | _ :: r => Ok r end.
Definition ga_iota (n : Z) : list Z := map Z.of_nat (seq 0 (Z.to_nat n)).
(* x == nil for an error or an interface value; the receiver of a method call on an interface value *)
Definition ga_isnil {T : Type} (p : option T) : bool := match p with None => true | Some _ => false end.
Definition ga_deref {T : Type} (p : option T) : outcome T := match p with Some x => Ok x | None => Panic end.
(* map[string]V: m[k] (with and without ok), m[k] = v *)
Fixpoint ga_map_find {V : Type} (m : list (bytes * V)) (k : bytes) (acc : option V) : option V :=
  match m with
  | [] => acc
  | e :: r => ga_map_find r k (if bytes_eqb (fst e) k then Some (snd e) else acc)
  end.
Definition ga_map_get {V : Type} (zero : V) (m : list (bytes * V)) (k : bytes) : V * bool :=
  match ga_map_find m k None with Some v => (v, true) | None => (zero, false) end.
Definition ga_map_set {V : Type} (m : list (bytes * V)) (k : bytes) (v : V) : list (bytes * V) := m ++ [(k, v)].
(* column.CompareResult: const ( LessThan CompareResult = iota; GreaterThan; Equal; NotEqual ) *)
Definition ga_column_LessThan : Z := 0.
Definition ga_column_GreaterThan : Z := 1.
Definition ga_column_Equal : Z := 2.
Definition ga_column_NotEqual : Z := 3.
(* the dynamic type of an interface{} value as the type switch of Column.Aggregate sees it *)
Inductive ga_fncase (T : Type) : Type :=
| ga_FnString (s : bytes)
| ga_FnFunc (f : list T -> outcome T)
| ga_FnOther.
Arguments ga_FnString {T} s.
Arguments ga_FnFunc {T} f.
Arguments ga_FnOther {T}.
(* s[lo:hi] (the capacity of a slice is taken to be its length), bytes.Compare *)
Definition ga_slice {T : Type} (s : list T) (lo hi : Z) : outcome (list T) :=
  if (lo <? 0) || (hi <? lo) || (Z.of_nat (length s) <? hi) then Panic
  else Ok (firstn (Z.to_nat (hi - lo)) (skipn (Z.to_nat lo) s)).
Definition ga_bytes_compare (x y : bytes) : Z :=
  match bytes_cmp x y with Lt => -1 | Eq => 0 | Gt => 1 end.
(* ( *[8]byte)(unsafe.Pointer(&v))[:] for a 64 bit v: its little-endian bytes; an int as uint64 *)
Fixpoint ga_le_bytes (n : nat) (v : N) : bytes :=
  match n with O => [] | S n' => N.land v 255 :: ga_le_bytes n' (N.shiftr v 8) end.
Definition ga_le64 (v : N) : bytes := ga_le_bytes 8 v.
Definition ga_u64 (z : Z) : N := Z.to_N (z mod 18446744073709551616).
(* a []int whose address is taken (a reusable buffer) is the pair (elements, capacity); p *[]int is the current
   pointee: *p -> fst p, cap( *p) -> snd p, *p = make([]int, 0, n) -> p := ([], n) *)

Section GenAggr.
Context {C E Fn S K CF R : Type}.
Variable s0 : S.                                              (* the zero GroupStats *)
Variable new_error : bytes -> bytes -> list bytes -> E.       (* qerrors.New(operation, reason, params...) *)
Variable propagate : bytes -> option E -> E.                  (* qerrors.Propagate(operation, err) *)
Variable unknownCol : bytes -> bytes.                         (* unknownCol(c) *)
Variable fn_eq_string : Fn -> bytes -> bool.                  (* fn == "literal" *)
Variable fn_cases_int : Fn -> ga_fncase Z.                    (* switch t := fn.(type) in icolumn *)
Variable fn_cases_float64 : Fn -> ga_fncase N.                (* ... in fcolumn *)
Variable fn_cases_bool : Fn -> ga_fncase bool.                (* ... in bcolumn *)
Variable fn_cases_string : Fn -> ga_fncase (option bytes).    (* ... in scolumn / ecolumn: func([]*string) *string *)
Variable col_Subset : C -> list Z -> outcome (option C).      (* col.Subset(index) *)
Variable col_Aggregate : C -> list (list Z) -> Fn -> outcome (option C * option E).   (* col.Aggregate(indices, fn) *)
Variable col_Comparable : C -> bool -> bool -> bool -> K.     (* col.Comparable(reverse, equalNull, nullLast) *)
Variable icolumn_New : list Z -> C.                           (* icolumn.New(d) *)
Variable icolumn_Column : list Z -> C.                        (* icolumn.Column{data: d} as a column.Column *)
Variable grouper_GroupBy : list Z -> list K -> outcome (list (list Z) * S).   (* grouper.GroupBy *)
Variable grouper_Distinct : list Z -> list K -> outcome (list Z).             (* grouper.Distinct *)
Variable icolumn_fnName : bytes -> bytes.                     (* c.fnName(name) of an icolumn.Column c *)
Variable fcolumn_Column : list N -> C.                        (* fcolumn.Column{data: d} as a column.Column *)
Variable fcolumn_fnName : bytes -> bytes.
Variable bcolumn_Column : list bool -> C.                     (* bcolumn.Column{data: d} as a column.Column *)
Variable bcolumn_fnName : bytes -> bytes.
(* float64 values are their bit patterns (N); the arithmetic is abstract *)
Variable f_zero f_NaN : N.                                    (* the literals 0 / 0.0, math.NaN() *)
Variable f_add f_div f_Max f_Min : N -> N -> N.               (* x + y, x / y, math.Max, math.Min *)
Variable f_of_int : Z -> N.                                   (* float64(n) *)
Variable f_lt : N -> N -> bool.                               (* x < y (x > y is f_lt y x) *)
Variable f_isnan f_iszero : N -> bool.                        (* math.IsNaN(x), x == 0 *)
Variable memhash : bytes -> N -> N.                           (* hash.HashBytes(b, seed) *)
Variable rand_Uint64 : R -> N * R.                            (* rand.Uint64(): the value and the rest of the stream *)
Variable fn_text : Fn -> bytes.                               (* an interface{} value as a qerrors.New parameter *)

`

// ------------------------------------------------------------------ types

type gaT struct {
	k     string // int u32 bool string err col fn stats cf cmp func buf slice map rec tuple nil bad
	el    *gaT
	rec   string
	parts []*gaT
}

func gaK(k string) *gaT           { return &gaT{k: k} }
func gaSlice(el *gaT) *gaT        { return &gaT{k: "slice", el: el} }
func gaMap(el *gaT) *gaT          { return &gaT{k: "map", el: el} }
func gaRecT(n string) *gaT        { return &gaT{k: "rec", rec: n} }
func gaTupleT(parts ...*gaT) *gaT { return &gaT{k: "tuple", parts: parts} }

var gaBad = gaK("bad")

func (t *gaT) same(u *gaT) bool {
	if t.k != u.k || t.rec != u.rec || len(t.parts) != len(u.parts) {
		return false
	}
	if (t.el == nil) != (u.el == nil) || t.el != nil && !t.el.same(u.el) {
		return false
	}
	for i := range t.parts {
		if !t.parts[i].same(u.parts[i]) {
			return false
		}
	}
	return true
}

func (t *gaT) String() string {
	switch t.k {
	case "slice":
		return "[]" + t.el.String()
	case "map":
		return "map[string]" + t.el.String()
	case "rec":
		return t.rec
	case "tuple":
		var p []string
		for _, x := range t.parts {
			p = append(p, x.String())
		}
		return "(" + strings.Join(p, ", ") + ")"
	}
	return t.k
}

func (t *gaT) coq() string {
	switch t.k {
	case "int", "u32", "cres":
		return "Z"
	case "bool":
		return "bool"
	case "string":
		return "bytes"
	case "err":
		return "(option E)"
	case "col":
		return "(option C)"
	case "fn":
		return "Fn"
	case "stats":
		return "S"
	case "cf":
		return "CF"
	case "cmp":
		return "K"
	case "f64", "u64", "byte":
		return "N"
	case "u8", "ptr", "pint":
		return "Z"
	case "pstr":
		return "(option bytes)"
	case "func":
		return "(list " + t.el.coq() + " -> outcome " + t.el.coq() + ")"
	case "buf":
		return "(list " + t.el.coq() + " * Z)"
	case "slice":
		return "(list " + t.el.coq() + ")"
	case "map":
		return "(list (bytes * " + t.el.coq() + "))"
	case "rec":
		return "ga_" + t.rec
	case "tuple":
		var p []string
		for _, x := range t.parts {
			p = append(p, x.coq())
		}
		return "(" + strings.Join(p, " * ") + ")"
	}
	return "?"
}

func (t *gaT) zero() (string, bool) {
	switch t.k {
	case "int", "u32":
		return "0", true
	case "cres":
		return "ga_column_LessThan", true
	case "bool":
		return "false", true
	case "string":
		return "(@nil N)", true
	case "err", "col", "pstr":
		return "None", true
	case "stats":
		return "s0", true
	case "f64":
		return "f_zero", true
	case "u64", "byte":
		return "0%N", true
	case "u8", "ptr":
		return "0", true
	case "func": // a nil func: calling it panics
		return "(fun _ : list " + t.el.coq() + " => @Panic " + t.el.coq() + ")", true
	case "slice", "map":
		return "[]", true
	case "rec":
		return "ga_" + t.rec + "_zero", true
	case "buf":
		return "([], 0)", true
	}
	return "", false
}

type gaField struct {
	name string
	ty   *gaT
}

type gaRec struct {
	pkg, name string
	fields    []gaField
	src       string
	ok        bool
}

var gaRecs map[string]*gaRec // by name

func gaSrc(fset *token.FileSet, n ast.Node) string {
	var b bytes.Buffer
	printer.Fprint(&b, fset, n)
	return b.String()
}

// gaResolve maps the text of a Go type expression to a translation type
func gaResolve(pkg, src string) *gaT {
	if strings.HasPrefix(src, "[]") {
		el := gaResolve(pkg, src[2:])
		if el.k == "bad" {
			return gaBad
		}
		return gaSlice(el)
	}
	if strings.HasPrefix(src, "...") {
		el := gaResolve(pkg, src[3:])
		if el.k == "bad" {
			return gaBad
		}
		return gaSlice(el)
	}
	if strings.HasPrefix(src, "map[string]") {
		el := gaResolve(pkg, src[len("map[string]"):])
		if el.k == "bad" {
			return gaBad
		}
		return gaMap(el)
	}
	switch src {
	case "int":
		return gaK("int")
	case "uint32":
		return gaK("u32")
	case "bool":
		return gaK("bool")
	case "string":
		return gaK("string")
	case "error":
		return gaK("err")
	case "index.Int":
		return gaSlice(gaK("u32"))
	case "column.Column":
		return gaK("col")
	case "column.Comparable":
		return gaK("cmp")
	case "column.CompareResult":
		return gaK("cres")
	case "interface{}", "types.SliceFuncOrBuiltInId":
		return gaK("fn")
	case "float64":
		return gaK("f64")
	case "uint64":
		return gaK("u64")
	case "byte":
		return gaK("byte")
	case "qfstrings.Pointer":
		return gaK("ptr")
	case "*string":
		return gaK("pstr")
	case "func([]*string) *string":
		return &gaT{k: "func", el: gaK("pstr")}
	}
	if cp, ok := gaColPkgs[pkg]; ok && cp.elem != "" {
		el := gaResolve(pkg, cp.elem)
		switch src {
		case "func([]" + cp.elem + ") " + cp.elem:
			return &gaT{k: "func", el: el}
		case "*[]" + cp.elem:
			return &gaT{k: "buf", el: el}
		}
	}
	if cp, ok := gaColPkgs[pkg]; ok {
		switch src {
		case "Column":
			return gaRecT(cp.short + "_Column")
		case "Comparable":
			return gaRecT(cp.short + "_Comparable")
		case "enumVal":
			if cp.short == "ecolumn" {
				return gaK("u8")
			}
		}
	}
	switch pkg {
	case gaRoot:
		switch src {
		case "GroupStats":
			return gaK("stats")
		case "groupby.ConfigFunc":
			return gaK("cf")
		case "groupby.Config":
			return gaRecT("Config")
		case "QFrame", "Grouper", "Aggregation", "namedColumn", "Order":
			return gaRecT(src)
		}
	case gaGroupbyPkg:
		switch src {
		case "ConfigFunc":
			return gaK("cf")
		case "Config":
			return gaRecT("Config")
		}
	}
	return gaBad
}

func gaFindType(p *pkgInfo, name string) (ast.Expr, bool) {
	var names []string
	for n := range p.files {
		names = append(names, n)
	}
	for _, n := range names {
		for _, d := range p.files[n].Decls {
			gd, ok := d.(*ast.GenDecl)
			if !ok || gd.Tok != token.TYPE {
				continue
			}
			for _, s := range gd.Specs {
				ts := s.(*ast.TypeSpec)
				if ts.Name.Name == name {
					return ts.Type, true
				}
			}
		}
	}
	return nil, false
}

func gaCoqRecName(sp gaSpec) string {
	if cp, ok := gaColPkgs[sp.pkg]; ok {
		return cp.short + "_" + sp.name()
	}
	return sp.name()
}

func (sp gaSpec) name() string { return sp.fn }

func gaLoadRec(sp gaSpec) *gaRec {
	r := &gaRec{pkg: sp.pkg, name: sp.fn}
	if cp, ok := gaColPkgs[sp.pkg]; ok {
		r.name = cp.short + "_" + sp.fn
	}
	p := loadPkg(sp.pkg)
	e, ok := gaFindType(p, sp.fn)
	if !ok {
		problem("aggregate translation: type %s not found in %s", sp.fn, sp.pkg)
		return r
	}
	st, ok := e.(*ast.StructType)
	if !ok {
		problem("aggregate translation: type %s of %s is not a struct", sp.fn, sp.pkg)
		return r
	}
	r.ok = true
	r.src = "type " + sp.fn + " " + gaSrc(p.fset, st)
	for _, fl := range st.Fields.List {
		src := gaSrc(p.fset, fl.Type)
		ty := gaResolve(sp.pkg, src)
		if ty.k == "bad" {
			problem("aggregate translation: field of %s has a type outside the scheme: %s", sp.fn, src)
			r.ok = false
			continue
		}
		if len(fl.Names) == 0 { // embedded: the name of the type
			n := src[strings.LastIndex(src, ".")+1:]
			r.fields = append(r.fields, gaField{n, ty})
		}
		for _, n := range fl.Names {
			r.fields = append(r.fields, gaField{n.Name, ty})
		}
	}
	return r
}

func (r *gaRec) field(name string) (gaField, bool) {
	for _, f := range r.fields {
		if f.name == name {
			return f, true
		}
	}
	return gaField{}, false
}

func gaClean(s string) string {
	s = strings.ReplaceAll(s, "(*", "( *")
	s = strings.ReplaceAll(s, "*)", "* )")
	s = strings.ReplaceAll(s, "\"", "'")
	return s
}

func (r *gaRec) text() string {
	var b strings.Builder
	pk := r.pkg
	if pk == gaRoot {
		pk = "qframe"
	}
	n := "ga_" + r.name
	fmt.Fprintf(&b, "(* %s\n%s *)\n", pk, gaClean(r.src))
	fmt.Fprintf(&b, "Record %s := ga_mk_%s {\n", n, r.name)
	for i, f := range r.fields {
		sep := ";"
		if i == len(r.fields)-1 {
			sep = " }."
		}
		fmt.Fprintf(&b, "  %s_%s : %s%s\n", n, f.name, f.ty.coq(), sep)
	}
	for i, f := range r.fields {
		fmt.Fprintf(&b, "Definition %s_set_%s (r : %s) (v : %s) : %s :=\n  ga_mk_%s", n, f.name, n, f.ty.coq(), n, r.name)
		for j, g := range r.fields {
			if i == j {
				b.WriteString(" v")
			} else {
				fmt.Fprintf(&b, " (%s_%s r)", n, g.name)
			}
		}
		b.WriteString(".\n")
	}
	zs := []string{}
	zok := true
	for _, f := range r.fields {
		z, ok := f.ty.zero()
		if !ok {
			zok = false
		}
		zs = append(zs, z)
	}
	if zok {
		fmt.Fprintf(&b, "Definition %s_zero : %s := ga_mk_%s %s.\n", n, n, r.name, strings.Join(zs, " "))
	}
	return b.String()
}

// ------------------------------------------------------------------ translation state

type gaVar struct {
	name string // Go name
	coq  string
	ty   *gaT
}

type gaFunc struct {
	spec     gaSpec
	fd       *ast.FuncDecl
	coq      string
	recv     *gaVar
	params   []gaVar
	res      *gaT // a tuple for several results
	text     string
	ok       bool
	done     bool
	usesRand bool // the function calls rand.Uint64(): it takes the stream v_rand and returns the rest
}

var gaFuncs map[string]*gaFunc // by "pkg:Name"

type gaCtx struct {
	vars []gaVar
	top  bool // the continuation of this block is the tail of the function
}

type gaTr struct {
	p      *pkgInfo
	f      *gaFunc
	bad    bool
	ntmp   int
	loops  []string
	nloops int
	addrOf map[string]bool // local variables whose address is taken
}

func (t *gaTr) fail(n ast.Node, format string, a ...interface{}) {
	if !t.bad {
		pos := ""
		if n != nil {
			pos = t.p.fset.Position(n.Pos()).String()
			pos = strings.TrimPrefix(pos, repo+"/") + ": "
		}
		problem("aggregate translation of %s: %s%s", t.f.spec.fn, pos, fmt.Sprintf(format, a...))
	}
	t.bad = true
}

func (t *gaTr) src(n ast.Node) string { return gaSrc(t.p.fset, n) }

func (t *gaTr) tmp() string {
	t.ntmp++
	return fmt.Sprintf("t%d", t.ntmp)
}

func (c gaCtx) lookup(name string) (gaVar, bool) {
	for i := len(c.vars) - 1; i >= 0; i-- {
		if c.vars[i].name == name {
			return c.vars[i], true
		}
	}
	return gaVar{}, false
}

func gaTuple(parts []string) string {
	if len(parts) == 0 {
		return "tt"
	}
	if len(parts) == 1 {
		return parts[0]
	}
	return "(" + strings.Join(parts, ", ") + ")"
}

// a pattern for do / let: '(a, b) for several names
func gaPattern(parts []string) string {
	if len(parts) == 0 {
		return "_"
	}
	if len(parts) == 1 {
		return parts[0]
	}
	return "'(" + strings.Join(parts, ", ") + ")"
}

func gaTypeTuple(parts []string) string {
	if len(parts) == 0 {
		return "unit"
	}
	if len(parts) == 1 {
		return parts[0]
	}
	return "(" + strings.Join(parts, " * ") + ")"
}

func gaIndent(s string) string {
	lines := strings.Split(strings.TrimRight(s, "\n"), "\n")
	for i := range lines {
		lines[i] = "  " + lines[i]
	}
	return strings.Join(lines, "\n")
}

func gaMentions(text, tok string) bool {
	re := regexp.MustCompile(`(^|[^A-Za-z0-9_'])` + regexp.QuoteMeta(tok) + `($|[^A-Za-z0-9_'])`)
	return re.MatchString(text)
}

func (t *gaTr) resolve(e ast.Expr) *gaT {
	ty := gaResolve(t.f.spec.pkg, t.src(e))
	if ty.k == "bad" {
		t.fail(e, "type outside the scheme: %s", t.src(e))
	}
	return ty
}

// coerce checks that a value of type have can stand where want is expected
func (t *gaTr) coerce(n ast.Node, text string, have, want *gaT) string {
	if have.k == "bad" || want.k == "bad" {
		return text
	}
	if have.same(want) {
		return text
	}
	if have.k == "nil" && (want.k == "err" || want.k == "col" || want.k == "pstr") {
		return "None"
	}
	if have.k == "slice" && have.el.k == "byte" && want.k == "string" || have.k == "string" && want.k == "slice" && want.el.k == "byte" {
		return text
	}
	if have.k == "nil" && (want.k == "slice" || want.k == "map") {
		return "[]"
	}
	if have.k == "int" && want.k == "u32" && strings.Trim(text, "0123456789") == "" { // an untyped constant
		return text
	}
	if have.k == "int" && want.k == "f64" && text == "0" {
		return "f_zero"
	}
	if have.k == "int" && want.k == "byte" && strings.Trim(text, "0123456789") == "" {
		return text + "%N"
	}
	if have.k == "string" && want.k == "fn" {
		t.fail(n, "a string converted to interface{} is outside the scheme")
		return text
	}
	t.fail(n, "a value of type %s stands where %s is expected: %s", have, want, t.src(n))
	return text
}

func (t *gaTr) bind(pre *[]string, text string, ty *gaT) (string, *gaT) {
	v := t.tmp()
	*pre = append(*pre, fmt.Sprintf("do %s <- %s;", v, text))
	return v, ty
}

// ------------------------------------------------------------------ expressions

func (t *gaTr) expr(e ast.Expr, c gaCtx, pre *[]string) (string, *gaT) {
	switch x := e.(type) {
	case *ast.ParenExpr:
		return t.expr(x.X, c, pre)
	case *ast.BasicLit:
		switch x.Kind {
		case token.INT:
			if strings.Trim(x.Value, "0123456789") == "" {
				return x.Value, gaK("int")
			}
		case token.FLOAT:
			if x.Value == "0.0" {
				return "f_zero", gaK("f64")
			}
		case token.STRING:
			if len(x.Value) >= 2 && (x.Value[0] == '"' || x.Value[0] == '`') && !strings.Contains(x.Value, "\\") {
				return coqBytes(x.Value[1 : len(x.Value)-1]), gaK("string")
			}
		}
		t.fail(e, "literal outside the scheme: %s", x.Value)
		return "0", gaBad
	case *ast.Ident:
		switch x.Name {
		case "nil":
			return "None", gaK("nil")
		case "true", "false":
			if _, shadowed := c.lookup(x.Name); !shadowed {
				return x.Name, gaK("bool")
			}
		}
		v, ok := c.lookup(x.Name)
		if !ok {
			if g := gaFuncs[t.f.spec.pkg+":"+x.Name]; g != nil && g.done && g.ok && g.res != nil && g.fd == nil {
				return g.coq, g.res // a translated package level table
			}
			t.fail(e, "unknown identifier %s", x.Name)
			return "0", gaBad
		}
		return v.coq, v.ty
	case *ast.SelectorExpr:
		if id, ok := x.X.(*ast.Ident); ok && id.Name == "column" {
			if _, isVar := c.lookup("column"); !isVar {
				switch x.Sel.Name {
				case "LessThan", "GreaterThan", "Equal", "NotEqual":
					return "ga_column_" + x.Sel.Name, gaK("cres")
				}
			}
		}
		y, ty := t.expr(x.X, c, pre)
		if ty.k == "rec" {
			if f, ok := gaRecs[ty.rec].field(x.Sel.Name); ok {
				return fmt.Sprintf("(ga_%s_%s %s)", ty.rec, f.name, y), f.ty
			}
		}
		t.fail(e, "selector outside the scheme: %s", t.src(e))
		return "0", gaBad
	case *ast.UnaryExpr:
		switch x.Op {
		case token.NOT:
			y, ty := t.expr(x.X, c, pre)
			t.coerce(x.X, y, ty, gaK("bool"))
			return "(negb " + y + ")", gaK("bool")
		case token.SUB:
			y, ty := t.expr(x.X, c, pre)
			t.coerce(x.X, y, ty, gaK("int"))
			return "(- " + y + ")", gaK("int")
		case token.AND: // &s[i] of an []int, only read through: the element (the index is checked)
			if ie, ok := x.X.(*ast.IndexExpr); ok {
				y, ty := t.expr(ie, c, pre)
				if ty.k == "int" {
					return y, gaK("pint")
				}
				if ty.k == "string" { // &values[i]: only read through
					return "(Some " + y + ")", gaK("pstr")
				}
			}
			if id, ok := x.X.(*ast.Ident); ok { // &s of a string variable that is not stored into afterwards
				if v, ok := c.lookup(id.Name); ok && v.ty.k == "string" {
					return "(Some " + v.coq + ")", gaK("pstr")
				}
			}
		}
	case *ast.StarExpr:
		y, ty := t.expr(x.X, c, pre)
		if ty.k == "buf" {
			return "(fst " + y + ")", gaSlice(ty.el)
		}
		if ty.k == "pstr" {
			return t.bind(pre, "ga_deref "+y, gaK("string"))
		}
	case *ast.IndexExpr:
		s, ty := t.expr(x.X, c, pre)
		i, ti := t.expr(x.Index, c, pre)
		switch ty.k {
		case "slice":
			if ti.k != "u32" && ti.k != "u8" {
				t.coerce(x.Index, i, ti, gaK("int"))
			}
			return t.bind(pre, fmt.Sprintf("ga_index %s %s", s, i), ty.el)
		case "map":
			t.coerce(x.Index, i, ti, gaK("string"))
			z, ok := ty.el.zero()
			if !ok {
				t.fail(e, "map lookup of a value type without zero in the scheme")
			}
			return fmt.Sprintf("(fst (ga_map_get %s %s %s))", z, s, i), ty.el
		}
		t.fail(e, "index into something that is not a slice or a map: %s", t.src(e))
		return "0", gaBad
	case *ast.SliceExpr:
		if m := gaUnsafeRe.FindStringSubmatch(t.src(e)); m != nil {
			// ( *[8]byte)(unsafe.Pointer(&v))[:] / ( *[8]byte)(unsafe.Pointer(p))[:]
			if v, ok := c.lookup(m[2]); ok {
				if m[1] == "&" && v.ty.k == "u64" {
					return "(ga_le64 " + v.coq + ")", gaSlice(gaK("byte"))
				}
				if m[1] == "" && v.ty.k == "pint" {
					return "(ga_le64 (ga_u64 " + v.coq + "))", gaSlice(gaK("byte"))
				}
			}
			t.fail(e, "unsafe cast outside the scheme: %s", t.src(e))
			return "[]", gaBad
		}
		if x.Low == nil && x.High == nil && x.Max == nil {
			s, ty := t.expr(x.X, c, pre)
			if ty.k == "slice" {
				return s, ty
			}
		}
		if x.Low != nil && x.High != nil && x.Max == nil {
			s, ty := t.expr(x.X, c, pre)
			lo, tl := t.expr(x.Low, c, pre)
			hi, th := t.expr(x.High, c, pre)
			if ty.k == "slice" {
				t.coerce(x.Low, lo, tl, gaK("int"))
				t.coerce(x.High, hi, th, gaK("int"))
				return t.bind(pre, fmt.Sprintf("ga_slice %s %s %s", s, lo, hi), ty)
			}
		}
		if x.Low != nil && x.High == nil && x.Max == nil && t.src(x.Low) == "1" {
			s, ty := t.expr(x.X, c, pre)
			if ty.k == "slice" {
				return t.bind(pre, "ga_tail1 "+s, ty)
			}
		}
		if x.Low == nil && x.High != nil && x.Max == nil && t.src(x.High) == "0" {
			_, ty := t.expr(x.X, c, pre)
			if ty.k == "slice" {
				return "[]", ty
			}
		}
		t.fail(e, "slice expression outside the scheme: %s", t.src(e))
		return "[]", gaBad
	case *ast.CompositeLit:
		return t.composite(x, c, pre)
	case *ast.BinaryExpr:
		return t.binary(x, c, pre)
	case *ast.CallExpr:
		return t.call(x, c, pre)
	}
	t.fail(e, "expression outside the scheme: %s", t.src(e))
	return "0", gaBad
}

var gaUnsafeRe = regexp.MustCompile(`^\(\*\[8\]byte\)\(unsafe\.Pointer\((&?)([A-Za-z_][A-Za-z0-9_]*)\)\)\[:\]$`)

func (t *gaTr) composite(x *ast.CompositeLit, c gaCtx, pre *[]string) (string, *gaT) {
	if t.src(x.Type) == "[1]byte" && len(x.Elts) == 1 { // a one byte array, only used as b[:]
		y, ty := t.expr(x.Elts[0], c, pre)
		return "[" + t.coerce(x.Elts[0], y, ty, gaK("byte")) + "]", gaSlice(gaK("byte"))
	}
	ty := t.resolve(x.Type)
	switch ty.k {
	case "slice":
		var parts []string
		for _, el := range x.Elts {
			if _, isKV := el.(*ast.KeyValueExpr); isKV {
				t.fail(el, "slice literal with keys")
				continue
			}
			y, te := t.expr(el, c, pre)
			parts = append(parts, t.coerce(el, y, te, ty.el))
		}
		return "[" + strings.Join(parts, "; ") + "]", ty
	case "rec":
		r := gaRecs[ty.rec]
		vals := map[string]string{}
		for _, el := range x.Elts {
			kv, ok := el.(*ast.KeyValueExpr)
			if !ok {
				t.fail(el, "composite literal without field names")
				continue
			}
			name := t.src(kv.Key)
			f, found := r.field(name)
			if !found {
				t.fail(el, "unknown field %s", name)
				continue
			}
			y, tv := t.expr(kv.Value, c, pre)
			vals[name] = t.coerce(kv.Value, y, tv, f.ty)
		}
		parts := []string{"ga_mk_" + r.name}
		for _, f := range r.fields {
			if v, ok := vals[f.name]; ok {
				parts = append(parts, v)
			} else if z, ok := f.ty.zero(); ok {
				parts = append(parts, z)
			} else {
				t.fail(x, "field %s without a value has no zero in the scheme", f.name)
			}
		}
		return "(" + strings.Join(parts, " ") + ")", ty
	}
	t.fail(x, "composite literal outside the scheme: %s", t.src(x))
	return "0", gaBad
}

func (t *gaTr) binary(x *ast.BinaryExpr, c gaCtx, pre *[]string) (string, *gaT) {
	if x.Op == token.LAND || x.Op == token.LOR {
		a, ta := t.expr(x.X, c, pre)
		t.coerce(x.X, a, ta, gaK("bool"))
		var preB []string
		b, tb := t.expr(x.Y, c, &preB)
		t.coerce(x.Y, b, tb, gaK("bool"))
		if len(preB) == 0 {
			if x.Op == token.LAND {
				return fmt.Sprintf("(if %s then %s else false)", a, b), gaK("bool")
			}
			return fmt.Sprintf("(if %s then true else %s)", a, b), gaK("bool")
		}
		v := t.tmp()
		right := "(" + strings.Join(preB, " ") + " Ok " + b + ")"
		if x.Op == token.LAND {
			*pre = append(*pre, fmt.Sprintf("do %s <- (if %s then %s else Ok false);", v, a, right))
		} else {
			*pre = append(*pre, fmt.Sprintf("do %s <- (if %s then Ok true else %s);", v, a, right))
		}
		return v, gaK("bool")
	}
	a, ta := t.expr(x.X, c, pre)
	b, tb := t.expr(x.Y, c, pre)
	if ta.k == "bad" || tb.k == "bad" {
		return "0", gaBad
	}
	isNum := func(k string) bool { return k == "int" }
	if ta.k == "f64" || tb.k == "f64" {
		lit0 := func(e ast.Expr) bool { return t.src(e) == "0" }
		switch {
		case x.Op == token.ADD && ta.k == "f64" && tb.k == "f64":
			return fmt.Sprintf("(f_add %s %s)", a, b), gaK("f64")
		case x.Op == token.QUO && ta.k == "f64" && tb.k == "f64":
			return fmt.Sprintf("(f_div %s %s)", a, b), gaK("f64")
		case x.Op == token.LSS && ta.k == "f64" && tb.k == "f64":
			return fmt.Sprintf("(f_lt %s %s)", a, b), gaK("bool")
		case x.Op == token.GTR && ta.k == "f64" && tb.k == "f64":
			return fmt.Sprintf("(f_lt %s %s)", b, a), gaK("bool")
		case x.Op == token.EQL && ta.k == "f64" && lit0(x.Y):
			return fmt.Sprintf("(f_iszero %s)", a), gaK("bool")
		}
		t.fail(x, "float operator outside the scheme: %s", t.src(x))
		return "0", gaBad
	}
	if ta.k == "u8" && tb.k == "u8" {
		switch x.Op {
		case token.LSS:
			return fmt.Sprintf("(%s <? %s)", a, b), gaK("bool")
		case token.GTR:
			return fmt.Sprintf("(%s <? %s)", b, a), gaK("bool")
		case token.EQL:
			return fmt.Sprintf("(%s =? %s)", a, b), gaK("bool")
		}
	}
	switch x.Op {
	case token.ADD, token.SUB:
		if isNum(ta.k) && isNum(tb.k) {
			op := "+"
			if x.Op == token.SUB {
				op = "-"
			}
			if gaWrapInts[t.f.spec.pkg+":"+t.f.spec.fn] {
				return fmt.Sprintf("(wrap64 (%s %s %s))", a, op, b), gaK("int")
			}
			return fmt.Sprintf("(%s %s %s)", a, op, b), gaK("int")
		}
	case token.LSS, token.LEQ, token.GTR, token.GEQ:
		if isNum(ta.k) && isNum(tb.k) {
			switch x.Op {
			case token.LSS:
				return fmt.Sprintf("(%s <? %s)", a, b), gaK("bool")
			case token.LEQ:
				return fmt.Sprintf("(%s <=? %s)", a, b), gaK("bool")
			case token.GTR:
				return fmt.Sprintf("(%s <? %s)", b, a), gaK("bool")
			default:
				return fmt.Sprintf("(%s <=? %s)", b, a), gaK("bool")
			}
		}
	case token.EQL, token.NEQ:
		text := ""
		_, litB := x.Y.(*ast.BasicLit)
		switch {
		case tb.k == "nil" && (ta.k == "err" || ta.k == "col" || ta.k == "pstr"):
			text = "(ga_isnil " + a + ")"
		case ta.k == "nil" && (tb.k == "err" || tb.k == "col" || tb.k == "pstr"):
			text = "(ga_isnil " + b + ")"
		case isNum(ta.k) && isNum(tb.k), ta.k == "cres" && tb.k == "cres":
			text = fmt.Sprintf("(%s =? %s)", a, b)
		case ta.k == "bool" && tb.k == "bool":
			text = fmt.Sprintf("(Bool.eqb %s %s)", a, b)
		case ta.k == "string" && tb.k == "string":
			text = fmt.Sprintf("(bytes_eqb %s %s)", a, b)
		case ta.k == "fn" && tb.k == "string" && litB:
			text = fmt.Sprintf("(fn_eq_string %s %s)", a, b)
		}
		if text != "" {
			if x.Op == token.NEQ {
				text = "(negb " + text + ")"
			}
			return text, gaK("bool")
		}
	}
	t.fail(x, "operator outside the scheme (types %s, %s): %s", ta, tb, t.src(x))
	return "0", gaBad
}

// ------------------------------------------------------------------ calls

func (t *gaTr) callTranslated(g *gaFunc, n *ast.CallExpr, recv string, c gaCtx, pre *[]string) (string, *gaT) {
	if !g.done || g.fd == nil {
		t.fail(n, "call of %s, which is not translated before this function", g.spec.fn)
		return "0", gaBad
	}
	if len(n.Args) != len(g.params) {
		t.fail(n, "call of %s with %d arguments (it has %d parameters)", g.spec.fn, len(n.Args), len(g.params))
		return "0", gaBad
	}
	variadic := false
	if k := len(g.fd.Type.Params.List); k > 0 {
		_, variadic = g.fd.Type.Params.List[k-1].Type.(*ast.Ellipsis)
	}
	if variadic != n.Ellipsis.IsValid() {
		t.fail(n, "a variadic parameter must be passed as s...")
	}
	parts := []string{g.coq}
	if recv != "" {
		parts = append(parts, recv)
	}
	var bufs []string
	for i, a := range n.Args {
		if g.params[i].ty.k == "buf" { // &x: value-result
			ue, ok := a.(*ast.UnaryExpr)
			var v gaVar
			if ok && ue.Op == token.AND {
				if id, isId := ue.X.(*ast.Ident); isId {
					v, ok = c.lookup(id.Name)
				} else {
					ok = false
				}
			}
			if !ok || v.ty.k != "buf" {
				t.fail(a, "a buffer argument must be &x for a local slice x")
				continue
			}
			parts = append(parts, v.coq)
			bufs = append(bufs, v.coq)
			continue
		}
		x, ty := t.expr(a, c, pre)
		parts = append(parts, t.coerce(a, x, ty, g.params[i].ty))
	}
	if len(bufs) > 0 {
		tv, _ := t.bind(pre, strings.Join(parts, " "), g.res)
		r := t.tmp()
		*pre = append(*pre, fmt.Sprintf("let %s := %s in", gaPattern(append([]string{r}, bufs...)), tv))
		return r, g.res
	}
	return t.bind(pre, strings.Join(parts, " "), g.res)
}

func (t *gaTr) argsOf(x *ast.CallExpr, c gaCtx, pre *[]string, want ...*gaT) ([]string, bool) {
	if len(x.Args) != len(want) || x.Ellipsis.IsValid() {
		t.fail(x, "call with the wrong number of arguments: %s", t.src(x))
		return nil, false
	}
	var out []string
	for i, a := range x.Args {
		y, ty := t.expr(a, c, pre)
		out = append(out, t.coerce(a, y, ty, want[i]))
	}
	return out, true
}

func (t *gaTr) call(x *ast.CallExpr, c gaCtx, pre *[]string) (string, *gaT) {
	fun := t.src(x.Fun)
	if id, ok := x.Fun.(*ast.Ident); ok {
		if v, isVar := c.lookup(id.Name); isVar {
			if v.ty.k == "func" { // a func([]T) T value
				if a, ok := t.argsOf(x, c, pre, gaSlice(v.ty.el)); ok {
					return t.bind(pre, v.coq+" "+a[0], v.ty.el)
				}
				return "0", gaBad
			}
			t.fail(x, "call of a variable: %s", fun)
			return "0", gaBad
		}
	}
	ids := gaSlice(gaK("u32"))
	switch fun {
	case "len":
		if len(x.Args) == 1 {
			s, ty := t.expr(x.Args[0], c, pre)
			if ty.k == "slice" || ty.k == "string" {
				return "(Z.of_nat (length " + s + "))", gaK("int")
			}
		}
		t.fail(x, "len outside the scheme: %s", t.src(x))
		return "0", gaBad
	case "cap":
		if len(x.Args) == 1 {
			if se, ok := x.Args[0].(*ast.StarExpr); ok {
				s, ty := t.expr(se.X, c, pre)
				if ty.k == "buf" {
					return "(snd " + s + ")", gaK("int")
				}
			}
		}
		t.fail(x, "cap outside the scheme: %s", t.src(x))
		return "0", gaBad
	case "append":
		if len(x.Args) == 2 && x.Ellipsis.IsValid() { // append(bytes, s...) for a string or a byte slice
			s, ty := t.expr(x.Args[0], c, pre)
			v, tv := t.expr(x.Args[1], c, pre)
			if ty.k == "slice" && ty.el.k == "byte" && (tv.k == "string" || tv.same(ty)) {
				return "(" + s + " ++ " + v + ")", ty
			}
			t.fail(x, "append(s, t...) outside the scheme: %s", t.src(x))
			return "[]", gaBad
		}
		if len(x.Args) == 2 && !x.Ellipsis.IsValid() {
			s, ty := t.expr(x.Args[0], c, pre)
			v, tv := t.expr(x.Args[1], c, pre)
			if ty.k == "slice" {
				v = t.coerce(x.Args[1], v, tv, ty.el)
				return "(" + s + " ++ [" + v + "])", ty
			}
		}
		t.fail(x, "append outside the scheme: %s", t.src(x))
		return "[]", gaBad
	case "make":
		if len(x.Args) == 2 || len(x.Args) == 3 {
			ty := t.resolve(x.Args[0])
			n, tn := t.expr(x.Args[1], c, pre)
			t.coerce(x.Args[1], n, tn, gaK("int"))
			if ty.k == "map" && len(x.Args) == 2 {
				return "[]", ty
			}
			if ty.k != "slice" {
				t.fail(x, "make of something that is not a slice or a map: %s", t.src(x))
				return "[]", gaBad
			}
			if len(x.Args) == 2 && n == "0" {
				return "[]", ty
			}
			if n == "0" {
				cp, tc := t.expr(x.Args[2], c, pre)
				t.coerce(x.Args[2], cp, tc, gaK("int"))
				return t.bind(pre, "ga_make0 "+cp, ty)
			}
			cp := n
			if len(x.Args) == 3 {
				var tc *gaT
				cp, tc = t.expr(x.Args[2], c, pre)
				t.coerce(x.Args[2], cp, tc, gaK("int"))
			}
			z, ok := ty.el.zero()
			if !ok {
				t.fail(x, "make of a slice whose element has no zero in the scheme: %s", t.src(x))
			}
			return t.bind(pre, fmt.Sprintf("ga_make %s %s %s", z, n, cp), ty)
		}
	case "math.IsNaN":
		if a, ok := t.argsOf(x, c, pre, gaK("f64")); ok {
			return "(f_isnan " + a[0] + ")", gaK("bool")
		}
		return "false", gaBad
	case "math.NaN":
		if len(x.Args) == 0 {
			return "f_NaN", gaK("f64")
		}
	case "math.Max", "math.Min":
		if a, ok := t.argsOf(x, c, pre, gaK("f64"), gaK("f64")); ok {
			return fmt.Sprintf("(f_%s %s %s)", fun[len("math."):], a[0], a[1]), gaK("f64")
		}
		return "0", gaBad
	case "math.Float64bits":
		if a, ok := t.argsOf(x, c, pre, gaK("f64")); ok {
			return a[0], gaK("u64")
		}
		return "0", gaBad
	case "float64":
		if a, ok := t.argsOf(x, c, pre, gaK("int")); ok {
			return "(f_of_int " + a[0] + ")", gaK("f64")
		}
		return "0", gaBad
	case "byte":
		if a, ok := t.argsOf(x, c, pre, gaK("u8")); ok {
			return "(Z.to_N " + a[0] + ")", gaK("byte")
		}
		return "0", gaBad
	case "qfstrings.NewPointer":
		if a, ok := t.argsOf(x, c, pre, gaK("int"), gaK("int"), gaK("bool")); ok {
			return fmt.Sprintf("(gf_strings_NewPointer %s %s %s)", a[0], a[1], a[2]), gaK("ptr")
		}
		return "0", gaBad
	case "qfstrings.UnsafeBytesToString":
		if a, ok := t.argsOf(x, c, pre, gaSlice(gaK("byte"))); ok {
			return a[0], gaK("string")
		}
		return "[]", gaBad
	case "scolumn.New":
		if g := gaFuncs["internal/scolumn:New"]; g != nil && t.f.spec.pkg == "internal/ecolumn" {
			return t.callTranslated(g, x, "", c, pre)
		}
	case "hash.HashBytes":
		if a, ok := t.argsOf(x, c, pre, gaSlice(gaK("byte")), gaK("u64")); ok {
			return fmt.Sprintf("(memhash %s %s)", a[0], a[1]), gaK("u64")
		}
		return "0", gaBad
	case "bytes.Compare":
		if a, ok := t.argsOf(x, c, pre, gaSlice(gaK("byte")), gaSlice(gaK("byte"))); ok {
			return fmt.Sprintf("(ga_bytes_compare %s %s)", a[0], a[1]), gaK("int")
		}
		return "0", gaBad
	case "uint32":
		if a, ok := t.argsOf(x, c, pre, gaK("int")); ok {
			return "(ga_u32 " + a[0] + ")", gaK("u32")
		}
		return "0", gaBad
	case "GroupStats":
		if t.f.spec.pkg == gaRoot {
			if a, ok := t.argsOf(x, c, pre, gaK("stats")); ok {
				return a[0], gaK("stats")
			}
			return "s0", gaBad
		}
	case "unknownCol":
		if t.f.spec.pkg == gaRoot {
			if a, ok := t.argsOf(x, c, pre, gaK("string")); ok {
				return "(unknownCol " + a[0] + ")", gaK("string")
			}
			return "[]", gaBad
		}
	case "index.NewAscending":
		if a, ok := t.argsOf(x, c, pre, gaK("u32")); ok {
			return t.bind(pre, "gc_NewAscending "+a[0], ids)
		}
		return "[]", gaBad
	case "icolumn.New":
		if a, ok := t.argsOf(x, c, pre, gaSlice(gaK("int"))); ok {
			return "(Some (icolumn_New " + a[0] + "))", gaK("col")
		}
		return "None", gaBad
	case "integer.Max", "integer.Min":
		if a, ok := t.argsOf(x, c, pre, gaK("int"), gaK("int")); ok {
			return fmt.Sprintf("(gf_integer_%s %s %s)", fun[len("integer."):], a[0], a[1]), gaK("int")
		}
		return "0", gaBad
	case "grouper.GroupBy":
		if a, ok := t.argsOf(x, c, pre, ids, gaSlice(gaK("cmp"))); ok {
			return t.bind(pre, fmt.Sprintf("grouper_GroupBy %s %s", a[0], a[1]), gaTupleT(gaSlice(ids), gaK("stats")))
		}
		return "0", gaBad
	case "grouper.Distinct":
		if a, ok := t.argsOf(x, c, pre, ids, gaSlice(gaK("cmp"))); ok {
			return t.bind(pre, fmt.Sprintf("grouper_Distinct %s %s", a[0], a[1]), ids)
		}
		return "0", gaBad
	case "qerrors.New":
		if len(x.Args) >= 2 && !x.Ellipsis.IsValid() {
			var parts []string
			for i, a := range x.Args {
				y, ty := t.expr(a, c, pre)
				if i >= 2 && ty.k == "fn" {
					parts = append(parts, "(fn_text "+y+")")
					continue
				}
				parts = append(parts, t.coerce(a, y, ty, gaK("string")))
			}
			return fmt.Sprintf("(Some (new_error %s %s [%s]))", parts[0], parts[1], strings.Join(parts[2:], "; ")), gaK("err")
		}
	case "qerrors.Propagate":
		if a, ok := t.argsOf(x, c, pre, gaK("string"), gaK("err")); ok {
			return fmt.Sprintf("(Some (propagate %s %s))", a[0], a[1]), gaK("err")
		}
		return "None", gaBad
	case "groupby.NewConfig":
		if g := gaFuncs[gaGroupbyPkg+":NewConfig"]; g != nil && t.f.spec.pkg == gaRoot {
			return t.callTranslated(g, x, "", c, pre)
		}
	}
	// a translated free function of the package
	if id, ok := x.Fun.(*ast.Ident); ok {
		if g := gaFuncs[t.f.spec.pkg+":"+id.Name]; g != nil && g.recv == nil {
			return t.callTranslated(g, x, "", c, pre)
		}
		t.fail(x, "call of a function outside the scheme: %s", fun)
		return "0", gaBad
	}
	sel, ok := x.Fun.(*ast.SelectorExpr)
	if !ok {
		t.fail(x, "call outside the scheme: %s", t.src(x))
		return "0", gaBad
	}
	m := sel.Sel.Name
	if id, ok := sel.X.(*ast.Ident); ok {
		if _, isVar := c.lookup(id.Name); !isVar {
			t.fail(x, "call of a function outside the scheme: %s", fun)
			return "0", gaBad
		}
	}
	r, tr := t.expr(sel.X, c, pre)
	if tr.k == "rec" {
		goName := tr.rec
		if cp, ok := gaColPkgs[gaRecs[tr.rec].pkg]; ok {
			goName = strings.TrimPrefix(tr.rec, cp.short+"_")
		}
		if g := gaFuncs[gaRecs[tr.rec].pkg+":"+goName+"."+m]; g != nil {
			return t.callTranslated(g, x, r, c, pre)
		}
		if cp, ok := gaColPkgs[gaRecs[tr.rec].pkg]; ok && cp.elem != "" && tr.rec == cp.short+"_Column" && m == "fnName" {
			if a, ok := t.argsOf(x, c, pre, gaK("string")); ok {
				return "(" + cp.short + "_fnName " + a[0] + ")", gaK("string")
			}
			return "[]", gaBad
		}
		// a method of an embedded interface field
		for _, f := range gaRecs[tr.rec].fields {
			if f.ty.k == "col" && f.name == "Column" && (m == "Subset" || m == "Aggregate" || m == "Comparable") {
				r, tr = fmt.Sprintf("(ga_%s_%s %s)", tr.rec, f.name, r), f.ty
			}
		}
	}
	switch tr.k {
	case "u8":
		if m == "isNull" && len(x.Args) == 0 {
			return "(gf_ecolumn_enumVal_isNull " + r + ")", gaK("bool")
		}
	case "ptr":
		if len(x.Args) == 0 {
			switch m {
			case "IsNull":
				return "(gf_strings_Pointer_IsNull " + r + ")", gaK("bool")
			case "Offset", "Len":
				return "(gf_strings_Pointer_" + m + " " + r + ")", gaK("int")
			}
		}
	case "col":
		switch m {
		case "Subset":
			if a, ok := t.argsOf(x, c, pre, ids); ok {
				cv, _ := t.bind(pre, "ga_deref "+r, nil)
				return t.bind(pre, fmt.Sprintf("col_Subset %s %s", cv, a[0]), gaK("col"))
			}
			return "None", gaBad
		case "Aggregate":
			if a, ok := t.argsOf(x, c, pre, gaSlice(ids), gaK("fn")); ok {
				cv, _ := t.bind(pre, "ga_deref "+r, nil)
				return t.bind(pre, fmt.Sprintf("col_Aggregate %s %s %s", cv, a[0], a[1]), gaTupleT(gaK("col"), gaK("err")))
			}
			return "None", gaBad
		case "Comparable":
			if a, ok := t.argsOf(x, c, pre, gaK("bool"), gaK("bool"), gaK("bool")); ok {
				cv, _ := t.bind(pre, "ga_deref "+r, nil)
				return fmt.Sprintf("(col_Comparable %s %s %s %s)", cv, a[0], a[1], a[2]), gaK("cmp")
			}
			return "None", gaBad
		}
	case "slice":
		if m == "Len" && len(x.Args) == 0 && tr.el.k == "u32" {
			return "(Z.of_nat (length " + r + "))", gaK("int")
		}
	}
	t.fail(x, "call outside the scheme: %s", t.src(x))
	return "0", gaBad
}

// ------------------------------------------------------------------ statements

func gaContainsReturn(n ast.Node) bool {
	found := false
	ast.Inspect(n, func(m ast.Node) bool {
		if _, ok := m.(*ast.ReturnStmt); ok {
			found = true
		}
		return !found
	})
	return found
}

func gaRootIdent(e ast.Expr) string {
	switch x := e.(type) {
	case *ast.Ident:
		return x.Name
	case *ast.SelectorExpr:
		return gaRootIdent(x.X)
	case *ast.IndexExpr:
		return gaRootIdent(x.X)
	case *ast.ParenExpr:
		return gaRootIdent(x.X)
	case *ast.StarExpr:
		return gaRootIdent(x.X)
	}
	return ""
}

// gaAssignedNames collects the names stored into and the names declared inside the nodes
func gaAssignedNames(nodes ...ast.Node) (assigned, declared map[string]bool) {
	assigned, declared = map[string]bool{}, map[string]bool{}
	for _, n := range nodes {
		ast.Inspect(n, func(m ast.Node) bool {
			switch s := m.(type) {
			case *ast.AssignStmt:
				for _, l := range s.Lhs {
					if s.Tok == token.DEFINE {
						declared[gaRootIdent(l)] = true
					} else {
						assigned[gaRootIdent(l)] = true
					}
				}
			case *ast.IncDecStmt:
				assigned[gaRootIdent(s.X)] = true
			case *ast.RangeStmt:
				if s.Key != nil {
					declared[gaRootIdent(s.Key)] = true
				}
				if s.Value != nil {
					declared[gaRootIdent(s.Value)] = true
				}
			case *ast.ValueSpec:
				for _, id := range s.Names {
					declared[id.Name] = true
				}
			case *ast.TypeSwitchStmt:
				if as, ok := s.Assign.(*ast.AssignStmt); ok {
					declared[gaRootIdent(as.Lhs[0])] = true
				}
			case *ast.UnaryExpr:
				if s.Op == token.AND { // &x handed to a callee that may store through it
					assigned[gaRootIdent(s.X)] = true
				}
			case *ast.CallExpr:
				// a pointer variable handed on: the callee may store through it
				for _, a := range s.Args {
					if id, ok := a.(*ast.Ident); ok {
						assigned["*"+id.Name] = true
					}
				}
			}
			return true
		})
	}
	delete(declared, "_")
	delete(assigned, "_")
	return
}

// assigned: the variables of c stored into inside the nodes, in context order
func (t *gaTr) assigned(c gaCtx, nodes ...ast.Node) []gaVar {
	as, decl := gaAssignedNames(nodes...)
	var out []gaVar
	seen := map[string]bool{}
	for i := len(c.vars) - 1; i >= 0; i-- {
		v := c.vars[i]
		if seen[v.name] {
			continue
		}
		seen[v.name] = true
		if as[v.name] || v.ty.k == "buf" && as["*"+v.name] {
			if decl[v.name] {
				t.fail(nodes[0], "the variable %s is stored into in a block that also declares a variable of that name", v.name)
			}
			out = append([]gaVar{v}, out...)
		}
	}
	return out
}

func gaCoqNames(vs []gaVar) []string {
	var out []string
	for _, v := range vs {
		out = append(out, v.coq)
	}
	return out
}

func gaCoqTypes(vs []gaVar) []string {
	var out []string
	for _, v := range vs {
		out = append(out, v.ty.coq())
	}
	return out
}

func (t *gaTr) declare(n ast.Node, c *gaCtx, name string, ty *gaT) string {
	if name == "_" {
		return "_"
	}
	if v, ok := c.lookup(name); ok && !v.ty.same(ty) {
		t.fail(n, "the variable %s is declared again with another type", name)
	}
	c.vars = append(c.vars, gaVar{name, "v_" + name, ty})
	return "v_" + name
}

// store translates  lhs = (the Coq term val of type ty)  into lines
func (t *gaTr) store(st ast.Stmt, lhs ast.Expr, val string, ty *gaT, define bool, c *gaCtx, out *[]string) {
	switch l := lhs.(type) {
	case *ast.Ident:
		if l.Name == "_" {
			return
		}
		if define {
			if ty.k == "nil" || ty.k == "bad" && !t.bad {
				t.fail(st, "a declaration needs a typed value")
			}
			name := t.declare(l, c, l.Name, ty)
			*out = append(*out, fmt.Sprintf("let %s := %s in", name, val))
			return
		}
		v, ok := c.lookup(l.Name)
		if !ok {
			t.fail(st, "store into something that is not a variable: %s", l.Name)
			return
		}
		val = t.coerce(lhs, val, ty, v.ty)
		*out = append(*out, fmt.Sprintf("let %s := %s in", v.coq, val))
		return
	case *ast.SelectorExpr:
		if id, ok := l.X.(*ast.Ident); ok && !define {
			if v, ok := c.lookup(id.Name); ok && v.ty.k == "rec" {
				if f, ok := gaRecs[v.ty.rec].field(l.Sel.Name); ok {
					val = t.coerce(lhs, val, ty, f.ty)
					*out = append(*out, fmt.Sprintf("let %s := ga_%s_set_%s %s %s in", v.coq, v.ty.rec, f.name, v.coq, val))
					return
				}
			}
		}
	case *ast.IndexExpr:
		if id, ok := l.X.(*ast.Ident); ok && !define {
			if v, ok := c.lookup(id.Name); ok {
				i, ti := t.expr(l.Index, *c, out)
				switch v.ty.k {
				case "slice":
					t.coerce(l.Index, i, ti, gaK("int"))
					val = t.coerce(lhs, val, ty, v.ty.el)
					*out = append(*out, fmt.Sprintf("do %s <- ga_update %s %s %s;", v.coq, v.coq, i, val))
					return
				case "map":
					t.coerce(l.Index, i, ti, gaK("string"))
					val = t.coerce(lhs, val, ty, v.ty.el)
					*out = append(*out, fmt.Sprintf("let %s := ga_map_set %s %s %s in", v.coq, v.coq, i, val))
					return
				}
			}
		}
	case *ast.StarExpr:
		if id, ok := l.X.(*ast.Ident); ok && !define {
			if v, ok := c.lookup(id.Name); ok && v.ty.k == "buf" {
				t.fail(st, "a store through a buffer pointer must be  *p = make([]int, 0, n)")
				return
			}
		}
	}
	t.fail(st, "store outside the scheme: %s", t.src(lhs))
}

// simple translates a statement without control flow into lines that end in "in" or ";"
func (t *gaTr) simple(st ast.Stmt, c *gaCtx) ([]string, bool) {
	var out []string
	switch s := st.(type) {
	case *ast.AssignStmt:
		define := s.Tok == token.DEFINE
		if s.Tok == token.ADD_ASSIGN && len(s.Lhs) == 1 && len(s.Rhs) == 1 {
			be := &ast.BinaryExpr{X: s.Lhs[0], Op: token.ADD, Y: s.Rhs[0], OpPos: s.TokPos}
			x, ty := t.expr(be, *c, &out)
			t.store(st, s.Lhs[0], x, ty, false, c, &out)
			return out, true
		}
		if !define && s.Tok != token.ASSIGN {
			return nil, false
		}
		// *buf = make([]int, 0, n): a fresh buffer of capacity n
		if se, ok := s.Lhs[0].(*ast.StarExpr); ok && len(s.Lhs) == 1 && !define {
			if id, ok := se.X.(*ast.Ident); ok {
				if v, ok := c.lookup(id.Name); ok && v.ty.k == "buf" {
					if ce, ok := s.Rhs[0].(*ast.CallExpr); ok && t.src(ce.Fun) == "make" && len(ce.Args) == 3 && t.src(ce.Args[0]) == "[]"+gaColPkgs[t.f.spec.pkg].elem && t.src(ce.Args[1]) == "0" {
						n, tn := t.expr(ce.Args[2], *c, &out)
						t.coerce(ce.Args[2], n, tn, gaK("int"))
						tv := t.tmp()
						out = append(out, fmt.Sprintf("do %s <- @ga_make0 %s %s;", tv, v.ty.el.coq(), n))
						out = append(out, fmt.Sprintf("let %s := (%s, %s) in", v.coq, tv, n))
						return out, true
					}
				}
			}
		}
		if len(s.Lhs) == len(s.Rhs) {
			var texts []string
			var tys []*gaT
			for _, r := range s.Rhs {
				x, ty := t.expr(r, *c, &out)
				texts = append(texts, x)
				tys = append(tys, ty)
			}
			if len(s.Lhs) > 1 { // parallel: the right sides are evaluated first
				for i := range texts {
					if tys[i].k == "nil" || tys[i].k == "bad" {
						continue
					}
					v := t.tmp()
					out = append(out, fmt.Sprintf("let %s := %s in", v, texts[i]))
					texts[i] = v
				}
			}
			for i, l := range s.Lhs {
				t.store(st, l, texts[i], tys[i], define, c, &out)
			}
			return out, true
		}
		if len(s.Rhs) != 1 {
			return nil, false
		}
		// v, ok := m[k]
		if ie, ok := s.Rhs[0].(*ast.IndexExpr); ok && len(s.Lhs) == 2 {
			m, tm := t.expr(ie.X, *c, &out)
			k, tk := t.expr(ie.Index, *c, &out)
			if tm.k != "map" {
				t.fail(st, "v, ok := x[k] on something that is not a map")
				return out, true
			}
			t.coerce(ie.Index, k, tk, gaK("string"))
			z, zok := tm.el.zero()
			if !zok {
				t.fail(st, "map lookup of a value type without zero in the scheme")
			}
			a, b := t.tmp(), t.tmp()
			out = append(out, fmt.Sprintf("let '(%s, %s) := ga_map_get %s %s %s in", a, b, z, m, k))
			t.store(st, s.Lhs[0], a, tm.el, define, c, &out)
			t.store(st, s.Lhs[1], b, gaK("bool"), define, c, &out)
			return out, true
		}
		// a, b := f(..)
		x, ty := t.expr(s.Rhs[0], *c, &out)
		if ty.k != "tuple" || len(ty.parts) != len(s.Lhs) {
			if ty.k != "bad" {
				t.fail(st, "assignment of %s to %d variables", ty, len(s.Lhs))
			}
			return out, true
		}
		var names []string
		for range s.Lhs {
			names = append(names, t.tmp())
		}
		out = append(out, fmt.Sprintf("let %s := %s in", gaPattern(names), x))
		for i, l := range s.Lhs {
			t.store(st, l, names[i], ty.parts[i], define, c, &out)
		}
		return out, true
	case *ast.DeclStmt:
		gd, ok := s.Decl.(*ast.GenDecl)
		if !ok || gd.Tok != token.VAR {
			return nil, false
		}
		for _, sp := range gd.Specs {
			vs := sp.(*ast.ValueSpec)
			if vs.Type == nil || len(vs.Values) != 0 {
				return nil, false
			}
			ty := t.resolve(vs.Type)
			for _, id := range vs.Names {
				if t.addrOf[id.Name] && !ty.same(gaRecT("Config")) {
					if ty.k != "slice" || len(vs.Names) != 1 {
						t.fail(st, "the address of a variable that is not a slice or a Config is taken")
					}
					ty = &gaT{k: "buf", el: ty.el}
				}
			}
			z, ok := ty.zero()
			if !ok {
				t.fail(st, "var of a type without zero in the scheme")
			}
			for _, id := range vs.Names {
				name := t.declare(id, c, id.Name, ty)
				out = append(out, fmt.Sprintf("let %s := %s in", name, z))
			}
		}
		return out, true
	case *ast.IncDecStmt:
		id, ok := s.X.(*ast.Ident)
		if !ok {
			return nil, false
		}
		v, ok := c.lookup(id.Name)
		if !ok || v.ty.k != "int" {
			return nil, false
		}
		op := "+"
		if s.Tok == token.DEC {
			op = "-"
		}
		out = append(out, fmt.Sprintf("let %s := (%s %s 1) in", v.coq, v.coq, op))
		return out, true
	case *ast.ExprStmt:
		// f(&config) with f a ConfigFunc
		ce, ok := s.X.(*ast.CallExpr)
		if !ok || len(ce.Args) != 1 {
			return nil, false
		}
		fid, ok := ce.Fun.(*ast.Ident)
		if !ok {
			return nil, false
		}
		fv, ok := c.lookup(fid.Name)
		if !ok || fv.ty.k != "cf" {
			return nil, false
		}
		ue, ok := ce.Args[0].(*ast.UnaryExpr)
		if !ok || ue.Op != token.AND {
			return nil, false
		}
		aid, ok := ue.X.(*ast.Ident)
		if !ok {
			return nil, false
		}
		av, ok := c.lookup(aid.Name)
		if !ok || !av.ty.same(gaRecT("Config")) {
			return nil, false
		}
		out = append(out, fmt.Sprintf("do %s <- cf_apply %s %s;", av.coq, fv.coq, av.coq))
		return out, true
	}
	return nil, false
}

func gaJoin(lines []string, last string) string {
	return strings.Join(append(append([]string{}, lines...), last), "\n")
}

func (t *gaTr) stmts(list []ast.Stmt, c gaCtx, k func(gaCtx) string) string {
	if len(list) == 0 {
		return k(c)
	}
	st, rest := list[0], list[1:]
	cont := func(c2 gaCtx) string { return t.stmts(rest, c2, k) }
	if lines, ok := t.simple(st, &c); ok {
		return gaJoin(lines, cont(c))
	}
	switch x := st.(type) {
	case *ast.ReturnStmt:
		if len(rest) != 0 {
			t.fail(st, "statements after return")
		}
		want := []*gaT{t.f.res}
		if t.f.res.k == "tuple" {
			want = t.f.res.parts
		}
		if t.f.usesRand && len(x.Results) == 1 && t.src(x.Results[0]) == "rand.Uint64()" && t.f.res.k == "u64" {
			return "let '(t_r, v_rand) := rand_Uint64 v_rand in\nOk (t_r, v_rand)"
		}
		if len(x.Results) != len(want) {
			t.fail(st, "return with %d values", len(x.Results))
			return "Panic"
		}
		var pre []string
		var vals []string
		for i, r := range x.Results {
			y, ty := t.expr(r, c, &pre)
			vals = append(vals, t.retCoerce(r, y, ty, want[i]))
		}
		vals = append(vals, t.retExtra(c)...)
		return gaJoin(pre, "Ok "+gaTuple(vals))
	case *ast.SwitchStmt:
		return t.switchStmt(x, c, cont)
	case *ast.IfStmt:
		return t.ifStmt(x, c, cont)
	case *ast.RangeStmt:
		return t.rangeStmt(x, c, cont)
	case *ast.ForStmt:
		return t.forStmt(x, c, cont)
	case *ast.TypeSwitchStmt:
		return t.typeSwitch(x, c, cont)
	case *ast.BlockStmt:
		return t.stmts(x.List, c, func(c2 gaCtx) string { return cont(c) })
	}
	t.fail(st, "statement outside the scheme: %s", strings.SplitN(t.src(st), "\n", 2)[0])
	return "Panic"
}

// retCoerce: a concrete icolumn.Column returned as a column.Column
func (t *gaTr) retCoerce(n ast.Node, text string, have, want *gaT) string {
	if have.k == "rec" && want.k == "col" && strings.HasSuffix(have.rec, "_Column") {
		if cp, ok := gaColPkgs[gaRecs[have.rec].pkg]; ok && cp.elem != "" {
			return fmt.Sprintf("(Some (%s_Column (ga_%s_data %s)))", cp.short, have.rec, text)
		}
	}
	if have.k == "rec" && want.k == "col" && (have.rec == "scolumn_Column" || have.rec == "ecolumn_Column") {
		return fmt.Sprintf("(Some (%s_AsColumn %s))", have.rec[:7], text)
	}
	if have.k == "rec" && want.k == "cmp" && strings.HasSuffix(have.rec, "_Comparable") {
		return fmt.Sprintf("(%s %s)", have.rec, text)
	}
	return t.coerce(n, text, have, want)
}

// retExtra: the final pointees of the *[]int parameters (value-result)
func (t *gaTr) retExtra(c gaCtx) []string {
	var out []string
	for _, p := range t.f.params {
		if p.ty.k == "buf" {
			out = append(out, p.coq)
		}
	}
	if t.f.usesRand {
		out = append(out, "v_rand")
	}
	return out
}

// switch e { case K1: .. case K2: .. default: .. } on an int with constant cases, every branch returning
func (t *gaTr) switchStmt(x *ast.SwitchStmt, c gaCtx, cont func(gaCtx) string) string {
	bad := func(why string) string {
		t.fail(x, "switch outside the scheme (%s)", why)
		return "Panic"
	}
	if x.Init != nil || x.Tag == nil {
		return bad("no tag")
	}
	var pre []string
	tag, tt := t.expr(x.Tag, c, &pre)
	if tt.k != "int" || len(pre) != 0 {
		return bad("the tag is not an int variable")
	}
	var conds, bodies []string
	def := ""
	hasDef := false
	for _, cl := range x.Body.List {
		cc := cl.(*ast.CaseClause)
		for _, st := range cc.Body {
			if _, isBr := st.(*ast.BranchStmt); isBr {
				return bad("break / fallthrough")
			}
		}
		if len(cc.Body) == 0 || !gaContainsReturn(cc) {
			return bad("a branch that does not return")
		}
		if _, ok := cc.Body[len(cc.Body)-1].(*ast.ReturnStmt); !ok {
			return bad("a branch that does not end in return")
		}
		body := t.stmts(cc.Body, c, func(c2 gaCtx) string { return "Panic" })
		if cc.List == nil {
			def, hasDef = body, true
			continue
		}
		if len(cc.List) != 1 {
			return bad("a case with several values")
		}
		var p2 []string
		k, tk := t.expr(cc.List[0], c, &p2)
		if tk.k != "int" || len(p2) != 0 {
			return bad("a case that is not an integer constant")
		}
		conds = append(conds, fmt.Sprintf("(%s =? %s)", tag, k))
		bodies = append(bodies, body)
	}
	if !hasDef {
		def = cont(c)
	} else if last := x.Body.List[len(x.Body.List)-1].(*ast.CaseClause); last.List != nil {
		return bad("default is not the last clause")
	}
	out := def
	for i := len(conds) - 1; i >= 0; i-- {
		out = fmt.Sprintf("if %s then\n%s\nelse\n%s", conds[i], gaIndent(bodies[i]), gaIndent(out))
	}
	return out
}

func gaElse(x *ast.IfStmt) ([]ast.Stmt, bool) {
	switch e := x.Else.(type) {
	case nil:
		return nil, true
	case *ast.BlockStmt:
		return e.List, true
	case *ast.IfStmt:
		return []ast.Stmt{e}, true
	}
	return nil, false
}

func (t *gaTr) ifStmt(x *ast.IfStmt, c gaCtx, cont func(gaCtx) string) string {
	els, ok := gaElse(x)
	if !ok {
		t.fail(x, "else outside the scheme")
		return "Panic"
	}
	outer := c
	var pre []string
	if x.Init != nil {
		lines, ok := t.simple(x.Init, &c)
		if !ok {
			t.fail(x, "if with an init statement outside the scheme")
			return "Panic"
		}
		as, ok := x.Init.(*ast.AssignStmt)
		if !ok || as.Tok != token.DEFINE {
			t.fail(x, "if with an init statement that is not a declaration")
			return "Panic"
		}
		for _, l := range as.Lhs {
			if id, ok := l.(*ast.Ident); ok && id.Name != "_" {
				if _, shadows := outer.lookup(id.Name); shadows {
					t.fail(x, "the init statement of an if shadows the variable %s", id.Name)
				}
			}
		}
		pre = append(pre, lines...)
	}
	cond, ty := t.expr(x.Cond, c, &pre)
	t.coerce(x.Cond, cond, ty, gaK("bool"))
	head := fmt.Sprintf("if %s then", cond)
	if gaContainsReturn(x) {
		back := func(c2 gaCtx) string { return cont(outer) }
		a := t.stmts(x.Body.List, c, back)
		b := t.stmts(els, c, back)
		return gaJoin(pre, fmt.Sprintf("%s\n%s\nelse\n%s", head, gaIndent(a), gaIndent(b)))
	}
	nodes := []ast.Node{x.Body}
	if x.Else != nil {
		nodes = append(nodes, x.Else)
	}
	res := t.assigned(outer, nodes...)
	if len(res) == 0 {
		t.fail(x, "an if without return that stores into no outer variable")
	}
	inner := c
	inner.top = false
	exit := func(c2 gaCtx) string { return "Ok " + gaTuple(gaCoqNames(res)) }
	a := t.stmts(x.Body.List, inner, exit)
	b := t.stmts(els, inner, exit)
	line := fmt.Sprintf("do %s <- (\n%s\n%s\n%s\n%s);", gaTuple(gaCoqNames(res)), gaIndent(head), gaIndent(gaIndent(a)), gaIndent("else"), gaIndent(gaIndent(b)))
	return gaJoin(pre, line+"\n"+cont(outer))
}

// the loop over the list xs of element type el; keyName / valName are the Coq names of the position and of the
// element ("" / "_" when unused)
func (t *gaTr) loop(x ast.Stmt, body *ast.BlockStmt, c, bodyCtx gaCtx, xs string, el *gaT, keyName, valName string, pre []string, cont func(gaCtx) string) string {
	hasRet := gaContainsReturn(body)
	res := t.assigned(c, body)
	if hasRet && !c.top {
		t.fail(x, "a loop with a return inside that is not at the top level of the function")
	}
	const hole = "@LOOPARGS@"
	bodyText := t.stmts(body.List, bodyCtx, func(c2 gaCtx) string {
		call := "loop l'"
		if keyName != "" {
			call += " (" + keyName + " + 1)"
		}
		return call + hole
	})
	var exit, rty string
	if hasRet {
		exit = cont(c)
		rty = t.resType()
	} else {
		exit = "Ok " + gaTuple(gaCoqNames(res))
		rty = gaTypeTuple(gaCoqTypes(res))
	}
	var params []gaVar
	isRes := map[string]bool{}
	for _, v := range res {
		isRes[v.coq] = true
	}
	seen := map[string]bool{}
	var flat []gaVar
	for i := len(c.vars) - 1; i >= 0; i-- {
		if !seen[c.vars[i].name] {
			seen[c.vars[i].name] = true
			flat = append([]gaVar{c.vars[i]}, flat...)
		}
	}
	for _, v := range flat {
		if isRes[v.coq] || gaMentions(bodyText, v.coq) || gaMentions(exit, v.coq) {
			params = append(params, v)
		}
	}
	args, sig, tys := "", "", ""
	for _, v := range params {
		args += " " + v.coq
		sig += fmt.Sprintf(" (%s : %s)", v.coq, v.ty.coq())
		tys += v.ty.coq() + " -> "
	}
	bodyText = strings.ReplaceAll(bodyText, hole, args)
	t.nloops++
	name := fmt.Sprintf("%s_loop%d", t.f.coq, t.nloops)
	keySig, keyTy, keyArg := "", "", ""
	if keyName != "" {
		keySig, keyTy, keyArg = " ("+keyName+" : Z)", "Z -> ", " 0"
	}
	var b strings.Builder
	fmt.Fprintf(&b, "Definition %s : list %s -> %s%soutcome %s :=\n", name, el.coq(), keyTy, tys, rty)
	fmt.Fprintf(&b, "  fix loop (l : list %s)%s%s {struct l} : outcome %s :=\n", el.coq(), keySig, sig, rty)
	fmt.Fprintf(&b, "  match l with\n  | [] =>\n%s\n  | %s :: l' =>\n%s\n  end.\n", gaIndent(gaIndent(exit)), valName, gaIndent(gaIndent(bodyText)))
	t.loops = append(t.loops, b.String())
	call := name + " " + xs + keyArg + args
	if hasRet {
		return gaJoin(pre, call)
	}
	return gaJoin(pre, fmt.Sprintf("do %s <- %s;\n%s", gaTuple(gaCoqNames(res)), call, cont(c)))
}

func (t *gaTr) resType() string {
	parts := []string{t.f.res.coq()}
	if t.f.res.k == "tuple" {
		parts = nil
		for _, p := range t.f.res.parts {
			parts = append(parts, p.coq())
		}
	}
	for _, p := range t.f.params {
		if p.ty.k == "buf" {
			parts = append(parts, p.ty.coq())
		}
	}
	if t.f.usesRand {
		parts = append(parts, "R")
	}
	return gaTypeTuple(parts)
}

func (t *gaTr) rangeStmt(x *ast.RangeStmt, c gaCtx, cont func(gaCtx) string) string {
	if x.Tok != token.DEFINE {
		t.fail(x, "range without :=")
		return "Panic"
	}
	var pre []string
	xs, tx := t.expr(x.X, c, &pre)
	if tx.k != "slice" {
		t.fail(x, "range over something that is not a slice: %s", t.src(x.X))
		return "Panic"
	}
	body := c
	body.top = false
	keyName, valName := "", "_"
	check := func(n ast.Expr) string {
		id, ok := n.(*ast.Ident)
		if !ok {
			t.fail(x, "range variable that is not an identifier")
			return "_"
		}
		if _, ok := c.lookup(id.Name); ok && id.Name != "_" {
			t.fail(x, "the range variable %s shadows a variable", id.Name)
		}
		return id.Name
	}
	if x.Key != nil {
		if n := check(x.Key); n != "_" {
			keyName = t.declare(x, &body, n, gaK("int"))
		}
	}
	if x.Value != nil {
		if n := check(x.Value); n != "_" {
			valName = t.declare(x, &body, n, tx.el)
			as, _ := gaAssignedNames(x.Body)
			if r := gaRootIdent(x.X); r != "" && as[r] {
				t.fail(x, "the body stores into the slice it ranges over by value")
			}
		}
	}
	return t.loop(x, x.Body, c, body, xs, tx.el, keyName, valName, pre, cont)
}

// for i := 0; i < e; i++ { body }
func (t *gaTr) forStmt(x *ast.ForStmt, c gaCtx, cont func(gaCtx) string) string {
	bad := func() string {
		t.fail(x, "a for loop that is not  for i := 0; i < e; i++  with e and i not stored into by the body")
		return "Panic"
	}
	init, ok := x.Init.(*ast.AssignStmt)
	if !ok || init.Tok != token.DEFINE || len(init.Lhs) != 1 || len(init.Rhs) != 1 || t.src(init.Rhs[0]) != "0" {
		return bad()
	}
	id, ok := init.Lhs[0].(*ast.Ident)
	if !ok || id.Name == "_" {
		return bad()
	}
	cond, ok := x.Cond.(*ast.BinaryExpr)
	if !ok || cond.Op != token.LSS || t.src(cond.X) != id.Name {
		return bad()
	}
	post, ok := x.Post.(*ast.IncDecStmt)
	if !ok || post.Tok != token.INC || t.src(post.X) != id.Name {
		return bad()
	}
	if _, shadows := c.lookup(id.Name); shadows {
		return bad()
	}
	as, decl := gaAssignedNames(x.Body)
	if as[id.Name] || decl[id.Name] {
		return bad()
	}
	okBound := true
	ast.Inspect(cond.Y, func(m ast.Node) bool {
		switch e := m.(type) {
		case *ast.Ident:
			if as[e.Name] || as["*"+e.Name] || decl[e.Name] {
				okBound = false
			}
		case *ast.CallExpr:
			if t.src(e.Fun) != "len" {
				okBound = false
			}
		}
		return true
	})
	if !okBound {
		return bad()
	}
	var pre []string
	n, tn := t.expr(cond.Y, c, &pre)
	t.coerce(cond.Y, n, tn, gaK("int"))
	if len(pre) != 0 {
		return bad()
	}
	body := c
	body.top = false
	valName := t.declare(x, &body, id.Name, gaK("int"))
	return t.loop(x, x.Body, c, body, "(ga_iota "+n+")", gaK("int"), "", valName, pre, cont)
}

// switch v := e.(type) { case string: .. case func([]int) int: .. default: .. } with e of type interface{}
func (t *gaTr) typeSwitch(x *ast.TypeSwitchStmt, c gaCtx, cont func(gaCtx) string) string {
	bad := func(why string) string {
		t.fail(x, "type switch outside the scheme (%s)", why)
		return "Panic"
	}
	as, ok := x.Assign.(*ast.AssignStmt)
	if !ok || x.Init != nil || as.Tok != token.DEFINE || len(as.Lhs) != 1 || len(as.Rhs) != 1 {
		return bad("it must bind a variable")
	}
	id, ok := as.Lhs[0].(*ast.Ident)
	ta, ok2 := as.Rhs[0].(*ast.TypeAssertExpr)
	if !ok || !ok2 || ta.Type != nil {
		return bad("it must bind a variable")
	}
	if _, shadows := c.lookup(id.Name); shadows {
		return bad("the bound variable shadows a variable")
	}
	var pre []string
	scrut, ts := t.expr(ta.X, c, &pre)
	if ts.k != "fn" || len(pre) != 0 {
		return bad("the value is not an interface{} variable")
	}
	if !gaContainsReturn(x) {
		return bad("no branch returns")
	}
	branches := map[string]string{}
	for _, cl := range x.Body.List {
		cc := cl.(*ast.CaseClause)
		key, ty := "", (*gaT)(nil)
		switch {
		case cc.List == nil:
			key, ty = "ga_FnOther", gaK("fn")
		case len(cc.List) == 1 && t.src(cc.List[0]) == "string":
			key, ty = "ga_FnString", gaK("string")
		case len(cc.List) == 1 && gaResolve(t.f.spec.pkg, t.src(cc.List[0])).k == "func":
			key, ty = "ga_FnFunc", gaResolve(t.f.spec.pkg, t.src(cc.List[0]))
		default:
			return bad("a case that is not string, func([]T) T for the element type T of the package, or default")
		}
		if _, dup := branches[key]; dup {
			return bad("a case occurs twice")
		}
		inner := c
		name := t.declare(cc, &inner, id.Name, ty)
		body := t.stmts(cc.Body, inner, func(c2 gaCtx) string { return cont(c) })
		if key == "ga_FnOther" {
			branches[key] = fmt.Sprintf("| ga_FnOther =>\n%s", gaIndent(fmt.Sprintf("let %s := %s in\n%s", name, scrut, body)))
		} else {
			branches[key] = fmt.Sprintf("| %s %s =>\n%s", key, name, gaIndent(body))
		}
	}
	if _, has := branches["ga_FnOther"]; !has {
		branches["ga_FnOther"] = "| ga_FnOther =>\n" + gaIndent(cont(c))
	}
	for _, k := range []string{"ga_FnString", "ga_FnFunc"} {
		if _, has := branches[k]; !has {
			branches[k] = fmt.Sprintf("| %s _ =>\n%s", k, gaIndent(branches["ga_FnOther"][len("| ga_FnOther =>\n"):]))
		}
	}
	tag := gaColPkgs[t.f.spec.pkg].elem
	if tag == "" {
		tag = "string"
	}
	return fmt.Sprintf("match fn_cases_"+tag+" %s with\n%s\n%s\n%s\nend", scrut, branches["ga_FnString"], branches["ga_FnFunc"], branches["ga_FnOther"])
}

// gaTable translates a package level  var name = map[string]func([]int) int{"k": f, ..}
func gaTable(p *pkgInfo, f *gaFunc) {
	e, ok := p.vars[f.spec.fn]
	cl, isLit := e.(*ast.CompositeLit)
	elem := gaColPkgs[f.spec.pkg].elem
	fty := gaResolve(f.spec.pkg, "func([]"+elem+") "+elem)
	if !ok || !isLit || elem == "" || gaSrc(p.fset, cl.Type) != "map[string]func([]"+elem+") "+elem {
		problem("aggregate translation: the table %s of %s is not a map[string]func([]T) T literal", f.spec.fn, f.spec.pkg)
		return
	}
	var entries []string
	good := true
	for _, el := range cl.Elts {
		kv, ok := el.(*ast.KeyValueExpr)
		if !ok {
			good = false
			continue
		}
		k, okk := stringOf(p, kv.Key)
		id, okv := kv.Value.(*ast.Ident)
		if !okk || !okv {
			good = false
			continue
		}
		g := gaFuncs[f.spec.pkg+":"+id.Name]
		if g == nil || !g.done || g.fd == nil || g.recv != nil || len(g.params) != 1 || !g.params[0].ty.same(gaSlice(fty.el)) || !g.res.same(fty.el) {
			good = false
			continue
		}
		entries = append(entries, fmt.Sprintf("  (%s, %s)", coqBytes(k), g.coq))
	}
	if !good {
		problem("aggregate translation: an entry of the table %s of %s is outside the scheme", f.spec.fn, f.spec.pkg)
		return
	}
	f.res = gaMap(fty)
	f.text = fmt.Sprintf("(* %s\nvar %s = %s *)\nDefinition %s : list (bytes * %s) := [\n%s\n].\n", f.spec.pkg, f.spec.fn, gaClean(gaSrc(p.fset, cl)), f.coq, fty.coq(), strings.Join(entries, ";\n"))
	f.ok = true
}

// ------------------------------------------------------------------ functions

func gaCoqName(sp gaSpec) string {
	n := strings.ReplaceAll(sp.fn, ".", "_")
	switch sp.pkg {
	case gaRoot:
		return "ga_" + n
	}
	return "ga_" + sp.pkg[strings.LastIndex(sp.pkg, "/")+1:] + "_" + n
}

func gaSignature(p *pkgInfo, f *gaFunc) bool {
	t := &gaTr{p: p, f: f}
	fd := f.fd
	if fd.Recv != nil {
		if len(fd.Recv.List) != 1 || len(fd.Recv.List[0].Names) != 1 {
			t.fail(fd, "receiver outside the scheme")
			return false
		}
		ty := t.resolve(fd.Recv.List[0].Type)
		name := fd.Recv.List[0].Names[0].Name
		f.recv = &gaVar{name, "v_" + name, ty}
	}
	for _, fl := range fd.Type.Params.List {
		ty := t.resolve(fl.Type)
		for _, n := range fl.Names {
			f.params = append(f.params, gaVar{n.Name, "v_" + n.Name, ty})
		}
		if len(fl.Names) == 0 {
			t.fail(fd, "parameter without name")
		}
	}
	if fd.Type.Results == nil || len(fd.Type.Results.List) == 0 {
		t.fail(fd, "the function has no result")
		return false
	}
	var parts []*gaT
	for _, fl := range fd.Type.Results.List {
		if len(fl.Names) != 0 {
			t.fail(fd, "named results")
		}
		parts = append(parts, t.resolve(fl.Type))
	}
	if len(parts) == 1 {
		f.res = parts[0]
	} else {
		f.res = gaTupleT(parts...)
	}
	return !t.bad
}

func gaSource(p *pkgInfo, fd *ast.FuncDecl) string {
	cp := *fd
	cp.Doc = nil
	return gaClean(gaSrc(p.fset, &cp))
}

func gaTranslate(p *pkgInfo, f *gaFunc) {
	t := &gaTr{p: p, f: f, addrOf: map[string]bool{}}
	ast.Inspect(f.fd.Body, func(m ast.Node) bool {
		if ue, ok := m.(*ast.UnaryExpr); ok && ue.Op == token.AND {
			if id, ok := ue.X.(*ast.Ident); ok {
				t.addrOf[id.Name] = true
			}
		}
		return true
	})
	c := gaCtx{top: true}
	var sig []string
	if f.recv != nil {
		c.vars = append(c.vars, *f.recv)
		sig = append(sig, fmt.Sprintf("(%s : %s)", f.recv.coq, f.recv.ty.coq()))
	}
	for _, v := range f.params {
		c.vars = append(c.vars, v)
		sig = append(sig, fmt.Sprintf("(%s : %s)", v.coq, v.ty.coq()))
	}
	if strings.Contains(gaSrc(p.fset, f.fd.Body), "rand.") {
		f.usesRand = true
		sig = append(sig, "(v_rand : R)")
	}
	body := t.stmts(f.fd.Body.List, c, func(c2 gaCtx) string {
		t.fail(f.fd, "the function can fall off its end")
		return "Panic"
	})
	var b strings.Builder
	pk := f.spec.pkg
	if pk == gaRoot {
		pk = "qframe"
	}
	fmt.Fprintf(&b, "(* %s\n%s *)\n", pk, gaSource(p, f.fd))
	for _, l := range t.loops {
		b.WriteString(l)
	}
	sep := " "
	if len(sig) == 0 {
		sep = ""
	}
	fmt.Fprintf(&b, "Definition %s%s%s : outcome %s :=\n%s.\n", f.coq, sep, strings.Join(sig, " "), t.resType(), gaIndent(body))
	f.text = b.String()
	f.ok = !t.bad
}

func gaGoldenBlock(golden, name string) (string, bool) {
	b := "(* BEGIN " + name + " *)\n"
	e := "(* END " + name + " *)\n"
	i := strings.Index(golden, b)
	if i < 0 {
		return "", false
	}
	j := strings.Index(golden[i:], e)
	if j < 0 {
		return "", false
	}
	return golden[i+len(b) : i+j], true
}

func genAggr() string {
	gaFuncs = map[string]*gaFunc{}
	gaRecs = map[string]*gaRec{}
	// the vocabulary
	for _, v := range gaVocabulary {
		vp := loadPkg(v.pkg)
		fd, ok := vp.funcs[v.fn]
		if !ok || fd.Body == nil {
			problem("aggregate translation: %s not found in %s", v.fn, v.pkg)
			continue
		}
		cp := *fd
		cp.Doc = nil
		if !strings.Contains(v.text, "{\n") {
			cp.Body = nil
		}
		if gaSrc(vp.fset, &cp) != v.text {
			problem("aggregate translation: %s of %s is not the text the fixed vocabulary of the translation stands for", v.fn, v.pkg)
		}
	}
	for _, v := range gaTypeTexts {
		vp := loadPkg(v.pkg)
		e, ok := gaFindType(vp, v.name)
		if !ok || !strings.Contains(gaSrc(vp.fset, e), v.text) {
			problem("aggregate translation: type %s of %s is not the one the translation stands for (%s)", v.name, v.pkg, v.text)
		}
	}
	golden := ""
	if fl := flag.Lookup("golden"); fl != nil && fl.Value.String() != "" {
		if gb, err := os.ReadFile(filepath.Join(fl.Value.String(), "GenAggr.v")); err == nil {
			golden = string(gb)
		}
	}
	var b strings.Builder
	b.WriteString(gaPreamble)
	block := func(name, text string, ok bool) {
		if !ok {
			old, found := gaGoldenBlock(golden, name)
			if !found {
				return
			}
			text = "(* FALLBACK " + name + ": not derivable from the current source; text of the last validated tree *)\n" + old
		}
		fmt.Fprintf(&b, "(* BEGIN %s *)\n%s(* END %s *)\n\n", name, text, name)
	}
	for _, sp := range gaRecSpecs {
		r := gaLoadRec(sp)
		gaRecs[r.name] = r
		block("ga_"+r.name, r.text(), r.ok)
	}
	b.WriteString("Variable cf_apply : CF -> ga_Config -> outcome ga_Config.   (* f(&config) for a groupby.ConfigFunc f: the new config *)\n")
	for _, sh := range []string{"icolumn", "fcolumn", "bcolumn", "scolumn", "ecolumn"} {
		fmt.Fprintf(&b, "Variable %s_Comparable : ga_%s_Comparable -> K.   (* an %s.Comparable as a column.Comparable *)\n", sh, sh, sh)
	}
	b.WriteString("Variable scolumn_AsColumn : ga_scolumn_Column -> C.   (* an scolumn.Column as a column.Column *)\n")
	b.WriteString("Variable ecolumn_AsColumn : ga_ecolumn_Column -> C.   (* an ecolumn.Column as a column.Column *)\n")
	b.WriteString("\n")
	if cp := loadPkg("internal/column"); true {
		found := false
		for _, f := range cp.files {
			for _, d := range f.Decls {
				if gd, ok := d.(*ast.GenDecl); ok && gd.Tok == token.CONST {
					cpd := *gd
					cpd.Doc = nil
					var names []string
					for _, sp := range cpd.Specs {
						vs := sp.(*ast.ValueSpec)
						for _, n := range vs.Names {
							names = append(names, n.Name)
						}
						if len(vs.Values) == 1 && (len(names) != 1 || gaSrc(cp.fset, vs.Values[0]) != "iota" || vs.Type == nil || gaSrc(cp.fset, vs.Type) != "CompareResult") {
							names = append(names, "?")
						}
					}
					if strings.Join(names, " ") == "LessThan GreaterThan Equal NotEqual" {
						found = true
					}
				}
			}
		}
		if !found {
			problem("aggregate translation: the constants of column.CompareResult are not LessThan, GreaterThan, Equal, NotEqual = iota ..")
		}
	}
	for _, sp := range gaSpecs {
		f := &gaFunc{spec: sp, coq: gaCoqName(sp)}
		gaFuncs[sp.pkg+":"+sp.fn] = f
		p := loadPkg(sp.pkg)
		if _, isVar := p.vars[sp.fn]; isVar {
			gaTable(p, f)
			f.done = true
			block(f.coq, f.text, f.ok)
			continue
		}
		fd, ok := p.funcs[sp.fn]
		if !ok || fd.Body == nil {
			problem("aggregate translation: function %s not found in %s", sp.fn, sp.pkg)
		} else {
			f.fd = fd
			if !gaSignature(p, f) {
				f.fd = nil
			}
		}
		if f.fd != nil {
			gaTranslate(p, f)
		}
		f.done = true
		block(f.coq, f.text, f.ok)
	}
	b.WriteString("End GenAggr.\n")
	return b.String()
}
