package main

// Translation of the hash table of internal/grouper/grouper.go into Gallina (coq/Gen/GenGrouper.v, tie T1 for
// the grouper).
//
// The struct types tableEntry, GroupStats, table become records, the functions listed in ggSpecs are translated
// statement by statement into state-passing definitions gg_<name>.  coq/Proofs/GenGrouperProofs.v proves every
// generated definition equal to the hand-written loop-for-loop model of coq/Model/Grouper.v, so that an edit of
// grouper.go changes the generated text and breaks a named theorem T1_grouper_<name> of coq/Properties/T1.v,
// while the theorems of C04 / C05 keep talking about the model.
//
// THE SCHEME (anything that does not fit is reported through problem(...); the block then keeps the text of the
// golden copy, marked FALLBACK, so that the development still builds — the exit status says the tie is broken).
//
//	row ids     The table never looks inside a row id: it stores ids, hands them to t.hash(i) and to
//	            equals(t.comparables, i, j), and appends them to slices.  In Go they are uint32 like the hash
//	            values; the translator has a finer type: the places listed in ggIdPlaces (and the elements of
//	            index.Int) have the ABSTRACT type A of the generated section, and the translator type-checks
//	            that an id is never used as a number (no arithmetic, comparison or conversion) nor a number as
//	            an id.  id0 : A stands for the zero value of an id.
//	comparables The fields / arguments of type []column.Comparable are dropped.  Their only uses are
//	              t.hash(i)                       -> gg_hash i = uint32(hash i)   (hash : A -> N, the uint64 fold)
//	              equals(t.comparables, i, j)     -> eqb i j
//	            with hash and eqb ARBITRARY functions (section variables); the bodies of table.hash and equals
//	            are compared with the text this vocabulary stands for (ggVocabulary), as is integer.Pow2
//	            (gg_Pow2 e = 2^e: int(math.Pow(2, e)) is exact for the exponents 0..62).
//	records     struct -> Record gg_<T> with one projection gg_<T>_<field>, one setter gg_<T>_set_<field> per
//	            field and the zero value gg_<T>_zero; generated from the type declarations.
//	integers    -> Z.  uint32 / uint64 arithmetic (+ - *) wraps explicitly (gu32 / gu64 of GenFuncs.v), Go int
//	            arithmetic is exact (a position, a length or a counter: overflow of int is outside the
//	            translation as it is outside the model); the conversions the source writes, uint32(e),
//	            uint64(e), int(e) ARE the wraps gu32 / gu64 / gs64; & is Z.land; x > y is (y <? x).
//	float64     table.loadFactor is the only float.  It is translated as an exact fraction (num, den) : Z * Z:
//	              float64(n) -> (n, 1);  a / b -> gg_fdiv a b (cross multiplication);  a > b -> gg_fgt a b;
//	              an untyped constant -> its exact fraction (0.5 -> (1, 2)).
//	            Justification (trusted, cf. the header of Model/Grouper.v): loadFactor is only ever assigned
//	            float64(groupCount)/float64(len(entries)) and loadFactor/growthFactor where len(entries) is a
//	            power of two <= 2^32 and groupCount < 2^32: the quotient of an integer below 2^53 by a power of
//	            two is representable in binary64 (lemma gg_load_factor_representable of GenGrouperProofs.v), so
//	            both divisions and the comparison with 0.5 are exact.
//	slices      []T -> list T; nil and the empty slice are both [] (x == nil is translated as emptiness; the
//	            translator checks that every slice stored in a field is a composite literal with at least one
//	            element or the result of append, so an empty non-nil slice never reaches such a test).
//	            make([]T, n [, c]) -> gg_make zero n c (Panic for a negative length or c < n);
//	            s[i] -> gg_index s i and s[i] = v -> gg_update s i v (Panic outside the range);
//	            append(s, x) -> s ++ [x]; index.Int{a, b} -> [a; b]; len(s) -> Z.of_nat (length s).
//	pointers    *table (the receiver, or the result of newTable) is the table value itself, threaded through
//	            (a method with pointer receiver answers the new table last).  A *tableEntry is nil or the address
//	            of an element of t.entries of the receiver t: option nat (None = nil, Some p = &t.entries[p]);
//	              &t.entries[pos] -> gg_addr (entries t) pos        (Panic outside the range)
//	              p.f             -> do e <- gg_load t p; .. f e ..  (Panic for nil; one load per statement)
//	              p.f = v         -> do t <- gg_store t p (fun e => set_f e v)
//	              p == nil        -> gg_isnil_ptr p
//	            This is exact as long as t.entries is not replaced while such a pointer is alive; the translator
//	            checks that a function that declares a *tableEntry variable assigns t.entries / calls a method
//	            of t only BEFORE the first such declaration.
//	results     every function takes (fuel : nat) first, then its arguments (the receiver first); it answers
//	            outcome (r1 * .. * rn [* table]).  Panic = Go panic OR fuel used up.
//	fuel        gg_f fuel .. = match fuel with O => Panic | S fuel' => body end.  Inside body every for loop is
//	            entered with the budget fuel' (each entry afresh), every call of a translated function gets fuel'.
//	statements  x := e; var x T; x = e; x.f.g = e; x++; a, b := f(..); x.m(..)   -> let .. in / do .. <- ..;
//	conditions  && and || are if-then-else (Go's short circuit); an operation that can panic may not stand to
//	            the right of && / || (a second use of an already loaded pointer may).
//	if          (no return / break inside) do (assigned outer variables) <- (if c then ..; Ok (..) else ..); rest
//	            an if with a break inside continues the rest of the block in the branches that fall through.
//	for         for init; cond; post { body }: the init statement, then a Fixpoint gg_f_loopN over its own
//	            counter k (O => Panic), numbered in order of completion, taking [fuel'] k and the variables it
//	            mentions and answering the outer variables it assigns; break = exit.
//	range       for _, e := range X { body }: a Fixpoint gg_f_loopN over the list X (evaluated once, as Go does),
//	            structurally recursive (no fuel of its own), [] => exit.
//	rejected    return inside a loop, continue, goto, labels, switch, defer, closures, shadowing, range with an
//	            index variable, maps, everything else.

import (
	"bytes"
	"flag"
	"fmt"
	"go/ast"
	"go/printer"
	"go/token"
	"math/big"
	"os"
	"path/filepath"
	"strings"
)

const ggPkg = "internal/grouper"

// in dependency order (a callee before its callers)
var ggSpecs = []string{"table.grow", "table.insertEntry", "newTable", "groupIndex", "GroupBy", "Distinct"}

// the structs that become records, in dependency order
var ggStructs = []string{"tableEntry", "GroupStats", "table"}

// the uint32 places that hold row ids ("Struct.field" or "function.parameter")
var ggIdPlaces = map[string]bool{
	"tableEntry.firstPos": true,
	"table.insertEntry.i": true,
}

// the text the fixed vocabulary stands for (bodies printed by go/printer)
var ggVocabulary = []struct{ pkg, fn, body string }{
	{ggPkg, "table.hash", "{\n\thashVal := uint64(0)\n\tfor _, c := range t.comparables {\n\t\thashVal = c.Hash(i, hashVal)\n\t}\n\n\treturn uint32(hashVal)\n}"},
	{ggPkg, "equals", "{\n\tfor _, c := range comparables {\n\t\tif c.Compare(i, j) != column.Equal {\n\t\t\treturn false\n\t\t}\n\t}\n\treturn true\n}"},
	{"internal/math/integer", "Pow2", "{\n\treturn int(math.Pow(2, float64(exp)))\n}"},
}

const ggPreamble1 = `(* GENERATED by tools/qf2coq (grouper.go) from internal/grouper/grouper.go of tobgu/qframe — do not edit.
   One Record per struct, one definition gg_<function> per translated Go function, one Fixpoint
   gg_<function>_loopN per loop; the scheme is described at the top of tools/qf2coq/grouper.go.
   A is the abstract type of row ids (id0 its zero value), eqb i j stands for equals(t.comparables, i, j),
   hash i for the uint64 fold of c.Hash(i, .) over the comparables; integers are Z (uint32 / uint64 arithmetic
   wrapped by gu32 / gu64, Go int exact), float64 is an exact fraction (num, den); every function takes fuel
   first: O => Panic, S fuel' => the body, whose for loops and calls all get fuel'. *)
From QF Require Import Base.Prelude Gen.GenFuncs.
Local Open Scope Z_scope.

(* float64 as an exact fraction: float64(n), a / b, a > b *)
Definition gg_float (n : Z) : Z * Z := (n, 1).
Definition gg_fdiv (a b : Z * Z) : Z * Z := (fst a * snd b, snd a * fst b).
Definition gg_fgt (a b : Z * Z) : bool := (fst b * snd a <? fst a * snd b).
(* integer.Pow2 *)
Definition gg_Pow2 (e : Z) : Z := 2 ^ e.
(* make([]T, n, c), s[i], s[i] = v, x == nil *)
Definition gg_make {T : Type} (zero : T) (n c : Z) : outcome (list T) :=
  if (n <? 0) || (c <? n) then Panic else Ok (repeat zero (Z.to_nat n)).
Definition gg_index {T : Type} (s : list T) (i : Z) : outcome T :=
  if i <? 0 then Panic else idx s (Z.to_nat i).
Definition gg_update {T : Type} (s : list T) (i : Z) (v : T) : outcome (list T) :=
  if i <? 0 then Panic else do _ <- idx s (Z.to_nat i); Ok (set_nth s (Z.to_nat i) v).
Definition gg_isnil {T : Type} (s : list T) : bool := match s with [] => true | _ :: _ => false end.
(* &s[i], p == nil *)
Definition gg_addr {T : Type} (s : list T) (i : Z) : outcome (option nat) :=
  do _ <- gg_index s i; Ok (Some (Z.to_nat i)).
Definition gg_isnil_ptr (p : option nat) : bool := match p with None => true | Some _ => false end.

`

const ggPreamble2 = `
Section GenGrouper.
Context {A : Type}.
Variable id0 : A.
Variable eqb : A -> A -> bool.
Variable hash : A -> N.

(* t.hash(i): uint32 of the fold of c.Hash(i, .) over the comparables *)
Definition gg_hash (i : A) : Z := gu32 (Z.of_N (hash i)).
(* p.f and p.f = v for p : *tableEntry pointing into t.entries *)
Definition gg_load (t : gg_table A) (p : option nat) : outcome (gg_tableEntry A) :=
  match p with None => Panic | Some q => idx (gg_table_entries t) q end.
Definition gg_store (t : gg_table A) (p : option nat) (f : gg_tableEntry A -> gg_tableEntry A) : outcome (gg_table A) :=
  match p with
  | None => Panic
  | Some q => do e <- idx (gg_table_entries t) q; Ok (gg_table_set_entries t (set_nth (gg_table_entries t) q (f e)))
  end.

`

// ------------------------------------------------------------------ types

type ggT struct {
	k        string // int bool id float ids idss entry entries pentry table stats comparables const nil unit
	bits     int    // int: 32 / 64 for uint32 / uint64, 0 for Go int
	val      *big.Rat
	tuple    []*ggT
	sname    string // struct name for entry / table / stats
	nonempty bool   // a slice value that is known not to be empty (composite literal, append)
}

var (
	ggInt    = &ggT{k: "int"}
	ggU32    = &ggT{k: "int", bits: 32}
	ggU64    = &ggT{k: "int", bits: 64}
	ggBool   = &ggT{k: "bool"}
	ggId     = &ggT{k: "id"}
	ggFloat  = &ggT{k: "float"}
	ggIds    = &ggT{k: "ids"}
	ggIdss   = &ggT{k: "idss"}
	ggEntry  = &ggT{k: "entry", sname: "tableEntry"}
	ggEntrs  = &ggT{k: "entries"}
	ggPentry = &ggT{k: "pentry"}
	ggTable  = &ggT{k: "table", sname: "table"}
	ggStats  = &ggT{k: "stats", sname: "GroupStats"}
	ggComps  = &ggT{k: "comparables"}
	ggNil    = &ggT{k: "nil"}
	ggBad    = &ggT{k: "bad"}
)

func (t *ggT) same(u *ggT) bool { return t.k == u.k && t.bits == u.bits }

func (t *ggT) coq() string {
	switch t.k {
	case "int":
		return "Z"
	case "bool":
		return "bool"
	case "id":
		return "A"
	case "float":
		return "(Z * Z)"
	case "ids":
		return "(list A)"
	case "idss":
		return "(list (list A))"
	case "entry":
		return "(gg_tableEntry A)"
	case "entries":
		return "(list (gg_tableEntry A))"
	case "pentry":
		return "(option nat)"
	case "table":
		return "(gg_table A)"
	case "stats":
		return "gg_GroupStats"
	}
	return "BAD"
}

func (t *ggT) zero() string {
	switch t.k {
	case "int":
		return "0"
	case "bool":
		return "false"
	case "id":
		return "id0"
	case "float":
		return "(gg_float 0)"
	case "ids", "idss", "entries":
		return "[]"
	case "pentry":
		return "None"
	case "entry":
		return "(gg_tableEntry_zero id0)"
	case "stats":
		return "gg_GroupStats_zero"
	case "table":
		return "(gg_table_zero id0)"
	}
	return "BAD"
}

func (t *ggT) goName() string {
	if t.k == "int" {
		switch t.bits {
		case 32:
			return "uint32"
		case 64:
			return "uint64"
		}
		return "int"
	}
	return t.k
}

type ggField struct {
	name string
	t    *ggT
}

type ggStruct struct {
	name   string
	fields []ggField
	needA  bool
	ok     bool
}

var ggStructTab map[string]*ggStruct

func ggSrc(fset *token.FileSet, n ast.Node) string {
	var b bytes.Buffer
	printer.Fprint(&b, fset, n)
	return b.String()
}

// ggResolve maps a Go type expression to a translation type; place is "Struct.field" or "func.param".
func ggResolve(p *pkgInfo, e ast.Expr, place string) *ggT {
	switch ggSrc(p.fset, e) {
	case "uint32":
		if ggIdPlaces[place] {
			return ggId
		}
		return ggU32
	case "uint64":
		return ggU64
	case "int":
		return ggInt
	case "bool":
		return ggBool
	case "float64":
		return ggFloat
	case "index.Int":
		return ggIds
	case "[]index.Int":
		return ggIdss
	case "tableEntry":
		return ggEntry
	case "[]tableEntry":
		return ggEntrs
	case "*tableEntry":
		return ggPentry
	case "*table":
		return ggTable
	case "GroupStats":
		return ggStats
	case "[]column.Comparable":
		return ggComps
	}
	return ggBad
}

func ggLoadStructs(p *pkgInfo) {
	ggStructTab = map[string]*ggStruct{}
	decls := map[string]*ast.StructType{}
	for _, f := range p.files {
		for _, d := range f.Decls {
			gd, ok := d.(*ast.GenDecl)
			if !ok || gd.Tok != token.TYPE {
				continue
			}
			for _, s := range gd.Specs {
				ts := s.(*ast.TypeSpec)
				if st, ok := ts.Type.(*ast.StructType); ok {
					decls[ts.Name.Name] = st
				}
			}
		}
	}
	for _, name := range ggStructs {
		s := &ggStruct{name: name, ok: true}
		ggStructTab[name] = s
		st, ok := decls[name]
		if !ok {
			problem("internal/grouper/grouper.go translation: struct %s not found", name)
			s.ok = false
			continue
		}
		for _, fl := range st.Fields.List {
			if len(fl.Names) == 0 {
				problem("internal/grouper/grouper.go translation: struct %s has an embedded field", name)
				s.ok = false
			}
			for _, n := range fl.Names {
				t := ggResolve(p, fl.Type, name+"."+n.Name)
				if t.k == "bad" || t.k == "table" || t.k == "pentry" {
					problem("internal/grouper/grouper.go translation: field %s.%s has a type that is not understood: %s", name, n.Name, ggSrc(p.fset, fl.Type))
					s.ok = false
					continue
				}
				if t.k == "comparables" {
					continue
				}
				if t.k == "stats" && !ggStructTab["GroupStats"].ok {
					s.ok = false
				}
				switch t.k {
				case "id", "ids", "idss", "entry", "entries":
					s.needA = true
				}
				s.fields = append(s.fields, ggField{n.Name, t})
			}
		}
	}
}

func (s *ggStruct) field(name string) (*ggT, bool) {
	for _, f := range s.fields {
		if f.name == name {
			return f.t, true
		}
	}
	return nil, false
}

func (s *ggStruct) tyApp() string {
	if s.needA {
		return "(gg_" + s.name + " A)"
	}
	return "gg_" + s.name
}

// record text of one struct
func (s *ggStruct) record(p *pkgInfo) string {
	var b strings.Builder
	par, imp := "", ""
	if s.needA {
		par, imp = " (A : Type)", " {A}"
	}
	fmt.Fprintf(&b, "Record gg_%s%s := gg_mk_%s {\n", s.name, par, s.name)
	for i, f := range s.fields {
		sep := ";"
		if i == len(s.fields)-1 {
			sep = " }."
		}
		fmt.Fprintf(&b, "  gg_%s_%s : %s%s\n", s.name, f.name, f.t.coq(), sep)
	}
	if s.needA {
		fmt.Fprintf(&b, "Arguments gg_mk_%s {A}.\n", s.name)
		for _, f := range s.fields {
			fmt.Fprintf(&b, "Arguments gg_%s_%s {A}.\n", s.name, f.name)
		}
	}
	for i, f := range s.fields {
		var args []string
		for j, g := range s.fields {
			if i == j {
				args = append(args, "v")
			} else {
				args = append(args, "(gg_"+s.name+"_"+g.name+" r)")
			}
		}
		fmt.Fprintf(&b, "Definition gg_%s_set_%s%s (r : %s) (v : %s) : %s :=\n  gg_mk_%s %s.\n", s.name, f.name, imp, s.tyApp(), f.t.coq(), s.tyApp(), s.name, strings.Join(args, " "))
	}
	var zs []string
	needId := false
	for _, f := range s.fields {
		z := f.t.zero()
		if strings.Contains(z, "id0") {
			needId = true
		}
		zs = append(zs, z)
	}
	idArg := ""
	if s.needA {
		idArg = " {A} (id0 : A)"
		_ = needId
	}
	fmt.Fprintf(&b, "Definition gg_%s_zero%s : %s :=\n  gg_mk_%s %s.\n", s.name, idArg, s.tyApp(), s.name, strings.Join(zs, " "))
	return b.String()
}

// ------------------------------------------------------------------ translation context

type ggVar struct {
	name string
	t    *ggT
}

type ggFunc struct {
	goName  string
	short   string
	coq     string
	fd      *ast.FuncDecl
	recv    string  // Go name of the *table receiver, "" = none
	params  []ggVar // without the receiver and without the dropped ones
	dropped []bool  // per Go parameter: dropped (comparables)
	results []*ggT
	done    bool
	ok      bool
	text    string
}

var ggFuncs map[string]*ggFunc

type ggCtx struct {
	vars   []ggVar
	brk    func(c ggCtx) string // meaning of break; nil = not inside a loop
	inLoop bool
}

type ggTr struct {
	p       *pkgInfo
	f       *ggFunc
	loops   []string
	bad     bool
	ntmp    int
	loads   map[string]string // *tableEntry variable -> temporary holding the loaded entry (one statement)
	ptrSeen bool              // a *tableEntry variable has been declared
}

func (t *ggTr) fail(n ast.Node, format string, a ...interface{}) {
	pos := ""
	if n != nil {
		pos = t.p.fset.Position(n.Pos()).String() + ": "
	}
	problem("internal/grouper/grouper.go translation, function %s: %s%s", t.f.goName, pos, fmt.Sprintf(format, a...))
	t.bad = true
}

func (t *ggTr) src(n ast.Node) string { return ggSrc(t.p.fset, n) }

func (t *ggTr) tmp() string {
	t.ntmp++
	return fmt.Sprintf("t%d", t.ntmp)
}

func (c ggCtx) lookup(name string) (ggVar, bool) {
	for i := len(c.vars) - 1; i >= 0; i-- {
		if c.vars[i].name == name {
			return c.vars[i], true
		}
	}
	return ggVar{}, false
}

// the table variable pointers point into: the receiver
func (t *ggTr) base(n ast.Node) string {
	if t.f.recv == "" {
		t.fail(n, "a *tableEntry is used in a function without *table receiver")
		return "v_BAD"
	}
	return "v_" + t.f.recv
}

// ------------------------------------------------------------------ expressions

func ggRatText(v *big.Rat) string {
	return "(" + v.Num().String() + ", " + v.Denom().String() + ")"
}

// coerce an untyped constant to the type of the other operand
func (t *ggTr) coerce(n ast.Node, text string, ty *ggT, want *ggT) (string, *ggT) {
	if ty.k != "const" {
		return text, ty
	}
	switch want.k {
	case "int":
		if !ty.val.IsInt() || ty.val.Sign() < 0 {
			t.fail(n, "constant %s used as %s", ty.val.String(), want.goName())
			return "0", want
		}
		if want.bits > 0 && ty.val.Num().BitLen() > want.bits {
			t.fail(n, "constant %s overflows %s", ty.val.String(), want.goName())
		}
		return ty.val.Num().String(), want
	case "float":
		return ggRatText(ty.val), want
	}
	t.fail(n, "constant %s in a context of type %s", ty.val.String(), want.k)
	return "0", want
}

func (t *ggTr) wrapArith(text string, ty *ggT) string {
	switch ty.bits {
	case 32:
		return "(gu32 " + text + ")"
	case 64:
		return "(gu64 " + text + ")"
	}
	return text
}

func ggIsIdent(e ast.Expr, name string) bool {
	id, ok := e.(*ast.Ident)
	return ok && id.Name == name
}

func ggSelName(e ast.Expr) string { // "pkg.Name" for a selector on an identifier
	if se, ok := e.(*ast.SelectorExpr); ok {
		if id, ok := se.X.(*ast.Ident); ok {
			return id.Name + "." + se.Sel.Name
		}
	}
	return ""
}

func (t *ggTr) structOf(ty *ggT) *ggStruct {
	if ty.sname == "" {
		return nil
	}
	return ggStructTab[ty.sname]
}

// expr translates an expression; operations that can panic are bound in *pre (nil = not allowed here).
func (t *ggTr) expr(e ast.Expr, c ggCtx, pre *[]string) (string, *ggT) {
	switch x := e.(type) {
	case *ast.ParenExpr:
		return t.expr(x.X, c, pre)
	case *ast.BasicLit:
		if x.Kind == token.INT || x.Kind == token.FLOAT {
			if v, ok := evalConst(t.p, x); ok {
				return "", &ggT{k: "const", val: v}
			}
		}
	case *ast.Ident:
		switch x.Name {
		case "true", "false":
			if _, sh := c.lookup(x.Name); !sh {
				return x.Name, ggBool
			}
		case "nil":
			return "", ggNil
		}
		if v, ok := c.lookup(x.Name); ok {
			return "v_" + v.name, v.t
		}
		if ce, ok := t.p.consts[x.Name]; ok {
			if v, ok := evalConst(t.p, ce); ok {
				return "", &ggT{k: "const", val: v}
			}
		}
		t.fail(e, "unknown identifier %s", x.Name)
		return "0", ggBad
	case *ast.SelectorExpr:
		a, ta := t.expr(x.X, c, pre)
		if ta.k == "pentry" {
			id, isId := x.X.(*ast.Ident)
			if !isId {
				t.fail(e, "a *tableEntry that is not a variable")
				return "0", ggBad
			}
			tmp, have := t.loads[id.Name]
			if !have {
				if pre == nil {
					t.fail(e, "the first use of %s.%s in this statement stands to the right of && / ||", id.Name, x.Sel.Name)
					return "0", ggBad
				}
				tmp = t.tmp()
				*pre = append(*pre, "do "+tmp+" <- gg_load "+t.base(e)+" "+a+";\n")
				t.loads[id.Name] = tmp
			}
			ft, ok := ggStructTab["tableEntry"].field(x.Sel.Name)
			if !ok {
				t.fail(e, "tableEntry has no field %s", x.Sel.Name)
				return "0", ggBad
			}
			return "(gg_tableEntry_" + x.Sel.Name + " " + tmp + ")", ft
		}
		if s := t.structOf(ta); s != nil {
			if ft, ok := s.field(x.Sel.Name); ok {
				return "(gg_" + s.name + "_" + x.Sel.Name + " " + a + ")", ft
			}
			if s.name == "table" && x.Sel.Name == "comparables" {
				return "tt", ggComps
			}
			t.fail(e, "%s has no field %s", s.name, x.Sel.Name)
			return "0", ggBad
		}
	case *ast.IndexExpr:
		a, ta := t.expr(x.X, c, pre)
		i, ti := t.expr(x.Index, c, pre)
		i, ti = t.coerce(x.Index, i, ti, ggInt)
		if ti.k != "int" {
			t.fail(e, "index of type %s", ti.k)
			return "0", ggBad
		}
		var et *ggT
		switch ta.k {
		case "entries":
			et = ggEntry
		case "ids":
			et = ggId
		case "idss":
			et = ggIds
		default:
			t.fail(e, "indexing a %s", ta.k)
			return "0", ggBad
		}
		if pre == nil {
			t.fail(e, "an index expression to the right of && / ||")
			return "0", ggBad
		}
		tmp := t.tmp()
		*pre = append(*pre, "do "+tmp+" <- gg_index "+a+" "+i+";\n")
		return tmp, et
	case *ast.UnaryExpr:
		switch x.Op {
		case token.NOT:
			a, ta := t.expr(x.X, c, pre)
			if ta.k == "bool" {
				return "(negb " + a + ")", ggBool
			}
		case token.AND:
			// &t.entries[pos]
			if ie, ok := x.X.(*ast.IndexExpr); ok {
				if se, ok := ie.X.(*ast.SelectorExpr); ok && se.Sel.Name == "entries" && t.f.recv != "" && ggIsIdent(se.X, t.f.recv) {
					a, _ := t.expr(ie.X, c, pre)
					i, ti := t.expr(ie.Index, c, pre)
					i, ti = t.coerce(ie.Index, i, ti, ggInt)
					if ti.k != "int" || pre == nil {
						t.fail(e, "address expression not understood")
						return "None", ggPentry
					}
					tmp := t.tmp()
					*pre = append(*pre, "do "+tmp+" <- gg_addr "+a+" "+i+";\n")
					return tmp, ggPentry
				}
			}
			// &table{..}
			if cl, ok := x.X.(*ast.CompositeLit); ok && ggIsIdent(cl.Type, "table") {
				return t.tableLit(cl, c, pre), ggTable
			}
			t.fail(e, "only &t.entries[i] of the receiver and &table{..} are understood")
			return "None", ggPentry
		}
	case *ast.BinaryExpr:
		return t.binary(x, c, pre)
	case *ast.CompositeLit:
		if ggSelName(x.Type) == "index.Int" {
			var parts []string
			for _, el := range x.Elts {
				a, ta := t.expr(el, c, pre)
				if ta.k != "id" {
					t.fail(el, "an element of index.Int that is not a row id")
				}
				parts = append(parts, a)
			}
			return "[" + strings.Join(parts, "; ") + "]", &ggT{k: "ids", nonempty: len(parts) > 0}
		}
	case *ast.CallExpr:
		return t.call(x, c, pre)
	}
	t.fail(e, "expression not understood: %s", t.src(e))
	return "0", ggBad
}

func (t *ggTr) tableLit(cl *ast.CompositeLit, c ggCtx, pre *[]string) string {
	s := ggStructTab["table"]
	vals := map[string]string{}
	for _, el := range cl.Elts {
		kv, ok := el.(*ast.KeyValueExpr)
		if !ok {
			t.fail(el, "table literal without field names")
			continue
		}
		name := kv.Key.(*ast.Ident).Name
		a, ta := t.expr(kv.Value, c, pre)
		if name == "comparables" {
			if ta.k != "comparables" {
				t.fail(el, "comparables initialised with something else")
			}
			continue
		}
		ft, ok := s.field(name)
		if !ok {
			t.fail(el, "table has no field %s", name)
			continue
		}
		a, ta = t.coerce(kv.Value, a, ta, ft)
		if ta.k != ft.k || ta.k == "int" && ta.bits != ft.bits {
			t.fail(el, "field %s initialised with a %s", name, ta.k)
		}
		vals[name] = a
	}
	var args []string
	for _, f := range s.fields {
		if v, ok := vals[f.name]; ok {
			args = append(args, v)
		} else {
			args = append(args, f.t.zero())
		}
	}
	return "(gg_mk_table " + strings.Join(args, " ") + ")"
}

func (t *ggTr) binary(x *ast.BinaryExpr, c ggCtx, pre *[]string) (string, *ggT) {
	if x.Op == token.LAND || x.Op == token.LOR {
		a, ta := t.expr(x.X, c, pre)
		b, tb := t.expr(x.Y, c, nil)
		if ta.k != "bool" || tb.k != "bool" {
			t.fail(x, "%s on operands that are not conditions", x.Op)
			return "false", ggBool
		}
		if x.Op == token.LAND {
			return "(if " + a + " then " + b + " else false)", ggBool
		}
		return "(if " + a + " then true else " + b + ")", ggBool
	}
	a, ta := t.expr(x.X, c, pre)
	b, tb := t.expr(x.Y, c, pre)
	// x == nil
	if tb.k == "nil" && (x.Op == token.EQL || x.Op == token.NEQ) {
		r := ""
		switch ta.k {
		case "pentry":
			r = "(gg_isnil_ptr " + a + ")"
		case "ids", "idss", "entries":
			r = "(gg_isnil " + a + ")"
		default:
			t.fail(x, "comparison of a %s with nil", ta.k)
			return "false", ggBool
		}
		if x.Op == token.NEQ {
			r = "(negb " + r + ")"
		}
		return r, ggBool
	}
	if ta.k == "const" && tb.k == "const" {
		var v *big.Rat
		switch x.Op {
		case token.ADD:
			v = new(big.Rat).Add(ta.val, tb.val)
		case token.SUB:
			v = new(big.Rat).Sub(ta.val, tb.val)
		case token.MUL:
			v = new(big.Rat).Mul(ta.val, tb.val)
		}
		if v != nil {
			return "", &ggT{k: "const", val: v}
		}
		t.fail(x, "constant expression not understood: %s", t.src(x))
		return "0", ggBad
	}
	if ta.k == "const" {
		a, ta = t.coerce(x.X, a, ta, tb)
	} else if tb.k == "const" {
		b, tb = t.coerce(x.Y, b, tb, ta)
	}
	if ta.k == "int" && tb.k == "int" {
		if ta.bits != tb.bits {
			t.fail(x, "operands of different integer types %s and %s", ta.goName(), tb.goName())
			return "0", ggBad
		}
		switch x.Op {
		case token.ADD:
			return t.wrapArith("("+a+" + "+b+")", ta), ta
		case token.SUB:
			return t.wrapArith("("+a+" - "+b+")", ta), ta
		case token.MUL:
			return t.wrapArith("("+a+" * "+b+")", ta), ta
		case token.AND:
			return "(Z.land " + a + " " + b + ")", ta
		case token.LSS:
			return "(" + a + " <? " + b + ")", ggBool
		case token.LEQ:
			return "(" + a + " <=? " + b + ")", ggBool
		case token.GTR:
			return "(" + b + " <? " + a + ")", ggBool
		case token.GEQ:
			return "(" + b + " <=? " + a + ")", ggBool
		case token.EQL:
			return "(" + a + " =? " + b + ")", ggBool
		case token.NEQ:
			return "(negb (" + a + " =? " + b + "))", ggBool
		}
	}
	if ta.k == "float" && tb.k == "float" {
		switch x.Op {
		case token.QUO:
			return "(gg_fdiv " + a + " " + b + ")", ggFloat
		case token.GTR:
			return "(gg_fgt " + a + " " + b + ")", ggBool
		case token.LSS:
			return "(gg_fgt " + b + " " + a + ")", ggBool
		}
	}
	if ta.k == "bool" && tb.k == "bool" && x.Op == token.EQL {
		return "(Bool.eqb " + a + " " + b + ")", ggBool
	}
	t.fail(x, "operator %s on %s and %s is not understood (row ids are abstract: no arithmetic or comparison on them)", x.Op, ta.k, tb.k)
	return "0", ggBad
}

// ------------------------------------------------------------------ calls

// callArgs translates the arguments of a call of a translated function (dropping the comparables).
func (t *ggTr) callArgs(g *ggFunc, ce *ast.CallExpr, c ggCtx, pre *[]string) []string {
	if len(ce.Args) != len(g.dropped) {
		t.fail(ce, "%s takes %d arguments", g.goName, len(g.dropped))
		return nil
	}
	var out []string
	k := 0
	for i, a := range ce.Args {
		txt, ty := t.expr(a, c, pre)
		if g.dropped[i] {
			if ty.k != "comparables" {
				t.fail(a, "the comparables argument of %s is not the comparables", g.goName)
			}
			continue
		}
		want := g.params[k].t
		k++
		txt, ty = t.coerce(a, txt, ty, want)
		if ty.k != want.k || ty.k == "int" && ty.bits != want.bits {
			t.fail(a, "argument of type %s where %s expects %s", ty.k, g.goName, want.k)
		}
		out = append(out, txt)
	}
	return out
}

func (t *ggTr) callee(g *ggFunc, n ast.Node) {
	if g == t.f {
		t.fail(n, "recursion")
	} else if !g.done {
		t.fail(n, "%s is called before it is translated (order of ggSpecs)", g.goName)
	}
}

func (t *ggTr) call(x *ast.CallExpr, c ggCtx, pre *[]string) (string, *ggT) {
	if id, ok := x.Fun.(*ast.Ident); ok {
		if _, shadowed := c.lookup(id.Name); shadowed {
			t.fail(x, "%s shadows a function", id.Name)
			return "0", ggBad
		}
		switch id.Name {
		case "uint32", "uint64", "int", "float64":
			if len(x.Args) != 1 {
				break
			}
			a, ta := t.expr(x.Args[0], c, pre)
			a, ta = t.coerce(x.Args[0], a, ta, ggInt)
			if ta.k != "int" {
				t.fail(x, "conversion of a %s to %s (row ids are abstract)", ta.k, id.Name)
				return "0", ggBad
			}
			switch id.Name {
			case "uint32":
				return "(gu32 " + a + ")", ggU32
			case "uint64":
				return "(gu64 " + a + ")", ggU64
			case "int":
				return "(gs64 " + a + ")", ggInt
			}
			return "(gg_float " + a + ")", ggFloat
		case "len":
			if len(x.Args) == 1 {
				a, ta := t.expr(x.Args[0], c, pre)
				switch ta.k {
				case "ids", "idss", "entries":
					return "(Z.of_nat (length " + a + "))", ggInt
				}
			}
		case "append":
			if len(x.Args) == 2 {
				a, ta := t.expr(x.Args[0], c, pre)
				b, tb := t.expr(x.Args[1], c, pre)
				if ta.k == "ids" && tb.k == "id" {
					return "(" + a + " ++ [" + b + "])", &ggT{k: "ids", nonempty: true}
				}
				if ta.k == "idss" && tb.k == "ids" {
					return "(" + a + " ++ [" + b + "])", &ggT{k: "idss", nonempty: true}
				}
			}
		case "make":
			if len(x.Args) == 2 || len(x.Args) == 3 {
				var ty *ggT
				switch t.src(x.Args[0]) {
				case "[]tableEntry":
					ty = ggEntrs
				case "index.Int":
					ty = ggIds
				case "[]index.Int":
					ty = ggIdss
				}
				if ty == nil || pre == nil {
					break
				}
				n, tn := t.expr(x.Args[1], c, pre)
				n, tn = t.coerce(x.Args[1], n, tn, ggInt)
				cp := n
				tc := tn
				if len(x.Args) == 3 {
					cp, tc = t.expr(x.Args[2], c, pre)
					cp, tc = t.coerce(x.Args[2], cp, tc, ggInt)
				}
				if tn.k != "int" || tc.k != "int" {
					t.fail(x, "make with a length that is not an integer")
					return "[]", ty
				}
				zero := map[string]string{"entries": "(gg_tableEntry_zero id0)", "ids": "id0", "idss": "(@nil A)"}[ty.k]
				tmp := t.tmp()
				*pre = append(*pre, "do "+tmp+" <- gg_make "+zero+" "+n+" "+cp+";\n")
				return tmp, ty
			}
		case "equals":
			if len(x.Args) == 3 {
				_, t0 := t.expr(x.Args[0], c, pre)
				a, ta := t.expr(x.Args[1], c, pre)
				b, tb := t.expr(x.Args[2], c, pre)
				if t0.k == "comparables" && ta.k == "id" && tb.k == "id" {
					return "(eqb " + a + " " + b + ")", ggBool
				}
			}
		case "calculateInitialSizeExp":
			gf, ok := gfFuncs[ggPkg+":calculateInitialSizeExp"]
			if !ok || len(x.Args) != 1 || len(gf.params) != 1 {
				break
			}
			a, ta := t.expr(x.Args[0], c, pre)
			a, ta = t.coerce(x.Args[0], a, ta, ggInt)
			if ta.k != "int" || ta.bits != 0 {
				break
			}
			if gf.partial {
				if pre == nil {
					break
				}
				tmp := t.tmp()
				*pre = append(*pre, "do "+tmp+" <- of_option ("+gf.name+" "+a+");\n")
				return tmp, ggInt
			}
			return "(" + gf.name + " " + a + ")", ggInt
		}
		if g, ok := ggFuncs[id.Name]; ok && g.recv == "" {
			if len(g.results) != 1 {
				t.fail(x, "%s has %d results: only understood as a statement", g.goName, len(g.results))
				return "0", ggBad
			}
			if pre == nil {
				t.fail(x, "a call of %s to the right of && / ||", g.goName)
				return "0", ggBad
			}
			t.callee(g, x)
			args := t.callArgs(g, x, c, pre)
			tmp := t.tmp()
			*pre = append(*pre, "do "+tmp+" <- "+strings.Join(append([]string{g.coq, "fuel'"}, args...), " ")+";\n")
			return tmp, g.results[0]
		}
	}
	if ggSelName(x.Fun) == "integer.Pow2" && len(x.Args) == 1 {
		a, ta := t.expr(x.Args[0], c, pre)
		a, ta = t.coerce(x.Args[0], a, ta, ggInt)
		if ta.k == "int" && ta.bits == 0 {
			return "(gg_Pow2 " + a + ")", ggInt
		}
	}
	// t.hash(i)
	if se, ok := x.Fun.(*ast.SelectorExpr); ok && se.Sel.Name == "hash" && len(x.Args) == 1 {
		_, tr := t.expr(se.X, c, pre)
		a, ta := t.expr(x.Args[0], c, pre)
		if tr.k == "table" && ta.k == "id" {
			return "(gg_hash " + a + ")", ggU32
		}
	}
	t.fail(x, "call not understood: %s", t.src(x))
	return "0", ggBad
}

// ------------------------------------------------------------------ syntactic analyses

func ggTuple(parts []string) string {
	if len(parts) == 1 {
		return parts[0]
	}
	return "(" + strings.Join(parts, ", ") + ")"
}

func ggTypeTuple(parts []string) string {
	if len(parts) == 1 {
		return parts[0]
	}
	return "(" + strings.Join(parts, " * ") + ")"
}

func ggRoot(e ast.Expr) (string, bool) { // root variable of x, x.f.g, x[i].f ..; simple = plain identifier
	switch x := e.(type) {
	case *ast.Ident:
		return x.Name, true
	case *ast.SelectorExpr:
		r, _ := ggRoot(x.X)
		return r, false
	case *ast.IndexExpr:
		r, _ := ggRoot(x.X)
		return r, false
	case *ast.ParenExpr:
		return ggRoot(x.X)
	}
	return "", false
}

// assigned: the variables of c (in order) that the nodes may assign.
func (t *ggTr) assigned(c ggCtx, nodes ...ast.Node) []ggVar {
	names := map[string]bool{}
	mark := func(lhs ast.Expr) {
		r, simple := ggRoot(lhs)
		if r == "" {
			return
		}
		if v, ok := c.lookup(r); ok && v.t.k != "pentry" || simple {
			names[r] = true
			return
		}
		// a store through a *tableEntry (or through a variable declared further inside): the receiver changes
		if t.f.recv != "" {
			names[t.f.recv] = true
		}
	}
	for _, n := range nodes {
		ast.Inspect(n, func(m ast.Node) bool {
			switch x := m.(type) {
			case *ast.AssignStmt:
				if x.Tok != token.DEFINE {
					for _, l := range x.Lhs {
						mark(l)
					}
				}
			case *ast.IncDecStmt:
				mark(x.X)
			case *ast.ExprStmt:
				if ce, ok := x.X.(*ast.CallExpr); ok {
					if se, ok := ce.Fun.(*ast.SelectorExpr); ok {
						if g, ok := ggFuncs[se.Sel.Name]; ok && g.recv != "" {
							if r, _ := ggRoot(se.X); r != "" {
								names[r] = true
							}
						}
					}
				}
			}
			return true
		})
	}
	var out []ggVar
	for _, v := range c.vars {
		if names[v.name] {
			out = append(out, v)
		}
	}
	return out
}

func ggVarNames(vs []ggVar) []string {
	var out []string
	for _, v := range vs {
		out = append(out, "v_"+v.name)
	}
	return out
}

func ggVarTypes(vs []ggVar) []string {
	var out []string
	for _, v := range vs {
		out = append(out, v.t.coq())
	}
	return out
}

// ------------------------------------------------------------------ statements

func (t *ggTr) declare(n ast.Node, c *ggCtx, name string, ty *ggT) {
	if _, dup := c.lookup(name); dup {
		t.fail(n, "%s shadows / redeclares a variable", name)
	}
	if _, isFn := ggFuncs[name]; isFn {
		t.fail(n, "%s shadows a function", name)
	}
	if ty.k == "pentry" {
		t.ptrSeen = true
	}
	if ty.k == "const" || ty.k == "nil" || ty.k == "bad" || ty.k == "comparables" {
		t.fail(n, "variable %s of a type that is not understood", name)
		ty = ggInt
	}
	c.vars = append(c.vars, ggVar{name, &ggT{k: ty.k, bits: ty.bits, sname: ty.sname}})
}

func (t *ggTr) compatible(n ast.Node, have, want *ggT, what string) {
	if have.k != want.k || have.k == "int" && have.bits != want.bits {
		t.fail(n, "%s: a %s where a %s is expected", what, have.goName(), want.goName())
	}
}

// store: the statement(s) that give the place lhs the value val.
func (t *ggTr) store(lhs ast.Expr, val string, tv *ggT, c ggCtx, pre *[]string) string {
	switch x := lhs.(type) {
	case *ast.ParenExpr:
		return t.store(x.X, val, tv, c, pre)
	case *ast.Ident:
		v, ok := c.lookup(x.Name)
		if !ok {
			t.fail(lhs, "unknown variable %s", x.Name)
			return ""
		}
		t.compatible(lhs, tv, v.t, "assignment to "+x.Name)
		if v.t.k == "pentry" && t.f.recv == "" {
			t.fail(lhs, "a *tableEntry in a function without receiver")
		}
		return "let v_" + x.Name + " := " + val + " in\n"
	case *ast.SelectorExpr:
		if id, ok := x.X.(*ast.Ident); ok {
			if v, ok := c.lookup(id.Name); ok && v.t.k == "pentry" {
				ft, ok := ggStructTab["tableEntry"].field(x.Sel.Name)
				if !ok {
					t.fail(lhs, "tableEntry has no field %s", x.Sel.Name)
					return ""
				}
				t.compatible(lhs, tv, ft, "assignment to ."+x.Sel.Name)
				if (ft.k == "ids" || ft.k == "idss") && !tv.nonempty {
					t.fail(lhs, "a slice that may be empty but not nil is stored in a field")
				}
				b := t.base(lhs)
				return "do " + b + " <- gg_store " + b + " v_" + id.Name + " (fun e0 => gg_tableEntry_set_" + x.Sel.Name + " e0 " + val + ");\n"
			}
		}
		a, ta := t.expr(x.X, c, pre)
		s := t.structOf(ta)
		if s == nil {
			t.fail(lhs, "assignment to a field of a %s", ta.k)
			return ""
		}
		ft, ok := s.field(x.Sel.Name)
		if !ok {
			t.fail(lhs, "%s has no field %s", s.name, x.Sel.Name)
			return ""
		}
		t.compatible(lhs, tv, ft, "assignment to ."+x.Sel.Name)
		if (ft.k == "ids" || ft.k == "idss") && !tv.nonempty {
			t.fail(lhs, "a slice that may be empty but not nil is stored in a field")
		}
		if s.name == "table" && x.Sel.Name == "entries" && t.f.recv != "" && ggIsIdent(x.X, t.f.recv) && t.ptrSeen {
			t.fail(lhs, "t.entries is replaced while a *tableEntry may be alive")
		}
		return t.store(x.X, "(gg_"+s.name+"_set_"+x.Sel.Name+" "+a+" "+val+")", ta, c, pre)
	case *ast.IndexExpr:
		a, ta := t.expr(x.X, c, pre)
		i, ti := t.expr(x.Index, c, pre)
		i, ti = t.coerce(x.Index, i, ti, ggInt)
		if ta.k != "entries" || ti.k != "int" || tv.k != "entry" {
			t.fail(lhs, "index assignment not understood")
			return ""
		}
		tmp := t.tmp()
		return "do " + tmp + " <- gg_update " + a + " " + i + " " + val + ";\n" + t.store(x.X, tmp, ta, c, pre)
	}
	t.fail(lhs, "assignment to %s", t.src(lhs))
	return ""
}

// simple: a statement without control flow, as a prefix "let .. in\n" / "do .. <- ..;\n"
func (t *ggTr) simple(st ast.Stmt, c *ggCtx) (string, bool) {
	t.loads = map[string]string{}
	var pre []string
	wrap := func(s string) string { return strings.Join(pre, "") + s }
	switch x := st.(type) {
	case *ast.DeclStmt:
		gd, ok := x.Decl.(*ast.GenDecl)
		if !ok || gd.Tok != token.VAR {
			return "", false
		}
		out := ""
		for _, sp := range gd.Specs {
			vs := sp.(*ast.ValueSpec)
			if vs.Type == nil || len(vs.Values) != 0 {
				t.fail(st, "only `var x T` is understood")
				return "", true
			}
			for _, n := range vs.Names {
				ty := ggResolve(t.p, vs.Type, t.f.goName+"."+n.Name)
				if ty.k == "bad" || ty.k == "table" {
					t.fail(st, "type %s of %s is not understood", t.src(vs.Type), n.Name)
					return "", true
				}
				t.declare(st, c, n.Name, ty)
				out += "let v_" + n.Name + " := " + ty.zero() + " in\n"
			}
		}
		return out, true
	case *ast.IncDecStmt:
		a, ta := t.expr(x.X, *c, &pre)
		if ta.k != "int" {
			t.fail(st, "%s on a %s", x.Tok, ta.k)
			return "", true
		}
		op := " + 1"
		if x.Tok == token.DEC {
			op = " - 1"
		}
		return wrap(t.store(x.X, t.wrapArith("("+a+op+")", ta), ta, *c, &pre)), true
	case *ast.ExprStmt:
		ce, ok := x.X.(*ast.CallExpr)
		if !ok {
			return "", false
		}
		if se, ok := ce.Fun.(*ast.SelectorExpr); ok {
			if g, ok := ggFuncs[se.Sel.Name]; ok && g.recv != "" {
				id, isId := se.X.(*ast.Ident)
				v, known := ggVar{}, false
				if isId {
					v, known = c.lookup(id.Name)
				}
				if !known || v.t.k != "table" {
					t.fail(st, "method %s on something that is not a *table variable", g.goName)
					return "", true
				}
				if len(g.results) != 0 {
					t.fail(st, "the results of %s are dropped", g.goName)
					return "", true
				}
				if id.Name == t.f.recv && t.ptrSeen {
					t.fail(st, "a method of the receiver is called while a *tableEntry may be alive")
				}
				t.callee(g, st)
				args := t.callArgs(g, ce, *c, &pre)
				return wrap("do v_" + id.Name + " <- " + strings.Join(append([]string{g.coq, "fuel'", "v_" + id.Name}, args...), " ") + ";\n"), true
			}
		}
		t.fail(st, "statement not understood: %s", t.src(st))
		return "", true
	case *ast.AssignStmt:
		if x.Tok != token.DEFINE && x.Tok != token.ASSIGN {
			t.fail(st, "assignment operator %s", x.Tok)
			return "", true
		}
		// a, b := f(..)
		if len(x.Rhs) == 1 && len(x.Lhs) > 1 {
			ce, ok := x.Rhs[0].(*ast.CallExpr)
			var g *ggFunc
			if ok {
				if id, ok := ce.Fun.(*ast.Ident); ok {
					g = ggFuncs[id.Name]
				}
			}
			if g == nil || g.recv != "" || len(g.results) != len(x.Lhs) || x.Tok != token.DEFINE {
				t.fail(st, "multiple assignment not understood")
				return "", true
			}
			t.callee(g, st)
			args := t.callArgs(g, ce, *c, &pre)
			var pat []string
			for i, l := range x.Lhs {
				id, ok := l.(*ast.Ident)
				if !ok {
					t.fail(st, "multiple assignment to something that is not a variable")
					return "", true
				}
				t.declare(st, c, id.Name, g.results[i])
				pat = append(pat, "v_"+id.Name)
			}
			return wrap("do " + ggTuple(pat) + " <- " + strings.Join(append([]string{g.coq, "fuel'"}, args...), " ") + ";\n"), true
		}
		if len(x.Rhs) != len(x.Lhs) || len(x.Lhs) != 1 {
			t.fail(st, "assignment with %d left and %d right sides", len(x.Lhs), len(x.Rhs))
			return "", true
		}
		a, ta := t.expr(x.Rhs[0], *c, &pre)
		if x.Tok == token.DEFINE {
			id, ok := x.Lhs[0].(*ast.Ident)
			if !ok {
				t.fail(st, ":= on something that is not a variable")
				return "", true
			}
			if ta.k == "const" {
				a, ta = t.coerce(x.Rhs[0], a, ta, ggInt)
			}
			t.declare(st, c, id.Name, ta)
			return wrap("let v_" + id.Name + " := " + a + " in\n"), true
		}
		// the type of the place decides how a constant is read
		if ta.k == "const" {
			_, tl := t.expr(x.Lhs[0], *c, &pre)
			a, ta = t.coerce(x.Rhs[0], a, ta, tl)
		}
		return wrap(t.store(x.Lhs[0], a, ta, *c, &pre)), true
	}
	return "", false
}

func ggRestrict(inner, outer ggCtx) ggCtx {
	r := outer
	r.vars = inner.vars[:len(outer.vars)]
	return r
}

func ggElse(x *ast.IfStmt) []ast.Stmt {
	switch e := x.Else.(type) {
	case nil:
		return nil
	case *ast.BlockStmt:
		return e.List
	default:
		return []ast.Stmt{e}
	}
}

func (t *ggTr) stmts(list []ast.Stmt, c ggCtx, k func(ggCtx) string) string {
	if len(list) == 0 {
		return k(c)
	}
	st, rest := list[0], list[1:]
	memo, have := "", false
	next := func(c2 ggCtx) string {
		if !have {
			memo, have = t.stmts(rest, c2, k), true
		}
		return memo
	}
	switch x := st.(type) {
	case *ast.ReturnStmt:
		if len(rest) > 0 {
			t.fail(rest[0], "statement after return")
		}
		if c.inLoop {
			t.fail(st, "return inside a loop")
			return "Panic"
		}
		return t.ret(x, c)
	case *ast.BranchStmt:
		if x.Tok != token.BREAK || x.Label != nil || c.brk == nil {
			t.fail(st, "%s is not understood here", x.Tok)
			return "Panic"
		}
		if len(rest) > 0 {
			t.fail(rest[0], "statement after break")
		}
		return c.brk(c)
	case *ast.BlockStmt:
		return t.stmts(x.List, c, func(c2 ggCtx) string { return next(ggRestrict(c2, c)) })
	case *ast.IfStmt:
		if x.Init != nil {
			t.fail(st, "if with an init statement")
			return "Panic"
		}
		t.loads = map[string]string{}
		var pre []string
		ct, tc := t.expr(x.Cond, c, &pre)
		if tc.k != "bool" {
			t.fail(x.Cond, "a condition is expected")
		}
		head := strings.Join(pre, "") + "if " + ct + " then\n"
		elseList := ggElse(x)
		if !gsEscapes(x) {
			var nodes []ast.Node
			nodes = append(nodes, x.Body)
			if x.Else != nil {
				nodes = append(nodes, x.Else)
			}
			vs := t.assigned(c, nodes...)
			if len(vs) == 0 {
				t.fail(st, "an if that assigns nothing")
				return "Panic"
			}
			okPat := "Ok " + ggTuple(ggVarNames(vs))
			thenT := t.stmts(x.Body.List, c, func(ggCtx) string { return okPat })
			elseT := t.stmts(elseList, c, func(ggCtx) string { return okPat })
			inner := head + gsIndent(thenT) + "\nelse\n" + gsIndent(elseT)
			return "do " + ggTuple(ggVarNames(vs)) + " <- (\n" + gsIndent(inner) + ");\n" + next(c)
		}
		thenT := t.stmts(x.Body.List, c, func(c2 ggCtx) string { return next(ggRestrict(c2, c)) })
		elseT := t.stmts(elseList, c, func(c2 ggCtx) string { return next(ggRestrict(c2, c)) })
		return head + gsIndent(thenT) + "\nelse\n" + gsIndent(elseT)
	case *ast.ForStmt:
		return t.forStmt(x, c, next)
	case *ast.RangeStmt:
		return t.rangeStmt(x, c, next)
	}
	if text, ok := t.simple(st, &c); ok {
		return text + next(c)
	}
	t.fail(st, "statement not understood: %s", t.src(st))
	return "Panic"
}

func (t *ggTr) ret(x *ast.ReturnStmt, c ggCtx) string {
	t.loads = map[string]string{}
	var pre []string
	var res []string
	if len(x.Results) != len(t.f.results) {
		t.fail(x, "return with %d values, the function has %d results", len(x.Results), len(t.f.results))
		return "Panic"
	}
	for i, r := range x.Results {
		a, ta := t.expr(r, c, &pre)
		a, ta = t.coerce(r, a, ta, t.f.results[i])
		t.compatible(r, ta, t.f.results[i], "result")
		res = append(res, a)
	}
	return strings.Join(pre, "") + t.okResult(res)
}

func (t *ggTr) okResult(res []string) string {
	parts := append([]string{}, res...)
	if t.f.recv != "" {
		parts = append(parts, "v_"+t.f.recv)
	}
	if len(parts) == 0 {
		return "Ok tt"
	}
	return "Ok " + ggTuple(parts)
}

// loopDef emits the Fixpoint of a loop and answers its call; body contains @REC@ where the loop continues.
func (t *ggTr) loopDef(c1 ggCtx, res []ggVar, body string, overList string, elemVar *ggVar) (name string, callArgs []string) {
	var ps []ggVar
	for _, v := range c1.vars {
		if elemVar != nil && v.name == elemVar.name {
			continue
		}
		if gsMentions(body, "v_"+v.name) {
			ps = append(ps, v)
		}
	}
	for _, r := range res { // what the exit answers must be a parameter even when the body does not mention it
		found := false
		for _, v := range ps {
			if v.name == r.name {
				found = true
			}
		}
		if !found {
			ps = append(ps, r)
		}
	}
	useFuel := gsMentions(body, "fuel'")
	name = fmt.Sprintf("%s_loop%d", t.f.coq, len(t.loops)+1)
	var sig, recArgs []string
	if useFuel {
		sig = append(sig, "(fuel' : nat)")
		recArgs = append(recArgs, "fuel'")
		callArgs = append(callArgs, "fuel'")
	}
	if elemVar == nil {
		sig = append(sig, "(k : nat)")
		recArgs = append(recArgs, "k'")
		callArgs = append(callArgs, "fuel'")
	} else {
		sig = append(sig, "(l : list "+elemVar.t.coq()+")")
		recArgs = append(recArgs, "l'")
		callArgs = append(callArgs, overList)
	}
	for _, v := range ps {
		sig = append(sig, "(v_"+v.name+" : "+v.t.coq()+")")
		recArgs = append(recArgs, "v_"+v.name)
		callArgs = append(callArgs, "v_"+v.name)
	}
	body = strings.ReplaceAll(body, "@REC@", name+" "+strings.Join(recArgs, " "))
	resType := "outcome " + ggTypeTuple(ggVarTypes(res))
	var def string
	if elemVar == nil {
		def = "Fixpoint " + name + " " + strings.Join(sig, " ") + " {struct k} : " + resType + " :=\n" +
			"  match k with\n  | O => Panic\n  | S k' =>\n" + gsIndent(gsIndent(body)) + "\n  end.\n"
	} else {
		def = "Fixpoint " + name + " " + strings.Join(sig, " ") + " {struct l} : " + resType + " :=\n" +
			"  match l with\n  | [] => Ok " + ggTuple(ggVarNames(res)) + "\n  | v_" + elemVar.name + " :: l' =>\n" + gsIndent(gsIndent(body)) + "\n  end.\n"
	}
	t.loops = append(t.loops, def)
	return name, callArgs
}

func (t *ggTr) forStmt(x *ast.ForStmt, c ggCtx, next func(ggCtx) string) string {
	c1 := c
	initText := ""
	if x.Init != nil {
		txt, ok := t.simple(x.Init, &c1)
		if !ok {
			t.fail(x.Init, "loop init statement not understood")
		}
		initText = txt
	}
	if gsContainsReturn(x.Body) {
		t.fail(x, "return inside a loop")
		return "Panic"
	}
	var nodes []ast.Node
	nodes = append(nodes, x.Body)
	if x.Post != nil {
		nodes = append(nodes, x.Post)
	}
	res := t.assigned(c, nodes...)
	if len(res) == 0 {
		t.fail(x, "a loop that changes nothing")
		return "Panic"
	}
	exit := "Ok " + ggTuple(ggVarNames(res))
	cb := c1
	cb.inLoop = true
	cb.brk = func(ggCtx) string { return exit }
	iter := t.stmts(x.Body.List, cb, func(c2 ggCtx) string {
		c3 := ggRestrict(c2, cb)
		post := ""
		if x.Post != nil {
			txt, ok := t.simple(x.Post, &c3)
			if !ok {
				t.fail(x.Post, "loop post statement not understood")
			}
			post = txt
		}
		return post + "@REC@"
	})
	body := iter
	if x.Cond != nil {
		t.loads = map[string]string{}
		var pre []string
		ct, tc := t.expr(x.Cond, c1, &pre)
		if tc.k != "bool" {
			t.fail(x.Cond, "a condition is expected")
		}
		body = strings.Join(pre, "") + "if " + ct + " then\n" + gsIndent(iter) + "\nelse\n" + gsIndent(exit)
	}
	name, callArgs := t.loopDef(c1, res, body, "", nil)
	return initText + "do " + ggTuple(ggVarNames(res)) + " <- " + name + " " + strings.Join(callArgs, " ") + ";\n" + next(c)
}

func (t *ggTr) rangeStmt(x *ast.RangeStmt, c ggCtx, next func(ggCtx) string) string {
	if x.Tok != token.DEFINE || !ggIsIdent(x.Key, "_") || x.Value == nil {
		t.fail(x, "only `for _, e := range X` is understood")
		return "Panic"
	}
	ev, ok := x.Value.(*ast.Ident)
	if !ok {
		t.fail(x, "range value that is not a variable")
		return "Panic"
	}
	if gsContainsReturn(x.Body) {
		t.fail(x, "return inside a loop")
		return "Panic"
	}
	t.loads = map[string]string{}
	var pre []string
	over, to := t.expr(x.X, c, &pre)
	var et *ggT
	switch to.k {
	case "entries":
		et = ggEntry
	case "ids":
		et = ggId
	case "idss":
		et = ggIds
	default:
		t.fail(x.X, "range over a %s", to.k)
		return "Panic"
	}
	res := t.assigned(c, x.Body)
	if len(res) == 0 {
		t.fail(x, "a loop that changes nothing")
		return "Panic"
	}
	exit := "Ok " + ggTuple(ggVarNames(res))
	cb := c
	t.declare(x, &cb, ev.Name, et)
	cb.inLoop = true
	cb.brk = func(ggCtx) string { return exit }
	elem := cb.vars[len(cb.vars)-1]
	iter := t.stmts(x.Body.List, cb, func(ggCtx) string { return "@REC@" })
	name, callArgs := t.loopDef(cb, res, iter, over, &elem)
	return strings.Join(pre, "") + "do " + ggTuple(ggVarNames(res)) + " <- " + name + " " + strings.Join(callArgs, " ") + ";\n" + next(c)
}

// ------------------------------------------------------------------ functions

func ggSignature(p *pkgInfo, f *ggFunc) bool {
	fd := f.fd
	if fd.Recv != nil {
		if len(fd.Recv.List) != 1 || len(fd.Recv.List[0].Names) != 1 || ggSrc(p.fset, fd.Recv.List[0].Type) != "*table" {
			problem("internal/grouper/grouper.go translation, function %s: receiver not understood", f.goName)
			return false
		}
		f.recv = fd.Recv.List[0].Names[0].Name
	}
	for _, fl := range fd.Type.Params.List {
		for _, n := range fl.Names {
			ty := ggResolve(p, fl.Type, f.goName+"."+n.Name)
			switch ty.k {
			case "comparables":
				f.dropped = append(f.dropped, true)
				continue
			case "bad", "table", "pentry":
				problem("internal/grouper/grouper.go translation, function %s: argument %s has a type that is not understood", f.goName, n.Name)
				return false
			}
			f.dropped = append(f.dropped, false)
			f.params = append(f.params, ggVar{n.Name, ty})
		}
	}
	if fd.Type.Results != nil {
		for _, fl := range fd.Type.Results.List {
			ty := ggResolve(p, fl.Type, f.goName+".result")
			if ty.k == "bad" || ty.k == "pentry" || ty.k == "comparables" || len(fl.Names) > 0 {
				problem("internal/grouper/grouper.go translation, function %s: result type not understood", f.goName)
				return false
			}
			f.results = append(f.results, ty)
		}
	}
	return true
}

func ggTranslate(p *pkgInfo, f *ggFunc) {
	t := &ggTr{p: p, f: f, loads: map[string]string{}}
	c := ggCtx{}
	if f.recv != "" {
		c.vars = append(c.vars, ggVar{f.recv, ggTable})
	}
	// the comparables parameters stay visible (as values that can only be handed on)
	for _, fl := range f.fd.Type.Params.List {
		for _, n := range fl.Names {
			if ggResolve(p, fl.Type, "").k == "comparables" {
				c.vars = append(c.vars, ggVar{n.Name, ggComps})
			}
		}
	}
	c.vars = append(c.vars, f.params...)
	body := t.stmts(f.fd.Body.List, c, func(c2 ggCtx) string {
		if len(f.results) != 0 {
			t.fail(f.fd, "the function can fall off its end")
		}
		return t.okResult(nil)
	})
	var sig []string
	sig = append(sig, "(fuel : nat)")
	if f.recv != "" {
		sig = append(sig, "(v_"+f.recv+" : "+ggTable.coq()+")")
	}
	for _, v := range f.params {
		sig = append(sig, "(v_"+v.name+" : "+v.t.coq()+")")
	}
	var tys []string
	for _, r := range f.results {
		tys = append(tys, r.coq())
	}
	if f.recv != "" {
		tys = append(tys, ggTable.coq())
	}
	resType := "outcome unit"
	if len(tys) > 0 {
		resType = "outcome " + ggTypeTuple(tys)
	}
	var b strings.Builder
	fmt.Fprintf(&b, "(* %s\n%s *)\n", ggPkg, gsSource(p, f.fd))
	for _, l := range t.loops {
		b.WriteString(l)
	}
	fmt.Fprintf(&b, "Definition %s %s : %s :=\n  match fuel with\n  | O => Panic\n  | S fuel' =>\n%s\n  end.\n",
		f.coq, strings.Join(sig, " "), resType, gsIndent(gsIndent(body)))
	f.text = b.String()
	f.ok = !t.bad
}

func ggStructSource(p *pkgInfo, name string) string {
	for _, f := range p.files {
		for _, d := range f.Decls {
			gd, ok := d.(*ast.GenDecl)
			if !ok || gd.Tok != token.TYPE {
				continue
			}
			for _, s := range gd.Specs {
				ts := s.(*ast.TypeSpec)
				if ts.Name.Name == name {
					cp := *ts
					cp.Doc, cp.Comment = nil, nil
					src := "type " + ggSrc(p.fset, &cp)
					src = strings.ReplaceAll(src, "(*", "( *")
					src = strings.ReplaceAll(src, "*)", "* )")
					return src
				}
			}
		}
	}
	return ""
}

func genGrouper() string {
	p := loadPkg(ggPkg)
	for _, v := range ggVocabulary {
		vp := loadPkg(v.pkg)
		fd, ok := vp.funcs[v.fn]
		if !ok || fd.Body == nil {
			problem("internal/grouper/grouper.go translation: function %s not found in %s", v.fn, v.pkg)
			continue
		}
		if ggSrc(vp.fset, fd.Body) != v.body {
			problem("internal/grouper/grouper.go translation: the body of %s (%s) is not the one the vocabulary gg_hash / eqb / gg_Pow2 of the translation stands for", v.fn, v.pkg)
		}
	}
	ggLoadStructs(p)
	ggFuncs = map[string]*ggFunc{}
	var order []*ggFunc
	for _, n := range ggSpecs {
		short := n[strings.LastIndex(n, ".")+1:]
		f := &ggFunc{goName: n, short: short, coq: "gg_" + short}
		ggFuncs[short] = f
		order = append(order, f)
	}
	structsOK := true
	for _, s := range ggStructs {
		if !ggStructTab[s].ok {
			structsOK = false
		}
	}
	if structsOK {
		if ft, ok := ggStructTab["table"].field("entries"); !ok || ft.k != "entries" {
			problem("internal/grouper/grouper.go translation: table.entries is not a []tableEntry")
			structsOK = false
		}
	}
	for _, f := range order {
		fd, ok := p.funcs[f.goName]
		if !ok || fd.Body == nil {
			problem("internal/grouper/grouper.go translation: function %s not found in %s", f.goName, ggPkg)
			continue
		}
		f.fd = fd
		if !ggSignature(p, f) {
			f.fd = nil
		}
	}
	for _, f := range order {
		if f.fd != nil && structsOK {
			ggTranslate(p, f)
		}
		f.done = true
	}
	golden := ""
	if fl := flag.Lookup("golden"); fl != nil && fl.Value.String() != "" {
		if gb, err := os.ReadFile(filepath.Join(fl.Value.String(), "GenGrouper.v")); err == nil {
			golden = string(gb)
		}
	}
	block := func(b *strings.Builder, name, text string, ok bool) {
		if !ok {
			old, found := gfGoldenBlock(golden, name)
			if !found {
				return
			}
			text = "(* FALLBACK " + name + ": not derivable from the current source; text of the last validated tree *)\n" + old
		}
		fmt.Fprintf(b, "(* BEGIN %s *)\n%s(* END %s *)\n\n", name, text, name)
	}
	var b strings.Builder
	b.WriteString(ggPreamble1)
	for _, sn := range ggStructs {
		s := ggStructTab[sn]
		text := ""
		if s.ok {
			text = "(* " + ggPkg + "\n" + ggStructSource(p, sn) + " *)\n" + s.record(p)
		}
		block(&b, "gg_"+sn, text, s.ok)
	}
	b.WriteString(ggPreamble2)
	for _, f := range order {
		block(&b, f.coq, f.text, f.ok)
	}
	b.WriteString("End GenGrouper.\n")
	return b.String()
}
